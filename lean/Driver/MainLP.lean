import Driver.Loop
import Driver.Ops.LP
import Driver.Ops.Cert
def main : IO Unit := runDriver (Ops.LP.ops ++ Ops.Cert.ops)
