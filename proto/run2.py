import sys, time, os, copy, json, io, contextlib
os.chdir('/repo'); sys.path.insert(0,'/repo')
import matplotlib; matplotlib.use('Agg')
import numpy as np, pandas as pd, warnings
warnings.filterwarnings('ignore')
from src.scenarios.run_scenario import ScenarioRunner
from src.optimizer.optimizer import Optimizer
cap=[]
_ro=ScenarioRunner.run_optimizer
def ro(self,c,t,optimization_type=None,min_human_food_consumption=None,title='U'):
    r=_ro(self,c,t,optimization_type,min_human_food_consumption,title); cap.append((optimization_type,c,t,r)); return r
ScenarioRunner.run_optimizer=ro
tab=pd.read_csv('/repo/data/no_food_trade/computer_readable_combined.csv')
rows={r['iso3']:r for _,r in tab.iterrows()}
base=dict(scale='country',seasonality='country',grasses='country_nuclear_winter',crop_disruption='country_nuclear_winter',
 scenario='no_resilient_foods',fish='nuclear_winter',waste='baseline_in_country',nutrition='catastrophe',intake_constraints='enabled',
 stored_food='baseline',ratio_stocks_untouched='zero',shutoff='continued',cull='do_eat_culled',fat='not_required',protein='not_required',meat_strategy='reduce_breeding',NMONTHS=120)
for kv in sys.argv[2:]:
    k,v=kv.split('='); base[k]=v
isos=list(rows) if sys.argv[1]=="ALL" else sys.argv[1].split(",")
for iso in isos:
    cap.clear()
    row=rows[iso]; sr=ScenarioRunner(); t=time.time()
    try:
        with contextlib.redirect_stdout(io.StringIO()) as so:
            c,tc,sl=sr.set_depending_on_option(base,country_data=row)
            res=sr.run_and_analyze_scenario(c,tc,sl,False,False,'',row,False,row['country'],iso,title='scratch_'+iso)
    except BaseException as e:
        print(iso,'EXC',type(e).__name__,str(e)[:200]); continue
    T=c['MINIMUM_PERCENT_FED_BEFORE_NONHUMAN_CONSUMPTION_ALLOWED']
    out=[iso,'T',T,'t %.1f'%(time.time()-t)]
    for typ,cc,tt,r in cap:
        fb=r.feed_and_biofuels_sum.in_units_kcals_equivalent().kcals
        out.append('%s pct=%.3f feedbio_max=%.2f sum=%.1f'%(typ,r.percent_people_fed,fb.max(),fb.sum()))
    so=so.getvalue()
    out.append('BANNER' if 'ERROR' in so else '')
    print(*out,flush=True)
