-- GENERATED on every check run by harness/translators/tr_scenarios.py from /repo/src/scenarios/scenarios.py,
-- /repo/src/scenarios/run_scenario.py, /repo/src/food_system/animal_populations.py (main) and
-- /repo/data/no_food_trade/animal_feed_data/{FAOSTAT_head_and_slaughter,species_attributes}.csv.  Do not edit.
import AllfedModel.Model.ScenarioSyntax
namespace Allfed.Gen.Scenario
open Allfed.Scenario

/-- flags initialised to False in `Scenarios.__init__` -/
def initFlags : List String := ["NONHUMAN_CONSUMPTION_SET", "WASTE_SET", "INTAKE_CONSTRAINTS_SET", "NUTRITION_PROFILE_SET", "STORED_FOOD_SET", "STORED_FOOD_END_SIM_SET", "SCALE_SET", "SEASONALITY_SET", "GRASSES_SET", "FISH_SET", "DISRUPTION_SET", "GENERIC_INITIALIZED_SET", "SCENARIO_SET", "PROTEIN_SET", "FAT_SET", "CULLING_PARAM_SET", "MEAT_STRATEGY_SET"]
/-- flags asserted by `check_all_set` -/
def allFlags : List String := ["NONHUMAN_CONSUMPTION_SET", "WASTE_SET", "INTAKE_CONSTRAINTS_SET", "NUTRITION_PROFILE_SET", "STORED_FOOD_SET", "STORED_FOOD_END_SIM_SET", "SCALE_SET", "SEASONALITY_SET", "GRASSES_SET", "GENERIC_INITIALIZED_SET", "FISH_SET", "DISRUPTION_SET", "SCENARIO_SET", "PROTEIN_SET", "FAT_SET", "CULLING_PARAM_SET", "MEAT_STRATEGY_SET"]
/-- methods of `Scenarios` called by other methods (inlined into their callers) -/
def helpers : List String := ["init_generic_scenario", "get_global_distribution_waste", "get_distribution_waste", "no_resilient_foods", "seaweed", "greenhouse", "relocated_outdoor_crops", "expanded_area_and_relocated_outdoor_crops", "methane_scp", "cellulosic_sugar"]

def s_init_global_food_system_properties : SetterInfo :=
  { name := "init_global_food_system_properties", params := [], isOpaque := false, body := [
      .assertClear "SCALE_SET",
      .setScope true,
      .assertClear "GENERIC_INITIALIZED_SET",
      .newDict,
      .write "GLOBAL_POP" (.lit (.num 7723713182 0)),
      .write "INITIAL_GLOBAL_CROP_AREA" (.lit (.num 1430000000 0)),
      .write "DELAY" .emptyDict,
      .write "INITIAL_HARVEST_DURATION_IN_MONTHS" (.lit (.num 8 0)),
      .write "DELAY/ROTATION_CHANGE_IN_MONTHS" (.lit (.num 2 0)),
      .write "ADD_FISH" (.lit (.bool true)),
      .setFlag "GENERIC_INITIALIZED_SET",
      .write "POP" (.lit (.num 7723713182 0)),
      .write "BASELINE_CROP_KCALS" (.lit (.num 3898000000 0)),
      .write "BASELINE_CROP_FAT" (.lit (.num 322000000 0)),
      .write "BASELINE_CROP_PROTEIN" (.lit (.num 350000000 0)),
      .write "BIOFUEL_KCALS" (.lit (.num 623000000 0)),
      .write "BIOFUEL_FAT" (.lit (.num 124000000 0)),
      .write "BIOFUEL_PROTEIN" (.lit (.num 32000000 0)),
      .write "FEED_KCALS" (.lit (.num 1447960000 0)),
      .write "FEED_FAT" (.lit (.num 60000000 0)),
      .write "FEED_PROTEIN" (.lit (.num 147000000 0)),
      .write "HUMAN_INEDIBLE_FEED_BASELINE_MONTHLY" (.div (.mul (.lit (.num 4206 0)) (.lit (.num 1000000 0))) (.lit (.num 12 0))),
      .write "END_OF_MONTH_STOCKS" .emptyDict,
      .write "END_OF_MONTH_STOCKS/JAN" (.mul (.lit (.num 1960922000 0)) (.lit (.num 1015 (-3)))),
      .write "END_OF_MONTH_STOCKS/FEB" (.mul (.lit (.num 1784277000 0)) (.lit (.num 1015 (-3)))),
      .write "END_OF_MONTH_STOCKS/MAR" (.mul (.lit (.num 1624673000 0)) (.lit (.num 1015 (-3)))),
      .write "END_OF_MONTH_STOCKS/APR" (.mul (.lit (.num 1492822000 0)) (.lit (.num 1015 (-3)))),
      .write "END_OF_MONTH_STOCKS/MAY" (.mul (.lit (.num 1359236000 0)) (.lit (.num 1015 (-3)))),
      .write "END_OF_MONTH_STOCKS/JUN" (.mul (.lit (.num 1245351000 0)) (.lit (.num 1015 (-3)))),
      .write "END_OF_MONTH_STOCKS/JUL" (.mul (.lit (.num 1246485000 0)) (.lit (.num 1015 (-3)))),
      .write "END_OF_MONTH_STOCKS/AUG" (.mul (.lit (.num 1140824000 0)) (.lit (.num 1015 (-3)))),
      .write "END_OF_MONTH_STOCKS/SEP" (.mul (.lit (.num 1196499000 0)) (.lit (.num 1015 (-3)))),
      .write "END_OF_MONTH_STOCKS/OCT" (.mul (.lit (.num 1487030000 0)) (.lit (.num 1015 (-3)))),
      .write "END_OF_MONTH_STOCKS/NOV" (.mul (.lit (.num 1642406000 0)) (.lit (.num 1015 (-3)))),
      .write "END_OF_MONTH_STOCKS/DEC" (.mul (.lit (.num 1813862000 0)) (.lit (.num 1015 (-3)))),
      .write "SEAWEED_GROWTH_PER_DAY" .emptyDict,
      .write "SEAWEED_GROWTH_PER_DAY/-3" (.lit (.num 3280243527 (-9))),
      .write "SEAWEED_GROWTH_PER_DAY/-2" (.lit (.num 3334115726 (-9))),
      .write "SEAWEED_GROWTH_PER_DAY/-1" (.lit (.num 3050423835 (-9))),
      .write "SEAWEED_GROWTH_PER_DAY/0" (.lit (.num 2835455997 (-9))),
      .write "SEAWEED_GROWTH_PER_DAY/1" (.lit (.num 2847631746 (-9))),
      .write "SEAWEED_GROWTH_PER_DAY/2" (.lit (.num 3938247088 (-9))),
      .write "SEAWEED_GROWTH_PER_DAY/3" (.lit (.num 4461998946 (-9))),
      .write "SEAWEED_GROWTH_PER_DAY/4" (.lit (.num 4407004285 (-9))),
      .write "SEAWEED_GROWTH_PER_DAY/5" (.lit (.num 414288022 (-8))),
      .write "SEAWEED_GROWTH_PER_DAY/6" (.lit (.num 4019320807 (-9))),
      .write "SEAWEED_GROWTH_PER_DAY/7" (.lit (.num 4029817721 (-9))),
      .write "SEAWEED_GROWTH_PER_DAY/8" (.lit (.num 3811881724 (-9))),
      .write "SEAWEED_GROWTH_PER_DAY/9" (.lit (.num 3499376903 (-9))),
      .write "SEAWEED_GROWTH_PER_DAY/10" (.lit (.num 3698330595 (-9))),
      .write "SEAWEED_GROWTH_PER_DAY/11" (.lit (.num 3948105122 (-9))),
      .write "SEAWEED_GROWTH_PER_DAY/12" (.lit (.num 41984675 (-7))),
      .write "SEAWEED_GROWTH_PER_DAY/13" (.lit (.num 4556431237 (-9))),
      .write "SEAWEED_GROWTH_PER_DAY/14" (.lit (.num 4483116708 (-9))),
      .write "SEAWEED_GROWTH_PER_DAY/15" (.lit (.num 4307000533 (-9))),
      .write "SEAWEED_GROWTH_PER_DAY/16" (.lit (.num 4293354108 (-9))),
      .write "SEAWEED_GROWTH_PER_DAY/17" (.lit (.num 4336405342 (-9))),
      .write "SEAWEED_GROWTH_PER_DAY/18" (.lit (.num 4124423307 (-9))),
      .write "SEAWEED_GROWTH_PER_DAY/19" (.lit (.num 3957399801 (-9))),
      .write "SEAWEED_GROWTH_PER_DAY/20" (.lit (.num 3574110614 (-9))),
      .write "SEAWEED_GROWTH_PER_DAY/21" (.lit (.num 3562394509 (-9))),
      .write "SEAWEED_GROWTH_PER_DAY/22" (.lit (.num 3454517899 (-9))),
      .write "SEAWEED_GROWTH_PER_DAY/23" (.lit (.num 3388982778 (-9))),
      .write "SEAWEED_GROWTH_PER_DAY/24" (.lit (.num 3450605774 (-9))),
      .write "SEAWEED_GROWTH_PER_DAY/25" (.lit (.num 3555228229 (-9))),
      .write "SEAWEED_GROWTH_PER_DAY/26" (.lit (.num 3658816146 (-9))),
      .write "SEAWEED_GROWTH_PER_DAY/27" (.lit (.num 3424530139 (-9))),
      .write "SEAWEED_GROWTH_PER_DAY/28" (.lit (.num 3253434988 (-9))),
      .write "SEAWEED_GROWTH_PER_DAY/29" (.lit (.num 316820901 (-8))),
      .write "SEAWEED_GROWTH_PER_DAY/30" (.lit (.num 3144307864 (-9))),
      .write "SEAWEED_GROWTH_PER_DAY/31" (.lit (.num 2979931609 (-9))),
      .write "SEAWEED_GROWTH_PER_DAY/32" (.lit (.num 3029277798 (-9))),
      .write "SEAWEED_GROWTH_PER_DAY/33" (.lit (.num 2871550986 (-9))),
      .write "SEAWEED_GROWTH_PER_DAY/34" (.lit (.num 2874292984 (-9))),
      .write "SEAWEED_GROWTH_PER_DAY/35" (.lit (.num 2857490207 (-9))),
      .write "SEAWEED_GROWTH_PER_DAY/36" (.lit (.num 2855354313 (-9))),
      .write "SEAWEED_GROWTH_PER_DAY/37" (.lit (.num 2919643632 (-9))),
      .write "SEAWEED_GROWTH_PER_DAY/38" (.lit (.num 3000525927 (-9))),
      .write "SEAWEED_GROWTH_PER_DAY/39" (.lit (.num 2919633402 (-9))),
      .write "SEAWEED_GROWTH_PER_DAY/40" (.lit (.num 2776043444 (-9))),
      .write "SEAWEED_GROWTH_PER_DAY/41" (.lit (.num 2666282281 (-9))),
      .write "SEAWEED_GROWTH_PER_DAY/42" (.lit (.num 2583101843 (-9))),
      .write "SEAWEED_GROWTH_PER_DAY/43" (.lit (.num 2587772481 (-9))),
      .write "SEAWEED_GROWTH_PER_DAY/44" (.lit (.num 2674921678 (-9))),
      .write "SEAWEED_GROWTH_PER_DAY/45" (.lit (.num 2764051458 (-9))),
      .write "SEAWEED_GROWTH_PER_DAY/46" (.lit (.num 2787946778 (-9))),
      .write "SEAWEED_GROWTH_PER_DAY/47" (.lit (.num 2632984698 (-9))),
      .write "SEAWEED_GROWTH_PER_DAY/48" (.lit (.num 2358758332 (-9))),
      .write "SEAWEED_GROWTH_PER_DAY/49" (.lit (.num 2374585305 (-9))),
      .write "SEAWEED_GROWTH_PER_DAY/50" (.lit (.num 2390295172 (-9))),
      .write "SEAWEED_GROWTH_PER_DAY/51" (.lit (.num 2387672944 (-9))),
      .write "SEAWEED_GROWTH_PER_DAY/52" (.lit (.num 2375940434 (-9))),
      .write "SEAWEED_GROWTH_PER_DAY/53" (.lit (.num 2217004652 (-9))),
      .write "SEAWEED_GROWTH_PER_DAY/54" (.lit (.num 2145805788 (-9))),
      .write "SEAWEED_GROWTH_PER_DAY/55" (.lit (.num 2275670886 (-9))),
      .write "SEAWEED_GROWTH_PER_DAY/56" (.lit (.num 2586299912 (-9))),
      .write "SEAWEED_GROWTH_PER_DAY/57" (.lit (.num 2689122514 (-9))),
      .write "SEAWEED_GROWTH_PER_DAY/58" (.lit (.num 2721252781 (-9))),
      .write "SEAWEED_GROWTH_PER_DAY/59" (.lit (.num 2446378696 (-9))),
      .write "SEAWEED_GROWTH_PER_DAY/60" (.lit (.num 2153283049 (-9))),
      .write "SEAWEED_GROWTH_PER_DAY/61" (.lit (.num 2068362713 (-9))),
      .write "SEAWEED_GROWTH_PER_DAY/62" (.lit (.num 2227272558 (-9))),
      .write "SEAWEED_GROWTH_PER_DAY/63" (.lit (.num 2319325173 (-9))),
      .write "SEAWEED_GROWTH_PER_DAY/64" (.lit (.num 2277612993 (-9))),
      .write "SEAWEED_GROWTH_PER_DAY/65" (.lit (.num 2145133611 (-9))),
      .write "SEAWEED_GROWTH_PER_DAY/66" (.lit (.num 205723362 (-8))),
      .write "SEAWEED_GROWTH_PER_DAY/67" (.lit (.num 2134569407 (-9))),
      .write "SEAWEED_GROWTH_PER_DAY/68" (.lit (.num 2296677102 (-9))),
      .write "SEAWEED_GROWTH_PER_DAY/69" (.lit (.num 2652624183 (-9))),
      .write "SEAWEED_GROWTH_PER_DAY/70" (.lit (.num 2620792141 (-9))),
      .write "SEAWEED_GROWTH_PER_DAY/71" (.lit (.num 2268458649 (-9))),
      .write "SEAWEED_GROWTH_PER_DAY/72" (.lit (.num 1862008627 (-9))),
      .write "SEAWEED_GROWTH_PER_DAY/73" (.lit (.num 1810996449 (-9))),
      .write "SEAWEED_GROWTH_PER_DAY/74" (.lit (.num 2003809275 (-9))),
      .write "SEAWEED_GROWTH_PER_DAY/75" (.lit (.num 2352443263 (-9))),
      .write "SEAWEED_GROWTH_PER_DAY/76" (.lit (.num 2393824763 (-9))),
      .write "SEAWEED_GROWTH_PER_DAY/77" (.lit (.num 2228708866 (-9))),
      .write "SEAWEED_GROWTH_PER_DAY/78" (.lit (.num 2117241208 (-9))),
      .write "SEAWEED_GROWTH_PER_DAY/79" (.lit (.num 2162013353 (-9))),
      .write "SEAWEED_GROWTH_PER_DAY/80" (.lit (.num 2449212699 (-9))),
      .write "SEAWEED_GROWTH_PER_DAY/81" (.lit (.num 2707294052 (-9))),
      .write "SEAWEED_GROWTH_PER_DAY/82" (.lit (.num 2554753816 (-9))),
      .write "SEAWEED_GROWTH_PER_DAY/83" (.lit (.num 2221274477 (-9))),
      .write "SEAWEED_GROWTH_PER_DAY/84" (.lit (.num 1929712462 (-9))),
      .write "SEAWEED_GROWTH_PER_DAY/85" (.lit (.num 1949992597 (-9))),
      .write "SEAWEED_GROWTH_PER_DAY/86" (.lit (.num 2328284543 (-9))),
      .write "SEAWEED_GROWTH_PER_DAY/87" (.lit (.num 2682473164 (-9))),
      .write "SEAWEED_GROWTH_PER_DAY/88" (.lit (.num 2692043127 (-9))),
      .write "SEAWEED_GROWTH_PER_DAY/89" (.lit (.num 2572977352 (-9))),
      .write "SEAWEED_GROWTH_PER_DAY/90" (.lit (.num 2524121111 (-9))),
      .write "SEAWEED_GROWTH_PER_DAY/91" (.lit (.num 2609014029 (-9))),
      .write "SEAWEED_GROWTH_PER_DAY/92" (.lit (.num 2858934229 (-9))),
      .write "SEAWEED_GROWTH_PER_DAY/93" (.lit (.num 3056473003 (-9))),
      .write "SEAWEED_GROWTH_PER_DAY/94" (.lit (.num 2886739232 (-9))),
      .write "SEAWEED_GROWTH_PER_DAY/95" (.lit (.num 2640633131 (-9))),
      .write "SEAWEED_GROWTH_PER_DAY/96" (.lit (.num 2596517279 (-9))),
      .write "SEAWEED_GROWTH_PER_DAY/97" (.lit (.num 2510737035 (-9))),
      .write "SEAWEED_GROWTH_PER_DAY/98" (.lit (.num 2818730288 (-9))),
      .write "SEAWEED_GROWTH_PER_DAY/99" (.lit (.num 313238984 (-8))),
      .write "SEAWEED_GROWTH_PER_DAY/100" (.lit (.num 3128839607 (-9))),
      .write "SEAWEED_GROWTH_PER_DAY/101" (.lit (.num 3047094477 (-9))),
      .write "SEAWEED_GROWTH_PER_DAY/102" (.lit (.num 2965525323 (-9))),
      .write "SEAWEED_GROWTH_PER_DAY/103" (.lit (.num 3085088736 (-9))),
      .write "SEAWEED_GROWTH_PER_DAY/104" (.lit (.num 3347156394 (-9))),
      .write "SEAWEED_GROWTH_PER_DAY/105" (.lit (.num 3647367664 (-9))),
      .write "SEAWEED_GROWTH_PER_DAY/106" (.lit (.num 3613382371 (-9))),
      .write "SEAWEED_GROWTH_PER_DAY/107" (.lit (.num 3205683527 (-9))),
      .write "SEAWEED_GROWTH_PER_DAY/108" (.lit (.num 2914326235 (-9))),
      .write "SEAWEED_GROWTH_PER_DAY/109" (.lit (.num 280454008 (-8))),
      .write "SEAWEED_GROWTH_PER_DAY/110" (.lit (.num 3077436259 (-9))),
      .write "SEAWEED_GROWTH_PER_DAY/111" (.lit (.num 3581070259 (-9))),
      .write "SEAWEED_GROWTH_PER_DAY/112" (.lit (.num 3844646941 (-9))),
      .write "SEAWEED_GROWTH_PER_DAY/113" (.lit (.num 3621240321 (-9))),
      .write "SEAWEED_GROWTH_PER_DAY/114" (.lit (.num 334933192 (-8))),
      .write "SEAWEED_GROWTH_PER_DAY/115" (.lit (.num 3350107884 (-9))),
      .write "SEAWEED_GROWTH_PER_DAY/116" (.lit (.num 365722728 (-8))),
      .write "INITIAL_MILK_CATTLE" (.lit (.num 264000000 0)),
      .write "INIT_SMALL_ANIMALS" (.lit (.num 28200000000 0)),
      .write "INIT_MEDIUM_ANIMALS" (.lit (.num 3200000000 0)),
      .write "INIT_LARGE_ANIMALS_WITH_MILK_COWS" (.lit (.num 1900000000 0)),
      .write "FISH_DRY_CALORIC_ANNUAL" (.lit (.num 27500000 0)),
      .write "FISH_FAT_TONS_ANNUAL" (.lit (.num 4000000 0)),
      .write "FISH_PROTEIN_TONS_ANNUAL" (.lit (.num 17000000 0)),
      .write "TONS_MILK_ANNUAL" (.lit (.num 879000000 0)),
      .write "TONS_CHICKEN_AND_PORK_ANNUAL" (.lit (.num 250000000 0)),
      .write "TONS_BEEF_ANNUAL" (.lit (.num 74200000 0)),
      .write "SCP_GLOBAL_PRODUCTION_FRACTION" (.lit (.num 1 0)),
      .write "CS_GLOBAL_PRODUCTION_FRACTION" (.lit (.num 1 0)),
      .write "SEAWEED_NEW_AREA_FRACTION" (.lit (.num 1 0)),
      .write "SEAWEED_MAX_AREA_FRACTION" (.lit (.num 1 0)),
      .write "ROTATION_IMPROVEMENTS" .emptyDict,
      .write "ROTATION_IMPROVEMENTS/POWER_LAW_IMPROVEMENT" (.lit (.num 796 (-3))),
      .write "INITIAL_SEAWEED_FRACTION" (.lit (.num 1 0)),
      .write "INITIAL_BUILT_SEAWEED_FRACTION" (.lit (.num 1 0)),
      .write "INITIAL_CROP_AREA_FRACTION" (.lit (.num 1 0)),
      .write "MILK_YIELD_KG_PER_MILK_BEARING_ANIMAL_PER_YEAR" (.lit (.num 10996 (-1))),
      .write "KG_MEAT_PER_PIG" (.lit (.num 86 0)),
      .write "KG_MEAT_PER_CHICKEN" (.lit (.num 165 (-2))),
      .write "COUNTRY_CODE" (.lit (.str "WOR")),
      .setFlag "SCALE_SET"] }

def s_init_country_food_system_properties : SetterInfo :=
  { name := "init_country_food_system_properties", params := ["country_data"], isOpaque := true, body := [
      .assertClear "SCALE_SET",
      .setScope false,
      .assertClear "GENERIC_INITIALIZED_SET",
      .newDict,
      .write "GLOBAL_POP" (.lit (.num 7723713182 0)),
      .write "INITIAL_GLOBAL_CROP_AREA" (.lit (.num 1430000000 0)),
      .write "DELAY" .emptyDict,
      .write "INITIAL_HARVEST_DURATION_IN_MONTHS" (.lit (.num 8 0)),
      .write "DELAY/ROTATION_CHANGE_IN_MONTHS" (.lit (.num 2 0)),
      .write "ADD_FISH" (.lit (.bool true)),
      .setFlag "GENERIC_INITIALIZED_SET",
      .write "POP" (.cd "population"),
      .write "BASELINE_CROP_KCALS" (.cd "crop_kcals"),
      .write "BASELINE_CROP_FAT" (.cd "crop_fat"),
      .write "BASELINE_CROP_PROTEIN" (.cd "crop_protein"),
      .write "BIOFUEL_KCALS" (.cd "biofuel_kcals"),
      .write "BIOFUEL_FAT" (.cd "biofuel_fat"),
      .write "BIOFUEL_PROTEIN" (.cd "biofuel_protein"),
      .write "FEED_KCALS" (.cd "feed_kcals"),
      .write "FEED_FAT" (.cd "feed_fat"),
      .write "FEED_PROTEIN" (.cd "feed_protein"),
      .write "HUMAN_INEDIBLE_FEED_BASELINE_MONTHLY" (.div (.cd "grasses_baseline") (.lit (.num 12 0))),
      .write "INITIAL_MILK_CATTLE" (.cd "dairy_cows"),
      .write "INIT_SMALL_ANIMALS" (.cd "small_animals"),
      .write "SCP_GLOBAL_PRODUCTION_FRACTION" (.cd "percent_of_global_capex"),
      .write "CS_GLOBAL_PRODUCTION_FRACTION" (.cd "percent_of_global_production"),
      .assertRange (.const "CS_GLOBAL_PRODUCTION_FRACTION") (.lit (.num 0 0)) (.lit (.num 1 0)),
      .assertRange (.cd "initial_seaweed_fraction") (.lit (.num 0 0)) (.lit (.num 1 0)),
      .assertRange (.cd "new_area_fraction") (.lit (.num 0 0)) (.lit (.num 1 0)),
      .assertRange (.cd "max_area_fraction") (.lit (.num 0 0)) (.lit (.num 1 0)),
      .assertRange (.cd "max_area_fraction") (.lit (.num 0 0)) (.lit (.num 1 0)),
      .assertRange (.cd "initial_built_fraction") (.lit (.num 0 0)) (.lit (.num 1 0)),
      .assertRange (.const "SCP_GLOBAL_PRODUCTION_FRACTION") (.lit (.num 0 0)) (.lit (.num 1 0)),
      .write "SEAWEED_GROWTH_PER_DAY" .emptyDict,
      .opaque "for i in range(len(all_seaweed_col_names)): # just have the number as a string as the keys for the dictionary constants_for_params[\"SEAWEED_GROWTH_PER_DAY\"][ all_seaweed_col_names[i].replace(\"seaweed_" ["SEAWEED_GROWTH_PER_DAY/*"],
      .writeIfEq (.cd "initial_seaweed_fraction") (.lit (.num 0 0)) "ADD_SEAWEED" (.lit (.bool false)),
      .write "INITIAL_SEAWEED_FRACTION" (.cd "initial_seaweed_fraction"),
      .write "SEAWEED_NEW_AREA_FRACTION" (.cd "new_area_fraction"),
      .write "SEAWEED_MAX_AREA_FRACTION" (.cd "max_area_fraction"),
      .write "POWER_LAW_IMPROVEMENT" (.cd "power_law_improvement"),
      .write "INITIAL_BUILT_SEAWEED_FRACTION" (.cd "initial_built_fraction"),
      .write "INITIAL_CROP_AREA_FRACTION" (.cd "fraction_crop_area"),
      .write "INITIAL_CROP_AREA_HA" (.opaque "np.array(country_data[\"crop_area_1000ha\"]) * 1000"),
      .write "INIT_MEDIUM_ANIMALS" (.cd "medium_animals"),
      .write "INIT_LARGE_ANIMALS_WITH_MILK_COWS" (.cd "large_animals"),
      .write "FISH_DRY_CALORIC_ANNUAL" (.cd "aq_kcals"),
      .write "FISH_FAT_TONS_ANNUAL" (.cd "aq_fat"),
      .write "FISH_PROTEIN_TONS_ANNUAL" (.cd "aq_protein"),
      .write "TONS_MILK_ANNUAL" (.cd "dairy"),
      .write "TONS_CHICKEN_AND_PORK_ANNUAL" (.add (.cd "chicken") (.cd "pork")),
      .write "ROTATION_IMPROVEMENTS" .emptyDict,
      .write "ROTATION_IMPROVEMENTS/POWER_LAW_IMPROVEMENT" (.cd "power_law_improvement"),
      .write "TONS_BEEF_ANNUAL" (.cd "beef"),
      .write "END_OF_MONTH_STOCKS" .emptyDict,
      .write "END_OF_MONTH_STOCKS/JAN" (.cd "stocks_kcals_jan"),
      .write "END_OF_MONTH_STOCKS/FEB" (.cd "stocks_kcals_feb"),
      .write "END_OF_MONTH_STOCKS/MAR" (.cd "stocks_kcals_mar"),
      .write "END_OF_MONTH_STOCKS/APR" (.cd "stocks_kcals_apr"),
      .write "END_OF_MONTH_STOCKS/MAY" (.cd "stocks_kcals_may"),
      .write "END_OF_MONTH_STOCKS/JUN" (.cd "stocks_kcals_jun"),
      .write "END_OF_MONTH_STOCKS/JUL" (.cd "stocks_kcals_jul"),
      .write "END_OF_MONTH_STOCKS/AUG" (.cd "stocks_kcals_aug"),
      .write "END_OF_MONTH_STOCKS/SEP" (.cd "stocks_kcals_sep"),
      .write "END_OF_MONTH_STOCKS/OCT" (.cd "stocks_kcals_oct"),
      .write "END_OF_MONTH_STOCKS/NOV" (.cd "stocks_kcals_nov"),
      .write "END_OF_MONTH_STOCKS/DEC" (.cd "stocks_kcals_dec"),
      .write "MILK_YIELD_KG_PER_MILK_BEARING_ANIMAL_PER_YEAR" (.cd "milk_yield_kg_per_milk_bearing_animal_per_year"),
      .write "KG_MEAT_PER_PIG" (.cd "kg_meat_per_pig"),
      .write "KG_MEAT_PER_CHICKEN" (.cd "kg_meat_per_chicken"),
      .setFlag "SCALE_SET"] }

def s_set_immediate_shutoff : SetterInfo :=
  { name := "set_immediate_shutoff", params := ["constants_for_params"], isOpaque := false, body := [
      .assertClear "NONHUMAN_CONSUMPTION_SET",
      .write "DELAY/FEED_SHUTOFF_MONTHS" (.lit (.num 0 0)),
      .write "DELAY/BIOFUEL_SHUTOFF_MONTHS" (.lit (.num 0 0)),
      .write "MINIMUM_PERCENT_FED_BEFORE_NONHUMAN_CONSUMPTION_ALLOWED" (.lit (.num 100 0)),
      .setFlag "NONHUMAN_CONSUMPTION_SET"] }

def s_set_one_month_delayed_shutoff : SetterInfo :=
  { name := "set_one_month_delayed_shutoff", params := ["constants_for_params"], isOpaque := false, body := [
      .assertClear "NONHUMAN_CONSUMPTION_SET",
      .write "DELAY/FEED_SHUTOFF_MONTHS" (.lit (.num 1 0)),
      .write "DELAY/BIOFUEL_SHUTOFF_MONTHS" (.lit (.num 1 0)),
      .write "MINIMUM_PERCENT_FED_BEFORE_NONHUMAN_CONSUMPTION_ALLOWED" (.lit (.num 100 0)),
      .setFlag "NONHUMAN_CONSUMPTION_SET"] }

def s_set_short_delayed_shutoff : SetterInfo :=
  { name := "set_short_delayed_shutoff", params := ["constants_for_params"], isOpaque := false, body := [
      .assertClear "NONHUMAN_CONSUMPTION_SET",
      .write "DELAY/FEED_SHUTOFF_MONTHS" (.lit (.num 2 0)),
      .write "DELAY/BIOFUEL_SHUTOFF_MONTHS" (.lit (.num 1 0)),
      .write "MINIMUM_PERCENT_FED_BEFORE_NONHUMAN_CONSUMPTION_ALLOWED" (.lit (.num 100 0)),
      .setFlag "NONHUMAN_CONSUMPTION_SET"] }

def s_set_long_delayed_shutoff : SetterInfo :=
  { name := "set_long_delayed_shutoff", params := ["constants_for_params"], isOpaque := false, body := [
      .assertClear "NONHUMAN_CONSUMPTION_SET",
      .write "DELAY/FEED_SHUTOFF_MONTHS" (.lit (.num 3 0)),
      .write "DELAY/BIOFUEL_SHUTOFF_MONTHS" (.lit (.num 2 0)),
      .write "MINIMUM_PERCENT_FED_BEFORE_NONHUMAN_CONSUMPTION_ALLOWED" (.lit (.num 100 0)),
      .setFlag "NONHUMAN_CONSUMPTION_SET"] }

def s_set_continued_feed_biofuels : SetterInfo :=
  { name := "set_continued_feed_biofuels", params := ["constants_for_params"], isOpaque := false, body := [
      .assertClear "NONHUMAN_CONSUMPTION_SET",
      .assertHasKey "STORE_FOOD_BETWEEN_YEARS",
      .write "DELAY/FEED_SHUTOFF_MONTHS" (.const "NMONTHS"),
      .write "DELAY/BIOFUEL_SHUTOFF_MONTHS" (.const "NMONTHS"),
      .write "MINIMUM_PERCENT_FED_BEFORE_NONHUMAN_CONSUMPTION_ALLOWED" (.lit (.num 100 0)),
      .setFlag "NONHUMAN_CONSUMPTION_SET"] }

def s_set_continued_after_10_percent_fed : SetterInfo :=
  { name := "set_continued_after_10_percent_fed", params := ["constants_for_params"], isOpaque := false, body := [
      .assertClear "NONHUMAN_CONSUMPTION_SET",
      .assertHasKey "STORE_FOOD_BETWEEN_YEARS",
      .write "DELAY/FEED_SHUTOFF_MONTHS" (.const "NMONTHS"),
      .write "DELAY/BIOFUEL_SHUTOFF_MONTHS" (.const "NMONTHS"),
      .write "MINIMUM_PERCENT_FED_BEFORE_NONHUMAN_CONSUMPTION_ALLOWED" (.lit (.num 10 0)),
      .setFlag "NONHUMAN_CONSUMPTION_SET"] }

def s_set_long_delayed_shutoff_after_10_percent_fed : SetterInfo :=
  { name := "set_long_delayed_shutoff_after_10_percent_fed", params := ["constants_for_params"], isOpaque := false, body := [
      .assertClear "NONHUMAN_CONSUMPTION_SET",
      .assertHasKey "STORE_FOOD_BETWEEN_YEARS",
      .write "DELAY/FEED_SHUTOFF_MONTHS" (.lit (.num 12 0)),
      .write "DELAY/BIOFUEL_SHUTOFF_MONTHS" (.lit (.num 6 0)),
      .write "MINIMUM_PERCENT_FED_BEFORE_NONHUMAN_CONSUMPTION_ALLOWED" (.lit (.num 10 0)),
      .setFlag "NONHUMAN_CONSUMPTION_SET"] }

def s_set_breeding_to_greatly_reduced : SetterInfo :=
  { name := "set_breeding_to_greatly_reduced", params := ["constants_for_params"], isOpaque := false, body := [
      .assertClear "MEAT_STRATEGY_SET",
      .write "BREEDING_STRATEGY" (.lit (.str "reduced")),
      .setFlag "MEAT_STRATEGY_SET"] }

def s_set_to_baseline_breeding : SetterInfo :=
  { name := "set_to_baseline_breeding", params := ["constants_for_params"], isOpaque := false, body := [
      .assertClear "MEAT_STRATEGY_SET",
      .write "BREEDING_STRATEGY" (.lit (.str "baseline")),
      .setFlag "MEAT_STRATEGY_SET"] }

def s_set_to_feed_only_ruminants : SetterInfo :=
  { name := "set_to_feed_only_ruminants", params := ["constants_for_params"], isOpaque := false, body := [
      .assertClear "MEAT_STRATEGY_SET",
      .write "BREEDING_STRATEGY" (.lit (.str "feed_only_ruminants")),
      .setFlag "MEAT_STRATEGY_SET"] }

def s_set_waste_to_zero : SetterInfo :=
  { name := "set_waste_to_zero", params := ["constants_for_params"], isOpaque := false, body := [
      .assertClear "WASTE_SET",
      .write "WASTE_DISTRIBUTION" .emptyDict,
      .write "WASTE_DISTRIBUTION/SUGAR" (.lit (.num 0 0)),
      .write "WASTE_DISTRIBUTION/MEAT" (.lit (.num 0 0)),
      .write "WASTE_DISTRIBUTION/MILK" (.lit (.num 0 0)),
      .write "WASTE_DISTRIBUTION/SEAFOOD" (.lit (.num 0 0)),
      .write "WASTE_DISTRIBUTION/CROPS" (.lit (.num 0 0)),
      .write "WASTE_DISTRIBUTION/SEAWEED" (.lit (.num 0 0)),
      .write "WASTE_RETAIL" (.lit (.num 0 0)),
      .setFlag "WASTE_SET"] }

def s_set_global_waste_to_tripled_prices : SetterInfo :=
  { name := "set_global_waste_to_tripled_prices", params := ["constants_for_params"], isOpaque := false, body := [
      .assertScope true,
      .assertClear "WASTE_SET",
      .assertScope true,
      .write "WASTE_DISTRIBUTION" .emptyDict,
      .write "WASTE_DISTRIBUTION/SUGAR" (.lit (.num 9 (-2))),
      .write "WASTE_DISTRIBUTION/CROPS" (.lit (.num 496 (-2))),
      .write "WASTE_DISTRIBUTION/MEAT" (.lit (.num 8 (-1))),
      .write "WASTE_DISTRIBUTION/MILK" (.lit (.num 212 (-2))),
      .write "WASTE_DISTRIBUTION/SEAFOOD" (.lit (.num 17 (-2))),
      .write "WASTE_DISTRIBUTION/SEAWEED" (.lit (.num 17 (-2))),
      .write "WASTE_RETAIL" (.lit (.num 608 (-2))),
      .setFlag "WASTE_SET"] }

def s_set_global_waste_to_doubled_prices : SetterInfo :=
  { name := "set_global_waste_to_doubled_prices", params := ["constants_for_params"], isOpaque := false, body := [
      .assertClear "WASTE_SET",
      .assertScope true,
      .assertScope true,
      .write "WASTE_DISTRIBUTION" .emptyDict,
      .write "WASTE_DISTRIBUTION/SUGAR" (.lit (.num 9 (-2))),
      .write "WASTE_DISTRIBUTION/CROPS" (.lit (.num 496 (-2))),
      .write "WASTE_DISTRIBUTION/MEAT" (.lit (.num 8 (-1))),
      .write "WASTE_DISTRIBUTION/MILK" (.lit (.num 212 (-2))),
      .write "WASTE_DISTRIBUTION/SEAFOOD" (.lit (.num 17 (-2))),
      .write "WASTE_DISTRIBUTION/SEAWEED" (.lit (.num 17 (-2))),
      .write "WASTE_RETAIL" (.lit (.num 106 (-1))),
      .setFlag "WASTE_SET"] }

def s_set_global_waste_to_baseline_prices : SetterInfo :=
  { name := "set_global_waste_to_baseline_prices", params := ["constants_for_params"], isOpaque := false, body := [
      .assertScope true,
      .assertClear "WASTE_SET",
      .assertScope true,
      .write "WASTE_DISTRIBUTION" .emptyDict,
      .write "WASTE_DISTRIBUTION/SUGAR" (.lit (.num 9 (-2))),
      .write "WASTE_DISTRIBUTION/CROPS" (.lit (.num 496 (-2))),
      .write "WASTE_DISTRIBUTION/MEAT" (.lit (.num 8 (-1))),
      .write "WASTE_DISTRIBUTION/MILK" (.lit (.num 212 (-2))),
      .write "WASTE_DISTRIBUTION/SEAFOOD" (.lit (.num 17 (-2))),
      .write "WASTE_DISTRIBUTION/SEAWEED" (.lit (.num 17 (-2))),
      .write "WASTE_RETAIL" (.lit (.num 2498 (-2))),
      .setFlag "WASTE_SET"] }

def s_set_country_waste_to_tripled_prices : SetterInfo :=
  { name := "set_country_waste_to_tripled_prices", params := ["constants_for_params", "country_data"], isOpaque := false, body := [
      .assertClear "WASTE_SET",
      .assertScope false,
      .assertScope false,
      .write "WASTE_DISTRIBUTION" .emptyDict,
      .write "WASTE_DISTRIBUTION/SUGAR" (.mul (.cd "distribution_loss_sugar") (.lit (.num 100 0))),
      .write "WASTE_DISTRIBUTION/CROPS" (.mul (.cd "distribution_loss_crops") (.lit (.num 100 0))),
      .write "WASTE_DISTRIBUTION/MEAT" (.mul (.cd "distribution_loss_meat") (.lit (.num 100 0))),
      .write "WASTE_DISTRIBUTION/MILK" (.mul (.cd "distribution_loss_dairy") (.lit (.num 100 0))),
      .write "WASTE_DISTRIBUTION/SEAFOOD" (.mul (.cd "distribution_loss_seafood") (.lit (.num 100 0))),
      .write "WASTE_DISTRIBUTION/SEAWEED" (.mul (.cd "distribution_loss_seafood") (.lit (.num 100 0))),
      .write "WASTE_RETAIL" (.mul (.cd "retail_waste_price_triple") (.lit (.num 100 0))),
      .setFlag "WASTE_SET"] }

def s_set_country_waste_to_doubled_prices : SetterInfo :=
  { name := "set_country_waste_to_doubled_prices", params := ["constants_for_params", "country_data"], isOpaque := false, body := [
      .assertClear "WASTE_SET",
      .assertScope false,
      .assertScope false,
      .write "WASTE_DISTRIBUTION" .emptyDict,
      .write "WASTE_DISTRIBUTION/SUGAR" (.mul (.cd "distribution_loss_sugar") (.lit (.num 100 0))),
      .write "WASTE_DISTRIBUTION/CROPS" (.mul (.cd "distribution_loss_crops") (.lit (.num 100 0))),
      .write "WASTE_DISTRIBUTION/MEAT" (.mul (.cd "distribution_loss_meat") (.lit (.num 100 0))),
      .write "WASTE_DISTRIBUTION/MILK" (.mul (.cd "distribution_loss_dairy") (.lit (.num 100 0))),
      .write "WASTE_DISTRIBUTION/SEAFOOD" (.mul (.cd "distribution_loss_seafood") (.lit (.num 100 0))),
      .write "WASTE_DISTRIBUTION/SEAWEED" (.mul (.cd "distribution_loss_seafood") (.lit (.num 100 0))),
      .write "WASTE_RETAIL" (.mul (.cd "retail_waste_price_double") (.lit (.num 100 0))),
      .setFlag "WASTE_SET"] }

def s_set_country_waste_to_baseline_prices : SetterInfo :=
  { name := "set_country_waste_to_baseline_prices", params := ["constants_for_params", "country_data"], isOpaque := false, body := [
      .assertClear "WASTE_SET",
      .assertScope false,
      .assertScope false,
      .write "WASTE_DISTRIBUTION" .emptyDict,
      .write "WASTE_DISTRIBUTION/SUGAR" (.mul (.cd "distribution_loss_sugar") (.lit (.num 100 0))),
      .write "WASTE_DISTRIBUTION/CROPS" (.mul (.cd "distribution_loss_crops") (.lit (.num 100 0))),
      .write "WASTE_DISTRIBUTION/MEAT" (.mul (.cd "distribution_loss_meat") (.lit (.num 100 0))),
      .write "WASTE_DISTRIBUTION/MILK" (.mul (.cd "distribution_loss_dairy") (.lit (.num 100 0))),
      .write "WASTE_DISTRIBUTION/SEAFOOD" (.mul (.cd "distribution_loss_seafood") (.lit (.num 100 0))),
      .write "WASTE_DISTRIBUTION/SEAWEED" (.mul (.cd "distribution_loss_seafood") (.lit (.num 100 0))),
      .write "WASTE_RETAIL" (.mul (.cd "retail_waste_baseline") (.lit (.num 100 0))),
      .setFlag "WASTE_SET"] }

def s_set_baseline_nutrition_profile : SetterInfo :=
  { name := "set_baseline_nutrition_profile", params := ["constants_for_params"], isOpaque := false, body := [
      .assertClear "NUTRITION_PROFILE_SET",
      .write "NUTRITION" .emptyDict,
      .write "NUTRITION/KCALS_DAILY" (.lit (.num 2100 0)),
      .write "NUTRITION/FAT_DAILY" (.lit (.num 617 (-1))),
      .write "NUTRITION/PROTEIN_DAILY" (.lit (.num 595 (-1))),
      .setFlag "NUTRITION_PROFILE_SET"] }

def s_set_catastrophe_nutrition_profile : SetterInfo :=
  { name := "set_catastrophe_nutrition_profile", params := ["constants_for_params"], isOpaque := false, body := [
      .assertClear "NUTRITION_PROFILE_SET",
      .write "NUTRITION" .emptyDict,
      .write "NUTRITION/KCALS_DAILY" (.lit (.num 2100 0)),
      .write "NUTRITION/FAT_DAILY" (.lit (.num 47 0)),
      .write "NUTRITION/PROTEIN_DAILY" (.lit (.num 51 0)),
      .setFlag "NUTRITION_PROFILE_SET"] }

def s_set_intake_constraints_to_enabled : SetterInfo :=
  { name := "set_intake_constraints_to_enabled", params := ["constants_for_params"], isOpaque := false, body := [
      .assertClear "INTAKE_CONSTRAINTS_SET",
      .write "MAX_SEAWEED_AS_PERCENT_KCALS_HUMANS" (.lit (.num 10 0)),
      .write "MAX_CELLULOSIC_SUGAR_AS_PERCENT_KCALS_HUMANS" (.lit (.num 40 0)),
      .write "MAX_METHANE_SCP_AS_PERCENT_KCALS_HUMANS" (.lit (.num 50 0)),
      .write "MAX_SEAWEED_AS_PERCENT_KCALS_FEED" (.lit (.num 10 0)),
      .write "MAX_CELLULOSIC_SUGAR_AS_PERCENT_KCALS_FEED" (.lit (.num 10 0)),
      .write "MAX_METHANE_SCP_AS_PERCENT_KCALS_FEED" (.lit (.num 43 0)),
      .write "MAX_SEAWEED_AS_PERCENT_KCALS_BIOFUEL" (.lit (.num 10 0)),
      .write "MAX_CELLULOSIC_SUGAR_AS_PERCENT_KCALS_BIOFUEL" (.lit (.num 100 0)),
      .write "MAX_METHANE_SCP_AS_PERCENT_KCALS_BIOFUEL" (.lit (.num 100 0)),
      .setFlag "INTAKE_CONSTRAINTS_SET"] }

def s_set_intake_constraints_to_disabled_for_humans : SetterInfo :=
  { name := "set_intake_constraints_to_disabled_for_humans", params := ["constants_for_params"], isOpaque := false, body := [
      .assertClear "INTAKE_CONSTRAINTS_SET",
      .write "MAX_SEAWEED_AS_PERCENT_KCALS_HUMANS" (.lit (.num 100 0)),
      .write "MAX_CELLULOSIC_SUGAR_AS_PERCENT_KCALS_HUMANS" (.lit (.num 100 0)),
      .write "MAX_METHANE_SCP_AS_PERCENT_KCALS_HUMANS" (.lit (.num 100 0)),
      .write "MAX_SEAWEED_AS_PERCENT_KCALS_FEED" (.lit (.num 10 0)),
      .write "MAX_CELLULOSIC_SUGAR_AS_PERCENT_KCALS_FEED" (.lit (.num 10 0)),
      .write "MAX_METHANE_SCP_AS_PERCENT_KCALS_FEED" (.lit (.num 43 0)),
      .write "MAX_SEAWEED_AS_PERCENT_KCALS_BIOFUEL" (.lit (.num 10 0)),
      .write "MAX_CELLULOSIC_SUGAR_AS_PERCENT_KCALS_BIOFUEL" (.lit (.num 100 0)),
      .write "MAX_METHANE_SCP_AS_PERCENT_KCALS_BIOFUEL" (.lit (.num 100 0)),
      .setFlag "INTAKE_CONSTRAINTS_SET"] }

def s_set_no_stored_food : SetterInfo :=
  { name := "set_no_stored_food", params := ["constants_for_params"], isOpaque := false, body := [
      .assertClear "STORED_FOOD_SET",
      .write "STORE_FOOD_BETWEEN_YEARS" (.lit (.bool true)),
      .write "PERCENT_STORED_FOOD_TO_USE" (.lit (.num 0 0)),
      .write "ADD_STORED_FOOD" (.lit (.bool false)),
      .setFlag "STORED_FOOD_SET"] }

def s_set_baseline_stored_food : SetterInfo :=
  { name := "set_baseline_stored_food", params := ["constants_for_params"], isOpaque := false, body := [
      .assertClear "STORED_FOOD_SET",
      .write "STORE_FOOD_BETWEEN_YEARS" (.lit (.bool true)),
      .write "PERCENT_STORED_FOOD_TO_USE" (.lit (.num 100 0)),
      .write "ADD_STORED_FOOD" (.lit (.bool true)),
      .setFlag "STORED_FOOD_SET"] }

def s_set_stored_food_buffer_zero : SetterInfo :=
  { name := "set_stored_food_buffer_zero", params := ["constants_for_params"], isOpaque := false, body := [
      .assertClear "STORED_FOOD_END_SIM_SET",
      .write "STORE_FOOD_BETWEEN_YEARS" (.lit (.bool true)),
      .write "RATIO_STOCKS_UNTOUCHED" (.lit (.num 0 0)),
      .setFlag "STORED_FOOD_END_SIM_SET"] }

def s_set_no_stored_food_between_years : SetterInfo :=
  { name := "set_no_stored_food_between_years", params := ["constants_for_params"], isOpaque := false, body := [
      .assertClear "STORED_FOOD_END_SIM_SET",
      .write "STORE_FOOD_BETWEEN_YEARS" (.lit (.bool false)),
      .write "RATIO_STOCKS_UNTOUCHED" (.lit (.num 0 0)),
      .setFlag "STORED_FOOD_END_SIM_SET"] }

def s_set_stored_food_buffer_as_baseline : SetterInfo :=
  { name := "set_stored_food_buffer_as_baseline", params := ["constants_for_params"], isOpaque := false, body := [
      .assertClear "STORED_FOOD_END_SIM_SET",
      .write "STORE_FOOD_BETWEEN_YEARS" (.lit (.bool true)),
      .write "RATIO_STOCKS_UNTOUCHED" (.lit (.num 1 0)),
      .setFlag "STORED_FOOD_END_SIM_SET"] }

def s_set_stored_food_buffer_as_baseline_and_no_stored_between_years : SetterInfo :=
  { name := "set_stored_food_buffer_as_baseline_and_no_stored_between_years", params := ["constants_for_params"], isOpaque := false, body := [
      .assertClear "STORED_FOOD_END_SIM_SET",
      .write "STORE_FOOD_BETWEEN_YEARS" (.lit (.bool false)),
      .write "RATIO_STOCKS_UNTOUCHED" (.lit (.num 1 0)),
      .setFlag "STORED_FOOD_END_SIM_SET"] }

def s_set_no_seasonality : SetterInfo :=
  { name := "set_no_seasonality", params := ["constants_for_params"], isOpaque := false, body := [
      .assertClear "SEASONALITY_SET",
      .writeList "SEASONALITY" [(.div (.lit (.num 1 0)) (.lit (.num 12 0))), (.div (.lit (.num 1 0)) (.lit (.num 12 0))), (.div (.lit (.num 1 0)) (.lit (.num 12 0))), (.div (.lit (.num 1 0)) (.lit (.num 12 0))), (.div (.lit (.num 1 0)) (.lit (.num 12 0))), (.div (.lit (.num 1 0)) (.lit (.num 12 0))), (.div (.lit (.num 1 0)) (.lit (.num 12 0))), (.div (.lit (.num 1 0)) (.lit (.num 12 0))), (.div (.lit (.num 1 0)) (.lit (.num 12 0))), (.div (.lit (.num 1 0)) (.lit (.num 12 0))), (.div (.lit (.num 1 0)) (.lit (.num 12 0))), (.div (.lit (.num 1 0)) (.lit (.num 12 0)))],
      .setFlag "SEASONALITY_SET"] }

def s_set_global_seasonality_baseline : SetterInfo :=
  { name := "set_global_seasonality_baseline", params := ["constants_for_params"], isOpaque := false, body := [
      .assertScope true,
      .assertClear "SEASONALITY_SET",
      .writeList "SEASONALITY" [(.lit (.num 1121 (-4))), (.lit (.num 178 (-4))), (.lit (.num 241 (-4))), (.lit (.num 344 (-4))), (.lit (.num 338 (-4))), (.lit (.num 411 (-4))), (.lit (.num 882 (-4))), (.lit (.num 791 (-4))), (.lit (.num 1042 (-4))), (.lit (.num 1911 (-4))), (.lit (.num 1377 (-4))), (.lit (.num 1365 (-4)))],
      .setFlag "SEASONALITY_SET"] }

def s_set_global_seasonality_nuclear_winter : SetterInfo :=
  { name := "set_global_seasonality_nuclear_winter", params := ["constants_for_params"], isOpaque := false, body := [
      .assertClear "SEASONALITY_SET",
      .assertScope true,
      .writeList "SEASONALITY" [(.lit (.num 1564 (-4))), (.lit (.num 461 (-4))), (.lit (.num 65 (-3))), (.lit (.num 1017 (-4))), (.lit (.num 772 (-4))), (.lit (.num 785 (-4))), (.lit (.num 667 (-4))), (.lit (.num 256 (-4))), (.lit (.num 163 (-4))), (.lit (.num 1254 (-4))), (.lit (.num 1183 (-4))), (.lit (.num 1228 (-4)))],
      .setFlag "SEASONALITY_SET"] }

def s_set_country_seasonality : SetterInfo :=
  { name := "set_country_seasonality", params := ["constants_for_params", "country_data"], isOpaque := true, body := [
      .assertScope false,
      .assertClear "SEASONALITY_SET",
      .write "SEASONALITY" (.opaque "constants_for_params[\"SEASONALITY\"] = [ country_data[\"seasonality_m\" + str(i)] for i in range(1, 13) ]"),
      .opaque "assert np.sum(constants_for_params[\"SEASONALITY\"]) == pytest.approx(1.0), ( \"ERROR: Seasonality does not sum to one for country: \" + country_data[\"country\"] )" [],
      .opaque "for i in range(12): assert 0 <= constants_for_params[\"SEASONALITY\"][i] <= 1, ( \"ERROR: Seasonality is not between 0 and 1 for country: \" + country_data[\"country\"] )" [],
      .setFlag "SEASONALITY_SET"] }

def s_set_grasses_baseline : SetterInfo :=
  { name := "set_grasses_baseline", params := ["constants_for_params"], isOpaque := false, body := [
      .assertClear "GRASSES_SET",
      .write "RATIO_GRASSES_YEAR1" (.lit (.num 1 0)),
      .write "RATIO_GRASSES_YEAR2" (.lit (.num 1 0)),
      .write "RATIO_GRASSES_YEAR3" (.lit (.num 1 0)),
      .write "RATIO_GRASSES_YEAR4" (.lit (.num 1 0)),
      .write "RATIO_GRASSES_YEAR5" (.lit (.num 1 0)),
      .write "RATIO_GRASSES_YEAR6" (.lit (.num 1 0)),
      .write "RATIO_GRASSES_YEAR7" (.lit (.num 1 0)),
      .write "RATIO_GRASSES_YEAR8" (.lit (.num 1 0)),
      .write "RATIO_GRASSES_YEAR9" (.lit (.num 1 0)),
      .write "RATIO_GRASSES_YEAR10" (.lit (.num 1 0)),
      .setFlag "GRASSES_SET"] }

def s_set_global_grasses_nuclear_winter : SetterInfo :=
  { name := "set_global_grasses_nuclear_winter", params := ["constants_for_params"], isOpaque := false, body := [
      .assertScope true,
      .assertClear "GRASSES_SET",
      .write "RATIO_GRASSES_YEAR1" (.lit (.num 72 (-2))),
      .write "RATIO_GRASSES_YEAR2" (.lit (.num 24 (-2))),
      .write "RATIO_GRASSES_YEAR3" (.lit (.num 16 (-2))),
      .write "RATIO_GRASSES_YEAR4" (.lit (.num 13 (-2))),
      .write "RATIO_GRASSES_YEAR5" (.lit (.num 125 (-3))),
      .write "RATIO_GRASSES_YEAR6" (.lit (.num 15 (-2))),
      .write "RATIO_GRASSES_YEAR7" (.lit (.num 17 (-2))),
      .write "RATIO_GRASSES_YEAR8" (.lit (.num 23 (-2))),
      .write "RATIO_GRASSES_YEAR9" (.lit (.num 32 (-2))),
      .write "RATIO_GRASSES_YEAR10" (.lit (.num 41 (-2))),
      .setFlag "GRASSES_SET"] }

def s_set_country_grasses_nuclear_winter : SetterInfo :=
  { name := "set_country_grasses_nuclear_winter", params := ["constants_for_params", "country_data"], isOpaque := false, body := [
      .assertScope false,
      .assertClear "GRASSES_SET",
      .write "RATIO_GRASSES_YEAR1" (.add (.lit (.num 1 0)) (.cd "grasses_reduction_year1")),
      .write "RATIO_GRASSES_YEAR2" (.add (.lit (.num 1 0)) (.cd "grasses_reduction_year2")),
      .write "RATIO_GRASSES_YEAR3" (.add (.lit (.num 1 0)) (.cd "grasses_reduction_year3")),
      .write "RATIO_GRASSES_YEAR4" (.add (.lit (.num 1 0)) (.cd "grasses_reduction_year4")),
      .write "RATIO_GRASSES_YEAR5" (.add (.lit (.num 1 0)) (.cd "grasses_reduction_year5")),
      .write "RATIO_GRASSES_YEAR6" (.add (.lit (.num 1 0)) (.cd "grasses_reduction_year6")),
      .write "RATIO_GRASSES_YEAR7" (.add (.lit (.num 1 0)) (.cd "grasses_reduction_year7")),
      .write "RATIO_GRASSES_YEAR8" (.add (.lit (.num 1 0)) (.cd "grasses_reduction_year8")),
      .write "RATIO_GRASSES_YEAR9" (.add (.lit (.num 1 0)) (.cd "grasses_reduction_year9")),
      .write "RATIO_GRASSES_YEAR10" (.add (.lit (.num 1 0)) (.cd "grasses_reduction_year10")),
      .setFlag "GRASSES_SET"] }

def s_set_country_grasses_to_zero : SetterInfo :=
  { name := "set_country_grasses_to_zero", params := ["constants_for_params"], isOpaque := false, body := [
      .assertScope false,
      .assertClear "GRASSES_SET",
      .write "RATIO_GRASSES_YEAR1" (.lit (.num 0 0)),
      .write "RATIO_GRASSES_YEAR2" (.lit (.num 0 0)),
      .write "RATIO_GRASSES_YEAR3" (.lit (.num 0 0)),
      .write "RATIO_GRASSES_YEAR4" (.lit (.num 0 0)),
      .write "RATIO_GRASSES_YEAR5" (.lit (.num 0 0)),
      .write "RATIO_GRASSES_YEAR6" (.lit (.num 0 0)),
      .write "RATIO_GRASSES_YEAR7" (.lit (.num 0 0)),
      .write "RATIO_GRASSES_YEAR8" (.lit (.num 0 0)),
      .write "RATIO_GRASSES_YEAR9" (.lit (.num 0 0)),
      .write "RATIO_GRASSES_YEAR10" (.lit (.num 0 0)),
      .setFlag "GRASSES_SET"] }

def s_set_fish_zero : SetterInfo :=
  { name := "set_fish_zero", params := ["constants_for_params", "time_consts"], isOpaque := false, body := [
      .assertClear "FISH_SET",
      .writeRepeat "time_consts:FISH_PERCENT_MONTHLY" (.lit (.num 0 0)) (.const "NMONTHS"),
      .setFlag "FISH_SET"] }

def s_set_fish_nuclear_winter_reduction : SetterInfo :=
  { name := "set_fish_nuclear_winter_reduction", params := ["time_consts"], isOpaque := true, body := [
      .assertClear "FISH_SET",
      .write "time_consts:FISH_PERCENT_MONTHLY" (.opaque "time_consts[\"FISH_PERCENT_MONTHLY\"] = monthly_fish_reduction + 100"),
      .setFlag "FISH_SET"] }

def s_set_fish_baseline : SetterInfo :=
  { name := "set_fish_baseline", params := ["constants_for_params", "time_consts"], isOpaque := false, body := [
      .assertClear "FISH_SET",
      .writeRepeat "time_consts:FISH_PERCENT_MONTHLY" (.lit (.num 100 0)) (.const "NMONTHS"),
      .setFlag "FISH_SET"] }

def s_set_disruption_to_crops_to_zero : SetterInfo :=
  { name := "set_disruption_to_crops_to_zero", params := ["constants_for_params"], isOpaque := false, body := [
      .assertClear "DISRUPTION_SET",
      .write "ADD_OUTDOOR_GROWING" (.lit (.bool true)),
      .write "RATIO_CROPS_YEAR1" (.lit (.num 1 0)),
      .write "RATIO_CROPS_YEAR2" (.lit (.num 1 0)),
      .write "RATIO_CROPS_YEAR3" (.lit (.num 1 0)),
      .write "RATIO_CROPS_YEAR4" (.lit (.num 1 0)),
      .write "RATIO_CROPS_YEAR5" (.lit (.num 1 0)),
      .write "RATIO_CROPS_YEAR6" (.lit (.num 1 0)),
      .write "RATIO_CROPS_YEAR7" (.lit (.num 1 0)),
      .write "RATIO_CROPS_YEAR8" (.lit (.num 1 0)),
      .write "RATIO_CROPS_YEAR9" (.lit (.num 1 0)),
      .write "RATIO_CROPS_YEAR10" (.lit (.num 1 0)),
      .setFlag "DISRUPTION_SET"] }

def s_set_nuclear_winter_global_disruption_to_crops : SetterInfo :=
  { name := "set_nuclear_winter_global_disruption_to_crops", params := ["constants_for_params"], isOpaque := false, body := [
      .assertScope true,
      .assertClear "DISRUPTION_SET",
      .write "ADD_OUTDOOR_GROWING" (.lit (.bool true)),
      .write "RATIO_CROPS_YEAR1" (.sub (.lit (.num 1 0)) (.lit (.num 53 (-2)))),
      .write "RATIO_CROPS_YEAR2" (.sub (.lit (.num 1 0)) (.lit (.num 82 (-2)))),
      .write "RATIO_CROPS_YEAR3" (.sub (.lit (.num 1 0)) (.lit (.num 89 (-2)))),
      .write "RATIO_CROPS_YEAR4" (.sub (.lit (.num 1 0)) (.lit (.num 88 (-2)))),
      .write "RATIO_CROPS_YEAR5" (.sub (.lit (.num 1 0)) (.lit (.num 84 (-2)))),
      .write "RATIO_CROPS_YEAR6" (.sub (.lit (.num 1 0)) (.lit (.num 76 (-2)))),
      .write "RATIO_CROPS_YEAR7" (.sub (.lit (.num 1 0)) (.lit (.num 65 (-2)))),
      .write "RATIO_CROPS_YEAR8" (.sub (.lit (.num 1 0)) (.lit (.num 5 (-1)))),
      .write "RATIO_CROPS_YEAR9" (.sub (.lit (.num 1 0)) (.lit (.num 33 (-2)))),
      .write "RATIO_CROPS_YEAR10" (.sub (.lit (.num 1 0)) (.lit (.num 17 (-2)))),
      .write "RATIO_CROPS_YEAR11" (.sub (.lit (.num 1 0)) (.lit (.num 8 (-2)))),
      .setFlag "DISRUPTION_SET"] }

def s_set_nuclear_winter_country_disruption_to_crops : SetterInfo :=
  { name := "set_nuclear_winter_country_disruption_to_crops", params := ["constants_for_params", "country_data"], isOpaque := false, body := [
      .assertScope false,
      .assertClear "DISRUPTION_SET",
      .write "ADD_OUTDOOR_GROWING" (.lit (.bool true)),
      .write "RATIO_CROPS_YEAR1" (.add (.lit (.num 1 0)) (.cd "crop_reduction_year1")),
      .write "RATIO_CROPS_YEAR2" (.add (.lit (.num 1 0)) (.cd "crop_reduction_year2")),
      .write "RATIO_CROPS_YEAR3" (.add (.lit (.num 1 0)) (.cd "crop_reduction_year3")),
      .write "RATIO_CROPS_YEAR4" (.add (.lit (.num 1 0)) (.cd "crop_reduction_year4")),
      .write "RATIO_CROPS_YEAR5" (.add (.lit (.num 1 0)) (.cd "crop_reduction_year5")),
      .write "RATIO_CROPS_YEAR6" (.add (.lit (.num 1 0)) (.cd "crop_reduction_year6")),
      .write "RATIO_CROPS_YEAR7" (.add (.lit (.num 1 0)) (.cd "crop_reduction_year7")),
      .write "RATIO_CROPS_YEAR8" (.add (.lit (.num 1 0)) (.cd "crop_reduction_year8")),
      .write "RATIO_CROPS_YEAR9" (.add (.lit (.num 1 0)) (.cd "crop_reduction_year9")),
      .write "RATIO_CROPS_YEAR10" (.add (.lit (.num 1 0)) (.cd "crop_reduction_year10")),
      .write "RATIO_CROPS_YEAR11" (.add (.lit (.num 1 0)) (.cd "crop_reduction_year10")),
      .setFlag "DISRUPTION_SET"] }

def s_set_zero_crops : SetterInfo :=
  { name := "set_zero_crops", params := ["constants_for_params"], isOpaque := false, body := [
      .assertClear "DISRUPTION_SET",
      .write "ADD_OUTDOOR_GROWING" (.lit (.bool false)),
      .write "RATIO_OF_CROP_YIELDS_FROM_VERY_BEGINNING" (.lit (.num 0 0)),
      .write "RATIO_CROPS_YEAR1" (.lit (.num 0 0)),
      .write "RATIO_CROPS_YEAR2" (.lit (.num 0 0)),
      .write "RATIO_CROPS_YEAR3" (.lit (.num 0 0)),
      .write "RATIO_CROPS_YEAR4" (.lit (.num 0 0)),
      .write "RATIO_CROPS_YEAR5" (.lit (.num 0 0)),
      .write "RATIO_CROPS_YEAR6" (.lit (.num 0 0)),
      .write "RATIO_CROPS_YEAR7" (.lit (.num 0 0)),
      .write "RATIO_CROPS_YEAR8" (.lit (.num 0 0)),
      .write "RATIO_CROPS_YEAR9" (.lit (.num 0 0)),
      .write "RATIO_CROPS_YEAR10" (.lit (.num 0 0)),
      .write "RATIO_CROPS_YEAR11" (.lit (.num 0 0)),
      .setFlag "DISRUPTION_SET"] }

def s_include_protein : SetterInfo :=
  { name := "include_protein", params := ["constants_for_params"], isOpaque := false, body := [
      .assertClear "PROTEIN_SET",
      .write "INCLUDE_PROTEIN" (.lit (.bool true)),
      .setFlag "PROTEIN_SET"] }

def s_dont_include_protein : SetterInfo :=
  { name := "dont_include_protein", params := ["constants_for_params"], isOpaque := false, body := [
      .assertClear "PROTEIN_SET",
      .write "INCLUDE_PROTEIN" (.lit (.bool false)),
      .setFlag "PROTEIN_SET"] }

def s_include_fat : SetterInfo :=
  { name := "include_fat", params := ["constants_for_params"], isOpaque := false, body := [
      .assertClear "FAT_SET",
      .write "INCLUDE_FAT" (.lit (.bool true)),
      .setFlag "FAT_SET"] }

def s_dont_include_fat : SetterInfo :=
  { name := "dont_include_fat", params := ["constants_for_params"], isOpaque := false, body := [
      .assertClear "FAT_SET",
      .write "INCLUDE_FAT" (.lit (.bool false)),
      .setFlag "FAT_SET"] }

def s_get_all_resilient_foods_scenario : SetterInfo :=
  { name := "get_all_resilient_foods_scenario", params := ["constants_for_params"], isOpaque := false, body := [
      .assertClear "SCENARIO_SET",
      .write "OG_USE_BETTER_ROTATION" (.lit (.bool true)),
      .write "ROTATION_IMPROVEMENTS/FAT_RATIO" (.lit (.num 1647 (-3))),
      .write "ROTATION_IMPROVEMENTS/PROTEIN_RATIO" (.lit (.num 1108 (-3))),
      .write "RATIO_INCREASED_CROP_AREA" (.lit (.num 1 0)),
      .write "DELAY/INDUSTRIAL_FOODS_MONTHS" (.lit (.num 2 0)),
      .write "INDUSTRIAL_FOODS_SLOPE_MULTIPLIER" (.lit (.num 1 0)),
      .write "ADD_METHANE_SCP" (.lit (.bool true)),
      .write "DELAY/INDUSTRIAL_FOODS_MONTHS" (.lit (.num 2 0)),
      .write "INDUSTRIAL_FOODS_SLOPE_MULTIPLIER" (.lit (.num 1 0)),
      .write "ADD_CELLULOSIC_SUGAR" (.lit (.bool true)),
      .write "GREENHOUSE_GAIN_PCT" (.lit (.num 44 0)),
      .write "DELAY/GREENHOUSE_MONTHS" (.lit (.num 2 0)),
      .write "GREENHOUSE_AREA_MULTIPLIER" (.div (.lit (.num 190000000 0)) (.const "INITIAL_GLOBAL_CROP_AREA")),
      .write "ADD_GREENHOUSES" (.lit (.bool true)),
      .write "ADD_SEAWEED" (.lit (.bool true)),
      .write "DELAY/SEAWEED_MONTHS" (.lit (.num 1 0)),
      .setFlag "SCENARIO_SET"] }

def s_get_all_resilient_foods_and_more_area_scenario : SetterInfo :=
  { name := "get_all_resilient_foods_and_more_area_scenario", params := ["constants_for_params"], isOpaque := false, body := [
      .assertClear "SCENARIO_SET",
      .write "OG_USE_BETTER_ROTATION" (.lit (.bool true)),
      .write "ROTATION_IMPROVEMENTS/FAT_RATIO" (.lit (.num 1647 (-3))),
      .write "ROTATION_IMPROVEMENTS/PROTEIN_RATIO" (.lit (.num 1108 (-3))),
      .write "RATIO_INCREASED_CROP_AREA" (.div (.lit (.num 72 0)) (.lit (.num 39 0))),
      .write "NUMBER_YEARS_TAKES_TO_REACH_INCREASED_AREA" (.lit (.num 3 0)),
      .write "DELAY/INDUSTRIAL_FOODS_MONTHS" (.lit (.num 2 0)),
      .write "INDUSTRIAL_FOODS_SLOPE_MULTIPLIER" (.lit (.num 1 0)),
      .write "ADD_METHANE_SCP" (.lit (.bool true)),
      .write "DELAY/INDUSTRIAL_FOODS_MONTHS" (.lit (.num 2 0)),
      .write "INDUSTRIAL_FOODS_SLOPE_MULTIPLIER" (.lit (.num 1 0)),
      .write "ADD_CELLULOSIC_SUGAR" (.lit (.bool true)),
      .write "GREENHOUSE_GAIN_PCT" (.lit (.num 44 0)),
      .write "DELAY/GREENHOUSE_MONTHS" (.lit (.num 2 0)),
      .write "GREENHOUSE_AREA_MULTIPLIER" (.div (.lit (.num 190000000 0)) (.const "INITIAL_GLOBAL_CROP_AREA")),
      .write "ADD_GREENHOUSES" (.lit (.bool true)),
      .write "ADD_SEAWEED" (.lit (.bool true)),
      .write "DELAY/SEAWEED_MONTHS" (.lit (.num 1 0)),
      .setFlag "SCENARIO_SET"] }

def s_get_seaweed_scenario : SetterInfo :=
  { name := "get_seaweed_scenario", params := ["constants_for_params"], isOpaque := false, body := [
      .assertClear "SCENARIO_SET",
      .write "INDUSTRIAL_FOODS_SLOPE_MULTIPLIER" (.lit (.num 0 0)),
      .write "OG_USE_BETTER_ROTATION" (.lit (.bool false)),
      .write "ADD_CELLULOSIC_SUGAR" (.lit (.bool false)),
      .write "ADD_GREENHOUSES" (.lit (.bool false)),
      .write "ADD_METHANE_SCP" (.lit (.bool false)),
      .write "RATIO_INCREASED_CROP_AREA" (.lit (.num 1 0)),
      .write "ADD_SEAWEED" (.lit (.bool true)),
      .write "DELAY/SEAWEED_MONTHS" (.lit (.num 1 0)),
      .setFlag "SCENARIO_SET"] }

def s_get_methane_scp_scenario : SetterInfo :=
  { name := "get_methane_scp_scenario", params := ["constants_for_params"], isOpaque := false, body := [
      .assertClear "SCENARIO_SET",
      .write "OG_USE_BETTER_ROTATION" (.lit (.bool false)),
      .write "ADD_CELLULOSIC_SUGAR" (.lit (.bool false)),
      .write "ADD_GREENHOUSES" (.lit (.bool false)),
      .write "ADD_SEAWEED" (.lit (.bool false)),
      .write "RATIO_INCREASED_CROP_AREA" (.lit (.num 1 0)),
      .write "DELAY/INDUSTRIAL_FOODS_MONTHS" (.lit (.num 2 0)),
      .write "INDUSTRIAL_FOODS_SLOPE_MULTIPLIER" (.lit (.num 1 0)),
      .write "ADD_METHANE_SCP" (.lit (.bool true)),
      .setFlag "SCENARIO_SET"] }

def s_get_cellulosic_sugar_scenario : SetterInfo :=
  { name := "get_cellulosic_sugar_scenario", params := ["constants_for_params"], isOpaque := false, body := [
      .assertClear "SCENARIO_SET",
      .write "OG_USE_BETTER_ROTATION" (.lit (.bool false)),
      .write "ADD_METHANE_SCP" (.lit (.bool false)),
      .write "ADD_GREENHOUSES" (.lit (.bool false)),
      .write "ADD_SEAWEED" (.lit (.bool false)),
      .write "RATIO_INCREASED_CROP_AREA" (.lit (.num 1 0)),
      .write "DELAY/INDUSTRIAL_FOODS_MONTHS" (.lit (.num 2 0)),
      .write "INDUSTRIAL_FOODS_SLOPE_MULTIPLIER" (.lit (.num 1 0)),
      .write "ADD_CELLULOSIC_SUGAR" (.lit (.bool true)),
      .setFlag "SCENARIO_SET"] }

def s_get_industrial_foods_scenario : SetterInfo :=
  { name := "get_industrial_foods_scenario", params := ["constants_for_params"], isOpaque := false, body := [
      .assertClear "SCENARIO_SET",
      .write "OG_USE_BETTER_ROTATION" (.lit (.bool false)),
      .write "ADD_GREENHOUSES" (.lit (.bool false)),
      .write "ADD_SEAWEED" (.lit (.bool false)),
      .write "RATIO_INCREASED_CROP_AREA" (.lit (.num 1 0)),
      .write "DELAY/INDUSTRIAL_FOODS_MONTHS" (.lit (.num 2 0)),
      .write "INDUSTRIAL_FOODS_SLOPE_MULTIPLIER" (.lit (.num 1 0)),
      .write "ADD_METHANE_SCP" (.lit (.bool true)),
      .write "DELAY/INDUSTRIAL_FOODS_MONTHS" (.lit (.num 2 0)),
      .write "INDUSTRIAL_FOODS_SLOPE_MULTIPLIER" (.lit (.num 1 0)),
      .write "ADD_CELLULOSIC_SUGAR" (.lit (.bool true)),
      .setFlag "SCENARIO_SET"] }

def s_get_relocated_crops_scenario : SetterInfo :=
  { name := "get_relocated_crops_scenario", params := ["constants_for_params"], isOpaque := false, body := [
      .assertClear "SCENARIO_SET",
      .write "INDUSTRIAL_FOODS_SLOPE_MULTIPLIER" (.lit (.num 0 0)),
      .write "ADD_CELLULOSIC_SUGAR" (.lit (.bool false)),
      .write "ADD_GREENHOUSES" (.lit (.bool false)),
      .write "ADD_METHANE_SCP" (.lit (.bool false)),
      .write "ADD_SEAWEED" (.lit (.bool false)),
      .write "OG_USE_BETTER_ROTATION" (.lit (.bool true)),
      .write "ROTATION_IMPROVEMENTS/FAT_RATIO" (.lit (.num 1647 (-3))),
      .write "ROTATION_IMPROVEMENTS/PROTEIN_RATIO" (.lit (.num 1108 (-3))),
      .write "RATIO_INCREASED_CROP_AREA" (.lit (.num 1 0)),
      .setFlag "SCENARIO_SET"] }

def s_get_greenhouse_scenario : SetterInfo :=
  { name := "get_greenhouse_scenario", params := ["constants_for_params"], isOpaque := false, body := [
      .assertClear "SCENARIO_SET",
      .write "INDUSTRIAL_FOODS_SLOPE_MULTIPLIER" (.lit (.num 0 0)),
      .write "RATIO_INCREASED_CROP_AREA" (.lit (.num 1 0)),
      .write "OG_USE_BETTER_ROTATION" (.lit (.bool false)),
      .write "ADD_CELLULOSIC_SUGAR" (.lit (.bool false)),
      .write "ADD_METHANE_SCP" (.lit (.bool false)),
      .write "ADD_SEAWEED" (.lit (.bool false)),
      .write "GREENHOUSE_GAIN_PCT" (.lit (.num 44 0)),
      .write "DELAY/GREENHOUSE_MONTHS" (.lit (.num 2 0)),
      .write "GREENHOUSE_AREA_MULTIPLIER" (.div (.lit (.num 190000000 0)) (.const "INITIAL_GLOBAL_CROP_AREA")),
      .write "ADD_GREENHOUSES" (.lit (.bool true)),
      .setFlag "SCENARIO_SET"] }

def s_get_no_resilient_food_scenario : SetterInfo :=
  { name := "get_no_resilient_food_scenario", params := ["constants_for_params"], isOpaque := false, body := [
      .assertClear "SCENARIO_SET",
      .write "INDUSTRIAL_FOODS_SLOPE_MULTIPLIER" (.lit (.num 0 0)),
      .write "RATIO_INCREASED_CROP_AREA" (.lit (.num 1 0)),
      .write "OG_USE_BETTER_ROTATION" (.lit (.bool false)),
      .write "ADD_CELLULOSIC_SUGAR" (.lit (.bool false)),
      .write "ADD_GREENHOUSES" (.lit (.bool false)),
      .write "ADD_METHANE_SCP" (.lit (.bool false)),
      .write "ADD_SEAWEED" (.lit (.bool false)),
      .setFlag "SCENARIO_SET"] }

def s_cull_animals : SetterInfo :=
  { name := "cull_animals", params := ["constants_for_params"], isOpaque := false, body := [
      .assertClear "CULLING_PARAM_SET",
      .write "ADD_MEAT" (.lit (.bool true)),
      .write "ADD_MILK" (.lit (.bool true)),
      .setFlag "CULLING_PARAM_SET"] }

def s_dont_cull_animals : SetterInfo :=
  { name := "dont_cull_animals", params := ["constants_for_params"], isOpaque := false, body := [
      .assertClear "CULLING_PARAM_SET",
      .write "ADD_MEAT" (.lit (.bool false)),
      .write "ADD_MILK" (.lit (.bool false)),
      .setFlag "CULLING_PARAM_SET"] }

def setters : List SetterInfo := [s_init_global_food_system_properties,
  s_init_country_food_system_properties,
  s_set_immediate_shutoff,
  s_set_one_month_delayed_shutoff,
  s_set_short_delayed_shutoff,
  s_set_long_delayed_shutoff,
  s_set_continued_feed_biofuels,
  s_set_continued_after_10_percent_fed,
  s_set_long_delayed_shutoff_after_10_percent_fed,
  s_set_breeding_to_greatly_reduced,
  s_set_to_baseline_breeding,
  s_set_to_feed_only_ruminants,
  s_set_waste_to_zero,
  s_set_global_waste_to_tripled_prices,
  s_set_global_waste_to_doubled_prices,
  s_set_global_waste_to_baseline_prices,
  s_set_country_waste_to_tripled_prices,
  s_set_country_waste_to_doubled_prices,
  s_set_country_waste_to_baseline_prices,
  s_set_baseline_nutrition_profile,
  s_set_catastrophe_nutrition_profile,
  s_set_intake_constraints_to_enabled,
  s_set_intake_constraints_to_disabled_for_humans,
  s_set_no_stored_food,
  s_set_baseline_stored_food,
  s_set_stored_food_buffer_zero,
  s_set_no_stored_food_between_years,
  s_set_stored_food_buffer_as_baseline,
  s_set_stored_food_buffer_as_baseline_and_no_stored_between_years,
  s_set_no_seasonality,
  s_set_global_seasonality_baseline,
  s_set_global_seasonality_nuclear_winter,
  s_set_country_seasonality,
  s_set_grasses_baseline,
  s_set_global_grasses_nuclear_winter,
  s_set_country_grasses_nuclear_winter,
  s_set_country_grasses_to_zero,
  s_set_fish_zero,
  s_set_fish_nuclear_winter_reduction,
  s_set_fish_baseline,
  s_set_disruption_to_crops_to_zero,
  s_set_nuclear_winter_global_disruption_to_crops,
  s_set_nuclear_winter_country_disruption_to_crops,
  s_set_zero_crops,
  s_include_protein,
  s_dont_include_protein,
  s_include_fat,
  s_dont_include_fat,
  s_get_all_resilient_foods_scenario,
  s_get_all_resilient_foods_and_more_area_scenario,
  s_get_seaweed_scenario,
  s_get_methane_scp_scenario,
  s_get_cellulosic_sugar_scenario,
  s_get_industrial_foods_scenario,
  s_get_relocated_crops_scenario,
  s_get_greenhouse_scenario,
  s_get_no_resilient_food_scenario,
  s_cull_animals,
  s_dont_cull_animals]

/-- `assert "k" in scenario_option.keys()` at the top of `set_depending_on_option`, in order -/
def requiredOptions : List String := ["scale", "stored_food", "ratio_stocks_untouched", "shutoff", "waste", "nutrition", "intake_constraints", "seasonality", "grasses", "fish", "crop_disruption", "protein", "fat", "cull", "scenario", "meat_strategy"]
/-- `set_depending_on_option` after the presence assertions and the copy-and-alter step, in source order -/
def dispatch : List DispItem := [
  .family "scale" [
      { value := "global", actions := [.stmt (.assertNoCountry), .call "init_global_food_system_properties", .stmt (.write "COUNTRY_CODE" (.lit (.str "WOR")))] },
      { value := "country", actions := [.call "init_country_food_system_properties", .stmt (.write "COUNTRY_CODE" (.cd "iso3"))] }] none,
  .stmt (.write "NMONTHS" (.opt "NMONTHS")),
  .family "stored_food" [
      { value := "zero", actions := [.call "set_no_stored_food"] },
      { value := "baseline", actions := [.call "set_baseline_stored_food"] }] none,
  .family "ratio_stocks_untouched" [
      { value := "zero", actions := [.call "set_stored_food_buffer_zero"] },
      { value := "no_stored_between_years", actions := [.call "set_no_stored_food_between_years"] },
      { value := "baseline", actions := [.call "set_stored_food_buffer_as_baseline"] },
      { value := "baseline_no_stored_between_years", actions := [.call "set_stored_food_buffer_as_baseline_and_no_stored_between_years"] }] none,
  .family "shutoff" [
      { value := "immediate", actions := [.call "set_immediate_shutoff"] },
      { value := "one_month_delayed_shutoff", actions := [.call "set_one_month_delayed_shutoff"] },
      { value := "short_delayed_shutoff", actions := [.call "set_short_delayed_shutoff"] },
      { value := "long_delayed_shutoff", actions := [.call "set_long_delayed_shutoff"] },
      { value := "continued", actions := [.call "set_continued_feed_biofuels"] },
      { value := "continued_after_10_percent_fed", actions := [.call "set_continued_after_10_percent_fed"] },
      { value := "long_delayed_shutoff_after_10_percent_fed", actions := [.call "set_long_delayed_shutoff_after_10_percent_fed"] }] none,
  .family "waste" [
      { value := "zero", actions := [.call "set_waste_to_zero"] },
      { value := "tripled_prices_in_country", actions := [.call "set_country_waste_to_tripled_prices"] },
      { value := "doubled_prices_in_country", actions := [.call "set_country_waste_to_doubled_prices"] },
      { value := "baseline_in_country", actions := [.call "set_country_waste_to_baseline_prices"] },
      { value := "tripled_prices_globally", actions := [.call "set_global_waste_to_tripled_prices"] },
      { value := "doubled_prices_globally", actions := [.call "set_global_waste_to_doubled_prices"] },
      { value := "baseline_globally", actions := [.call "set_global_waste_to_baseline_prices"] }] none,
  .family "nutrition" [
      { value := "baseline", actions := [.call "set_baseline_nutrition_profile"] },
      { value := "catastrophe", actions := [.call "set_catastrophe_nutrition_profile"] }] none,
  .family "intake_constraints" [
      { value := "enabled", actions := [.call "set_intake_constraints_to_enabled"] },
      { value := "disabled_for_humans", actions := [.call "set_intake_constraints_to_disabled_for_humans"] }] none,
  .family "seasonality" [
      { value := "no_seasonality", actions := [.call "set_no_seasonality"] },
      { value := "country", actions := [.call "set_country_seasonality"] },
      { value := "baseline_globally", actions := [.call "set_global_seasonality_baseline"] },
      { value := "nuclear_winter_globally", actions := [.call "set_global_seasonality_nuclear_winter"] }] none,
  .family "grasses" [
      { value := "baseline", actions := [.call "set_grasses_baseline"] },
      { value := "global_nuclear_winter", actions := [.call "set_global_grasses_nuclear_winter"] },
      { value := "country_nuclear_winter", actions := [.call "set_country_grasses_nuclear_winter"] },
      { value := "all_crops_die_instantly", actions := [.call "set_country_grasses_to_zero"] }] none,
  .family "fish" [
      { value := "zero", actions := [.call "set_fish_zero"] },
      { value := "nuclear_winter", actions := [.call "set_fish_nuclear_winter_reduction"] },
      { value := "baseline", actions := [.call "set_fish_baseline"] }] none,
  .family "crop_disruption" [
      { value := "zero", actions := [.call "set_disruption_to_crops_to_zero"] },
      { value := "global_nuclear_winter", actions := [.call "set_nuclear_winter_global_disruption_to_crops"] },
      { value := "country_nuclear_winter", actions := [.call "set_nuclear_winter_country_disruption_to_crops"] },
      { value := "all_crops_die_instantly", actions := [.call "set_zero_crops"] }] none,
  .family "protein" [
      { value := "required", actions := [.exit] },
      { value := "not_required", actions := [.call "dont_include_protein"] }] none,
  .family "fat" [
      { value := "required", actions := [.exit] },
      { value := "not_required", actions := [.call "dont_include_fat"] }] none,
  .family "cull" [
      { value := "do_eat_culled", actions := [.call "cull_animals"] },
      { value := "dont_eat_culled", actions := [.call "dont_cull_animals"] }] none,
  .family "scenario" [
      { value := "all_resilient_foods", actions := [.call "get_all_resilient_foods_scenario"] },
      { value := "all_resilient_foods_and_more_area", actions := [.call "get_all_resilient_foods_and_more_area_scenario"] },
      { value := "no_resilient_foods", actions := [.call "get_no_resilient_food_scenario"] },
      { value := "seaweed", actions := [.call "get_seaweed_scenario"] },
      { value := "methane_scp", actions := [.call "get_methane_scp_scenario"] },
      { value := "cellulosic_sugar", actions := [.call "get_cellulosic_sugar_scenario"] },
      { value := "relocated_crops", actions := [.call "get_relocated_crops_scenario"] },
      { value := "greenhouse", actions := [.call "get_greenhouse_scenario"] },
      { value := "industrial_foods", actions := [.call "get_industrial_foods_scenario"] }] none,
  .family "meat_strategy" [
      { value := "reduce_breeding", actions := [.call "set_breeding_to_greatly_reduced"] },
      { value := "baseline_breeding", actions := [.call "set_to_baseline_breeding"] },
      { value := "feed_only_ruminants", actions := [.call "set_to_feed_only_ruminants"] }] none,
  .override (.substr "_head" "_start" .int),
  .override (.substr "kg_meat_per_large_animal" "" .float),
  .override (.exact "MINIMUM_PERCENT_FED_BEFORE_NONHUMAN_CONSUMPTION_ALLOWED" "MINIMUM_PERCENT_FED_BEFORE_NONHUMAN_CONSUMPTION_ALLOWED" (.num 0 0) (.num 100 0) []),
  .override (.exact "RATIO_STOCKS_UNTOUCHED" "RATIO_STOCKS_UNTOUCHED" (.num 0 0) (.num 1 0) []),
  .override (.mult "CROP_PRODUCTION_MULTIPLIER" (.num 0 0) (.num 10 0) ["RATIO_CROPS_YEAR1", "RATIO_CROPS_YEAR2", "RATIO_CROPS_YEAR3", "RATIO_CROPS_YEAR4", "RATIO_CROPS_YEAR5", "RATIO_CROPS_YEAR6", "RATIO_CROPS_YEAR7", "RATIO_CROPS_YEAR8", "RATIO_CROPS_YEAR9", "RATIO_CROPS_YEAR10"] ["RATIO_CROPS_YEAR11"]),
  .override (.mult "GRASSES_PRODUCTION_MULTIPLIER" (.num 0 0) (.num 10 0) ["RATIO_GRASSES_YEAR1", "RATIO_GRASSES_YEAR2", "RATIO_GRASSES_YEAR3", "RATIO_GRASSES_YEAR4", "RATIO_GRASSES_YEAR5", "RATIO_GRASSES_YEAR6", "RATIO_GRASSES_YEAR7", "RATIO_GRASSES_YEAR8", "RATIO_GRASSES_YEAR9", "RATIO_GRASSES_YEAR10"] ["RATIO_GRASSES_YEAR11"])]

/-- `failing_scenarios` of `alter_scenario_if_known_to_fail` -/
def failRules : List FailRule := [
  { iso3 := "SLV", conds := [("cull", ["do_eat_culled"]), ("scenario", ["all_resilient_foods", "seaweed"]), ("shutoff", ["continued", "long_delayed_shutoff", "short_delayed_shutoff"])], corrKey := "shutoff", corrVal := "immediate" },
  { iso3 := "ALB", conds := [("cull", ["do_eat_culled"]), ("scenario", ["all_resilient_foods", "seaweed"]), ("shutoff", ["continued", "long_delayed_shutoff", "short_delayed_shutoff"])], corrKey := "shutoff", corrVal := "immediate" },
  { iso3 := "ECU", conds := [("scenario", ["all_resilient_foods", "seaweed", "greenhouse", "methane_scp", "relocated_crops", "industrial_foods", "cellulosic_sugar"]), ("crop_disruption", ["zero", "baseline"]), ("meat_strategy", ["feed_only_ruminants"]), ("ratio_stocks_untouched", ["zero", "baseline"]), ("cull", ["do_eat_culled"]), ("shutoff", ["long_delayed_shutoff"])], corrKey := "shutoff", corrVal := "immediate" },
  { iso3 := "ECU", conds := [("scenario", ["all_resilient_foods", "seaweed", "greenhouse", "methane_scp", "relocated_crops", "industrial_foods", "cellulosic_sugar"]), ("crop_disruption", ["zero", "baseline"]), ("meat_strategy", ["feed_only_ruminants"]), ("ratio_stocks_untouched", ["zero", "baseline"]), ("cull", ["do_eat_culled"]), ("shutoff", ["long_delayed_shutoff"])], corrKey := "shutoff", corrVal := "immediate" }]

/-- head-count columns of FAOSTAT_head_and_slaughter.csv (the table `animal_populations.main` overrides) -/
def headColumns : List String := ["chicken_head", "rabbit_head", "duck_head", "goose_head", "turkey_head", "other_rodents_head", "pig_head", "meat_goat_head", "meat_sheep_head", "camelids_head", "meat_cattle_head", "meat_camel_head", "meat_buffalo_head", "mule_head", "horse_head", "asses_head", "milk_sheep_head", "milk_cattle_head", "milk_goat_head", "milk_camel_head", "milk_buffalo_head"]
def slaughterColumns : List String := ["chicken_slaughter", "rabbit_slaughter", "duck_slaughter", "goose_slaughter", "turkey_slaughter", "other_rodents_slaughter", "pig_slaughter", "goat_slaughter", "sheep_slaughter", "camelids_slaughter", "cattle_slaughter", "camel_slaughter", "buffalo_slaughter", "mule_slaughter", "horse_slaughter", "asses_slaughter"]
/-- `animal` column of species_attributes.csv -/
def speciesNames : List String := ["chicken", "rabbit", "duck", "goose", "turkey", "other_rodents", "pig", "meat_goat", "meat_sheep", "camelids", "meat_cattle", "meat_camel", "meat_buffalo", "mule", "horse", "asses", "milk_sheep", "milk_cattle", "milk_goat", "milk_camel", "milk_buffalo"]
/-- `animal_populations.main`: `if loaderNeedle in key: table[key.<loaderFunction>(loaderArg)] = value` -/
def loaderFunction : String := "removesuffix"
def loaderNeedle : String := "_head_start"
def loaderArg : String := "_start"

end Allfed.Gen.Scenario
