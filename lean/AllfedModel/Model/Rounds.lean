import AllfedModel.Model.AllocLP
import AllfedModel.Model.PhysSpec
import AllfedModel.Model.Handoff
/-
The three-round structure of a scenario (property C03): demand schedule, what each round may
draw for feed and biofuel, and the executable statement of the inter-round relations that the
check evaluates on every real three-round run.
-/
namespace Allfed.Rounds
open Allfed.LP Allfed.AllocLP Allfed.PhysSpec

section
variable {α : Type} [Add α] [Sub α] [Mul α] [Div α] [Neg α] [LE α] [LT α]
  [DecidableLE α] [DecidableLT α] [OfNat α 0] [OfNat α 1] [OfScientific α]

/-- `get_feed_usage` / `get_biofuel_usage`: the monthly amount for `duration` months, then zero -/
def demandSeries (monthly : α) (duration nmonths : Nat) : List α :=
  List.replicate duration monthly ++ List.replicate (nmonths - duration) 0

/-- what the inter-round relations demand of one three-round run
    * `p1` percent fed of the no-feed round, `p3` of the final round, `T` the configured minimum share,
    * `drawn` the largest monthly feed+biofuel drawn from human-edible food in the final round,
    * `need` the monthly requirement (same unit as `drawn`),
    * tolerances: `tolP` percentage points for "not lower", `tolF` for "essentially no" (share of `need`). -/
def relOK (T p1 p3 drawn need tolP tolF : α) : Bool :=
  -- final result below the minimum share ⇒ essentially no feed/biofuel and not below the no-feed round
  (if p3 < T - tolP then decide (drawn ≤ tolF * need) && decide (p1 - tolP ≤ p3) else true) &&
  -- the no-feed round reaches the minimum share ⇒ so does the final result
  (if T ≤ p1 then decide (T - tolP ≤ p3) else true)

end
end Allfed.Rounds
