import AllfedModel.Model.Units
import Driver.Wire
open Wire Allfed.Units Allfed.Gen.Units

namespace Ops.Units

def optF : Option Float → String
  | none => "none"
  | some x => "some " ++ outF x

/-- units.mult <table 0|1|2> kd fd pd pop unit -/
def multOp : P String := do
  let t ← nat; let kd ← float; let fd ← float; let pd ← float; let pop ← float; let u ← str
  let c := mkConv kd fd pd pop
  pure (optF (match t with | 0 => kcalMult c u | 1 => fatMult c u | _ => proteinMult c u))

/-- units.inUnits kd fd pd pop fromK fromF fromP toK toF toP -/
def inUnitsOp : P String := do
  let kd ← float; let fd ← float; let pd ← float; let pop ← float
  let fk ← str; let ff ← str; let fp ← str; let tk ← str; let tf ← str; let tp ← str
  match inUnits (mkConv kd fd pd pop) ⟨fk, ff, fp⟩ ⟨tk, tf, tp⟩ with
  | none => pure "none"
  | some (nu, fa) => pure s!"some {encodeStr nu.k} {encodeStr nu.f} {encodeStr nu.p} {outF fa.k} {outF fa.f} {outF fa.p}"

def namesOp : P String := do
  pure (outL encodeStr kcalMultNames ++ " " ++ outL encodeStr fatMultNames ++ " " ++ outL encodeStr proteinMultNames)

def convOp : P String := do
  let kd ← float; let fd ← float; let pd ← float; let pop ← float
  let c := mkConv kd fd pd pop
  pure (outFs [c.days_in_month, c.kcals_monthly, c.fat_monthly, c.protein_monthly, c.billion_kcals_needed,
    c.thou_tons_fat_needed, c.thou_tons_protein_needed, c.population])

def ops : List (String × P String) :=
  [("units.mult", multOp), ("units.inUnits", inUnitsOp), ("units.names", namesOp), ("units.conv", convOp)]

end Ops.Units
