import AllfedModel.Model.Herd
import Mathlib.Algebra.Order.Field.Basic
import Mathlib.Algebra.Order.Field.Rat
import Mathlib.Algebra.Order.AbsoluteValue.Basic
import Mathlib.Algebra.BigOperators.Group.List.Basic
import Mathlib.Algebra.Order.BigOperators.Group.List
import Mathlib.Data.List.Perm.Basic
import Mathlib.Tactic.Linarith
import Mathlib.Tactic.Ring
import Mathlib.Tactic.FieldSimp
import Mathlib.Tactic.NormNum
import Mathlib.Tactic.Positivity
/-!
# Helper lemmas and proofs for the herd simulation (properties C06, C07)

Everything is proved over an arbitrary linearly ordered field `K`, for arbitrary species lists and
supply series.  `rnd` (Python's `round`) is an arbitrary function; where it matters the hypothesis
`∀ x, |rnd x - x| ≤ 1/2` is stated.
-/
namespace Allfed.HerdProofs
open Allfed Allfed.Herd

set_option linter.unusedSectionVars false
set_option linter.unusedVariables false

variable {K : Type} [Field K] [LinearOrder K] [IsStrictOrderedRing K]

/-! ## basic facts -/

theorem pmin_eq_min (a b : K) : pmin a b = min a b := by
  unfold pmin
  split_ifs with h
  · exact (min_eq_right h.le).symm
  · exact (min_eq_left (not_lt.mp h)).symm

theorem pmax_eq_max (a b : K) : pmax a b = max a b := by
  unfold pmax
  split_ifs with h
  · exact (max_eq_right h.le).symm
  · exact (max_eq_left (not_lt.mp h)).symm

theorem eq_zero_iff_le (x : K) : (x ≤ 0 ∧ 0 ≤ x) ↔ x = 0 :=
  ⟨fun h => le_antisymm h.1 h.2, fun h => by subst h; exact ⟨le_refl _, le_refl _⟩⟩

/-! ## `feedSpecies` (C07) -/

section feed
variable (rnd : K → K) (eG eF need pop g f : K) (rum : Bool)

theorem feedSpecies_in : (feedSpecies rnd eG eF need pop g f rum).grassIn = g ∧
    (feedSpecies rnd eG eF need pop g f rum).feedIn = f := by
  unfold feedSpecies
  dsimp only
  split_ifs <;> exact ⟨rfl, rfl⟩

/-- the four exits of `feed_the_species`, as a disjunction of complete descriptions -/
theorem feedSpecies_cases (heG : 0 < eG) (heF : 0 < eF) (hn : 0 ≤ need) (hg : 0 ≤ g) (hf : 0 ≤ f)
    (o : FeedOut K) (ho : o = feedSpecies rnd eG eF need pop g f rum) :
    o.grassIn = g ∧ o.feedIn = f ∧
    ( -- nothing needed
      (need = 0 ∧ o.grass = g ∧ o.feed = f ∧ o.balance = 0 ∧ o.fed = pop) ∨
      -- grass alone is enough
      (0 < need ∧ rum = true ∧ need ≤ g * eG ∧ o.grass = g - need / eG ∧ o.feed = f ∧ o.balance = 0 ∧ o.fed = pop) ∨
      -- all the grass the species may eat, then feed is enough
      (0 < need ∧ o.grass = (if rum then 0 else g) ∧ o.feed = f - (need - (if rum then g * eG else 0)) / eF ∧
        (if rum then g * eG else 0) < need ∧ need - (if rum then g * eG else 0) ≤ f * eF ∧
        o.balance = 0 ∧ o.fed = pop) ∨
      -- not enough: everything is eaten
      (0 < need ∧ o.grass = (if rum then 0 else g) ∧ o.feed = 0 ∧
        (if rum then g * eG else 0) + f * eF < need ∧
        o.balance = need - ((if rum then g * eG else 0) + f * eF) ∧
        o.fed = min (rnd (((if rum then g * eG else 0) + f * eF) / need * pop)) pop) ) := by
  have hGE : 0 ≤ g * eG := mul_nonneg hg heG.le
  by_cases h0 : need ≤ 0 ∧ 0 ≤ need
  · have hz : need = 0 := (eq_zero_iff_le need).mp h0
    have ho' : o = ⟨g, f, g, f, need, pop⟩ := by
      rw [ho]; unfold feedSpecies; rw [if_pos h0]
    subst ho'
    exact ⟨rfl, rfl, Or.inl ⟨hz, rfl, rfl, hz, rfl⟩⟩
  · have hpos : 0 < need := lt_of_le_of_ne hn (fun h => h0 ((eq_zero_iff_le need).mpr h.symm))
    cases rum with
    | false =>
      have hnG : ¬ need ≤ (0 : K) := not_le.mpr hpos
      have hnl : ¬ (0 : K) < 0 := lt_irrefl _
      by_cases h2 : need ≤ f * eF
      · have ho' : o = ⟨g, f, g, f - need / eF, 0, pop⟩ := by
          rw [ho]; unfold feedSpecies
          simp only [if_neg h0, Bool.false_eq_true, if_false, if_neg hnG, if_neg hnl, if_pos h2]
        subst ho'
        refine ⟨rfl, rfl, Or.inr (Or.inr (Or.inl ⟨hpos, ?_, ?_, ?_, ?_, rfl, rfl⟩))⟩
        · simp
        · simp
        · simpa using hpos
        · simpa using h2
      · have ho' : o = ⟨g, f, g, 0, need - (0 + f * eF), pmin (rnd ((0 + f * eF) / need * pop)) pop⟩ := by
          rw [ho]; unfold feedSpecies
          simp only [if_neg h0, Bool.false_eq_true, if_false, if_neg hnG, if_neg hnl, if_neg h2]
        subst ho'
        refine ⟨rfl, rfl, Or.inr (Or.inr (Or.inr ⟨hpos, ?_, rfl, ?_, ?_, ?_⟩))⟩
        · simp
        · simpa using not_le.mp h2
        · simp
        · simp [pmin_eq_min]
    | true =>
      by_cases h1 : need ≤ g * eG
      · have ho' : o = ⟨g, f, g - need / eG, f, 0, pop⟩ := by
          rw [ho]; unfold feedSpecies
          simp only [if_neg h0, if_true, if_pos h1]
        subst ho'
        exact ⟨rfl, rfl, Or.inr (Or.inl ⟨hpos, rfl, h1, rfl, rfl, rfl, rfl⟩)⟩
      · have h1' : g * eG < need := not_le.mp h1
        by_cases hgp : 0 < g * eG
        · by_cases h2 : need - g * eG ≤ f * eF
          · have ho' : o = ⟨g, f, 0, f - (need - g * eG) / eF, 0, pop⟩ := by
              rw [ho]; unfold feedSpecies
              simp only [if_neg h0, if_true, if_neg h1, if_pos hgp, if_pos h2]
            subst ho'
            refine ⟨rfl, rfl, Or.inr (Or.inr (Or.inl ⟨hpos, ?_, ?_, ?_, ?_, rfl, rfl⟩))⟩
            · simp
            · simp
            · simpa using h1'
            · simpa using h2
          · have ho' : o = ⟨g, f, 0, 0, need - (g * eG + f * eF), pmin (rnd ((g * eG + f * eF) / need * pop)) pop⟩ := by
              rw [ho]; unfold feedSpecies
              simp only [if_neg h0, if_true, if_neg h1, if_pos hgp, if_neg h2]
            subst ho'
            refine ⟨rfl, rfl, Or.inr (Or.inr (Or.inr ⟨hpos, ?_, rfl, ?_, ?_, ?_⟩))⟩
            · simp
            · have := not_le.mp h2; simp only [if_true]; linarith
            · simp
            · simp [pmin_eq_min]
        · -- a ruminant offered no grass at all
          have hg0 : g * eG = 0 := le_antisymm (not_lt.mp hgp) hGE
          have hgz : g = 0 := by
            rcases mul_eq_zero.mp hg0 with h | h
            · exact h
            · exact absurd h heG.ne'
          by_cases h2 : need ≤ f * eF
          · have ho' : o = ⟨g, f, g, f - need / eF, 0, pop⟩ := by
              rw [ho]; unfold feedSpecies
              simp only [if_neg h0, if_true, if_neg h1, if_neg hgp, if_pos h2]
            subst ho'
            refine ⟨rfl, rfl, Or.inr (Or.inr (Or.inl ⟨hpos, ?_, ?_, ?_, ?_, rfl, rfl⟩))⟩
            · simp [hgz]
            · simp [hg0]
            · simpa [hg0] using hpos
            · simpa [hg0] using h2
          · have ho' : o = ⟨g, f, g, 0, need - (g * eG + f * eF), pmin (rnd ((g * eG + f * eF) / need * pop)) pop⟩ := by
              rw [ho]; unfold feedSpecies
              simp only [if_neg h0, if_true, if_neg h1, if_neg hgp, if_neg h2]
            subst ho'
            refine ⟨rfl, rfl, Or.inr (Or.inr (Or.inr ⟨hpos, ?_, rfl, ?_, ?_, ?_⟩))⟩
            · simp [hgz]
            · have := not_le.mp h2; simp only [if_true]; rw [hg0]; linarith
            · simp
            · simp [pmin_eq_min]

/-- bounds, energy accounting and what is left (everything C07 says about one species except the count) -/
theorem feedSpecies_energy (heG : 0 < eG) (heF : 0 < eF) (hn : 0 ≤ need) (hg : 0 ≤ g) (hf : 0 ≤ f)
    (o : FeedOut K) (ho : o = feedSpecies rnd eG eF need pop g f rum) :
    o.grassIn = g ∧ o.feedIn = f ∧
    0 ≤ o.grass ∧ o.grass ≤ g ∧ 0 ≤ o.feed ∧ o.feed ≤ f ∧
    o.balance = need - (eG * (g - o.grass) + eF * (f - o.feed)) ∧ 0 ≤ o.balance ∧
    (rum = false → o.grass = g) ∧
    (o.balance = 0 ∨ (o.feed = 0 ∧ (rum = true → o.grass = 0))) := by
  obtain ⟨h1, h2, hc⟩ := feedSpecies_cases rnd eG eF need pop g f rum heG heF hn hg hf o ho
  refine ⟨h1, h2, ?_⟩
  have hGE : 0 ≤ g * eG := mul_nonneg hg heG.le
  have hFE : 0 ≤ f * eF := mul_nonneg hf heF.le
  rcases hc with ⟨hz, hgr, hfe, hb, -⟩ | ⟨hp, hr, hle, hgr, hfe, hb, -⟩ | ⟨hp, hgr, hfe, hlt, hle, hb, -⟩ |
      ⟨hp, hgr, hfe, hlt, hb, -⟩
  · rw [hgr, hfe, hb]
    refine ⟨hg, le_refl _, hf, le_refl _, ?_, le_refl _, fun _ => rfl, Or.inl rfl⟩
    rw [hz]; ring
  · have hd : eG * (need / eG) = need := by field_simp
    have hq : 0 ≤ need / eG := div_nonneg hn heG.le
    have hq2 : need / eG ≤ g := by rw [div_le_iff₀ heG]; exact hle
    rw [hgr, hfe, hb]
    refine ⟨by linarith, by linarith, hf, le_refl _, ?_, le_refl _, fun h => ?_, Or.inl rfl⟩
    · have : eG * (g - (g - need / eG)) = need := by rw [sub_sub_cancel]; exact hd
      rw [this]; ring
    · rw [hr] at h; cases h
  · cases rum with
    | false =>
      simp only [Bool.false_eq_true, if_false, sub_zero] at hgr hfe hlt hle
      rw [hgr, hfe, hb]
      have hd : eF * (need / eF) = need := by field_simp
      have hq : 0 ≤ need / eF := div_nonneg hn heF.le
      have hq2 : need / eF ≤ f := by rw [div_le_iff₀ heF]; exact hle
      refine ⟨hg, le_refl _, by linarith, by linarith, ?_, le_refl _, fun _ => rfl, Or.inl rfl⟩
      rw [sub_self, mul_zero, zero_add, sub_sub_cancel, hd, sub_self]
    | true =>
      simp only [if_true] at hgr hfe hlt hle
      rw [hgr, hfe, hb]
      have hd : eF * ((need - g * eG) / eF) = need - g * eG := by field_simp
      have hq : 0 ≤ (need - g * eG) / eF := div_nonneg (by linarith) heF.le
      have hq2 : (need - g * eG) / eF ≤ f := by rw [div_le_iff₀ heF]; exact hle
      refine ⟨le_refl _, hg, by linarith, by linarith, ?_, le_refl _, fun h => Bool.noConfusion h, Or.inl rfl⟩
      rw [sub_zero, sub_sub_cancel, hd]; ring
  · cases rum with
    | false =>
      simp only [Bool.false_eq_true, if_false, zero_add] at hgr hlt hb
      rw [hgr, hfe, hb]
      exact ⟨hg, le_refl _, le_refl _, hf, by ring, by linarith, fun _ => rfl,
        Or.inr ⟨rfl, fun h => Bool.noConfusion h⟩⟩
    | true =>
      simp only [if_true] at hgr hlt hb
      rw [hgr, hfe, hb]
      exact ⟨le_refl _, hg, le_refl _, hf, by ring, by linarith, fun h => Bool.noConfusion h,
        Or.inr ⟨rfl, fun _ => rfl⟩⟩

/-- the fed count -/
theorem feedSpecies_fed (hr : ∀ x, |rnd x - x| ≤ 1 / 2)
    (heG : 0 < eG) (heF : 0 < eF) (hn : 0 ≤ need) (hg : 0 ≤ g) (hf : 0 ≤ f) (hp : 0 ≤ pop)
    (o : FeedOut K) (ho : o = feedSpecies rnd eG eF need pop g f rum) :
    o.fed ≤ pop ∧ (o.balance = 0 → o.fed = pop) ∧
    (o.balance ≠ 0 → |o.fed - pop * ((need - o.balance) / need)| ≤ 1 / 2) ∧ 0 ≤ pop - o.fed := by
  obtain ⟨-, -, hc⟩ := feedSpecies_cases rnd eG eF need pop g f rum heG heF hn hg hf o ho
  have hfin : ∀ (hfed : o.fed = pop) (hb : o.balance = 0),
      o.fed ≤ pop ∧ (o.balance = 0 → o.fed = pop) ∧
      (o.balance ≠ 0 → |o.fed - pop * ((need - o.balance) / need)| ≤ 1 / 2) ∧ 0 ≤ pop - o.fed := by
    intro hfed hb
    exact ⟨hfed.le, fun _ => hfed, fun h => absurd hb h, by rw [hfed, sub_self]⟩
  rcases hc with ⟨-, -, -, hb, hfed⟩ | ⟨-, -, -, -, -, hb, hfed⟩ | ⟨-, -, -, -, -, hb, hfed⟩ | ⟨hpos, -, -, hlt, hb, hfed⟩
  · exact hfin hfed hb
  · exact hfin hfed hb
  · exact hfin hfed hb
  · have hprov0 : 0 ≤ (if rum then g * eG else 0) + f * eF := by
      have hGE : 0 ≤ g * eG := mul_nonneg hg heG.le
      have hFE : 0 ≤ f * eF := mul_nonneg hf heF.le
      cases rum <;> simp <;> linarith
    generalize (if rum then g * eG else 0) + f * eF = prov at hlt hb hfed hprov0
    have hbne : o.balance ≠ 0 := by rw [hb]; intro h; linarith
    have hfrac : prov / need * pop ≤ pop := by
      have h1 : prov / need ≤ 1 := by rw [div_le_one hpos]; exact hlt.le
      calc prov / need * pop ≤ 1 * pop := mul_le_mul_of_nonneg_right h1 hp
        _ = pop := one_mul _
    have hle : o.fed ≤ pop := by rw [hfed]; exact min_le_right _ _
    refine ⟨hle, fun h => absurd h hbne, fun _ => ?_, by linarith⟩
    have hx : pop * ((need - o.balance) / need) = prov / need * pop := by
      rw [hb, sub_sub_cancel]; ring
    rw [hx, hfed]
    have hrx := hr (prov / need * pop)
    rw [abs_le] at hrx ⊢
    rcases le_total (rnd (prov / need * pop)) pop with h | h
    · rw [min_eq_left h]; exact hrx
    · rw [min_eq_right h]; constructor <;> linarith [hrx.1, hrx.2]

end feed

/-! ## `feedAll` -/

/-- what `feedAll` guarantees for every species of the list, relative to the supplies `g`, `f` offered
    to the whole list: the record is `feedSpecies` on what the predecessors left, and that is
    non-negative and within the supplies -/
def FedBy (rnd : K → K) (g f : K) (r : FeedReq K) (o : FeedOut K) : Prop :=
  o = feedSpecies rnd r.effG r.effF r.need r.pop o.grassIn o.feedIn r.rum ∧
  0 ≤ o.grassIn ∧ o.grassIn ≤ g ∧ 0 ≤ o.feedIn ∧ o.feedIn ≤ f

def ReqOK (r : FeedReq K) : Prop := 0 < r.effG ∧ 0 < r.effF ∧ 0 ≤ r.need

theorem feedAll_cons (rnd : K → K) (r : FeedReq K) (t : List (FeedReq K)) (g f : K) :
    feedAll rnd (r :: t) g f =
      (feedSpecies rnd r.effG r.effF r.need r.pop g f r.rum ::
        (feedAll rnd t (feedSpecies rnd r.effG r.effF r.need r.pop g f r.rum).grass
          (feedSpecies rnd r.effG r.effF r.need r.pop g f r.rum).feed).1,
       (feedAll rnd t (feedSpecies rnd r.effG r.effF r.need r.pop g f r.rum).grass
          (feedSpecies rnd r.effG r.effF r.need r.pop g f r.rum).feed).2.1,
       (feedAll rnd t (feedSpecies rnd r.effG r.effF r.need r.pop g f r.rum).grass
          (feedSpecies rnd r.effG r.effF r.need r.pop g f r.rum).feed).2.2) := rfl

theorem feedAll_length (rnd : K → K) (reqs : List (FeedReq K)) (g f : K) :
    (feedAll rnd reqs g f).1.length = reqs.length := by
  induction reqs generalizing g f with
  | nil => rfl
  | cons r t ih => rw [feedAll_cons]; simp [ih]

theorem feedAll_spec (rnd : K → K) (reqs : List (FeedReq K)) (g f : K)
    (hok : ∀ r ∈ reqs, ReqOK r) (hg : 0 ≤ g) (hf : 0 ≤ f) :
    List.Forall₂ (FedBy rnd g f) reqs (feedAll rnd reqs g f).1 ∧
    0 ≤ (feedAll rnd reqs g f).2.1 ∧ (feedAll rnd reqs g f).2.1 ≤ g ∧
    0 ≤ (feedAll rnd reqs g f).2.2 ∧ (feedAll rnd reqs g f).2.2 ≤ f := by
  induction reqs generalizing g f with
  | nil => exact ⟨List.Forall₂.nil, hg, le_refl _, hf, le_refl _⟩
  | cons r t ih =>
    obtain ⟨h1, h2, h3⟩ := hok r (by simp)
    have he := feedSpecies_energy rnd r.effG r.effF r.need r.pop g f r.rum h1 h2 h3 hg hf _ rfl
    obtain ⟨hgi, hfi, hg0, hg1, hf0, hf1, -⟩ := he
    have iht := ih _ _ (fun x hx => hok x (by simp [hx])) hg0 hf0
    rw [feedAll_cons]
    refine ⟨List.Forall₂.cons ?_ ?_, iht.2.1, le_trans iht.2.2.1 hg1, iht.2.2.2.1, le_trans iht.2.2.2.2 hf1⟩
    · refine ⟨?_, ?_, ?_, ?_, ?_⟩
      · rw [hgi, hfi]
      · rw [hgi]; exact hg
      · rw [hgi]
      · rw [hfi]; exact hf
      · rw [hfi]
    · refine List.Forall₂.imp ?_ iht.1
      intro r' o' ⟨ha, hb, hc, hd, he⟩
      exact ⟨ha, hb, le_trans hc hg1, hd, le_trans he hf1⟩

/-- the supplies used by the whole list are what the species ate -/
theorem feedAll_sum (rnd : K → K) (reqs : List (FeedReq K)) (g f : K) :
    g - (feedAll rnd reqs g f).2.1 = ((feedAll rnd reqs g f).1.map (fun o => o.grassIn - o.grass)).sum ∧
    f - (feedAll rnd reqs g f).2.2 = ((feedAll rnd reqs g f).1.map (fun o => o.feedIn - o.feed)).sum := by
  induction reqs generalizing g f with
  | nil => simp [feedAll]
  | cons r t ih =>
    have hin := feedSpecies_in rnd r.effG r.effF r.need r.pop g f r.rum
    obtain ⟨iha, ihb⟩ := ih (feedSpecies rnd r.effG r.effF r.need r.pop g f r.rum).grass
      (feedSpecies rnd r.effG r.effF r.need r.pop g f r.rum).feed
    rw [feedAll_cons]
    simp only [List.map_cons, List.sum_cons]
    rw [← iha, ← ihb, hin.1, hin.2]
    constructor <;> ring

/-- priority: a species served later eats feed (grass) only if every species served earlier has
    its requirement fully met (or is not a ruminant, for grass) -/
theorem feedAll_priority (rnd : K → K) (reqs : List (FeedReq K)) (g f : K)
    (hok : ∀ r ∈ reqs, ReqOK r) (hg : 0 ≤ g) (hf : 0 ≤ f)
    (i j : Nat) (hij : i < j) (ri : FeedReq K) (oi oj : FeedOut K)
    (hri : reqs[i]? = some ri) (hoi : (feedAll rnd reqs g f).1[i]? = some oi)
    (hoj : (feedAll rnd reqs g f).1[j]? = some oj) :
    (0 < oj.feedIn - oj.feed → oi.balance = 0) ∧
    (0 < oj.grassIn - oj.grass → oi.balance = 0 ∨ ri.rum = false) := by
  induction reqs generalizing g f i j with
  | nil => simp at hri
  | cons r t ih =>
    obtain ⟨h1, h2, h3⟩ := hok r (by simp)
    have hokt : ∀ x ∈ t, ReqOK x := fun x hx => hok x (by simp [hx])
    obtain ⟨-, -, hg0, -, hf0, -, -, -, -, hprio⟩ :=
      feedSpecies_energy rnd r.effG r.effF r.need r.pop g f r.rum h1 h2 h3 hg hf _ rfl
    rw [feedAll_cons] at hoi hoj
    obtain ⟨j', rfl⟩ : ∃ j', j = j' + 1 := ⟨j - 1, by omega⟩
    simp only [List.getElem?_cons_succ] at hoj
    cases i with
    | zero =>
      simp only [List.getElem?_cons_zero, Option.some.injEq] at hoi hri
      subst hoi; subst hri
      -- bounds of what `oj` saw
      have hsp := (feedAll_spec rnd t _ _ hokt hg0 hf0).1
      obtain ⟨rj, hrj, hfb⟩ : ∃ rj, t[j']? = some rj ∧ FedBy rnd _ _ rj oj := by
        have hlen := hsp.length_eq
        have hj' : j' < (feedAll rnd t (feedSpecies rnd r.effG r.effF r.need r.pop g f r.rum).grass
            (feedSpecies rnd r.effG r.effF r.need r.pop g f r.rum).feed).1.length := by
          by_contra hh
          rw [List.getElem?_eq_none (not_lt.mp hh)] at hoj; cases hoj
        have hjt : j' < t.length := by omega
        refine ⟨t[j'], List.getElem?_eq_getElem hjt, ?_⟩
        have := List.forall₂_iff_get.mp hsp
        have h := this.2 j' hjt hj'
        rw [List.getElem?_eq_getElem hj'] at hoj
        simp only [Option.some.injEq] at hoj
        simpa [hoj] using h
      obtain ⟨hoj_eq, hgi0, hgi1, hfi0, hfi1⟩ := hfb
      have hrjok := hokt rj (List.mem_of_getElem? hrj)
      have hej := feedSpecies_energy rnd rj.effG rj.effF rj.need rj.pop oj.grassIn oj.feedIn rj.rum
        hrjok.1 hrjok.2.1 hrjok.2.2 hgi0 hfi0 oj hoj_eq
      obtain ⟨-, -, hgo0, -, hfo0, -, -⟩ := hej
      rcases hprio with hb | ⟨hfz, hgz⟩
      · exact ⟨fun _ => hb, fun _ => Or.inl hb⟩
      · constructor
        · intro hpos; rw [hfz] at hfi1; linarith
        · intro hpos
          cases hrum : r.rum with
          | false => exact Or.inr rfl
          | true => rw [hgz hrum] at hgi1; linarith
    | succ i' =>
      simp only [List.getElem?_cons_succ] at hoi hri
      exact ih _ _ hokt hg0 hf0 i' j' (by omega) hri hoi hoj

/-! ## the priority sort -/

section sort
variable {β : Type} (key : β → K)

theorem insertDesc_perm (x : β) (l : List β) : (insertDesc key x l).Perm (x :: l) := by
  induction l with
  | nil => exact List.Perm.refl _
  | cons y ys ih =>
    unfold insertDesc
    split_ifs with h
    · exact ((List.Perm.cons y ih).trans (List.Perm.swap x y ys))
    · exact List.Perm.refl _

theorem sortDesc_perm (l : List β) : (sortDesc key l).Perm l := by
  induction l with
  | nil => exact List.Perm.refl _
  | cons x t ih =>
    unfold sortDesc
    exact (insertDesc_perm key x _).trans (List.Perm.cons x ih)

theorem insertDesc_sorted (x : β) (l : List β) (h : l.Pairwise (fun a b => key b ≤ key a)) :
    (insertDesc key x l).Pairwise (fun a b => key b ≤ key a) := by
  induction l with
  | nil => simp [insertDesc]
  | cons y ys ih =>
    unfold insertDesc
    rw [List.pairwise_cons] at h
    split_ifs with hlt
    · rw [List.pairwise_cons]
      refine ⟨fun b hb => ?_, ih h.2⟩
      rcases List.mem_cons.mp ((insertDesc_perm key x ys).mem_iff.mp hb) with rfl | hb
      · exact hlt.le
      · exact h.1 b hb
    · have hxy : key y ≤ key x := not_lt.mp hlt
      rw [List.pairwise_cons]
      refine ⟨fun b hb => ?_, List.pairwise_cons.mpr h⟩
      rcases List.mem_cons.mp hb with rfl | hb
      · exact hxy
      · exact le_trans (h.1 b hb) hxy

theorem sortDesc_sorted (l : List β) : (sortDesc key l).Pairwise (fun a b => key b ≤ key a) := by
  induction l with
  | nil => simp [sortDesc]
  | cons x t ih => unfold sortDesc; exact insertDesc_sorted key x _ ih

end sort

/-! ## the month step (C06): well-formedness predicates -/

/-- the parameter ranges the setters of `AnimalSpecies` enforce (and the shipped tables satisfy;
    the correspondence run checks them on the parameters of every country it drives) -/
structure SpOK (sp : Species K) : Prop where
  effG : 0 < sp.effG
  effF : 0 < sp.effF
  ne : 0 ≤ sp.nePerHead
  hours : 0 < sp.hours
  baseline : 0 ≤ sp.baseline
  target : 0 ≤ sp.target
  odr : 0 ≤ sp.odr
  app : 0 ≤ sp.app
  br : 1 ≤ sp.birthRatio
  tcf0 : 0 ≤ sp.tcf
  tcf1 : sp.tcf ≤ 1
  gest : 0 < sp.gestation
  rib0 : 0 ≤ sp.rib
  rib1 : sp.rib ≤ 1
  sdf : 0 ≤ sp.sdf
  ret : 0 ≤ sp.retFrac

/-- the invariant of the month loop -/
structure HerdOK (h : Herd K) : Prop where
  sp : SpOK h.sp
  pop : 0 ≤ h.st.pop
  sl : 0 ≤ h.st.slaughterLast
  pt : 0 ≤ h.st.pregTotal
  pb : 0 ≤ h.st.pregBirthing
  psf : 0 ≤ h.st.psf

structure CountryOK (c : Country K) : Prop where
  hk : 0 ≤ c.homekillHours
  odhr : 0 ≤ c.odhr
  hkf : 0 ≤ c.hkf

/-! ### the small functions -/

theorem slaughterRate_spec (cur h rem : K) (hc : 0 ≤ cur) (hh : 0 < h) (hr : 0 ≤ rem) :
    0 ≤ slaughterRate cur h rem ∧ slaughterRate cur h rem * h ≤ rem := by
  unfold slaughterRate
  split_ifs with hp
  · rw [pmin_eq_min]
    have hm : 0 ≤ min (cur * h) rem := le_min (mul_nonneg hc hh.le) hr
    refine ⟨div_nonneg hm hh.le, ?_⟩
    rw [div_mul_cancel₀ _ hh.ne']; exact min_le_right _ _
  · exact ⟨le_refl _, by rw [zero_mul]; exact hr⟩

theorem actualSlaughter_spec (pre target rate : K) (ht : 0 ≤ target) (hr : 0 ≤ rate) :
    0 ≤ (actualSlaughter pre target rate).1 ∧ (actualSlaughter pre target rate).1 ≤ rate ∧
    (actualSlaughter pre target rate).2 = max 0 (pre - (actualSlaughter pre target rate).1) ∧
    (actualSlaughter pre target rate).1 ≤ max 0 pre ∧
    (target ≤ pre → target ≤ pre - (actualSlaughter pre target rate).1) ∧
    (pre < target → (actualSlaughter pre target rate).1 = 0) := by
  unfold actualSlaughter
  by_cases h1 : pre < target
  · by_cases h2 : pre < 0
    · have e : (let a0 : K := if pre < target then 0 else if pre - rate < target then pre - target else rate
          let a1 : K := if a0 < 0 then 0 else a0
          let p1 := pre - a1
          if p1 < 0 then ((0 : K), (0 : K)) else (a1, p1)) = (0, 0) := by
        simp only [if_pos h1, lt_irrefl, if_false, sub_zero, if_pos h2]
      rw [e]
      refine ⟨le_refl _, hr, ?_, le_max_left _ _, fun h => absurd h (not_le.mpr h1), fun _ => rfl⟩
      show (0 : K) = max 0 (pre - 0)
      rw [sub_zero, max_eq_left h2.le]
    · have e : (let a0 : K := if pre < target then 0 else if pre - rate < target then pre - target else rate
          let a1 : K := if a0 < 0 then 0 else a0
          let p1 := pre - a1
          if p1 < 0 then ((0 : K), (0 : K)) else (a1, p1)) = (0, pre) := by
        simp only [if_pos h1, lt_irrefl, if_false, sub_zero, if_neg h2]
      rw [e]
      refine ⟨le_refl _, hr, ?_, le_max_left _ _, fun h => absurd h (not_le.mpr h1), fun _ => rfl⟩
      show pre = max 0 (pre - 0)
      rw [sub_zero, max_eq_right (not_lt.mp h2)]
  · have h1' : target ≤ pre := not_lt.mp h1
    by_cases h3 : pre - rate < target
    · have ha : ¬ pre - target < 0 := by intro h; linarith
      have hp : ¬ pre - (pre - target) < 0 := by intro h; linarith
      have e : (let a0 : K := if pre < target then 0 else if pre - rate < target then pre - target else rate
          let a1 : K := if a0 < 0 then 0 else a0
          let p1 := pre - a1
          if p1 < 0 then ((0 : K), (0 : K)) else (a1, p1)) = (pre - target, pre - (pre - target)) := by
        simp only [if_neg h1, if_pos h3, if_neg ha, if_neg hp]
      rw [e]
      refine ⟨by linarith, by linarith, ?_, ?_, fun _ => by linarith, fun h => absurd h h1⟩
      · show pre - (pre - target) = max 0 (pre - (pre - target))
        rw [max_eq_right (by linarith)]
      · show pre - target ≤ max 0 pre
        exact le_trans (by linarith) (le_max_right _ _)
    · have h3' : target ≤ pre - rate := not_lt.mp h3
      have ha : ¬ rate < 0 := not_lt.mpr hr
      have hp : ¬ pre - rate < 0 := by intro h; linarith
      have e : (let a0 : K := if pre < target then 0 else if pre - rate < target then pre - target else rate
          let a1 : K := if a0 < 0 then 0 else a0
          let p1 := pre - a1
          if p1 < 0 then ((0 : K), (0 : K)) else (a1, p1)) = (rate, pre - rate) := by
        simp only [if_neg h1, if_neg h3, if_neg ha, if_neg hp]
      rw [e]
      refine ⟨hr, le_refl _, ?_, ?_, fun _ => h3', fun h => absurd h h1⟩
      · show pre - rate = max 0 (pre - rate)
        rw [max_eq_right (by linarith)]
      · show rate ≤ max 0 pre
        exact le_trans (by linarith) (le_max_right _ _)

theorem pregSlaughter_nonneg (psf pt0 odr actual : K) :
    0 ≤ (pregSlaughter psf pt0 odr actual).1 ∧ 0 ≤ (pregSlaughter psf pt0 odr actual).2 := by
  unfold pregSlaughter
  dsimp only
  constructor <;> split_ifs <;> first | assumption | exact le_refl _

theorem homekill_spec (cn : Country K) (hcn : CountryOK cn) (h od pa sp sl B : K)
    (hh : 0 < h) (hod : 0 ≤ od) (hpa : 0 ≤ pa) (hB : 0 ≤ B) :
    0 ≤ (homekill cn h od pa sp sl B).1 ∧ 0 ≤ (homekill cn h od pa sp sl B).2.1 ∧
    0 ≤ (homekill cn h od pa sp sl B).2.2.1 ∧ 0 ≤ (homekill cn h od pa sp sl B).2.2.2.1 ∧
    0 ≤ (homekill cn h od pa sp sl B).2.2.2.2 ∧
    (B = 0 → (homekill cn h od pa sp sl B).1 = 0 ∧ (homekill cn h od pa sp sl B).2.1 = 0 ∧
      (homekill cn h od pa sp sl B).2.2.2.1 = 0 ∧ (homekill cn h od pa sp sl B).2.2.2.2 = 0) := by
  unfold homekill
  simp only [pmin_eq_min]
  set k1 := min (od * cn.odhr) (B / h) with hk1
  have hk1_0 : 0 ≤ k1 := le_min (mul_nonneg hod hcn.odhr) (div_nonneg hB hh.le)
  have hk1_le : k1 * h ≤ B := by
    have : k1 ≤ B / h := min_le_right _ _
    calc k1 * h ≤ B / h * h := mul_le_mul_of_nonneg_right this hh.le
      _ = B := div_mul_cancel₀ _ hh.ne'
  set b1 := B - k1 * h with hb1
  have hb1_0 : 0 ≤ b1 := by rw [hb1]; linarith
  set k2 := min (cn.hkf * pa) (b1 / h) with hk2
  have hk2_0 : 0 ≤ k2 := le_min (mul_nonneg hcn.hkf hpa) (div_nonneg hb1_0 hh.le)
  have hk2_le : k2 * h ≤ b1 := by
    have : k2 ≤ b1 / h := min_le_right _ _
    calc k2 * h ≤ b1 / h * h := mul_le_mul_of_nonneg_right this hh.le
      _ = b1 := div_mul_cancel₀ _ hh.ne'
  set b2 := b1 - k2 * h with hb2
  have hb2_0 : 0 ≤ b2 := by rw [hb2]; linarith
  set sP : K := if sp - sl - k2 < 0 then 0 else sp - sl - k2 with hsP
  have hsP_0 : 0 ≤ sP := by rw [hsP]; split_ifs with hx; exact le_refl _; exact not_lt.mp hx
  have hcap0 : ¬ b2 / h < 0 := not_lt.mpr (div_nonneg hb2_0 hh.le)
  have hcap : (if b2 / h < 0 then (0 : K) else b2 / h) = b2 / h := if_neg hcap0
  rw [hcap]
  set k3 := min sP (b2 / h) with hk3
  have hk3_0 : 0 ≤ k3 := le_min hsP_0 (div_nonneg hb2_0 hh.le)
  have hk3_le : k3 * h ≤ b2 := by
    have : k3 ≤ b2 / h := min_le_right _ _
    calc k3 * h ≤ b2 / h * h := mul_le_mul_of_nonneg_right this hh.le
      _ = b2 := div_mul_cancel₀ _ hh.ne'
  refine ⟨hk1_0, hk2_0, hsP_0, hk3_0, by linarith, ?_⟩
  intro hB0
  have e1 : k1 = 0 := by
    apply le_antisymm _ hk1_0
    have : k1 ≤ B / h := min_le_right _ _
    rw [hB0, zero_div] at this; exact this
  have eb1 : b1 = 0 := by rw [hb1, e1, hB0]; ring
  have e2 : k2 = 0 := by
    apply le_antisymm _ hk2_0
    have : k2 ≤ b1 / h := min_le_right _ _
    rw [eb1, zero_div] at this; exact this
  have eb2 : b2 = 0 := by rw [hb2, e2, eb1]; ring
  have e3 : k3 = 0 := by
    apply le_antisymm _ hk3_0
    have : k3 ≤ b2 / h := min_le_right _ _
    rw [eb2, zero_div] at this; exact this
  exact ⟨e1, e2, e3, by rw [e3, eb2]; ring⟩

theorem pregAdjust_nonneg (rib tpf ods odTotal pop x : K) (hx : 0 ≤ x) :
    0 ≤ pregAdjust rib tpf ods odTotal pop x := by
  unfold pregAdjust
  dsimp only
  split_ifs with h1 h2 h3 h3
  · exact hx
  · exact le_refl _
  · exact not_lt.mp h3
  · exact le_refl _
  · exact not_lt.mp h3

theorem max_zero_sub (x d : K) (hd : 0 ≤ d) : max 0 (max 0 x - d) = max 0 (x - d) := by
  rcases le_total 0 x with h | h
  · rw [max_eq_right h]
  · rw [max_eq_left h, max_eq_left (by linarith), max_eq_left (by linarith)]

/-! ### phase 2: births, retirements, male calves -/

structure BOK (b : WB K) : Prop where
  h : HerdOK b.a.h
  pt : 0 ≤ b.pregTotalIn
  pb : 0 ≤ b.pregBirthingIn
  psf : 0 ≤ b.psf
  births : 0 ≤ b.births
  tb : 0 ≤ b.transferBirths
  ret : 0 ≤ b.retiring
  out : b.transferOut = b.retiring + b.transferBirths
  retMeat : b.a.h.sp.isMilk = false → b.retiring = 0
  retMilk : b.a.h.sp.isMilk = true → b.retiring = b.a.h.st.pop * b.a.h.sp.retFrac
  tbDef : b.transferBirths = b.births * (b.a.h.sp.birthRatio - 1) * (1 - b.a.h.sp.tcf)

theorem birthsOne_a (month : K) (a : WA K) : (birthsOne month a).a = a := rfl

theorem birthsOne_ok (month : K) (a : WA K) (ha : HerdOK a.h) : BOK (birthsOne month a) := by
  have hsp := ha.sp
  have h1 : 0 ≤ 1 - a.h.sp.rib := by linarith [hsp.rib1]
  have hbr : 0 < a.h.sp.birthRatio := by linarith [hsp.br]
  have hpb : 0 ≤ (if (decide (nabs (month - a.h.sp.gestation) ≤ 0.5)) = true
      then a.h.st.pregBirthing * (1 - a.h.sp.rib) else a.h.st.pregBirthing) := by
    split_ifs
    · exact mul_nonneg ha.pb h1
    · exact ha.pb
  have hbirths : 0 ≤ (birthsOne month a).births :=
    div_nonneg (mul_nonneg hpb hsp.app) hbr.le
  have hexp : 0 ≤ (birthsOne month a).births * (a.h.sp.birthRatio - 1) :=
    mul_nonneg hbirths (by linarith [hsp.br])
  refine ⟨ha, ?_, hpb, ?_, hbirths, ?_, ?_, rfl, ?_, ?_, rfl⟩
  · show 0 ≤ (if (decide (nabs (month - a.h.sp.gestation) ≤ 0.5)) = true
      then a.h.st.pregTotal * (1 - a.h.sp.rib) else a.h.st.pregTotal)
    split_ifs
    · exact mul_nonneg ha.pt h1
    · exact ha.pt
  · show 0 ≤ (if (decide (nabs (month - a.h.sp.gestation) ≤ 0.5)) = true then (0 : K) else a.h.st.psf)
    split_ifs
    · exact le_refl _
    · exact ha.psf
  · exact mul_nonneg hexp (by linarith [hsp.tcf1])
  · show 0 ≤ (if a.h.sp.isMilk = true then a.h.st.pop * a.h.sp.retFrac else (0 : K))
    split_ifs
    · exact mul_nonneg ha.pop hsp.ret
    · exact le_refl _
  · intro hm
    change a.h.sp.isMilk = false at hm
    show (if a.h.sp.isMilk = true then a.h.st.pop * a.h.sp.retFrac else (0 : K)) = 0
    rw [hm]; simp
  · intro hm
    change a.h.sp.isMilk = true at hm
    show (if a.h.sp.isMilk = true then a.h.st.pop * a.h.sp.retFrac else (0 : K)) = a.h.st.pop * a.h.sp.retFrac
    rw [hm]; simp

/-! ### the dictionary `transfer_populations` -/

theorem transferFind_none (l : List (WB K)) (s : String)
    (h : ∀ b ∈ l, ¬ (b.a.h.sp.isMilk = true ∧ b.a.h.sp.species = s)) : transferFind l s = none := by
  induction l with
  | nil => rfl
  | cons b t ih =>
    unfold transferFind
    rw [ih (fun x hx => h x (by simp [hx]))]
    have := h b (by simp)
    simp only [Bool.and_eq_true, beq_iff_eq]
    rw [if_neg this]

theorem transferFind_mem (l : List (WB K)) (s : String) (v : K) (h : transferFind l s = some v) :
    ∃ b ∈ l, b.a.h.sp.isMilk = true ∧ b.a.h.sp.species = s ∧ v = b.transferOut := by
  induction l with
  | nil => simp [transferFind] at h
  | cons b t ih =>
    unfold transferFind at h
    cases hf : transferFind t s with
    | some w =>
      rw [hf] at h
      simp only [Option.some.injEq] at h
      obtain ⟨x, hx, hp⟩ := ih (h ▸ hf)
      exact ⟨x, by simp [hx], hp⟩
    | none =>
      rw [hf] at h
      simp only [Bool.and_eq_true, beq_iff_eq] at h
      split_ifs at h with hc
      simp only [Option.some.injEq] at h
      exact ⟨b, by simp, hc.1, hc.2, h.symm⟩

theorem transferOf_nonneg (l : List (WB K)) (s : String) (h : ∀ b ∈ l, 0 ≤ b.transferOut) :
    0 ≤ transferOf l s := by
  unfold transferOf
  cases hf : transferFind l s with
  | none => simp
  | some v =>
    obtain ⟨b, hb, -, -, rfl⟩ := transferFind_mem l s v hf
    simpa using h b hb

/-- with pairwise different species keys among the dairy herds, the dictionary holds exactly what
    the dairy herd of that key wrote -/
theorem transferOf_unique (l : List (WB K)) (e : WB K) (he : e ∈ l) (hm : e.a.h.sp.isMilk = true)
    (hp : l.Pairwise (fun x y => x.a.h.sp.isMilk = true → y.a.h.sp.isMilk = true →
      x.a.h.sp.species ≠ y.a.h.sp.species)) :
    transferOf l e.a.h.sp.species = e.transferOut := by
  induction l with
  | nil => simp at he
  | cons b t ih =>
    rw [List.pairwise_cons] at hp
    unfold transferOf transferFind
    rcases List.mem_cons.mp he with rfl | het
    · have : transferFind t e.a.h.sp.species = none := by
        apply transferFind_none
        intro x hx ⟨hxm, hxs⟩
        exact hp.1 x hx hm hxm hxs.symm
      rw [this]
      simp [hm]
    · have iht := ih het hp.2
      unfold transferOf at iht
      cases hf : transferFind t e.a.h.sp.species with
      | some v => rw [hf] at iht; simpa using iht
      | none =>
        exfalso
        have : ∀ v, transferFind t e.a.h.sp.species ≠ some v := by rw [hf]; simp
        -- e itself is a dairy herd of that key in `t`
        clear iht ih
        induction t with
        | nil => simp at het
        | cons y ys ihy =>
          unfold transferFind at hf
          cases hg : transferFind ys e.a.h.sp.species with
          | some w => rw [hg] at hf; simp at hf
          | none =>
            rw [hg] at hf
            simp only [Bool.and_eq_true, beq_iff_eq] at hf
            split_ifs at hf with hc
            rcases List.mem_cons.mp het with rfl | hys
            · exact hc ⟨hm, rfl⟩
            · have hp2 := hp.2
              rw [List.pairwise_cons] at hp2
              exact ihy (by simp [hys]) ⟨fun x hx => hp.1 x (by simp [List.mem_cons] at hx ⊢; tauto), hp2.2⟩ hys hg
                (by rw [hg]; simp)

/-! ### phases 3 and 4 for one herd -/

/-- animals entering a meat herd from the dairy herd of its species (0 for a dairy herd, whose
    `transfer_population` entry is the negative of what leaves it) -/
def transferIn (d : WD K) : K := if d.c.b.a.h.sp.isMilk then 0 else d.c.transferPop

/-- C06, ledger clause for one herd and month -/
def Ledger (d : WD K) : Prop :=
  d.popEnd = max 0 (d.c.b.a.h.st.pop + d.c.b.births + transferIn d - d.c.b.retiring - d.c.otherDeath
    - d.c.slaughter - d.ods - d.hkHealthy - d.hkStarving)

/-- C06, non-negativity clause: the head counts and every recorded flow -/
def NonNeg (d : WD K) : Prop :=
  0 ≤ d.c.b.a.h.st.pop ∧ 0 ≤ d.popEnd ∧ 0 ≤ d.c.popAfter ∧ 0 ≤ d.c.b.births ∧ 0 ≤ d.c.b.transferBirths ∧
  0 ≤ d.c.b.retiring ∧ 0 ≤ transferIn d ∧ (d.c.b.a.h.sp.isMilk = true → d.c.transferPop ≤ 0) ∧
  0 ≤ d.c.otherDeath ∧ 0 ≤ d.c.slaughter ∧ 0 ≤ d.c.slPreg ∧ 0 ≤ d.ods ∧ 0 ≤ d.odTotal ∧
  0 ≤ d.hkOther ∧ 0 ≤ d.hkHealthy ∧ 0 ≤ d.hkStarving ∧ 0 ≤ d.starvingPost ∧
  0 ≤ d.pregTotal ∧ 0 ≤ d.pregBirthing ∧ 0 ≤ d.c.b.pregTotalIn ∧ 0 ≤ d.c.b.pregBirthingIn

/-- C06, "never exceeds the animals available and never takes a herd below its target size";
    `pre` is the herd before slaughter: start + births + transfers in − retirements − natural deaths -/
def AvailTarget (d : WD K) : Prop :=
  d.c.pre = d.c.b.a.h.st.pop + d.c.b.births + transferIn d - d.c.b.retiring - d.c.otherDeath ∧
  d.c.slaughter ≤ max 0 d.c.pre ∧
  (d.c.b.a.h.sp.target ≤ d.c.pre → d.c.b.a.h.sp.target ≤ d.c.pre - d.c.slaughter) ∧
  (d.c.pre < d.c.b.a.h.sp.target → d.c.slaughter = 0)

structure COK (tr : K) (c : WC K) : Prop where
  b : BOK c.b
  tp : c.transferPop = if c.b.a.h.sp.isMilk then -tr else tr
  od0 : 0 ≤ c.otherDeath
  pre : c.pre = c.b.a.h.st.pop + c.b.births + (if c.b.a.h.sp.isMilk then 0 else tr) - c.b.retiring - c.otherDeath
  sl0 : 0 ≤ c.slaughter
  popAfter : c.popAfter = max 0 (c.pre - c.slaughter)
  avail : c.slaughter ≤ max 0 c.pre
  t1 : c.b.a.h.sp.target ≤ c.pre → c.b.a.h.sp.target ≤ c.pre - c.slaughter
  t2 : c.pre < c.b.a.h.sp.target → c.slaughter = 0
  slp : 0 ≤ c.slPreg
  pt : 0 ≤ c.pregTotal
  pb : 0 ≤ c.pregBirthing

theorem slaughterOne_b (first : Bool) (tr : K) (b : WB K) (rem : K) :
    (slaughterOne first tr b rem).1.b = b := rfl

theorem slaughterOne_rem (first : Bool) (tr : K) (b : WB K) (rem : K) :
    (slaughterOne first tr b rem).2 = rem - (slaughterOne first tr b rem).1.slaughter * b.a.h.sp.hours := rfl

theorem slaughterOne_ok (first : Bool) (tr : K) (b : WB K) (rem : K) (hb : BOK b) (htr : 0 ≤ tr)
    (hrem : 0 ≤ rem) :
    COK tr (slaughterOne first tr b rem).1 ∧ 0 ≤ (slaughterOne first tr b rem).2 := by
  have hsp := hb.h.sp
  have hcur : 0 ≤ (if first = true then b.a.h.sp.baseline else b.a.h.st.slaughterLast) := by
    split_ifs
    · exact hsp.baseline
    · exact hb.h.sl
  obtain ⟨hr0, hr1⟩ := slaughterRate_spec _ b.a.h.sp.hours rem hcur hsp.hours hrem
  have hod : 0 ≤ b.a.h.st.pop * b.a.h.sp.odr := mul_nonneg hb.h.pop hsp.odr
  obtain ⟨ha0, ha1, ha2, ha3, ha4, ha5⟩ := actualSlaughter_spec
    (slaughterOne first tr b rem).1.pre b.a.h.sp.target (slaughterOne first tr b rem).1.rate hsp.target hr0
  obtain ⟨hp1, hp2⟩ := pregSlaughter_nonneg b.psf b.pregTotalIn b.a.h.sp.odr (slaughterOne first tr b rem).1.slaughter
  refine ⟨⟨hb, rfl, hod, ?_, ha0, ha2, ha3, ha4, ha5, hp1, hp2, div_nonneg hp2 hsp.gest.le⟩, ?_⟩
  · show b.a.h.st.pop - (b.a.h.st.pop * b.a.h.sp.odr + b.retiring)
        + (if b.a.h.sp.isMilk = true then b.births else b.births + tr)
      = b.a.h.st.pop + b.births + (if b.a.h.sp.isMilk = true then 0 else tr) - b.retiring
        - b.a.h.st.pop * b.a.h.sp.odr
    split_ifs <;> ring
  · rw [slaughterOne_rem]
    have : (slaughterOne first tr b rem).1.slaughter * b.a.h.sp.hours ≤
        (slaughterOne first tr b rem).1.rate * b.a.h.sp.hours :=
      mul_le_mul_of_nonneg_right ha1 hsp.hours.le
    have h2 : (slaughterOne first tr b rem).1.rate * b.a.h.sp.hours ≤ rem := hr1
    linarith

structure DOK (tr : K) (d : WD K) : Prop where
  c : COK tr d.c
  hk1 : 0 ≤ d.hkOther
  hk2 : 0 ≤ d.hkHealthy
  hk3 : 0 ≤ d.hkStarving
  hkT : d.hkTotal = d.hkOther + d.hkHealthy + d.hkStarving
  sP : 0 ≤ d.starvingPost
  ods : 0 ≤ d.ods
  odT : d.odTotal = d.ods + d.c.otherDeath
  pt : 0 ≤ d.pregTotal
  pb : 0 ≤ d.pregBirthing
  popEnd : d.popEnd = max 0 (d.c.popAfter - (d.ods + d.hkHealthy + d.hkStarving))

theorem finishOne_c (cn : Country K) (c : WC K) (B : K) : (finishOne cn c B).1.c = c := rfl

theorem finishOne_ok (cn : Country K) (hcn : CountryOK cn) (tr : K) (c : WC K) (B : K) (hc : COK tr c)
    (hB : 0 ≤ B) :
    DOK tr (finishOne cn c B).1 ∧ 0 ≤ (finishOne cn c B).2 ∧
    (B = 0 → (finishOne cn c B).1.hkTotal = 0 ∧ (finishOne cn c B).2 = 0) := by
  have hsp := hc.b.h.sp
  have hpa : 0 ≤ c.popAfter := by rw [hc.popAfter]; exact le_max_left _ _
  obtain ⟨h1, h2, h3, h4, h5, h6⟩ := homekill_spec cn hcn c.b.a.h.sp.hours c.otherDeath c.popAfter
    c.b.a.starvingPre c.slaughter B hsp.hours hc.od0 hpa hB
  have hods : 0 ≤ (finishOne cn c B).1.ods := by
    show 0 ≤ pmax _ 0 * c.b.a.h.sp.sdf
    rw [pmax_eq_max]
    exact mul_nonneg (le_max_right _ _) hsp.sdf
  refine ⟨⟨hc, h1, h2, h4, rfl, h3, hods, rfl, pregAdjust_nonneg _ _ _ _ _ _ hc.pt,
    pregAdjust_nonneg _ _ _ _ _ _ hc.pb, ?_⟩, h5, ?_⟩
  · show (if c.popAfter - ((finishOne cn c B).1.ods + (finishOne cn c B).1.hkHealthy + (finishOne cn c B).1.hkStarving) < 0
        then (0 : K) else c.popAfter - ((finishOne cn c B).1.ods + (finishOne cn c B).1.hkHealthy + (finishOne cn c B).1.hkStarving)) = _
    split_ifs with hx
    · exact (max_eq_left hx.le).symm
    · exact (max_eq_right (not_lt.mp hx)).symm
  · intro hB0
    obtain ⟨e1, e2, e3, e4⟩ := h6 hB0
    refine ⟨?_, e4⟩
    show (homekill cn c.b.a.h.sp.hours c.otherDeath c.popAfter c.b.a.starvingPre c.slaughter B).1 +
      (homekill cn c.b.a.h.sp.hours c.otherDeath c.popAfter c.b.a.starvingPre c.slaughter B).2.1 +
      (homekill cn c.b.a.h.sp.hours c.otherDeath c.popAfter c.b.a.starvingPre c.slaughter B).2.2.2.1 = 0
    rw [e1, e2, e3]; ring

/-- everything C06 says about one herd in one month follows from `DOK` -/
theorem dok_ledger (tr : K) (d : WD K) (h : DOK tr d) (htr : 0 ≤ tr) : Ledger d := by
  unfold Ledger transferIn
  have hc := h.c
  rw [h.popEnd, hc.popAfter, max_zero_sub _ _ (by linarith [h.ods, h.hk2, h.hk3]), hc.pre, hc.tp]
  congr 1
  split_ifs <;> ring

theorem dok_nonneg (tr : K) (d : WD K) (h : DOK tr d) (htr : 0 ≤ tr) : NonNeg d := by
  have hc := h.c
  have hb := hc.b
  unfold NonNeg transferIn
  refine ⟨hb.h.pop, ?_, ?_, hb.births, hb.tb, hb.ret, ?_, ?_, hc.od0, hc.sl0, hc.slp, h.ods, ?_,
    h.hk1, h.hk2, h.hk3, h.sP, h.pt, h.pb, hb.pt, hb.pb⟩
  · rw [h.popEnd]; exact le_max_left _ _
  · rw [hc.popAfter]; exact le_max_left _ _
  · rw [hc.tp]; split_ifs
    · exact le_refl _
    · exact htr
  · intro hm; rw [hc.tp, if_pos hm]; linarith
  · rw [h.odT]; linarith [h.ods, hc.od0]

theorem dok_availTarget (tr : K) (d : WD K) (h : DOK tr d) : AvailTarget d := by
  have hc := h.c
  unfold AvailTarget transferIn
  refine ⟨?_, hc.avail, hc.t1, hc.t2⟩
  rw [hc.pre, hc.tp]
  split_ifs <;> ring

theorem dok_next (tr : K) (d : WD K) (h : DOK tr d) : HerdOK (nextHerd d) := by
  have hc := h.c
  refine ⟨hc.b.h.sp, ?_, hc.sl0, h.pt, h.pb, hc.b.psf⟩
  show 0 ≤ d.popEnd
  rw [h.popEnd]; exact le_max_left _ _

/-! ### the species loops -/

theorem lsum_eq_sum (l : List K) : lsum l = l.sum := by
  unfold lsum
  have : ∀ (a : K) (l : List K), List.foldl (· + ·) a l = a + l.sum := by
    intro a l
    induction l generalizing a with
    | nil => simp
    | cons x t ih => rw [List.foldl_cons, ih, List.sum_cons]; ring
  rw [this]; ring

theorem hours_get_set_self (h : Hours K) (s : Size) (v : K) (hs : s ≠ Size.other) : (h.set s v).get s = v := by
  cases s <;> first | rfl | exact absurd rfl hs

theorem hours_get_set_ne (h : Hours K) (s s' : Size) (v : K) (hne : s' ≠ s) : (h.set s v).get s' = h.get s' := by
  cases s <;> cases s' <;> first | rfl | exact absurd rfl hne

def HoursOK (h : Hours K) : Prop := 0 ≤ h.small ∧ 0 ≤ h.medium ∧ 0 ≤ h.large

theorem hoursOK_get (h : Hours K) (hh : HoursOK h) (s : Size) : 0 ≤ h.get s := by
  cases s
  · exact hh.1
  · exact hh.2.1
  · exact hh.2.2
  · exact le_refl _

theorem hoursOK_set (h : Hours K) (hh : HoursOK h) (s : Size) (v : K) (hv : 0 ≤ v) : HoursOK (h.set s v) := by
  cases s
  · exact ⟨hv, hh.2.1, hh.2.2⟩
  · exact ⟨hh.1, hv, hh.2.2⟩
  · exact ⟨hh.1, hh.2.1, hv⟩
  · exact hh

theorem slaughterAll_cons_ok (first : Bool) (all : List (WB K)) (hrs : Hours K) (b : WB K) (t : List (WB K))
    (cs : List (WC K)) (h : slaughterAll first all hrs (b :: t) = .ok cs) :
    b.a.h.sp.size ≠ Size.other ∧
    0 ≤ (slaughterOne first (transferOf all b.a.h.sp.species) b (hrs.get b.a.h.sp.size)).2 ∧
    ∃ cs', slaughterAll first all (hrs.set b.a.h.sp.size
        (slaughterOne first (transferOf all b.a.h.sp.species) b (hrs.get b.a.h.sp.size)).2) t = .ok cs' ∧
      cs = (slaughterOne first (transferOf all b.a.h.sp.species) b (hrs.get b.a.h.sp.size)).1 :: cs' := by
  rw [slaughterAll] at h
  dsimp only at h
  split_ifs at h with hs h0
  refine ⟨hs, h0, ?_⟩
  cases hrec : slaughterAll first all (hrs.set b.a.h.sp.size
      (slaughterOne first (transferOf all b.a.h.sp.species) b (hrs.get b.a.h.sp.size)).2) t with
  | error e => rw [hrec] at h; cases h
  | ok cs' =>
    rw [hrec] at h
    simp only [Except.ok.injEq] at h
    exact ⟨cs', rfl, h.symm⟩

theorem slaughterAll_spec (first : Bool) (all : List (WB K)) (hall : ∀ s, 0 ≤ transferOf all s)
    (l : List (WB K)) (hl : ∀ b ∈ l, BOK b) (hrs : Hours K) (hh : HoursOK hrs) (cs : List (WC K))
    (h : slaughterAll first all hrs l = .ok cs) :
    cs.map (·.b) = l ∧
    (∀ c ∈ cs, COK (transferOf all c.b.a.h.sp.species) c) ∧
    (∀ s, s ≠ Size.other →
      ((cs.filter (fun c => c.b.a.h.sp.size = s)).map (fun c => c.slaughter * c.b.a.h.sp.hours)).sum ≤ hrs.get s) := by
  induction l generalizing hrs cs with
  | nil =>
    rw [slaughterAll] at h
    simp only [Except.ok.injEq] at h
    subst h
    refine ⟨rfl, fun c hc => by simp at hc, fun s _ => ?_⟩
    simpa using hoursOK_get hrs hh s
  | cons b t ih =>
    obtain ⟨hs, h0, cs', hrec, rfl⟩ := slaughterAll_cons_ok first all hrs b t cs h
    have hb := hl b (by simp)
    obtain ⟨hcok, -⟩ := slaughterOne_ok first (transferOf all b.a.h.sp.species) b (hrs.get b.a.h.sp.size) hb
      (hall _) (hoursOK_get hrs hh _)
    obtain ⟨ih1, ih2, ih3⟩ := ih (fun x hx => hl x (by simp [hx])) _ (hoursOK_set hrs hh _ _ h0) cs' hrec
    refine ⟨?_, ?_, ?_⟩
    · simp only [List.map_cons, slaughterOne_b, ih1]
    · intro c hc
      rcases List.mem_cons.mp hc with rfl | hc
      · exact hcok
      · exact ih2 c hc
    · intro s hso
      have := ih3 s hso
      by_cases hsz : b.a.h.sp.size = s
      · have hf : (List.filter (fun c : WC K => decide (c.b.a.h.sp.size = s))
            ((slaughterOne first (transferOf all b.a.h.sp.species) b (hrs.get b.a.h.sp.size)).1 :: cs')) =
            (slaughterOne first (transferOf all b.a.h.sp.species) b (hrs.get b.a.h.sp.size)).1 ::
              List.filter (fun c : WC K => decide (c.b.a.h.sp.size = s)) cs' := by
          rw [List.filter_cons]; simp [slaughterOne_b, hsz]
        rw [hf, List.map_cons, List.sum_cons]
        rw [hsz, hours_get_set_self _ _ _ hso, slaughterOne_rem] at this
        rw [← hsz]
        simp only [slaughterOne_b] at this ⊢
        rw [← hsz] at this
        linarith
      · have hf : (List.filter (fun c : WC K => decide (c.b.a.h.sp.size = s))
            ((slaughterOne first (transferOf all b.a.h.sp.species) b (hrs.get b.a.h.sp.size)).1 :: cs')) =
              List.filter (fun c : WC K => decide (c.b.a.h.sp.size = s)) cs' := by
          rw [List.filter_cons]; simp [slaughterOne_b, hsz]
        rw [hf]
        rw [hours_get_set_ne _ _ _ _ (fun e => hsz e.symm)] at this
        exact this

theorem slaughterAll_no_error (first : Bool) (all : List (WB K)) (hall : ∀ s, 0 ≤ transferOf all s)
    (l : List (WB K)) (hl : ∀ b ∈ l, BOK b) (hsz : ∀ b ∈ l, b.a.h.sp.size ≠ Size.other)
    (hrs : Hours K) (hh : HoursOK hrs) : ∃ cs, slaughterAll first all hrs l = .ok cs := by
  induction l generalizing hrs with
  | nil => exact ⟨[], rfl⟩
  | cons b t ih =>
    have hb := hl b (by simp)
    obtain ⟨-, h0⟩ := slaughterOne_ok first (transferOf all b.a.h.sp.species) b (hrs.get b.a.h.sp.size) hb
      (hall _) (hoursOK_get hrs hh _)
    obtain ⟨cs', hrec⟩ := ih (fun x hx => hl x (by simp [hx])) (fun x hx => hsz x (by simp [hx])) _
      (hoursOK_set hrs hh b.a.h.sp.size _ h0)
    refine ⟨(slaughterOne first (transferOf all b.a.h.sp.species) b (hrs.get b.a.h.sp.size)).1 :: cs', ?_⟩
    rw [slaughterAll]
    dsimp only
    rw [if_neg (hsz b (by simp)), if_pos h0, hrec]

theorem finishAll_cons_ok (cn : Country K) (B : K) (c : WC K) (t : List (WC K)) (ds : List (WD K))
    (h : finishAll cn B (c :: t) = .ok ds) :
    (finishOne cn c B).1.hkTotal = 0 ∧
    ∃ ds', finishAll cn (finishOne cn c B).2 t = .ok ds' ∧ ds = (finishOne cn c B).1 :: ds' := by
  rw [finishAll] at h
  split_ifs at h with h0
  refine ⟨(eq_zero_iff_le _).mp h0, ?_⟩
  cases hrec : finishAll cn (finishOne cn c B).2 t with
  | error e => rw [hrec] at h; cases h
  | ok ds' =>
    rw [hrec] at h
    simp only [Except.ok.injEq] at h
    exact ⟨ds', rfl, h.symm⟩

theorem finishAll_spec (cn : Country K) (hcn : CountryOK cn) (trf : WC K → K) (cs : List (WC K))
    (hcs : ∀ c ∈ cs, COK (trf c) c) (B : K) (hB : 0 ≤ B) (ds : List (WD K))
    (h : finishAll cn B cs = .ok ds) :
    ds.map (·.c) = cs ∧ ∀ d ∈ ds, DOK (trf d.c) d := by
  induction cs generalizing B ds with
  | nil =>
    rw [finishAll] at h
    simp only [Except.ok.injEq] at h
    subst h
    exact ⟨rfl, fun d hd => by simp at hd⟩
  | cons c t ih =>
    obtain ⟨-, ds', hrec, rfl⟩ := finishAll_cons_ok cn B c t ds h
    obtain ⟨hd, hB', -⟩ := finishOne_ok cn hcn (trf c) c B (hcs c (by simp)) hB
    obtain ⟨ih1, ih2⟩ := ih (fun x hx => hcs x (by simp [hx])) _ hB' ds' hrec
    refine ⟨by simp only [List.map_cons, finishOne_c, ih1], ?_⟩
    intro d hd'
    rcases List.mem_cons.mp hd' with rfl | hd'
    · exact hd
    · exact ih2 d hd'

theorem finishAll_no_error (cn : Country K) (hcn : CountryOK cn) (trf : WC K → K) (cs : List (WC K))
    (hcs : ∀ c ∈ cs, COK (trf c) c) : ∃ ds, finishAll cn 0 cs = .ok ds := by
  induction cs with
  | nil => exact ⟨[], rfl⟩
  | cons c t ih =>
    obtain ⟨-, -, h0⟩ := finishOne_ok cn hcn (trf c) c 0 (hcs c (by simp)) (le_refl _)
    obtain ⟨e1, e2⟩ := h0 rfl
    obtain ⟨ds', hrec⟩ := ih (fun x hx => hcs x (by simp [hx]))
    refine ⟨(finishOne cn c 0).1 :: ds', ?_⟩
    rw [finishAll, if_pos ((eq_zero_iff_le _).mpr e1), e2, hrec]

theorem zipFeed_map (herds : List (Herd K)) (os : List (FeedOut K)) (hlen : os.length = herds.length) :
    (zipFeed herds os).map (·.h) = herds ∧ (zipFeed herds os).map (·.fo) = os := by
  induction herds generalizing os with
  | nil =>
    cases os with
    | nil => exact ⟨rfl, rfl⟩
    | cons o t => simp at hlen
  | cons h hs ih =>
    cases os with
    | nil => simp at hlen
    | cons o t =>
      obtain ⟨i1, i2⟩ := ih t (by simpa using hlen)
      exact ⟨by simp only [zipFeed, List.map_cons, i1], by simp only [zipFeed, List.map_cons, i2]⟩

/-! ### one month -/

/-- everything proved about one pass of the month loop: `herds` at the start, the record `r`,
    `herds'` at the end -/
structure MonthFacts (rnd : K → K) (feed grass : K) (herds : List (Herd K)) (r : MonthRec K)
    (herds' : List (Herd K)) : Prop where
  start : r.recs.map (fun d => d.c.b.a.h) = herds
  next : herds' = r.recs.map nextHerd
  trnn : ∀ s, 0 ≤ transferOf (r.recs.map (fun d => d.c.b)) s
  dok : ∀ d ∈ r.recs, DOK (transferOf (r.recs.map (fun d => d.c.b)) d.c.b.a.h.sp.species) d
  hours : ∀ s, s ≠ Size.other →
    ((r.recs.filter (fun d => d.c.b.a.h.sp.size = s)).map (fun d => d.c.slaughter * d.c.b.a.h.sp.hours)).sum
      ≤ ((herds.filter (fun h => h.sp.size = s)).map (fun h => h.sp.hours * h.sp.baseline)).sum
  inv : ∀ h ∈ herds', HerdOK h
  feeding : r.recs.map (fun d => d.c.b.a.fo) = (feedAll rnd (herds.map feedReqOf) grass feed).1
  starving : ∀ d ∈ r.recs, d.c.b.a.starvingPre = d.c.b.a.h.st.pop - d.c.b.a.fo.fed
  usedFeed : r.feedUsed = feed - (feedAll rnd (herds.map feedReqOf) grass feed).2.2
  usedGrass : r.grassUsed = grass - (feedAll rnd (herds.map feedReqOf) grass feed).2.1

theorem classHours_nonneg (herds : List (Herd K)) (hh : ∀ h ∈ herds, HerdOK h) (s : Size) :
    0 ≤ classHours herds s ∧
    classHours herds s = ((herds.filter (fun h => h.sp.size = s)).map (fun h => h.sp.hours * h.sp.baseline)).sum := by
  unfold classHours
  rw [lsum_eq_sum]
  refine ⟨List.sum_nonneg ?_, rfl⟩
  intro x hx
  obtain ⟨h, hm, rfl⟩ := List.mem_map.mp hx
  have := hh h (List.mem_of_mem_filter hm)
  exact mul_nonneg this.sp.hours.le this.sp.baseline

theorem hoursBySize_get (herds : List (Herd K)) (s : Size) (hs : s ≠ Size.other) :
    (hoursBySize herds).get s = classHours herds s := by
  cases s <;> first | rfl | exact absurd rfl hs

theorem zipFeed_starving (herds : List (Herd K)) (os : List (FeedOut K)) :
    ∀ a ∈ zipFeed herds os, a.starvingPre = a.h.st.pop - a.fo.fed := by
  induction herds generalizing os with
  | nil => intro a ha; cases os <;> simp [zipFeed] at ha
  | cons h hs ih =>
    cases os with
    | nil => intro a ha; simp [zipFeed] at ha
    | cons o t =>
      intro a ha
      simp only [zipFeed, List.mem_cons] at ha
      rcases ha with rfl | ha
      · rfl
      · exact ih t a ha

theorem monthStep_spec (cn : Country K) (hcn : CountryOK cn) (rnd : K → K) (first : Bool) (month : K)
    (herds : List (Herd K)) (hh : ∀ h ∈ herds, HerdOK h) (feed grass : K) (r : MonthRec K)
    (herds' : List (Herd K))
    (h : monthStep cn rnd first month herds feed grass = .ok (r, herds')) :
    MonthFacts rnd feed grass herds r herds' := by
  unfold monthStep at h
  dsimp only at h
  set fa := feedAll rnd (herds.map feedReqOf) grass feed with hfa
  set was := zipFeed herds fa.1 with hwas
  set wbs := was.map (birthsOne month) with hwbs
  have hlen : fa.1.length = herds.length := by rw [hfa, feedAll_length, List.length_map]
  obtain ⟨hwas_h0, hwas_fo0⟩ := zipFeed_map herds fa.1 hlen
  have hwas_h : was.map (·.h) = herds := hwas_h0
  have hwas_fo : was.map (·.fo) = fa.1 := hwas_fo0
  have hwas_ok : ∀ a ∈ was, HerdOK a.h := by
    intro a ha
    apply hh
    rw [← hwas_h]
    exact List.mem_map_of_mem ha
  have hwbs_ok : ∀ b ∈ wbs, BOK b := by
    intro b hb
    obtain ⟨a, ha, rfl⟩ := List.mem_map.mp hb
    exact birthsOne_ok month a (hwas_ok a ha)
  have hwbs_a : wbs.map (·.a) = was := by
    rw [hwbs, List.map_map]
    conv_rhs => rw [← List.map_id was]
    exact List.map_congr_left (fun a _ => rfl)
  have htr : ∀ s, 0 ≤ transferOf wbs s := by
    intro s
    apply transferOf_nonneg
    intro b hb
    have := hwbs_ok b hb
    rw [this.out]; linarith [this.ret, this.tb]
  have hhrs : HoursOK (hoursBySize herds) :=
    ⟨(classHours_nonneg herds hh _).1, (classHours_nonneg herds hh _).1, (classHours_nonneg herds hh _).1⟩
  cases hsl : slaughterAll first wbs (hoursBySize herds) wbs with
  | error e => rw [hsl] at h; cases h
  | ok wcs =>
    rw [hsl] at h
    dsimp only at h
    obtain ⟨hc1, hc2, hc3⟩ := slaughterAll_spec first wbs htr wbs hwbs_ok _ hhrs wcs hsl
    cases hfi : finishAll cn cn.homekillHours wcs with
    | error e => rw [hfi] at h; cases h
    | ok wds =>
      rw [hfi] at h
      simp only [Except.ok.injEq, Prod.mk.injEq] at h
      obtain ⟨rfl, rfl⟩ := h
      obtain ⟨hd1, hd2⟩ := finishAll_spec cn hcn (fun c => transferOf wbs c.b.a.h.sp.species) wcs hc2 _ hcn.hk wds hfi
      have hmb : wds.map (fun d => d.c.b) = wbs := by
        rw [← hc1, ← hd1, List.map_map]; rfl
      have hma : wds.map (fun d => d.c.b.a) = was := by
        rw [← hwbs_a, ← hmb, List.map_map]; rfl
      refine ⟨?_, rfl, ?_, ?_, ?_, ?_, ?_, ?_, rfl, rfl⟩
      · show wds.map (fun d => d.c.b.a.h) = herds
        rw [← hwas_h, ← hma, List.map_map]; rfl
      · show ∀ s, 0 ≤ transferOf (wds.map (fun d => d.c.b)) s
        rw [hmb]; exact htr
      · show ∀ d ∈ wds, DOK (transferOf (wds.map (fun d => d.c.b)) d.c.b.a.h.sp.species) d
        rw [hmb]; exact hd2
      · intro s hs
        show ((wds.filter (fun d => d.c.b.a.h.sp.size = s)).map (fun d => d.c.slaughter * d.c.b.a.h.sp.hours)).sum ≤ _
        have := hc3 s hs
        rw [hoursBySize_get _ _ hs, (classHours_nonneg herds hh s).2, ← hd1, List.filter_map, List.map_map] at this
        exact this
      · intro h' hh'
        obtain ⟨d, hd, rfl⟩ := List.mem_map.mp hh'
        exact dok_next _ d (hd2 d hd)
      · show wds.map (fun d => d.c.b.a.fo) = fa.1
        rw [← hwas_fo, ← hma, List.map_map]; rfl
      · intro d hd
        have : d.c.b.a ∈ was := by rw [← hma]; exact List.mem_map_of_mem (f := fun d : WD K => d.c.b.a) hd
        exact zipFeed_starving herds fa.1 _ this

theorem monthStep_no_error (cn : Country K) (hcn : CountryOK cn) (hk0 : cn.homekillHours = 0) (rnd : K → K)
    (first : Bool) (month : K) (herds : List (Herd K)) (hh : ∀ h ∈ herds, HerdOK h)
    (hsz : ∀ h ∈ herds, h.sp.size ≠ Size.other) (feed grass : K) :
    ∃ out, monthStep cn rnd first month herds feed grass = .ok out := by
  unfold monthStep
  dsimp only
  set fa := feedAll rnd (herds.map feedReqOf) grass feed with hfa
  set was := zipFeed herds fa.1 with hwas
  set wbs := was.map (birthsOne month) with hwbs
  have hlen : fa.1.length = herds.length := by rw [hfa, feedAll_length, List.length_map]
  obtain ⟨hwas_h0, -⟩ := zipFeed_map herds fa.1 hlen
  have hwas_h : was.map (·.h) = herds := hwas_h0
  have hwas_mem : ∀ a ∈ was, a.h ∈ herds := by
    intro a ha
    rw [← hwas_h]
    exact List.mem_map_of_mem ha
  have hwbs_ok : ∀ b ∈ wbs, BOK b := by
    intro b hb
    obtain ⟨a, ha, rfl⟩ := List.mem_map.mp hb
    exact birthsOne_ok month a (hh _ (hwas_mem a ha))
  have hwbs_sz : ∀ b ∈ wbs, b.a.h.sp.size ≠ Size.other := by
    intro b hb
    obtain ⟨a, ha, rfl⟩ := List.mem_map.mp hb
    exact hsz _ (hwas_mem a ha)
  have htr : ∀ s, 0 ≤ transferOf wbs s := by
    intro s
    apply transferOf_nonneg
    intro b hb
    have := hwbs_ok b hb
    rw [this.out]; linarith [this.ret, this.tb]
  have hhrs : HoursOK (hoursBySize herds) :=
    ⟨(classHours_nonneg herds hh _).1, (classHours_nonneg herds hh _).1, (classHours_nonneg herds hh _).1⟩
  obtain ⟨wcs, hsl⟩ := slaughterAll_no_error first wbs htr wbs hwbs_ok hwbs_sz _ hhrs
  obtain ⟨-, hc2, -⟩ := slaughterAll_spec first wbs htr wbs hwbs_ok _ hhrs wcs hsl
  obtain ⟨wds, hfi⟩ := finishAll_no_error cn hcn (fun c => transferOf wbs c.b.a.h.sp.species) wcs hc2
  rw [hsl]
  dsimp only
  rw [hk0, hfi]
  exact ⟨_, rfl⟩

/-! ### the whole run -/

/-- month records chained from the initial herds to the final herds -/
inductive Chain (rnd : K → K) : List (Herd K) → List (K × K) → List (MonthRec K) → List (Herd K) → Prop
  | nil (hs : List (Herd K)) : Chain rnd hs [] [] hs
  | cons (hs : List (Herd K)) (feed grass : K) (series : List (K × K)) (r : MonthRec K)
      (hs' : List (Herd K)) (rs : List (MonthRec K)) (hf : List (Herd K)) :
      (∀ h ∈ hs, HerdOK h) → MonthFacts rnd feed grass hs r hs' → Chain rnd hs' series rs hf →
      Chain rnd hs ((feed, grass) :: series) (r :: rs) hf

theorem runFrom_spec (cn : Country K) (hcn : CountryOK cn) (rnd : K → K) (series : List (K × K))
    (first : Bool) (month : K) (herds : List (Herd K)) (hh : ∀ h ∈ herds, HerdOK h)
    (rs : List (MonthRec K)) (hf : List (Herd K))
    (h : runFrom cn rnd first month herds series = .ok (rs, hf)) :
    Chain rnd herds series rs hf ∧ ∀ h ∈ hf, HerdOK h := by
  induction series generalizing first month herds rs with
  | nil =>
    rw [runFrom] at h
    simp only [Except.ok.injEq, Prod.mk.injEq] at h
    obtain ⟨rfl, rfl⟩ := h
    exact ⟨Chain.nil _, hh⟩
  | cons fg t ih =>
    obtain ⟨feed, grass⟩ := fg
    rw [runFrom] at h
    cases hm : monthStep cn rnd first month herds feed grass with
    | error e => rw [hm] at h; cases h
    | ok out =>
      obtain ⟨r, herds'⟩ := out
      rw [hm] at h
      dsimp only at h
      cases hr : runFrom cn rnd false (month + 1) herds' t with
      | error e => rw [hr] at h; cases h
      | ok out2 =>
        obtain ⟨rs', hf'⟩ := out2
        rw [hr] at h
        simp only [Except.ok.injEq, Prod.mk.injEq] at h
        obtain ⟨rfl, rfl⟩ := h
        have hmf := monthStep_spec cn hcn rnd first month herds hh feed grass r herds' hm
        obtain ⟨hch, hfin⟩ := ih false (month + 1) herds' hmf.inv rs' hr
        exact ⟨Chain.cons _ _ _ _ _ _ _ _ hh hmf hch, hfin⟩

theorem runFrom_no_error (cn : Country K) (hcn : CountryOK cn) (hk0 : cn.homekillHours = 0) (rnd : K → K)
    (series : List (K × K)) (first : Bool) (month : K) (herds : List (Herd K))
    (hh : ∀ h ∈ herds, HerdOK h) (hsz : ∀ h ∈ herds, h.sp.size ≠ Size.other) :
    ∃ out, runFrom cn rnd first month herds series = .ok out := by
  induction series generalizing first month herds with
  | nil => exact ⟨_, rfl⟩
  | cons fg t ih =>
    obtain ⟨feed, grass⟩ := fg
    obtain ⟨⟨r, herds'⟩, hm⟩ := monthStep_no_error cn hcn hk0 rnd first month herds hh hsz feed grass
    have hmf := monthStep_spec cn hcn rnd first month herds hh feed grass r herds' hm
    have hsz' : ∀ h ∈ herds', h.sp.size ≠ Size.other := by
      intro h' hh'
      rw [hmf.next] at hh'
      obtain ⟨d, hd, rfl⟩ := List.mem_map.mp hh'
      have : d.c.b.a.h ∈ herds := by rw [← hmf.start]; exact List.mem_map_of_mem (f := fun d : WD K => d.c.b.a.h) hd
      exact hsz (d.c.b.a.h) this
    obtain ⟨⟨rs, hf⟩, hr⟩ := ih false (month + 1) herds' hmf.inv hsz'
    refine ⟨(r :: rs, hf), ?_⟩
    rw [runFrom, hm]
    dsimp only
    rw [hr]

/-- every record of a chain comes from a month that started with herds satisfying the invariant -/
theorem chain_mem (rnd : K → K) (herds : List (Herd K)) (series : List (K × K)) (rs : List (MonthRec K))
    (hf : List (Herd K)) (hc : Chain rnd herds series rs hf) (r : MonthRec K) (hr : r ∈ rs) :
    ∃ feed grass hs hs', (feed, grass) ∈ series ∧ (∀ h ∈ hs, HerdOK h) ∧ MonthFacts rnd feed grass hs r hs' := by
  induction hc with
  | nil hs => simp at hr
  | cons hs feed grass series r0 hs' rs hf hok hmf hch ih =>
    rcases List.mem_cons.mp hr with rfl | hr
    · exact ⟨feed, grass, hs, hs', by simp, hok, hmf⟩
    · obtain ⟨f, g, a, b, h1, h2, h3⟩ := ih hr
      exact ⟨f, g, a, b, by simp [h1], h2, h3⟩

/-! ### the clauses of C06 for one month, from `MonthFacts` -/

/-- the dairy herds of the list have pairwise different species keys -/
def MilkKeysDistinct (herds : List (Herd K)) : Prop :=
  herds.Pairwise (fun x y => x.sp.isMilk = true → y.sp.isMilk = true → x.sp.species ≠ y.sp.species)

theorem month_ledger {rnd : K → K} {feed grass : K} {herds : List (Herd K)} {r : MonthRec K}
    {herds' : List (Herd K)} (hm : MonthFacts rnd feed grass herds r herds') : ∀ d ∈ r.recs, Ledger d :=
  fun d hd => dok_ledger _ d (hm.dok d hd) (hm.trnn _)

theorem month_nonneg {rnd : K → K} {feed grass : K} {herds : List (Herd K)} {r : MonthRec K}
    {herds' : List (Herd K)} (hm : MonthFacts rnd feed grass herds r herds') : ∀ d ∈ r.recs, NonNeg d :=
  fun d hd => dok_nonneg _ d (hm.dok d hd) (hm.trnn _)

theorem month_availTarget {rnd : K → K} {feed grass : K} {herds : List (Herd K)} {r : MonthRec K}
    {herds' : List (Herd K)} (hm : MonthFacts rnd feed grass herds r herds') : ∀ d ∈ r.recs, AvailTarget d :=
  fun d hd => dok_availTarget _ d (hm.dok d hd)

/-- the transfer clause: what a dairy herd retires plus its surviving male calves is exactly what
    the meat herd with the same species key receives (and what the dairy herd books as leaving) -/
theorem month_transfer {rnd : K → K} {feed grass : K} {herds : List (Herd K)} {r : MonthRec K}
    {herds' : List (Herd K)} (hm : MonthFacts rnd feed grass herds r herds') (hk : MilkKeysDistinct herds)
    (e : WD K) (he : e ∈ r.recs) (hem : e.c.b.a.h.sp.isMilk = true) :
    e.c.transferPop = -(e.c.b.retiring + e.c.b.transferBirths) ∧
    e.c.b.retiring = e.c.b.a.h.st.pop * e.c.b.a.h.sp.retFrac ∧
    e.c.b.transferBirths = e.c.b.births * (e.c.b.a.h.sp.birthRatio - 1) * (1 - e.c.b.a.h.sp.tcf) ∧
    ∀ d ∈ r.recs, d.c.b.a.h.sp.isMilk = false → d.c.b.a.h.sp.species = e.c.b.a.h.sp.species →
      d.c.transferPop = e.c.b.retiring + e.c.b.transferBirths := by
  have hpw : (r.recs.map (fun d => d.c.b)).Pairwise (fun x y => x.a.h.sp.isMilk = true → y.a.h.sp.isMilk = true →
      x.a.h.sp.species ≠ y.a.h.sp.species) := by
    have : herds = (r.recs.map (fun d => d.c.b)).map (fun b => b.a.h) := by
      rw [← hm.start, List.map_map]; rfl
    unfold MilkKeysDistinct at hk
    rw [this, List.pairwise_map] at hk
    exact hk
  have hmem : e.c.b ∈ r.recs.map (fun d => d.c.b) := List.mem_map_of_mem (f := fun d : WD K => d.c.b) he
  have hu := transferOf_unique _ e.c.b hmem hem hpw
  have hde := hm.dok e he
  have hbe := hde.c.b
  refine ⟨?_, hbe.retMilk hem, hbe.tbDef, ?_⟩
  · rw [hde.c.tp, if_pos hem, hu, hbe.out]
  · intro d hd hdm hds
    have hdd := hm.dok d hd
    rw [hdd.c.tp, hdm, hds, hu, hbe.out]
    simp

/-- a meat herd whose species has no dairy herd receives nothing -/
theorem month_transfer_none {rnd : K → K} {feed grass : K} {herds : List (Herd K)} {r : MonthRec K}
    {herds' : List (Herd K)} (hm : MonthFacts rnd feed grass herds r herds')
    (d : WD K) (hd : d ∈ r.recs) (hdm : d.c.b.a.h.sp.isMilk = false)
    (hno : ∀ e ∈ r.recs, ¬ (e.c.b.a.h.sp.isMilk = true ∧ e.c.b.a.h.sp.species = d.c.b.a.h.sp.species)) :
    d.c.transferPop = 0 := by
  have hdd := hm.dok d hd
  rw [hdd.c.tp, hdm]
  simp only [Bool.false_eq_true, if_false]
  unfold transferOf
  rw [transferFind_none]
  · rfl
  · intro b hb
    obtain ⟨e, he, rfl⟩ := List.mem_map.mp hb
    exact hno e he

end Allfed.HerdProofs
