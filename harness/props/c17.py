"""C17 - shipped input tables are exactly what the import pipeline derives from raw data; table invariants;
the percentage-averaging helper (DESIGN.md §7 C17)."""
import csv, math, os
from fractions import Fraction
import numpy as np
from lib import wire
from lib.wire import fl, f2b, Reader, close
from translators import tr_country

ID = "C17"
LEVEL = "proof"
LEVEL_TEXT = ("Lean 4 theorems for ALL percentage/weight lists over any ordered field about an executable model of weighted_average_percentages / "
              "average_percentages (value = sum over the valid entries p*w / valid weight, inside [min, max] of the valid entries, sentinel otherwise, "
              "exactly the code's notion of impossible); kernel-checked invariants (one theorem per row, combined) of the combined country table as exact "
              "decimals, regenerated on every run from the table the 21 import scripts produce from the raw data in a scratch copy; and the byte-for-byte "
              "equality regenerated = shipped for all 20 processed tables and the combined table, executed by the harness on every run (quick tier)")
LEVEL_NOTE = ("Partial: the 21 import scripts (pandas/openpyxl) are executed, not modelled - their equality with the shipped files is established by running "
              "them, every run. Trusted: Lean kernel (propext/Classical.choice/Quot.sound), the csv/ast translator tr_country (its Python mirror of the row "
              "checker is compared with the Lean spec every run), the harness, exact field arithmetic vs IEEE doubles (rel 1e-9).")
TECHNIQUE = "translator (regenerated table -> Lean exact decimals) + decide +kernel per row + Lean 4 proofs about the helper + differential correspondence + pipeline re-execution"
DRIVER = "driver_importavg"
LEAN_MODULES = ["AllfedModel.Props.C17"]
TRANSLATORS = [tr_country.run]
OBLIGATIONS = ["Allfed.C17." + n for n in [
    "C17_impossible_iff", "C17_avg", "C17_avg_range", "C17_avg_min_max", "C17_avg_sentinel_impossible", "C17_avg_as_written", "C17_avg_even",
    "C17_table_ok", "C17_table_header", "C17_table_shape", "C17_expected_positions", "C17_positions_perm", "C17_table_codes",
    "C17_crop_reduction_ulp_witness"]]
RULE = ("(a) every file written by the 21 import scripts (order of scripts/run_all_imports.sh) in a scratch copy compared byte for byte with the shipped "
        "one; (b) every cell of the regenerated AND of the shipped combined table against the column-group ranges of the Lean spec, with exact rationals, "
        "and every row through the real verify_country_data; (c) generated percentage/weight vectors (valid, boundary -100 / 1e5, impossible values mixed "
        "in, all impossible, zero weights, weight only on impossible entries, single element, NaN, numpy and list inputs, malformed weights) through "
        "the real weighted_average_percentages / average_percentages and the Lean model; non-trivial = an impossible value is present or an assertion "
        "path is taken; distinct = distinct input vectors / distinct files")
ASSUMPTIONS = [
    "helper theorems C17_avg / C17_avg_range: weights in [0,1] summing to exactly 1 (the code accepts 0.99999 < sum <= 1.00001; C17_avg_as_written covers that case: the result is then within a relative 1e-4 of the weighted mean)",
    "a NaN percentage is neither > 1e5 nor < -100, so the code treats it as valid and returns NaN; NaN is outside the theorems (ordered field) and is only compared model-vs-code",
    "crop_reduction_year* is bounded below by -1 - 1e-8, the tolerance verify_country_data itself applies before clamping to -1: 36 shipped cells equal -1.0000000000000002 (one ulp below -1, the IEEE mean of several -100 % entries); C17_crop_reduction_ulp_witness records it",
    "column groups without a range derivable from code/docs are only checked for presence: capex_dollar, include_greenhouse (never read by the model)",
    "the import scripts are executed (35 s), not modelled; the raw data files are taken as given",
    "floating-point: with a valid weight below 1e-9 the float computation of 1 - rejected_weight cancels; such cases are counted as near-ties and not judged",
]
TRUSTED = ["pandas / openpyxl / numpy as used by the import scripts", "csv module and decimal parser of tr_country.py (cells are parsed from text, never through float)"]

SENTINEL = 9.37e36


# ----------------------------------------------------------------------------------------------
# (a) regeneration
def report_regeneration(ctx):
    reg = getattr(ctx, "c17_regen", None)
    if reg is None:
        ctx.break_("regeneration", "the translator did not run the import pipeline")
        return
    if reg["failed"]:
        f = reg["failed"]
        ctx.violation("regen-script-failed:" + f["script"], "import script %s fails on the shipped raw data (rc %s): %s" % (
            f["script"], f["rc"], f["stderr"].strip().split("\n")[-1][:200]), {"part": "regen", "script": f["script"], "stderr": f["stderr"][-800:]})
    for rel, st in sorted(reg["files"].items()):
        ctx.case(("regen", rel), nontrivial=True, sample={"file": rel, "identical": st["same"]})
        ctx.count("regen:identical" if st["same"] else "regen:different")
        if not st["same"]:
            if reg["failed"] and st["first_diff"] and st["first_diff"].get("kind") == "not-regenerated":
                continue  # consequence of the failed script, already reported
            d = st["first_diff"] or {}
            ctx.violation("regen-differs:" + rel, "re-running the import scripts does not reproduce %s: %s" % (rel, d), {"part": "regen", "file": rel, "first_diff": d})
    ctx.extra["regeneration_per_script_s"] = reg.get("per_script_s")


# ----------------------------------------------------------------------------------------------
# (b) table invariants, exact rationals, driven by the Lean spec
def lean_spec(ctx):
    rd = Reader(ctx.lean(["table.spec"])[0])
    names, kinds = rd.strs(), rd.strs()
    return list(zip(names, kinds))


def cell_ok(kind, v):
    if kind == "pop":
        return 10000 < v < 10 ** 10
    if kind == "qty":
        return v >= 0
    if kind in ("frac", "season"):
        return 0 <= v <= 1
    if kind == "cropReduc":
        return v >= -1 - Fraction(1, 10 ** 8)
    if kind == "grassReduc":
        return v >= -1
    if kind == "growth":
        return v >= -100
    return True


WHAT = {"pop": "population outside (10 000, 1e10)", "qty": "negative quantity", "frac": "fraction outside [0, 1]", "season": "seasonality share outside [0, 1]",
        "cropReduc": "crop reduction below -100 %", "grassReduc": "grass reduction below -100 %", "growth": "daily growth below -100 %"}


def check_table(ctx, path, tag, spec, expected):
    """the executable statement of C17_table_* on one CSV file; returns number of cells judged"""
    with open(path, newline="", encoding="utf-8") as f:
        rows = list(csv.reader(f))
    header, body = rows[0], rows[1:]
    case0 = {"part": "table", "table": tag}
    want_header = ["iso3", "country"] + [n for n, _ in spec]
    if header != want_header:
        missing = [c for c in want_header if c not in header]
        extra = [c for c in header if c not in want_header]
        ctx.violation("table-header:" + tag, "header of the %s combined table differs from the expected columns: missing %s extra %s%s" % (
            tag, missing[:5], extra[:5], "" if missing or extra else " (order)"), dict(case0, missing=missing, extra=extra))
    codes = [r[0] for r in body]
    if sorted(codes) != sorted(expected):
        ctx.violation("table-countries:" + tag, "rows of the %s table are not exactly the expected countries: missing %s extra/duplicate %s" % (
            tag, sorted(set(expected) - set(codes))[:5], sorted([c for c in codes if c not in expected or codes.count(c) > 1])[:5]), case0)
    kind_of = dict(spec)
    judged = 0
    ulp_cells = 0
    for r in body:
        if len(r) != len(header):
            ctx.violation("table-missing-cell:" + tag, "row %s has %d cells, header has %d" % (r[:1], len(r), len(header)), dict(case0, row=r[:2]))
            continue
        season = []
        for name, cell in zip(header, r):
            if name in ("iso3", "country"):
                if cell == "":
                    ctx.violation("table-missing-cell:" + tag, "empty %s" % name, dict(case0, row=r[:2], column=name))
                continue
            try:
                m, e = tr_country.parse_decimal(cell)
            except tr_country.Unsupported:
                ctx.violation("table-missing-cell:" + tag, "cell (%s, %s) of the %s table is missing or not a number: %r" % (r[0], name, tag, cell),
                              dict(case0, iso3=r[0], column=name, value=cell))
                continue
            v = Fraction(m) * Fraction(10) ** e
            k = kind_of.get(name, "free")
            judged += 1
            if k == "season":
                season.append(v)
            if k == "cropReduc" and v < -1:
                ulp_cells += 1
            if not cell_ok(k, v):
                ctx.violation("table-invariant:%s:%s" % (k, tag), "%s: %s in (%s, %s) of the %s table" % (WHAT[k], cell, r[0], name, tag),
                              dict(case0, iso3=r[0], column=name, value=cell, kind=k))
        if season and abs(sum(season) - 1) > Fraction(1, 10 ** 6):
            ctx.violation("table-invariant:season-sum:" + tag, "seasonality shares of %s sum to %s, not 1" % (r[0], float(sum(season))),
                          dict(case0, iso3=r[0], sum=float(sum(season))))
        ctx.case(("row", tag, r[0]), nontrivial=True, sample=None)
    ctx.count("table:%s:cells-judged" % tag, judged)
    ctx.count("table:%s:crop-reduction-cells-one-ulp-below-minus-1" % tag, ulp_cells)
    return judged


def check_verify_country_data(ctx, path, tag):
    """the code's own runtime assertions on every row"""
    import pandas as pd
    from src.scenarios.run_model_no_trade import ScenarioRunnerNoTrade
    runner = ScenarioRunnerNoTrade()
    df = pd.read_csv(path)
    if df.isnull().values.any():
        ctx.violation("table-missing-cell:" + tag, "pandas reads a null value from the %s table" % tag, {"part": "table", "table": tag})
    for _, row in df.iterrows():
        try:
            with ctx.quiet():
                runner.verify_country_data(row.copy())
            ctx.count("verify_country_data:%s:pass" % tag)
        except AssertionError as e:
            ctx.violation("verify-country-data:" + tag, "verify_country_data rejects row %s of the %s table: %s" % (row["iso3"], tag, str(e)[:120]),
                          {"part": "table", "table": tag, "iso3": row["iso3"]})
        except KeyError as e:
            ctx.violation("table-header:" + tag, "verify_country_data misses column %s" % e, {"part": "table", "table": tag})
            break


# ----------------------------------------------------------------------------------------------
# (c) the averaging helper
def impossible(p):
    return p > 1e5 or p < -100


VALID = [0.0, -100.0, 1e5, -99.99999999, 99999.9999, 3.0, -16.0, 150.0, 8.0, 1.0, -50.0, 42.5]
IMPOSSIBLE = [-100.00000001, -101.0, 100000.00000001, 1e11, 1e20, 1e26, SENTINEL, -1e9, 1e5 + 1.0]


def gen_percentages(rng, n, style):
    out = []
    for _ in range(n):
        if style == "valid":
            bad = False
        elif style == "all-impossible":
            bad = True
        else:
            bad = rng.random() < 0.35
        if bad:
            out.append(rng.choice(IMPOSSIBLE) if rng.random() < 0.7 else rng.choice([-1, 1]) * 10 ** rng.uniform(5.01, 30) - (200 if rng.random() < 0.5 else 0))
        else:
            out.append(rng.choice(VALID) if rng.random() < 0.4 else rng.uniform(-100, 300) if rng.random() < 0.8 else rng.uniform(-100, 1e5))
    return [float(x) for x in out]


def gen_weights(rng, ps, style):
    n = len(ps)
    raw = [rng.choice([0.0, 1.0, 1.0, rng.random(), rng.random() * 10, 2 / 3, 0.5]) for _ in range(n)]
    if style == "only-impossible":  # all the weight on impossible entries (valid ones get exactly 0)
        raw = [(r if impossible(p) else 0.0) for p, r in zip(ps, raw)]
    if style == "tiny-valid":
        raw = [(r if impossible(p) else r * 1e-13) for p, r in zip(ps, raw)]
    if sum(raw) == 0:
        raw = [1.0] * n
    s = sum(raw)
    ws = [r / s for r in raw]
    if style == "off-accepted":
        k = 1 + rng.uniform(-9e-6, 9e-6)
        ws = [w * k for w in ws]
    elif style == "off-rejected":
        k = 1 + rng.choice([-1, 1]) * rng.uniform(1.5e-5, 0.5)
        ws = [w * k for w in ws]
    elif style == "out-of-range" and n >= 2:
        i, j = rng.sample(range(n), 2)
        d = rng.uniform(0.1, 1.5)
        ws[i] += 1 + d
        ws[j] -= 1 + d
    return [float(w) for w in ws]


def call_weighted(IU, ps, ws, as_numpy):
    try:
        with np.errstate(all="ignore"):
            r = IU.weighted_average_percentages(np.array(ps) if as_numpy else list(ps), np.array(ws) if as_numpy else list(ws))
        return ("ok", float(r))
    except AssertionError:
        return ("assert", None)
    except ZeroDivisionError:
        return ("zerodiv", None)


def call_even(IU, ps, as_numpy):
    try:
        with np.errstate(all="ignore"):
            r = IU.average_percentages(np.array(ps) if as_numpy else list(ps))
        return ("ok", float(r))
    except AssertionError:
        return ("assert", None)
    except ZeroDivisionError:
        return ("zerodiv", None)


def exact_mean(ps, ws):
    """the property's formula with exact rationals: (valid weight, mean, min, max) over the entries that are not impossible"""
    V = [(Fraction(p), Fraction(w)) for p, w in zip(ps, ws) if not impossible(p)]
    vw = sum((w for _, w in V), Fraction(0))
    if not V or vw == 0:
        return vw, None, None, None
    return vw, sum((p * w for p, w in V), Fraction(0)) / vw, min(p for p, _ in V), max(p for p, _ in V)


def judge_helper(ctx, name, ps, ws, style, impl, model_line_out, numpy_in):
    tag, got = impl
    case = {"part": "helper", "function": name, "percentages": ps, "weights": ws, "numpy": numpy_in, "style": style, "returned": impl}
    has_nan = any(math.isnan(x) for x in ps + ws)
    # ---- model vs code
    rd = Reader(model_line_out)
    mtag = rd.tok()
    mval = rd.float() if mtag == "ok" else rd.tok()
    s = math.fsum(ws)
    near_threshold = any(abs(s - t) < 1e-12 for t in (1.00001, 0.99999)) or (name == "average_percentages" and False)
    vw_f = math.fsum(w for p, w in zip(ps, ws) if not impossible(p))
    near_cancel = 0 < vw_f < 1e-9 and any(impossible(p) for p in ps)
    if near_threshold or near_cancel:
        ctx.count("helper:near-tie-skipped")
    else:
        if (tag == "ok") != (mtag == "ok"):
            ctx.disagree(name + ".outcome", case, impl, [mtag, mval])
        elif tag == "ok" and not (close(got, mval, 1e-9, 1e-9) or (math.isnan(got) and math.isnan(mval))):
            ctx.disagree(name + ".value", case, got, mval)
        elif tag != "ok":
            ctx.count("helper:error:%s/%s" % (tag, mval))
    # ---- the property on the code's answer (domain: equal lengths, weights in [0,1] summing to 1, no NaN)
    in_domain = (len(ps) == len(ws) and not has_nan and all(0 <= w <= 1 for w in ws) and abs(s - 1) < 1e-12)
    if in_domain and not near_cancel:
        vw, mean, lo, hi = exact_mean(ps, ws)
        if tag != "ok":
            ctx.violation("avg-rejects-valid-input", "%s raised %s on weights in [0,1] summing to 1" % (name, tag), case)
        elif mean is None:
            if got != SENTINEL:
                ctx.violation("avg-sentinel", "%s returned %r although no valid percentage carries weight (expected the sentinel 9.37e36)" % (name, got), case)
        else:
            # 1 - rejected_weight carries an absolute rounding error of a few 1e-16, i.e. a relative one of that / valid weight
            scale = max(1.0, abs(float(lo)), abs(float(hi))) * (1 + 1e-6 / float(vw))
            if not (float(lo) - 1e-9 * scale <= got <= float(hi) + 1e-9 * scale):
                ctx.violation("avg-range", "%s returned %r outside the range [%r, %r] of the valid percentages" % (name, got, float(lo), float(hi)), case)
            elif abs(got - float(mean)) > 1e-9 * scale:
                ctx.violation("avg-value", "%s returned %r, the weighted mean of the valid percentages is %r" % (name, got, float(mean)), case)
    elif len(ps) == len(ws) and not has_nan and all(0 <= w <= 1 for w in ws) and 0.99999 < s <= 1.00001 and tag == "ok" and not near_cancel:
        # weights off by up to 1e-5: the as-written bound (within relative ~1e-4 of the weighted mean)
        vw, mean, lo, hi = exact_mean(ps, ws)
        if mean is not None and got != SENTINEL:
            scale = max(1.0, abs(float(lo)), abs(float(hi)))
            if abs(got - float(mean)) > 2e-4 * scale:
                ctx.violation("avg-value", "%s returned %r, the weighted mean of the valid percentages is %r (weights sum to %r)" % (name, got, float(mean), s), case)
    ctx.count("helper:%s:%s" % (style, tag))
    ctx.case((name, tuple(ps), tuple(ws), numpy_in), nontrivial=any(impossible(p) for p in ps) or tag != "ok",
             sample={"function": name, "percentages": ps[:6], "weights": ws[:6], "returned": got})


CORPUS_W = [
    # tests/test_some_import_functions.py
    ([-100, 3, 150, 0, 0, -16, 4, 4, 1e11], [x / (1 + 0 + 2 / 3 + 0 + 0 + 1 / 2 + 1 + 1 + 1) for x in [1, 0, 2 / 3, 0, 0, 1 / 2, 1, 1, 1]]),
    ([-100, -100, -100], [1 / 3, 1 / 3, 1 / 3]),
    ([-100, 100, 1e20], [1 / 102, 1 / 102, 100 / 102]),
    # boundaries and degenerate shapes
    ([-100.0], [1.0]), ([1e5], [1.0]), ([1e5 + 1e-6], [1.0]), ([-100.0000001], [1.0]),
    ([5.0, 1e11], [0.0, 1.0]), ([5.0, 1e11], [1.0, 0.0]), ([1e11, 1e12], [0.5, 0.5]),
    ([1.0, 2.0], [0.5, 0.5, 0.0]), ([1.0, 2.0], [1.5, -0.5]), ([1.0, 2.0], [0.3, 0.3]), ([], []),
    ([-100.0, -100.0, -100.0], [0.3, 0.3, 0.4]),  # the source of -1.0000000000000002 in the shipped table
    # fixed defect (commit 55f6ad8): valid entry with weight 0, rejected weights summing to 0.9999999999999999 -> raised AssertionError
    ([3.0, 1e26, -1e9, 1e11], [0.0, 0.6, 0.3, 0.1]),
    ([3.0, 1e26, -1e9, 1e11], [0.0, 0.3, 0.3, 0.4]),
    ([3.0, 1e26, -1000000000.0, -1.0496787285722855e27], [0.0, 0.13517336278667402, 0.6620665930333148, 0.20276004418001103]),
]
CORPUS_E = [[1, 2, 3], [1e11, -101, 1e8, 1e26], [-100, 3, 100, 0, 0, -16, 8, 8, 1e11], [7.0], [1e11], [-100, 1e5, -100.5], []]


def part_helper(ctx, n_cases):
    from src.utilities.import_utilities import ImportUtilities as IU
    rng = ctx.rng
    W, E = [], []
    for ps, ws in CORPUS_W:
        W.append(([float(x) for x in ps], [float(x) for x in ws], "corpus", False))
    for ps in CORPUS_E:
        E.append(([float(x) for x in ps], "corpus", False))
    for _ in range(n_cases):
        n = rng.choice([1, 1, 2, 3, 4, 4, 9]) if rng.random() < 0.7 else rng.randint(1, 40)
        pstyle = rng.choice(["valid", "mixed", "mixed", "mixed", "all-impossible"])
        ps = gen_percentages(rng, n, pstyle)
        wstyle = rng.choice(["normalised"] * 6 + ["only-impossible", "tiny-valid", "off-accepted", "off-rejected", "out-of-range"])
        ws = gen_weights(rng, ps, wstyle)
        if rng.random() < 0.03:
            ps[rng.randrange(n)] = float("nan")
            wstyle += "+nan"
        if rng.random() < 0.02:
            ws = ws[:-1] if rng.random() < 0.5 else ws + [0.0]
            wstyle += "+length"
        W.append((ps, ws, pstyle + "/" + wstyle, rng.random() < 0.5))
        if rng.random() < 0.4:
            E.append((gen_percentages(rng, rng.randint(1, 12), pstyle), pstyle + "/even", rng.random() < 0.5))
    lines = ["avg.weighted %s %s" % (fl(ps), fl(ws)) for ps, ws, _, _ in W] + ["avg.even %s" % fl(ps) for ps, _, _ in E]
    outs = ctx.lean(lines)
    for (ps, ws, style, npy), o in zip(W, outs[:len(W)]):
        judge_helper(ctx, "weighted_average_percentages", ps, ws, style, call_weighted(IU, ps, ws, npy), o, npy)
    for (ps, style, npy), o in zip(E, outs[len(W):]):
        n = len(ps)
        ws = [1 / n] * n if n else []
        impl = call_even(IU, ps, npy)
        if n == 0:
            mt = Reader(o).tok()
            if (impl[0] == "ok") != (mt == "ok"):
                ctx.disagree("average_percentages.empty", {"percentages": ps}, impl, o)
            ctx.count("helper:even-empty:" + impl[0])
            continue
        judge_helper(ctx, "average_percentages", ps, ws, style, impl, o, npy)
    # `impossible` itself at the boundaries
    probes = [-100.0, np.nextafter(-100.0, -1e9), np.nextafter(-100.0, 0), 1e5, np.nextafter(1e5, 1e9), np.nextafter(1e5, 0), 0.0, SENTINEL, float("inf"), float("-inf")]
    outs = ctx.lean(["avg.impossible " + f2b(p) for p in probes])
    for p, o in zip(probes, outs):
        r = call_weighted(IU, [float(p)], [1.0], False)
        code_says = (r == ("ok", SENTINEL))
        if code_says != (o.strip() == "1"):
            ctx.disagree("impossible", {"p": float(p)}, code_says, o)
        ctx.count("helper:boundary-probes")


# ----------------------------------------------------------------------------------------------
def correspondence(ctx):
    report_regeneration(ctx)
    spec = lean_spec(ctx)
    data = os.path.join(ctx.repo, "data", "no_food_trade")
    shipped = os.path.join(data, "computer_readable_combined.csv")
    regen = shipped + ".regen"
    expected = getattr(ctx, "c17_expected", None) or tr_country.expected_codes(ctx.repo)
    if os.path.exists(shipped):
        check_table(ctx, shipped, "shipped", spec, expected)
        check_verify_country_data(ctx, shipped, "shipped")
    if os.path.exists(regen):
        check_table(ctx, regen, "regenerated", spec, expected)
        check_verify_country_data(ctx, regen, "regenerated")
    ctx.extra["table_translated"] = getattr(ctx, "c17_table_origin", None)
    part_helper(ctx, ctx.budget(3000, 60000))


def search(ctx):
    """a proof or the tie broke: the table checks are exhaustive already; look harder at the helper"""
    part_helper(ctx, 20000)


def replay(ctx, rep):
    from src.utilities.import_utilities import ImportUtilities as IU
    ctx.driver = DRIVER  # vcheck sets it only on the normal path
    hits = []
    need_regen = any(v["case"].get("part") in ("regen", "table") for v in rep.get("violations", []))
    if need_regen:
        tr_country.run(ctx)
        n0 = len(ctx.violations)
        report_regeneration(ctx)
        spec = lean_spec(ctx) if os.path.exists(os.path.join(wire.LEAN, ".lake", "build", "bin", DRIVER)) else None
        data = os.path.join(ctx.repo, "data", "no_food_trade")
        if spec:
            for tag, path in (("shipped", os.path.join(data, "computer_readable_combined.csv")), ("regenerated", os.path.join(data, "computer_readable_combined.csv.regen"))):
                if os.path.exists(path):
                    check_table(ctx, path, tag, spec, ctx.c17_expected)
                    check_verify_country_data(ctx, path, tag)
        keys = {v["key"] for v in rep.get("violations", [])}
        hits += [v for v in ctx.violations[n0:] if v["key"] in keys][:3]
    for v in rep.get("violations", []):
        c = v["case"]
        if c.get("part") != "helper":
            continue
        ps, ws = [float(x) for x in c["percentages"]], [float(x) for x in c["weights"]]
        if c["function"] == "weighted_average_percentages":
            impl = call_weighted(IU, ps, ws, c.get("numpy", False))
        else:
            impl = call_even(IU, ps, c.get("numpy", False))
        n0 = len(ctx.violations)
        fake = "ok " + f2b(impl[1]) if impl[0] == "ok" else "err x"
        judge_helper(ctx, c["function"], ps, ws, c.get("style", "replay"), impl, fake, c.get("numpy", False))
        hits += ctx.violations[n0:n0 + 1]
    return bool(hits), hits
