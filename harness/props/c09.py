"""C09 - cropland is neither double-counted nor lost between crops and greenhouses (DESIGN.md §7 C09)."""
from props import _supply as S

ID = "C09"
LEVEL = "proof"
LEVEL_TEXT = ("Lean 4 theorems, for every horizon and every well-formed input over any ordered field, about an executable model of OutdoorCrops/"
              "Greenhouses as parameters.py drives them: production = grown x (1 - greenhouse fraction) x (1 - waste) in the relocation AND the "
              "no-relocation branch; greenhouse area zero until delay+5, monotone, <= share x cropland; relocation and expansion never lower a month; "
              "homogeneity of degree one for arbitrarily small factors (no quantisation), with proved counter-examples for the two unfixed formulas "
              "(D1 integer array, D2 greenhouse share not subtracted); tied to the real code on generated and real-country inputs every run")
LEVEL_NOTE = ("Trusted: Lean kernel (propext/Classical.choice/Quot.sound), the Python correspondence harness, exact arithmetic vs IEEE doubles (rel 1e-9), "
              "x**e as a parameter with 0<=x<=1, 0<e<=1 -> x <= pow x e <= 1 and pow x 1 = x. /repo carries two fix: commits for this property "
              "(58fff13 float array, e318e93 greenhouse share in the no-relocation branch); the model mirrors the fixed code.")
TECHNIQUE = "Lean 4 proofs over list models + differential correspondence and metamorphic re-runs of the real classes"
DRIVER = "driver_supply"
LEAN_MODULES = ["AllfedModel.Props.C09", "AllfedModel.Props.C09Real"]
OBLIGATIONS = ["Allfed.C09." + n for n in """C09_net_of_greenhouses C09_net_of_greenhouses_relocation C09_net_of_greenhouses_no_relocation C09_gh_area
C09_gh_area_refines C09_relocation_gain C09_relocation_never_lowers C09_expansion_never_lowers C09_expansion_ramp_ge_one C09_not_quantised
C09_truncation_not_homogeneous C09_trunc_two_fifths C09_truncation_counterexample C09_greenhouse_land_counted_twice_counterexample powOK_rpow""".split()]
RULE = ("generated constants (crop baselines down to 1e-3 billion kcal per month, all combinations of outdoor/relocation/greenhouses/expansion, delays 0..24, "
        "horizons 12..120) through Parameters.init_outdoor_crops + init_greenhouse_params, compared pointwise with the model; on the real output: "
        "production = grown x (1 - fraction) x (1 - waste) from the implementation's own arrays, greenhouse-area shape, and three re-runs of the real code "
        "(baseline x k incl. 1e-3 and 1e-6, relocation on/off, expansion on/off); plus real country rows x scenario options through "
        "compute_parameters_first_round. non-trivial = some month positive; distinct = distinct input dictionaries")
ASSUMPTIONS = [
    "CropWF / GhWF as in C08 (guards of the code are hypotheses; the malformed stream runs the excluded points on the real code)",
    "greenhouse multiplier in [0,1], distribution waste <= 100 for the sign/ordering theorems",
    "pow: 0<=x<=1, 0<e<=1 -> x <= pow x e <= 1, pow x 1 = x",
    "observation (not a violation of the text): the expansion ramp multiplies only the relocated series, i.e. it has no effect without relocation and "
    "none before harvest duration + rotation delay",
]
TRUSTED = ["the Greenhouses instance of compute_parameters_first_round is captured by subclassing it inside src.optimizer.parameters for the call"]

CORPUS = [
    # D1 (fixed 58fff13): a small country under relocation was truncated to 0 every month
    dict(NMONTHS=120, BASELINE=0.9, reloc=True, gh=True, area=1.0),
    # D2 (fixed e318e93): scenario "greenhouse" (no relocation) did not subtract the greenhouse share
    dict(NMONTHS=120, BASELINE=5000.0, reloc=False, gh=True, area=1.0),
    dict(NMONTHS=48, BASELINE=0.004, reloc=True, gh=False, area=72 / 39),
]


def corpus_cases(ctx):
    import random
    out = []
    for j, sp in enumerate(CORPUS):
        c = S.gen_constants(random.Random(1000 + j), horizons=[sp["NMONTHS"]])
        c.update({"BASELINE_CROP_KCALS": __import__("numpy").float64(sp["BASELINE"]), "ADD_OUTDOOR_GROWING": True, "OG_USE_BETTER_ROTATION": sp["reloc"],
                  "ADD_GREENHOUSES": sp["gh"], "RATIO_INCREASED_CROP_AREA": sp["area"], "INITIAL_CROP_AREA_FRACTION": 0.01,
                  "GREENHOUSE_AREA_MULTIPLIER": 0.19e9 / 1.43e9, "INITIAL_HARVEST_DURATION_IN_MONTHS": 8, "NUMBER_YEARS_TAKES_TO_REACH_INCREASED_AREA": 3,
                  "SEASONALITY": [1 / 12] * 12, "COUNTRY_CODE": "DJI"})
        c["DELAY"].update({"ROTATION_CHANGE_IN_MONTHS": 2, "GREENHOUSE_MONTHS": 2})
        c["WASTE_DISTRIBUTION"]["CROPS"] = 10.0
        out.append(c)
    return out


def correspondence(ctx):
    rng = ctx.rng
    k = ctx.budget(1, 12)
    S.check_crops(ctx, corpus_cases(ctx), "C09", origin="corpus")
    S.variant_checks(ctx, corpus_cases(ctx), "C09")
    cases = [S.gen_constants(rng) for _ in range(600 * k)]
    bad = [S.gen_constants(rng, wellformed=False) for _ in range(100 * k)]
    S.check_crops(ctx, cases + bad, "C09")
    S.variant_checks(ctx, cases[:400 * k], "C09")
    rows = S.country_rows(ctx)
    crop_opts = [dict(S.BASE_OPTION, scenario=s) for s in ["all_resilient_foods", "all_resilient_foods_and_more_area", "relocated_crops", "greenhouse",
                                                           "no_resilient_foods"]]
    if ctx.quick:
        rows = S.extreme_rows(rows) + rng.sample(rows, 22)
        opts = crop_opts + S.gen_options(rng, 2)
    else:
        opts = crop_opts + S.gen_options(rng, 5) + [dict(o, crop_disruption="zero", NMONTHS=rng.choice([48, 84])) for o in crop_opts]
    ctx.extra["rows"] = len(rows)
    ctx.extra["option_sets_per_row"] = len(opts)
    S.check_real_rows(ctx, rows, opts, "C09")
    S.check_real_rows(ctx, [None], S.gen_world_options(rng, ctx.budget(6, 40)), "C09")  # the world aggregate
    save_mode_differential(ctx, ["MLT", "DJI"] if ctx.quick else ["MLT", "DJI", "BRB", "SGP", "LUX", "ARG"])


def save_mode_differential(ctx, isos):
    """what is handed to the optimiser must not depend on whether the run also SAVES its series (web-interface mode, save_all_results):
    the same run with the flag off and on, outdoor-crop and greenhouse series of the first solve compared bit for bit"""
    from lib import pipeline, lpinst
    import numpy as np
    for iso in isos:
        o = pipeline.options(NMONTHS=48, scenario=ctx.rng.choice(["no_resilient_foods", "all_resilient_foods", "relocated_crops"]))
        runs = [pipeline.run_scenario(iso, o, save_all_results=flag) for flag in (False, True)]
        case = {"series": "crops", "country": iso, "options": {k: v for k, v in o.items() if pipeline.BASE_OPTIONS.get(k) != v}, "mode": "save_all_results off/on"}
        if any(not r.solves for r in runs):
            ctx.count("save-mode:run-without-solve")
            continue
        a, b = [lpinst.inp_from_optimizer(r.solves[0].opt, r.solves[0].kind) for r in runs]
        for field in ("cropProd", "greenhouse"):
            x, y = np.asarray(a[field], dtype=float), np.asarray(b[field], dtype=float)
            if x.shape != y.shape or not np.array_equal(x, y):
                i = int(np.argmax(np.abs(x - y))) if x.shape == y.shape else 0
                quant = bool(np.allclose(y * 10, np.round(y * 10), atol=1e-9))
                ctx.violation("crops-quantised", "%s: %s handed to the optimiser in month %d is %r when the run saves its series and %r when it does not%s" % (
                    iso, field, i, float(y[i]), float(x[i]), " (every value a multiple of 0.1)" if quant else ""), dict(case, field=field, month=i))
        ctx.case(("save-mode", iso, tuple(sorted(case["options"].items()))), nontrivial=True, sample=case)
        ctx.count("save-mode-differentials")


def search(ctx):
    rng = ctx.rng
    cases = [S.gen_constants(rng) for _ in range(2000)]
    S.check_crops(ctx, cases, "C09", origin="search")
    S.variant_checks(ctx, cases[:600], "C09")
    rows = S.country_rows(ctx)
    S.check_real_rows(ctx, rng.sample(rows, 40), [dict(S.BASE_OPTION, scenario=s) for s in S.SCENARIOS], "C09")


def replay(ctx, rep):
    sm = [v for v in rep.get("violations", []) if v.get("case", {}).get("mode") == "save_all_results off/on"]
    if sm:
        n0 = len(ctx.violations)
        save_mode_differential(ctx, sorted({v["case"]["country"] for v in sm}))
        hits = [w for w in ctx.violations[n0:] if w["key"] in {v["key"] for v in sm}]
        if hits:
            return True, hits[:3]
    return S.replay(ctx, rep, "C09")
