import AllfedModel.Model.PhysSpec
import Mathlib.Algebra.Order.Field.Basic
import Mathlib.Algebra.Order.Field.Rat
import Mathlib.Data.List.GetD
import Mathlib.Tactic.Linarith
import Mathlib.Tactic.Ring
import Mathlib.Tactic.FieldSimp
import Mathlib.Tactic.NormNum
import Mathlib.Tactic.Positivity
import Mathlib.Tactic.Tauto
/-!
# A small library about the linear programme `buildLP` (properties C01, and later C02–C04, C12, C16)

Everything is proved over an arbitrary linearly ordered field `K`.

1. `Aff.eval` computes what it should (`eval_*`), rows hold iff the (in)equation holds (`holds_*`);
2. where the rows of `buildLP` live (`mem_buildLP_*`);
3. what each named row says about a feasible point, in terms of `x` (`stored_*`, `crop_*`, `meat_*`,
   `seaweed_*`, `scp_cap`, `cs_cap`, `feed_*`, `biofuel_*`, `kcals_fed`, `objective_le_*`);
4. the ledgers telescoped (`stored_end_eq`, `crop_storage_eq`, `meat_end_eq`, …);
5. the theorems `Props/C01.lean` delegates to.
-/
namespace Allfed.Proofs.LP
open Allfed.LP Allfed.AllocLP Allfed.PhysSpec

set_option linter.unusedSectionVars false
set_option linter.unusedVariables false

variable {K : Type} [Field K] [LinearOrder K] [IsStrictOrderedRing K]

/-! ## 1. evaluation of affine expressions -/

section Eval
variable (x : Var → K)

theorem sci_100 : (100.0 : K) = 100 := by norm_num

theorem sumTerms_nil : Aff.sumTerms x ([] : List (Var × K)) = 0 := rfl

theorem sumTerms_cons (v : Var) (c : K) (t : List (Var × K)) :
    Aff.sumTerms x ((v, c) :: t) = c * x v + Aff.sumTerms x t := rfl

theorem sumTerms_append (a b : List (Var × K)) :
    Aff.sumTerms x (a ++ b) = Aff.sumTerms x a + Aff.sumTerms x b := by
  induction a with
  | nil => simp only [List.nil_append, sumTerms_nil, zero_add]
  | cons p t ih =>
    obtain ⟨v, c⟩ := p
    simp only [List.cons_append, sumTerms_cons, ih, add_assoc]

theorem sumTerms_map_smul (s : K) (l : List (Var × K)) :
    Aff.sumTerms x (l.map fun p => (p.1, s * p.2)) = s * Aff.sumTerms x l := by
  induction l with
  | nil => simp only [List.map_nil, sumTerms_nil, mul_zero]
  | cons p t ih =>
    obtain ⟨v, c⟩ := p
    simp only [List.map_cons, sumTerms_cons, ih]; ring

theorem sumTerms_map_mulr (s : K) (l : List (Var × K)) :
    Aff.sumTerms x (l.map fun p => (p.1, p.2 * s)) = Aff.sumTerms x l * s := by
  induction l with
  | nil => simp only [List.map_nil, sumTerms_nil, zero_mul]
  | cons p t ih =>
    obtain ⟨v, c⟩ := p
    simp only [List.map_cons, sumTerms_cons, ih]; ring

theorem sumTerms_map_divr (s : K) (l : List (Var × K)) :
    Aff.sumTerms x (l.map fun p => (p.1, p.2 / s)) = Aff.sumTerms x l / s := by
  induction l with
  | nil => simp only [List.map_nil, sumTerms_nil, zero_div]
  | cons p t ih =>
    obtain ⟨v, c⟩ := p
    simp only [List.map_cons, sumTerms_cons, ih]; ring

theorem sumTerms_map_neg (l : List (Var × K)) :
    Aff.sumTerms x (l.map fun p => (p.1, -p.2)) = -Aff.sumTerms x l := by
  induction l with
  | nil => simp only [List.map_nil, sumTerms_nil, neg_zero]
  | cons p t ih =>
    obtain ⟨v, c⟩ := p
    simp only [List.map_cons, sumTerms_cons, ih]; ring

theorem eval_def (a : Aff K) : Aff.eval x a = Aff.sumTerms x a.terms + a.const := rfl

theorem eval_var (v : Var) : Aff.eval x (Aff.var v : Aff K) = x v := by
  simp only [eval_def, Aff.var, sumTerms_cons, sumTerms_nil, one_mul, add_zero]

theorem eval_mv (k : VK) (m : Nat) : Aff.eval x (mv k m : Aff K) = x (.mv k m) := eval_var x _

theorem eval_k (c : K) : Aff.eval x (Aff.k c) = c := by
  simp only [eval_def, Aff.k, sumTerms_nil, zero_add]

theorem eval_add (a b : Aff K) : Aff.eval x (a + b) = Aff.eval x a + Aff.eval x b := by
  show Aff.eval x (Aff.add a b) = _
  simp only [eval_def, Aff.add, sumTerms_append]; ring

theorem eval_neg (a : Aff K) : Aff.eval x (-a) = -Aff.eval x a := by
  show Aff.eval x (Aff.neg a) = _
  simp only [eval_def, Aff.neg, sumTerms_map_neg]; ring

theorem eval_sub (a b : Aff K) : Aff.eval x (a - b) = Aff.eval x a - Aff.eval x b := by
  show Aff.eval x (a + -b) = _
  rw [eval_add, eval_neg]; ring

theorem eval_smul (s : K) (a : Aff K) : Aff.eval x (Aff.smul s a) = s * Aff.eval x a := by
  simp only [eval_def, Aff.smul, sumTerms_map_smul]; ring

theorem eval_mulr (a : Aff K) (s : K) : Aff.eval x (Aff.mulr a s) = Aff.eval x a * s := by
  simp only [eval_def, Aff.mulr, sumTerms_map_mulr]; ring

theorem eval_divr (a : Aff K) (s : K) : Aff.eval x (Aff.divr a s) = Aff.eval x a / s := by
  simp only [eval_def, Aff.divr, sumTerms_map_divr]; ring

/-- no hypothesis on the waste percentage: in a field `(c·1)/d·x = (c·x)/d` also for `d = 0` -/
theorem eval_gross (a : Aff K) (w : K) : Aff.eval x (gross a w) = grossUp (Aff.eval x a) w := by
  simp only [gross, grossUp, eval_divr, eval_mulr, mul_one]

theorem eval_varIf (b : Bool) (v : Var) :
    Aff.eval x (Aff.varIf b v : Aff K) = if b then x v else 0 := by
  cases b
  · simp only [Aff.varIf, Bool.false_eq_true, if_false, eval_k]
  · simp only [Aff.varIf, if_true, eval_var]

theorem grossUp_zero (w : K) : grossUp (0 : K) w = 0 := by simp only [grossUp, zero_div]

/-- `grossUp v w = v / (1 − w/100)` with the literal turned into a numeral -/
theorem grossUp_eq (v w : K) : grossUp v w = v / (1 - w / 100) := by
  simp only [grossUp, sci_100]

end Eval

/-! ### rows -/

section Holds
variable (x : Var → K)

theorem holds_le (n : String) (l r : Aff K) :
    Row.holds x ⟨n, l, .le, r⟩ ↔ Aff.eval x l ≤ Aff.eval x r := Iff.rfl
theorem holds_eq (n : String) (l r : Aff K) :
    Row.holds x ⟨n, l, .eq, r⟩ ↔ Aff.eval x l = Aff.eval x r := Iff.rfl
theorem holds_ge (n : String) (l r : Aff K) :
    Row.holds x ⟨n, l, .ge, r⟩ ↔ Aff.eval x r ≤ Aff.eval x l := Iff.rfl
theorem holds_row_le (nm : String) (m : Nat) (l r : Aff K) :
    (row nm m l .le r).holds x ↔ Aff.eval x l ≤ Aff.eval x r := Iff.rfl
theorem holds_row_eq (nm : String) (m : Nat) (l r : Aff K) :
    (row nm m l .eq r).holds x ↔ Aff.eval x l = Aff.eval x r := Iff.rfl
theorem holds_row_ge (nm : String) (m : Nat) (l r : Aff K) :
    (row nm m l .ge r).holds x ↔ Aff.eval x r ≤ Aff.eval x l := Iff.rfl

end Holds

/-- turn `∀ r ∈ <explicit list of rows>, r.holds x` into the conjunction of what the rows say -/
syntax "lp_rows" (Lean.Parser.Tactic.location)? : tactic
macro_rules
  | `(tactic| lp_rows $[$loc]?) => `(tactic|
      simp only [List.forall_mem_append, List.forall_mem_cons, List.forall_mem_singleton,
        List.not_mem_nil, false_imp_iff, implies_true, and_true, true_and,
        holds_row_le, holds_row_eq, holds_row_ge, holds_le, holds_eq, holds_ge,
        eval_mv, eval_var, eval_k, eval_add, eval_sub, eval_neg, eval_smul, eval_mulr,
        eval_divr, eval_gross, eval_varIf] $[$loc]?)

theorem extra_rows_preserve (rows extra : List (Row K)) (x : Var → K)
    (h : Feasible (rows ++ extra) x) : Feasible rows x :=
  ⟨fun r hr => h.1 r (List.mem_append_left _ hr), h.2⟩

/-- feasibility for a programme with extra rows = feasibility + the extra rows hold -/
theorem feasible_append_iff (rows extra : List (Row K)) (x : Var → K) :
    Feasible (rows ++ extra) x ↔ Feasible rows x ∧ ∀ r ∈ extra, r.holds x := by
  unfold Feasible
  rw [List.forall_mem_append]
  tauto

theorem rowExcess_iff (x : Var → K) (r : Row K) :
    r.holds x ↔ ∀ e ∈ rowExcess x r, e.value ≤ 0 := by
  obtain ⟨n, l, rel, rh⟩ := r
  cases rel
  · simp only [holds_le, rowExcess, List.forall_mem_singleton, sub_nonpos]
  · simp only [holds_eq, rowExcess, List.forall_mem_cons, List.not_mem_nil, false_imp_iff,
      implies_true, and_true, sub_nonpos]
    exact ⟨fun h => ⟨h.le, h.ge⟩, fun h => le_antisymm h.1 h.2⟩
  · simp only [holds_ge, rowExcess, List.forall_mem_singleton, sub_nonpos]

/-! ## 2. where the rows of `buildLP` live -/

section Mem
variable {i : Inp K} {kind : Kind} {r : Row K} {m : Nat}

theorem mem_resourceRows {on : Bool} {f pin : Nat → List (Row K)} (hon : on = true)
    (hm : m < i.nmonths) (hr : r ∈ f m) : r ∈ resourceRows i kind on f pin := by
  unfold resourceRows
  rw [if_pos hon]
  exact List.mem_flatMap.mpr ⟨m, List.mem_range.mpr hm, List.mem_append_left _ hr⟩

theorem mem_resourceRows_pin {on : Bool} {f pin : Nat → List (Row K)} (hon : on = true)
    (hk : kind = .toAnimals) (hm : m < i.nmonths) (hr : r ∈ pin m) :
    r ∈ resourceRows i kind on f pin := by
  unfold resourceRows
  rw [if_pos hon]
  exact List.mem_flatMap.mpr ⟨m, List.mem_range.mpr hm,
    List.mem_append_right _ (by rw [if_pos hk]; exact hr)⟩

theorem mem_buildLP_seaweed (hon : i.addSeaweed = true) (hm : m < i.nmonths)
    (hr : r ∈ seaweedRows i m) : r ∈ buildLP i kind := by
  unfold buildLP buildLPWith; simp only [List.mem_append]
  left; left; left; left; left; left; left; exact mem_resourceRows hon hm hr

theorem mem_buildLP_crops (hon : i.addOutdoor = true) (hm : m < i.nmonths)
    (hr : r ∈ cropRows i kind m) : r ∈ buildLP i kind := by
  unfold buildLP buildLPWith; simp only [List.mem_append]
  left; left; left; left; left; left; right; exact mem_resourceRows hon hm hr

theorem mem_buildLP_stored (hon : i.addStored = true) (hm : m < i.nmonths)
    (hr : r ∈ storedRows i kind m) : r ∈ buildLP i kind := by
  unfold buildLP buildLPWith; simp only [List.mem_append]
  left; left; left; left; left; right; exact mem_resourceRows hon hm hr

theorem mem_buildLP_meat (hon : i.addMeat = true) (hm : m < i.nmonths)
    (hr : r ∈ meatRows i m) : r ∈ buildLP i kind := by
  unfold buildLP buildLPWith; simp only [List.mem_append]
  left; left; left; left; right; exact mem_resourceRows hon hm hr

theorem mem_buildLP_scp (hon : i.addScp = true) (hm : m < i.nmonths)
    (hr : r ∈ scpRows i m) : r ∈ buildLP i kind := by
  unfold buildLP buildLPWith; simp only [List.mem_append]
  left; left; left; right; exact mem_resourceRows hon hm hr

theorem mem_buildLP_cs (hon : i.addCs = true) (hm : m < i.nmonths)
    (hr : r ∈ csRows i m) : r ∈ buildLP i kind := by
  unfold buildLP buildLPWith; simp only [List.mem_append]
  left; left; right; exact mem_resourceRows hon hm hr

theorem mem_buildLP_general (hm : m < i.nmonths) (hr : r ∈ generalRows i kind m) :
    r ∈ buildLP i kind := by
  unfold buildLP buildLPWith; simp only [List.mem_append]
  left; right; exact List.mem_flatMap.mpr ⟨m, List.mem_range.mpr hm, hr⟩

theorem mem_buildLP_objective (hr : r ∈ objectiveRows i kind) : r ∈ buildLP i kind := by
  unfold buildLP buildLPWith; simp only [List.mem_append]
  right; exact hr

/-- the pinned-consumption rows of the feed-maximising round (one lemma for the six resources:
    `r ∈ pinnedRows …` for the resource's name/expression/minimum) -/
theorem mem_buildLP_pinned_stored (hon : i.addStored = true) (hm : m < i.nmonths)
    (hr : r ∈ pinnedRows i "Stored_food" (mv .sfHumans m) (at' i.minStored m) m) :
    r ∈ buildLP i .toAnimals := by
  unfold buildLP buildLPWith; simp only [List.mem_append]
  left; left; left; left; left; right; exact mem_resourceRows_pin hon rfl hm hr

theorem mem_buildLP_pinned_crops (hon : i.addOutdoor = true) (hm : m < i.nmonths)
    (hr : r ∈ pinnedRows i "Outdoor_crops" (mv .cropHumans m) (at' i.minCrops m) m) :
    r ∈ buildLP i .toAnimals := by
  unfold buildLP buildLPWith; simp only [List.mem_append]
  left; left; left; left; left; left; right; exact mem_resourceRows_pin hon rfl hm hr

theorem mem_buildLP_pinned_meat (hon : i.addMeat = true) (hm : m < i.nmonths)
    (hr : r ∈ pinnedRows i "Meat" (mv .meatEaten m) (at' i.minMeat m) m) :
    r ∈ buildLP i .toAnimals := by
  unfold buildLP buildLPWith; simp only [List.mem_append]
  left; left; left; left; right; exact mem_resourceRows_pin hon rfl hm hr

end Mem

/-- close `r ∈ <explicit list built with ++ and ::>` when `r` is syntactically one of the elements -/
syntax "lp_mem" : tactic
macro_rules
  | `(tactic| lp_mem) => `(tactic|
      (simp only [List.mem_append, List.mem_cons, List.mem_singleton, true_or, or_true]; done))

/-! ## `cum` -/

section Cum

theorem cum_zero (f : ℕ → K) : cum f 0 = f 0 := rfl
theorem cum_succ (f : ℕ → K) (m : ℕ) : cum f (m + 1) = cum f m + f (m + 1) := rfl

theorem cum_congr (f g : ℕ → K) (m : ℕ) (h : ∀ k, k ≤ m → f k = g k) : cum f m = cum g m := by
  induction m with
  | zero => exact h 0 le_rfl
  | succ m ih =>
    rw [cum_succ, cum_succ, ih (fun k hk => h k (by omega)), h (m + 1) le_rfl]

theorem cum_le_cum (f g : ℕ → K) (m : ℕ) (h : ∀ k, k ≤ m → f k ≤ g k) : cum f m ≤ cum g m := by
  induction m with
  | zero => exact h 0 le_rfl
  | succ m ih =>
    rw [cum_succ, cum_succ]
    exact add_le_add (ih (fun k hk => h k (by omega))) (h (m + 1) le_rfl)

theorem cum_nonneg (f : ℕ → K) (m : ℕ) (h : ∀ k, k ≤ m → 0 ≤ f k) : 0 ≤ cum f m := by
  induction m with
  | zero => exact h 0 le_rfl
  | succ m ih =>
    rw [cum_succ]
    exact add_nonneg (ih (fun k hk => h k (by omega))) (h (m + 1) le_rfl)

/-- a running total is monotone when the summands are non-negative -/
theorem cum_mono (f : ℕ → K) (n m : ℕ) (hnm : n ≤ m) (h : ∀ k, n < k → k ≤ m → 0 ≤ f k) :
    cum f n ≤ cum f m := by
  induction m with
  | zero => obtain rfl : n = 0 := by omega
            exact le_rfl
  | succ m ih =>
    rcases Nat.lt_or_ge n (m + 1) with hlt | hge
    · rw [cum_succ]
      have h1 := ih (by omega) (fun k hk hk' => h k hk (by omega))
      have h2 := h (m + 1) hlt le_rfl
      linarith
    · obtain rfl : n = m + 1 := by omega
      exact le_rfl

/-- a running total stays constant while the summands are zero -/
theorem cum_eq_of_zero (f : ℕ → K) (n m : ℕ) (hnm : n ≤ m) (h : ∀ k, n < k → k ≤ m → f k = 0) :
    cum f m = cum f n := by
  induction m with
  | zero => obtain rfl : n = 0 := by omega
            rfl
  | succ m ih =>
    rcases Nat.lt_or_ge n (m + 1) with hlt | hge
    · rw [cum_succ, ih (by omega) (fun k hk hk' => h k hk (by omega)), h (m + 1) hlt le_rfl,
        add_zero]
    · obtain rfl : n = m + 1 := by omega
      rfl

/-- a stock ledger `start₀ = S0`, `startₘ = endₘ₋₁`, `endₘ = startₘ − useₘ` telescopes -/
theorem ledger_telescope (S E U : ℕ → K) (S0 : K) (n : ℕ) (h0 : S 0 = S0)
    (hs : ∀ m, m ≠ 0 → m ≤ n → S m = E (m - 1)) (he : ∀ m, m ≤ n → E m = S m - U m) :
    ∀ m, m ≤ n → E m = S0 - cum U m := by
  intro m
  induction m with
  | zero => intro _; rw [he 0 (Nat.zero_le _), h0, cum_zero]
  | succ m ih =>
    intro hm
    rw [he _ hm, hs (m + 1) (by omega) hm, Nat.add_sub_cancel, ih (by omega), cum_succ]
    ring

/-- a stock ledger with inflow: `st₀ = P₀ − C₀`, `stₘ = Pₘ + stₘ₋₁ − Cₘ` -/
theorem inflow_telescope (St P C : ℕ → K) (n : ℕ) (h0 : St 0 = P 0 - C 0)
    (hs : ∀ m, m ≠ 0 → m ≤ n → St m = P m + St (m - 1) - C m) :
    ∀ m, m ≤ n → St m = cum P m - cum C m := by
  intro m
  induction m with
  | zero => intro _; rw [h0, cum_zero, cum_zero]
  | succ m ih =>
    intro hm
    rw [hs (m + 1) (by omega) hm, Nat.add_sub_cancel, ih (by omega), cum_succ, cum_succ]
    ring

end Cum

/-! ## 3. what the rows say about a feasible point -/

section Extract
variable {i : Inp K} {kind : Kind} {x : Var → K} {m : Nat}

/-! ### stored food -/

theorem storedEaten_holds :
    (storedEaten i m).holds x ↔ x (.mv .sfEnd m) = x (.mv .sfStart m) - storedUse i x m := by
  unfold storedEaten storedUse
  simp only [holds_row_eq, eval_mv, eval_sub, eval_gross]
  constructor <;> intro h <;> rw [h] <;> ring

theorem holds_of_mem_stored (h : Feasible (buildLP i kind) x) (hon : i.addStored = true)
    (hm : m < i.nmonths) {r : Row K} (hr : r ∈ storedRows i kind m) : r.holds x :=
  h.1 r (mem_buildLP_stored hon hm hr)

/-- `Stored_Food_Start_0`: the stock of month 0 is the initial stock (both storage regimes) -/
theorem stored_start_zero (h : Feasible (buildLP i kind) x) (hon : i.addStored = true)
    (hN : 0 < i.nmonths) : x (.mv .sfStart 0) = i.storedInitial := by
  have hr : row "Stored_Food_Start" 0 (mv .sfStart 0) .eq (Aff.k i.storedInitial)
      ∈ storedRows i kind 0 := by
    unfold storedRows storedRowsFirstYear
    simp only [↓reduceIte]
    split_ifs <;> lp_mem
  have H := holds_of_mem_stored h hon hN hr
  simpa only [holds_row_eq, eval_mv, eval_k] using H

/-- `Stored_Food_Start_m`: later months start with what the month before left (both regimes) -/
theorem stored_start_succ (h : Feasible (buildLP i kind) x) (hon : i.addStored = true)
    (hm : m < i.nmonths) (hm0 : m ≠ 0) : x (.mv .sfStart m) = x (.mv .sfEnd (m - 1)) := by
  have hr : row "Stored_Food_Start" m (mv .sfStart m) .eq (mv .sfEnd (m - 1))
      ∈ storedRows i kind m := by
    unfold storedRows storedRowsFirstYear
    simp only [hm0, if_false]
    split_ifs <;> lp_mem
  have H := holds_of_mem_stored h hon hm hr
  simpa only [holds_row_eq, eval_mv] using H

/-- `Stored_Food_Eaten_m` exists with storage between years, and in the first 13 months without -/
theorem stored_eaten (h : Feasible (buildLP i kind) x) (hon : i.addStored = true)
    (hm : m < i.nmonths) (hreg : i.storeBetweenYears = true ∨ m ≤ 12) :
    x (.mv .sfEnd m) = x (.mv .sfStart m) - storedUse i x m := by
  have hr : storedEaten i m ∈ storedRows i kind m := by
    unfold storedRows storedRowsFirstYear
    rcases hreg with hs | h12
    · simp only [hs, Bool.not_true, Bool.false_eq_true, if_false]
      lp_mem
    · have : ¬ 12 < m := by omega
      simp only [this, if_false]
      split_ifs <;> first | lp_mem | (subst_vars; lp_mem)
  exact storedEaten_holds.mp (holds_of_mem_stored h hon hm hr)

/-- without storage between years the stored-food variables of the months after month 12 are 0 -/
theorem stored_vars_zero (h : Feasible (buildLP i kind) x) (hon : i.addStored = true)
    (hs : i.storeBetweenYears = false) (hm : m < i.nmonths) (h12 : 12 < m) :
    x (.mv .sfHumans m) = 0 ∧ x (.mv .sfFeed m) = 0 ∧ x (.mv .sfBiofuel m) = 0 := by
  have hm0 : m ≠ 0 := by omega
  have H : ∀ r ∈ storedRows i kind m, r.holds x := fun r hr => holds_of_mem_stored h hon hm hr
  unfold storedRows storedRowsFirstYear at H
  simp only [hs, Bool.not_false, if_true, hm0, if_false, h12] at H
  lp_rows at H
  exact ⟨H.1, H.2.1, H.2.2.1⟩

/-- without storage between years nothing is drawn from stored food after month 12 -/
theorem stored_use_zero (h : Feasible (buildLP i kind) x) (hon : i.addStored = true)
    (hs : i.storeBetweenYears = false) (hm : m < i.nmonths) (h12 : 12 < m) :
    storedUse i x m = 0 := by
  obtain ⟨h1, h2, h3⟩ := stored_vars_zero h hon hs hm h12
  unfold storedUse
  rw [h1, h2, h3, grossUp_zero]; ring

/-- `Stored_Food_End` of the last month (human-maximising rounds, storage between years) -/
theorem stored_end_zero (h : Feasible (buildLP i .toHumans) x) (hon : i.addStored = true)
    (hs : i.storeBetweenYears = true) (hN : 2 ≤ i.nmonths) :
    x (.mv .sfEnd (i.nmonths - 1)) = 0 := by
  have hm0 : i.nmonths - 1 ≠ 0 := by omega
  have hr : row "Stored_Food_End" (i.nmonths - 1) (mv .sfEnd (i.nmonths - 1)) .eq (Aff.k 0)
      ∈ storedRows i .toHumans (i.nmonths - 1) := by
    unfold storedRows
    simp only [hs, Bool.not_true, Bool.false_eq_true, if_false, hm0, if_true, reduceCtorEq]
    lp_mem
  have H := holds_of_mem_stored h hon (by omega) hr
  simpa only [holds_row_eq, eval_mv, eval_k] using H

/-! ### outdoor crops -/

theorem holds_of_mem_crops (h : Feasible (buildLP i kind) x) (hon : i.addOutdoor = true)
    (hm : m < i.nmonths) {r : Row K} (hr : r ∈ cropRows i kind m) : r.holds x :=
  h.1 r (mem_buildLP_crops hon hm hr)

/-- `Crops_Food_Consumed_m` -/
theorem crop_consumed (h : Feasible (buildLP i kind) x) (hon : i.addOutdoor = true)
    (hm : m < i.nmonths) : x (.mv .cropConsumed m) = cropUse i x m := by
  have hr : row "Crops_Food_Consumed" m (mv .cropConsumed m) .eq
      (gross (mv .cropHumans m) i.wCrop + mv .cropBiofuel m + mv .cropFeed m)
      ∈ cropRows i kind m := by
    unfold cropRows
    lp_mem
  have H := holds_of_mem_crops h hon hm hr
  simp only [holds_row_eq, eval_mv, eval_add, eval_gross] at H
  rw [H]; unfold cropUse; ring

/-- `Crops_Food_Storage_0` -/
theorem crop_storage_zero (h : Feasible (buildLP i kind) x) (hon : i.addOutdoor = true)
    (hN : 0 < i.nmonths) :
    x (.mv .cropStorage 0) = at' i.cropProd 0 - x (.mv .cropConsumed 0) := by
  have hr : row "Crops_Food_Storage" 0 (mv .cropStorage 0) .eq
      (Aff.k (at' i.cropProd 0) - mv .cropConsumed 0) ∈ cropRows i kind 0 := by
    unfold cropRows
    simp only [↓reduceIte]
    lp_mem
  have H := holds_of_mem_crops h hon hN hr
  simpa only [holds_row_eq, eval_mv, eval_sub, eval_k] using H

/-- `Crops_Food_Storage_m`, `m ≥ 1` -/
theorem crop_storage_succ (h : Feasible (buildLP i kind) x) (hon : i.addOutdoor = true)
    (hm : m < i.nmonths) (hm0 : m ≠ 0) :
    x (.mv .cropStorage m) =
      at' i.cropProd m + x (.mv .cropStorage (m - 1)) - x (.mv .cropConsumed m) := by
  have hr : row "Crops_Food_Storage" m (mv .cropStorage m) .eq
      (Aff.k (at' i.cropProd m) + mv .cropStorage (m - 1) - mv .cropConsumed m)
      ∈ cropRows i kind m := by
    unfold cropRows
    simp only [hm0, if_false]
    split_ifs <;> lp_mem
  have H := holds_of_mem_crops h hon hm hr
  simpa only [holds_row_eq, eval_mv, eval_sub, eval_add, eval_k] using H

/-- `Crops_Food_None_Left` of the last month (human-maximising rounds) -/
theorem crop_none_left (h : Feasible (buildLP i .toHumans) x) (hon : i.addOutdoor = true)
    (hN : 2 ≤ i.nmonths) : x (.mv .cropStorage (i.nmonths - 1)) = 0 := by
  have hm0 : i.nmonths - 1 ≠ 0 := by omega
  have hr : row "Crops_Food_None_Left" (i.nmonths - 1) (mv .cropStorage (i.nmonths - 1)) .eq
      (Aff.k 0) ∈ cropRows i .toHumans (i.nmonths - 1) := by
    unfold cropRows
    simp only [hm0, if_false, if_true, reduceCtorEq]
    lp_mem
  have H := holds_of_mem_crops h hon (by omega) hr
  simpa only [holds_row_eq, eval_mv, eval_k] using H

/-! ### meat -/

theorem holds_of_mem_meat (h : Feasible (buildLP i kind) x) (hon : i.addMeat = true)
    (hm : m < i.nmonths) {r : Row K} (hr : r ∈ meatRows i m) : r.holds x :=
  h.1 r (mem_buildLP_meat hon hm hr)

/-- `Meat_Eaten_m` without storage between years: this month's slaughter bounds this month's meat -/
theorem meat_monthly (h : Feasible (buildLP i kind) x) (hon : i.addMeat = true)
    (hs : i.storeBetweenYears = false) (hm : m < i.nmonths) :
    meatUse i x m ≤ at' i.slaughtered m := by
  have hr : row "Meat_Eaten" m (gross (mv .meatEaten m) i.wMeat) .le (Aff.k (at' i.slaughtered m))
      ∈ meatRows i m := by
    unfold meatRows
    simp only [hs, Bool.not_false, if_true]
    lp_mem
  have H := holds_of_mem_meat h hon hm hr
  simpa only [holds_row_le, eval_mv, eval_gross, eval_k, meatUse] using H

/-- `Meat_Start_0` -/
theorem meat_start_zero (h : Feasible (buildLP i kind) x) (hon : i.addMeat = true)
    (hs : i.storeBetweenYears = true) (hN : 0 < i.nmonths) :
    x (.mv .meatStart 0) = i.meatSummed := by
  have hr : row "Meat_Start" 0 (mv .meatStart 0) .eq (Aff.k i.meatSummed) ∈ meatRows i 0 := by
    unfold meatRows
    simp only [hs, Bool.not_true, Bool.false_eq_true, ↓reduceIte]
    lp_mem
  have H := holds_of_mem_meat h hon hN hr
  simpa only [holds_row_eq, eval_mv, eval_k] using H

/-- `Meat_Start_m`, `m ≥ 1` -/
theorem meat_start_succ (h : Feasible (buildLP i kind) x) (hon : i.addMeat = true)
    (hs : i.storeBetweenYears = true) (hm : m < i.nmonths) (hm0 : m ≠ 0) :
    x (.mv .meatStart m) = x (.mv .meatEnd (m - 1)) := by
  have hr : row "Meat_Start" m (mv .meatStart m) .eq (mv .meatEnd (m - 1)) ∈ meatRows i m := by
    unfold meatRows
    simp only [hs, Bool.not_true, Bool.false_eq_true, if_false, hm0]
    lp_mem
  have H := holds_of_mem_meat h hon hm hr
  simpa only [holds_row_eq, eval_mv] using H

/-- `Meat_Eaten_m` with storage between years -/
theorem meat_eaten (h : Feasible (buildLP i kind) x) (hon : i.addMeat = true)
    (hs : i.storeBetweenYears = true) (hm : m < i.nmonths) :
    x (.mv .meatEnd m) = x (.mv .meatStart m) - meatUse i x m := by
  have hr : row "Meat_Eaten" m (mv .meatEnd m) .eq (mv .meatStart m - gross (mv .meatEaten m) i.wMeat)
      ∈ meatRows i m := by
    unfold meatRows
    simp only [hs, Bool.not_true, Bool.false_eq_true, if_false]
    lp_mem
  have H := holds_of_mem_meat h hon hm hr
  simpa only [holds_row_eq, eval_mv, eval_sub, eval_gross, meatUse] using H

/-- `Meat_Eaten_Maximum_m` (after the repair of D10): what has left the meat store by the end of
    month `m` is at most the running slaughter total -/
theorem meat_cap_row (h : Feasible (buildLP i kind) x) (hon : i.addMeat = true)
    (hs : i.storeBetweenYears = true) (hm : m < i.nmonths) :
    i.meatSummed - x (.mv .meatEnd m) ≤ at' i.maxCulled m := by
  have hr : row "Meat_Eaten_Maximum" m (Aff.k i.meatSummed - mv .meatEnd m) .le
      (Aff.k (at' i.maxCulled m)) ∈ meatRows i m := by
    unfold meatRows
    simp only [hs, Bool.not_true, Bool.false_eq_true, if_false]
    lp_mem
  have H := holds_of_mem_meat h hon hm hr
  simpa only [holds_row_le, eval_mv, eval_sub, eval_k] using H

/-! ### single-cell protein, cellulosic sugar -/

/-- `Methane_SCP_m` -/
theorem scp_cap (h : Feasible (buildLP i kind) x) (hon : i.addScp = true) (hm : m < i.nmonths) :
    scpUse i x m ≤ at' i.scp m := by
  have H := h.1 _ (mem_buildLP_scp (kind := kind) hon hm (List.mem_singleton_self _))
  simpa only [holds_row_le, eval_mv, eval_add, eval_gross, eval_k, scpUse] using H

/-- `Cellulosic_Sugar_m` -/
theorem cs_cap (h : Feasible (buildLP i kind) x) (hon : i.addCs = true) (hm : m < i.nmonths) :
    csUse i x m ≤ at' i.cs m := by
  have H := h.1 _ (mem_buildLP_cs (kind := kind) hon hm (List.mem_singleton_self _))
  simpa only [holds_row_le, eval_mv, eval_add, eval_gross, eval_k, csUse] using H

/-! ### seaweed -/

theorem seaweed_rows_hold (h : Feasible (buildLP i kind) x) (hon : i.addSeaweed = true)
    (hm : m < i.nmonths) : ∀ r ∈ seaweedRows i m, r.holds x :=
  fun r hr => h.1 r (mem_buildLP_seaweed hon hm hr)

/-- the four bound rows `Seaweed_Wet_On_Farm_{Lower,Upper}bound`, `Used_Area_{Lower,Upper}bound` -/
theorem seaweed_bounds (h : Feasible (buildLP i kind) x) (hon : i.addSeaweed = true)
    (hm : m < i.nmonths) :
    i.initialSeaweed ≤ x (.mv .swWet m) ∧ x (.mv .swWet m) ≤ i.maxDensity * at' i.builtArea m ∧
    i.initialBuiltArea ≤ x (.mv .usedArea m) ∧ x (.mv .usedArea m) ≤ at' i.builtArea m := by
  have H := seaweed_rows_hold h hon hm
  unfold seaweedRows at H
  simp only [List.forall_mem_append] at H
  have H1 := H.1
  lp_rows at H1
  exact H1

/-- the month-0 rows: initial stock and area, nothing harvested -/
theorem seaweed_month_zero (h : Feasible (buildLP i kind) x) (hon : i.addSeaweed = true)
    (hN : 0 < i.nmonths) :
    x (.mv .swWet 0) = i.initialSeaweed ∧ x (.mv .usedArea 0) = i.initialBuiltArea ∧
    x (.mv .swHumans 0) = 0 ∧ x (.mv .swFeed 0) = 0 ∧ x (.mv .swBiofuel 0) = 0 := by
  have H := seaweed_rows_hold h hon hN
  unfold seaweedRows at H
  simp only [List.forall_mem_append, ↓reduceIte] at H
  have H2 := H.2
  lp_rows at H2
  exact H2

/-- `Seaweed_Wet_On_Farm_m`, `m ≥ 1`: growth, harvest for people/feed/biofuel, loss when the area expands -/
theorem seaweed_ledger (h : Feasible (buildLP i kind) x) (hon : i.addSeaweed = true)
    (hm : m < i.nmonths) (hm0 : m ≠ 0) : x (.mv .swWet m) = seaweedLedger i x m := by
  have H := seaweed_rows_hold h hon hm
  unfold seaweedRows at H
  simp only [List.forall_mem_append, hm0, if_false] at H
  have H2 := H.2
  lp_rows at H2
  exact H2

/-! ### feed, biofuel, people -/

theorem eval_feedSum (i : Inp K) (x : Var → K) (m : Nat) :
    Aff.eval x (feedSum i m) = feedTotal i x m := by
  simp only [feedSum, feedTotal, X, eval_add, eval_mulr, eval_varIf]

theorem eval_biofuelSum (i : Inp K) (x : Var → K) (m : Nat) :
    Aff.eval x (biofuelSum i m) = biofuelTotal i x m := by
  simp only [biofuelSum, biofuelTotal, X, eval_add, eval_mulr, eval_varIf]

/-- kcals reaching people in month `m` (billion kcals), as the LP adds them up -/
theorem eval_humanSum (i : Inp K) (x : Var → K) (m : Nat) :
    Aff.eval x (humanSum i m) =
      X x i.addStored .sfHumans m + X x i.addOutdoor .cropHumans m
        + X x i.addSeaweed .swHumans m * i.seaweedKcals + at' i.milk m + X x i.addMeat .meatEaten m
        + X x i.addCs .csHumans m + X x i.addScp .scpHumans m + at' i.greenhouse m + at' i.fish m := by
  simp only [humanSum, X, eval_add, eval_mulr, eval_varIf, eval_k]

theorem mem_general_feedBiofuel {r : Row K} (hr : r ∈ feedBiofuelRows i kind m) :
    r ∈ generalRows i kind m := by
  unfold generalRows; simp only [List.mem_append]
  left; left; left; left; exact hr

theorem feedBiofuel_hold (h : Feasible (buildLP i kind) x) (hm : m < i.nmonths) :
    ∀ r ∈ feedBiofuelRows i kind m, r.holds x :=
  fun r hr => h.1 r (mem_buildLP_general hm (mem_general_feedBiofuel hr))

/-- `Feed_Used_m`, `Biofuel_Used_m` of the human-maximising rounds: exactly the charge -/
theorem feed_biofuel_eq_charge (h : Feasible (buildLP i .toHumans) x)
    (hany : anyFeedVar i = true) (hm : m < i.nmonths) :
    feedTotal i x m = at' i.feed m ∧ biofuelTotal i x m = at' i.biofuel m := by
  have H := feedBiofuel_hold h hm
  unfold feedBiofuelRows at H
  simp only [hany, Bool.not_true, Bool.false_eq_true, if_false] at H
  lp_rows at H
  rw [← eval_feedSum, ← eval_biofuelSum]
  exact H

/-- `Feed_Used_m`, `Biofuel_Used_m` of the feed-maximising round: within the ceilings -/
theorem feed_biofuel_le_ceiling (h : Feasible (buildLP i .toAnimals) x)
    (hany : anyFeedVar i = true) (hm : m < i.nmonths) :
    feedTotal i x m ≤ at' i.maxFeed m ∧ biofuelTotal i x m ≤ at' i.maxBiofuel m := by
  have H := feedBiofuel_hold h hm
  unfold feedBiofuelRows at H
  simp only [hany, Bool.not_true, Bool.false_eq_true, if_false, List.forall_mem_append] at H
  have H1 := H.1
  lp_rows at H1
  rw [← eval_feedSum, ← eval_biofuelSum]
  exact H1

/-- `Feed_Decreases_m`, `Biofuel_Decreases_m` (feed-maximising round, `m ≥ 1`) -/
theorem feed_biofuel_never_rise (h : Feasible (buildLP i .toAnimals) x)
    (hany : anyFeedVar i = true) (hm : m < i.nmonths) (hm0 : 0 < m) :
    feedTotal i x m ≤ feedTotal i x (m - 1) ∧ biofuelTotal i x m ≤ biofuelTotal i x (m - 1) := by
  have H := feedBiofuel_hold h hm
  unfold feedBiofuelRows at H
  simp only [hany, Bool.not_true, Bool.false_eq_true, if_false, List.forall_mem_append, hm0,
    if_true] at H
  have H2 := H.2
  simp only [List.forall_mem_cons, List.not_mem_nil, false_imp_iff, implies_true, and_true,
    holds_row_ge, eval_feedSum, eval_biofuelSum] at H2
  exact H2

/-- `Kcals_Fed_Month_m`: the percentage of the need that is met in month `m` -/
theorem kcals_fed (h : Feasible (buildLP i .toHumans) x) (hm : m < i.nmonths) :
    x (.mv .consumedKcals m) = Aff.eval x (humanSum i m) / i.billionKcalsNeeded * 100 := by
  have hr : kcalsFedRow i m ∈ generalRows i .toHumans m := by
    unfold generalRows
    simp only [if_true, List.mem_append, List.mem_singleton, true_or, or_true]
  have H := h.1 _ (mem_buildLP_general hm hr)
  unfold kcalsFedRow at H
  simpa only [holds_eq, eval_mv, eval_mulr, eval_divr, sci_100] using H

/-- the objective of a human-maximising round is at most every month's percentage fed -/
theorem objective_le_month (h : Feasible (buildLP i .toHumans) x) (hm : m < i.nmonths) :
    x .objective ≤ x (.mv .consumedKcals m) := by
  have H := h.1 _ (mem_buildLP_objective (kind := .toHumans)
    (List.mem_map.mpr ⟨m, List.mem_range.mpr hm, rfl⟩))
  simpa only [holds_le, eval_mv, eval_var] using H

/-- the objective of the feed-maximising round -/
theorem objective_le_nonhuman (h : Feasible (buildLP i .toAnimals) x) :
    x .objective ≤ Aff.eval x (nonhumanObjective i) := by
  have H := h.1 _ (mem_buildLP_objective (kind := .toAnimals) (List.mem_singleton_self _))
  simpa only [holds_le, eval_var] using H

end Extract

/-! ## 4. the ledgers, telescoped -/

section Ledgers
variable {i : Inp K} {kind : Kind} {x : Var → K} {m : Nat}

/-- stored food left at the end of month `m` = initial stock − everything drawn so far
    (all months with storage between years; months 0…12 without) -/
theorem stored_end_eq (h : Feasible (buildLP i kind) x) (hon : i.addStored = true)
    (hm : m < i.nmonths) (hreg : i.storeBetweenYears = true ∨ m ≤ 12) :
    x (.mv .sfEnd m) = i.storedInitial - cum (storedUse i x) m := by
  refine ledger_telescope (fun k => x (.mv .sfStart k)) (fun k => x (.mv .sfEnd k))
    (storedUse i x) i.storedInitial m (stored_start_zero h hon (by omega)) ?_ ?_ m le_rfl
  · intro k hk0 hk
    exact stored_start_succ h hon (by omega) hk0
  · intro k hk
    exact stored_eaten h hon (by omega) (hreg.imp_right (fun h12 => by omega))

/-- cumulative use of stored food never exceeds the initial stock (both storage regimes) -/
theorem stored_cumulative (h : Feasible (buildLP i kind) x) (hon : i.addStored = true)
    (hm : m < i.nmonths) : cum (storedUse i x) m ≤ i.storedInitial := by
  by_cases hreg : i.storeBetweenYears = true ∨ m ≤ 12
  · have h1 := stored_end_eq h hon hm hreg
    have h2 := h.2 (.mv .sfEnd m)
    linarith
  · have hs : i.storeBetweenYears = false := by
      cases hb : i.storeBetweenYears
      · rfl
      · exact absurd (Or.inl hb) hreg
    have h12 : 12 < m := by omega
    have hc : cum (storedUse i x) m = cum (storedUse i x) 12 :=
      cum_eq_of_zero _ 12 m h12.le (fun k hk hk' => stored_use_zero h hon hs (by omega) hk)
    have h1 := stored_end_eq (m := 12) h hon (by omega) (Or.inr le_rfl)
    have h2 := h.2 (.mv .sfEnd 12)
    linarith

/-- stored food is used up by the last month (human-maximising rounds, storage between years) -/
theorem stored_full_use (h : Feasible (buildLP i .toHumans) x) (hon : i.addStored = true)
    (hs : i.storeBetweenYears = true) (hN : 2 ≤ i.nmonths) :
    cum (storedUse i x) (i.nmonths - 1) = i.storedInitial := by
  have h1 := stored_end_eq (m := i.nmonths - 1) h hon (by omega) (Or.inl hs)
  have h2 := stored_end_zero h hon hs hN
  linarith

/-- crops in storage at the end of month `m` = harvested so far − used so far -/
theorem crop_storage_eq (h : Feasible (buildLP i kind) x) (hon : i.addOutdoor = true)
    (hm : m < i.nmonths) :
    x (.mv .cropStorage m) = cum (at' i.cropProd) m - cum (cropUse i x) m := by
  refine inflow_telescope (fun k => x (.mv .cropStorage k)) (at' i.cropProd) (cropUse i x) m
    ?_ ?_ m le_rfl
  · show x (.mv .cropStorage 0) = at' i.cropProd 0 - cropUse i x 0
    rw [crop_storage_zero h hon (by omega), crop_consumed h hon (by omega)]
  · intro k hk0 hk
    show x (.mv .cropStorage k) = at' i.cropProd k + x (.mv .cropStorage (k - 1)) - cropUse i x k
    rw [crop_storage_succ h hon (by omega) hk0, crop_consumed h hon (by omega)]

/-- cumulative use of crops never exceeds the harvest so far -/
theorem crop_cumulative (h : Feasible (buildLP i kind) x) (hon : i.addOutdoor = true)
    (hm : m < i.nmonths) : cum (cropUse i x) m ≤ cum (at' i.cropProd) m := by
  have h1 := crop_storage_eq h hon hm
  have h2 := h.2 (.mv .cropStorage m)
  linarith

/-- the harvest is used up by the last month (human-maximising rounds) -/
theorem crop_full_use (h : Feasible (buildLP i .toHumans) x) (hon : i.addOutdoor = true)
    (hN : 2 ≤ i.nmonths) :
    cum (cropUse i x) (i.nmonths - 1) = cum (at' i.cropProd) (i.nmonths - 1) := by
  have h1 := crop_storage_eq (m := i.nmonths - 1) h hon (by omega)
  have h2 := crop_none_left h hon hN
  linarith

/-- meat in store at the end of month `m` (storage between years) -/
theorem meat_end_eq (h : Feasible (buildLP i kind) x) (hon : i.addMeat = true)
    (hs : i.storeBetweenYears = true) (hm : m < i.nmonths) :
    x (.mv .meatEnd m) = i.meatSummed - cum (meatUse i x) m := by
  refine ledger_telescope (fun k => x (.mv .meatStart k)) (fun k => x (.mv .meatEnd k))
    (meatUse i x) i.meatSummed m (meat_start_zero h hon hs (by omega)) ?_ ?_ m le_rfl
  · intro k hk0 hk
    exact meat_start_succ h hon hs (by omega) hk0
  · intro k hk
    exact meat_eaten h hon hs (by omega)

/-- with storage: meat eaten so far never exceeds the slaughter of the whole horizon -/
theorem meat_total (h : Feasible (buildLP i kind) x) (hon : i.addMeat = true)
    (hs : i.storeBetweenYears = true) (hm : m < i.nmonths) :
    cum (meatUse i x) m ≤ i.meatSummed := by
  have h1 := meat_end_eq h hon hs hm
  have h2 := h.2 (.mv .meatEnd m)
  linarith

/-- with storage: meat eaten so far never exceeds the running slaughter total `maxCulled m` -/
theorem meat_cumulative_cap (h : Feasible (buildLP i kind) x) (hon : i.addMeat = true)
    (hs : i.storeBetweenYears = true) (hm : m < i.nmonths) :
    cum (meatUse i x) m ≤ at' i.maxCulled m := by
  have h1 := meat_end_eq h hon hs hm
  have h2 := meat_cap_row h hon hs hm
  linarith

/-- … so meat is never eaten before it is slaughtered, when `maxCulled` is the running total of
    the slaughter series -/
theorem meat_never_eaten_before_slaughter (i : Inp K) (kind : Kind) (x : Var → K)
    (h : Feasible (buildLP i kind) x) (hon : i.addMeat = true) (hs : i.storeBetweenYears = true)
    (hc : ∀ m, m < i.nmonths → at' i.maxCulled m = cum (at' i.slaughtered) m)
    (m : Nat) (hm : m < i.nmonths) : cum (meatUse i x) m ≤ cum (at' i.slaughtered) m := by
  rw [← hc m hm]; exact meat_cumulative_cap h hon hs hm

/-- grossed-up meat is non-negative for a waste percentage of at most 100 -/
theorem meatUse_nonneg' (hx : ∀ v, 0 ≤ x v) (hw : i.wMeat ≤ 100) (k : Nat) : 0 ≤ meatUse i x k := by
  unfold meatUse
  rw [grossUp_eq]
  refine div_nonneg (hx _) ?_
  have : i.wMeat / 100 ≤ 1 := by rw [div_le_one (by norm_num)]; exact hw
  linarith

/-- the former per-month cap follows from the cumulative one (earlier months eat ≥ 0) -/
theorem meat_cap (h : Feasible (buildLP i kind) x) (hon : i.addMeat = true)
    (hs : i.storeBetweenYears = true) (hw : i.wMeat ≤ 100) (hm : m < i.nmonths) :
    meatUse i x m ≤ at' i.maxCulled m := by
  refine le_trans ?_ (meat_cumulative_cap h hon hs hm)
  cases m with
  | zero => exact le_rfl
  | succ m =>
    rw [cum_succ]
    exact le_add_of_nonneg_left (cum_nonneg _ m (fun k _ => meatUse_nonneg' h.2 hw k))

theorem meat_cumulative_without_storage (i : Inp K) (kind : Kind) (x : Var → K)
    (h : Feasible (buildLP i kind) x) (hm : i.addMeat = true) (hs : i.storeBetweenYears = false)
    (m : Nat) (hlt : m < i.nmonths) :
    cum (meatUse i x) m ≤ cum (at' i.slaughtered) m :=
  cum_le_cum _ _ m (fun k hk => meat_monthly h hm hs (by omega))

end Ledgers

/-! ## 5. every feasible point is physically feasible -/

section Phys
variable {i : Inp K} {kind : Kind} {x : Var → K} {m : Nat}

theorem exEq_le (c : String) (m : Nat) {a b : K} (hab : a = b) :
    ∀ e ∈ exEq c m a b, e.value ≤ 0 := by
  intro e he
  unfold exEq at he
  simp only [List.mem_cons, List.not_mem_nil, or_false] at he
  rcases he with rfl | rfl
  · exact (sub_nonpos.mpr hab.le)
  · exact (sub_nonpos.mpr hab.ge)

theorem ex_le (c : String) (m : Nat) {a b : K} (hab : a ≤ b) : (ex c m (a - b)).value ≤ 0 :=
  sub_nonpos.mpr hab

theorem physMonth_le (i : Inp K) (kind : Kind) (x : Var → K) (h : Feasible (buildLP i kind) x)
    (m : Nat) (hm : m < i.nmonths) : ∀ e ∈ physMonth i kind x m, e.value ≤ 0 := by
  intro e he
  unfold physMonth at he
  simp only [List.mem_append] at he
  rcases he with ((((((he | he) | he) | he) | he) | he) | he) | he
  · -- no quantity is negative
    obtain ⟨k, _, rfl⟩ := List.mem_map.mp he
    exact neg_nonpos.mpr (h.2 _)
  · -- stored food
    split_ifs at he with hon
    · obtain rfl := List.mem_singleton.mp he
      exact ex_le _ _ (stored_cumulative h hon hm)
    · exact absurd he List.not_mem_nil
  · -- crops
    split_ifs at he with hon
    · obtain rfl := List.mem_singleton.mp he
      exact ex_le _ _ (crop_cumulative h hon hm)
    · exact absurd he List.not_mem_nil
  · -- meat
    split_ifs at he with hon hs
    · obtain rfl := List.mem_singleton.mp he
      have hs' : i.storeBetweenYears = false := by simpa using hs
      exact ex_le _ _ (meat_monthly h hon hs' hm)
    · have hs' : i.storeBetweenYears = true := by simpa using hs
      simp only [List.mem_cons, List.not_mem_nil, or_false] at he
      rcases he with rfl | rfl
      · exact ex_le _ _ (meat_total h hon hs' hm)
      · exact ex_le _ _ (meat_cumulative_cap h hon hs' hm)
    · exact absurd he List.not_mem_nil
  · -- SCP
    split_ifs at he with hon
    · obtain rfl := List.mem_singleton.mp he
      exact ex_le _ _ (scp_cap h hon hm)
    · exact absurd he List.not_mem_nil
  · -- sugar
    split_ifs at he with hon
    · obtain rfl := List.mem_singleton.mp he
      exact ex_le _ _ (cs_cap h hon hm)
    · exact absurd he List.not_mem_nil
  · -- seaweed
    split_ifs at he with hon hm0
    · obtain ⟨b1, b2, b3, b4⟩ := seaweed_bounds h hon hm
      rcases List.mem_append.mp he with he | he
      · simp only [List.mem_cons, List.not_mem_nil, or_false] at he
        rcases he with rfl | rfl | rfl | rfl
        · exact ex_le _ _ b1
        · exact ex_le _ _ b2
        · exact ex_le _ _ b3
        · exact ex_le _ _ b4
      · obtain ⟨z1, -, z3, z4, z5⟩ := seaweed_month_zero h hon (by omega)
        rcases List.mem_append.mp he with he1 | he1
        · exact exEq_le _ _ z1 e he1
        · obtain rfl := List.mem_singleton.mp he1
          show x (.mv .swHumans 0) + x (.mv .swFeed 0) + x (.mv .swBiofuel 0) ≤ 0
          rw [z3, z4, z5]; norm_num
    · obtain ⟨b1, b2, b3, b4⟩ := seaweed_bounds h hon hm
      rcases List.mem_append.mp he with he | he
      · simp only [List.mem_cons, List.not_mem_nil, or_false] at he
        rcases he with rfl | rfl | rfl | rfl
        · exact ex_le _ _ b1
        · exact ex_le _ _ b2
        · exact ex_le _ _ b3
        · exact ex_le _ _ b4
      · exact exEq_le _ _ (seaweed_ledger h hon hm hm0) e he
    · exact absurd he List.not_mem_nil
  · -- feed and biofuel
    by_cases hany : anyFeedVar i = true
    · rw [if_pos hany] at he
      cases kind with
      | toHumans =>
        obtain ⟨f1, f2⟩ := feed_biofuel_eq_charge h hany hm
        rcases List.mem_append.mp he with he | he
        · exact exEq_le _ _ f1 e he
        · exact exEq_le _ _ f2 e he
      | toAnimals =>
        obtain ⟨f1, f2⟩ := feed_biofuel_le_ceiling h hany hm
        rcases List.mem_append.mp he with he | he
        · simp only [List.mem_cons, List.not_mem_nil, or_false] at he
          rcases he with rfl | rfl
          · exact ex_le _ _ f1
          · exact ex_le _ _ f2
        · by_cases hm0 : 0 < m
          · rw [if_pos hm0] at he
            obtain rfl := List.mem_singleton.mp he
            exact ex_le _ _ (feed_biofuel_never_rise h hany hm hm0).1
          · rw [if_neg hm0] at he
            exact absurd he List.not_mem_nil
    · rw [if_neg hany] at he
      exact absurd he List.not_mem_nil

theorem physFinal_le (i : Inp K) (kind : Kind) (x : Var → K) (hN : 2 ≤ i.nmonths)
    (h : Feasible (buildLP i kind) x) : ∀ e ∈ physFinal i kind x, e.value ≤ 0 := by
  intro e he
  unfold physFinal at he
  cases kind with
  | toAnimals =>
    simp only [reduceCtorEq, if_false] at he
    exact absurd he List.not_mem_nil
  | toHumans =>
    simp only [if_true] at he
    rcases List.mem_append.mp he with he | he
    · split_ifs at he with hon
      · obtain rfl := List.mem_singleton.mp he
        exact ex_le _ _ (crop_full_use h hon hN).ge
      · exact absurd he List.not_mem_nil
    · split_ifs at he with hon
      · obtain rfl := List.mem_singleton.mp he
        simp only [Bool.and_eq_true] at hon
        exact ex_le _ _ (stored_full_use h hon.1 hon.2 hN).ge
      · exact absurd he List.not_mem_nil

theorem feasible_is_physical (i : Inp K) (kind : Kind) (x : Var → K) (hN : 2 ≤ i.nmonths)
    (h : Feasible (buildLP i kind) x) : ∀ e ∈ physCore i kind x, e.value ≤ 0 := by
  intro e he
  unfold physCore at he
  rcases List.mem_append.mp he with he | he
  · obtain ⟨m, hm, hem⟩ := List.mem_flatMap.mp he
    exact physMonth_le i kind x h m (List.mem_range.mp hm) e hem
  · exact physFinal_le i kind x hN h e he

end Phys

/-! ## 6. concrete instances over ℚ (known gaps D10, D14; non-vacuity)

The rows of a concrete instance are checked by evaluation (`decide +kernel` on a Boolean
version of `Row.holds`); the sign constraints by cases on the variable. -/

section Concrete

/-- Boolean `Row.holds` over ℚ -/
def holdsB (x : Var → ℚ) (r : Row ℚ) : Bool :=
  match r.rel with
  | .le => decide (Aff.eval x r.lhs ≤ Aff.eval x r.rhs)
  | .eq => decide (Aff.eval x r.lhs = Aff.eval x r.rhs)
  | .ge => decide (Aff.eval x r.rhs ≤ Aff.eval x r.lhs)

theorem holds_of_holdsB (x : Var → ℚ) (r : Row ℚ) (h : holdsB x r = true) : r.holds x := by
  unfold holdsB at h
  unfold Row.holds
  split at h <;> simp_all

theorem rows_hold_of_all (x : Var → ℚ) (rows : List (Row ℚ)) (h : rows.all (holdsB x) = true) :
    ∀ r ∈ rows, r.holds x :=
  fun r hr => holds_of_holdsB x r (List.all_eq_true.mp h r hr)

theorem getD_nonneg (l : List ℚ) (h : ∀ a ∈ l, 0 ≤ a) (m : Nat) : 0 ≤ l.getD m 0 := by
  by_cases hm : m < l.length
  · rw [List.getD_eq_getElem _ _ hm]; exact h _ (List.getElem_mem _)
  · rw [List.getD_eq_default _ _ (not_lt.mp hm)]

/-- an instance with nothing in it (need of 100 billion kcals a month, no waste) -/
def emptyInst : Inp ℚ :=
  { nmonths := 0, addSeaweed := false, addOutdoor := false, addStored := false, addMeat := false,
    addScp := false, addCs := false, storeBetweenYears := false, pop := 0, kcalsMonthly := 0,
    billionKcalsNeeded := 100, seaweedKcals := 0, initialSeaweed := 0, maxDensity := 0,
    minDensity := 0, harvestLoss := 0, initialBuiltArea := 0, wSeaweed := 0, wStored := 0,
    wMeat := 0, wCrop := 0, wScp := 0, wCs := 0, storedInitial := 0, meatSummed := 0,
    builtArea := [], growth := [], cropProd := [], maxCulled := [], slaughtered := [], scp := [],
    cs := [], milk := [], greenhouse := [], fish := [], feed := [], biofuel := [], maxFeed := [],
    maxBiofuel := [], limSwH := 0, limSwF := 0, limSwB := 0, limScpH := 0, limScpF := 0,
    limScpB := 0, limCsH := 0, limCsF := 0, limCsB := 0, minSeaweed := [], minCrops := [],
    minStored := [], minMeat := [], minScp := [], minCs := [] }

/-! ### D10 (repaired): meat eaten before it is slaughtered

The rows as they were before the repair of `add_meat_to_model` capped each month's meat by the
running slaughter total; the point below satisfied them while eating 3 by month 1 of 2
slaughtered.  Today's cumulative row rejects it. -/

theorem not_holds_of_holdsB (x : Var → ℚ) (r : Row ℚ) (h : holdsB x r = false) : ¬ r.holds x := by
  unfold holdsB at h
  unfold Row.holds
  split at h <;> simp_all

/-- the meat rows before the repair: per-month cap `Meat_Eaten_Maximum` -/
def meatRowsBefore (i : Inp ℚ) (m : Nat) : List (Row ℚ) :=
  if !i.storeBetweenYears then
    [ row "Meat_Eaten" m (gross (mv .meatEaten m) i.wMeat) .le (Aff.k (at' i.slaughtered m)) ]
  else
    [ (if m = 0 then row "Meat_Start" m (mv .meatStart 0) .eq (Aff.k i.meatSummed)
       else row "Meat_Start" m (mv .meatStart m) .eq (mv .meatEnd (m - 1))),
      row "Meat_Eaten" m (mv .meatEnd m) .eq (mv .meatStart m - gross (mv .meatEaten m) i.wMeat),
      row "Meat_Eaten_Maximum" m (gross (mv .meatEaten m) i.wMeat) .le (Aff.k (at' i.maxCulled m)) ]

/-- `buildLP` with the meat rows as they were before the repair (everything else identical) -/
def buildLPBefore (i : Inp ℚ) (kind : Kind) : List (Row ℚ) :=
  resourceRows i kind i.addSeaweed (seaweedRows i)
      (fun m => pinnedRowsLower i "Seaweed" (Aff.mulr (mv .swHumans m) i.seaweedKcals) (at' i.minSeaweed m) m) ++
  resourceRows i kind i.addOutdoor (cropRows i kind)
      (fun m => pinnedRows i "Outdoor_crops" (mv .cropHumans m) (at' i.minCrops m) m) ++
  resourceRows i kind i.addStored (storedRows i kind)
      (fun m => pinnedRows i "Stored_food" (mv .sfHumans m) (at' i.minStored m) m) ++
  resourceRows i kind i.addMeat (meatRowsBefore i)
      (fun m => pinnedRows i "Meat" (mv .meatEaten m) (at' i.minMeat m) m) ++
  resourceRows i kind i.addScp (scpRows i)
      (fun m => pinnedRows i "Methane_SCP" (mv .scpHumans m) (at' i.minScp m) m) ++
  resourceRows i kind i.addCs (csRows i)
      (fun m => pinnedRows i "Cellulosic_Sugar" (mv .csHumans m) (at' i.minCs m) m) ++
  (List.range i.nmonths).flatMap (generalRows i kind) ++
  objectiveRows i kind

/-- three months, meat only, storage between years: 1, 1, 8 slaughtered; the cap is the
    running total 1, 2, 10 -/
def meatInst : Inp ℚ :=
  { emptyInst with nmonths := 3, addMeat := true, storeBetweenYears := true, meatSummed := 10,
                   slaughtered := [1, 1, 8], maxCulled := [1, 2, 10] }

/-- eats 1, 2, 0: each month within the old per-month cap, but 3 eaten by month 1 of 2 slaughtered -/
def meatX : Var → ℚ
  | .mv .meatEaten m => [1, 2, 0].getD m 0
  | .mv .meatStart m => [10, 9, 7].getD m 0
  | .mv .meatEnd m => [9, 7, 7].getD m 0
  | .mv .consumedKcals m => [1, 2, 0].getD m 0
  | _ => 0

theorem meatX_rows_before : (buildLPBefore meatInst .toHumans).all (holdsB meatX) = true := by
  decide +kernel

theorem meatX_nonneg : ∀ v, 0 ≤ meatX v := by
  intro v
  cases v with
  | mv k m =>
    cases k <;> first
      | exact le_rfl
      | exact getD_nonneg _ (by decide +kernel) m
  | objective => exact le_rfl
  | objectiveBest => exact le_rfl

/-- before the repair: a feasible point of the LP (honest data: non-negative slaughter, `maxCulled`
    its running total, `meatSummed` its total) that eats meat before it is slaughtered; the repaired
    `Meat_Eaten_Maximum_1` of today's `meatRows` is what excludes it -/
theorem meat_gap_counterexample_before_fix :
    ∃ (i : Inp ℚ) (x : Var → ℚ), 2 ≤ i.nmonths ∧ Feasible (buildLPBefore i .toHumans) x ∧
      (∀ s ∈ i.slaughtered, 0 ≤ s) ∧
      (∀ m, m < i.nmonths → at' i.maxCulled m = cum (at' i.slaughtered) m) ∧
      i.meatSummed = cum (at' i.slaughtered) (i.nmonths - 1) ∧
      (∃ e ∈ meatVsSlaughter i x, 0 < e.value) ∧
      (∃ m, m < i.nmonths ∧ ∃ r ∈ meatRows i m, ¬ r.holds x) ∧
      ¬ Feasible (buildLP i .toHumans) x := by
  have hrow : ∃ m, m < meatInst.nmonths ∧ ∃ r ∈ meatRows meatInst m, ¬ r.holds meatX := by
    refine ⟨1, by decide, ?_⟩
    have h : (meatRows meatInst 1).any (fun r => !holdsB meatX r) = true := by decide +kernel
    obtain ⟨r, hr, hb⟩ := List.any_eq_true.mp h
    exact ⟨r, hr, not_holds_of_holdsB _ _ (by simpa using hb)⟩
  refine ⟨meatInst, meatX, by decide, ⟨rows_hold_of_all _ _ meatX_rows_before, meatX_nonneg⟩,
    by decide +kernel, by decide +kernel, by decide +kernel, ?_, hrow, ?_⟩
  · have h : (meatVsSlaughter meatInst meatX).any (fun e => decide (0 < e.value)) = true := by
      decide +kernel
    obtain ⟨e, he, hpos⟩ := List.any_eq_true.mp h
    exact ⟨e, he, of_decide_eq_true hpos⟩
  · intro hf
    obtain ⟨m, hm, r, hr, hn⟩ := hrow
    exact hn (hf.1 r (mem_buildLP_meat rfl hm hr))

/-! ### D14: stored food left uneaten where it cannot be carried over -/

/-- two months, stored food only, no storage between years, 10 in stock -/
def storedInst : Inp ℚ :=
  { emptyInst with nmonths := 2, addStored := true, storeBetweenYears := false, storedInitial := 10 }

/-- eats 3 a month and leaves 4 -/
def storedX : Var → ℚ
  | .mv .sfStart m => [10, 7].getD m 0
  | .mv .sfEnd m => [7, 4].getD m 0
  | .mv .sfHumans m => [3, 3].getD m 0
  | .mv .consumedKcals m => [3, 3].getD m 0
  | .objective => 3
  | _ => 0

theorem storedX_rows : (buildLP storedInst .toHumans).all (holdsB storedX) = true := by
  decide +kernel

theorem storedX_nonneg : ∀ v, 0 ≤ storedX v := by
  intro v
  cases v with
  | mv k m =>
    cases k <;> first
      | exact le_rfl
      | exact getD_nonneg _ (by decide +kernel) m
  | objective => show (0 : ℚ) ≤ 3; norm_num
  | objectiveBest => exact le_rfl

theorem stored_gap_counterexample :
    ∃ (i : Inp ℚ) (x : Var → ℚ), 2 ≤ i.nmonths ∧ Feasible (buildLP i .toHumans) x ∧
      ∃ e ∈ physGap i .toHumans x, 0 < e.value ∧ e.clause = "stored-full-use-no-storage" := by
  refine ⟨storedInst, storedX, by decide, ⟨rows_hold_of_all _ _ storedX_rows, storedX_nonneg⟩,
    ex "stored-full-use-no-storage" 1
      (storedInst.storedInitial - cum (storedUse storedInst storedX) 1), ?_, ?_, rfl⟩
  · exact List.mem_singleton_self _
  · show (0 : ℚ) < storedInst.storedInitial - cum (storedUse storedInst storedX) 1
    decide +kernel

/-! ### non-vacuity of `feasible_is_physical` -/

/-- three months; stored food, crops and meat; storage between years; half of the meat is wasted;
    one unit of feed is charged every month -/
def fullInst : Inp ℚ :=
  { emptyInst with nmonths := 3, addStored := true, addOutdoor := true, addMeat := true,
                   storeBetweenYears := true, storedInitial := 6, cropProd := [3, 3, 3],
                   meatSummed := 3, slaughtered := [1, 1, 1], maxCulled := [1, 2, 3], wMeat := 50,
                   feed := [1, 1, 1] }

def fullX : Var → ℚ
  | .mv .sfStart m => [6, 4, 2].getD m 0
  | .mv .sfEnd m => [4, 2, 0].getD m 0
  | .mv .sfHumans m => [2, 2, 2].getD m 0
  | .mv .cropHumans m => [2, 2, 2].getD m 0
  | .mv .cropFeed m => [1, 1, 1].getD m 0
  | .mv .cropConsumed m => [3, 3, 3].getD m 0
  | .mv .meatEaten m => [1/2, 1/2, 1/2].getD m 0
  | .mv .meatStart m => [3, 2, 1].getD m 0
  | .mv .meatEnd m => [2, 1, 0].getD m 0
  | .mv .consumedKcals m => [9/2, 9/2, 9/2].getD m 0
  | .objective => 9/2
  | _ => 0

theorem fullX_rows : (buildLP fullInst .toHumans).all (holdsB fullX) = true := by decide +kernel

theorem fullX_nonneg : ∀ v, 0 ≤ fullX v := by
  intro v
  cases v with
  | mv k m =>
    cases k <;> first
      | exact le_rfl
      | exact getD_nonneg _ (by decide +kernel) m
  | objective => show (0 : ℚ) ≤ 9/2; norm_num
  | objectiveBest => exact le_rfl

theorem feasible_nonvacuous :
    ∃ (i : Inp ℚ) (x : Var → ℚ), 2 ≤ i.nmonths ∧ i.addStored = true ∧ i.addOutdoor = true ∧
      i.addMeat = true ∧ Feasible (buildLP i .toHumans) x ∧ 0 < x .objective := by
  refine ⟨fullInst, fullX, by decide, rfl, rfl, rfl,
    ⟨rows_hold_of_all _ _ fullX_rows, fullX_nonneg⟩, ?_⟩
  show (0 : ℚ) < 9/2
  norm_num

end Concrete

/-! ## 7. `Feasible (buildLP i .toHumans) x` as a conjunction of month-wise (in)equations

The clauses are the rows, literally (same order of terms), so that the equivalence is by unfolding;
they are the basis of every construction of a new feasible point from an old one. -/

section Spec
variable {i : Inp K} {x : Var → K} {m : Nat}

/-- kcals reaching people in month `m` (billion kcals), as the LP adds them up -/
def humanTotal (i : Inp K) (x : Var → K) (m : Nat) : K :=
  X x i.addStored .sfHumans m + X x i.addOutdoor .cropHumans m
    + X x i.addSeaweed .swHumans m * i.seaweedKcals + at' i.milk m + X x i.addMeat .meatEaten m
    + X x i.addCs .csHumans m + X x i.addScp .scpHumans m + at' i.greenhouse m + at' i.fish m

theorem eval_humanSum' (i : Inp K) (x : Var → K) (m : Nat) :
    Aff.eval x (humanSum i m) = humanTotal i x m := eval_humanSum i x m

def SeaweedSpec (i : Inp K) (x : Var → K) (m : Nat) : Prop :=
  (i.initialSeaweed ≤ x (.mv .swWet m) ∧ x (.mv .swWet m) ≤ i.maxDensity * at' i.builtArea m ∧
    i.initialBuiltArea ≤ x (.mv .usedArea m) ∧ x (.mv .usedArea m) ≤ at' i.builtArea m) ∧
  (if m = 0 then
      x (.mv .swWet m) = i.initialSeaweed ∧ x (.mv .usedArea m) = i.initialBuiltArea ∧
      x (.mv .swHumans 0) = 0 ∧ x (.mv .swFeed 0) = 0 ∧ x (.mv .swBiofuel 0) = 0
   else x (.mv .swWet m) = seaweedLedger i x m)

theorem seaweedRows_iff : (∀ r ∈ seaweedRows i m, r.holds x) ↔ SeaweedSpec i x m := by
  unfold seaweedRows SeaweedSpec seaweedLedger
  by_cases hm0 : m = 0
  · simp only [hm0, if_true]
    lp_rows
  · simp only [hm0, if_false]
    lp_rows

/-- the crop rows of a human-maximising round -/
def CropSpec (i : Inp K) (x : Var → K) (m : Nat) : Prop :=
  x (.mv .cropConsumed m) =
    grossUp (x (.mv .cropHumans m)) i.wCrop + x (.mv .cropBiofuel m) + x (.mv .cropFeed m) ∧
  (if m = 0 then x (.mv .cropStorage m) = at' i.cropProd m - x (.mv .cropConsumed m)
   else if m = i.nmonths - 1 then
     x (.mv .cropStorage m) = at' i.cropProd m + x (.mv .cropStorage (m - 1)) - x (.mv .cropConsumed m) ∧
     x (.mv .cropStorage m) = 0
   else
     x (.mv .cropStorage m) = at' i.cropProd m + x (.mv .cropStorage (m - 1)) - x (.mv .cropConsumed m))

theorem cropRows_iff : (∀ r ∈ cropRows i .toHumans m, r.holds x) ↔ CropSpec i x m := by
  unfold cropRows CropSpec
  by_cases hm0 : m = 0
  · simp only [hm0, if_true]
    lp_rows
  · by_cases hl : m = i.nmonths - 1
    · simp only [hm0, if_false, ← hl, if_true, reduceCtorEq]
      lp_rows
    · simp only [hm0, if_false, hl]
      lp_rows

/-- `Stored_Food_Eaten_m`, literally -/
def StoredEatenEq (i : Inp K) (x : Var → K) (m : Nat) : Prop :=
  x (.mv .sfEnd m) =
    x (.mv .sfStart m) - grossUp (x (.mv .sfHumans m)) i.wStored - x (.mv .sfFeed m) - x (.mv .sfBiofuel m)

theorem storedEaten_iff : (storedEaten i m).holds x ↔ StoredEatenEq i x m := by
  unfold storedEaten StoredEatenEq
  simp only [holds_row_eq, eval_mv, eval_sub, eval_gross]

theorem storedEatenEq_iff : StoredEatenEq i x m ↔
    x (.mv .sfEnd m) = x (.mv .sfStart m) - storedUse i x m := by
  unfold StoredEatenEq storedUse
  constructor <;> intro h <;> rw [h] <;> ring

/-- the stored-food rows of a human-maximising round -/
def StoredSpec (i : Inp K) (x : Var → K) (m : Nat) : Prop :=
  if i.storeBetweenYears = true then
    (if m = 0 then x (.mv .sfStart 0) = i.storedInitial
     else if m = i.nmonths - 1 then
       x (.mv .sfEnd m) = 0 ∧ x (.mv .sfStart m) = x (.mv .sfEnd (m - 1))
     else x (.mv .sfStart m) = x (.mv .sfEnd (m - 1))) ∧
    StoredEatenEq i x m
  else
    if m = 0 then x (.mv .sfStart 0) = i.storedInitial ∧ StoredEatenEq i x 0
    else if 12 < m then
      x (.mv .sfHumans m) = 0 ∧ x (.mv .sfFeed m) = 0 ∧ x (.mv .sfBiofuel m) = 0 ∧
      x (.mv .sfStart m) = x (.mv .sfEnd (m - 1))
    else StoredEatenEq i x m ∧ x (.mv .sfStart m) = x (.mv .sfEnd (m - 1))

theorem storedRows_iff : (∀ r ∈ storedRows i .toHumans m, r.holds x) ↔ StoredSpec i x m := by
  unfold storedRows storedRowsFirstYear StoredSpec
  cases hs : i.storeBetweenYears
  · simp only [Bool.not_false, if_true, Bool.false_eq_true, if_false]
    split_ifs <;> simp only [List.forall_mem_cons, List.not_mem_nil, false_imp_iff, implies_true,
      and_true, storedEaten_iff, holds_row_eq, eval_mv, eval_k]
  · simp only [Bool.not_true, Bool.false_eq_true, if_false, if_true, reduceCtorEq]
    split_ifs <;> simp only [List.forall_mem_append, List.forall_mem_cons, List.not_mem_nil,
      false_imp_iff, implies_true, and_true, storedEaten_iff, holds_row_eq, eval_mv, eval_k]

def MeatSpec (i : Inp K) (x : Var → K) (m : Nat) : Prop :=
  if i.storeBetweenYears = true then
    (if m = 0 then x (.mv .meatStart 0) = i.meatSummed
     else x (.mv .meatStart m) = x (.mv .meatEnd (m - 1))) ∧
    x (.mv .meatEnd m) = x (.mv .meatStart m) - meatUse i x m ∧
    i.meatSummed - x (.mv .meatEnd m) ≤ at' i.maxCulled m
  else meatUse i x m ≤ at' i.slaughtered m

theorem meatRows_iff : (∀ r ∈ meatRows i m, r.holds x) ↔ MeatSpec i x m := by
  unfold meatRows MeatSpec meatUse
  cases hs : i.storeBetweenYears
  · simp only [Bool.not_false, if_true, Bool.false_eq_true, if_false]
    lp_rows
  · simp only [Bool.not_true, Bool.false_eq_true, if_false, if_true]
    split_ifs <;> lp_rows

theorem scpRows_iff : (∀ r ∈ scpRows i m, r.holds x) ↔ scpUse i x m ≤ at' i.scp m := by
  unfold scpRows scpUse
  lp_rows

theorem csRows_iff : (∀ r ∈ csRows i m, r.holds x) ↔ csUse i x m ≤ at' i.cs m := by
  unfold csRows csUse
  lp_rows

/-- `add_percentage_intake_constraints` for one resilient food (human-maximising round) -/
def IntakeSpec (i : Inp K) (x : Var → K) (on : Bool) (ratio : K) (vH vF vB : VK)
    (limH limF limB : K) (m : Nat) : Prop :=
  on = true →
    (x (.mv vH m) * ratio ≤ limH / 100.0 * (i.pop * i.kcalsMonthly / 1e9) ∧
     x (.mv vH m) * ratio ≤
       limH / 100.0 * (x (.mv .consumedKcals m) * i.billionKcalsNeeded / 100.0)) ∧
    x (.mv vF m) * ratio ≤ limF / 100.0 * at' i.feed m ∧
    x (.mv vB m) * ratio ≤ limB / 100.0 * at' i.biofuel m

theorem intakeRows_iff (on : Bool) (nm : String) (ratio : K) (vH vF vB : VK) (limH limF limB : K) :
    (∀ r ∈ intakeRows i .toHumans on nm ratio vH vF vB limH limF limB m, r.holds x) ↔
      IntakeSpec i x on ratio vH vF vB limH limF limB m := by
  unfold intakeRows IntakeSpec
  cases on
  · simp only [Bool.not_false, if_true, List.not_mem_nil, false_imp_iff, implies_true,
      Bool.false_eq_true]
  · simp only [Bool.not_true, Bool.false_eq_true, if_false, if_true, true_implies]
    lp_rows

/-- the rows that are not specific to one resource (human-maximising round) -/
def GeneralSpec (i : Inp K) (x : Var → K) (m : Nat) : Prop :=
  (anyFeedVar i = true → feedTotal i x m = at' i.feed m ∧ biofuelTotal i x m = at' i.biofuel m) ∧
  x (.mv .consumedKcals m) = humanTotal i x m / i.billionKcalsNeeded * 100.0 ∧
  IntakeSpec i x i.addSeaweed i.seaweedKcals .swHumans .swFeed .swBiofuel i.limSwH i.limSwF i.limSwB m ∧
  IntakeSpec i x i.addScp 1 .scpHumans .scpFeed .scpBiofuel i.limScpH i.limScpF i.limScpB m ∧
  IntakeSpec i x i.addCs 1 .csHumans .csFeed .csBiofuel i.limCsH i.limCsF i.limCsB m

theorem feedBiofuelRows_iff : (∀ r ∈ feedBiofuelRows i .toHumans m, r.holds x) ↔
    (anyFeedVar i = true → feedTotal i x m = at' i.feed m ∧ biofuelTotal i x m = at' i.biofuel m) := by
  unfold feedBiofuelRows
  cases anyFeedVar i
  · simp only [Bool.not_false, if_true, List.not_mem_nil, false_imp_iff, implies_true,
      Bool.false_eq_true]
  · simp only [Bool.not_true, Bool.false_eq_true, if_false, true_implies, List.forall_mem_cons,
      List.not_mem_nil, false_imp_iff, implies_true, and_true, holds_row_eq, eval_feedSum,
      eval_biofuelSum, eval_k]

theorem generalRows_iff : (∀ r ∈ generalRows i .toHumans m, r.holds x) ↔ GeneralSpec i x m := by
  unfold generalRows GeneralSpec
  simp only [List.forall_mem_append, feedBiofuelRows_iff, intakeRows_iff, if_true,
    List.forall_mem_singleton, and_assoc]
  unfold kcalsFedRow
  simp only [holds_eq, eval_mv, eval_mulr, eval_divr, eval_humanSum']

theorem forall_mem_flatMap_range {β : Type} (n : Nat) (g : Nat → List β) (P : β → Prop) :
    (∀ r ∈ (List.range n).flatMap g, P r) ↔ ∀ m, m < n → ∀ r ∈ g m, P r := by
  constructor
  · intro h m hm r hr
    exact h r (List.mem_flatMap.mpr ⟨m, List.mem_range.mpr hm, hr⟩)
  · intro h r hr
    obtain ⟨m, hm, hr⟩ := List.mem_flatMap.mp hr
    exact h m (List.mem_range.mp hm) r hr

theorem resourceRows_toHumans_iff (on : Bool) (f pin : Nat → List (Row K)) :
    (∀ r ∈ resourceRows i .toHumans on f pin, r.holds x) ↔
      (on = true → ∀ m, m < i.nmonths → ∀ r ∈ f m, r.holds x) := by
  unfold resourceRows
  cases on
  · simp only [Bool.false_eq_true, if_false, List.not_mem_nil, false_imp_iff, implies_true]
  · simp only [if_true, reduceCtorEq, if_false, List.append_nil, forall_mem_flatMap_range,
      true_implies]

theorem objectiveRows_toHumans_iff : (∀ r ∈ objectiveRows i .toHumans, r.holds x) ↔
    ∀ m, m < i.nmonths → x .objective ≤ x (.mv .consumedKcals m) := by
  unfold objectiveRows
  constructor
  · intro h m hm
    have H := h _ (List.mem_map.mpr ⟨m, List.mem_range.mpr hm, rfl⟩)
    simpa only [holds_le, eval_mv, eval_var] using H
  · intro h r hr
    obtain ⟨m, hm, rfl⟩ := List.mem_map.mp hr
    simpa only [holds_le, eval_mv, eval_var] using h m (List.mem_range.mp hm)

/-- what a feasible point of a human-maximising round is -/
structure HumanSpec (i : Inp K) (x : Var → K) : Prop where
  nonneg : ∀ v, 0 ≤ x v
  seaweed : i.addSeaweed = true → ∀ m, m < i.nmonths → SeaweedSpec i x m
  crops : i.addOutdoor = true → ∀ m, m < i.nmonths → CropSpec i x m
  stored : i.addStored = true → ∀ m, m < i.nmonths → StoredSpec i x m
  meat : i.addMeat = true → ∀ m, m < i.nmonths → MeatSpec i x m
  scp : i.addScp = true → ∀ m, m < i.nmonths → scpUse i x m ≤ at' i.scp m
  cs : i.addCs = true → ∀ m, m < i.nmonths → csUse i x m ≤ at' i.cs m
  general : ∀ m, m < i.nmonths → GeneralSpec i x m
  objective : ∀ m, m < i.nmonths → x .objective ≤ x (.mv .consumedKcals m)

theorem feasible_toHumans_iff : Feasible (buildLP i .toHumans) x ↔ HumanSpec i x := by
  unfold Feasible buildLP buildLPWith
  simp only [List.forall_mem_append, resourceRows_toHumans_iff, forall_mem_flatMap_range,
    objectiveRows_toHumans_iff, seaweedRows_iff, cropRows_iff, storedRows_iff, meatRows_iff,
    scpRows_iff, csRows_iff, generalRows_iff]
  constructor
  · rintro ⟨⟨⟨⟨⟨⟨⟨⟨h1, h2⟩, h3⟩, h4⟩, h5⟩, h6⟩, h7⟩, h8⟩, h0⟩
    exact ⟨h0, h1, h2, h3, h4, h5, h6, h7, h8⟩
  · rintro ⟨h0, h1, h2, h3, h4, h5, h6, h7, h8⟩
    exact ⟨⟨⟨⟨⟨⟨⟨⟨h1, h2⟩, h3⟩, h4⟩, h5⟩, h6⟩, h7⟩, h8⟩, h0⟩

/-- the month-wise clauses only look at the monthly variables: a point that agrees with a
    feasible one on them is feasible as soon as its objective variables are in range -/
theorem HumanSpec.of_agree {x x' : Var → K} (h : HumanSpec i x)
    (hmv : ∀ k m, x' (.mv k m) = x (.mv k m)) (h0 : 0 ≤ x' .objective) (h1 : 0 ≤ x' .objectiveBest)
    (hobj : ∀ m, m < i.nmonths → x' .objective ≤ x (.mv .consumedKcals m)) : HumanSpec i x' where
  nonneg := by
    intro v
    cases v with
    | mv k m => rw [hmv]; exact h.nonneg _
    | objective => exact h0
    | objectiveBest => exact h1
  seaweed := by
    intro hon m hm
    have := h.seaweed hon m hm
    simp only [SeaweedSpec, seaweedLedger, hmv] at this ⊢
    exact this
  crops := by
    intro hon m hm
    have := h.crops hon m hm
    simp only [CropSpec, hmv] at this ⊢
    exact this
  stored := by
    intro hon m hm
    have := h.stored hon m hm
    simp only [StoredSpec, StoredEatenEq, hmv] at this ⊢
    exact this
  meat := by
    intro hon m hm
    have := h.meat hon m hm
    simp only [MeatSpec, meatUse, hmv] at this ⊢
    exact this
  scp := by
    intro hon m hm
    have := h.scp hon m hm
    simp only [scpUse, hmv] at this ⊢
    exact this
  cs := by
    intro hon m hm
    have := h.cs hon m hm
    simp only [csUse, hmv] at this ⊢
    exact this
  general := by
    intro m hm
    have := h.general m hm
    simp only [GeneralSpec, IntakeSpec, feedTotal, biofuelTotal, humanTotal, X, hmv] at this ⊢
    exact this
  objective := by
    intro m hm
    rw [hmv]; exact hobj m hm

end Spec

/-! ## 8. `Feasible (buildLP i .toAnimals) x` as a conjunction of month-wise (in)equations -/

section SpecAnimals
variable {i : Inp K} {x : Var → K} {m : Nat}

/-- the two running totals of `totalNonhuman`, evaluated -/
theorem eval_totalNonhuman_fold (i : Inp K) (x : Var → K) (l : List Nat) (a b : Aff K) :
    Aff.eval x (l.foldl (fun acc m => (acc.1 + feedSum i m, acc.2 + biofuelSum i m)) (a, b)).1 =
      l.foldl (fun acc m => acc + feedTotal i x m) (Aff.eval x a) ∧
    Aff.eval x (l.foldl (fun acc m => (acc.1 + feedSum i m, acc.2 + biofuelSum i m)) (a, b)).2 =
      l.foldl (fun acc m => acc + biofuelTotal i x m) (Aff.eval x b) := by
  induction l generalizing a b with
  | nil => exact ⟨rfl, rfl⟩
  | cons m t ih =>
    simp only [List.foldl_cons]
    have := ih (a + feedSum i m) (b + biofuelSum i m)
    rw [eval_add, eval_add, eval_feedSum, eval_biofuelSum] at this
    exact this

theorem eval_nonhumanObjective (i : Inp K) (x : Var → K) :
    Aff.eval x (nonhumanObjective i) =
      2 / 3 * (List.range i.nmonths).foldl (fun acc m => acc + feedTotal i x m) 0
        + (List.range i.nmonths).foldl (fun acc m => acc + biofuelTotal i x m) 0 / 3 := by
  unfold nonhumanObjective totalNonhuman
  obtain ⟨h1, h2⟩ := eval_totalNonhuman_fold i x (List.range i.nmonths) (Aff.k 0) (Aff.k 0)
  rw [eval_k] at h1 h2
  simp only [eval_add, eval_smul, eval_divr, h1, h2]
  norm_num

/-- the crop rows of the feed-maximising round: the ledger, no `None_Left` -/
def CropSpecA (i : Inp K) (x : Var → K) (m : Nat) : Prop :=
  x (.mv .cropConsumed m) =
    grossUp (x (.mv .cropHumans m)) i.wCrop + x (.mv .cropBiofuel m) + x (.mv .cropFeed m) ∧
  (if m = 0 then x (.mv .cropStorage m) = at' i.cropProd m - x (.mv .cropConsumed m)
   else
     x (.mv .cropStorage m) = at' i.cropProd m + x (.mv .cropStorage (m - 1)) - x (.mv .cropConsumed m))

theorem cropRows_toAnimals_iff : (∀ r ∈ cropRows i .toAnimals m, r.holds x) ↔ CropSpecA i x m := by
  unfold cropRows CropSpecA
  by_cases hm0 : m = 0
  · simp only [hm0, if_true]
    lp_rows
  · by_cases hl : m = i.nmonths - 1
    · simp only [hm0, if_false, ← hl, if_true, List.append_nil]
      lp_rows
    · simp only [hm0, if_false, hl]
      lp_rows

/-- the stored-food rows of the feed-maximising round: no `Stored_Food_End` of the last month -/
def StoredSpecA (i : Inp K) (x : Var → K) (m : Nat) : Prop :=
  if i.storeBetweenYears = true then
    (if m = 0 then x (.mv .sfStart 0) = i.storedInitial
     else x (.mv .sfStart m) = x (.mv .sfEnd (m - 1))) ∧
    StoredEatenEq i x m
  else
    if m = 0 then x (.mv .sfStart 0) = i.storedInitial ∧ StoredEatenEq i x 0
    else if 12 < m then
      x (.mv .sfHumans m) = 0 ∧ x (.mv .sfFeed m) = 0 ∧ x (.mv .sfBiofuel m) = 0 ∧
      x (.mv .sfStart m) = x (.mv .sfEnd (m - 1))
    else StoredEatenEq i x m ∧ x (.mv .sfStart m) = x (.mv .sfEnd (m - 1))

theorem storedRows_toAnimals_iff :
    (∀ r ∈ storedRows i .toAnimals m, r.holds x) ↔ StoredSpecA i x m := by
  unfold storedRows storedRowsFirstYear StoredSpecA
  cases hs : i.storeBetweenYears
  · simp only [Bool.not_false, if_true, Bool.false_eq_true, if_false]
    split_ifs <;> simp only [List.forall_mem_cons, List.not_mem_nil, false_imp_iff, implies_true,
      and_true, storedEaten_iff, holds_row_eq, eval_mv, eval_k]
  · simp only [Bool.not_true, Bool.false_eq_true, if_false, if_true, List.nil_append]
    split_ifs <;> simp only [List.forall_mem_append, List.forall_mem_cons, List.not_mem_nil,
      false_imp_iff, implies_true, and_true, storedEaten_iff, holds_row_eq, eval_mv, eval_k]

/-- `assign_predetermined_human_consumption_of_foods`: the quantity `v` is pinned inside the
    tolerance band around `minCons` -/
def PinSpec (i : Inp K) (v minCons : K) : Prop :=
  (if i.pop < 1e7 then 0.9999 * minCons else 0.99999 * minCons) ≤ v ∧
  v ≤ (if i.pop < 1e7 then 1.0001 * minCons else 1.00001 * minCons)

theorem pinnedRows_iff (nm : String) (expr : Aff K) (minCons : K) :
    (∀ r ∈ pinnedRows i nm expr minCons m, r.holds x) ↔ PinSpec i (Aff.eval x expr) minCons := by
  unfold pinnedRows PinSpec
  simp only [List.forall_mem_cons, List.not_mem_nil, false_imp_iff, implies_true, and_true,
    holds_row_ge, holds_row_le, eval_k]

/-- seaweed after the repair of C16: pinned from below only -/
def PinLowerSpec (i : Inp K) (v minCons : K) : Prop :=
  (if i.pop < 1e7 then 0.9999 * minCons else 0.99999 * minCons) ≤ v

theorem pinnedRowsLower_iff (nm : String) (expr : Aff K) (minCons : K) :
    (∀ r ∈ pinnedRowsLower i nm expr minCons m, r.holds x) ↔
      PinLowerSpec i (Aff.eval x expr) minCons := by
  unfold pinnedRowsLower PinLowerSpec
  simp only [List.forall_mem_singleton, holds_row_ge, eval_k]

theorem PinSpec.lower {v c : K} (h : PinSpec i v c) : PinLowerSpec i v c := h.1

/-- the feed and biofuel share caps of a resilient food (the only intake rows of this round) -/
def IntakeSpecA (i : Inp K) (x : Var → K) (on : Bool) (ratio : K) (vF vB : VK) (limF limB : K)
    (m : Nat) : Prop :=
  on = true →
    x (.mv vF m) * ratio ≤ limF / 100.0 * at' i.feed m ∧
    x (.mv vB m) * ratio ≤ limB / 100.0 * at' i.biofuel m

theorem intakeRows_toAnimals_iff (on : Bool) (nm : String) (ratio : K) (vH vF vB : VK)
    (limH limF limB : K) :
    (∀ r ∈ intakeRows i .toAnimals on nm ratio vH vF vB limH limF limB m, r.holds x) ↔
      IntakeSpecA i x on ratio vF vB limF limB m := by
  unfold intakeRows IntakeSpecA
  cases on
  · simp only [Bool.not_false, if_true, List.not_mem_nil, false_imp_iff, implies_true,
      Bool.false_eq_true]
  · simp only [Bool.not_true, Bool.false_eq_true, if_false, reduceCtorEq, List.nil_append,
      true_implies]
    lp_rows

/-- feed and biofuel of month `m` within their ceilings and not above last month's -/
def CeilingSpec (i : Inp K) (x : Var → K) (m : Nat) : Prop :=
  anyFeedVar i = true →
    (feedTotal i x m ≤ at' i.maxFeed m ∧ biofuelTotal i x m ≤ at' i.maxBiofuel m) ∧
    (0 < m → feedTotal i x m ≤ feedTotal i x (m - 1) ∧ biofuelTotal i x m ≤ biofuelTotal i x (m - 1))

theorem feedBiofuelRows_toAnimals_iff :
    (∀ r ∈ feedBiofuelRows i .toAnimals m, r.holds x) ↔ CeilingSpec i x m := by
  unfold feedBiofuelRows CeilingSpec
  cases anyFeedVar i
  · simp only [Bool.not_false, if_true, List.not_mem_nil, false_imp_iff, implies_true,
      Bool.false_eq_true]
  · simp only [Bool.not_true, Bool.false_eq_true, if_false, true_implies, List.forall_mem_append]
    by_cases hm0 : 0 < m
    · simp only [hm0, if_true, List.forall_mem_cons, List.not_mem_nil, false_imp_iff, implies_true,
        and_true, holds_row_le, holds_row_ge, eval_feedSum, eval_biofuelSum, eval_k, true_implies]
    · simp only [hm0, if_false, List.forall_mem_cons, List.not_mem_nil, false_imp_iff, implies_true,
        and_true, holds_row_le, eval_feedSum, eval_biofuelSum, eval_k]

def GeneralSpecA (i : Inp K) (x : Var → K) (m : Nat) : Prop :=
  CeilingSpec i x m ∧
  IntakeSpecA i x i.addSeaweed i.seaweedKcals .swFeed .swBiofuel i.limSwF i.limSwB m ∧
  IntakeSpecA i x i.addScp 1 .scpFeed .scpBiofuel i.limScpF i.limScpB m ∧
  IntakeSpecA i x i.addCs 1 .csFeed .csBiofuel i.limCsF i.limCsB m

theorem generalRows_toAnimals_iff :
    (∀ r ∈ generalRows i .toAnimals m, r.holds x) ↔ GeneralSpecA i x m := by
  unfold generalRows GeneralSpecA
  simp only [List.forall_mem_append, feedBiofuelRows_toAnimals_iff, intakeRows_toAnimals_iff,
    reduceCtorEq, if_false, List.not_mem_nil, false_imp_iff, implies_true, and_true, and_assoc]

theorem resourceRows_toAnimals_iff (on : Bool) (f pin : Nat → List (Row K)) :
    (∀ r ∈ resourceRows i .toAnimals on f pin, r.holds x) ↔
      (on = true → ∀ m, m < i.nmonths → (∀ r ∈ f m, r.holds x) ∧ ∀ r ∈ pin m, r.holds x) := by
  unfold resourceRows
  cases on
  · simp only [Bool.false_eq_true, if_false, List.not_mem_nil, false_imp_iff, implies_true]
  · simp only [if_true, forall_mem_flatMap_range, List.forall_mem_append, true_implies]

/-- the weighted total the feed-maximising round maximises -/
def feedObjective (i : Inp K) (x : Var → K) : K :=
  2 / 3 * (List.range i.nmonths).foldl (fun acc m => acc + feedTotal i x m) 0
    + (List.range i.nmonths).foldl (fun acc m => acc + biofuelTotal i x m) 0 / 3

theorem objectiveRows_toAnimals_iff :
    (∀ r ∈ objectiveRows i .toAnimals, r.holds x) ↔ x .objective ≤ feedObjective i x := by
  unfold objectiveRows feedObjective
  simp only [List.forall_mem_singleton, holds_le, eval_var, eval_nonhumanObjective]

/-- what a feasible point of the feed-maximising round is -/
structure AnimalSpec (i : Inp K) (x : Var → K) : Prop where
  nonneg : ∀ v, 0 ≤ x v
  seaweed : i.addSeaweed = true → ∀ m, m < i.nmonths →
    SeaweedSpec i x m ∧ PinLowerSpec i (x (.mv .swHumans m) * i.seaweedKcals) (at' i.minSeaweed m)
  crops : i.addOutdoor = true → ∀ m, m < i.nmonths →
    CropSpecA i x m ∧ PinSpec i (x (.mv .cropHumans m)) (at' i.minCrops m)
  stored : i.addStored = true → ∀ m, m < i.nmonths →
    StoredSpecA i x m ∧ PinSpec i (x (.mv .sfHumans m)) (at' i.minStored m)
  meat : i.addMeat = true → ∀ m, m < i.nmonths →
    MeatSpec i x m ∧ PinSpec i (x (.mv .meatEaten m)) (at' i.minMeat m)
  scp : i.addScp = true → ∀ m, m < i.nmonths →
    scpUse i x m ≤ at' i.scp m ∧ PinSpec i (x (.mv .scpHumans m)) (at' i.minScp m)
  cs : i.addCs = true → ∀ m, m < i.nmonths →
    csUse i x m ≤ at' i.cs m ∧ PinSpec i (x (.mv .csHumans m)) (at' i.minCs m)
  general : ∀ m, m < i.nmonths → GeneralSpecA i x m
  objective : x .objective ≤ feedObjective i x

theorem feasible_toAnimals_iff : Feasible (buildLP i .toAnimals) x ↔ AnimalSpec i x := by
  unfold Feasible buildLP buildLPWith
  simp only [List.forall_mem_append, resourceRows_toAnimals_iff, forall_mem_flatMap_range,
    objectiveRows_toAnimals_iff, seaweedRows_iff, cropRows_toAnimals_iff, storedRows_toAnimals_iff,
    meatRows_iff, scpRows_iff, csRows_iff, generalRows_toAnimals_iff, pinnedRows_iff,
    pinnedRowsLower_iff, eval_mv, eval_mulr]
  constructor
  · rintro ⟨⟨⟨⟨⟨⟨⟨⟨h1, h2⟩, h3⟩, h4⟩, h5⟩, h6⟩, h7⟩, h8⟩, h0⟩
    exact ⟨h0, h1, h2, h3, h4, h5, h6, h7, h8⟩
  · rintro ⟨h0, h1, h2, h3, h4, h5, h6, h7, h8⟩
    exact ⟨⟨⟨⟨⟨⟨⟨⟨h1, h2⟩, h3⟩, h4⟩, h5⟩, h6⟩, h7⟩, h8⟩, h0⟩

/-- `feedObjective` only looks at the monthly variables -/
theorem feedObjective_congr {x x' : Var → K} (hmv : ∀ k m, x' (.mv k m) = x (.mv k m)) :
    feedObjective i x' = feedObjective i x := by
  have h1 : feedTotal i x' = feedTotal i x := by
    funext m; simp only [feedTotal, X, hmv]
  have h2 : biofuelTotal i x' = biofuelTotal i x := by
    funext m; simp only [biofuelTotal, X, hmv]
  unfold feedObjective
  rw [h1, h2]

/-- a point that agrees with a feasible one on the monthly variables is feasible as soon as its
    objective variables are in range -/
theorem AnimalSpec.of_agree {x x' : Var → K} (h : AnimalSpec i x)
    (hmv : ∀ k m, x' (.mv k m) = x (.mv k m)) (h0 : 0 ≤ x' .objective) (h1 : 0 ≤ x' .objectiveBest)
    (hobj : x' .objective ≤ feedObjective i x) : AnimalSpec i x' where
  nonneg := by
    intro v
    cases v with
    | mv k m => rw [hmv]; exact h.nonneg _
    | objective => exact h0
    | objectiveBest => exact h1
  seaweed := by
    intro hon m hm
    have := h.seaweed hon m hm
    simp only [SeaweedSpec, seaweedLedger, PinLowerSpec, hmv] at this ⊢
    exact this
  crops := by
    intro hon m hm
    have := h.crops hon m hm
    simp only [CropSpecA, PinSpec, hmv] at this ⊢
    exact this
  stored := by
    intro hon m hm
    have := h.stored hon m hm
    simp only [StoredSpecA, StoredEatenEq, PinSpec, hmv] at this ⊢
    exact this
  meat := by
    intro hon m hm
    have := h.meat hon m hm
    simp only [MeatSpec, meatUse, PinSpec, hmv] at this ⊢
    exact this
  scp := by
    intro hon m hm
    have := h.scp hon m hm
    simp only [scpUse, PinSpec, hmv] at this ⊢
    exact this
  cs := by
    intro hon m hm
    have := h.cs hon m hm
    simp only [csUse, PinSpec, hmv] at this ⊢
    exact this
  general := by
    intro m hm
    have := h.general m hm
    simp only [GeneralSpecA, CeilingSpec, IntakeSpecA, feedTotal, biofuelTotal, X, hmv] at this ⊢
    exact this
  objective := by
    rw [feedObjective_congr hmv]; exact hobj

/-- the programme as it was before the repair of the seaweed pin: today's programme plus the upper
    rows `Seaweed_Max_Requirement_m` -/
theorem feasible_toAnimals_before_iff :
    Feasible (buildLPBeforeSeaweedFix i .toAnimals) x ↔
      AnimalSpec i x ∧ (i.addSeaweed = true → ∀ m, m < i.nmonths →
        x (.mv .swHumans m) * i.seaweedKcals ≤
          (if i.pop < 1e7 then 1.0001 * at' i.minSeaweed m else 1.00001 * at' i.minSeaweed m)) := by
  unfold Feasible buildLPBeforeSeaweedFix buildLPWith
  simp only [List.forall_mem_append, resourceRows_toAnimals_iff, forall_mem_flatMap_range,
    objectiveRows_toAnimals_iff, seaweedRows_iff, cropRows_toAnimals_iff, storedRows_toAnimals_iff,
    meatRows_iff, scpRows_iff, csRows_iff, generalRows_toAnimals_iff, pinnedRows_iff, eval_mv,
    eval_mulr]
  constructor
  · rintro ⟨⟨⟨⟨⟨⟨⟨⟨h1, h2⟩, h3⟩, h4⟩, h5⟩, h6⟩, h7⟩, h8⟩, h0⟩
    exact ⟨⟨h0, fun hon m hm => ⟨(h1 hon m hm).1, (h1 hon m hm).2.1⟩, h2, h3, h4, h5, h6, h7, h8⟩,
      fun hon m hm => (h1 hon m hm).2.2⟩
  · rintro ⟨⟨h0, h1, h2, h3, h4, h5, h6, h7, h8⟩, hu⟩
    exact ⟨⟨⟨⟨⟨⟨⟨⟨fun hon m hm => ⟨(h1 hon m hm).1, (h1 hon m hm).2, hu hon m hm⟩, h2⟩, h3⟩, h4⟩,
      h5⟩, h6⟩, h7⟩, h8⟩, h0⟩

/-- dropping the upper seaweed pin only enlarges the feasible set -/
theorem feasible_of_feasible_before (h : Feasible (buildLPBeforeSeaweedFix i .toAnimals) x) :
    Feasible (buildLP i .toAnimals) x :=
  feasible_toAnimals_iff.mpr (feasible_toAnimals_before_iff.mp h).1

end SpecAnimals

end Allfed.Proofs.LP
