#!/usr/bin/env python3
"""Run checks against a seeded change without touching /repo: the patch is applied in its own
worktree and the check is pointed at it with VERIF_REPO.
usage: seedtest.py <worktree> <patch.diff> <ID> [<ID> ...]   (prints one line per check)"""
import os, subprocess, sys, time
wt, patch, ids = sys.argv[1], sys.argv[2], sys.argv[3:]
root = os.path.dirname(os.path.dirname(os.path.abspath(__file__)))
subprocess.run(["git", "-C", wt, "checkout", "--", "."], check=True)
r = subprocess.run(["git", "-C", wt, "apply", patch])
if r.returncode != 0:
    print("PATCH-DOES-NOT-APPLY", patch)
    sys.exit(2)
try:
    for pid in ids:
        t0 = time.time()
        env = dict(os.environ, VERIF_REPO=wt)
        p = subprocess.run([os.path.join(root, "bin", "check"), pid, "quick"], env=env, capture_output=True, text=True)
        lines = [l for l in p.stdout.split("\n") if l.startswith(("VIOLATION", "OK ", "INTERNAL", "  what", "  broken", "  disagreement"))]
        print("%s rc=%d %.0fs :: %s" % (pid, p.returncode, time.time() - t0, " | ".join(l.strip()[:220] for l in lines[:4])))
finally:
    subprocess.run(["git", "-C", wt, "checkout", "--", "."], check=True)
