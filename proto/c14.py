import sys, os, io, contextlib, hashlib
os.chdir('/repo'); sys.path.insert(0,'/repo')
import matplotlib; matplotlib.use('Agg')
import numpy as np, pandas as pd, warnings
warnings.filterwarnings('ignore')
from src.scenarios.run_scenario import ScenarioRunner
tab=pd.read_csv('/repo/data/no_food_trade/computer_readable_combined.csv')
rows={r['iso3']:r for _,r in tab.iterrows()}
base=dict(scale='country',seasonality='country',grasses='country_nuclear_winter',crop_disruption='country_nuclear_winter',
 scenario='no_resilient_foods',fish='nuclear_winter',waste='baseline_in_country',nutrition='catastrophe',intake_constraints='enabled',
 stored_food='baseline',ratio_stocks_untouched='zero',shutoff='continued',cull='do_eat_culled',fat='not_required',protein='not_required',meat_strategy='reduce_breeding',NMONTHS=120)
def run(iso,**kw):
    o=dict(base); o.update(kw); row=rows[iso]; sr=ScenarioRunner()
    with contextlib.redirect_stdout(io.StringIO()):
        c,tc,sl=sr.set_depending_on_option(o,country_data=row)
        r=sr.run_and_analyze_scenario(c,tc,sl,False,False,'',row,False,row['country'],iso,title='scratch_'+iso)
    h=hashlib.sha256()
    for k in sorted(vars(r)):
        v=getattr(r,k)
        if hasattr(v,'kcals'): h.update(np.asarray(v.kcals,dtype=float).tobytes())
    h.update(np.float64(r.percent_people_fed).tobytes())
    for k,v in sorted(r.meat_dictionary.items()): h.update(np.asarray(v,dtype=float).tobytes())
    return h.hexdigest()[:16]
seq=[('USA',{}),('DJI',dict(nutrition='baseline',scenario='all_resilient_foods')),('IND',{}),('USA',{})]
a=[run(i,**k) for i,k in seq]
b=[run(i,**k) for i,k in reversed(seq)]
print(a); print(list(reversed(b)))
