import AllfedModel.Model.Validators
import AllfedModel.Model.Report
import AllfedModel.Model.Handoff
import AllfedModel.Proofs.LP
import AllfedModel.Proofs.Report
import AllfedModel.Proofs.Handoff
import Mathlib.Algebra.Order.Field.Basic
import Mathlib.Algebra.Order.Field.Rat
import Mathlib.Algebra.BigOperators.Group.List.Basic
import Mathlib.Algebra.Order.BigOperators.Group.List
import Mathlib.Data.List.GetD
import Mathlib.Tactic.Linarith
import Mathlib.Tactic.Ring
import Mathlib.Tactic.FieldSimp
import Mathlib.Tactic.NormNum
import Mathlib.Tactic.Positivity
/-!
# The built-in validators are implied by what is already proved (helper lemmas for Props/C16.lean)

`Model/Validators.lean` is the executable model of `validate_results.py`.  Here, over an arbitrary
linearly ordered field `K` and for all list lengths:

1. number layer (`isZero`, `notNan`, `absv`, `divLe`);
2. series-level sufficient conditions for every validator (what a series must satisfy to pass);
3. the bridge from a feasible point of `buildLP` to the series the validators are given
   (`reportedFoods`, `feedSources`, `biofuelSources`) — the percent series are those of
   `Report.foodsPercent`, which C04's correspondence ties to the real `Interpreter`;
4. the concrete counter-examples (over ℚ) for the validators that are NOT implied.
-/
namespace Allfed.Proofs.Validators
open Allfed Allfed.LP Allfed.AllocLP Allfed.PhysSpec Allfed.Validators Allfed.Report Allfed.Handoff

set_option linter.unusedSectionVars false
set_option linter.unusedVariables false

variable {K : Type} [Field K] [LinearOrder K] [IsStrictOrderedRing K]

/-! ## 1. number layer -/

theorem isZero_iff (v : K) : isZero v = true ↔ v = 0 := by
  unfold isZero
  simp only [Bool.and_eq_true, decide_eq_true_eq]
  exact ⟨fun h => le_antisymm h.1 h.2, fun h => ⟨h.le, h.ge⟩⟩

theorem isZero_zero : isZero (0 : K) = true := (isZero_iff 0).mpr rfl

theorem isZero_false_iff (v : K) : isZero v = false ↔ v ≠ 0 := by
  rw [← Bool.not_eq_true, isZero_iff]

/-- in an ordered field nothing is NaN -/
theorem notNan_true (v : K) : notNan v = true := by
  unfold notNan; simp

theorem absv_eq_abs (v : K) : absv v = |v| := by
  unfold absv
  split_ifs with h
  · exact (abs_of_neg h).symm
  · exact (abs_of_nonneg (not_lt.mp h)).symm

theorem outcome_ofBool_true : Outcome.ofBool true = .pass := rfl
theorem ofBool_eq_pass {b : Bool} : Outcome.ofBool b = .pass ↔ b = true := by
  cases b <;> simp [Outcome.ofBool]
theorem ofBool_eq_raised {b : Bool} : Outcome.ofBool b = .raised ↔ b = false := by
  cases b <;> simp [Outcome.ofBool]

theorem lsum_eq_sum (l : List K) : lsum l = l.sum := Allfed.Proofs.lsum_eq_sum l

/-! ## 2a. the three sweeps of `validate_results` -/

theorem allGe_of_nonneg (thr : K) (hthr : 0 ≤ thr) (l : List K) (h : ∀ v ∈ l, 0 ≤ v) : allGe thr l = true := by
  unfold allGe
  rw [List.all_eq_true]
  intro v hv
  have := h v hv
  simp only [decide_eq_true_eq]
  linarith

theorem allRounded6Ge0_of_nonneg (l : List K) (h : ∀ v ∈ l, 0 ≤ v) : allRounded6Ge0 l = true := by
  unfold allRounded6Ge0
  rw [List.all_eq_true]
  intro v hv
  have h0 := h v hv
  simp only [decide_eq_true_eq]
  have h1 : (0 : K) ≤ v * 1e6 := mul_nonneg h0 (by norm_num)
  have h2 : (-0.5 : K) ≤ 0 := by norm_num
  linarith

/-- what "non-negative" means for one reported food: kcals always, fat / protein only when included -/
def NutrNonneg (fl : Flags) (f : Nutr K) : Prop :=
  (∀ v ∈ f.kcals, 0 ≤ v) ∧ (fl.includeFat = true → ∀ v ∈ f.fat, 0 ≤ v) ∧ (fl.includeProtein = true → ∀ v ∈ f.protein, 0 ≤ v)

theorem foodAll_of_nonneg (fl : Flags) (p : List K → Bool) (hp : ∀ l : List K, (∀ v ∈ l, 0 ≤ v) → p l = true)
    (f : Nutr K) (h : NutrNonneg fl f) : foodAll fl p f = true := by
  unfold foodAll
  obtain ⟨hk, hf, hpr⟩ := h
  simp only [Bool.and_eq_true, Bool.or_eq_true, Bool.not_eq_true']
  refine ⟨⟨hp _ hk, ?_⟩, ?_⟩
  · cases hfl : fl.includeFat
    · right; rfl
    · left; exact hp _ (hf hfl)
  · cases hfl : fl.includeProtein
    · right; rfl
    · left; exact hp _ (hpr hfl)

/-- `ensure_all_greater_than_or_equal_to_zero` passes when the seven series it looks at are non-negative -/
theorem ensureAllGe0_of_nonneg (fl : Flags) (r : Foods K)
    (h1 : NutrNonneg fl r.cellSugar) (h2 : NutrNonneg fl r.scp) (h3 : NutrNonneg fl r.greenhouse)
    (h4 : NutrNonneg fl r.fish) (h5 : NutrNonneg fl r.meat) (h6 : NutrNonneg fl r.milk) (h7 : NutrNonneg fl r.newStored) :
    ensureAllGe0 fl r = .pass := by
  unfold ensureAllGe0
  rw [ofBool_eq_pass]
  have e6 : ∀ l : List K, (∀ v ∈ l, 0 ≤ v) → allGe (1e-6 : K) l = true :=
    fun l hl => allGe_of_nonneg _ (by norm_num) l hl
  have e0 : ∀ l : List K, (∀ v ∈ l, 0 ≤ v) → allGe (0 : K) l = true :=
    fun l hl => allGe_of_nonneg _ le_rfl l hl
  rw [foodAll_of_nonneg fl _ e6 _ h1, foodAll_of_nonneg fl _ e6 _ h2,
    foodAll_of_nonneg fl _ allRounded6Ge0_of_nonneg _ h3, foodAll_of_nonneg fl _ e0 _ h4,
    foodAll_of_nonneg fl _ allRounded6Ge0_of_nonneg _ h5, foodAll_of_nonneg fl _ e0 _ h6,
    foodAll_of_nonneg fl _ e0 _ h7]
  rfl

theorem nutrNoNan_true (f : Nutr K) : nutrNoNan f = true := by
  unfold nutrNoNan
  simp only [Bool.and_eq_true, List.all_eq_true]
  exact ⟨⟨fun v _ => notNan_true v, fun v _ => notNan_true v⟩, fun v _ => notNan_true v⟩

/-- `ensure_never_nan` cannot fail in exact arithmetic -/
theorem ensureNeverNan_pass (r : Foods K) : ensureNeverNan r = .pass := by
  unfold ensureNeverNan
  simp only [nutrNoNan_true, Bool.and_self]
  rfl

/-- with fat and protein switched off `ensure_zero_kcals_have_zero_fat_and_protein` tests nothing -/
theorem ensureZeroKcals_of_excluded (r : Foods K) : ensureZeroKcals ⟨false, false⟩ r = .pass := by
  unfold ensureZeroKcals foodZeroKcals
  simp
  rfl

/-- … and with them switched on it holds for every series whose three nutrients are the same
    allocation times three constants (kcals constant non-zero), which is how every reported series is built -/
theorem zeroWhereZero_of_linear (a : List K) (ck co : K) (hck : ck ≠ 0) :
    zeroWhereZero (a.map (· * ck)) (a.map (· * co)) = true := by
  induction a with
  | nil => rfl
  | cons v t ih =>
    simp only [List.map_cons, zeroWhereZero, Bool.and_eq_true, Bool.or_eq_true, Bool.not_eq_true']
    refine ⟨?_, ih⟩
    by_cases hv : v = 0
    · right; rw [isZero_iff, hv, zero_mul]
    · left; rw [isZero_false_iff]; exact mul_ne_zero hv hck

theorem foodZeroKcals_of_linear (fl : Flags) (a : List K) (ck cf cp : K) (hck : ck ≠ 0) :
    foodZeroKcals fl ⟨a.map (· * ck), a.map (· * cf), a.map (· * cp)⟩ = true := by
  unfold foodZeroKcals
  simp only [zeroWhereZero_of_linear a ck _ hck, Bool.or_true, Bool.and_self]

/-! ## 2b. headline against optimum -/

/-- `ensure_optimizer_returns_same_as_sum_nutrients` passes when the headline lies between the floor
    `0.99995·z` and `z`, provided `0 ≤ z ≤ 10000` (percent): the floor is relative, the validator absolute -/
theorem optimizerSameAsSum_of_floor (z h : K) (code : String) (hz0 : 0 ≤ z) (hz : z ≤ 10000)
    (hfloor : z * 0.99995 ≤ h) (hle : h ≤ z) : optimizerSameAsSum z h code = .pass := by
  unfold optimizerSameAsSum
  have h1 : z - h ≤ 0.5 := by
    have : z * 0.99995 = z - z * 0.00005 := by ring
    have h3 : z * (0.00005 : K) ≤ 10000 * 0.00005 := mul_le_mul_of_nonneg_right hz (by norm_num)
    have h4 : (10000 : K) * 0.00005 = 0.5 := by norm_num
    linarith
  have h2 : (-0.5 : K) ≤ z - h := by
    have : (-0.5 : K) ≤ 0 := by norm_num
    linarith
  have h3 : z - h ≤ 4.5 := by
    have : (0.5 : K) ≤ 4.5 := by norm_num
    linarith
  simp only
  split_ifs
  · rw [ofBool_eq_pass, decide_eq_true_eq]; exact h3
  · rw [ofBool_eq_pass, Bool.and_eq_true, decide_eq_true_eq, decide_eq_true_eq]; exact ⟨h2, h1⟩

/-! ## 2c. `check_constraints_satisfied` -/

theorem normal_eval (x : Var → K) (r : Row K) :
    Aff.sumTerms x r.normal.terms - -r.normal.const = Aff.eval x r.lhs - Aff.eval x r.rhs := by
  have h := Proofs.LP.eval_sub x r.lhs r.rhs
  unfold Row.normal
  rw [← h, Proofs.LP.eval_def]
  ring

/-- the re-evaluation of one row is a statement about the residual `rowExcess` of the LP model:
    inequalities `excess ≤ tol`, equalities `|excess| < tol` -/
theorem checkRow_iff (tol : K) (x : Var → K) (r : Row K) :
    checkRow tol x r = true ↔
      match r.rel with
      | .eq => |Aff.eval x r.lhs - Aff.eval x r.rhs| < tol
      | .le => Aff.eval x r.lhs - Aff.eval x r.rhs ≤ tol
      | .ge => Aff.eval x r.rhs - Aff.eval x r.lhs ≤ tol := by
  have hn := normal_eval x r
  unfold checkRow
  cases hr : r.rel <;> simp only [decide_eq_true_eq]
  · rw [hn]
  · rw [absv_eq_abs, abs_sub_comm, hn]
  · have : -r.normal.const - Aff.sumTerms x r.normal.terms = -(Aff.sumTerms x r.normal.terms - -r.normal.const) := by ring
    rw [this, hn]; constructor <;> intro h <;> linarith

theorem checkRow_iff_rowExcess (tol : K) (x : Var → K) (r : Row K) :
    checkRow tol x r = true ↔
      (r.rel = .eq → ∀ e ∈ rowExcess x r, e.value < tol) ∧ (r.rel ≠ .eq → ∀ e ∈ rowExcess x r, e.value ≤ tol) := by
  rw [checkRow_iff]
  obtain ⟨n, l, rel, rh⟩ := r
  cases rel <;> simp only [rowExcess, List.forall_mem_singleton, List.forall_mem_cons, false_imp_iff,
    and_true, reduceCtorEq, ne_eq, not_true_eq_false, not_false_eq_true, true_and, forall_const]
  · rw [abs_lt]; constructor <;> intro h <;> constructor <;> linarith [h.1, h.2]

/-- a row that holds exactly passes the re-evaluation for every positive tolerance (the code's is `1`) -/
theorem checkRow_of_holds (tol : K) (htol : 0 < tol) (x : Var → K) (r : Row K) (h : r.holds x) :
    checkRow tol x r = true := by
  rw [checkRow_iff]
  unfold Row.holds at h
  cases hr : r.rel <;> rw [hr] at h <;> simp only
  · linarith
  · rw [h, sub_self, abs_zero]; exact htol
  · linarith

theorem checkConstraints_of_feasible (tol : K) (htol : 0 < tol) (skip : List String) (rows : List (Row K)) (x : Var → K)
    (hne : rows ≠ []) (h : Feasible rows x) : checkConstraints tol skip rows x = some .pass := by
  unfold checkConstraints
  have : rows.isEmpty = false := by cases rows <;> simp_all
  simp only [this, Bool.false_eq_true, if_false, Option.some.injEq, ofBool_eq_pass, List.all_eq_true, Bool.or_eq_true]
  intro r hr
  right
  exact checkRow_of_holds tol htol x r (h.1 r hr)

/-! ## 2d. herd dictionaries -/

theorem floorBelowOne_mono {a b : K} (h : b ≤ a) : floorBelowOne b ≤ floorBelowOne a := by
  unfold floorBelowOne
  split_ifs with h1 h2 h2
  · exact le_rfl
  · have : (1 : K) ≤ a := not_lt.mp h2
    linarith
  · exfalso; exact h1 (lt_of_le_of_lt h h2)
  · exact h

/-- a herd that never grows and is never negative passes `assert_population_not_increasing`
    for every positive tolerance -/
theorem popSeriesOK_of_antitone (eps : K) (heps : 0 < eps) (s : List K) (h0 : ∀ v ∈ s, 0 ≤ v)
    (hdec : s.IsChain (fun a b => b ≤ a)) : popSeriesOK eps s = true := by
  induction s with
  | nil => rfl
  | cons a t ih =>
    cases t with
    | nil => rfl
    | cons b t' =>
      have hab : b ≤ a := by
        cases hdec with
        | cons_cons h _ => exact h
      have hrest : (b :: t').IsChain (fun a b => b ≤ a) := by
        cases hdec with
        | cons_cons _ h => exact h
      have ha : 0 ≤ a := h0 a (by simp)
      simp only [popSeriesOK, Bool.and_eq_true]
      refine ⟨?_, ih (fun v hv => h0 v (List.mem_cons_of_mem _ hv)) hrest⟩
      have hdiff : floorBelowOne b - floorBelowOne a ≤ 0 := sub_nonpos.mpr (floorBelowOne_mono hab)
      unfold divLe
      by_cases hz : a = 0
      · have : isZero a = true := (isZero_iff a).mpr hz
        simp only [this, if_true]
        have : isZero eps = false := (isZero_false_iff eps).mpr heps.ne'
        simp only [this, Bool.false_eq_true, if_false, decide_eq_true_eq]
        have : (floorBelowOne b - floorBelowOne a) / eps ≤ 0 := div_nonpos_of_nonpos_of_nonneg hdiff heps.le
        linarith
      · have hz' : isZero a = false := (isZero_false_iff a).mpr hz
        simp only [hz', Bool.false_eq_true, if_false, decide_eq_true_eq]
        have hapos : 0 < a := lt_of_le_of_ne ha (Ne.symm hz)
        have : (floorBelowOne b - floorBelowOne a) / a ≤ 0 := div_nonpos_of_nonpos_of_nonneg hdiff hapos.le
        linarith

theorem populationNotIncreasing_of_antitone (eps : K) (heps : 0 < eps) (dict : List (String × List K))
    (h : ∀ kv ∈ dict, strContains kv.1 "population" = true → (∀ v ∈ kv.2, 0 ≤ v) ∧ kv.2.IsChain (fun a b => b ≤ a)) :
    populationNotIncreasing eps dict = .pass := by
  unfold populationNotIncreasing
  rw [ofBool_eq_pass, List.all_eq_true]
  intro kv hkv
  cases hc : strContains kv.1 "population"
  · simp
  · simp only [Bool.not_true, Bool.false_or]
    exact popSeriesOK_of_antitone eps heps kv.2 (h kv hkv hc).1 (h kv hkv hc).2

/-- every key of round 1 has a round-2 series whose total is at least round 1's (non-negative) total -/
theorem round2Loop_of_ge (eps small : K) (heps : 0 ≤ eps) (d2 d1 : List (String × List K))
    (h : ∀ kv ∈ d1, ∃ s2, d2.lookup kv.1 = some s2 ∧ 0 ≤ lsum kv.2 ∧ lsum kv.2 ≤ lsum s2) :
    round2Loop eps small d2 d1 = some true := by
  induction d1 with
  | nil => rfl
  | cons kv t ih =>
    obtain ⟨k, s1⟩ := kv
    obtain ⟨s2, hl, h0, hle⟩ := h (k, s1) (by simp)
    simp only [round2Loop, hl]
    have : lsum s1 * (1 - eps) ≤ lsum s2 := by
      have : lsum s1 * (1 - eps) ≤ lsum s1 := by nlinarith
      linarith
    simp only [decide_eq_true this, Bool.or_true, if_true]
    exact ih (fun kv hkv => h kv (List.mem_cons_of_mem _ hkv))

theorem round2GreaterThanRound1_of_ge (eps small : K) (heps : 0 ≤ eps) (d1 d2 : List (String × List K))
    (h : ∀ kv ∈ d1, ∃ s2, d2.lookup kv.1 = some s2 ∧ 0 ≤ lsum kv.2 ∧ lsum kv.2 ≤ lsum s2) :
    round2GreaterThanRound1 eps small d1 d2 = some .pass := by
  unfold round2GreaterThanRound1
  rw [round2Loop_of_ge eps small heps d2 d1 h]
  rfl

/-- `assert_meat_dairy_doesnt_decrease_round_2` after the re-timing of meat (C18): the re-timed series keeps the
    round-2 total, and the hand-off returns it only if that total is at least round 1's -/
theorem meatDairy_of_redistribute (eps : K) (heps : 0 ≤ eps) (r1 r2 out milk1 milk2 : List K)
    (hl : r1.length = r2.length) (h : redistribute r1 r2 = some out) (h0 : 0 ≤ r1.sum + milk1.sum) :
    meatDairyNotDecreasing eps r1 out milk1 milk2 = .pass := by
  unfold meatDairyNotDecreasing
  rw [ofBool_eq_pass, decide_eq_true_eq, lsum_eq_sum, lsum_eq_sum, lsum_eq_sum]
  have htot : out.sum = r2.sum := Allfed.Proofs.redistribute_total r1 r2 out hl h
  have hge : r1.sum ≤ r2.sum := by
    by_contra hlt
    have := (Allfed.Proofs.redistribute_none_iff r1 r2).mpr (not_le.mp hlt)
    rw [this] at h
    cases h
  rw [htot]
  nlinarith

/-! ## 2e. the two checks of the round-2 hand-off -/

theorem minConsumptionSum_of_le (fl : Flags) (eps kd : K) (heps : 0 ≤ eps) (hkd : 0 ≤ kd) (months : List (List K))
    (h : ∀ row ∈ months, row.sum ≤ kd) : (minConsumptionSum fl eps kd months).ok = true := by
  unfold minConsumptionSum
  split_ifs
  · rfl
  · have : months.all (fun row => decide (lsum row ≤ kd * (1 + eps))) = true := by
      rw [List.all_eq_true]
      intro row hrow
      rw [decide_eq_true_eq, lsum_eq_sum]
      have := h row hrow
      nlinarith
    rw [this]; rfl

/-- the minimum consumption handed to round 2 (C18: every month adds up to `min(cap, eaten)`) never exceeds the daily
    requirement as long as the threshold is at most 100 % -/
theorem minConsumptionSum_of_handoff (fl : Flags) (eps kd p1 T : K) (heps : 0 ≤ eps) (hkd : 0 ≤ kd) (hp : 0 ≤ p1) (hT : 0 ≤ T)
    (hT100 : min p1 T ≤ 100) (avail : List (List K)) (hf : ∀ row ∈ avail, ∀ f ∈ row, 0 ≤ f) :
    (minConsumptionSum fl eps kd (minNeeds (dailyMax kd p1 T) avail)).ok = true := by
  apply minConsumptionSum_of_le fl eps kd heps hkd
  intro row hrow
  unfold minNeeds at hrow
  obtain ⟨a, ha, rfl⟩ := List.mem_map.mp hrow
  have hcap : dailyMax kd p1 T = kd * (min p1 T / 100) := Allfed.Proofs.dailyMax_eq_min kd p1 T
  have hmin0 : 0 ≤ min p1 T := le_min hp hT
  have hcap0 : 0 ≤ dailyMax kd p1 T := by rw [hcap]; positivity
  rw [Allfed.Proofs.fillMonth_sum _ a hcap0 (hf a ha)]
  have : dailyMax kd p1 T ≤ kd := by
    rw [hcap]
    have : min p1 T / 100 ≤ 1 := by rw [div_le_one (by norm_num)]; exact hT100
    nlinarith
  exact le_trans (min_le_left _ _) this

/-- once the cap is exhausted nothing more is used, so the remaining foods are all skipped -/
theorem prioMonth_fill_zero (eps : K) (heps : 0 ≤ eps) (prev : K) (foods : List K) (hf : ∀ f ∈ foods, 0 ≤ f) :
    prioMonth eps prev ((fillMonth 0 foods).zip foods) = true := by
  induction foods generalizing prev with
  | nil => rfl
  | cons f t ih =>
    have hf0 : 0 ≤ f := hf f (by simp)
    have hc : pmin f (0 : K) = 0 := by
      rw [Allfed.Proofs.pmin_eq_min]; exact min_eq_right hf0
    simp only [fillMonth, hc, sub_zero, List.zip_cons_cons, prioMonth]
    have ht := ih prev (fun g hg => hf g (List.mem_cons_of_mem _ hg))
    split_ifs with h1 h2 h3 h4 h5
    · exact ht
    · exact ht
    · exfalso; exact h1 (by rw [(isZero_iff f).mp h2]; exact heps)
    · exact ht
    · exfalso; apply h4; simp only [mul_zero, zero_div]; exact heps
    · exfalso; apply h4; simp only [mul_zero, zero_div]; exact heps

/-- C18's priority order makes `verify_food_usage_priorities_round2` pass: a food is drawn on only when every
    earlier food is used in full (100 %), and no food is used beyond 100 % -/
theorem prioMonth_fill (eps : K) (heps : 0 ≤ eps) (rem : K) (hrem : 0 ≤ rem) (foods : List K) (hf : ∀ f ∈ foods, 0 ≤ f) :
    prioMonth eps 100.0 ((fillMonth rem foods).zip foods) = true := by
  induction foods generalizing rem with
  | nil => rfl
  | cons f t ih =>
    have hf0 : 0 ≤ f := hf f (by simp)
    have htl : ∀ g ∈ t, 0 ≤ g := fun g hg => hf g (List.mem_cons_of_mem _ hg)
    have hc : pmin f rem = min f rem := Allfed.Proofs.pmin_eq_min f rem
    have hrem' : 0 ≤ rem - min f rem := sub_nonneg.mpr (min_le_right _ _)
    simp only [fillMonth, hc, List.zip_cons_cons, prioMonth]
    split_ifs with h1 h2 h3 h4 h5
    · exact ih _ hrem' htl
    · exact ih _ hrem' htl
    · -- `avail = 0` is excluded by `¬ avail ≤ eps` and `0 ≤ eps`
      exfalso; exact h1 (by rw [(isZero_iff f).mp h2]; exact heps)
    · exact ih _ hrem' htl
    · -- tested and passed: the new `prev` is this percentage
      have hfpos : 0 < f := lt_of_le_of_lt heps (not_le.mp h1)
      by_cases hle : f ≤ rem
      · -- used in full: 100 %
        have hm : min f rem = f := min_eq_left hle
        have h100 : (100.0 : K) * min f rem / f = 100.0 := by
          rw [hm]; field_simp
        rw [h100]
        exact ih _ hrem' htl
      · -- the cap runs out inside this food: nothing is left for the later ones
        have hm : min f rem = rem := min_eq_right (not_le.mp hle).le
        have : rem - min f rem = 0 := by rw [hm, sub_self]
        rw [this]
        exact prioMonth_fill_zero eps heps _ t htl
    · -- the assertion cannot fail: the percentage is at most 100
      exfalso
      have hfpos : 0 < f := lt_of_le_of_lt heps (not_le.mp h1)
      apply h5
      have hle : (100.0 : K) * min f rem / f ≤ 100.0 := by
        rw [div_le_iff₀ hfpos]
        have : min f rem ≤ f := min_le_left _ _
        have h100 : (0 : K) ≤ 100.0 := by norm_num
        nlinarith
      have h100 : (0 : K) ≤ 100.0 := by norm_num
      nlinarith

theorem usagePriorities_of_handoff (fl : Flags) (eps cap : K) (heps : 0 ≤ eps) (hcap : 0 ≤ cap) (avail : List (List K))
    (hf : ∀ row ∈ avail, ∀ f ∈ row, 0 ≤ f) :
    (usagePriorities fl eps (avail.map fun row => (fillMonth cap row).zip row)).ok = true := by
  unfold usagePriorities
  split_ifs
  · rfl
  · have : (avail.map fun row => (fillMonth cap row).zip row).all (prioMonth eps 100.0) = true := by
      rw [List.all_eq_true]
      intro p hp
      obtain ⟨row, hrow, rfl⟩ := List.mem_map.mp hp
      exact prioMonth_fill eps heps cap hcap row (hf row hrow)
    rw [this]; rfl

/-! ## 2f. relations between rounds: series-level sufficient conditions -/

theorem all_zipWith_of_forall₂ {R : K → K → Prop} {p : K → K → Bool} (hp : ∀ a b, R a b → p a b = true)
    {l1 l2 : List K} (h : List.Forall₂ R l1 l2) : (List.zipWith p l1 l2).all id = true := by
  induction h with
  | nil => rfl
  | cons hab _ ih => simp only [List.zipWith_cons_cons, List.all_cons, id, hp _ _ hab, ih, Bool.and_self]

/-- round 3 gives people at least what round 2 counted (without meat and milk), month by month -/
theorem fewerCaloriesRound2_of_le (eps absEps : K) (heps : 0 ≤ eps) (habs : 0 ≤ absEps) (feed2 biofuel2 : List K)
    (foods2 foods3 : List (List K))
    (h : List.Forall₂ (fun a3 a2 => 0 ≤ a2 ∧ a2 ≤ a3) (sumSeries foods3) (sumSeries foods2)) :
    (fewerCaloriesRound2 ⟨false, false⟩ eps absEps feed2 biofuel2 foods2 foods3).ok = true := by
  unfold fewerCaloriesRound2
  simp only [Bool.or_self, Bool.false_eq_true, if_false]
  split_ifs with h1 h2
  · rfl
  · exfalso; rw [h.length_eq] at h2; exact lt_irrefl _ h2
  · rw [all_zipWith_of_forall₂ (R := fun a3 a2 => 0 ≤ a2 ∧ a2 ≤ a3) _ h]
    · rfl
    · intro a3 a2 hab
      rw [decide_eq_true_eq]
      nlinarith [hab.1, hab.2]

/-- billion kcals → the unit of the sources → back -/
theorem toBillionKcals_mul (mult v : K) (hm : mult ≠ 0) : toBillionKcals mult (v * mult) = v := by
  unfold toBillionKcals
  field_simp

/-- what is used stays within demand every month (as C03 proves for every round): the validator passes for
    every non-negative ε -/
theorem usedBelowDemand_of_le (eps mult : K) (heps : 0 ≤ eps) (demand : List K) (sources : List (List K))
    (hne : sources ≠ [])
    (h : List.Forall₂ (fun d t => 0 ≤ toBillionKcals mult t ∧ toBillionKcals mult t ≤ d) demand (sumSeries sources)) :
    usedBelowDemand ⟨false, false⟩ eps mult demand sources = some .pass := by
  unfold usedBelowDemand
  have he : sources.isEmpty = false := by cases sources <;> simp_all
  simp only [Bool.or_self, Bool.false_eq_true, if_false, he, h.length_eq.symm, ne_eq, not_true_eq_false]
  rw [all_zipWith_of_forall₂ (R := fun d t => 0 ≤ toBillionKcals mult t ∧ toBillionKcals mult t ≤ d) _ h]
  · rfl
  · intro d t hdt
    rw [decide_eq_true_eq]
    have : (-1e-6 : K) < 0 := by norm_num
    nlinarith [hdt.1, hdt.2]

/-- round 3 feeds animals no more than round 2, and ε is POSITIVE (the comparison is strict) -/
theorem feedRound3BelowRound2_of_le (eps : K) (heps : 0 < eps) (s2 s3 : List (List K)) (h3 : s3 ≠ [])
    (h : List.Forall₂ (fun a2 a3 => a3 ≤ a2) (sumSeries s2) (sumSeries s3)) :
    ∃ o, feedRound3BelowRound2 ⟨false, false⟩ eps s2 s3 = some o ∧ o.ok = true := by
  unfold feedRound3BelowRound2
  simp only [Bool.or_self, Bool.false_eq_true, if_false]
  split_ifs with h1 h2 h4
  · exact ⟨_, rfl, rfl⟩
  · exfalso; cases s3 <;> simp_all
  · exfalso; exact h4 h.length_eq
  · refine ⟨_, rfl, ?_⟩
    rw [all_zipWith_of_forall₂ (R := fun a2 a3 => a3 ≤ a2) _ h]
    · rfl
    · intro a2 a3 hab
      rw [decide_eq_true_eq]
      linarith

/-- the two "checks" that only print can never make a run fail -/
theorem round3NotLower_ok (T p1 p3 eps : K) : (round3NotLowerThanRound1 T p1 p3 eps).ok = true := by
  unfold round3NotLowerThanRound1
  split_ifs <;> rfl

theorem feedZeroIfStarving_ok (pf : K) (b f : List (List K)) : (feedZeroIfStarving ⟨false, false⟩ pf b f).ok = true := by
  unfold feedZeroIfStarving
  simp only [Bool.or_self, Bool.false_eq_true, if_false]
  split_ifs <;> rfl

/-! ## 3. from a feasible point of `buildLP` to the series the validators are given -/

/-- a monthly series -/
def monthly (n : Nat) (f : Nat → K) : List K := (List.range n).map f

theorem mem_monthly {n : Nat} {f : Nat → K} {v : K} : v ∈ monthly n f ↔ ∃ m, m < n ∧ f m = v := by
  unfold monthly; simp [List.mem_map, List.mem_range]

theorem zipWith_add_monthly (n : Nat) (f g : Nat → K) :
    List.zipWith (· + ·) (monthly n f) (monthly n g) = monthly n (fun m => f m + g m) := by
  unfold monthly
  induction List.range n with
  | nil => rfl
  | cons a t ih => simp only [List.map_cons, List.zipWith_cons_cons, ih]

theorem forall₂_monthly {R : K → K → Prop} (n : Nat) (f g : Nat → K) (h : ∀ m, m < n → R (f m) (g m)) :
    List.Forall₂ R (monthly n f) (monthly n g) := by
  unfold monthly
  rw [List.forall₂_map_left_iff, List.forall₂_map_right_iff, List.forall₂_same]
  intro m hm
  exact h m (List.mem_range.mp hm)

/-- the fat / protein columns when they are switched off (the interpreter carries zeros) -/
def nutrOf (n : Nat) (f : Nat → K) : Nutr K := ⟨monthly n f, List.replicate n 0, List.replicate n 0⟩

/-- the eleven percent series of `Interpreter` for the allocation `x` (`Report.foodsPercent`, order of
    `get_sum_by_adding_to_humans`; outdoor crops split by `Report.splitCrops` against `produced`) -/
def reportedFoods (i : Inp K) (x : Var → K) (produced : Nat → K) : Foods K :=
  let pct (j : Nat) : Nat → K := fun m => (foodsPercent i x m).getD j 0
  let sp (m : Nat) : K × K := splitCrops (produced m) (valIf x i.addOutdoor .cropHumans m)
  { storedFood := nutrOf i.nmonths (pct 0), outdoorCrops := nutrOf i.nmonths (pct 1), seaweed := nutrOf i.nmonths (pct 2),
    cellSugar := nutrOf i.nmonths (pct 3), scp := nutrOf i.nmonths (pct 4), greenhouse := nutrOf i.nmonths (pct 5),
    fish := nutrOf i.nmonths (pct 6), meat := nutrOf i.nmonths (pct 7), milk := nutrOf i.nmonths (pct 8),
    immediate := nutrOf i.nmonths (fun m => toPercent i (billionsFed i 1 (sp m).1)),
    newStored := nutrOf i.nmonths (fun m => toPercent i (billionsFed i 1 (sp m).2)) }

theorem toPercent_nonneg (i : Inp K) (hkm : 0 < i.kcalsMonthly) (hb : 0 < i.billionKcalsNeeded) (b : K) (h : 0 ≤ b) :
    0 ≤ toPercent i b := by
  unfold toPercent
  have h100 : (0 : K) < 100.0 := by norm_num
  positivity

theorem billionsFed_nonneg (i : Inp K) (hkm : 0 < i.kcalsMonthly) (ratio v : K) (hr : 0 ≤ ratio) (hv : 0 ≤ v) :
    0 ≤ billionsFed i ratio v := by
  unfold billionsFed
  positivity

theorem valIf_nonneg (x : Var → K) (hx : ∀ v, 0 ≤ x v) (on : Bool) (k : VK) (m : Nat) : 0 ≤ valIf x on k m := by
  unfold valIf; split_ifs
  · exact hx _
  · exact le_rfl

theorem nutrNonneg_nutrOf (n : Nat) (f : Nat → K) (h : ∀ m, m < n → 0 ≤ f m) : NutrNonneg ⟨false, false⟩ (nutrOf n f) := by
  refine ⟨?_, fun hh => absurd hh (by decide), fun hh => absurd hh (by decide)⟩
  intro v hv
  obtain ⟨m, hm, rfl⟩ := mem_monthly.mp hv
  exact h m hm

theorem splitCrops_snd_nonneg (p e : K) : 0 ≤ (splitCrops p e).2 := by
  unfold splitCrops
  split_ifs with h
  · exact sub_nonneg.mpr h
  · exact le_rfl

/-- all the series `ensure_all_greater_than_or_equal_to_zero` looks at are non-negative for every point with
    non-negative variables (in particular every feasible point of `buildLP`, either kind of round) -/
theorem ensureAllGe0_of_point (i : Inp K) (x : Var → K) (produced : Nat → K) (hx : ∀ v, 0 ≤ x v)
    (hkm : 0 < i.kcalsMonthly) (hb : 0 < i.billionKcalsNeeded)
    (hgh : ∀ m, m < i.nmonths → 0 ≤ at' i.greenhouse m) (hfish : ∀ m, m < i.nmonths → 0 ≤ at' i.fish m)
    (hmilk : ∀ m, m < i.nmonths → 0 ≤ at' i.milk m) :
    ensureAllGe0 ⟨false, false⟩ (reportedFoods i x produced) = .pass := by
  have one : (0 : K) ≤ 1 := zero_le_one
  have hinv : 0 ≤ 1 / i.kcalsMonthly := by positivity
  apply ensureAllGe0_of_nonneg <;> apply nutrNonneg_nutrOf <;> intro m hm <;>
    simp only [foodsPercent, foodsBillions, List.map_cons, List.map_nil, List.getD_cons_succ, List.getD_cons_zero]
  · exact toPercent_nonneg i hkm hb _ (billionsFed_nonneg i hkm _ _ one (valIf_nonneg x hx _ _ _))
  · exact toPercent_nonneg i hkm hb _ (billionsFed_nonneg i hkm _ _ one (valIf_nonneg x hx _ _ _))
  · exact toPercent_nonneg i hkm hb _ (mul_nonneg hinv (hgh m hm))
  · exact toPercent_nonneg i hkm hb _ (mul_nonneg hinv (hfish m hm))
  · exact toPercent_nonneg i hkm hb _ (mul_nonneg (valIf_nonneg x hx _ _ _) hinv)
  · exact toPercent_nonneg i hkm hb _ (div_nonneg (hmilk m hm) hkm.le)
  · exact toPercent_nonneg i hkm hb _ (billionsFed_nonneg i hkm _ _ one (splitCrops_snd_nonneg _ _))

/-- billion kcals → percent people fed (`100 / billion_kcals_needed`, C10) -/
def pctOf (i : Inp K) (v : K) : K := v * (100 / i.billionKcalsNeeded)

/-- the five series of `sum_feed_sources`, in its order: sugar, SCP, seaweed, outdoor crops, stored food -/
def feedSources (i : Inp K) (x : Var → K) : List (List K) :=
  [ monthly i.nmonths (fun m => pctOf i (X x i.addCs .csFeed m)),
    monthly i.nmonths (fun m => pctOf i (X x i.addScp .scpFeed m)),
    monthly i.nmonths (fun m => pctOf i (X x i.addSeaweed .swFeed m * i.seaweedKcals)),
    monthly i.nmonths (fun m => pctOf i (X x i.addOutdoor .cropFeed m)),
    monthly i.nmonths (fun m => pctOf i (X x i.addStored .sfFeed m)) ]

def biofuelSources (i : Inp K) (x : Var → K) : List (List K) :=
  [ monthly i.nmonths (fun m => pctOf i (X x i.addCs .csBiofuel m)),
    monthly i.nmonths (fun m => pctOf i (X x i.addScp .scpBiofuel m)),
    monthly i.nmonths (fun m => pctOf i (X x i.addSeaweed .swBiofuel m * i.seaweedKcals)),
    monthly i.nmonths (fun m => pctOf i (X x i.addOutdoor .cropBiofuel m)),
    monthly i.nmonths (fun m => pctOf i (X x i.addStored .sfBiofuel m)) ]

theorem sumSeries_feedSources (i : Inp K) (x : Var → K) :
    sumSeries (feedSources i x) = monthly i.nmonths (fun m => pctOf i (feedTotal i x m)) := by
  unfold feedSources sumSeries
  simp only [List.foldl_cons, List.foldl_nil, zipWith_add_monthly]
  congr 1; funext m; unfold pctOf feedTotal; ring

theorem sumSeries_biofuelSources (i : Inp K) (x : Var → K) :
    sumSeries (biofuelSources i x) = monthly i.nmonths (fun m => pctOf i (biofuelTotal i x m)) := by
  unfold biofuelSources sumSeries
  simp only [List.foldl_cons, List.foldl_nil, zipWith_add_monthly]
  congr 1; funext m; unfold pctOf biofuelTotal; ring

theorem X_nonneg (x : Var → K) (hx : ∀ v, 0 ≤ x v) (on : Bool) (k : VK) (m : Nat) : 0 ≤ X x on k m := by
  unfold X; split_ifs
  · exact hx _
  · exact le_rfl

theorem feedTotal_nonneg (i : Inp K) (x : Var → K) (hx : ∀ v, 0 ≤ x v) (hk : 0 ≤ i.seaweedKcals) (m : Nat) :
    0 ≤ feedTotal i x m := by
  unfold feedTotal
  have := X_nonneg x hx
  have h3 : 0 ≤ X x i.addSeaweed .swFeed m * i.seaweedKcals := mul_nonneg (this _ _ _) hk
  linarith [this i.addStored .sfFeed m, this i.addOutdoor .cropFeed m, this i.addCs .csFeed m, this i.addScp .scpFeed m]

theorem biofuelTotal_nonneg (i : Inp K) (x : Var → K) (hx : ∀ v, 0 ≤ x v) (hk : 0 ≤ i.seaweedKcals) (m : Nat) :
    0 ≤ biofuelTotal i x m := by
  unfold biofuelTotal
  have := X_nonneg x hx
  have h3 : 0 ≤ X x i.addSeaweed .swBiofuel m * i.seaweedKcals := mul_nonneg (this _ _ _) hk
  linarith [this i.addStored .sfBiofuel m, this i.addOutdoor .cropBiofuel m, this i.addCs .csBiofuel m, this i.addScp .scpBiofuel m]

/-- feed within demand in billion kcals ⇒ `assert_feed_used_below_feed_demand` passes on the reported percent series -/
theorem feedBelowDemand_of_total_le (i : Inp K) (x : Var → K) (eps : K) (heps : 0 ≤ eps) (dem : Nat → K)
    (hb : 0 < i.billionKcalsNeeded) (hx : ∀ v, 0 ≤ x v) (hk : 0 ≤ i.seaweedKcals)
    (h : ∀ m, m < i.nmonths → feedTotal i x m ≤ dem m) :
    usedBelowDemand ⟨false, false⟩ eps (100 / i.billionKcalsNeeded) (monthly i.nmonths dem) (feedSources i x) = some .pass := by
  apply usedBelowDemand_of_le eps _ heps _ _ (by simp [feedSources])
  rw [sumSeries_feedSources]
  apply forall₂_monthly
  intro m hm
  have hm0 : (100 : K) / i.billionKcalsNeeded ≠ 0 := by positivity
  unfold pctOf
  rw [toBillionKcals_mul _ _ hm0]
  exact ⟨feedTotal_nonneg i x hx hk m, h m hm⟩

theorem biofuelBelowDemand_of_total_le (i : Inp K) (x : Var → K) (eps : K) (heps : 0 ≤ eps) (dem : Nat → K)
    (hb : 0 < i.billionKcalsNeeded) (hx : ∀ v, 0 ≤ x v) (hk : 0 ≤ i.seaweedKcals)
    (h : ∀ m, m < i.nmonths → biofuelTotal i x m ≤ dem m) :
    usedBelowDemand ⟨false, false⟩ eps (100 / i.billionKcalsNeeded) (monthly i.nmonths dem) (biofuelSources i x) = some .pass := by
  apply usedBelowDemand_of_le eps _ heps _ _ (by simp [biofuelSources])
  rw [sumSeries_biofuelSources]
  apply forall₂_monthly
  intro m hm
  have hm0 : (100 : K) / i.billionKcalsNeeded ≠ 0 := by positivity
  unfold pctOf
  rw [toBillionKcals_mul _ _ hm0]
  exact ⟨biofuelTotal_nonneg i x hx hk m, h m hm⟩

/-- headline against optimum for the point the pipeline reports (C04: floor and optimality) -/
theorem optimizerSameAsSum_of_feasible (i : Inp K) (x : Var → K) (zopt : K) (code : String)
    (hopt : ∀ x', Feasible (buildLP i .toHumans) x' → x' .objective ≤ zopt)
    (h : Feasible (buildLP i .toHumans ++ floorRows i .toHumans zopt) x)
    (hkm : i.kcalsMonthly ≠ 0) (hN : 0 < i.nmonths) (hz : 0 ≤ zopt) (hz4 : zopt ≤ 10000) :
    optimizerSameAsSum zopt (headline i x) code = .pass :=
  optimizerSameAsSum_of_floor zopt (headline i x) code hz hz4
    (Proofs.Report.headline_ge_floor i x zopt h hkm hN)
    (Proofs.Report.headline_le_optimum i x zopt hopt (Proofs.LP.extra_rows_preserve _ _ x h) hkm hN)

/-! ## 4. validators that are NOT implied: concrete witnesses over ℚ -/

section Concrete
open Allfed.Proofs.LP

/-- the tolerance of the headline check is absolute (half a percentage point), the floor of the later solves is
    relative (`0.99995`): above 10 000 % the two part ways -/
theorem optimizerSameAsSum_counterexample :
    (20000 : ℚ) * 0.99995 ≤ 19999 ∧ (19999 : ℚ) ≤ 20000 ∧ optimizerSameAsSum (20000 : ℚ) 19999 "USA" = .raised := by
  decide +kernel

/-- the small-country branch has no `abs`: a headline 900 points ABOVE the optimum passes there, fails elsewhere -/
theorem optimizerSameAsSum_small_country_one_sided :
    optimizerSameAsSum (100 : ℚ) 1000 "EST" = .pass ∧ optimizerSameAsSum (100 : ℚ) 1000 "USA" = .raised := by
  decide +kernel

/-- a one-row programme `x = 1` -/
def eqRow : Row ℚ := ⟨"row", Aff.var (.mv .sfStart 0), .eq, Aff.k 1⟩
def eqX : Var → ℚ := fun _ => 1

/-- with tolerance 0 an equality that holds EXACTLY fails the re-evaluation (`abs(…) < tol` is strict) -/
theorem checkConstraints_zero_tolerance_counterexample :
    Feasible [eqRow] eqX ∧ checkConstraints (0 : ℚ) [] [eqRow] eqX = some .raised ∧
      checkConstraints (1 : ℚ) [] [eqRow] eqX = some .pass := by
  refine ⟨⟨rows_hold_of_all _ _ (by decide +kernel), fun v => by unfold eqX; norm_num⟩, by decide +kernel, by decide +kernel⟩

/-- a model without rows ends in `max([])`: the ValueError of the code -/
theorem checkConstraints_empty (tol : ℚ) (x : Var → ℚ) : checkConstraints tol [] [] x = none := rfl

/-- a herd growing by 11 % in a month fails the 10 % test; nothing proved about the herd model (C05–C07) bounds growth -/
theorem population_counterexample :
    populationNotIncreasing (1/10 : ℚ) [("beef_population", [100, 111])] = .raised ∧
      populationNotIncreasing (1/10 : ℚ) [("beef_population", [100, 110])] = .pass := by
  decide +kernel

/-- ODD paths of the same check: a herd below one head is a divisor although it counts as zero (0.5 → 1 head is
    "+200 %"); a negative head count flips the comparison; with ε = 0 a herd that stays at zero fails (numpy: 0/0) -/
theorem population_odd_paths :
    popSeriesOK (1/10 : ℚ) [1/2, 1] = false ∧ popSeriesOK (1/10 : ℚ) [-1, 5] = true ∧
      popSeriesOK (0 : ℚ) [0, 0] = false ∧ popSeriesOK (1/10 : ℚ) [0, 0] = true := by
  decide +kernel

/-- round 2 (herds fed in full) with 2 % fewer animals than round 1 fails; milk is exempt -/
theorem round2GreaterThanRound1_counterexample :
    round2GreaterThanRound1 (1/100 : ℚ) 100 [("beef_population", [500, 500])] [("beef_population", [490, 490])] = some .raised ∧
      round2GreaterThanRound1 (1/100 : ℚ) 100 [("milk_produced", [500, 500])] [("milk_produced", [1, 1])] = some .pass ∧
      round2GreaterThanRound1 (1/100 : ℚ) 100 [("beef_population", [500, 500])] [] = none := by
  decide +kernel

/-- `milk_kcals_round2` is never read -/
theorem meatDairy_ignores_round2_milk (eps : ℚ) (m1 m2 k1 k2 k2' : List ℚ) :
    meatDairyNotDecreasing eps m1 m2 k1 k2 = meatDairyNotDecreasing eps m1 m2 k1 k2' := rfl

/-- a threshold above 100 % makes the hand-off's own minimum exceed the daily requirement: the sum check fails on
    the exact output of `minNeeds` (T = 120 %, round 1 fed 150 %) -/
theorem minConsumptionSum_threshold_above_100_counterexample :
    minConsumptionSum ⟨false, false⟩ (1/10000 : ℚ) 2100 (minNeeds (dailyMax 2100 150 120) [[3150, 0, 0, 0, 0, 0, 0, 0, 0]]) = .raised := by
  decide +kernel

/-- equal feed in rounds 2 and 3 fails for ε = 0 (strict comparison), passes for the default -/
theorem feedRound3BelowRound2_zero_eps_counterexample :
    feedRound3BelowRound2 ⟨false, false⟩ (0 : ℚ) [[1, 2]] [[1, 2]] = some .raised ∧
      feedRound3BelowRound2 ⟨false, false⟩ (1/10000 : ℚ) [[1, 2]] [[1, 2]] = some .pass := by
  decide +kernel

/-! ### three rounds on one small instance: crops only, two months, 100 billion kcals needed a month

round 1: 300 + 300 harvested, nothing charged: people eat 300 % each month;
round 2: people pinned to 100 (threshold 100 %), herds can take at most 50 a month: 50 is fed each month;
round 3: charged 250 a month (≤ the demand of 250; C03/C18 bound the final charge by DEMAND, not by what round 2 drew):
         people get 50 % each month, which is the optimum of that programme. -/

def cexBase : Inp ℚ :=
  { emptyInst with nmonths := 2, addOutdoor := true, cropProd := [300, 300], kcalsMonthly := 1, pop := 100000000000 }

def cexI1 : Inp ℚ := cexBase
def cexI2 : Inp ℚ := { cexBase with minCrops := [100, 100], maxFeed := [50, 50] }
def cexI3 : Inp ℚ := { cexBase with feed := [250, 250] }

def cexX1 : Var → ℚ
  | .mv .cropHumans m => [300, 300].getD m 0
  | .mv .cropConsumed m => [300, 300].getD m 0
  | .mv .consumedKcals m => [300, 300].getD m 0
  | .objective => 300
  | _ => 0

def cexX2 : Var → ℚ
  | .mv .cropHumans m => [100, 100].getD m 0
  | .mv .cropFeed m => [50, 50].getD m 0
  | .mv .cropConsumed m => [150, 150].getD m 0
  | .mv .cropStorage m => [150, 300].getD m 0
  | .objective => 200/3
  | _ => 0

def cexX3 : Var → ℚ
  | .mv .cropHumans m => [50, 50].getD m 0
  | .mv .cropFeed m => [250, 250].getD m 0
  | .mv .cropConsumed m => [300, 300].getD m 0
  | .mv .consumedKcals m => [50, 50].getD m 0
  | .objective => 50
  | _ => 0

theorem cexX1_rows : (buildLP cexI1 .toHumans).all (holdsB cexX1) = true := by decide +kernel
theorem cexX2_rows : (buildLP cexI2 .toAnimals).all (holdsB cexX2) = true := by decide +kernel
theorem cexX3_rows : (buildLP cexI3 .toHumans).all (holdsB cexX3) = true := by decide +kernel

theorem cexX1_nonneg : ∀ v, 0 ≤ cexX1 v := by
  intro v
  cases v with
  | mv k m => cases k <;> first | exact le_rfl | exact getD_nonneg _ (by decide +kernel) m
  | objective => show (0 : ℚ) ≤ 300; norm_num
  | objectiveBest => exact le_rfl

theorem cexX2_nonneg : ∀ v, 0 ≤ cexX2 v := by
  intro v
  cases v with
  | mv k m => cases k <;> first | exact le_rfl | exact getD_nonneg _ (by decide +kernel) m
  | objective => show (0 : ℚ) ≤ 200/3; norm_num
  | objectiveBest => exact le_rfl

theorem cexX3_nonneg : ∀ v, 0 ≤ cexX3 v := by
  intro v
  cases v with
  | mv k m => cases k <;> first | exact le_rfl | exact getD_nonneg _ (by decide +kernel) m
  | objective => show (0 : ℚ) ≤ 50; norm_num
  | objectiveBest => exact le_rfl

theorem cex_feasible :
    Feasible (buildLP cexI1 .toHumans) cexX1 ∧ Feasible (buildLP cexI2 .toAnimals) cexX2 ∧ Feasible (buildLP cexI3 .toHumans) cexX3 :=
  ⟨⟨rows_hold_of_all _ _ cexX1_rows, cexX1_nonneg⟩, ⟨rows_hold_of_all _ _ cexX2_rows, cexX2_nonneg⟩,
    ⟨rows_hold_of_all _ _ cexX3_rows, cexX3_nonneg⟩⟩

/-- the kcals-equivalent series (`Report.toKcalsEquiv`) the round-relation validators read: the eight round-2
    series and the ten round-3 series of `assert_fewer_calories_round2_than_round3`, crops split against the harvest -/
def keq (i : Inp ℚ) (kd : ℚ) (x : Var → ℚ) (j : Nat) : List ℚ :=
  monthly i.nmonths (fun m => toKcalsEquiv i kd ((foodsBillions i x m).getD j 0))

def keqSplit (i : Inp ℚ) (kd : ℚ) (x : Var → ℚ) (first : Bool) : List ℚ :=
  monthly i.nmonths (fun m =>
    let sp := splitCrops (at' i.cropProd m) (valIf x i.addOutdoor .cropHumans m)
    toKcalsEquiv i kd (billionsFed i 1 (if first then sp.1 else sp.2)))

def round2Series (i : Inp ℚ) (kd : ℚ) (x : Var → ℚ) : List (List ℚ) :=
  [keq i kd x 6, keq i kd x 3, keq i kd x 4, keq i kd x 5, keq i kd x 2, keqSplit i kd x true, keqSplit i kd x false, keq i kd x 0]

def round3Series (i : Inp ℚ) (kd : ℚ) (x : Var → ℚ) : List (List ℚ) :=
  [keq i kd x 6, keq i kd x 3, keq i kd x 4, keq i kd x 5, keq i kd x 2, keq i kd x 8, keq i kd x 7,
   keqSplit i kd x true, keqSplit i kd x false, keq i kd x 0]

/-- `feed_sum_kcals_equivalent` / `biofuels_sum_kcals_equivalent` -/
def feedKeq (i : Inp ℚ) (kd : ℚ) (x : Var → ℚ) : List ℚ :=
  monthly i.nmonths (fun m => toKcalsEquiv i kd (billionsFed i 1 (feedTotal i x m)))
def biofuelKeq (i : Inp ℚ) (kd : ℚ) (x : Var → ℚ) : List ℚ :=
  monthly i.nmonths (fun m => toKcalsEquiv i kd (billionsFed i 1 (biofuelTotal i x m)))

/-- what the three rounds report: 300 %, (round 2: 2100 kcal a day to people, 1050 to animals), 50 % -/
theorem cex_reports :
    headline cexI1 cexX1 = 300 ∧ headline cexI3 cexX3 = 50 ∧
      sumSeries (round2Series cexI2 2100 cexX2) = [2100, 2100] ∧ feedKeq cexI2 2100 cexX2 = [1050, 1050] ∧
      sumSeries (round3Series cexI3 2100 cexX3) = [1050, 1050] ∧
      sumSeries (feedSources cexI2 cexX2) = [50, 50] ∧ sumSeries (feedSources cexI3 cexX3) = [250, 250] := by
  decide +kernel

/-- round 3's charge stays within a demand of 250 a month, and its own validator confirms it -/
theorem cex_round3_within_demand :
    usedBelowDemand ⟨false, false⟩ (1/10000 : ℚ) (100 / cexI3.billionKcalsNeeded) [250, 250] (feedSources cexI3 cexX3) = some .pass := by
  decide +kernel

/-- … yet the three heuristic relations between rounds fail on these exact feasible points -/
theorem cex_round_relations_fail :
    fewerCaloriesRound2 ⟨false, false⟩ (1/10 : ℚ) (1/10) (feedKeq cexI2 2100 cexX2) (biofuelKeq cexI2 2100 cexX2)
        (round2Series cexI2 2100 cexX2) (round3Series cexI3 2100 cexX3) = .raised ∧
      feedRound3BelowRound2 ⟨false, false⟩ (1/10000 : ℚ) (feedSources cexI2 cexX2) (feedSources cexI3 cexX3) = some .raised ∧
      round3NotLowerThanRound1 (100 : ℚ) (headline cexI1 cexX1) (headline cexI3 cexX3) 1 = .warned ∧
      feedZeroIfStarving ⟨false, false⟩ (headline cexI3 cexX3) (biofuelSources cexI3 cexX3) (feedSources cexI3 cexX3) = .warned := by
  decide +kernel

/-- 50 % is the optimum of round 3 (so the witness is not an artefact of a poor feasible point): 600 harvested,
    500 charged as feed, 100 left for two months -/
theorem cex_round3_optimal (x : Var → ℚ) (h : Feasible (buildLP cexI3 .toHumans) x) : x .objective ≤ 50 := by
  have hon : cexI3.addOutdoor = true := rfl
  have hany : anyFeedVar cexI3 = true := rfl
  have o0 := objective_le_month (m := 0) h (by decide)
  have o1 := objective_le_month (m := 1) h (by decide)
  have k0 := kcals_fed (m := 0) h (by decide)
  have k1 := kcals_fed (m := 1) h (by decide)
  have c := crop_cumulative (m := 1) h hon (by decide)
  have f0 := (feed_biofuel_eq_charge (m := 0) h hany (by decide)).1
  have f1 := (feed_biofuel_eq_charge (m := 1) h hany (by decide)).1
  have nb0 := h.2 (.mv .cropBiofuel 0)
  have nb1 := h.2 (.mv .cropBiofuel 1)
  rw [eval_humanSum] at k0 k1
  simp only [cexI3, cexBase, emptyInst, X, feedTotal, cropUse, grossUp, cum, at', List.getD_cons_zero, List.getD_cons_succ,
    List.getD_nil, Bool.false_eq_true, if_false, if_true] at k0 k1 c f0 f1
  norm_num at k0 k1 c f0 f1
  linarith

/-! ### the headline check on an exactly feasible, floor-respecting point of a programme whose optimum is 20 000 %

two months, need 100; 20 000 of stored food that cannot be carried into a second year (so nothing forces it to be
eaten: D14), fish only in month 1.  Optimum: eat the whole stock in month 0 (20 000 %).  The reported point eats
19 999: it satisfies the floors `0.99995·z` of the later solves, its headline is 19 999 %, one point below the optimum. -/

def bigI : Inp ℚ :=
  { emptyInst with nmonths := 2, addStored := true, storeBetweenYears := false, storedInitial := 20000,
                   fish := [0, 30000], kcalsMonthly := 1, pop := 100000000000 }

def bigX : Var → ℚ
  | .mv .sfStart m => [20000, 1].getD m 0
  | .mv .sfEnd m => [1, 1].getD m 0
  | .mv .sfHumans m => [19999, 0].getD m 0
  | .mv .consumedKcals m => [19999, 30000].getD m 0
  | .objective => 19999
  | _ => 0

theorem bigX_rows : (buildLP bigI .toHumans ++ floorRows bigI .toHumans 20000).all (holdsB bigX) = true := by decide +kernel

theorem bigX_nonneg : ∀ v, 0 ≤ bigX v := by
  intro v
  cases v with
  | mv k m => cases k <;> first | exact le_rfl | exact getD_nonneg _ (by decide +kernel) m
  | objective => show (0 : ℚ) ≤ 19999; norm_num
  | objectiveBest => exact le_rfl

theorem big_optimum (x : Var → ℚ) (h : Feasible (buildLP bigI .toHumans) x) : x .objective ≤ 20000 := by
  have hon : bigI.addStored = true := rfl
  have o0 := objective_le_month (m := 0) h (by decide)
  have k0 := kcals_fed (m := 0) h (by decide)
  have c := stored_cumulative (m := 0) h hon (by decide)
  have n1 := h.2 (.mv .sfFeed 0)
  have n2 := h.2 (.mv .sfBiofuel 0)
  rw [eval_humanSum] at k0
  simp only [bigI, emptyInst, X, storedUse, grossUp, cum, at', List.getD_cons_zero,
    List.getD_nil, Bool.false_eq_true, if_false, if_true] at k0 c
  norm_num at k0 c
  linarith

/-- every hypothesis of `optimizerSameAsSum_of_feasible` but `zopt ≤ 10000`, and the validator raises -/
theorem optimizerSameAsSum_feasible_counterexample :
    (∀ x', Feasible (buildLP bigI .toHumans) x' → x' .objective ≤ 20000) ∧
      Feasible (buildLP bigI .toHumans ++ floorRows bigI .toHumans 20000) bigX ∧ bigI.kcalsMonthly ≠ 0 ∧ 0 < bigI.nmonths ∧
      headline bigI bigX = 19999 ∧ optimizerSameAsSum (20000 : ℚ) (headline bigI bigX) "USA" = .raised :=
  ⟨big_optimum, ⟨rows_hold_of_all _ _ bigX_rows, bigX_nonneg⟩, by decide +kernel, by decide +kernel, by decide +kernel, by decide +kernel⟩

end Concrete

end Allfed.Proofs.Validators
