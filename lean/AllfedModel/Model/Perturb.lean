import AllfedModel.Model.AllocLP
/-
Perturbations of optimiser inputs used by property C12 (scale invariance, monotonicity).
-/
namespace Allfed.Perturb
open Allfed.LP Allfed.AllocLP

section
variable {α : Type} [Mul α]

/-- population and every supply, stock, farm area and seaweed mass multiplied by `k`; yields,
    wastes, growth factors, densities, intake limits and the per-person requirement unchanged -/
def scaleInp (k : α) (i : Inp α) : Inp α :=
  let s := List.map (k * ·)
  { i with
    pop := k * i.pop, billionKcalsNeeded := k * i.billionKcalsNeeded,
    initialSeaweed := k * i.initialSeaweed, initialBuiltArea := k * i.initialBuiltArea,
    storedInitial := k * i.storedInitial, meatSummed := k * i.meatSummed,
    builtArea := s i.builtArea, cropProd := s i.cropProd, maxCulled := s i.maxCulled, slaughtered := s i.slaughtered,
    scp := s i.scp, cs := s i.cs, milk := s i.milk, greenhouse := s i.greenhouse, fish := s i.fish,
    feed := s i.feed, biofuel := s i.biofuel, maxFeed := s i.maxFeed, maxBiofuel := s i.maxBiofuel,
    minSeaweed := s i.minSeaweed, minCrops := s i.minCrops, minStored := s i.minStored, minMeat := s i.minMeat,
    minScp := s i.minScp, minCs := s i.minCs }

/-- quantities scale, percentages (`consumedKcals`, the objective of a human round) do not -/
def scaleX (k : α) (x : Var → α) : Var → α
  | .mv .consumedKcals m => x (.mv .consumedKcals m)
  | .mv kd m => k * x (.mv kd m)
  | .objective => x .objective
  | .objectiveBest => k * x .objectiveBest
end

section
variable {α : Type} [LE α]
/-- pointwise `≤` of two monthly series (as the optimiser reads them: `series[m]`, 0 past the end) -/
def SeriesLe [OfNat α 0] (a b : List α) : Prop := ∀ m, at' a m ≤ at' b m
end

end Allfed.Perturb
