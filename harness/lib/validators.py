"""The model's built-in validators (src/optimizer/validate_results.py, class Validator) against their Lean model
(lean/AllfedModel/Model/Validators.lean, driver ops `val.*` of driver_validators).

check(ctx) does two things (called from props/c16.py: correspondence):
 (a) generated inputs: every numeric validator is called IN-PROCESS on real `Food` objects / result-like namespaces,
     with passing cases and failing cases on both sides of each tolerance; pass / raise / printed warning is compared with
     the model's verdict;
 (b) a few real three-round runs: every Validator method is wrapped from outside for the duration of the run, the numbers
     each call receives are handed to the model, and the verdicts are compared; `check_constraints_satisfied` (dead code in
     the pipeline: CHECK_CONSTRAINTS_FLAG = False) is called by the harness on the final PuLP model of every solve.
A verdict decided on a margin below 1e-9 (relative) is counted as a near-tie and not compared (DESIGN.md §3).
"""
import contextlib, copy, io, math, time, types, warnings
import numpy as np
from lib import wire
from lib.wire import f2b, fl, enc_str

DRIVER = "driver_validators"
FOOD_ATTRS = ["stored_food", "outdoor_crops", "seaweed", "cell_sugar", "scp", "greenhouse", "fish", "meat", "milk",
              "immediate_outdoor_crops", "new_stored_outdoor_crops"]
FEED_ATTRS = ["cell_sugar_feed", "scp_feed", "seaweed_feed", "outdoor_crops_feed", "stored_food_feed"]
BIOFUEL_ATTRS = ["cell_sugar_biofuels", "scp_biofuels", "seaweed_biofuels", "outdoor_crops_biofuels", "stored_food_biofuels"]
PRIO_OUT = ["fish", "meat", "dairy", "greenhouse", "outdoor_crops", "stored_food", "methane_scp", "cellulosic_sugar", "seaweed"]
PRIO_IN = ["fish", "meat", "milk", "greenhouse", "immediate_outdoor_crops", "stored_food", "scp", "cell_sugar", "seaweed"]
KE2 = ["fish", "cell_sugar", "scp", "greenhouse", "seaweed", "immediate_outdoor_crops", "new_stored_outdoor_crops", "stored_food"]
KE3 = ["fish", "cell_sugar", "scp", "greenhouse", "seaweed", "milk", "meat", "immediate_outdoor_crops", "new_stored_outdoor_crops", "stored_food"]
PCT = ("percent people fed each month",) * 3
KE = ("kcals per person per day each month", "effective kcals per person per day each month", "effective kcals per person per day each month")
BIL = ("billion kcals each month", "thousand tons each month", "thousand tons each month")

NEAR = 1e-9
MD = {}   # the MODEL's default tolerances ("method.parameter" -> value), asked from the driver at the start of check()


def load_model_defaults():
    t = wire.run_driver(["val.defaults"], exe_name=DRIVER)[0].split()
    MD.clear()
    for j in range(int(t[0])):
        MD[wire.dec_str(t[1 + 2 * j])] = wire.b2f(t[2 + 2 * j])
    return MD


def tol(method, given, param="epsilon"):
    """(value the model is given, extra positional arguments for the real call): `given=None` = call the real method without
    the parameter (its own default applies) and hand the model ITS default"""
    if given is None:
        return MD[method + "." + param], ()
    return given, (given,)



# ------------------------------------------------------------------------------------------------ plumbing
def _flt(xs):
    return [float(v) for v in np.asarray(xs, dtype=float).ravel()]


def _fl2(series):
    series = list(series)
    return " ".join([str(len(series))] + [fl(_flt(s)) for s in series])


def _flags(fat, prot):
    return "%d %d" % (1 if fat else 0, 1 if prot else 0)


def _dict(d):
    items = list(d.items())
    return " ".join([str(len(items))] + ["%s %s" % (enc_str(k), fl(_flt(v))) for k, v in items])


def call(fn, *a, **k):
    """run a real validator; -> (outcome, printed text).  outcome: pass | raised | error:<Type>"""
    out = io.StringIO()
    try:
        with contextlib.redirect_stdout(out), warnings.catch_warnings(), np.errstate(all="ignore"):
            warnings.simplefilter("ignore")
            fn(*a, **k)
        return "pass", out.getvalue()
    except AssertionError:
        return "raised", out.getvalue()
    except Exception as e:  # ValueError / KeyError / AttributeError / IndexError of the validator itself
        return "error:" + type(e).__name__, out.getvalue()


def set_conversions(kd=2100.0, pop=1e7, fat=False, prot=False):
    from src.food_system.food import Food
    from src.food_system.unit_conversions import UnitConversions
    conv = UnitConversions()
    conv.set_nutrition_requirements(kcals_daily=kd, fat_daily=47.0, protein_daily=51.0, include_fat=fat, include_protein=prot, population=pop)
    Food.conversions = conv
    return conv


def food(k, f=None, p=None, units=PCT):
    from src.food_system.food import Food
    k = np.asarray(k, dtype=float)
    f = np.zeros(len(k)) if f is None else np.asarray(f, dtype=float)
    p = np.zeros(len(k)) if p is None else np.asarray(p, dtype=float)
    return Food(k, f, p, units[0], units[1], units[2])


class Batch:
    """collects (line, impl outcome, …) and compares with the model in one driver call"""

    def __init__(self, ctx, origin):
        self.ctx, self.origin, self.items = ctx, origin, []

    def add(self, validator, line, impl, margin=None, case=None, fuzzy=False):
        """margin: distance of the decided quantity from its threshold, relative to the natural scale of the test (None: no threshold involved);
        fuzzy: the model cannot mirror the code's summation order (np.sum is pairwise; PuLP's term order), so a decision on a margin < 1e-9 is a near-tie"""
        self.items.append((validator, line, impl, margin, case, fuzzy))

    def flush(self):
        ctx = self.ctx
        if not self.items:
            return
        outs = wire.run_driver([it[1] for it in self.items], exe_name=DRIVER)
        for (validator, line, impl, margin, case, fuzzy), ans in zip(self.items, outs):
            model = ans.split()[0] if ans else "?"
            if model == "err":
                ctx.disagree("validators:%s:driver-error" % validator, case, impl, ans[:200])
                continue
            # what the implementation did, in the model's vocabulary
            impl_cmp = impl if not impl.startswith("error:") else "error"
            bucket = _bucket(margin)
            ctx.count("validators:%s:%s:%s:%s" % (self.origin, validator, impl_cmp, bucket))
            ctx.case(("validators", self.origin, validator, line), nontrivial=True,
                     sample={"validator": validator, "origin": self.origin, "impl": impl, "model": model, "margin": margin} if self.origin == "real" else None)
            if fuzzy and margin is not None and abs(margin) < NEAR:
                ctx.count("validators:%s:%s:near-tie-not-compared" % (self.origin, validator))
                continue
            if _norm(impl_cmp) != _norm(model):
                ctx.disagree("validators:%s" % validator, dict(case or {}, origin=self.origin, margin=margin, request=line[:400]), impl, model)
        self.items = []


def _norm(o):
    # `pass` and `skipped` are indistinguishable from outside (the call returns None and prints nothing)
    return "pass" if o == "skipped" else o


def _bucket(margin):
    """how close to its tolerance the decision was taken (the outcome next to it in the counter name says on which side)"""
    if margin is None:
        return "no-threshold"
    a = abs(margin)
    return "margin<=1e-6" if a <= 1e-6 else "margin<=1e-3" if a <= 1e-3 else "margin<=0.1" if a <= 0.1 else "margin>0.1"


def _deltas(rng):
    """relative distances from a threshold, both sides, from just beyond the near-tie band to far"""
    return rng.choice([1e-8, 1e-7, 1e-6, 1e-4, 1e-3, 1e-2, 0.1, 0.5]) * rng.choice([1.0, -1.0])


# ------------------------------------------------------------------------------------------------ request lines
def line_foods(op, fat, prot, foods):
    """foods: attr -> (kcals, fat, protein)"""
    return "%s %s %s" % (op, _flags(fat, prot), " ".join("%s %s %s" % (fl(_flt(foods[a][0])), fl(_flt(foods[a][1])), fl(_flt(foods[a][2]))) for a in FOOD_ATTRS))


def foods_of(ns):
    return {a: (getattr(ns, a).kcals, getattr(ns, a).fat, getattr(ns, a).protein) for a in FOOD_ATTRS}


def line_samesum(opt, head, code):
    return "val.samesum %s %s %s" % (f2b(opt), f2b(head), enc_str(code))


def line_constraints(tol, skip, rows, values):
    """rows: [(name, sense, {varname: coef}, constant)]; values: varname -> value"""
    names = sorted(values)
    idx = {n: i for i, n in enumerate(names)}
    parts = ["val.constraints", f2b(tol), str(len(skip))] + [enc_str(s) for s in skip] + [str(len(rows))]
    for name, sense, co, const in rows:
        parts += [enc_str(name), {-1: "le", 0: "eq", 1: "ge"}[sense], str(len(co))]
        for v, c in co.items():
            parts += [str(idx[v]), f2b(c)]
        parts.append(f2b(const))
    parts.append(fl([0.0 if values[n] is None else values[n] for n in names]))
    return " ".join(parts)


def line_population(eps, d):
    return "val.population %s %s" % (f2b(eps), _dict(d))


def line_round2gt(eps, small, d1, d2):
    return "val.round2gt %s %s %s %s" % (f2b(eps), f2b(small), _dict(d1), _dict(d2))


def line_meatdairy(eps, m1, m2, k1, k2):
    return "val.meatdairy %s %s %s %s %s" % (f2b(eps), fl(_flt(m1)), fl(_flt(m2)), fl(_flt(k1)), fl(_flt(k2)))


def line_minsum(fat, prot, eps, kd, mh):
    cols = [_flt(mh[k].kcals) for k in mh]  # dictionary order, as the code iterates
    months = [list(r) for r in zip(*cols)]
    return "val.minsum %s %s %s %s" % (_flags(fat, prot), f2b(eps), f2b(kd), _fl2(months))


def line_priorities(fat, prot, eps, ns, mh):
    n = len(mh["fish"].kcals)
    months = []
    for m in range(n):
        row = []
        for o, i_ in zip(PRIO_OUT, PRIO_IN):
            av = getattr(ns, i_ + "_kcals_equivalent").kcals
            if o == "outdoor_crops":
                av = ns.immediate_outdoor_crops_kcals_equivalent.kcals + ns.new_stored_outdoor_crops_kcals_equivalent.kcals
            row.append((float(mh[o].kcals[m]), float(av[m])))
        months.append(row)
    return "val.priorities %s %s %d %s" % (_flags(fat, prot), f2b(eps), n,
                                           " ".join("%d %s" % (len(r), " ".join("%s %s" % (f2b(u), f2b(a)) for u, a in r)) for r in months))


def line_fewer(fat, prot, eps, ae, ns2, ns3):
    return "val.fewer %s %s %s %s %s %s %s" % (
        _flags(fat, prot), f2b(eps), f2b(ae), fl(_flt(ns2.feed_sum_kcals_equivalent.kcals)), fl(_flt(ns2.biofuels_sum_kcals_equivalent.kcals)),
        _fl2([getattr(ns2, a + "_kcals_equivalent").kcals for a in KE2]), _fl2([getattr(ns3, a + "_kcals_equivalent").kcals for a in KE3]))


def _sources(ns, attrs):
    return [getattr(ns, a).kcals for a in attrs if hasattr(ns, a)]


def line_below(fat, prot, eps, mult, demand, ns, attrs):
    return "val.below %s %s %s %s %s" % (_flags(fat, prot), f2b(eps), f2b(mult), fl(_flt(demand.kcals)), _fl2(_sources(ns, attrs)))


def line_feed32(fat, prot, eps, ns2, ns3):
    return "val.feed32 %s %s %s %s" % (_flags(fat, prot), f2b(eps), _fl2(_sources(ns2, FEED_ATTRS)), _fl2(_sources(ns3, FEED_ATTRS)))


def line_starving(fat, prot, pf, ns):
    return "val.starving %s %s %s %s" % (_flags(fat, prot), f2b(pf), _fl2([getattr(ns, a).kcals for a in BIOFUEL_ATTRS]),
                                         _fl2([getattr(ns, a).kcals for a in FEED_ATTRS]))


def line_round31(T, p1, p3, eps):
    return "val.round31 %s %s %s %s" % (f2b(T), f2b(p1), f2b(p3), f2b(eps))


def unit_multiplier(food_obj):
    """multiplier of the kcals unit of `food_obj` w.r.t. billion kcals (what in_units divides by)"""
    return float(food_obj.get_unit_multipliers_from_billion_kcals_thou_tons_thou_tons(food_obj.units)[0])


# ------------------------------------------------------------------------------------------------ (a) generated inputs
def _series(rng, n, scale=1.0, zero_p=0.15):
    return [0.0 if rng.random() < zero_p else scale * rng.random() for _ in range(n)]


def _flagpair(rng):
    return rng.choice([(False, False)] * 3 + [(True, False), (False, True), (True, True)])


def gen_foods(rng, n, scale=50.0):
    return {a: [_series(rng, n, scale), _series(rng, n, scale * 0.1), _series(rng, n, scale * 0.1)] for a in FOOD_ATTRS}


def ns_of_foods(foods, units=PCT):
    ns = types.SimpleNamespace()
    for a, (k, f, p) in foods.items():
        setattr(ns, a, food(k, f, p, units))
    return ns


# per-series tolerance of ensure_all_greater_than_or_equal_to_zero: value below which the series fails
GE0_THRESHOLD = {"cell_sugar": -1e-6, "scp": -1e-6, "greenhouse": -5e-7, "fish": 0.0, "meat": -5e-7, "milk": 0.0, "new_stored_outdoor_crops": 0.0}


def synth_sweeps(ctx, V, B, k):
    rng = ctx.rng
    for _ in range(40 * k):
        fat, prot = _flagpair(rng)
        set_conversions(fat=fat, prot=prot)
        n = rng.choice([1, 2, 12, 48])
        foods = gen_foods(rng, n)
        margin = None
        kind = rng.choice(["clean", "threshold", "threshold", "threshold", "untested-negative", "nan", "zero-kcals"])
        if kind == "threshold":
            a = rng.choice(sorted(GE0_THRESHOLD))
            which = rng.choice([0, 0, 1, 2])
            d = _deltas(rng)
            thr = GE0_THRESHOLD[a]
            # relative to the tolerance; for the tolerance-free series an absolute step
            v = thr * (1 - d) if thr != 0 else d * 1e-9
            foods[a][which][rng.randrange(n)] = v
            counted = which == 0 or (which == 1 and fat) or (which == 2 and prot)
            margin = (d if counted else None)
        elif kind == "untested-negative":
            a = rng.choice(["stored_food", "outdoor_crops", "seaweed", "immediate_outdoor_crops"])
            foods[a][0][rng.randrange(n)] = -rng.choice([1e-3, 1.0, 100.0])
        elif kind == "nan":
            foods[rng.choice(FOOD_ATTRS)][rng.choice([0, 1, 2])][rng.randrange(n)] = float("nan")
        elif kind == "zero-kcals":
            a = rng.choice(FOOD_ATTRS)
            j = rng.randrange(n)
            foods[a][0][j] = 0.0
            foods[a][rng.choice([1, 2])][j] = rng.choice([0.0, 1e-12, 3.0])
        ns = ns_of_foods(foods)
        case = {"kind": kind, "include_fat": fat, "include_protein": prot, "nmonths": n}
        B.add("ensure_all_greater_than_or_equal_to_zero", line_foods("val.allge0", fat, prot, foods),
              call(V.ensure_all_greater_than_or_equal_to_zero, ns)[0], margin if kind == "threshold" else None, case)
        B.add("ensure_never_nan", line_foods("val.nevernan", fat, prot, foods), call(V.ensure_never_nan, ns)[0], None, case)
        B.add("ensure_zero_kcals_have_zero_fat_and_protein", line_foods("val.zerokcals", fat, prot, foods),
              call(V.ensure_zero_kcals_have_zero_fat_and_protein, ns)[0], None, case)
    set_conversions()


def synth_samesum(ctx, V, B, k):
    rng = ctx.rng
    codes = ["USA", "ARG", "EST", "LUX", "CYP", "GUY", "SWT", "est", ""]
    for _ in range(60 * k):
        code = rng.choice(codes)
        head = rng.choice([0.0, 5.0, 87.3, 100.0, 422.2871, 25000.0]) * rng.choice([1.0, rng.random()])
        small = code in ("EST", "LUX", "CYP", "GUY", "SWT")
        thr = rng.choice([4.5] if small else [0.5, -0.5])
        d = _deltas(rng)
        mode = rng.choice(["threshold", "threshold", "relative-floor", "random", "nan"])
        if mode == "threshold":
            diff = thr * (1 - d) if thr > 0 else thr * (1 - d)
            opt = head + diff
            real_diff = opt - head
            margin = (thr - real_diff) / abs(thr) if thr > 0 else (real_diff - thr) / abs(thr)
        elif mode == "relative-floor":     # what the pipeline produces: headline = 0.99995 * optimum
            opt = head
            head = 0.99995 * opt
            margin = None
        elif mode == "nan":
            opt, margin = float("nan"), None
        else:
            opt, margin = head + rng.uniform(-8, 8), None
        ns = types.SimpleNamespace(percent_people_fed=head)
        impl, printed = call(V.ensure_optimizer_returns_same_as_sum_nutrients, opt, ns, False, False, code)
        B.add("ensure_optimizer_returns_same_as_sum_nutrients", line_samesum(opt, head, code), impl, margin,
              {"optimum": opt, "headline": head, "country": code})


def synth_constraints(ctx, V, B, k):
    import pulp
    rng = ctx.rng
    for _ in range(25 * k):
        nv = rng.randint(1, 6)
        names = ["Food_%s_Month_%d_Variable" % (rng.choice("ABC"), i) for i in range(nv)]
        m = pulp.LpProblem("t", pulp.LpMaximize)
        xs = [pulp.LpVariable(nm, lowBound=0) for nm in names]
        m += pulp.lpSum(xs), "objective_row"
        vals = [rng.choice([0.0, 1.0, rng.uniform(0, 50), rng.uniform(0, 1e4)]) for _ in xs]
        nrows = rng.randint(0 if rng.random() < 0.05 else 1, 5)
        margin = None
        worst = None
        skip = []
        for r in range(nrows):
            co = [rng.choice([0.0, 1.0, -1.0, rng.uniform(-3, 3)]) for _ in xs]
            if not any(co):
                co[0] = 1.0
            lhs = sum(c * v for c, v in zip(co, vals))
            sense = rng.choice(["le", "eq", "ge"])
            # residual (how far the row is from holding) placed around the tolerance 1
            d = _deltas(rng)
            resid = rng.choice([0.0, 0.0, 1.0 * (1 - d), 1.0 * (1 - d), rng.uniform(-5, 0.9)])
            if sense == "le":
                rhs = lhs - resid
            elif sense == "ge":
                rhs = lhs + resid
            else:
                rhs = lhs + resid * rng.choice([1, -1])
            e = pulp.lpSum(c * x for c, x in zip(co, xs) if c != 0.0)
            name = "row_%d" % r
            m += (e <= rhs if sense == "le" else e >= rhs if sense == "ge" else e == rhs), name
            if rng.random() < 0.1:
                skip.append(name)
                continue
            mg = 1.0 - (abs(resid) if sense == "eq" else resid)
            worst = mg if worst is None else min(worst, mg)
        for x, v in zip(xs, vals):
            x.varValue = v
        used = {v.name for v in m.variables()}
        rows = [(nm, con.sense, {v.name: c for v, c in con.items()}, con.constant) for nm, con in m.constraints.items()]
        values = {x.name: x.varValue for x in xs if x.name in used}
        impl, _ = call(V.check_constraints_satisfied, m, list(skip), m.variables())
        margin = worst
        B.add("check_constraints_satisfied", line_constraints(MD["check_constraints_satisfied.tolerance"], skip, rows, values), impl, margin, {"rows": nrows, "vars": nv}, fuzzy=True)


def synth_herds(ctx, V, B, k):
    rng = ctx.rng
    for _ in range(60 * k):
        eps, ea = tol("assert_population_not_increasing", rng.choice([None, None, None, 0.1, 0.05, 0.0, 1.0]))
        d = {}
        margin = None
        mode = rng.choice(["decline", "threshold", "threshold", "small-herd", "zeros", "random"])
        n = rng.choice([2, 3, 12, 48])
        base = 10 ** rng.uniform(1, 7)
        s = [base * (0.97 ** i) for i in range(n)]
        if mode == "threshold":
            j = rng.randrange(n - 1)
            dd = _deltas(rng)
            s[j + 1] = s[j] * (1 + eps * (1 - dd))
            for i in range(j + 2, n):
                s[i] = s[j + 1] * (0.97 ** (i - j - 1))
            margin = dd if eps > 0 else None
        elif mode == "small-herd":
            s = [rng.choice([0.0, 0.3, 0.99, 1.0, 1.5, 5.0]) for _ in range(n)]
        elif mode == "zeros":
            s = [rng.choice([0.0, 0.0, base, 2.0]) for _ in range(n)]
        elif mode == "random":
            s = [base * rng.uniform(0.8, 1.15) for _ in range(n)]
        d["chicken_population"] = s
        d["chicken_slaughtered"] = [base * rng.uniform(0, 3) for _ in range(n)]     # not a population: ignored
        d["milk_cattle_population"] = [base * (0.99 ** i) for i in range(n)]
        impl, _ = call(V.assert_population_not_increasing, copy.deepcopy(d), *ea)
        B.add("assert_population_not_increasing", line_population(eps, d), impl, margin, {"mode": mode, "epsilon": eps, "default": not ea, "series": s[:6]})
    for _ in range(60 * k):
        g = rng.choice([None, None, None, (1e-2, 100.0), (0.0, 100.0), (0.1, 10.0)])
        eps = MD["assert_round2_meat_and_population_greater_than_round1.epsilon"] if g is None else g[0]
        small = MD["assert_round2_meat_and_population_greater_than_round1.small_number"] if g is None else g[1]
        ea = () if g is None else g
        n = rng.choice([1, 12, 48])
        keys = ["beef_population", "beef_slaughtered", "milk_produced", "milk_cattle_population", "pig_meat"]
        d1 = {kk: [10 ** rng.uniform(0, 4) * rng.random() for _ in range(n)] for kk in keys}
        d2 = {kk: [v * rng.uniform(0.995, 1.2) for v in vv] for kk, vv in d1.items()}
        mode = rng.choice(["ok", "ratio", "ratio", "small", "milk-lower", "missing-key"])
        margin = None
        kk = rng.choice(["beef_population", "beef_slaughtered", "pig_meat", "milk_cattle_population"])
        dd = _deltas(rng)
        if mode == "ratio":
            s1 = float(np.sum(d1[kk]))
            target = s1 * (1 - eps) * (1 + dd)
            d2[kk] = [v * target / s1 for v in d1[kk]]
            others_ok = all(float(np.sum(d2[q])) >= float(np.sum(d1[q])) for q in keys if q != kk)
            margin = dd if (float(np.sum(d2[kk])) >= small * 1.001 and others_ok) else None
        elif mode == "small":
            target = small * (1 - dd)      # below `small_number` the comparison is skipped
            s1 = float(np.sum(d1[kk]))
            d1[kk] = [v * 10 * small / s1 for v in d1[kk]]      # round 1 far above: fails unless skipped
            d2[kk] = [v * target / float(np.sum(d1[kk])) for v in d1[kk]]
            margin = dd
        elif mode == "milk-lower":
            d2["milk_produced"] = [v * 0.1 for v in d1["milk_produced"]]        # milk is not tested
        elif mode == "missing-key":
            del d2[kk]
        impl, _ = call(V.assert_round2_meat_and_population_greater_than_round1, d1, d2, *ea)
        B.add("assert_round2_meat_and_population_greater_than_round1", line_round2gt(eps, small, d1, d2), impl, margin,
              {"mode": mode, "key": kk, "epsilon": eps, "small_number": small, "default": not ea}, fuzzy=True)
    for _ in range(40 * k):
        eps, ea = tol("assert_meat_dairy_doesnt_decrease_round_2", rng.choice([None, None, 1e-2, 0.0, 0.2]))
        n = rng.choice([1, 12, 48])
        m1 = np.array([10 ** rng.uniform(0, 3) * rng.random() for _ in range(n)])
        k1 = np.array([10 ** rng.uniform(0, 3) * rng.random() for _ in range(n)])
        k2 = k1 * rng.choice([0.0, 1.0, 5.0])            # never read by the validator
        dd = _deltas(rng)
        mode = rng.choice(["threshold", "threshold", "more", "milk2-collapses"])
        if mode == "threshold":
            need = (m1.sum() + k1.sum()) * (1 - eps) - k1.sum()      # round-2 meat total at which the test is an equality
            m2 = m1 * ((need + dd * (m1.sum() + k1.sum())) / m1.sum())
            margin = dd
        else:
            m2, margin = m1 * rng.uniform(1.0, 1.5), None
            if mode == "milk2-collapses":
                k2 = k1 * 0.0
        impl, _ = call(V.assert_meat_dairy_doesnt_decrease_round_2, m1, m2, k1, k2, *ea)
        B.add("assert_meat_dairy_doesnt_decrease_round_2", line_meatdairy(eps, m1, m2, k1, k2), impl, margin, {"mode": mode, "epsilon": eps, "default": not ea}, fuzzy=True)


def _fill(cap, foods):
    out, rem = [], cap
    for f in foods:
        c = min(f, rem)
        rem -= c
        out.append(c)
    return out


def synth_round2(ctx, V, B, k):
    rng = ctx.rng
    for _ in range(60 * k):
        fat, prot = rng.choice([(False, False)] * 5 + [(True, False), (False, True)])
        kd = rng.choice([2100.0, 2100.0, 1800.0])
        set_conversions(kd=kd, fat=fat, prot=prot)
        given = rng.choice([None, None, None, 1e-4, 0.0, 1e-2])
        eps, ea = tol("verify_minimum_food_consumption_sum_round2", given)
        eps2, ea2 = tol("verify_food_usage_priorities_round2", given)
        n = rng.choice([1, 3, 12, 48])
        T = rng.choice([100.0, 100.0, 50.0, 10.0, 120.0])        # 120: a cap above the requirement (the sum check must fail)
        avail = [[kd * rng.choice([0.0, 0.0, 0.05, 0.3, 0.6]) * rng.random() for _ in range(10)] for _ in range(n)]
        nine = [[r[0], r[1], r[2], r[3], r[4] + r[5], r[6], r[7], r[8], r[9]] for r in avail]
        p1 = min(sum(r) for r in nine) / kd * 100
        cap = kd * min(p1, T) / 100
        used = [_fill(cap, r) for r in nine]
        mode = rng.choice(["handoff", "handoff", "sum-threshold", "priority-threshold", "priority-broken", "avail-threshold"])
        m_sum = m_pri = None
        dd = _deltas(rng)
        j = rng.randrange(n)
        if mode == "sum-threshold":
            # scale one month so that its total sits at kcals_daily*(1+eps)*(1-dd)
            tot = sum(used[j])
            if tot > 0:
                fac = kd * (1 + eps) * (1 - dd) / tot
                used[j] = [u * fac for u in used[j]]
                others = all(sum(u) <= kd * (1 + eps) * (1 - 1e-6) for i_, u in enumerate(used) if i_ != j)
                m_sum = dd if others else None
        elif mode in ("priority-threshold", "priority-broken"):
            # two foods available; the earlier used to 40 %, the later to 40 %*(1+eps)*(1-dd)
            a, b = sorted(rng.sample(range(9), 2))
            nine[j] = [0.0] * 9
            used[j] = [0.0] * 9
            nine[j][a], nine[j][b] = kd * 0.3, kd * 0.2
            used[j][a] = 0.4 * nine[j][a]
            ratio = 0.4 * (1 + eps) * (1 - dd) if mode == "priority-threshold" else 0.9
            used[j][b] = ratio * nine[j][b]
            # rebuild the ten availability columns (outdoor crops split in two)
            avail[j] = nine[j][:4] + [nine[j][4] * 0.25, nine[j][4] * 0.75] + nine[j][5:]
            m_pri = dd if mode == "priority-threshold" else None
        elif mode == "avail-threshold":
            # a food whose availability sits at epsilon: skipped below, tested above (and then over-used -> fails)
            a = rng.randrange(1, 9)
            nine[j] = [0.0] * 9
            used[j] = [0.0] * 9
            nine[j][0], used[j][0] = kd * 0.5, kd * 0.1        # fish used to 20 %
            base_eps = eps if eps > 0 else 1e-4
            nine[j][a] = base_eps * (1 - dd)
            used[j][a] = nine[j][a] * 0.9                        # 90 % > 20 %
            avail[j] = nine[j][:4] + [nine[j][4] * 0.5, nine[j][4] * 0.5] + nine[j][5:]
            m_pri = -dd if eps > 0 else None
        ns = types.SimpleNamespace(include_fat=fat, include_protein=prot)
        cols = list(zip(*avail))
        for name, col in zip(["fish", "meat", "milk", "greenhouse", "immediate_outdoor_crops", "new_stored_outdoor_crops", "stored_food", "scp", "cell_sugar", "seaweed"], cols):
            setattr(ns, name + "_kcals_equivalent", food(col, units=KE))
        mh = {o: food([used[m][q] for m in range(n)], units=KE) for q, o in enumerate(PRIO_OUT)}
        case = {"mode": mode, "epsilon": eps, "T": T, "kcals_daily": kd, "include_fat": fat, "include_protein": prot, "month": j}
        case["default"] = not ea
        impl, _ = call(V.verify_minimum_food_consumption_sum_round2, ns, mh, *ea)
        B.add("verify_minimum_food_consumption_sum_round2", line_minsum(fat, prot, eps, kd, mh), impl, m_sum, case)
        impl, _ = call(V.verify_food_usage_priorities_round2, ns, mh, *ea2)
        B.add("verify_food_usage_priorities_round2", line_priorities(fat, prot, eps2, ns, mh), impl, m_pri, case)
    set_conversions()


def _ns_ke(rng, n, kd, attrs, fat=False, prot=False):
    ns = types.SimpleNamespace(include_fat=fat, include_protein=prot)
    for a in attrs:
        setattr(ns, a + "_kcals_equivalent", food(_series(rng, n, kd * 0.15), units=KE))
    return ns


def synth_rounds(ctx, V, B, k):
    rng = ctx.rng
    # assert_fewer_calories_round2_than_round3
    for _ in range(50 * k):
        fat, prot = rng.choice([(False, False)] * 5 + [(True, False), (False, True)])
        kd = 2100.0
        set_conversions(kd=kd, fat=fat, prot=prot)
        n = rng.choice([1, 12, 48])
        g = rng.choice([None, None, None, (0.1, 0.1), (0.0, 0.0), (1e-4, 0.0), (0.0, 5.0)])
        eps = MD["assert_fewer_calories_round2_than_round3.epsilon"] if g is None else g[0]
        ae = MD["assert_fewer_calories_round2_than_round3.absepsilon"] if g is None else g[1]
        ea = () if g is None else g
        ns2 = _ns_ke(rng, n, kd, KE3)
        ns3 = _ns_ke(rng, n, kd, KE3, fat, prot)
        mode = rng.choice(["threshold", "threshold", "random", "no-feed", "meat-only-round2"])
        feed = [rng.choice([0.0, 50.0]) for _ in range(n)]
        if mode == "no-feed":
            feed = [0.0] * n
        elif not any(feed):
            feed[0] = 1.0
        ns2.feed_sum_kcals_equivalent = food(feed, units=KE)
        ns2.biofuels_sum_kcals_equivalent = food([0.0] * n, units=KE)
        margin = None
        if mode == "meat-only-round2":      # round 2 far above round 3, but only through meat and milk, which round 2 does not count
            for a in KE2:
                getattr(ns2, a + "_kcals_equivalent").kcals[:] = 0.0
            ns2.meat_kcals_equivalent.kcals[:] = 5 * kd
        if mode == "threshold":
            t2 = sum(getattr(ns2, a + "_kcals_equivalent").kcals for a in KE2)
            t3 = sum(getattr(ns3, a + "_kcals_equivalent").kcals for a in KE3)
            # lift round 3 well above everywhere, then put one month at the threshold
            lift = np.maximum(0.0, t2 - t3) + 10.0
            ns3.stored_food_kcals_equivalent.kcals = ns3.stored_food_kcals_equivalent.kcals + lift
            j = rng.randrange(n)
            t3 = sum(getattr(ns3, a + "_kcals_equivalent").kcals for a in KE3)
            dd = _deltas(rng)
            thr = t2[j] * (1 - eps) - ae
            want = thr + dd * max(t2[j], 1.0)
            # lower the last summand so that the month total becomes `want`
            ns3.stored_food_kcals_equivalent.kcals[j] += want - t3[j]
            if ns3.stored_food_kcals_equivalent.kcals[j] >= 0:
                margin = dd
        impl, _ = call(V.assert_fewer_calories_round2_than_round3, ns2, ns3, *ea)
        B.add("assert_fewer_calories_round2_than_round3", line_fewer(fat, prot, eps, ae, ns2, ns3), impl, margin,
              {"mode": mode, "epsilon": eps, "absepsilon": ae, "default": not ea, "include_fat": fat, "include_protein": prot})
    # feed / biofuel below demand; feed round 3 below round 2; feed zero if starving
    for _ in range(60 * k):
        fat, prot = rng.choice([(False, False)] * 5 + [(True, False), (False, True)])
        kd, pop = 2100.0, 10 ** rng.uniform(5.5, 9.5)
        conv = set_conversions(kd=kd, pop=pop, fat=fat, prot=prot)
        bkn = conv.billion_kcals_needed
        n = rng.choice([1, 12, 48])
        which = rng.choice(["feed", "biofuels"])
        eps, ea = tol("assert_%s_used_below_%s_demand" % (which, which), rng.choice([None, None, None, 1e-4, 0.0, 1e-2]))
        attrs = FEED_ATTRS if which == "feed" else BIOFUEL_ATTRS
        ns = types.SimpleNamespace(include_fat=fat, include_protein=prot)
        for a in FEED_ATTRS + BIOFUEL_ATTRS:
            setattr(ns, a, food(_series(rng, n, 10.0), units=PCT))
        tot_pct = sum(getattr(ns, a).kcals for a in attrs)
        tot_bil = tot_pct * bkn / 100.0
        mode = rng.choice(["threshold-rel", "threshold-abs", "ample", "short", "missing-attrs"])
        dd = _deltas(rng)
        margin = None
        if mode == "threshold-rel":
            # demand = used*(1-eps) - 1e-6 is the edge; step relative to the amount
            j = rng.randrange(n)
            dem = tot_bil * 1.5 + 1.0
            dem[j] = tot_bil[j] * (1 - eps) - 1e-6 + dd * max(tot_bil[j], 1e-3)
            margin = dd if tot_bil[j] > 1e-3 else None
        elif mode == "threshold-abs":
            # tiny amounts: the absolute 1e-6 decides
            for a in attrs:
                getattr(ns, a).kcals[:] = 0.0
            dem = np.full(n, 1.0)
            j = rng.randrange(n)
            dem[j] = -1e-6 * (1 - dd)
            margin = dd
        elif mode == "ample":
            dem = tot_bil * rng.uniform(1.0, 2.0) + 1e-3
        elif mode == "short":
            dem = tot_bil * rng.uniform(0.3, 0.99)
        else:
            for a in attrs[rng.choice([0, 2]):]:
                delattr(ns, a)
            dem = tot_bil * 2 + 1.0
        demand = food(dem, units=BIL)
        fn = V.assert_feed_used_below_feed_demand if which == "feed" else V.assert_biofuels_used_below_biofuels_demand
        src0 = [getattr(ns, a) for a in attrs if hasattr(ns, a)]
        mult = unit_multiplier(src0[0]) if src0 else 100.0 / bkn
        line = line_below(fat, prot, eps, mult, demand, ns, attrs)
        impl, _ = call(fn, demand, ns, 1, *ea)
        B.add("assert_%s_used_below_%s_demand" % (which, which), line, impl, margin, {"mode": mode, "epsilon": eps, "default": not ea, "population": pop, "include_fat": fat, "include_protein": prot})
    for _ in range(40 * k):
        fat, prot = rng.choice([(False, False)] * 5 + [(True, False), (False, True)])
        set_conversions(fat=fat, prot=prot)
        n = rng.choice([1, 12, 48])
        eps, ea = tol("assert_feed_used_round3_below_feed_used_round2", rng.choice([None, None, None, 1e-4, 0.0, 1.0]))
        ns2 = types.SimpleNamespace()
        ns3 = types.SimpleNamespace(include_fat=fat, include_protein=prot)
        for a in FEED_ATTRS:
            setattr(ns2, a, food(_series(rng, n, 10.0), units=PCT))
            setattr(ns3, a, food(list(getattr(ns2, a).kcals * rng.uniform(0.2, 1.0)), units=PCT))
        mode = rng.choice(["threshold", "threshold", "equal", "lower", "round2-has-no-feed-attrs"])
        margin = None
        if mode == "threshold":
            j = rng.randrange(n)
            dd = _deltas(rng)
            t2 = sum(getattr(ns2, a).kcals for a in FEED_ATTRS)
            t3 = sum(getattr(ns3, a).kcals for a in FEED_ATTRS)
            base_eps = eps if eps > 0 else 1e-4
            # round 3 above round 2 by eps*(1-dd)
            ns3.stored_food_feed.kcals[j] += (t2[j] - t3[j]) + base_eps * (1 - dd)
            margin = dd if eps > 0 else None
        elif mode == "equal":
            for a in FEED_ATTRS:
                getattr(ns3, a).kcals[:] = getattr(ns2, a).kcals
        elif mode == "round2-has-no-feed-attrs":
            ns2 = types.SimpleNamespace()
        line = line_feed32(fat, prot, eps, ns2, ns3)      # before the call: `+=` inside sum_feed_sources rebinds, it does not mutate
        impl, _ = call(V.assert_feed_used_round3_below_feed_used_round2, ns2, ns3, *ea)
        B.add("assert_feed_used_round3_below_feed_used_round2", line, impl, margin, {"mode": mode, "epsilon": eps, "default": not ea, "include_fat": fat, "include_protein": prot})
    for _ in range(40 * k):
        fat, prot = rng.choice([(False, False)] * 6 + [(True, False), (False, True)])
        set_conversions(fat=fat, prot=prot)
        n = rng.choice([1, 12, 48])
        ns = types.SimpleNamespace(include_fat=fat, include_protein=prot, constants={"NMONTHS": n})
        for a in FEED_ATTRS + BIOFUEL_ATTRS:
            setattr(ns, a, food([0.0] * n, units=PCT))
        dd = _deltas(rng)
        mode = rng.choice(["fed-threshold", "sum-threshold", "sum-threshold", "starving-with-feed", "fed-with-feed"])
        margin = None
        if mode == "fed-threshold":
            pf = 99.9 * (1 + dd)       # at or above 99.9 nothing is looked at
            ns.stored_food_feed.kcals[rng.randrange(n)] = 7.0
            margin = dd
        elif mode == "sum-threshold":
            pf = rng.uniform(0, 99)
            edge = 0.1 / (1 - 1e-5)      # |b| <= 0.1 + 1e-5 |b|
            ns.scp_biofuels.kcals[rng.randrange(n)] = edge * (1 - dd)
            margin = dd
        elif mode == "starving-with-feed":
            pf = rng.uniform(0, 99)
            ns.seaweed_feed.kcals[rng.randrange(n)] = rng.uniform(0.5, 30)
        else:
            pf = rng.uniform(100, 400)
            ns.seaweed_feed.kcals[rng.randrange(n)] = rng.uniform(0.5, 30)
        ns.percent_people_fed = pf
        impl, printed = call(V.assert_feed_and_biofuel_used_is_zero_if_humans_are_starving.__func__ if hasattr(V.assert_feed_and_biofuel_used_is_zero_if_humans_are_starving, "__func__")
                             else V.assert_feed_and_biofuel_used_is_zero_if_humans_are_starving, ns)
        if impl == "pass" and "ASSERT FAILED" in printed:
            impl = "warned"
        B.add("assert_feed_and_biofuel_used_is_zero_if_humans_are_starving", line_starving(fat, prot, pf, ns), impl, margin,
              {"mode": mode, "percent_fed": pf, "include_fat": fat, "include_protein": prot})
    for _ in range(60 * k):
        T = rng.choice([100.0, 100.0, 10.0, 50.0, 0.0])
        eps, ea = tol("assert_round3_percent_fed_not_lower_than_round1", rng.choice([None, None, None, 1.0, 0.0, 0.01]))
        dd = _deltas(rng)
        mode = rng.choice(["starving-threshold", "lower-threshold", "lower-threshold", "random"])
        margin = None
        if mode == "starving-threshold":
            # the gate: p3 <= T - 0.1; p1 far above so that an open gate prints
            p3 = (T - 0.1) + dd * 1.0
            p1 = p3 + eps + 30.0
            margin = dd
        elif mode == "lower-threshold":
            p3 = T - 0.1 - rng.uniform(1, 50) if T > 0 else -5.0
            p1 = p3 + eps + (-dd) * max(1.0, abs(p3))
            margin = dd
        else:
            p3, p1 = rng.uniform(0, 150), rng.uniform(0, 150)
        impl, printed = call(V.assert_round3_percent_fed_not_lower_than_round1, T, p1, p3, *ea)
        if impl == "pass" and "Humans starving in round 3" in printed:
            impl = "warned"
        B.add("assert_round3_percent_fed_not_lower_than_round1", line_round31(T, p1, p3, eps), impl, margin,
              {"mode": mode, "T": T, "p1": p1, "p3": p3, "epsilon": eps, "default": not ea})
    set_conversions()



# ------------------------------------------------------------------------------------------------ fixed edge cases
def corpus(ctx, V, B):
    """hand-picked inputs on the surprising paths of each validator (see notes/C16-validators.md); compared like the generated ones"""
    import pulp
    set_conversions()
    Vi = V()
    for eps, s in [(0.0, [0.0, 0.0]), (0.0, [0.0, 5.0]), (0.0, [5.0, 0.0]), (0.1, [0.5, 0.9]), (0.1, [0.5, 1.0]), (0.1, [-1.0, 5.0]), (0.1, [100.0, 110.0]),
                   (0.1, [100.0, 111.0]), (0.1, [7.0]), (0.1, []), (0.1, [0.0, 0.05]), (0.1, [0.0, 1.0]), (0.1, [3.0, 0.2, 0.9, 1.0]), (-0.1, [10.0, 8.0])]:
        d = {"herd_population": s, "population_of_nothing": [1.0, 1.0], "herd_meat": [1.0, 50.0]}
        B.add("assert_population_not_increasing", line_population(eps, d), call(V.assert_population_not_increasing, copy.deepcopy(d), eps)[0], None, {"corpus": True, "epsilon": eps, "series": s})
    for opt, head, code in [(100.5, 100.0, "USA"), (99.5, 100.0, "USA"), (100.50000001, 100.0, "USA"), (99.4, 100.0, "USA"), (104.5, 100.0, "EST"), (104.50001, 100.0, "LUX"),
                            (-900.0, 100.0, "CYP"), (101.5, 100.0, "GUY"), (20000.0, 19999.0, "USA"), (10000.0, 9999.5, "USA"), (float("inf"), 1.0, "USA"), (float("inf"), 1.0, "SWT")]:
        ns = types.SimpleNamespace(percent_people_fed=head)
        B.add("ensure_optimizer_returns_same_as_sum_nutrients", line_samesum(opt, head, code), call(Vi.ensure_optimizer_returns_same_as_sum_nutrients, opt, ns, False, False, code)[0],
              None, {"corpus": True, "optimum": opt, "headline": head, "country": code})
    # usage priorities: a food that is not available, with a negative epsilon (division by zero inside the validator)
    for eps, used2, av2 in [(-1.0, 0.0, 0.0), (-1.0, -3.0, 0.0), (-1.0, 2.0, 0.0), (1e-4, 0.0, 0.0), (1e-4, 50.0, 100.0), (1e-4, 60.0, 100.0), (0.0, 50.0, 100.0)]:
        ns = types.SimpleNamespace(include_fat=False, include_protein=False)
        for name in ["fish", "meat", "milk", "greenhouse", "immediate_outdoor_crops", "new_stored_outdoor_crops", "stored_food", "scp", "cell_sugar", "seaweed"]:
            setattr(ns, name + "_kcals_equivalent", food([0.0], units=KE))
        ns.fish_kcals_equivalent = food([200.0], units=KE)
        ns.meat_kcals_equivalent = food([av2], units=KE)
        mh = {o: food([0.0], units=KE) for o in PRIO_OUT}
        mh["fish"] = food([100.0], units=KE)          # fish used to 50 %
        mh["meat"] = food([used2], units=KE)
        B.add("verify_food_usage_priorities_round2", line_priorities(False, False, eps, ns, mh), call(V.verify_food_usage_priorities_round2, ns, mh, eps)[0], None,
              {"corpus": True, "epsilon": eps, "meat_used": used2, "meat_available": av2})
    # constraints: exactly on the tolerance; an empty model
    for sense, resid in [("eq", 1.0), ("eq", 0.5), ("le", 1.0), ("le", 1.5), ("ge", 1.0), ("ge", 1.5), (None, 0.0)]:
        m = pulp.LpProblem("t", pulp.LpMaximize)
        x = pulp.LpVariable("Only_Month_0_Variable", lowBound=0)
        m += x, "objective_row"
        x.varValue = 2.0
        if sense == "eq":
            m += (x == 2.0 + resid), "row"
        elif sense == "le":
            m += (x <= 2.0 - resid), "row"
        elif sense == "ge":
            m += (x >= 2.0 + resid), "row"
        rows = [(nm, con.sense, {v.name: c for v, c in con.items()}, con.constant) for nm, con in m.constraints.items()]
        B.add("check_constraints_satisfied", line_constraints(1.0, [], rows, {x.name: 2.0}), call(Vi.check_constraints_satisfied, m, [], m.variables())[0], None,
              {"corpus": True, "sense": sense, "residual": resid})
    # feed: equal series with epsilon 0 (strict comparison); demand met exactly; exceeded by exactly the absolute 1e-6
    for eps, shift in [(0.0, 0.0), (1e-4, 0.0), (1e-4, 1e-4), (1e-4, 0.5e-4)]:
        ns2, ns3 = types.SimpleNamespace(), types.SimpleNamespace(include_fat=False, include_protein=False)
        for a in FEED_ATTRS:
            setattr(ns2, a, food([1.0, 2.0], units=PCT))
            setattr(ns3, a, food([1.0, 2.0], units=PCT))
        ns3.stored_food_feed = food([1.0 + shift, 2.0], units=PCT)
        line = line_feed32(False, False, eps, ns2, ns3)
        B.add("assert_feed_used_round3_below_feed_used_round2", line, call(V.assert_feed_used_round3_below_feed_used_round2, ns2, ns3, eps)[0], None, {"corpus": True, "epsilon": eps, "round3_above_by": shift})
    conv = set_conversions(pop=1e9 / 63000.0)      # billion_kcals_needed = 1: percent = billion kcals * 100
    for eps, dem in [(0.0, 5.0), (0.0, 5.0 - 1e-6), (0.0, 5.0 - 2e-6), (1e-4, 5.0 - 5e-4), (1e-4, 4.9)]:
        ns = types.SimpleNamespace(include_fat=False, include_protein=False)
        for a in FEED_ATTRS + BIOFUEL_ATTRS:
            setattr(ns, a, food([100.0], units=PCT))        # five sources of 1 billion kcals each
        demand = food([dem], units=BIL)
        mult = unit_multiplier(ns.cell_sugar_feed)
        B.add("assert_feed_used_below_feed_demand", line_below(False, False, eps, mult, demand, ns, FEED_ATTRS), call(V.assert_feed_used_below_feed_demand, demand, ns, 1, eps)[0], None,
              {"corpus": True, "epsilon": eps, "demand": dem, "used": 5.0})
    # the two checks that only print
    for T, p1, p3, eps in [(100.0, 90.0, 50.0, 1.0), (100.0, 51.0, 50.0, 1.0), (100.0, 51.01, 50.0, 1.0), (100.0, 300.0, 99.95, 1.0), (100.0, 300.0, 99.9, 1.0)]:
        impl, printed = call(V.assert_round3_percent_fed_not_lower_than_round1, T, p1, p3, eps)
        B.add("assert_round3_percent_fed_not_lower_than_round1", line_round31(T, p1, p3, eps), "warned" if "Humans starving in round 3" in printed else impl, None, {"corpus": True, "T": T, "p1": p1, "p3": p3})
    # meat/dairy: the round-2 milk series is never read
    m1, k1 = np.array([10.0, 10.0]), np.array([100.0, 100.0])
    for m2, k2 in [(np.array([10.0, 10.0]), np.array([0.0, 0.0])), (np.array([7.0, 7.0]), np.array([1e6, 1e6])), (np.array([8.0, 8.0]), np.array([0.0, 0.0]))]:
        B.add("assert_meat_dairy_doesnt_decrease_round_2", line_meatdairy(1e-2, m1, m2, k1, k2), call(V.assert_meat_dairy_doesnt_decrease_round_2, m1, m2, k1, k2)[0], None,
              {"corpus": True, "meat2": list(m2), "milk2": list(k2)}, fuzzy=False)
    set_conversions()

# ------------------------------------------------------------------------------------------------ (b) real runs
WRAPPED = ["validate_results", "ensure_all_time_constants_units_are_billion_kcals", "check_constraints_satisfied",
           "ensure_optimizer_returns_same_as_sum_nutrients", "ensure_zero_kcals_have_zero_fat_and_protein", "ensure_never_nan",
           "ensure_all_greater_than_or_equal_to_zero", "assert_population_not_increasing",
           "assert_round2_meat_and_population_greater_than_round1", "verify_minimum_food_consumption_sum_round2",
           "verify_food_usage_priorities_round2", "assert_meat_dairy_doesnt_decrease_round_2", "assert_fewer_calories_round2_than_round3",
           "assert_feed_used_below_feed_demand", "assert_biofuels_used_below_biofuels_demand", "assert_feed_used_round3_below_feed_used_round2",
           "assert_feed_and_biofuel_used_is_zero_if_humans_are_starving", "assert_round3_percent_fed_not_lower_than_round1"]


@contextlib.contextmanager
def capture_validators(log, solved):
    """wrap every Validator method (and the two optimiser entry points, for the final PuLP model) from outside"""
    from src.optimizer.validate_results import Validator
    from src.optimizer.optimizer import Optimizer
    saved = []

    def wrap_validator(name):
        raw = Validator.__dict__[name]
        static = isinstance(raw, staticmethod)
        orig = raw.__func__ if static else raw

        def w(*a, **k):
            args = a if static or name == "assert_feed_and_biofuel_used_is_zero_if_humans_are_starving" else a[1:]
            from src.food_system.food import Food
            entry = {"name": name, "line": None, "margin": None}
            try:
                entry["line"], entry["margin"] = request_of(name, args, k, Food.conversions)
                entry["fuzzy"] = name == "assert_meat_dairy_doesnt_decrease_round_2"
            except Exception as e:  # the harness could not read the arguments: reported, never silently dropped
                entry["harness_error"] = "%s: %s" % (type(e).__name__, e)
            out = io.StringIO()
            try:
                with contextlib.redirect_stdout(out):
                    r = orig(*a, **k)
                entry["impl"] = "pass"
                return r
            except AssertionError:
                entry["impl"] = "raised"
                raise
            except Exception as e:
                entry["impl"] = "error:" + type(e).__name__
                raise
            finally:
                entry["printed"] = out.getvalue()
                log.append(entry)
        saved.append((Validator, name, raw))
        setattr(Validator, name, staticmethod(w) if static else w)

    def wrap_opt(name):
        orig = getattr(Optimizer, name)

        def w(self, *a, **k):
            r = orig(self, *a, **k)
            solved.append((name, r[0], r[1], r[2], r[3]))
            return r
        saved.append((Optimizer, name, orig))
        setattr(Optimizer, name, w)

    for nm in WRAPPED:
        wrap_validator(nm)
    wrap_opt("optimize_to_humans")
    wrap_opt("optimize_feed_to_animals")
    try:
        yield
    finally:
        for cls, name, raw in reversed(saved):
            setattr(cls, name, raw)


def _ns_flags(ns):
    return bool(ns.include_fat), bool(ns.include_protein)


def _tolarg(name, a, k, pos, param="epsilon"):
    """the tolerance a captured call was given, or the MODEL's default when the caller left it out"""
    if param in k:
        return float(k[param])
    if len(a) > pos:
        return float(a[pos])
    return MD[name + "." + param]


def request_of(name, a, k, conv):
    """the model request for one captured call (arguments as the real method received them) -> (line, margin)"""
    fat, prot = bool(conv.include_fat), bool(conv.include_protein)
    if name in ("validate_results", "ensure_all_time_constants_units_are_billion_kcals", "check_constraints_satisfied"):
        return None, None
    if name == "ensure_all_greater_than_or_equal_to_zero":
        foods = foods_of(a[0])
        worst = min(float(np.min(np.asarray(foods[q][0], dtype=float))) - thr for q, thr in GE0_THRESHOLD.items())
        return line_foods("val.allge0", fat, prot, foods), worst
    if name == "ensure_never_nan":
        return line_foods("val.nevernan", fat, prot, foods_of(a[0])), None
    if name == "ensure_zero_kcals_have_zero_fat_and_protein":
        return line_foods("val.zerokcals", fat, prot, foods_of(a[0])), None
    if name == "ensure_optimizer_returns_same_as_sum_nutrients":
        opt, ns, code = float(a[0]), a[1], a[4]
        head = float(ns.percent_people_fed)
        return line_samesum(opt, head, code), 0.5 - abs(opt - head)
    if name == "assert_population_not_increasing":
        return line_population(_tolarg(name, a, k, 1), a[0]), None
    if name == "assert_round2_meat_and_population_greater_than_round1":
        return line_round2gt(_tolarg(name, a, k, 2), _tolarg(name, a, k, 3, "small_number"), a[0], a[1]), None
    if name == "assert_meat_dairy_doesnt_decrease_round_2":
        eps = _tolarg(name, a, k, 4)
        m1, m2, k1 = (np.asarray(x, dtype=float) for x in a[:3])
        lhs, rhs = m2.sum() + k1.sum(), (m1.sum() + k1.sum()) * (1 - eps)
        return line_meatdairy(eps, a[0], a[1], a[2], a[3]), (lhs - rhs) / max(abs(rhs), 1e-12)
    if name == "verify_minimum_food_consumption_sum_round2":
        ns, mh = a[0], a[1]
        eps = _tolarg(name, a, k, 2)
        kd = float(mh[list(mh)[-1]].conversions.kcals_daily)
        tot = sum(np.asarray(mh[q].kcals, dtype=float) for q in mh)
        return line_minsum(*_ns_flags(ns), eps, kd, mh), float(np.min(kd * (1 + eps) - tot)) / kd
    if name == "verify_food_usage_priorities_round2":
        ns, mh = a[0], a[1]
        eps = _tolarg(name, a, k, 2)
        return line_priorities(*_ns_flags(ns), eps, ns, mh), None
    if name == "assert_fewer_calories_round2_than_round3":
        ns2, ns3 = a[0], a[1]
        return line_fewer(*_ns_flags(ns3), _tolarg(name, a, k, 2), _tolarg(name, a, k, 3, "absepsilon"), ns2, ns3), None
    if name in ("assert_feed_used_below_feed_demand", "assert_biofuels_used_below_biofuels_demand"):
        demand, ns = a[0], a[1]
        eps = _tolarg(name, a, k, 3)
        attrs = FEED_ATTRS if "feed_used" in name else BIOFUEL_ATTRS
        src = [getattr(ns, q) for q in attrs if hasattr(ns, q)]
        mult = unit_multiplier(src[0])
        tot = sum(np.asarray(s.kcals, dtype=float) for s in src) / mult
        dem = np.asarray(demand.kcals, dtype=float)
        slack = (dem - tot * (1 - eps) + 1e-6) / np.maximum(1e-6, np.abs(dem))
        return line_below(*_ns_flags(ns), eps, mult, demand, ns, attrs), float(np.min(slack))
    if name == "assert_feed_used_round3_below_feed_used_round2":
        ns2, ns3 = a[0], a[1]
        return line_feed32(*_ns_flags(ns3), _tolarg(name, a, k, 2), ns2, ns3), None
    if name == "assert_feed_and_biofuel_used_is_zero_if_humans_are_starving":
        ns = a[0]
        return line_starving(*_ns_flags(ns), float(ns.percent_people_fed), ns), None
    if name == "assert_round3_percent_fed_not_lower_than_round1":
        T, p1, p3 = float(a[0]), float(a[1]), float(a[2])
        eps = _tolarg(name, a, k, 3)
        return line_round31(T, p1, p3, eps), None
    raise KeyError(name)



def dormant_validators(ctx, B, V, run, case):
    """the five validators the pipeline never calls, applied by the harness to what a real run produced (correspondence only:
    their verdict is no part of a run, it is counted for information)"""
    mds = {tag: run.params[tag][3] for tag in ("first", "second", "third") if run.params.get(tag) is not None and run.params[tag][3] is not None}
    for tag, md in mds.items():
        md = {k_: np.asarray(v, dtype=float) for k_, v in md.items()}
        eps = MD["assert_population_not_increasing.epsilon"]
        B.add("assert_population_not_increasing", line_population(eps, md), call(V.assert_population_not_increasing, md)[0], None, dict(case, herd_round=tag))
    if "first" in mds and "second" in mds:
        d1 = {k_: np.asarray(v, dtype=float) for k_, v in mds["first"].items()}
        d2 = {k_: np.asarray(v, dtype=float) for k_, v in mds["second"].items()}
        B.add("assert_round2_meat_and_population_greater_than_round1",
              line_round2gt(MD["assert_round2_meat_and_population_greater_than_round1.epsilon"], MD["assert_round2_meat_and_population_greater_than_round1.small_number"], d1, d2),
              call(V.assert_round2_meat_and_population_greater_than_round1, d1, d2)[0], None, case, fuzzy=False)
    irs = [(typ, ir) for typ, title, ir, pfm in run.interpreted]
    ir2 = [ir for typ, ir in irs if typ == "to_animals"]
    ir3 = [ir for typ, ir in irs if typ == "to_humans"]
    if ir2 and len(ir3) >= 2:
        a, b = ir2[-1], ir3[-1]
        fat, prot = _ns_flags(b)
        B.add("assert_fewer_calories_round2_than_round3",
              line_fewer(fat, prot, MD["assert_fewer_calories_round2_than_round3.epsilon"], MD["assert_fewer_calories_round2_than_round3.absepsilon"], a, b),
              call(V.assert_fewer_calories_round2_than_round3, a, b)[0], None, case)
        line = line_feed32(fat, prot, MD["assert_feed_used_round3_below_feed_used_round2.epsilon"], a, b)
        B.add("assert_feed_used_round3_below_feed_used_round2", line, call(V.assert_feed_used_round3_below_feed_used_round2, a, b)[0], None, case)
    if ir3:
        b = ir3[-1]
        impl, printed = call(V.assert_feed_and_biofuel_used_is_zero_if_humans_are_starving, b)
        B.add("assert_feed_and_biofuel_used_is_zero_if_humans_are_starving", line_starving(*_ns_flags(b), float(b.percent_people_fed), b),
              "warned" if impl == "pass" and "ASSERT FAILED" in printed else impl, None, case)


REAL_RUNS = [("ARG", {}), ("DJI", {}), ("JPN", {}),
             ("ARG", {"shutoff": "continued", "meat_strategy": "baseline_breeding"}), ("USA", {"ratio_stocks_untouched": "baseline_no_stored_between_years"}),
             ("IND", {"scenario": "no_resilient_foods"}), ("NZL", {}), ("EST", {})]


def real_runs(ctx, B, nruns, constraint_solves):
    from lib import pipeline
    from src.optimizer.validate_results import Validator
    V = Validator()
    done_solves = 0
    for iso, over in REAL_RUNS[:nruns]:
        if iso not in pipeline.country_rows():
            continue
        log, solved = [], []
        with capture_validators(log, solved):
            run = pipeline.run_scenario(iso, pipeline.options(NMONTHS=48, **over), title="validators_%s" % iso)
        ctx.count("validators:real:runs")
        if run.error:
            ctx.count("validators:real:run-error:" + run.error.split(":")[0])
        for e in log:
            if e.get("harness_error"):
                ctx.disagree("validators:%s:arguments-unreadable" % e["name"], {"country": iso, "options": over}, e.get("impl"), e["harness_error"])
                continue
            if e["line"] is None:
                ctx.count("validators:real:%s:%s:not-numeric" % (e["name"], e.get("impl")))
                continue
            impl = e["impl"]
            if impl == "pass" and ("ASSERT FAILED" in e["printed"] or "Humans starving in round 3" in e["printed"]):
                impl = "warned"
            B.add(e["name"], e["line"], impl, e["margin"], {"country": iso, "options": over}, fuzzy=e.get("fuzzy", False))
        B.flush()
        B.origin = "real-dormant"
        dormant_validators(ctx, B, Validator, run, {"country": iso, "options": over})
        B.flush()
        B.origin = "real"
        # the constraint re-evaluation the pipeline has switched off: run it here on the final model of each solve
        for (kind, model, variables, maximize_constraints, pfm) in solved:
            if done_solves >= constraint_solves:
                break
            done_solves += 1
            t0 = time.time()
            impl, printed = call(V.check_constraints_satisfied, model, maximize_constraints, model.variables())
            rows = [(nm, con.sense, {v.name: c for v, c in con.items()}, con.constant) for nm, con in model.constraints.items()]
            values = {v.name: v.varValue for v in model.variables()}
            worst = None
            for nm, sense, co, const in rows:
                if nm in maximize_constraints:
                    continue
                val = sum(c * values[v] for v, c in co.items()) + const
                resid = abs(val) if sense == 0 else (val if sense == -1 else -val)
                worst = resid if worst is None else max(worst, resid)
            B.add("check_constraints_satisfied", line_constraints(MD["check_constraints_satisfied.tolerance"], list(maximize_constraints), rows, values), impl,
                  None if worst is None else 1.0 - worst, {"country": iso, "options": over, "solve": kind, "rows": len(rows)}, fuzzy=True)
            ctx.extra.setdefault("validators_constraint_check_seconds", []).append(round(time.time() - t0, 1))
            ctx.extra["validators_worst_row_residual"] = max(ctx.extra.get("validators_worst_row_residual", 0.0), worst or 0.0)
        B.flush()


# ------------------------------------------------------------------------------------------------ entry point
def check(ctx, synthetic=True, real=True):
    from src.optimizer.validate_results import Validator
    from src.food_system.food import Food
    saved_conv = getattr(Food, "conversions", None)
    V = Validator
    k = ctx.budget(4, 40)
    t0 = time.time()
    load_model_defaults()
    try:
        if synthetic:
            B = Batch(ctx, "corpus")
            corpus(ctx, Validator, B)
            B.flush()
            B = Batch(ctx, "generated")
            synth_sweeps(ctx, Validator(), B, k)
            synth_samesum(ctx, Validator(), B, k)
            synth_constraints(ctx, Validator(), B, k)
            synth_herds(ctx, V, B, k)
            synth_round2(ctx, V, B, k)
            synth_rounds(ctx, V, B, k)
            B.flush()
        ctx.extra["validators_generated_seconds"] = round(time.time() - t0, 1)
        if real:
            t1 = time.time()
            real_runs(ctx, Batch(ctx, "real"), ctx.budget(3, len(REAL_RUNS)), ctx.budget(2, 9))
            ctx.extra["validators_real_seconds"] = round(time.time() - t1, 1)
    finally:
        if saved_conv is not None:
            Food.conversions = saved_conv
