import AllfedModel.Model.Perturb
import AllfedModel.Proofs.Perturb
/-!
# C12 — more supply never feeds fewer people, and scale does not matter

Statements are about `buildLP i .toHumans` (the LP `Optimizer.optimize_to_humans` builds), for all
inputs.  "Optimum does not decrease" is stated constructively: every feasible point of the smaller
instance is transformed into a feasible point of the larger one with at least the same objective
(so the supremum of the objective cannot decrease).
-/
namespace Allfed.C12
open Allfed.LP Allfed.AllocLP Allfed.Perturb

variable {K : Type} [Field K] [LinearOrder K] [IsStrictOrderedRing K]

/-! ## scale invariance -/

theorem scale_feasible (k : K) (hk : 0 < k) (i : Inp K) (x : Var → K)
    (h : Feasible (buildLP i .toHumans) x) :
    Feasible (buildLP (scaleInp k i) .toHumans) (scaleX k x) ∧ scaleX k x .objective = x .objective :=
  Proofs.Perturb.scale_feasible k hk i x h

/-- the set of achievable objective values (percent fed) is the same for `i` and `scaleInp k i` -/
theorem scale_optimum (k : K) (hk : 0 < k) (i : Inp K) (z : K) :
    (∃ x, Feasible (buildLP i .toHumans) x ∧ x .objective = z) ↔
    (∃ x, Feasible (buildLP (scaleInp k i) .toHumans) x ∧ x .objective = z) :=
  Proofs.Perturb.scale_optimum k hk i z

/-! ## monotonicity in supplies (fixed feed and biofuel charge)

Statement corrections (the first versions were false as written):
* `hlim` — non-negative *human intake limits*.  With a negative limit the row
  `…_Limit_Reduced_Population_HUMANS` (`food·ratio ≤ lim/100 · consumed·bkn/100`) tightens when the
  month's percent fed rises, and more supply can make the programme infeasible:
  `limits_needed_counterexample` below (SCP on, `limScpH = −100`, `pop = 0`, `bkn = 100`, milk
  `[] → [1]`: the zero point is feasible before, nothing is feasible after).  The same instance
  with stored food / crops added refutes the other three theorems without `hlim`.
* `hb : 0 ≤ billionKcalsNeeded` for the stock and crop theorems.  With a negative requirement the
  percent fed *falls* when people eat more; 2 months, stored food only, storage between years,
  `bkn = −100`, stock `0 → 1`: the zero point is feasible before; afterwards the stock must be
  eaten (`Stored_Food_End_1 = 0`, feed and biofuel pinned to 0) but `consumed m = −humans m ≥ 0`
  forces `humans m = 0` — infeasible. -/

theorem mono_storedInitial (i : Inp K) (d : K) (hd : 0 ≤ d) (hw0 : 0 ≤ i.wStored) (hw : i.wStored < 100)
    (hN : 2 ≤ i.nmonths) (hb : 0 ≤ i.billionKcalsNeeded)
    (hlim : 0 ≤ i.limSwH ∧ 0 ≤ i.limScpH ∧ 0 ≤ i.limCsH)
    (x : Var → K) (h : Feasible (buildLP i .toHumans) x) :
    ∃ x', Feasible (buildLP { i with storedInitial := i.storedInitial + d } .toHumans) x' ∧ x .objective ≤ x' .objective :=
  Proofs.Perturb.mono_storedInitial i d hd hw0 hw hN hb hlim x h

theorem mono_cropProd (i : Inp K) (prod' : List K) (hp : SeriesLe i.cropProd prod') (hw0 : 0 ≤ i.wCrop) (hw : i.wCrop < 100)
    (hN : 2 ≤ i.nmonths) (hb : 0 ≤ i.billionKcalsNeeded)
    (hlim : 0 ≤ i.limSwH ∧ 0 ≤ i.limScpH ∧ 0 ≤ i.limCsH)
    (x : Var → K) (h : Feasible (buildLP i .toHumans) x) :
    ∃ x', Feasible (buildLP { i with cropProd := prod' } .toHumans) x' ∧ x .objective ≤ x' .objective :=
  Proofs.Perturb.mono_cropProd i prod' hp hw0 hw hN hb hlim x h

theorem mono_scp (i : Inp K) (s' : List K) (hp : SeriesLe i.scp s') (x : Var → K) (h : Feasible (buildLP i .toHumans) x) :
    ∃ x', Feasible (buildLP { i with scp := s' } .toHumans) x' ∧ x .objective ≤ x' .objective :=
  Proofs.Perturb.mono_scp i s' hp x h

theorem mono_cs (i : Inp K) (s' : List K) (hp : SeriesLe i.cs s') (x : Var → K) (h : Feasible (buildLP i .toHumans) x) :
    ∃ x', Feasible (buildLP { i with cs := s' } .toHumans) x' ∧ x .objective ≤ x' .objective :=
  Proofs.Perturb.mono_cs i s' hp x h

/-- meat: total, monthly caps (storage regime) and monthly slaughter (no-storage regime) all raised -/
theorem mono_meat (i : Inp K) (total' : K) (cap' sl' : List K) (ht : i.meatSummed ≤ total')
    (hc : SeriesLe i.maxCulled cap') (hs : SeriesLe i.slaughtered sl') (x : Var → K)
    (h : Feasible (buildLP i .toHumans) x) :
    ∃ x', Feasible (buildLP { i with meatSummed := total', maxCulled := cap', slaughtered := sl' } .toHumans) x' ∧
      x .objective ≤ x' .objective :=
  Proofs.Perturb.mono_meat i total' cap' sl' ht hc hs x h

/-- milk, fish, greenhouse output (they enter only the monthly human total) -/
theorem mono_constants (i : Inp K) (milk' fish' gh' : List K) (hm : SeriesLe i.milk milk') (hf : SeriesLe i.fish fish')
    (hg : SeriesLe i.greenhouse gh') (hb : 0 < i.billionKcalsNeeded)
    (hlim : 0 ≤ i.limSwH ∧ 0 ≤ i.limScpH ∧ 0 ≤ i.limCsH) (x : Var → K)
    (h : Feasible (buildLP i .toHumans) x) :
    ∃ x', Feasible (buildLP { i with milk := milk', fish := fish', greenhouse := gh' } .toHumans) x' ∧
      x .objective ≤ x' .objective :=
  Proofs.Perturb.mono_constants i milk' fish' gh' hm hf hg hb hlim x h

/-- why `hlim` is there: with a negative human intake limit more milk makes the LP infeasible -/
theorem limits_needed_counterexample :
    ∃ (i : Inp ℚ) (milk' : List ℚ) (x : Var → ℚ), SeriesLe i.milk milk' ∧
      0 < i.billionKcalsNeeded ∧ Feasible (buildLP i .toHumans) x ∧
      ¬ ∃ x', Feasible (buildLP { i with milk := milk' } .toHumans) x' :=
  Proofs.Perturb.limits_needed_counterexample

/-! ## the feed and biofuel charge

Full statement wanted: lowering the charge (pointwise) never lowers the optimum, for all inputs.
Proved here without seaweed (`addSeaweed = false`): with seaweed the density ceiling can make the
harvest that was fed to animals compulsory, and giving it to people may hit their intake cap —
that case is only covered by the empirical perturbation runs of the check (C12 is `partial` there).
`hlim` (non-negative human intake limits of SCP and sugar) was added: the freed stored food and
crops are eaten by people, the percent fed rises, and a negative limit would then bite (2 months,
stored food + SCP, `limScpH = −100`, `pop = 0`, storage between years, stock 2, feed `[1,1] → [0,0]`:
the stock must now be eaten by people, so some month has percent fed > 0 and SCP to people < 0).
Waste percentages: see the last section. -/

theorem charge_antitone_partial (i : Inp K) (feed' biofuel' : List K) (hs : i.addSeaweed = false)
    (hf : SeriesLe feed' i.feed) (hb : SeriesLe biofuel' i.biofuel)
    (hf0 : ∀ m, 0 ≤ at' feed' m) (hb0 : ∀ m, 0 ≤ at' biofuel' m)
    (hwS0 : 0 ≤ i.wStored) (hwS : i.wStored < 100) (hwC0 : 0 ≤ i.wCrop) (hwC : i.wCrop < 100)
    (hbkn : 0 < i.billionKcalsNeeded) (hlim : 0 ≤ i.limScpH ∧ 0 ≤ i.limCsH)
    (x : Var → K) (h : Feasible (buildLP i .toHumans) x) :
    ∃ x', Feasible (buildLP { i with feed := feed', biofuel := biofuel' } .toHumans) x' ∧ x .objective ≤ x' .objective :=
  Proofs.Perturb.charge_antitone_partial i feed' biofuel' hs hf hb hf0 hb0 hwS0 hwS hwC0 hwC hbkn hlim x h

/-! ## retail waste percentages

Lowering a retail waste percentage never lowers the optimum of the human round: people keep drawing
the same gross amount from the stock / the harvest and receive `(1 − w'/100)/(1 − w/100)` times as
much.  Proved for stored food and crops, for all inputs with `w < 100`, `0 ≤ billionKcalsNeeded`
and non-negative human intake limits (`hlim`, `hb`: the percent fed of a month rises, cf.
`limits_needed_counterexample`; with a negative requirement and negative milk the optimum really
falls: 2 months, stored food with storage between years, stock 1, `bkn = −100`, milk `[−1, −1]`,
waste 50 % → 0 %: percent fed of a month is `1 − humans`, best worst-month 0.75 before, 0.5 after).
`0 ≤ w'` and `2 ≤ nmonths` are not needed.
For seaweed the statement is FALSE: the harvest can be compulsory (density ceiling) and the larger
amount people would receive can exceed their intake cap (`mono_wasteSeaweed_counterexample`);
`mono_wasteSeaweed_partial` assumes that the two human intake caps of seaweed survive.
The distribution-side wastes are applied before the LP is built and do not appear in `Inp`: nothing
to prove about them here (the check varies them empirically). -/

theorem mono_wasteStored (i : Inp K) (w' : K) (hw' : w' ≤ i.wStored) (hw : i.wStored < 100)
    (hb : 0 ≤ i.billionKcalsNeeded) (hlim : 0 ≤ i.limSwH ∧ 0 ≤ i.limScpH ∧ 0 ≤ i.limCsH)
    (x : Var → K) (h : Feasible (buildLP i .toHumans) x) :
    ∃ x', Feasible (buildLP { i with wStored := w' } .toHumans) x' ∧ x .objective ≤ x' .objective :=
  Proofs.Perturb.mono_wasteStored i w' hw' hw hb hlim x h

theorem mono_wasteCrop (i : Inp K) (w' : K) (hw' : w' ≤ i.wCrop) (hw : i.wCrop < 100)
    (hb : 0 ≤ i.billionKcalsNeeded) (hlim : 0 ≤ i.limSwH ∧ 0 ≤ i.limScpH ∧ 0 ≤ i.limCsH)
    (x : Var → K) (h : Feasible (buildLP i .toHumans) x) :
    ∃ x', Feasible (buildLP { i with wCrop := w' } .toHumans) x' ∧ x .objective ≤ x' .objective :=
  Proofs.Perturb.mono_wasteCrop i w' hw' hw hb hlim x h

/-- seaweed: a 2-month instance over ℚ (1 t on 1 km² at the density ceiling doubling in month 1,
    intake cap 0.5, waste 50 % → 0 %) that is feasible before and infeasible after -/
theorem mono_wasteSeaweed_counterexample :
    ∃ (i : Inp ℚ) (w' : ℚ) (x : Var → ℚ), 0 ≤ w' ∧ w' ≤ i.wSeaweed ∧ i.wSeaweed < 100 ∧
      0 < i.billionKcalsNeeded ∧ (0 ≤ i.limSwH ∧ 0 ≤ i.limScpH ∧ 0 ≤ i.limCsH) ∧
      0 ≤ i.seaweedKcals ∧ Feasible (buildLP i .toHumans) x ∧
      ¬ ∃ x', Feasible (buildLP { i with wSeaweed := w' } .toHumans) x' :=
  Proofs.Perturb.mono_wasteSeaweed_counterexample

/-- seaweed, under the proviso `hcaps` that the larger amount people receive still respects
    seaweed's two human intake caps (full population; population actually fed) -/
theorem mono_wasteSeaweed_partial (i : Inp K) (w' : K) (hw' : w' ≤ i.wSeaweed) (hw : i.wSeaweed < 100)
    (hb : 0 ≤ i.billionKcalsNeeded) (hkc : 0 ≤ i.seaweedKcals)
    (hlim : 0 ≤ i.limScpH ∧ 0 ≤ i.limCsH)
    (x : Var → K) (h : Feasible (buildLP i .toHumans) x)
    (hcaps : i.addSeaweed = true → ∀ m, m < i.nmonths →
      (1 - w' / 100) / (1 - i.wSeaweed / 100) * x (.mv .swHumans m) * i.seaweedKcals
        ≤ i.limSwH / 100.0 * (i.pop * i.kcalsMonthly / 1e9) ∧
      (1 - w' / 100) / (1 - i.wSeaweed / 100) * x (.mv .swHumans m) * i.seaweedKcals
        ≤ i.limSwH / 100.0 *
          ((x (.mv .consumedKcals m)
            + ((1 - w' / 100) / (1 - i.wSeaweed / 100) - 1) * x (.mv .swHumans m) * i.seaweedKcals
                / i.billionKcalsNeeded * 100) * i.billionKcalsNeeded / 100.0)) :
    ∃ x', Feasible (buildLP { i with wSeaweed := w' } .toHumans) x' ∧ x .objective ≤ x' .objective :=
  Proofs.Perturb.mono_wasteSeaweed_partial i w' hw' hw hb hkc hlim x h hcaps

/-! ## simultaneous increases

The single-supply statements compose: each one maps a feasible point of the smaller instance to a
feasible point of the larger one without lowering the objective, and the next perturbation is applied
to the already-perturbed input.  Stated here for the two industrial foods together and for industrial
foods together with milk, fish and greenhouse output; any other finite combination follows the same way. -/

theorem mono_scp_cs (i : Inp K) (s' c' : List K) (hs : SeriesLe i.scp s') (hc : SeriesLe i.cs c')
    (x : Var → K) (h : Feasible (buildLP i .toHumans) x) :
    ∃ x', Feasible (buildLP { i with scp := s', cs := c' } .toHumans) x' ∧ x .objective ≤ x' .objective := by
  obtain ⟨x1, h1, o1⟩ := mono_scp i s' hs x h
  obtain ⟨x2, h2, o2⟩ := mono_cs { i with scp := s' } c' hc x1 h1
  exact ⟨x2, h2, le_trans o1 o2⟩

theorem mono_scp_cs_constants (i : Inp K) (s' c' milk' fish' gh' : List K)
    (hs : SeriesLe i.scp s') (hc : SeriesLe i.cs c') (hm : SeriesLe i.milk milk')
    (hf : SeriesLe i.fish fish') (hg : SeriesLe i.greenhouse gh') (hb : 0 < i.billionKcalsNeeded)
    (hlim : 0 ≤ i.limSwH ∧ 0 ≤ i.limScpH ∧ 0 ≤ i.limCsH)
    (x : Var → K) (h : Feasible (buildLP i .toHumans) x) :
    ∃ x', Feasible (buildLP { i with scp := s', cs := c', milk := milk', fish := fish', greenhouse := gh' }
        .toHumans) x' ∧ x .objective ≤ x' .objective := by
  obtain ⟨x1, h1, o1⟩ := mono_scp_cs i s' c' hs hc x h
  obtain ⟨x2, h2, o2⟩ := mono_constants { i with scp := s', cs := c' } milk' fish' gh' hm hf hg hb hlim x1 h1
  exact ⟨x2, h2, le_trans o1 o2⟩

/-- every supply the property names raised at once: initial stock, outdoor crop production, both
    industrial foods, meat (total, monthly caps, monthly slaughter), milk, fish and greenhouse output.
    The hypotheses are those of the single-supply statements (they concern fields none of the
    perturbations touch). -/
theorem mono_all_supplies (i : Inp K) (d : K) (prod' s' c' cap' sl' milk' fish' gh' : List K) (total' : K)
    (hd : 0 ≤ d) (hp : SeriesLe i.cropProd prod') (hs : SeriesLe i.scp s') (hc : SeriesLe i.cs c')
    (ht : i.meatSummed ≤ total') (hcap : SeriesLe i.maxCulled cap') (hsl : SeriesLe i.slaughtered sl')
    (hm : SeriesLe i.milk milk') (hf : SeriesLe i.fish fish') (hg : SeriesLe i.greenhouse gh')
    (hws0 : 0 ≤ i.wStored) (hws : i.wStored < 100) (hwc0 : 0 ≤ i.wCrop) (hwc : i.wCrop < 100)
    (hN : 2 ≤ i.nmonths) (hb : 0 < i.billionKcalsNeeded)
    (hlim : 0 ≤ i.limSwH ∧ 0 ≤ i.limScpH ∧ 0 ≤ i.limCsH)
    (x : Var → K) (h : Feasible (buildLP i .toHumans) x) :
    ∃ x', Feasible (buildLP
        { i with
            storedInitial := i.storedInitial + d, cropProd := prod', scp := s', cs := c',
            meatSummed := total', maxCulled := cap', slaughtered := sl',
            milk := milk', fish := fish', greenhouse := gh' } .toHumans) x' ∧ x .objective ≤ x' .objective := by
  obtain ⟨x1, h1, o1⟩ := mono_storedInitial i d hd hws0 hws hN hb.le hlim x h
  obtain ⟨x2, h2, o2⟩ := mono_cropProd { i with storedInitial := i.storedInitial + d } prod' hp hwc0 hwc hN hb.le hlim x1 h1
  obtain ⟨x3, h3, o3⟩ := mono_scp_cs_constants
    { i with storedInitial := i.storedInitial + d, cropProd := prod' } s' c' milk' fish' gh' hs hc hm hf hg hb hlim x2 h2
  obtain ⟨x4, h4, o4⟩ := mono_meat
    { i with
        storedInitial := i.storedInitial + d, cropProd := prod', scp := s', cs := c',
        milk := milk', fish := fish', greenhouse := gh' } total' cap' sl' ht hcap hsl x3 h3
  exact ⟨x4, h4, le_trans o1 (le_trans o2 (le_trans o3 o4))⟩

/-- both retail wastes the LP knows about that admit the law (stored food, outdoor crops) lowered at once -/
theorem mono_wastes (i : Inp K) (ws' wc' : K) (hs' : ws' ≤ i.wStored) (hs : i.wStored < 100)
    (hc' : wc' ≤ i.wCrop) (hc : i.wCrop < 100)
    (hb : 0 ≤ i.billionKcalsNeeded) (hlim : 0 ≤ i.limSwH ∧ 0 ≤ i.limScpH ∧ 0 ≤ i.limCsH)
    (x : Var → K) (h : Feasible (buildLP i .toHumans) x) :
    ∃ x', Feasible (buildLP { i with wStored := ws', wCrop := wc' } .toHumans) x' ∧ x .objective ≤ x' .objective := by
  obtain ⟨x1, h1, o1⟩ := mono_wasteStored i ws' hs' hs hb hlim x h
  obtain ⟨x2, h2, o2⟩ := mono_wasteCrop { i with wStored := ws' } wc' hc' hc hb hlim x1 h1
  exact ⟨x2, h2, le_trans o1 o2⟩

end Allfed.C12
