#!/usr/bin/env python3
"""Automatic single-line mutants of /repo (in the worktree /tmp/seed/MUT), each run against the fast tests and the quick checks mapped to its file.
usage: mutate.py <n> <seed>   -> appends one JSON line per mutant to /var/tmp/mut/results.jsonl"""
import json, os, random, re, subprocess, sys, time, io, tokenize
from concurrent.futures import ThreadPoolExecutor
WT = os.environ.get("MUT_WT", "/tmp/seed/MUT")
N, SEED = int(sys.argv[1]), int(sys.argv[2])
rng = random.Random(SEED)
cov = json.load(open("/var/tmp/mut/cov.json"))["files"]
MAP = {
 "src/optimizer/optimizer.py": ["C01", "C02", "C03", "C04", "C12", "C16"],
 "src/optimizer/parameters.py": ["C05", "C08", "C09", "C18", "C03", "C13", "C16", "C01"],
 "src/optimizer/extract_results.py": ["C04", "C01", "C16", "C03"],
 "src/optimizer/interpret_results.py": ["C04", "C01", "C16", "C03", "C14"],
 "src/optimizer/validate_results.py": ["C16"],
 "src/food_system/food.py": ["C11", "C10", "C04", "C16", "C18"],
 "src/food_system/unit_conversions.py": ["C10", "C11", "C04", "C14"],
 "src/food_system/animal_populations.py": ["C06", "C07", "C05", "C13", "C16"],
 "src/food_system/outdoor_crops.py": ["C08", "C09"], "src/food_system/greenhouses.py": ["C08", "C09"],
 "src/food_system/stored_food.py": ["C08"], "src/food_system/seaweed.py": ["C08"], "src/food_system/seafood.py": ["C08"],
 "src/food_system/methane_scp.py": ["C08"], "src/food_system/cellulosic_sugar.py": ["C08"],
 "src/food_system/meat_and_dairy.py": ["C08", "C05"], "src/food_system/feed_and_biofuels.py": ["C08", "C03"],
 "src/scenarios/scenarios.py": ["C13"], "src/scenarios/run_scenario.py": ["C13", "C03", "C16", "C14", "C05"],
 "src/scenarios/run_model_no_trade.py": ["C15", "C16", "C14"],
 "src/utilities/import_utilities.py": ["C17"],
}
WEIGHT = {"src/optimizer/optimizer.py": 3, "src/optimizer/parameters.py": 3, "src/food_system/animal_populations.py": 3, "src/optimizer/interpret_results.py": 2,
          "src/optimizer/extract_results.py": 2, "src/scenarios/run_scenario.py": 2, "src/food_system/food.py": 2}
OPS = [(r"<=", "<"), (r">=", ">"), (r"(?<![<>=!])<(?![=<])", "<="), (r"(?<![<>=!-])>(?![=>])", ">="), (r"==", "!="), (r"!=", "=="),
       (r" \+ ", " - "), (r" - ", " + "), (r" \* ", " / "), (r" / ", " * "), (r"\bTrue\b", "False"), (r"\bFalse\b", "True"),
       (r"\bmin\(", "max("), (r"\bmax\(", "min("), (r"\band\b", "or"), (r"\bor\b", "and"), (r"\bnot ", ""),
       (r"(?<![\w.])(\d+)(?![\w.])", None), (r"\+=", "-="), (r"-=", "+="), (r"\[month\]", "[month - 1]"), (r"\bmonth - 1\b", "month"),
       (r"range\(0, ", "range(1, "), (r"range\(1, ", "range(0, ")]

def code_lines(path, executed):
    src = open(path).read()
    ok = set()
    strings = set()
    try:
        for t in tokenize.generate_tokens(io.StringIO(src).readline):
            if t.type == tokenize.STRING and (t.end[0] > t.start[0] or t.string.startswith(('"""', "'''"))):
                strings.update(range(t.start[0], t.end[0] + 1))
    except Exception:
        pass
    for i, l in enumerate(src.split("\n"), 1):
        s = l.strip()
        if i in executed and i not in strings and s and not s.startswith(("#", "print(", "assert", "import ", "from ", "def ", "class ", '"', "'", "raise", "@")) and "print(" not in s:
            ok.add(i)
    return ok

def pick():
    files = [f for f in MAP if "/repo/" + f in cov]
    f = rng.choices(files, weights=[WEIGHT.get(x, 1) for x in files])[0]
    lines = sorted(code_lines(os.path.join(WT, f), set(cov["/repo/" + f]["executed_lines"])))
    for _ in range(200):
        ln = rng.choice(lines)
        text = open(os.path.join(WT, f)).read().split("\n")[ln - 1]
        code = text.split("#")[0]
        cands = []
        for pat, rep in OPS:
            for m in re.finditer(pat, code):
                if rep is None:
                    v = int(m.group(1))
                    r = str(v + 1) if v != 1 else rng.choice(["0", "2"])
                else:
                    r = rep
                cands.append((m.start(), m.end(), r, pat))
        # skip string literals crudely
        cands = [c for c in cands if code[:c[0]].count('"') % 2 == 0 and code[:c[0]].count("'") % 2 == 0]
        if cands:
            a, b, r, pat = rng.choice(cands)
            return f, ln, text, code[:a] + r + code[b:] + text[len(code):], pat
    return None

def run(cmd, env=None, timeout=900):
    try:
        p = subprocess.run(cmd, capture_output=True, text=True, env=env, timeout=timeout)
        return p.returncode, p.stdout + p.stderr
    except subprocess.TimeoutExpired:
        return 124, "timeout"

FAST = ["tests/test_animal_populations.py", "tests/test_cellulosic_sugar.py", "tests/test_food.py", "tests/test_greenhouses.py", "tests/test_methane_scp.py",
        "tests/test_seafood.py", "tests/test_seaweed.py", "tests/test_stored_food.py", "tests/test_unit_conversion.py"]
seen = set()
if os.path.exists("/var/tmp/mut/results.jsonl"):
    for l in open("/var/tmp/mut/results.jsonl"):
        r = json.loads(l); seen.add((r["file"], r["line"], r["new"]))
done = 0
while done < N:
    subprocess.run(["git", "-C", WT, "checkout", "--", "."], check=True)
    m = pick()
    if not m:
        continue
    f, ln, old, new, pat = m
    if (f, ln, new) in seen:
        continue
    seen.add((f, ln, new))
    path = os.path.join(WT, f)
    L = open(path).read().split("\n"); L[ln - 1] = new; open(path, "w").write("\n".join(L))
    rec = {"file": f, "line": ln, "old": old.strip(), "new": new.strip(), "op": pat, "t": time.strftime("%H:%M")}
    rc, out = run(["/venv/bin/python", "-m", "py_compile", path])
    if rc != 0:
        continue
    rc, out = run(["/venv/bin/python", "-m", "pytest", "-q", "-x", "-p", "no:cacheprovider"] + FAST, env=dict(os.environ, PYTHONDONTWRITEBYTECODE="1"), timeout=300) if True else (0, "")
    # run from worktree root
    p = subprocess.run(["/venv/bin/python", "-m", "pytest", "-q", "-x", "-p", "no:cacheprovider"] + FAST, capture_output=True, text=True, cwd=WT, timeout=300)
    tail = p.stdout.strip().split("\n")[-1] if p.stdout.strip() else ""
    rec["fast_tests"] = "pass" if p.returncode == 0 else ("flake?" if "randrange" in p.stdout else "fail")
    if rec["fast_tests"] == "fail":
        rec["verdict"] = "killed-by-existing-tests"
    else:
        ids = MAP[f]
        def one(pid):
            rc, out = run(["/verif/bin/check", pid, "quick"], env=dict(os.environ, VERIF_REPO=WT), timeout=900)
            v = [l for l in out.split("\n") if l.startswith("VIOLATION")]
            w = [l.strip() for l in out.split("\n") if l.startswith("  what")]
            return pid, rc, (v[0] if v else ""), (w[0][:200] if w else "")
        with ThreadPoolExecutor(max_workers=5) as ex:
            res = list(ex.map(one, ids))
        rec["checks"] = {pid: {"rc": rc, "concrete": bool(v) and "no-failing-input-found" not in v, "what": w} for pid, rc, v, w in res}
        caught = [pid for pid, rc, v, w in res if rc == 1]
        rec["verdict"] = "caught:" + ",".join(caught) if caught else "SURVIVED"
    open("/var/tmp/mut/results.jsonl", "a").write(json.dumps(rec) + "\n")
    done += 1
subprocess.run(["git", "-C", WT, "checkout", "--", "."], check=True)
