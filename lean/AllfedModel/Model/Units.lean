import AllfedModel.Gen.UnitTables
/-
Hand-written part of the unit model (property C10): `get_conversion` and `in_units` of
`src/food_system/unit_conversions.py`, on top of the *generated* multiplier tables.
-/
namespace Allfed.Units
open Allfed.Gen.Units

section
variable {α : Type} [Add α] [Sub α] [Mul α] [Div α] [Neg α] [OfNat α 0] [OfNat α 1] [OfScientific α]

/-- `get_conversion` for one nutrient: `1 / from_multiplier * to_multiplier`;
    `none` = "not a known unit" (the code's `assert False`). -/
def convFactor (mult : String → Option α) (fromU toU : String) : Option α :=
  match mult fromU, mult toU with
  | some a, some b => some (1 / a * b)
  | _, _ => none

def isPrefixL : List Char → List Char → Bool
  | [], _ => true
  | _ :: _, [] => false
  | a :: as, b :: bs => a == b && isPrefixL as bs

def hasSubL (sub : List Char) : List Char → Bool
  | [] => sub.isEmpty
  | c :: t => isPrefixL sub (c :: t) || hasSubL sub t

/-- Python's `sub in s` -/
def hasSub (s sub : String) : Bool := hasSubL sub.toList s.toList

/-- the suffix `in_units` appends to all three target units; decided by the *kcals* unit only -/
def suffixOf (fromKcals : String) : String :=
  if hasSub fromKcals " each month" then " each month"
  else if hasSub fromKcals " per month" then " per month" else ""

structure Triple (β : Type) where
  k : β
  f : β
  p : β

/-- `in_units`: new unit labels and the three conversion factors (applied elementwise by the caller) -/
def inUnits (c : Conv α) (fromU toU : Triple String) : Option (Triple String × Triple α) :=
  let sfx := suffixOf fromU.k
  let nu : Triple String := ⟨toU.k ++ sfx, toU.f ++ sfx, toU.p ++ sfx⟩
  match convFactor (kcalMult c) fromU.k nu.k, convFactor (fatMult c) fromU.f nu.f,
        convFactor (proteinMult c) fromU.p nu.p with
  | some a, some b, some d => some (nu, ⟨a, b, d⟩)
  | _, _, _ => none

end
end Allfed.Units
