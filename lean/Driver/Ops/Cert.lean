import AllfedModel.Model.Certificate
import Driver.Ops.LP
open Wire Allfed.LP Allfed.AllocLP Allfed.Certificate

namespace Ops.Cert

/-- exact rational value of an IEEE double given by its bit pattern (finite values) -/
def ratOfBits (b : UInt64) : Rat :=
  let n := b.toNat
  let sbit : Nat := n / 2^63 % 2
  let sign : Int := if sbit = 1 then -1 else 1
  let e : Nat := n / 2^52 % 2048
  let m : Nat := n % 2^52
  let mant : Nat := if e = 0 then m else m + 2^52
  let ex : Int := (if e = 0 then (1 : Int) else Int.ofNat e) - 1075
  let v : Rat := if ex ≥ 0 then ((mant * 2^ex.toNat : Nat) : Rat) else mkRat mant (2^(-ex).toNat)
  (sign : Rat) * v

def ratOfFloat (x : Float) : Rat := ratOfBits x.toBits

/-- decimal approximation of a rational as a Float (12 significant decimals after the point) -/
def ratToFloat (q : Rat) : Float :=
  let scaled : Int := (q.num * 1000000000000) / (q.den : Int)
  Float.ofInt scaled / 1e12

def mapInp (f : Float → Rat) (i : Inp Float) : Inp Rat :=
  let l := List.map f
  { nmonths := i.nmonths, addSeaweed := i.addSeaweed, addOutdoor := i.addOutdoor, addStored := i.addStored, addMeat := i.addMeat,
    addScp := i.addScp, addCs := i.addCs, storeBetweenYears := i.storeBetweenYears, pop := f i.pop, kcalsMonthly := f i.kcalsMonthly,
    billionKcalsNeeded := f i.billionKcalsNeeded, seaweedKcals := f i.seaweedKcals, initialSeaweed := f i.initialSeaweed,
    maxDensity := f i.maxDensity, minDensity := f i.minDensity, harvestLoss := f i.harvestLoss, initialBuiltArea := f i.initialBuiltArea,
    wSeaweed := f i.wSeaweed, wStored := f i.wStored, wMeat := f i.wMeat, wCrop := f i.wCrop, wScp := f i.wScp, wCs := f i.wCs,
    storedInitial := f i.storedInitial, meatSummed := f i.meatSummed, builtArea := l i.builtArea, growth := l i.growth,
    cropProd := l i.cropProd, maxCulled := l i.maxCulled, slaughtered := l i.slaughtered, scp := l i.scp, cs := l i.cs, milk := l i.milk,
    greenhouse := l i.greenhouse, fish := l i.fish, feed := l i.feed, biofuel := l i.biofuel, maxFeed := l i.maxFeed,
    maxBiofuel := l i.maxBiofuel, limSwH := f i.limSwH, limSwF := f i.limSwF, limSwB := f i.limSwB, limScpH := f i.limScpH,
    limScpF := f i.limScpF, limScpB := f i.limScpB, limCsH := f i.limCsH, limCsF := f i.limCsF, limCsB := f i.limCsB,
    minSeaweed := l i.minSeaweed, minCrops := l i.minCrops, minStored := l i.minStored, minMeat := l i.minMeat, minScp := l i.minScp,
    minCs := l i.minCs }

/-- `Certificate.WellFormed` as a Boolean: the model's own `Certificate.wellFormedB`
    (`Proofs/Certificate.lean: wellFormedB_iff` proves `wellFormedB i = true ↔ WellFormed i`) -/
def wellFormedB (i : Inp Rat) : Bool := Allfed.Certificate.wellFormedB i

/-- cert.bound <kind> <inp> <y : floats aligned with the rows of buildLP>
    → `wf` flag, then `none` | `some <bound as float> <number of positive residuals absorbed>`
    (exact rational arithmetic on the exact values of the doubles) -/
def boundOp : P String := do
  let kd ← Ops.LP.kindP
  let i ← Ops.LP.inpP
  let y ← floats
  let iq := mapInp ratOfFloat i
  let rows := buildLP iq kd
  let yq := y.map ratOfFloat
  let wf := wellFormedB iq
  match dualBound rows yq (ubOf iq kd) with
  | none =>
    -- diagnostics: which variables carry a positive residual without a bound (or a wrong-signed multiplier)
    let c := combo rows yq
    let resid := normalise ((Var.objective, 1) :: (Aff.neg c).terms)
    let bad := resid.filter fun p => decide (0 < p.2) && (ubOf iq kd p.1).isNone
    let shown := (bad.take 6).map fun p => encodeStr p.1.name ++ "=" ++ toString (ratToFloat p.2)
    pure (outB wf ++ " none " ++ toString rows.length ++ " signs=" ++ outB (allSignsOK rows yq) ++ " unbounded-positive=" ++ toString bad.length
          ++ " " ++ " ".intercalate shown)
  | some b => pure (outB wf ++ " some " ++ outF (ratToFloat b) ++ " " ++ toString rows.length)

/-- cert.primal <kind> <inp> <assignment> → worst exact row violation of buildLP at the point
    (as float), and the exact value of the objective variable -/
def primalOp : P String := do
  let kd ← Ops.LP.kindP
  let i ← Ops.LP.inpP
  let x ← Ops.LP.assignP
  let iq := mapInp ratOfFloat i
  let xq : Var → Rat := fun v => ratOfFloat (x v)
  let rows := buildLP iq kd
  let worst : Rat := rows.foldl (fun acc r =>
    (Allfed.PhysSpec.rowExcess xq r).foldl (fun a e => if a < e.value then e.value else a) acc) 0
  pure (outF (ratToFloat worst) ++ " " ++ outF (ratToFloat (xq .objective)))

def ops : List (String × P String) := [("cert.bound", boundOp), ("cert.primal", primalOp)]
end Ops.Cert
