import AllfedModel.Model.ScenarioSpec
/-!
Helper lemmas for property C13 (scenario options): the exactly-once flag machine, the store frame
lemmas, the dispatcher in one and in two phases, string lemmas for the head-count override key.
Core Lean only (no Mathlib needed).
-/
set_option linter.unusedVariables false
set_option linter.unusedSectionVars false

namespace Allfed.Scenario
open Allfed.Gen.Scenario

/-! ## results that are never a flag error -/

/-- `r` is not a rejection by the exactly-once discipline -/
def NoFlagErr {β : Type} (r : Except Err β) : Prop := ∀ f, r ≠ .error (.alreadySet f)

theorem noFlagErr_ok {β : Type} (b : β) : NoFlagErr (.ok b : Except Err β) := by
  intro f h; cases h

theorem noFlagErr_error {β : Type} (e : Err) (h : e.isFlagErr = false) : NoFlagErr (.error e : Except Err β) := by
  intro f h'; cases h'; simp [Err.isFlagErr] at h

theorem noFlagErr_bind {β γ : Type} (x : Except Err β) (g : β → Except Err γ)
    (hx : NoFlagErr x) (hg : ∀ b, NoFlagErr (g b)) : NoFlagErr (x >>= g) := by
  cases x with
  | error e => intro f h; exact hx f (by simpa [bind, Except.bind] using h)
  | ok b => simpa [bind, Except.bind] using hg b

section
variable {α : Type} [Add α] [Sub α] [Mul α] [Div α] [Neg α] [LE α] [LT α] [DecidableLE α] [DecidableLT α]
  [OfNat α 0] [OfNat α 1] [OfScientific α] [BEq α] [PyNum α]

theorem storeWrite_noFlagErr (p : String) (v : Val α) (c : Dict α) : NoFlagErr (storeWrite p v c) := by
  unfold storeWrite
  split
  · exact noFlagErr_ok _
  · split
    · exact noFlagErr_ok _
    · exact noFlagErr_error _ rfl
    · exact noFlagErr_error _ rfl

theorem arith_noFlagErr (op : α → α → α) (d : Bool) (a b : Val α) : NoFlagErr (arith op d a b) := by
  unfold arith
  split
  · split
    · exact noFlagErr_error _ rfl
    · exact noFlagErr_ok _
  · exact noFlagErr_error _ rfl

theorem evalEx_noFlagErr (opts : Dict α) (cd : Option (Dict α)) (c : Dict α) (e : Ex) :
    NoFlagErr (evalEx opts cd c e) := by
  induction e with
  | lit l => exact noFlagErr_ok _
  | cd col =>
    unfold evalEx
    split
    · exact noFlagErr_error _ rfl
    · split
      · exact noFlagErr_ok _
      · exact noFlagErr_error _ rfl
  | const p =>
    unfold evalEx
    split
    · exact noFlagErr_ok _
    · exact noFlagErr_error _ rfl
  | opt n =>
    unfold evalEx
    split
    · exact noFlagErr_ok _
    · exact noFlagErr_error _ rfl
  | add a b iha ihb =>
    unfold evalEx
    exact noFlagErr_bind _ _ iha fun x => noFlagErr_bind _ _ ihb fun y => arith_noFlagErr _ _ _ _
  | sub a b iha ihb =>
    unfold evalEx
    exact noFlagErr_bind _ _ iha fun x => noFlagErr_bind _ _ ihb fun y => arith_noFlagErr _ _ _ _
  | mul a b iha ihb =>
    unfold evalEx
    exact noFlagErr_bind _ _ iha fun x => noFlagErr_bind _ _ ihb fun y => arith_noFlagErr _ _ _ _
  | div a b iha ihb =>
    unfold evalEx
    exact noFlagErr_bind _ _ iha fun x => noFlagErr_bind _ _ ihb fun y => arith_noFlagErr _ _ _ _
  | emptyDict => exact noFlagErr_ok _
  | «opaque» s => exact noFlagErr_ok _

theorem evalNums_noFlagErr (opts : Dict α) (cd : Option (Dict α)) (c : Dict α) (l : List Ex) :
    NoFlagErr (evalNums opts cd c l) := by
  induction l with
  | nil => exact noFlagErr_ok _
  | cons e t ih =>
    unfold evalNums
    refine noFlagErr_bind _ _ (evalEx_noFlagErr opts cd c e) fun v => ?_
    split
    · exact noFlagErr_bind _ _ ih fun r => noFlagErr_ok _
    · exact noFlagErr_error _ rfl

theorem writeAll_noFlagErr (v : Val α) (ps : List String) (c : Dict α) : NoFlagErr (writeAll v ps c) := by
  induction ps generalizing c with
  | nil => exact noFlagErr_ok _
  | cons p t ih =>
    unfold writeAll
    exact noFlagErr_bind _ _ (storeWrite_noFlagErr p v c) fun c' => ih c'

/-! ## what a statement does to the flags -/

theorem bind_eq_ok {β γ : Type} {x : Except Err β} {g : β → Except Err γ} {c : γ}
    (h : x >>= g = .ok c) : ∃ b, x = .ok b ∧ g b = .ok c := by
  cases x with
  | error e => simp [bind, Except.bind] at h
  | ok b => exact ⟨b, rfl, by simpa [bind, Except.bind] using h⟩

theorem bind_eq_error {β γ : Type} {x : Except Err β} {g : β → Except Err γ} {e : Err}
    (h : x >>= g = .error e) : x = .error e ∨ ∃ b, x = .ok b ∧ g b = .error e := by
  cases x with
  | error e' => left; simpa [bind, Except.bind] using h
  | ok b => right; exact ⟨b, rfl, by simpa [bind, Except.bind] using h⟩

/-- a successful statement changes the flags only if it is `setFlag` -/
theorem execStmt_flags (opts : Dict α) (cd : Option (Dict α)) (s s' : ScState α) (st : Stmt)
    (h : execStmt opts cd s st = .ok s') : s'.flags = setsOf [st] ++ s.flags := by
  cases st <;> simp only [execStmt, setsOf] at h ⊢
  case assertClear f => split at h <;> simp_all
  case setFlag f => cases h; rfl
  case assertScope g =>
    split at h
    · simp at h
    · split at h <;> simp_all
  case setScope g => cases h; rfl
  case assertHasKey k => split at h <;> simp_all
  case assertNoCountry => split at h <;> simp_all
  case assertRange x lo hi =>
    obtain ⟨a, _, h⟩ := bind_eq_ok h
    obtain ⟨b, _, h⟩ := bind_eq_ok h
    obtain ⟨c, _, h⟩ := bind_eq_ok h
    split at h
    · split at h <;> simp_all
    · simp at h
  case newDict => cases h; rfl
  case write p v =>
    obtain ⟨a, _, h⟩ := bind_eq_ok h
    obtain ⟨b, _, h⟩ := bind_eq_ok h
    cases h; rfl
  case writeList p vs =>
    obtain ⟨a, _, h⟩ := bind_eq_ok h
    obtain ⟨b, _, h⟩ := bind_eq_ok h
    cases h; rfl
  case writeRepeat p v n =>
    obtain ⟨a, _, h⟩ := bind_eq_ok h
    obtain ⟨b, _, h⟩ := bind_eq_ok h
    split at h
    · split at h
      · obtain ⟨c, _, h⟩ := bind_eq_ok h
        cases h; rfl
      · simp at h
    · simp at h
  case writeIfEq a b p v =>
    obtain ⟨x, _, h⟩ := bind_eq_ok h
    obtain ⟨y, _, h⟩ := bind_eq_ok h
    split at h
    · split at h
      · obtain ⟨c, _, h⟩ := bind_eq_ok h
        obtain ⟨d, _, h⟩ := bind_eq_ok h
        cases h; rfl
      · cases h; rfl
    · cases h; rfl
  case «opaque» src ws =>
    obtain ⟨a, _, h⟩ := bind_eq_ok h
    cases h; rfl

theorem execStmt_guard (opts : Dict α) (cd : Option (Dict α)) (s s' : ScState α) (f : String)
    (h : execStmt opts cd s (.assertClear f) = .ok s') : f ∉ s.flags ∧ s' = s := by
  simp only [execStmt] at h
  split at h <;> simp_all

/-- only `assert not self.X_SET` can produce the flag error, and only when the flag is set -/
theorem execStmt_alreadySet (opts : Dict α) (cd : Option (Dict α)) (s : ScState α) (st : Stmt) (f : String)
    (h : execStmt opts cd s st = .error (.alreadySet f)) : st = .assertClear f ∧ f ∈ s.flags := by
  have key : ∀ r : Except Err (ScState α), NoFlagErr r → r = .error (.alreadySet f) → False := fun r hr e => hr f e
  cases st <;> simp only [execStmt] at h
  case assertClear g => split at h <;> simp_all
  case setFlag g => cases h
  case assertScope g =>
    split at h
    · cases h
    · split at h <;> cases h
  case setScope g => cases h
  case assertHasKey k => split at h <;> cases h
  case assertNoCountry => split at h <;> cases h
  case assertRange x lo hi =>
    refine (key _ ?_ h).elim
    refine noFlagErr_bind _ _ (evalEx_noFlagErr _ _ _ _) fun a => noFlagErr_bind _ _ (evalEx_noFlagErr _ _ _ _) fun b =>
      noFlagErr_bind _ _ (evalEx_noFlagErr _ _ _ _) fun c => ?_
    split
    · split
      · exact noFlagErr_ok _
      · exact noFlagErr_error _ rfl
    · exact noFlagErr_error _ rfl
  case newDict => cases h
  case write p v =>
    refine (key _ ?_ h).elim
    exact noFlagErr_bind _ _ (evalEx_noFlagErr _ _ _ _) fun a => noFlagErr_bind _ _ (storeWrite_noFlagErr _ _ _) fun b => noFlagErr_ok _
  case writeList p vs =>
    refine (key _ ?_ h).elim
    exact noFlagErr_bind _ _ (evalNums_noFlagErr _ _ _ _) fun a => noFlagErr_bind _ _ (storeWrite_noFlagErr _ _ _) fun b => noFlagErr_ok _
  case writeRepeat p v n =>
    refine (key _ ?_ h).elim
    refine noFlagErr_bind _ _ (evalEx_noFlagErr _ _ _ _) fun a => noFlagErr_bind _ _ (evalEx_noFlagErr _ _ _ _) fun b => ?_
    split
    · split
      · exact noFlagErr_bind _ _ (storeWrite_noFlagErr _ _ _) fun b => noFlagErr_ok _
      · exact noFlagErr_error _ rfl
    · exact noFlagErr_error _ rfl
  case writeIfEq a b p v =>
    refine (key _ ?_ h).elim
    refine noFlagErr_bind _ _ (evalEx_noFlagErr _ _ _ _) fun a => noFlagErr_bind _ _ (evalEx_noFlagErr _ _ _ _) fun b => ?_
    split
    · split
      · exact noFlagErr_bind _ _ (evalEx_noFlagErr _ _ _ _) fun a => noFlagErr_bind _ _ (storeWrite_noFlagErr _ _ _) fun b => noFlagErr_ok _
      · exact noFlagErr_ok _
    · exact noFlagErr_ok _
  case «opaque» src ws =>
    refine (key _ ?_ h).elim
    exact noFlagErr_bind _ _ (writeAll_noFlagErr _ _ _) fun a => noFlagErr_ok _

/-! ## a setter body -/

/-- after the first `self.X_SET = True` no further `assert not self.Y_SET` follows -/
def guardsFirst : List Stmt → Bool
  | [] => true
  | .setFlag _ :: t => (guardsOf t).isEmpty && guardsFirst t
  | _ :: t => guardsFirst t

theorem guardsOf_cons (st : Stmt) (t : List Stmt) :
    guardsOf (st :: t) = guardsOf [st] ++ guardsOf t := by
  cases st <;> simp [guardsOf]

theorem setsOf_cons (st : Stmt) (t : List Stmt) :
    setsOf (st :: t) = setsOf [st] ++ setsOf t := by
  cases st <;> simp [setsOf]

/-- a flag error of a body comes from one of its guards -/
theorem execBody_alreadySet_mem (opts : Dict α) (cd : Option (Dict α)) (body : List Stmt) (s : ScState α) (f : String)
    (h : execBody opts cd s body = .error (.alreadySet f)) : f ∈ guardsOf body := by
  induction body generalizing s with
  | nil => simp [execBody] at h
  | cons st t ih =>
    simp only [execBody] at h
    rw [guardsOf_cons]
    rcases bind_eq_error h with h1 | ⟨s1, h1, h2⟩
    · obtain ⟨rfl, _⟩ := execStmt_alreadySet opts cd s st f h1
      simp [guardsOf]
    · exact List.mem_append_right _ (ih s1 h2)

/-- a well-shaped body that fails on a flag: the flag was set *before* the call -/
theorem execBody_alreadySet (opts : Dict α) (cd : Option (Dict α)) (body : List Stmt) (s : ScState α) (f : String)
    (hw : guardsFirst body = true) (h : execBody opts cd s body = .error (.alreadySet f)) :
    f ∈ guardsOf body ∧ f ∈ s.flags := by
  induction body generalizing s with
  | nil => simp [execBody] at h
  | cons st t ih =>
    simp only [execBody] at h
    rcases bind_eq_error h with h1 | ⟨s1, h1, h2⟩
    · obtain ⟨rfl, hm⟩ := execStmt_alreadySet opts cd s st f h1
      exact ⟨by simp [guardsOf], hm⟩
    · have hfl := execStmt_flags opts cd s s1 st h1
      cases st
      case setFlag g =>
        simp only [guardsFirst, Bool.and_eq_true, List.isEmpty_iff] at hw
        have := execBody_alreadySet_mem opts cd t s1 f h2
        rw [hw.1] at this
        cases this
      all_goals
        simp only [guardsFirst] at hw
        simp only [setsOf, List.nil_append] at hfl
        obtain ⟨hm, hf⟩ := ih s1 hw h2
        rw [hfl] at hf
        exact ⟨by rw [guardsOf_cons]; exact List.mem_append_right _ hm, hf⟩

/-- a well-shaped body that succeeds: every guard was clear before the call, and afterwards the
    flags are exactly the former ones plus the ones the body sets -/
theorem execBody_ok (opts : Dict α) (cd : Option (Dict α)) (body : List Stmt) (s s' : ScState α)
    (hw : guardsFirst body = true) (h : execBody opts cd s body = .ok s') :
    (∀ f ∈ guardsOf body, f ∉ s.flags) ∧ s'.flags = (setsOf body).reverse ++ s.flags := by
  induction body generalizing s with
  | nil => simp [execBody] at h; subst h; simp [guardsOf, setsOf]
  | cons st t ih =>
    simp only [execBody] at h
    obtain ⟨s1, h1, h2⟩ := bind_eq_ok h
    have hfl := execStmt_flags opts cd s s1 st h1
    cases st
    case assertClear g =>
      simp only [guardsFirst] at hw
      obtain ⟨hg, rfl⟩ := execStmt_guard opts cd s s1 g h1
      obtain ⟨ha, hb⟩ := ih s1 hw h2
      refine ⟨?_, by simpa [setsOf] using hb⟩
      intro f hf
      simp only [guardsOf, List.mem_cons] at hf
      rcases hf with rfl | hf
      · exact hg
      · exact ha f hf
    case setFlag g =>
      simp only [guardsFirst, Bool.and_eq_true, List.isEmpty_iff] at hw
      obtain ⟨ha, hb⟩ := ih s1 hw.2 h2
      refine ⟨by simp [guardsOf, hw.1], ?_⟩
      simp only [setsOf, List.singleton_append] at hfl
      rw [hb, hfl]; simp [setsOf]
    all_goals
      simp only [guardsFirst] at hw
      simp only [setsOf, List.nil_append] at hfl
      obtain ⟨ha, hb⟩ := ih s1 hw h2
      rw [hfl] at ha hb
      exact ⟨by simpa [guardsOf] using ha, by simpa [setsOf] using hb⟩

/-! ## sequences of setters -/

def nodupB : List String → Bool
  | [] => true
  | a :: t => !(t.contains a) && nodupB t

theorem nodupB_nodup (l : List String) (h : nodupB l = true) : l.Nodup := by
  induction l with
  | nil => exact List.nodup_nil
  | cons a t ih =>
    simp only [nodupB, Bool.and_eq_true, Bool.not_eq_true', List.contains_eq_mem, decide_eq_false_iff_not] at h
    exact List.nodup_cons.mpr ⟨h.1, ih h.2⟩

/-- shape of a setter, decided on the generated table: guards come first, the flags it sets are
    exactly the flags it guards (its family), no flag twice, the family is one `check_all_set` knows -/
def wfSetter (i : SetterInfo) : Bool :=
  guardsFirst i.body && !i.family.isEmpty && nodupB i.family && nodupB (setsOf i.body)
    && i.family.all (fun f => (setsOf i.body).contains f) && (setsOf i.body).all (fun f => i.family.contains f)
    && i.family.all (fun f => allFlags.contains f)

/-- the family flags a sequence of calls touches, with multiplicity -/
def fams (seq : List SetterInfo) : List String := seq.flatMap SetterInfo.family

theorem wf_unpack (i : SetterInfo) (h : wfSetter i = true) :
    guardsFirst i.body = true ∧ i.family ≠ [] ∧ i.family.Nodup ∧ (∀ f, f ∈ setsOf i.body ↔ f ∈ i.family)
      ∧ ∀ f ∈ i.family, f ∈ allFlags := by
  simp only [wfSetter, Bool.and_eq_true, Bool.not_eq_true', List.isEmpty_eq_false_iff, List.all_eq_true,
    List.contains_eq_mem, decide_eq_true_eq] at h
  obtain ⟨⟨⟨⟨⟨⟨h1, h2⟩, h3⟩, h4⟩, h5⟩, h6⟩, h7⟩ := h
  exact ⟨h1, h2, nodupB_nodup _ h3, fun f => ⟨h6 f, h5 f⟩, h7⟩

theorem applySetter_ok (opts : Dict α) (cd : Option (Dict α)) (s s' : ScState α) (i : SetterInfo)
    (hw : wfSetter i = true) (h : applySetter opts cd s i = .ok s') :
    (∀ f ∈ i.family, f ∉ s.flags) ∧ ∀ f, f ∈ s'.flags ↔ f ∈ i.family ∨ f ∈ s.flags := by
  obtain ⟨h1, _, _, h4, _⟩ := wf_unpack i hw
  obtain ⟨ha, hb⟩ := execBody_ok opts cd i.body s s' h1 h
  refine ⟨ha, fun f => ?_⟩
  rw [hb, List.mem_append, List.mem_reverse, h4]

theorem run_ok (opts : Dict α) (cd : Option (Dict α)) (seq : List SetterInfo) (s s' : ScState α)
    (hwf : ∀ i ∈ seq, wfSetter i = true) (h : run opts cd s seq = .ok s') :
    (fams seq).Nodup ∧ (∀ f ∈ fams seq, f ∉ s.flags) ∧ ∀ f, f ∈ s'.flags ↔ f ∈ fams seq ∨ f ∈ s.flags := by
  induction seq generalizing s with
  | nil => simp [run] at h; subst h; simp [fams]
  | cons i t ih =>
    simp only [run] at h
    obtain ⟨s1, h1, h2⟩ := bind_eq_ok h
    have hwi := hwf i (List.mem_cons_self)
    obtain ⟨ha, hb⟩ := applySetter_ok opts cd s s1 i hwi h1
    obtain ⟨hn, hd, hm⟩ := ih s1 (fun j hj => hwf j (List.mem_cons_of_mem _ hj)) h2
    obtain ⟨_, _, hin, _, _⟩ := wf_unpack i hwi
    have hfam : fams (i :: t) = i.family ++ fams t := by simp [fams]
    rw [hfam]
    refine ⟨?_, ?_, ?_⟩
    · rw [List.nodup_append]
      refine ⟨hin, hn, ?_⟩
      intro a ha' b hb' hab
      subst hab
      exact hd a hb' ((hb a).mpr (Or.inl ha'))
    · intro f hf
      rcases List.mem_append.mp hf with hf | hf
      · exact ha f hf
      · exact fun hs => hd f hf ((hb f).mpr (Or.inr hs))
    · intro f
      rw [hm f, hb f, List.mem_append]
      constructor
      · rintro (h | h | h)
        · exact Or.inl (Or.inr h)
        · exact Or.inl (Or.inl h)
        · exact Or.inr h
      · rintro ((h | h) | h)
        · exact Or.inr (Or.inl h)
        · exact Or.inl h
        · exact Or.inr (Or.inr h)

/-- no family twice (and none already set) ⇒ the exactly-once discipline never rejects -/
theorem run_noFlagErr (opts : Dict α) (cd : Option (Dict α)) (seq : List SetterInfo) (s : ScState α)
    (hwf : ∀ i ∈ seq, wfSetter i = true) (hn : (fams seq).Nodup) (hd : ∀ f ∈ fams seq, f ∉ s.flags) :
    NoFlagErr (run opts cd s seq) := by
  induction seq generalizing s with
  | nil => exact noFlagErr_ok _
  | cons i t ih =>
    have hwi := hwf i (List.mem_cons_self)
    obtain ⟨hg, _, _, _, _⟩ := wf_unpack i hwi
    have hfam : fams (i :: t) = i.family ++ fams t := by simp [fams]
    rw [hfam] at hn hd
    intro f h
    simp only [run] at h
    rcases bind_eq_error h with h1 | ⟨s1, h1, h2⟩
    · obtain ⟨hm, hs⟩ := execBody_alreadySet opts cd i.body s f hg h1
      exact hd f (List.mem_append_left _ hm) hs
    · obtain ⟨_, hb⟩ := applySetter_ok opts cd s s1 i hwi h1
      rw [List.nodup_append] at hn
      refine ih s1 (fun j hj => hwf j (List.mem_cons_of_mem _ hj)) hn.2.1 ?_ f h2
      intro g hg' hs1
      rcases (hb g).mp hs1 with h | h
      · exact hn.2.2 g h g hg' rfl
      · exact hd g (List.mem_append_right _ hg') h

/-- a family twice ⇒ rejected -/
theorem run_dup_rejected (opts : Dict α) (cd : Option (Dict α)) (seq : List SetterInfo) (s : ScState α)
    (hwf : ∀ i ∈ seq, wfSetter i = true) (hdup : ¬ (fams seq).Nodup) : ∃ e, run opts cd s seq = .error e := by
  cases h : run opts cd s seq with
  | error e => exact ⟨e, rfl⟩
  | ok s' => exact (hdup (run_ok opts cd seq s s' hwf h).1).elim

end

/-! ## the store: writing one key leaves every other key alone -/

section
variable {β : Type}

theorem lookupK_setKey_eq (k : String) (v : β) (l : List (String × β)) : lookupK k (setKey k v l) = some v := by
  induction l with
  | nil => simp [setKey, lookupK]
  | cons p t ih =>
    obtain ⟨k', v'⟩ := p
    by_cases h : k' = k
    · simp [setKey, lookupK, h]
    · simp [setKey, lookupK, h, ih]

theorem lookupK_setKey_ne (k k' : String) (v : β) (l : List (String × β)) (hne : k' ≠ k) :
    lookupK k' (setKey k v l) = lookupK k' l := by
  induction l with
  | nil => simp [setKey, lookupK, Ne.symm hne]
  | cons p t ih =>
    obtain ⟨k₀, v₀⟩ := p
    by_cases h : k₀ = k
    · subst h
      simp [setKey, lookupK, Ne.symm hne]
    · by_cases h2 : k₀ = k'
      · subst h2
        simp [setKey, lookupK, hne]
      · simp [setKey, lookupK, h, h2, ih]

theorem lookupK_filter (k' : String) (q : String → Bool) (l : List (String × β)) (hq : q k' = true) :
    lookupK k' (l.filter fun p => q p.1) = lookupK k' l := by
  induction l with
  | nil => rfl
  | cons p t ih =>
    obtain ⟨k₀, v₀⟩ := p
    by_cases h : k₀ = k'
    · subst h
      simp [List.filter, hq, lookupK]
    · cases hq0 : q k₀ <;> simp [List.filter, hq0, lookupK, h, ih]

theorem lookupK_writeKey_eq (k : String) (v : β) (l : List (String × β)) : lookupK k (writeKey k v l) = some v :=
  lookupK_setKey_eq _ _ _

/-- Python `d[k] = v` changes `k` (and what was stored below it) and nothing else -/
theorem lookupK_writeKey_frame (k k' : String) (v : β) (l : List (String × β)) (hne : k' ≠ k)
    (hc : isChild k k' = false) : lookupK k' (writeKey k v l) = lookupK k' l := by
  unfold writeKey
  rw [lookupK_setKey_ne _ _ _ _ hne]
  exact lookupK_filter k' (fun x => !isChild k x) l (by simp [hc])

end

section
variable {α : Type} [Add α] [Sub α] [Mul α] [Div α] [Neg α] [LE α] [LT α] [DecidableLE α] [DecidableLT α]
  [OfNat α 0] [OfNat α 1] [OfScientific α] [BEq α] [PyNum α]

/-! ## numeric overrides -/

/-- the constants keys an override names, given the options present -/
def Override.names (opts : Dict α) : Override → List String
  | .substr needle suffix _ => (opts.filter fun p => hasSub p.1 needle).map fun p => p.1 ++ suffix
  | .exact _ target _ _ extra => target :: extra
  | .mult _ _ _ targets tries => targets ++ tries

/-- `k` is one of `names` or lies below one of them -/
def touches (names : List String) (k : String) : Bool := names.any fun n => n == k || isChild n k

theorem touches_cons (n : String) (ns : List String) (k : String) :
    touches (n :: ns) k = ((n == k || isChild n k) || touches ns k) := by
  simp [touches]

theorem touches_append (a b : List String) (k : String) : touches (a ++ b) k = (touches a k || touches b k) := by
  simp [touches, List.any_append]

theorem write_untouched (n k : String) (v : Val α) (c : Dict α) (h : touches [n] k = false) :
    lookupK k (writeKey n v c) = lookupK k c := by
  simp only [touches, List.any_cons, List.any_nil, Bool.or_false, Bool.or_eq_false_iff, beq_eq_false_iff_ne] at h
  exact lookupK_writeKey_frame n k v c (Ne.symm h.1) h.2

theorem substrWrites_frame (needle suffix : String) (conv : Conv) (opts : Dict α) (c c' : Dict α) (k : String)
    (h : substrWrites needle suffix conv opts c = .ok c')
    (hk : touches ((opts.filter fun p => hasSub p.1 needle).map fun p => p.1 ++ suffix) k = false) :
    lookupK k c' = lookupK k c := by
  induction opts generalizing c with
  | nil => simp [substrWrites] at h; subst h; rfl
  | cons p t ih =>
    obtain ⟨k₀, v₀⟩ := p
    simp only [substrWrites] at h
    by_cases hs : hasSub k₀ needle = true
    · simp only [hs, if_true] at h
      obtain ⟨x, _, h⟩ := bind_eq_ok h
      simp only [List.filter, hs, List.map_cons, touches_cons, Bool.or_eq_false_iff] at hk
      rw [ih _ h hk.2]
      exact write_untouched _ _ _ _ (by simp [touches, hk.1.1, hk.1.2])
    · simp only [hs] at h
      simp only [List.filter, hs] at hk
      exact ih _ h hk

theorem mulKey_frame (m : α) (n k : String) (c c' : Dict α) (h : mulKey m n c = .ok c') (hk : touches [n] k = false) :
    lookupK k c' = lookupK k c := by
  unfold mulKey at h
  split at h
  · cases h; exact write_untouched _ _ _ _ hk
  · cases h
  · cases h

theorem mulKeys_frame (m : α) (ns : List String) (k : String) (c c' : Dict α) (h : mulKeys m ns c = .ok c')
    (hk : touches ns k = false) : lookupK k c' = lookupK k c := by
  induction ns generalizing c with
  | nil => simp [mulKeys] at h; subst h; rfl
  | cons n t ih =>
    simp only [mulKeys] at h
    obtain ⟨c1, h1, h2⟩ := bind_eq_ok h
    simp only [touches_cons, Bool.or_eq_false_iff] at hk
    rw [ih _ h2 hk.2]
    exact mulKey_frame m n k c c1 h1 (by simp [touches, hk.1.1, hk.1.2])

theorem mulKeysTry_frame (m : α) (ns : List String) (k : String) (c : Dict α)
    (hk : touches ns k = false) : lookupK k (mulKeysTry m ns c) = lookupK k c := by
  induction ns generalizing c with
  | nil => rfl
  | cons n t ih =>
    simp only [touches_cons, Bool.or_eq_false_iff] at hk
    simp only [mulKeysTry]
    split
    · rename_i c1 h1
      rw [ih _ hk.2]
      exact mulKey_frame m n k c c1 h1 (by simp [touches, hk.1.1, hk.1.2])
    · exact ih _ hk.2

theorem foldl_write_frame (extra : List String) (k : String) (c : Dict α) (hk : touches extra k = false) :
    lookupK k (extra.foldl (fun c n => writeKey n (.opaque : Val α) c) c) = lookupK k c := by
  induction extra generalizing c with
  | nil => rfl
  | cons n t ih =>
    simp only [touches_cons, Bool.or_eq_false_iff] at hk
    simp only [List.foldl]
    rw [ih _ hk.2]
    exact write_untouched _ _ _ _ (by simp [touches, hk.1.1, hk.1.2])

/-- an override changes only the keys it names: flags, scope and every other constant are untouched -/
theorem applyOverride_frame (opts : Dict α) (s s' : ScState α) (ov : Override)
    (h : applyOverride opts s ov = .ok s') :
    s'.flags = s.flags ∧ s'.scope = s.scope ∧
      ∀ k, touches (ov.names opts) k = false → lookupK k s'.consts = lookupK k s.consts := by
  cases ov with
  | substr needle suffix conv =>
    simp only [applyOverride] at h
    obtain ⟨c, hc, h⟩ := bind_eq_ok h
    cases h
    exact ⟨rfl, rfl, fun k hk => substrWrites_frame needle suffix conv opts s.consts c k hc hk⟩
  | exact key target lo hi extra =>
    simp only [applyOverride] at h
    split at h
    · cases h; exact ⟨rfl, rfl, fun _ _ => rfl⟩
    · obtain ⟨x, _, h⟩ := bind_eq_ok h
      split at h
      · cases h
        refine ⟨rfl, rfl, fun k hk => ?_⟩
        simp only [Override.names, touches_cons, Bool.or_eq_false_iff] at hk
        show lookupK k (extra.foldl _ _) = _
        rw [foldl_write_frame extra k _ hk.2]
        exact write_untouched _ _ _ _ (by simp [touches, hk.1.1, hk.1.2])
      · cases h
  | mult key lo hi targets tries =>
    simp only [applyOverride] at h
    split at h
    · cases h; exact ⟨rfl, rfl, fun _ _ => rfl⟩
    · obtain ⟨m, _, h⟩ := bind_eq_ok h
      split at h
      · obtain ⟨c, hc, h⟩ := bind_eq_ok h
        cases h
        refine ⟨rfl, rfl, fun k hk => ?_⟩
        simp only [Override.names, touches_append, Bool.or_eq_false_iff] at hk
        show lookupK k (mulKeysTry m tries c) = _
        rw [mulKeysTry_frame m tries k c hk.2]
        exact mulKeys_frame m targets k s.consts c hc hk.1
      · cases h

/-- an override whose option is absent does nothing at all -/
theorem applyOverride_absent (opts : Dict α) (s : ScState α) (ov : Override) :
    (match ov with
      | .substr needle _ _ => ∀ p ∈ opts, hasSub p.1 needle = false
      | .exact key _ _ _ _ => lookupK key opts = none
      | .mult key _ _ _ _ => lookupK key opts = none) →
    applyOverride opts s ov = .ok s := by
  cases ov with
  | substr needle suffix conv =>
    intro h
    have : ∀ c : Dict α, substrWrites needle suffix conv opts c = .ok c := by
      induction opts with
      | nil => intro c; rfl
      | cons p t ih =>
        intro c
        obtain ⟨k₀, v₀⟩ := p
        have h0 := h (k₀, v₀) List.mem_cons_self
        simp only at h0
        simp only [substrWrites, h0]
        exact ih (fun q hq => h q (List.mem_cons_of_mem _ hq)) c
    simp [applyOverride, this, bind, Except.bind, pure, Except.pure]
  | exact key target lo hi extra => intro h; simp only at h; simp [applyOverride, h]
  | mult key lo hi targets tries => intro h; simp only at h; simp [applyOverride, h]

/-- an `exact` override that names one key puts the converted value there -/
theorem applyOverride_exact_sets (opts : Dict α) (s s' : ScState α) (key target : String) (lo hi : Lit) (v : Val α)
    (hv : lookupK key opts = some v) (h : applyOverride opts s (.exact key target lo hi []) = .ok s') :
    ∃ x, convVal .float v = .ok x ∧ inRange lo hi x = true ∧ lookupK target s'.consts = some (.num x) := by
  simp only [applyOverride, hv] at h
  obtain ⟨x, hx, h⟩ := bind_eq_ok h
  split at h
  · rename_i hr
    cases h
    exact ⟨x, hx, hr, by simp [List.foldl, lookupK_writeKey_eq]⟩
  · cases h

/-! ## the dispatcher -/

theorem checkRequired_missing (opts : Dict α) (req : List String) (o : String) (hm : o ∈ req)
    (hn : lookupK o opts = none) :
    ∃ o', o' ∈ req ∧ lookupK o' opts = none ∧ checkRequired opts req = .error (.missing o') := by
  induction req with
  | nil => cases hm
  | cons r t ih =>
    by_cases hr : (lookupK r opts).isSome = true
    · have : o ∈ t := by
        rcases List.mem_cons.mp hm with rfl | h
        · simp [hn] at hr
        · exact h
      obtain ⟨o', h1, h2, h3⟩ := ih this
      exact ⟨o', List.mem_cons_of_mem _ h1, h2, by simp [checkRequired, hr, h3]⟩
    · refine ⟨r, List.mem_cons_self, ?_, by simp [checkRequired, hr]⟩
      cases h : lookupK r opts with
      | none => rfl
      | some v => simp [h] at hr

theorem checkRequired_ok (opts : Dict α) (req : List String) (h : checkRequired opts req = .ok ()) :
    ∀ o ∈ req, (lookupK o opts).isSome = true := by
  induction req with
  | nil => intro o ho; cases ho
  | cons r t ih =>
    simp only [checkRequired] at h
    split at h
    · rename_i hr
      intro o ho
      rcases List.mem_cons.mp ho with rfl | ho
      · exact hr
      · exact ih h o ho
    · cases h

theorem pickBranch_none (v : Val α) (brs : List Branch) :
    pickBranch v brs = none ↔ ∀ b ∈ brs, ∀ x, v = .str x → b.value ≠ x := by
  cases v <;> simp [pickBranch, List.find?_eq_none]

theorem execItem_unknown (opts : Dict α) (cd : Option (Dict α)) (s : ScState α) (o : String) (brs : List Branch)
    (v : Val α) (hv : lookupK o opts = some v) (hp : pickBranch v brs = none) :
    execItem opts cd s (.family o brs none) = .error (.unknownValue o) := by
  simp [execItem, hv, hp]

theorem planItem_unknown (opts : Dict α) (o : String) (brs : List Branch)
    (v : Val α) (hv : lookupK o opts = some v) (hp : pickBranch v brs = none) :
    planItem opts (.family o brs none) = .error (.unknownValue o) := by
  simp [planItem, hv, hp]

/-- an unknown value of any family in the list makes the whole dispatch fail -/
theorem execItems_unknown (opts : Dict α) (cd : Option (Dict α)) (items : List DispItem) (s : ScState α)
    (o : String) (brs : List Branch) (v : Val α) (hm : .family o brs none ∈ items)
    (hv : lookupK o opts = some v) (hp : pickBranch v brs = none) : ∃ e, execItems opts cd s items = .error e := by
  induction items generalizing s with
  | nil => cases hm
  | cons it t ih =>
    simp only [execItems]
    rcases List.mem_cons.mp hm with h | h
    · subst h
      exact ⟨.unknownValue o, by simp [execItem_unknown opts cd s o brs v hv hp, bind, Except.bind]⟩
    · cases h1 : execItem opts cd s it with
      | error e => exact ⟨e, by simp [bind, Except.bind]⟩
      | ok s1 =>
        obtain ⟨e, he⟩ := ih s1 h
        exact ⟨e, by simpa [bind, Except.bind] using he⟩

/-- … and it already fails while the calls are being chosen, before any setter runs -/
theorem planItems_unknown (opts : Dict α) (items : List DispItem)
    (o : String) (brs : List Branch) (v : Val α) (hm : .family o brs none ∈ items)
    (hv : lookupK o opts = some v) (hp : pickBranch v brs = none) : ∃ e, planItems opts items = .error e := by
  induction items with
  | nil => cases hm
  | cons it t ih =>
    simp only [planItems]
    rcases List.mem_cons.mp hm with h | h
    · subst h
      exact ⟨.unknownValue o, by simp [planItem_unknown opts o brs v hv hp, bind, Except.bind]⟩
    · cases h1 : planItem opts it with
      | error e => exact ⟨e, by simp [bind, Except.bind]⟩
      | ok p1 =>
        obtain ⟨e, he⟩ := ih h
        exact ⟨e, by simp [bind, Except.bind, he]⟩

/-! ### flags only grow, and an accepted dispatch has set the family of every setter it called -/

theorem execStmt_flags_mono (opts : Dict α) (cd : Option (Dict α)) (s s' : ScState α) (st : Stmt)
    (h : execStmt opts cd s st = .ok s') : ∀ f ∈ s.flags, f ∈ s'.flags := by
  intro f hf
  rw [execStmt_flags opts cd s s' st h]
  exact List.mem_append_right _ hf

theorem execBody_flags_mono (opts : Dict α) (cd : Option (Dict α)) (body : List Stmt) (s s' : ScState α)
    (h : execBody opts cd s body = .ok s') : ∀ f ∈ s.flags, f ∈ s'.flags := by
  induction body generalizing s with
  | nil => simp [execBody] at h; subst h; exact fun f hf => hf
  | cons st t ih =>
    simp only [execBody] at h
    obtain ⟨s1, h1, h2⟩ := bind_eq_ok h
    exact fun f hf => ih s1 h2 f (execStmt_flags_mono opts cd s s1 st h1 f hf)

theorem execAction_flags_mono (opts : Dict α) (cd : Option (Dict α)) (s s' : ScState α) (a : Action)
    (h : execAction opts cd s a = .ok s') : ∀ f ∈ s.flags, f ∈ s'.flags := by
  cases a with
  | call n =>
    simp only [execAction] at h
    split at h
    · exact execBody_flags_mono opts cd _ s s' h
    · cases h
  | stmt st => exact execStmt_flags_mono opts cd s s' st h
  | exit => cases h

theorem execActions_flags_mono (opts : Dict α) (cd : Option (Dict α)) (acts : List Action) (s s' : ScState α)
    (h : execActions opts cd s acts = .ok s') : ∀ f ∈ s.flags, f ∈ s'.flags := by
  induction acts generalizing s with
  | nil => simp [execActions] at h; subst h; exact fun f hf => hf
  | cons a t ih =>
    simp only [execActions] at h
    obtain ⟨s1, h1, h2⟩ := bind_eq_ok h
    exact fun f hf => ih s1 h2 f (execAction_flags_mono opts cd s s1 a h1 f hf)

/-- actions that ran to completion contain no `sys.exit()`, and every setter they call exists and has
    left its family set -/
theorem execActions_ok (opts : Dict α) (cd : Option (Dict α)) (acts : List Action) (s s' : ScState α)
    (hwf : ∀ i ∈ setters, wfSetter i = true)
    (h : execActions opts cd s acts = .ok s') :
    Action.exit ∉ acts ∧ ∀ n, Action.call n ∈ acts → ∃ i, findSetter n = some i ∧ ∀ f ∈ i.family, f ∈ s'.flags := by
  induction acts generalizing s with
  | nil => exact ⟨by simp, fun n hn => by cases hn⟩
  | cons a t ih =>
    simp only [execActions] at h
    obtain ⟨s1, h1, h2⟩ := bind_eq_ok h
    obtain ⟨hx, hc⟩ := ih s1 h2
    constructor
    · intro hm
      rcases List.mem_cons.mp hm with h | h
      · subst h; cases h1
      · exact hx h
    · intro n hn
      rcases List.mem_cons.mp hn with h | h
      · subst h
        simp only [execAction] at h1
        cases hf : findSetter n with
        | none => simp [hf] at h1
        | some i =>
          simp only [hf] at h1
          have hi : i ∈ setters := List.mem_of_find?_eq_some hf
          obtain ⟨_, hb⟩ := applySetter_ok opts cd s s1 i (hwf i hi) h1
          exact ⟨i, rfl, fun f hfam => execActions_flags_mono opts cd t s1 s' h2 f ((hb f).mpr (Or.inl hfam))⟩
      · exact hc n h

theorem pickBranch_mem (v : Val α) (brs : List Branch) (b : Branch) (h : pickBranch v brs = some b) : b ∈ brs := by
  cases v <;> simp [pickBranch] at h
  exact List.mem_of_find?_eq_some h

theorem execItem_flags_mono (opts : Dict α) (cd : Option (Dict α)) (s s' : ScState α) (it : DispItem)
    (h : execItem opts cd s it = .ok s') : ∀ f ∈ s.flags, f ∈ s'.flags := by
  cases it with
  | family o brs d =>
    simp only [execItem] at h
    split at h
    · cases h
    · split at h
      · exact execActions_flags_mono opts cd _ s s' h
      · split at h
        · cases h
        · exact execActions_flags_mono opts cd _ s s' h
  | stmt st => exact execStmt_flags_mono opts cd s s' st h
  | override ov =>
    intro f hf
    rw [(applyOverride_frame opts s s' ov h).1]; exact hf

theorem execItems_flags_mono (opts : Dict α) (cd : Option (Dict α)) (items : List DispItem) (s s' : ScState α)
    (h : execItems opts cd s items = .ok s') : ∀ f ∈ s.flags, f ∈ s'.flags := by
  induction items generalizing s with
  | nil => simp [execItems] at h; subst h; exact fun f hf => hf
  | cons it t ih =>
    simp only [execItems] at h
    obtain ⟨s1, h1, h2⟩ := bind_eq_ok h
    exact fun f hf => ih s1 h2 f (execItem_flags_mono opts cd s s1 it h1 f hf)

/-- an accepted dispatch: for every option family (without catch-all branch) one of its branches was
    taken, it does not exit, and every setter it calls has left its family set at the end -/
theorem execItems_family (opts : Dict α) (cd : Option (Dict α)) (items : List DispItem) (s s' : ScState α)
    (hwf : ∀ i ∈ setters, wfSetter i = true)
    (h : execItems opts cd s items = .ok s') (o : String) (brs : List Branch)
    (hm : .family o brs none ∈ items) :
    ∃ b ∈ brs, Action.exit ∉ b.actions ∧
      ∀ n, Action.call n ∈ b.actions → ∃ i, findSetter n = some i ∧ ∀ f ∈ i.family, f ∈ s'.flags := by
  induction items generalizing s with
  | nil => cases hm
  | cons it t ih =>
    simp only [execItems] at h
    obtain ⟨s1, h1, h2⟩ := bind_eq_ok h
    rcases List.mem_cons.mp hm with hh | hh
    · subst hh
      simp only [execItem] at h1
      split at h1
      · cases h1
      · rename_i v hv
        split at h1
        · rename_i b hb
          obtain ⟨hx, hc⟩ := execActions_ok opts cd b.actions s s1 hwf h1
          refine ⟨b, pickBranch_mem v brs b hb, hx, fun n hn => ?_⟩
          obtain ⟨i, hi, hfam⟩ := hc n hn
          exact ⟨i, hi, fun f hf => execItems_flags_mono opts cd t s1 s' h2 f (hfam f hf)⟩
        · cases h1
    · exact ih s1 h2 hh

/-! ### choosing first and running afterwards is the same as the interleaved code -/

theorem execSteps_append (opts : Dict α) (cd : Option (Dict α)) (a b : List Step) (s : ScState α) :
    execSteps opts cd s (a ++ b) = (execSteps opts cd s a >>= fun s' => execSteps opts cd s' b) := by
  induction a generalizing s with
  | nil => simp [execSteps, bind, Except.bind]
  | cons x t ih =>
    simp only [List.cons_append, execSteps]
    cases h : execStep opts cd s x with
    | error e => simp [bind, Except.bind]
    | ok s1 => simpa [bind, Except.bind] using ih s1

theorem execSteps_acts (opts : Dict α) (cd : Option (Dict α)) (acts : List Action) (s : ScState α) :
    execSteps opts cd s (acts.map .act) = execActions opts cd s acts := by
  induction acts generalizing s with
  | nil => rfl
  | cons a t ih =>
    simp only [List.map_cons, execSteps, execActions, execStep]
    cases h : execAction opts cd s a with
    | error e => simp [bind, Except.bind]
    | ok s1 => simpa [bind, Except.bind] using ih s1

/-- one dispatch step = choose, then run what was chosen -/
theorem execItem_eq (opts : Dict α) (cd : Option (Dict α)) (s : ScState α) (it : DispItem) :
    execItem opts cd s it = (planItem opts it >>= fun p => execSteps opts cd s p) := by
  cases it with
  | family o brs dflt =>
    simp only [execItem, planItem]
    cases lookupK o opts with
    | none => simp [bind, Except.bind]
    | some v =>
      simp only
      cases pickBranch v brs with
      | some b => simp [bind, Except.bind, execSteps_acts]
      | none =>
        cases dflt with
        | none => simp [bind, Except.bind]
        | some acts => simp [bind, Except.bind, execSteps_acts]
  | stmt st =>
    simp only [execItem, planItem, bind, Except.bind, execSteps, execStep, execAction]
    cases execStmt opts cd s st <;> rfl
  | override ov =>
    simp only [execItem, planItem, bind, Except.bind, execSteps, execStep]
    cases applyOverride opts s ov <;> rfl

theorem execItems_two_phase (opts : Dict α) (cd : Option (Dict α)) (items : List DispItem) (s r : ScState α) :
    execItems opts cd s items = .ok r ↔ ∃ p, planItems opts items = .ok p ∧ execSteps opts cd s p = .ok r := by
  induction items generalizing s with
  | nil =>
    simp only [execItems, planItems]
    constructor
    · intro h; exact ⟨[], rfl, h⟩
    · rintro ⟨p, hp, h⟩; cases hp; exact h
  | cons it t ih =>
    simp only [execItems, planItems]
    rw [execItem_eq]
    constructor
    · intro h
      obtain ⟨s1, h1, h2⟩ := bind_eq_ok h
      obtain ⟨p1, hp1, he1⟩ := bind_eq_ok h1
      obtain ⟨p2, hp2, he2⟩ := (ih s1).mp h2
      refine ⟨p1 ++ p2, by simp [hp1, hp2, bind, Except.bind, pure, Except.pure], ?_⟩
      rw [execSteps_append, he1]
      simpa [bind, Except.bind] using he2
    · rintro ⟨p, hp, he⟩
      obtain ⟨p1, hp1, hp⟩ := bind_eq_ok hp
      obtain ⟨p2, hp2, hp⟩ := bind_eq_ok hp
      cases hp
      rw [execSteps_append] at he
      obtain ⟨s1, he1, he2⟩ := bind_eq_ok he
      have := (ih s1).mpr ⟨p2, hp2, he2⟩
      simp [hp1, he1, this, bind, Except.bind]

/-! ### the known-to-fail patch works on a copy and changes one key -/

theorem alterOptions_cases (iso : String) (opts copy : Dict α) (rules : List FailRule)
    (h : alterOptions iso opts rules = .ok copy) :
    copy = opts ∨ ∃ r ∈ rules, ruleMatches opts r.conds = true ∧ iso = r.iso3 ∧
      copy = setKey r.corrKey (.str r.corrVal) opts := by
  induction rules with
  | nil => simp [alterOptions] at h; exact Or.inl h.symm
  | cons r t ih =>
    simp only [alterOptions] at h
    split at h
    · cases h
    · split at h
      · rename_i hm
        simp only [Bool.and_eq_true, beq_iff_eq] at hm
        cases h
        exact Or.inr ⟨r, List.mem_cons_self, hm.1, hm.2, rfl⟩
      · rcases ih h with h | ⟨r', hr', h'⟩
        · exact Or.inl h
        · exact Or.inr ⟨r', List.mem_cons_of_mem _ hr', h'⟩

theorem ruleMatches_mem (opts : Dict α) (conds : List (String × List String)) (k : String) (vals : List String)
    (hm : ruleMatches opts conds = true) (hk : (k, vals) ∈ conds) :
    ∃ v, lookupK k opts = some v ∧ valIn v vals = true := by
  induction conds with
  | nil => cases hk
  | cons c t ih =>
    obtain ⟨k₀, vals₀⟩ := c
    simp only [ruleMatches, Bool.and_eq_true] at hm
    rcases List.mem_cons.mp hk with h | h
    · cases h
      cases hl : lookupK k opts with
      | none => simp [hl] at hm
      | some v => simp only [hl] at hm; exact ⟨v, rfl, hm.1⟩
    · exact ih hm.2 h

end

/-! ## reading a setter off the table, for comparison with the hand-written specification -/

/-- the assignments of a body in execution order (a later assignment to the same path wins; an
    assignment of `{}` to a path discards what was stored below it) -/
def assigns : List Stmt → List (String × SpecVal)
  | [] => []
  | .newDict :: t => assigns t
  | .write p v :: t => (p, .ex v) :: assigns t
  | .writeList p vs :: t => (p, .list vs) :: assigns t
  | .writeRepeat p v n :: t => (p, .rep v n) :: assigns t
  | _ :: t => assigns t

def scopeOf : List Stmt → Option Bool
  | [] => none
  | .assertScope g :: _ => some g
  | _ :: t => scopeOf t

def setsScopeOf : List Stmt → Option Bool
  | [] => none
  | .setScope g :: _ => some g
  | _ :: t => setsScopeOf t

def needsOf : List Stmt → List String
  | [] => []
  | .assertHasKey k :: t => k :: needsOf t
  | _ :: t => needsOf t

/-- nothing conditional, opaque or data-dependent beyond the expression grammar -/
def plainStmt : Stmt → Bool
  | .writeIfEq .. => false
  | .opaque .. => false
  | .assertRange .. => false
  | .assertNoCountry => false
  | _ => true

def specOf (i : SetterInfo) : Spec :=
  { name := i.name, params := i.params, family := i.family, scope := scopeOf i.body, setsScope := setsScopeOf i.body,
    needs := needsOf i.body, writes := assigns i.body }

/-- the table entry of `sp.name` is a plain setter, guards and sets the same flags, and does exactly what `sp` says -/
def meets (sp : Spec) : Bool :=
  match findSetter sp.name with
  | some i => i.body.all plainStmt && !i.isOpaque && decide (setsOf i.body = i.family ∨ (setsOf i.body).reverse = i.family)
      && decide (specOf i = sp)
  | none => false

/-- same, but the specification lists only the keys outside the dictionary `skip` (a large numeric table) -/
def meetsExcept (skip : String) (nskip : Nat) (sp : Spec) : Bool :=
  match findSetter sp.name with
  | some i =>
    let s := specOf i
    i.body.all plainStmt && !i.isOpaque
      && decide ({ s with writes := s.writes.filter fun p => !isChild skip p.1 } = sp)
      && (s.writes.filter fun p => isChild skip p.1).length == nskip
  | none => false

/-- option family ↦ value ↦ what the dispatcher does (`"<exit>"` = prints that the value does not work and exits) -/
def dispatchSummary : List DispItem → List (String × List (String × List String))
  | [] => []
  | .family o brs _ :: t =>
    (o, brs.map fun b => (b.value, b.actions.filterMap fun a => match a with
      | .call n => some n
      | .exit => some "<exit>"
      | .stmt _ => none)) :: dispatchSummary t
  | _ :: t => dispatchSummary t

def overridesOf : List DispItem → List Override
  | [] => []
  | .override o :: t => o :: overridesOf t
  | _ :: t => overridesOf t

/-- the direct writes of the dispatcher itself (COUNTRY_CODE, NMONTHS) -/
def dispatchStmts : List DispItem → List Stmt
  | [] => []
  | .stmt s :: t => s :: dispatchStmts t
  | .family _ brs _ :: t => (brs.flatMap fun b => b.actions.filterMap fun a => match a with | .stmt s => some s | _ => none) ++ dispatchStmts t
  | _ :: t => dispatchStmts t

/-! ## strings: the head-count override key -/

theorem isPrefixL_append (a b : List Char) : isPrefixL a (a ++ b) = true := by
  induction a with
  | nil => simp [isPrefixL]
  | cons c t ih => simp [isPrefixL, ih]

theorem hasSubL_append (sub pre post : List Char) : hasSubL sub (pre ++ (sub ++ post)) = true := by
  induction pre with
  | nil =>
    cases h : sub ++ post with
    | nil =>
      have : sub = [] := (List.append_eq_nil_iff.mp h).1
      simp [hasSubL, this]
    | cons c t =>
      have hp : isPrefixL sub (c :: t) = true := by rw [← h]; exact isPrefixL_append _ _
      simp [hasSubL, hp]
  | cons c t ih => simp [hasSubL, ih]

/-- `(s + suf).removesuffix(suf) == s`, for every `s` -/
theorem removeSuffixL_append (s suf : List Char) : removeSuffixL (s ++ suf) suf = s := by
  unfold removeSuffixL
  rw [List.reverse_append, isPrefixL_append]
  simp

theorem hasSub_append (p sub q : String) : hasSub (p ++ sub ++ q) sub = true := by
  unfold hasSub
  simp only [String.toList_append, List.append_assoc]
  exact hasSubL_append _ _ _

theorem removeSuffix_append (s suf : String) : removeSuffix (s ++ suf) suf = s := by
  unfold removeSuffix
  simp [String.toList_append, removeSuffixL_append]

end Allfed.Scenario
