import Driver.Loop
import Driver.Ops.Handoff
def main : IO Unit := runDriver Ops.Handoff.ops
