import sys, time, os, copy, json
os.chdir('/repo')
sys.path.insert(0,'/repo')
import matplotlib; matplotlib.use('Agg')
import numpy as np, pandas as pd
from src.scenarios.run_scenario import ScenarioRunner
from src.optimizer.optimizer import Optimizer
from src.optimizer import parameters as P
cap=[]
_oh=Optimizer.optimize_to_humans; _oa=Optimizer.optimize_feed_to_animals
def oh(self,c,t):
    r=_oh(self,c,t); cap.append(('humans',self,r)); return r
def oa(self,c,t,m):
    r=_oa(self,c,t,m); cap.append(('animals',self,r)); return r
Optimizer.optimize_to_humans=oh; Optimizer.optimize_feed_to_animals=oa
iso=sys.argv[1]; 
opt=dict(scale='country',seasonality='country',grasses='country_nuclear_winter',crop_disruption='country_nuclear_winter',
 scenario=sys.argv[2] if len(sys.argv)>2 else 'all_resilient_foods',fish='nuclear_winter',waste='baseline_in_country',nutrition='catastrophe',intake_constraints='enabled',
 stored_food='baseline',ratio_stocks_untouched='zero',shutoff=sys.argv[3] if len(sys.argv)>3 else 'long_delayed_shutoff',cull='do_eat_culled',fat='not_required',protein='not_required',meat_strategy='reduce_breeding',NMONTHS=120)
tab=pd.read_csv('/repo/data/no_food_trade/computer_readable_combined.csv')
row=[r for _,r in tab.iterrows() if r["iso3"]==iso][0]
sr=ScenarioRunner()
t=time.time()
c,tc,sl=sr.set_depending_on_option(opt,country_data=row)
res=sr.run_and_analyze_scenario(c,tc,sl,False,False,'',row,False,row['country'],iso,title='scratch_'+iso)
print('time',time.time()-t, 'pct',res.percent_people_fed)
for kind,o,r in cap:
    model=r[0]
    print(kind, len(model.variables()), len(model.constraints), r[3])
