import Mathlib.Algebra.Order.Field.Basic
import Mathlib.Tactic.Linarith
import Mathlib.Tactic.Ring
import Mathlib.Algebra.BigOperators.Group.List.Basic
import Mathlib.Algebra.Order.BigOperators.Group.List

set_option linter.unusedSectionVars false
inductive Rel | le | eq | ge deriving DecidableEq, Repr

structure Row (α : Type) where
  form : List (Nat × α)
  rel : Rel
  rhs : α

section model
variable {α : Type} [Add α] [Sub α] [Mul α] [Neg α] [LE α] [LT α] [DecidableLE α] [DecidableLT α] [OfNat α 0]

def evalLF (x : Nat → α) (l : List (Nat × α)) : α := l.foldr (fun p acc => p.2 * x p.1 + acc) 0

def Row.holds (x : Nat → α) (r : Row α) : Prop :=
  match r.rel with
  | .le => evalLF x r.form ≤ r.rhs
  | .eq => evalLF x r.form = r.rhs
  | .ge => r.rhs ≤ evalLF x r.form

def signOK (r : Rel) (y : α) : Bool :=
  match r with
  | .le => decide (0 ≤ y)
  | .eq => true
  | .ge => decide (y ≤ 0)

def scaleLF (y : α) (l : List (Nat × α)) : List (Nat × α) := l.map (fun p => (p.1, y * p.2))

/-- Σ y_i * row_i as an (unnormalised) linear form and its right-hand side -/
def comboForm : List (Row α × α) → List (Nat × α)
  | [] => []
  | (r, y) :: t => scaleLF y r.form ++ comboForm t
def comboRhs : List (Row α × α) → α
  | [] => 0
  | (r, y) :: t => y * r.rhs + comboRhs t

/-- merge adjacent equal keys (run after sorting by key) -/
def combine : List (Nat × α) → List (Nat × α)
  | [] => []
  | [p] => [p]
  | (j, a) :: (k, b) :: t => if j = k then combine ((j, a + b) :: t) else (j, a) :: combine ((k, b) :: t)
termination_by l => l.length

def pos0 (a : α) : α := if 0 < a then a else 0
def boundLF (U : Nat → α) (l : List (Nat × α)) : α := l.foldr (fun (p : Nat × α) acc => pos0 p.2 * U p.1 + acc) 0
end model

section proofs
variable {K : Type} [Field K] [LinearOrder K] [IsStrictOrderedRing K]

@[simp] theorem evalLF_nil (x : Nat → K) : evalLF x [] = 0 := rfl
@[simp] theorem evalLF_cons (x : Nat → K) (p) (l) : evalLF x (p :: l) = p.2 * x p.1 + evalLF x l := rfl
theorem evalLF_append (x : Nat → K) (l₁ l₂) : evalLF x (l₁ ++ l₂) = evalLF x l₁ + evalLF x l₂ := by
  induction l₁ with
  | nil => simp
  | cons p t ih => simp [ih]; ring
theorem evalLF_scale (x : Nat → K) (y : K) (l) : evalLF x (scaleLF y l) = y * evalLF x l := by
  induction l with
  | nil => simp [scaleLF]
  | cons p t ih => simp [scaleLF] at *; rw [ih]; ring

theorem evalLF_combine (x : Nat → K) : ∀ l, evalLF x (combine l) = evalLF x l
  | [] => by simp [combine]
  | [p] => by simp [combine]
  | (j, a) :: (k, b) :: t => by
      unfold combine
      split_ifs with h
      · subst h
        rw [evalLF_combine x ((j, a + b) :: t)]
        simp; ring
      · simp [evalLF_combine x ((k, b) :: t)]
termination_by l => l.length

theorem evalLF_perm (x : Nat → K) {l₁ l₂ : List (Nat × K)} (h : l₁.Perm l₂) : evalLF x l₁ = evalLF x l₂ := by
  induction h with
  | nil => rfl
  | cons p _ ih => simp [ih]
  | swap p q l => simp; ring
  | trans _ _ ih₁ ih₂ => exact ih₁.trans ih₂

theorem combo_le (x : Nat → K) : ∀ (rows : List (Row K × K)),
    (∀ ry ∈ rows, ry.1.holds x ∧ signOK ry.1.rel ry.2 = true) →
    evalLF x (comboForm rows) ≤ comboRhs rows
  | [], _ => by simp [comboForm, comboRhs]
  | (r, y) :: t, h => by
      have ht := combo_le x t (fun ry hry => h ry (List.mem_cons_of_mem _ hry))
      obtain ⟨hr, hs⟩ := h (r, y) (List.mem_cons_self)
      simp only [comboForm, comboRhs, evalLF_append, evalLF_scale]
      have : y * evalLF x r.form ≤ y * r.rhs := by
        cases hrel : r.rel <;> simp [Row.holds, signOK, hrel] at hr hs
        · exact mul_le_mul_of_nonneg_left hr hs
        · rw [hr]
        · exact mul_le_mul_of_nonpos_left hr hs
      linarith

theorem eval_le_bound (x U : Nat → K) (hx : ∀ j, 0 ≤ x j ∧ x j ≤ U j) :
    ∀ l, evalLF x l ≤ boundLF U l
  | [] => by simp [boundLF]
  | p :: t => by
      have ih := eval_le_bound x U hx t
      have : p.2 * x p.1 ≤ pos0 p.2 * U p.1 := by
        unfold pos0
        obtain ⟨h0, hU⟩ := hx p.1
        split_ifs with hp
        · exact mul_le_mul_of_nonneg_left hU hp.le
        · have : p.2 * x p.1 ≤ 0 := mul_nonpos_of_nonpos_of_nonneg (not_lt.mp hp) h0
          simpa using this
      simp [boundLF] at *
      linarith

/-- Safe dual bound: for any feasible x within bounds, objective ≤ Σ y b + bound of the residual. -/
theorem safe_dual_bound (c : List (Nat × K)) (rows : List (Row K × K)) (resid : List (Nat × K))
    (x U : Nat → K) (hx : ∀ j, 0 ≤ x j ∧ x j ≤ U j)
    (hfeas : ∀ ry ∈ rows, ry.1.holds x ∧ signOK ry.1.rel ry.2 = true)
    (hres : ∀ x' : Nat → K, evalLF x' resid = evalLF x' c - evalLF x' (comboForm rows)) :
    evalLF x c ≤ comboRhs rows + boundLF U resid := by
  have h1 := combo_le x rows hfeas
  have h2 := eval_le_bound x U hx resid
  have h3 := hres x
  linarith
end proofs
#print axioms safe_dual_bound
