import AllfedModel.Model.Herd
import AllfedModel.Proofs.Herd
/-!
# C06 — herd head-count ledger balances every month

Property theorems only; helper lemmas live in `Proofs/Herd.lean`.
`K` is any linearly ordered field; the number of species, the species parameters (within `HerdOK`),
the feed/grass series and its length are arbitrary.  Python's `round` (`rnd`) is an arbitrary
function: nothing in C06 depends on it.

The model (`Model/Herd.lean`) follows the month loop of `animal_populations.main()`:
`monthStep` = feeding → births / breeding change / transfers → slaughter with the hour budget of
each size class → home-kill, starvation deaths, pregnant adjustment, final population;
`run` = the loop over the supply series.  A record `d : WD K` is what `main()` appends for one herd
in one month; `d.c.b.a.h` is the herd at the START of the month, `d.popEnd` its head count at the end.

Hypotheses (`HerdOK`, `CountryOK`, defined in `Proofs/Herd.lean`): the parameter ranges the setters of
`AnimalSpecies` enforce and the shipped tables satisfy, and a non-negative initial state.  Each
month-level theorem is about an arbitrary month started from herds satisfying `HerdOK`; `C06_invariant`
shows the month loop re-establishes `HerdOK`, and the `C06_run_*` theorems lift every clause to every
month of every run by induction over the series.
-/
namespace Allfed.C06
open Allfed Allfed.Herd Allfed.HerdProofs

variable {K : Type} [Field K] [LinearOrder K] [IsStrictOrderedRing K]

/-! ## one month -/

/-- end-of-month head count = start + births + transfers in − retirements − natural deaths −
    slaughter − starvation deaths − home-kill, or zero when that would be negative -/
theorem C06_ledger (cn : Country K) (hcn : CountryOK cn) (rnd : K → K) (first : Bool) (month : K)
    (herds : List (Herd K)) (hh : ∀ h ∈ herds, HerdOK h) (feed grass : K) (r : MonthRec K)
    (herds' : List (Herd K)) (h : monthStep cn rnd first month herds feed grass = .ok (r, herds')) :
    ∀ d ∈ r.recs,
      d.popEnd = max 0 (d.c.b.a.h.st.pop + d.c.b.births + transferIn d - d.c.b.retiring - d.c.otherDeath
        - d.c.slaughter - d.ods - d.hkHealthy - d.hkStarving) :=
  month_ledger (monthStep_spec cn hcn rnd first month herds hh feed grass r herds' h)

/-- head counts and every flow are non-negative (a dairy herd's `transfer_population` entry is the
    negative of what leaves it, by the code's sign convention) -/
theorem C06_nonneg (cn : Country K) (hcn : CountryOK cn) (rnd : K → K) (first : Bool) (month : K)
    (herds : List (Herd K)) (hh : ∀ h ∈ herds, HerdOK h) (feed grass : K) (r : MonthRec K)
    (herds' : List (Herd K)) (h : monthStep cn rnd first month herds feed grass = .ok (r, herds')) :
    ∀ d ∈ r.recs,
      0 ≤ d.c.b.a.h.st.pop ∧ 0 ≤ d.popEnd ∧ 0 ≤ d.c.popAfter ∧ 0 ≤ d.c.b.births ∧ 0 ≤ d.c.b.transferBirths ∧
      0 ≤ d.c.b.retiring ∧ 0 ≤ transferIn d ∧ (d.c.b.a.h.sp.isMilk = true → d.c.transferPop ≤ 0) ∧
      0 ≤ d.c.otherDeath ∧ 0 ≤ d.c.slaughter ∧ 0 ≤ d.c.slPreg ∧ 0 ≤ d.ods ∧ 0 ≤ d.odTotal ∧
      0 ≤ d.hkOther ∧ 0 ≤ d.hkHealthy ∧ 0 ≤ d.hkStarving ∧ 0 ≤ d.starvingPost ∧
      0 ≤ d.pregTotal ∧ 0 ≤ d.pregBirthing ∧ 0 ≤ d.c.b.pregTotalIn ∧ 0 ≤ d.c.b.pregBirthingIn :=
  month_nonneg (monthStep_spec cn hcn rnd first month herds hh feed grass r herds' h)

/-- the animals retired from a dairy herd (`population · retiring fraction`) plus its surviving
    male calves (`female births · (birth ratio − 1) · (1 − culling fraction)`) are exactly what the
    dairy herd books as leaving and exactly what every meat herd with the same species key receives.
    (A species whose meat herd does not exist — cattle in India — has no `d` to receive them.) -/
theorem C06_transfer (cn : Country K) (hcn : CountryOK cn) (rnd : K → K) (first : Bool) (month : K)
    (herds : List (Herd K)) (hh : ∀ h ∈ herds, HerdOK h) (hk : MilkKeysDistinct herds) (feed grass : K)
    (r : MonthRec K) (herds' : List (Herd K))
    (h : monthStep cn rnd first month herds feed grass = .ok (r, herds'))
    (e : WD K) (he : e ∈ r.recs) (hem : e.c.b.a.h.sp.isMilk = true) :
    e.c.transferPop = -(e.c.b.retiring + e.c.b.transferBirths) ∧
    e.c.b.retiring = e.c.b.a.h.st.pop * e.c.b.a.h.sp.retFrac ∧
    e.c.b.transferBirths = e.c.b.births * (e.c.b.a.h.sp.birthRatio - 1) * (1 - e.c.b.a.h.sp.tcf) ∧
    ∀ d ∈ r.recs, d.c.b.a.h.sp.isMilk = false → d.c.b.a.h.sp.species = e.c.b.a.h.sp.species →
      d.c.transferPop = e.c.b.retiring + e.c.b.transferBirths :=
  month_transfer (monthStep_spec cn hcn rnd first month herds hh feed grass r herds' h) hk e he hem

/-- … and a meat herd without a dairy herd of its species receives nothing -/
theorem C06_transfer_none (cn : Country K) (hcn : CountryOK cn) (rnd : K → K) (first : Bool) (month : K)
    (herds : List (Herd K)) (hh : ∀ h ∈ herds, HerdOK h) (feed grass : K)
    (r : MonthRec K) (herds' : List (Herd K))
    (h : monthStep cn rnd first month herds feed grass = .ok (r, herds'))
    (d : WD K) (hd : d ∈ r.recs) (hdm : d.c.b.a.h.sp.isMilk = false)
    (hno : ∀ e ∈ r.recs, ¬ (e.c.b.a.h.sp.isMilk = true ∧ e.c.b.a.h.sp.species = d.c.b.a.h.sp.species)) :
    d.c.transferPop = 0 :=
  month_transfer_none (monthStep_spec cn hcn rnd first month herds hh feed grass r herds' h) d hd hdm hno

/-- slaughter in each size class never uses more labour hours than that class's baseline capacity
    `Σ hours per head · baseline slaughter` -/
theorem C06_hours (cn : Country K) (hcn : CountryOK cn) (rnd : K → K) (first : Bool) (month : K)
    (herds : List (Herd K)) (hh : ∀ h ∈ herds, HerdOK h) (feed grass : K) (r : MonthRec K)
    (herds' : List (Herd K)) (h : monthStep cn rnd first month herds feed grass = .ok (r, herds'))
    (s : Size) (hs : s ≠ Size.other) :
    ((r.recs.filter (fun d => d.c.b.a.h.sp.size = s)).map (fun d => d.c.slaughter * d.c.b.a.h.sp.hours)).sum
      ≤ ((herds.filter (fun h => h.sp.size = s)).map (fun h => h.sp.hours * h.sp.baseline)).sum :=
  (monthStep_spec cn hcn rnd first month herds hh feed grass r herds' h).hours s hs

/-- slaughter never exceeds the animals available (`pre` = start + births + transfers in −
    retirements − natural deaths, floored at 0) and never takes a herd below its target size:
    a herd at or above target stays at or above it, a herd already below target is not slaughtered -/
theorem C06_available_and_target (cn : Country K) (hcn : CountryOK cn) (rnd : K → K) (first : Bool) (month : K)
    (herds : List (Herd K)) (hh : ∀ h ∈ herds, HerdOK h) (feed grass : K) (r : MonthRec K)
    (herds' : List (Herd K)) (h : monthStep cn rnd first month herds feed grass = .ok (r, herds')) :
    ∀ d ∈ r.recs,
      d.c.pre = d.c.b.a.h.st.pop + d.c.b.births + transferIn d - d.c.b.retiring - d.c.otherDeath ∧
      d.c.slaughter ≤ max 0 d.c.pre ∧
      (d.c.b.a.h.sp.target ≤ d.c.pre → d.c.b.a.h.sp.target ≤ d.c.pre - d.c.slaughter) ∧
      (d.c.pre < d.c.b.a.h.sp.target → d.c.slaughter = 0) :=
  month_availTarget (monthStep_spec cn hcn rnd first month herds hh feed grass r herds' h)

/-- the invariant: the records are about exactly the herds the month started with (same order), the
    next month starts from `nextHerd` of the records (population := end-of-month head count, …), and
    those herds satisfy `HerdOK` again -/
theorem C06_invariant (cn : Country K) (hcn : CountryOK cn) (rnd : K → K) (first : Bool) (month : K)
    (herds : List (Herd K)) (hh : ∀ h ∈ herds, HerdOK h) (feed grass : K) (r : MonthRec K)
    (herds' : List (Herd K)) (h : monthStep cn rnd first month herds feed grass = .ok (r, herds')) :
    r.recs.map (fun d => d.c.b.a.h) = herds ∧ herds' = r.recs.map nextHerd ∧
    (∀ d ∈ r.recs, (nextHerd d).st.pop = d.popEnd ∧ (nextHerd d).sp = d.c.b.a.h.sp) ∧
    ∀ h' ∈ herds', HerdOK h' := by
  have hm := monthStep_spec cn hcn rnd first month herds hh feed grass r herds' h
  exact ⟨hm.start, hm.next, fun d _ => ⟨rfl, rfl⟩, hm.inv⟩

/-- in exact arithmetic none of the three `assert`s of the month loop can fire (with the home-kill
    budget of the code, 0): the month always completes -/
theorem C06_no_error (cn : Country K) (hcn : CountryOK cn) (hk0 : cn.homekillHours = 0) (rnd : K → K)
    (first : Bool) (month : K) (herds : List (Herd K)) (hh : ∀ h ∈ herds, HerdOK h)
    (hsz : ∀ h ∈ herds, h.sp.size ≠ Size.other) (feed grass : K) :
    ∃ out, monthStep cn rnd first month herds feed grass = .ok out :=
  monthStep_no_error cn hcn hk0 rnd first month herds hh hsz feed grass

/-! ## every month of every run (induction over the supply series) -/

/-- every record of a run belongs to a month that started from herds satisfying the invariant -/
theorem run_month (cn : Country K) (hcn : CountryOK cn) (rnd : K → K) (herds : List (Herd K))
    (hh : ∀ h ∈ herds, HerdOK h) (series : List (K × K)) (rs : List (MonthRec K)) (hf : List (Herd K))
    (h : run cn rnd herds series = .ok (rs, hf)) (r : MonthRec K) (hr : r ∈ rs) :
    ∃ feed grass hs hs', (feed, grass) ∈ series ∧ (∀ x ∈ hs, HerdOK x) ∧ MonthFacts rnd feed grass hs r hs' :=
  chain_mem rnd herds series rs hf (runFrom_spec cn hcn rnd series true 0 herds hh rs hf h).1 r hr

theorem C06_run_ledger (cn : Country K) (hcn : CountryOK cn) (rnd : K → K) (herds : List (Herd K))
    (hh : ∀ h ∈ herds, HerdOK h) (series : List (K × K)) (rs : List (MonthRec K)) (hf : List (Herd K))
    (h : run cn rnd herds series = .ok (rs, hf)) :
    ∀ r ∈ rs, ∀ d ∈ r.recs,
      d.popEnd = max 0 (d.c.b.a.h.st.pop + d.c.b.births + transferIn d - d.c.b.retiring - d.c.otherDeath
        - d.c.slaughter - d.ods - d.hkHealthy - d.hkStarving) := by
  intro r hr
  obtain ⟨_, _, _, _, -, -, hm⟩ := run_month cn hcn rnd herds hh series rs hf h r hr
  exact month_ledger hm

theorem C06_run_nonneg (cn : Country K) (hcn : CountryOK cn) (rnd : K → K) (herds : List (Herd K))
    (hh : ∀ h ∈ herds, HerdOK h) (series : List (K × K)) (rs : List (MonthRec K)) (hf : List (Herd K))
    (h : run cn rnd herds series = .ok (rs, hf)) :
    ∀ r ∈ rs, ∀ d ∈ r.recs, NonNeg d := by
  intro r hr
  obtain ⟨_, _, _, _, -, -, hm⟩ := run_month cn hcn rnd herds hh series rs hf h r hr
  exact month_nonneg hm

theorem C06_run_transfer (cn : Country K) (hcn : CountryOK cn) (rnd : K → K) (herds : List (Herd K))
    (hh : ∀ h ∈ herds, HerdOK h) (series : List (K × K)) (rs : List (MonthRec K)) (hf : List (Herd K))
    (h : run cn rnd herds series = .ok (rs, hf)) :
    ∀ r ∈ rs, MilkKeysDistinct (r.recs.map (fun d => d.c.b.a.h)) →
      ∀ e ∈ r.recs, e.c.b.a.h.sp.isMilk = true →
        e.c.transferPop = -(e.c.b.retiring + e.c.b.transferBirths) ∧
        ∀ d ∈ r.recs, d.c.b.a.h.sp.isMilk = false → d.c.b.a.h.sp.species = e.c.b.a.h.sp.species →
          d.c.transferPop = e.c.b.retiring + e.c.b.transferBirths := by
  intro r hr hk e he hem
  obtain ⟨_, _, hs, _, -, -, hm⟩ := run_month cn hcn rnd herds hh series rs hf h r hr
  rw [hm.start] at hk
  obtain ⟨h1, -, -, h4⟩ := month_transfer hm hk e he hem
  exact ⟨h1, h4⟩

theorem C06_run_hours (cn : Country K) (hcn : CountryOK cn) (rnd : K → K) (herds : List (Herd K))
    (hh : ∀ h ∈ herds, HerdOK h) (series : List (K × K)) (rs : List (MonthRec K)) (hf : List (Herd K))
    (h : run cn rnd herds series = .ok (rs, hf)) :
    ∀ r ∈ rs, ∀ s, s ≠ Size.other →
      ((r.recs.filter (fun d => d.c.b.a.h.sp.size = s)).map (fun d => d.c.slaughter * d.c.b.a.h.sp.hours)).sum
        ≤ ((r.recs.filter (fun d => d.c.b.a.h.sp.size = s)).map (fun d => d.c.b.a.h.sp.hours * d.c.b.a.h.sp.baseline)).sum := by
  intro r hr s hs
  obtain ⟨_, _, hs', _, -, -, hm⟩ := run_month cn hcn rnd herds hh series rs hf h r hr
  have := hm.hours s hs
  rw [← hm.start, List.filter_map, List.map_map] at this
  exact this

theorem C06_run_available_and_target (cn : Country K) (hcn : CountryOK cn) (rnd : K → K) (herds : List (Herd K))
    (hh : ∀ h ∈ herds, HerdOK h) (series : List (K × K)) (rs : List (MonthRec K)) (hf : List (Herd K))
    (h : run cn rnd herds series = .ok (rs, hf)) :
    ∀ r ∈ rs, ∀ d ∈ r.recs, AvailTarget d := by
  intro r hr
  obtain ⟨_, _, _, _, -, -, hm⟩ := run_month cn hcn rnd herds hh series rs hf h r hr
  exact month_availTarget hm

/-- the months of a run are chained: the first starts from the initial herds, each next month starts
    from the end-of-month state of the previous one, and the final herds satisfy the invariant -/
theorem C06_run_chain (cn : Country K) (hcn : CountryOK cn) (rnd : K → K) (herds : List (Herd K))
    (hh : ∀ h ∈ herds, HerdOK h) (series : List (K × K)) (rs : List (MonthRec K)) (hf : List (Herd K))
    (h : run cn rnd herds series = .ok (rs, hf)) :
    Chain rnd herds series rs hf ∧ (∀ x ∈ hf, HerdOK x) ∧ rs.length = series.length := by
  obtain ⟨hc, hfin⟩ := runFrom_spec cn hcn rnd series true 0 herds hh rs hf h
  refine ⟨hc, hfin, ?_⟩
  clear h hh
  induction hc with
  | nil hs => rfl
  | cons hs feed grass series r hs' rs hf hok hmf hch ih => simp [ih hfin]

/-- a run never stops on an `assert` in exact arithmetic, whatever the series -/
theorem C06_run_no_error (cn : Country K) (hcn : CountryOK cn) (hk0 : cn.homekillHours = 0) (rnd : K → K)
    (herds : List (Herd K)) (hh : ∀ h ∈ herds, HerdOK h) (hsz : ∀ h ∈ herds, h.sp.size ≠ Size.other)
    (series : List (K × K)) : ∃ out, run cn rnd herds series = .ok out :=
  runFrom_no_error cn hcn hk0 rnd series true 0 herds hh hsz

/-! ## the defect found and fixed: negative baseline births of a meat herd

`set_species_slaughter_attributes` set `births_animals_month_baseline = natural deaths + slaughter −
animals transferred in from the dairy herd` (now clamped at 0 by a `fix:` commit).  With the figures
of Belarus' meat goats the unclamped value is negative, the herd starts with negative pregnant
animals (outside `HerdOK`) and the first month records negative births. -/

/-- the baseline before the fix -/
def birthsBaselineUnfixed (otherDeaths slaughter transferIn : K) : K := otherDeaths + slaughter - transferIn
/-- the baseline after the fix -/
def birthsBaseline (otherDeaths slaughter transferIn : K) : K := max 0 (otherDeaths + slaughter - transferIn)

omit [IsStrictOrderedRing K] in
theorem birthsBaseline_nonneg (od sl tr : K) : 0 ≤ birthsBaseline od sl tr := le_max_left _ _

/-- Belarus, meat goats (FAOSTAT table of the repository): 29 456 head, no recorded slaughter, 5 % annual
    natural deaths; the dairy goats (30 644 head, 1149.15 female births a month, 1/120 retiring a month)
    send `(1149.15 + 30644/120) · (1 − 0.9) ≈ 140.45` animals a month, more than the 122.73 that die:
    baseline births −17.7, pregnant animals −44.3, births recorded in month 0: −17.7 -/
def blrTransfer : ℚ := (1149.15 + 30644 * (1 / 10 / 12)) * (1 - 0.9)
def blrBirths : ℚ := birthsBaselineUnfixed ((29456 : ℚ) * (0.05 / 12)) 0 blrTransfer

theorem C06_negative_births_counterexample :
    blrBirths < 0 ∧
    (birthsOne (0 : ℚ) ⟨⟨⟨"meat_goat", "goat", false, true, .medium, 0.6, 0.8, 1e-5, 4, 0, 29456, 0.05 / 12, 2, 1, 0.9, 5, 0, 1, 0.9, 0⟩,
        ⟨29456, 0, 1 * blrBirths / 2 * 5, 1 * blrBirths / 2 * 5 / 5, 0⟩⟩,
        0, ⟨0, 0, 0, 0, 0, 0⟩, 0⟩).births < 0 ∧
    birthsBaseline ((29456 : ℚ) * (0.05 / 12)) 0 blrTransfer = 0 := by
  refine ⟨?_, ?_, ?_⟩ <;> decide +kernel

/-! ## non-vacuity: a two-herd country (dairy + beef cattle) over three months on ℚ -/

def exMilk : Herd ℚ :=
  ⟨⟨"milk_cattle", "cattle", true, true, .large, 0.6, 0.8, 1e-3, 8, 10, 100, 0.01, 1, 2, 0.9, 2, 0, 1, 0.9, 0.01⟩,
   ⟨1000, 10, 40, 20, 0⟩⟩
def exMeat : Herd ℚ :=
  ⟨⟨"meat_cattle", "cattle", false, true, .large, 0.6, 0.8, 1e-3, 8, 50, 500, 0.01, 1, 1, 0.9, 2, 0, 1, 0.9, 0⟩,
   ⟨2000, 50, 100, 50, 0⟩⟩
def exCountry : Country ℚ := ⟨0, 0.5, 0⟩

/-- per month and herd: (transfer_population, starvation deaths, end-of-month head count, slaughter) -/
def exOut (x : Except String (List (MonthRec ℚ) × List (Herd ℚ))) : List (List (ℚ × ℚ × ℚ × ℚ)) :=
  match x with
  | .ok (rs, _) => rs.map (fun r => r.recs.map (fun d => (d.c.transferPop, d.ods, d.popEnd, d.c.slaughter)))
  | .error _ => []

/-- the run completes; in month 0 the beef herd receives 10 retired cows + 1 surviving male calf, both
    herds are only partially fed in months 0 and 1 (animals starve) and fully fed in month 2 -/
example : exOut (run exCountry (fun x => x) [exMeat, exMilk] [(1, 1), (0, 2), (5, 0)]) =
    [[(11, 495, 1496, 50), (-11, 891, 89, 10)],
     [(989 / 1000, 1107 / 5, 623877 / 500, 50), (-989 / 1000, 801 / 10, 811 / 100, 0)],
     [(9001 / 100000, 0, 4136528123 / 3400000, 50), (-9001 / 100000, 0, 80369 / 10000, 0)]] := by
  decide +kernel

end Allfed.C06
