import AllfedModel.Num.Basic
/-
Model of the hand-off helpers of `src/optimizer/parameters.py` (property C18):
  * `calculate_human_consumption_for_min_needs`   -> `fillMonth`, `minNeeds`
  * `fill_negatives_with_positives`               -> `fillNeg`
  * `get_second_round_kcals_with_redistributed_meat` -> `redistribute`
  * `increase_biofuels_then_feed`                 -> `bump`
Written the way the code is written (same order of operations), generic in the number type.
-/
namespace Allfed.Handoff
open Allfed

section
variable {α : Type} [Add α] [Sub α] [Mul α] [Div α] [Neg α] [LE α] [LT α]
  [DecidableLE α] [DecidableLT α] [OfNat α 0] [OfNat α 1] [OfScientific α]

/-- the closure `consume` together with the loop over the foods of one month:
    `consumed = min(food, remaining); remaining -= consumed`. -/
def fillMonth : α → List α → List α
  | _, [] => []
  | rem, f :: t => let c := pmin f rem; c :: fillMonth (rem - c) t

/-- the ceiling: `KCALS_DAILY * T/100` if `p1 > T` else `KCALS_DAILY * (p1/100)`. -/
def dailyMax (kcalsDaily p1 T : α) : α :=
  if T < p1 then kcalsDaily * (T / 100.0) else kcalsDaily * (p1 / 100.0)

/-- one row per month, the nine foods in priority order. -/
def minNeeds (cap : α) (months : List (List α)) : List (List α) := months.map (fillMonth cap)

/-! ### fill_negatives_with_positives -/

/-- inner loop for one negative index `neg`, scanning `i = k-1, k-2, …, 0`.  -/
def fillInner (neg : Nat) : Nat → List α → List α
  | 0, arr => arr
  | k + 1, arr =>
    let i := k
    let ai := arr.getD i 0
    if i = neg ∨ ai ≤ 0 then fillInner neg k arr
    else
      let an := arr.getD neg 0
      let adj := pmin (-an) ai
      let arr1 := arr.set neg (an + adj)
      let arr2 := arr1.set i (arr1.getD i 0 - adj)
      let an2 := arr2.getD neg 0
      -- `arr[neg_idx] == 0`
      if an2 ≤ 0 ∧ 0 ≤ an2 then arr2 else fillInner neg k arr2

/-- outer loop over the indices that were negative in the *original* array, ascending. -/
def fillOuter : List Nat → List α → List α
  | [], arr => arr
  | n :: t, arr => fillOuter t (fillInner n arr.length arr)

def negIdx (arr : List α) : List Nat :=
  (List.range arr.length).filter (fun i => arr.getD i 0 < 0)

def fillNeg (arr : List α) : List α := fillOuter (negIdx arr) arr

/-- `get_second_round_kcals_with_redistributed_meat`; `none` = the documented "skip round 2". -/
def redistribute (r1 r2 : List α) : Option (List α) :=
  if lsum r2 < lsum r1 then none else
  let diff := List.zipWith (· - ·) r2 r1
  let filled := fillNeg diff
  let adj := List.zipWith (· - ·) filled diff
  some (List.zipWith (· + ·) r2 adj)

/-! ### increase_biofuels_then_feed (elementwise) -/

def bump1 (biofuel feed increase maxB maxF avail : α) : α × α :=
  let pb := pmax' (pmin' (biofuel + increase) maxB - biofuel) 0
  let pf := pmax' (pmin' (feed + increase) maxF - feed) 0
  let tot := pb + pf
  let allowed := if tot + biofuel + feed ≤ avail then tot else avail - biofuel - feed
  let prop := pb / (tot + 1e-9)
  let ab := allowed * prop
  let af := allowed - ab
  let ab' := pmax' 0 ab
  let af' := pmax' 0 af
  (biofuel + ab', feed + af')
where
  /-- `np.minimum(a, b)` -/
  pmin' (a b : α) : α := if a < b then a else b
  /-- `np.maximum(a, b)` -/
  pmax' (a b : α) : α := if b < a then a else b

structure BumpIn (α : Type) where
  biofuel : α
  feed : α
  increase : α
  maxB : α
  maxF : α
  avail : α

def bump (l : List (BumpIn α)) : List (α × α) :=
  l.map fun r => bump1 r.biofuel r.feed r.increase r.maxB r.maxF r.avail

/-- `increase_biofuels_then_feed` on the monthly arrays: `bump1` month by month (as long as all
    six series have an entry) -/
def bumpAll : List α → List α → List α → List α → List α → List α → List (α × α)
  | b :: bs, f :: fs, i :: is, mb :: mbs, mf :: mfs, a :: as =>
    bump1 b f i mb mf a :: bumpAll bs fs is mbs mfs as
  | _, _, _, _, _, _ => []

/-! ### the "potential increase" of the third round (`compute_parameters_third_round`)

Per month: half of the extra meat of round 3 over round 1 (billion kcals), converted to kcals per
person per day (factor `u`), minus a constant, negatives clipped to zero, converted back.
Same order of operations as the code: `Food.__sub__`, `/ 2`, `in_units_kcals_equivalent` (conversion
`1 / 1 * u`, multiplied from the left), a second `in_units_kcals_equivalent` on the converted
quantity (conversion `1 / u * u`), `− const`, `np.where(x < 0, 0, x)`,
`in_units_bil_kcals_thou_tons_thou_tons_per_month` (conversion `1 / u * 1`). -/

/-- one month; `a` = meat slaughtered in round 1, `b` = in round 3 (billion kcals) -/
def increase1 (u const a b : α) : α :=
  let d := (b - a) / 2.0
  let e1 := (1 / 1 * u) * d
  let e2 := (1 / u * u) * e1
  let e3 := e2 - const
  let z := if e3 < 0 then 0 else e3
  (1 / u * 1) * z

def thirdRoundIncrease (u const : α) (m1 m3 : List α) : List α :=
  List.zipWith (increase1 u const) m1 m3

/-- the constant of the rule of thumb: 100 kcals per person per day for New Zealand, 20 otherwise -/
def nzlConst (code : String) : α := if code = "NZL" then 100.0 else 20.0

end
end Allfed.Handoff
