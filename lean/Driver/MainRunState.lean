import Driver.Loop
import Driver.Ops.RunState
def main : IO Unit := runDriver Ops.RunState.ops
