import AllfedModel.Model.AllocSpec
import AllfedModel.Proofs.LP
import AllfedModel.Proofs.Report
/-!
# Completeness of the LP (property C02): feasible points = physically feasible allocations

`sound_humans`: the allocation inside a feasible point of `buildLP i .toHumans` is physically
feasible and the objective is at most its worst month.
`complete_humans`: every physically feasible allocation is the allocation of a feasible point whose
objective is its worst month (stock variables reconstructed as running differences).
`lp_optimum_is_true_optimum`: the achievable objective values are exactly the numbers in
`[0, worst month of a physically feasible allocation]`.
-/
namespace Allfed.Proofs.Completeness
open Allfed Allfed.LP Allfed.AllocLP Allfed.PhysSpec Allfed.Report Allfed.AllocSpec
open Allfed.Proofs.LP Allfed.Proofs.Report

set_option linter.unusedSectionVars false
set_option linter.unusedVariables false
set_option linter.unusedSimpArgs false

variable {K : Type} [Field K] [LinearOrder K] [IsStrictOrderedRing K]

/-! ## soundness: from a feasible point to its allocation -/

section Sound
variable {i : Inp K} {x : Var → K}

theorem given_allocOf (i : Inp K) (x : Var → K) (m : Nat) :
    given i (allocOf x) m = humanTotal i x m := rfl

/-- the percent-fed variable of a feasible point is the percentage of its allocation -/
theorem consumed_eq_pct (h : HumanSpec i x) (m : Nat) (hm : m < i.nmonths) :
    x (.mv .consumedKcals m) = pct i (allocOf x) m := (h.general m hm).2.1

theorem intakeOK_of_spec (h : HumanSpec i x) (m : Nat) (hm : m < i.nmonths) (on : Bool) (ratio : K)
    (vH vF vB : VK) (limH limF limB : K)
    (hi : IntakeSpec i x on ratio vH vF vB limH limF limB m) :
    IntakeOK i (allocOf x) on ratio (fun m => x (.mv vH m)) (fun m => x (.mv vF m))
      (fun m => x (.mv vB m)) limH limF limB m := by
  intro hon
  have := hi hon
  rw [consumed_eq_pct h m hm] at this
  exact this

theorem sound_humans (i : Inp K) (x : Var → K) (hN : 2 ≤ i.nmonths)
    (h : Feasible (buildLP i .toHumans) x) :
    PhysFeasible i (allocOf x) ∧ x .objective ≤ minOver (pct i (allocOf x)) i.nmonths := by
  have hs := feasible_toHumans_iff.mp h
  refine ⟨⟨?_, ?_, ?_, ?_, ?_, ?_, ?_, ?_, ?_, ?_, ?_, ?_, ?_⟩, ?_⟩
  · intro k m
    cases k <;> first | exact h.2 _ | exact le_rfl
  · intro hon
    exact ⟨fun m hm _ => stored_cumulative (x := x) h hon hm, fun hsb => stored_full_use (x := x) h hon hsb hN,
      fun hsb m hm h12 => stored_vars_zero (x := x) h hon hsb hm h12⟩
  · intro hon
    exact ⟨fun m hm => crop_cumulative (x := x) h hon hm, crop_full_use (x := x) h hon hN⟩
  · intro hon hsb m hm
    exact ⟨meat_total (x := x) h hon hsb hm, meat_cumulative_cap (x := x) h hon hsb hm⟩
  · intro hon hsb m hm
    exact meat_monthly (x := x) h hon hsb hm
  · intro hon m hm
    exact scp_cap (x := x) h hon hm
  · intro hon m hm
    exact cs_cap (x := x) h hon hm
  · intro hon m hm
    exact hs.seaweed hon m hm
  · intro hany m hm
    exact feed_biofuel_eq_charge (x := x) h hany hm
  · intro m hm
    rw [← consumed_eq_pct hs m hm]
    exact h.2 _
  · intro m hm
    exact intakeOK_of_spec hs m hm _ _ _ _ _ _ _ _ (hs.general m hm).2.2.1
  · intro m hm
    exact intakeOK_of_spec hs m hm _ _ _ _ _ _ _ _ (hs.general m hm).2.2.2.1
  · intro m hm
    exact intakeOK_of_spec hs m hm _ _ _ _ _ _ _ _ (hs.general m hm).2.2.2.2
  · refine le_minOver _ _ (by omega) _ (fun m hm => ?_)
    rw [← consumed_eq_pct hs m hm]
    exact hs.objective m hm

end Sound

/-! ## completeness: from an allocation to a feasible point -/

section Complete

/-- the point of the LP that carries the allocation `a`: stock variables are the running
    differences (initial stock − drawn so far; harvested − used so far), `Crops_Food_Consumed` and
    `Humans_Fed_Kcals` what their rows define, the objective the worst month -/
def pointOf (i : Inp K) (a : Alloc K) : Var → K
  | .mv .sfStart m =>
    if i.addStored = true ∧ m < i.nmonths then
      (if m = 0 then i.storedInitial else i.storedInitial - cum (storedUse i a.toVar) (m - 1))
    else 0
  | .mv .sfEnd m =>
    if i.addStored = true ∧ m < i.nmonths then i.storedInitial - cum (storedUse i a.toVar) m else 0
  | .mv .meatStart m =>
    if (i.addMeat = true ∧ i.storeBetweenYears = true) ∧ m < i.nmonths then
      (if m = 0 then i.meatSummed else i.meatSummed - cum (meatUse i a.toVar) (m - 1))
    else 0
  | .mv .meatEnd m =>
    if (i.addMeat = true ∧ i.storeBetweenYears = true) ∧ m < i.nmonths then
      i.meatSummed - cum (meatUse i a.toVar) m
    else 0
  | .mv .cropStorage m =>
    if i.addOutdoor = true ∧ m < i.nmonths then
      cum (at' i.cropProd) m - cum (cropUse i a.toVar) m
    else 0
  | .mv .cropConsumed m => grossUp (a.cropHumans m) i.wCrop + a.cropBiofuel m + a.cropFeed m
  | .mv .consumedKcals m => if m < i.nmonths then pct i a m else 0
  | .objective => minOver (pct i a) i.nmonths
  | .objectiveBest => 0
  | v => a.toVar v

variable {i : Inp K} {a : Alloc K} {m : Nat}

theorem po_sfHumans : pointOf i a (.mv .sfHumans m) = a.sfHumans m := rfl
theorem po_sfFeed : pointOf i a (.mv .sfFeed m) = a.sfFeed m := rfl
theorem po_sfBiofuel : pointOf i a (.mv .sfBiofuel m) = a.sfBiofuel m := rfl
theorem po_cropHumans : pointOf i a (.mv .cropHumans m) = a.cropHumans m := rfl
theorem po_cropFeed : pointOf i a (.mv .cropFeed m) = a.cropFeed m := rfl
theorem po_cropBiofuel : pointOf i a (.mv .cropBiofuel m) = a.cropBiofuel m := rfl
theorem po_scpHumans : pointOf i a (.mv .scpHumans m) = a.scpHumans m := rfl
theorem po_scpFeed : pointOf i a (.mv .scpFeed m) = a.scpFeed m := rfl
theorem po_scpBiofuel : pointOf i a (.mv .scpBiofuel m) = a.scpBiofuel m := rfl
theorem po_csHumans : pointOf i a (.mv .csHumans m) = a.csHumans m := rfl
theorem po_csFeed : pointOf i a (.mv .csFeed m) = a.csFeed m := rfl
theorem po_csBiofuel : pointOf i a (.mv .csBiofuel m) = a.csBiofuel m := rfl
theorem po_meatEaten : pointOf i a (.mv .meatEaten m) = a.meatEaten m := rfl
theorem po_swHumans : pointOf i a (.mv .swHumans m) = a.swHumans m := rfl
theorem po_swFeed : pointOf i a (.mv .swFeed m) = a.swFeed m := rfl
theorem po_swBiofuel : pointOf i a (.mv .swBiofuel m) = a.swBiofuel m := rfl
theorem po_swWet : pointOf i a (.mv .swWet m) = a.swWet m := rfl
theorem po_usedArea : pointOf i a (.mv .usedArea m) = a.usedArea m := rfl
theorem po_sfStart : pointOf i a (.mv .sfStart m) =
    if i.addStored = true ∧ m < i.nmonths then
      (if m = 0 then i.storedInitial else i.storedInitial - cum (storedUse i a.toVar) (m - 1))
    else 0 := rfl
theorem po_sfEnd : pointOf i a (.mv .sfEnd m) =
    if i.addStored = true ∧ m < i.nmonths then i.storedInitial - cum (storedUse i a.toVar) m
    else 0 := rfl
theorem po_meatStart : pointOf i a (.mv .meatStart m) =
    if (i.addMeat = true ∧ i.storeBetweenYears = true) ∧ m < i.nmonths then
      (if m = 0 then i.meatSummed else i.meatSummed - cum (meatUse i a.toVar) (m - 1))
    else 0 := rfl
theorem po_meatEnd : pointOf i a (.mv .meatEnd m) =
    if (i.addMeat = true ∧ i.storeBetweenYears = true) ∧ m < i.nmonths then
      i.meatSummed - cum (meatUse i a.toVar) m
    else 0 := rfl
theorem po_cropStorage : pointOf i a (.mv .cropStorage m) =
    if i.addOutdoor = true ∧ m < i.nmonths then cum (at' i.cropProd) m - cum (cropUse i a.toVar) m
    else 0 := rfl
theorem po_cropConsumed : pointOf i a (.mv .cropConsumed m) =
    grossUp (a.cropHumans m) i.wCrop + a.cropBiofuel m + a.cropFeed m := rfl
theorem po_consumed : pointOf i a (.mv .consumedKcals m) =
    if m < i.nmonths then pct i a m else 0 := rfl

theorem allocOf_pointOf (i : Inp K) (a : Alloc K) : allocOf (pointOf i a) = a := rfl

theorem storedUse_pointOf : storedUse i (pointOf i a) = storedUse i a.toVar := rfl
theorem cropUse_pointOf : cropUse i (pointOf i a) = cropUse i a.toVar := rfl
theorem meatUse_pointOf : meatUse i (pointOf i a) = meatUse i a.toVar := rfl
theorem scpUse_pointOf : scpUse i (pointOf i a) = scpUse i a.toVar := rfl
theorem csUse_pointOf : csUse i (pointOf i a) = csUse i a.toVar := rfl
theorem feedTotal_pointOf : feedTotal i (pointOf i a) = feedTotal i a.toVar := rfl
theorem biofuelTotal_pointOf : biofuelTotal i (pointOf i a) = biofuelTotal i a.toVar := rfl
theorem humanTotal_pointOf : humanTotal i (pointOf i a) m = given i a m := rfl

theorem grossUp_nonneg' {v w : K} (hw : w < 100) (hv : 0 ≤ v) : 0 ≤ grossUp v w := by
  rw [grossUp_eq]
  refine div_nonneg hv ?_
  have : w / 100 < 1 := by rw [div_lt_one (by norm_num)]; exact hw
  linarith

theorem cum_step (f : ℕ → K) (m : ℕ) (hm0 : m ≠ 0) : cum f m = cum f (m - 1) + f m := by
  obtain ⟨n, rfl⟩ : ∃ n, m = n + 1 := ⟨m - 1, by omega⟩
  rw [cum_succ, Nat.add_sub_cancel]

/-- the supply clauses the two kinds of round share -/
structure StockOK (i : Inp K) (a : Alloc K) : Prop where
  nonneg : ∀ k m, 0 ≤ a.toVar (.mv k m)
  stored : i.addStored = true →
    (∀ m, m < i.nmonths → (i.storeBetweenYears = true ∨ m ≤ 12) →
        cum (storedUse i a.toVar) m ≤ i.storedInitial) ∧
    (i.storeBetweenYears = false → ∀ m, m < i.nmonths → 12 < m →
        a.sfHumans m = 0 ∧ a.sfFeed m = 0 ∧ a.sfBiofuel m = 0)
  crops : i.addOutdoor = true →
    ∀ m, m < i.nmonths → cum (cropUse i a.toVar) m ≤ cum (at' i.cropProd) m
  meatStored : i.addMeat = true → i.storeBetweenYears = true → ∀ m, m < i.nmonths →
    cum (meatUse i a.toVar) m ≤ i.meatSummed ∧ cum (meatUse i a.toVar) m ≤ at' i.maxCulled m
  meatFresh : i.addMeat = true → i.storeBetweenYears = false → ∀ m, m < i.nmonths →
    meatUse i a.toVar m ≤ at' i.slaughtered m

theorem stockOK_of_humans (ha : PhysFeasible i a) : StockOK i a :=
  ⟨ha.nonneg, fun hon => ⟨(ha.stored hon).1, (ha.stored hon).2.2⟩, fun hon => (ha.crops hon).1,
    ha.meatStored, ha.meatFresh⟩

theorem stockOK_of_feed (ha : PhysFeasibleFeed i a) : StockOK i a :=
  ⟨ha.nonneg, ha.stored, ha.crops, ha.meatStored, ha.meatFresh⟩

/-- in both storage regimes the clauses bound the stored food drawn by the end of every month -/
theorem stored_cum_le (ha : StockOK i a) (hon : i.addStored = true) (hm : m < i.nmonths) :
    cum (storedUse i a.toVar) m ≤ i.storedInitial := by
  obtain ⟨h1, h3⟩ := ha.stored hon
  by_cases hreg : i.storeBetweenYears = true ∨ m ≤ 12
  · exact h1 m hm hreg
  · have hs : i.storeBetweenYears = false := by
      cases hb : i.storeBetweenYears
      · rfl
      · exact absurd (Or.inl hb) hreg
    have h12 : 12 < m := by omega
    have hz : ∀ k, 12 < k → k ≤ m → storedUse i a.toVar k = 0 := by
      intro k hk hkm
      obtain ⟨e1, e2, e3⟩ := h3 hs k (by omega) hk
      show grossUp (a.sfHumans k) i.wStored + a.sfFeed k + a.sfBiofuel k = 0
      rw [e1, e2, e3, grossUp_zero]; ring
    rw [cum_eq_of_zero _ 12 m h12.le hz]
    exact h1 12 (by omega) (Or.inr le_rfl)

theorem storedUse_nonneg_a (ha : StockOK i a) (hw : i.wStored < 100) (k : Nat) :
    0 ≤ storedUse i a.toVar k :=
  add_nonneg (add_nonneg (grossUp_nonneg' hw (ha.nonneg .sfHumans k)) (ha.nonneg .sfFeed k))
    (ha.nonneg .sfBiofuel k)

theorem meatUse_nonneg_a (ha : StockOK i a) (hw : i.wMeat < 100) (k : Nat) :
    0 ≤ meatUse i a.toVar k := grossUp_nonneg' hw (ha.nonneg .meatEaten k)

/-- the decision variables and the reconstructed stock variables are non-negative -/
theorem stock_nonneg (ha : StockOK i a) (hw : i.wStored < 100 ∧ i.wCrop < 100 ∧ i.wMeat < 100)
    (k : VK) (hk : k ≠ .consumedKcals) (m : Nat) : 0 ≤ pointOf i a (.mv k m) := by
  cases k
  case sfStart =>
    rw [po_sfStart]
    split_ifs with hc hm0
    · have := stored_cum_le (m := 0) ha hc.1 (by omega)
      rw [cum_zero] at this
      exact le_trans (storedUse_nonneg_a ha hw.1 0) this
    · have := stored_cum_le (m := m - 1) ha hc.1 (by omega)
      linarith
    · exact le_rfl
  case sfEnd =>
    rw [po_sfEnd]
    split_ifs with hc
    · have := stored_cum_le ha hc.1 hc.2
      linarith
    · exact le_rfl
  case meatStart =>
    rw [po_meatStart]
    split_ifs with hc hm0
    · have := (ha.meatStored hc.1.1 hc.1.2 0 (by omega)).1
      rw [cum_zero] at this
      exact le_trans (meatUse_nonneg_a ha hw.2.2 0) this
    · have := (ha.meatStored hc.1.1 hc.1.2 (m - 1) (by omega)).1
      linarith
    · exact le_rfl
  case meatEnd =>
    rw [po_meatEnd]
    split_ifs with hc
    · have := (ha.meatStored hc.1.1 hc.1.2 m hc.2).1
      linarith
    · exact le_rfl
  case cropStorage =>
    rw [po_cropStorage]
    split_ifs with hc
    · have := ha.crops hc.1 m hc.2
      linarith
    · exact le_rfl
  case cropConsumed =>
    rw [po_cropConsumed]
    exact add_nonneg (add_nonneg (grossUp_nonneg' hw.2.1 (ha.nonneg .cropHumans m))
      (ha.nonneg .cropBiofuel m)) (ha.nonneg .cropFeed m)
  case consumedKcals => exact absurd rfl hk
  case sfHumans => exact ha.nonneg .sfHumans m
  case sfFeed => exact ha.nonneg .sfFeed m
  case sfBiofuel => exact ha.nonneg .sfBiofuel m
  case cropHumans => exact ha.nonneg .cropHumans m
  case cropFeed => exact ha.nonneg .cropFeed m
  case cropBiofuel => exact ha.nonneg .cropBiofuel m
  case scpHumans => exact ha.nonneg .scpHumans m
  case scpFeed => exact ha.nonneg .scpFeed m
  case scpBiofuel => exact ha.nonneg .scpBiofuel m
  case csHumans => exact ha.nonneg .csHumans m
  case csFeed => exact ha.nonneg .csFeed m
  case csBiofuel => exact ha.nonneg .csBiofuel m
  case meatEaten => exact ha.nonneg .meatEaten m
  case swHumans => exact ha.nonneg .swHumans m
  case swFeed => exact ha.nonneg .swFeed m
  case swBiofuel => exact ha.nonneg .swBiofuel m
  case swWet => exact ha.nonneg .swWet m
  case usedArea => exact ha.nonneg .usedArea m

theorem pointOf_nonneg (ha : PhysFeasible i a) (hN : 2 ≤ i.nmonths)
    (hw : i.wStored < 100 ∧ i.wCrop < 100 ∧ i.wMeat < 100) : ∀ v, 0 ≤ pointOf i a v := by
  intro v
  cases v with
  | objective =>
    exact le_minOver _ _ (by omega) _ (fun m hm => ha.pctNonneg m hm)
  | objectiveBest => exact le_rfl
  | mv k m =>
    by_cases hk : k = .consumedKcals
    · subst hk
      rw [po_consumed]
      split_ifs with hc
      · exact ha.pctNonneg m hc
      · exact le_rfl
    · exact stock_nonneg (stockOK_of_humans ha) hw k hk m

/-! ### the ledgers of the reconstructed point -/

theorem storedEaten_pointOf (hon : i.addStored = true) (k : Nat) (hk : k < i.nmonths) :
    StoredEatenEq i (pointOf i a) k := by
  have hu : ∀ k, storedUse i a.toVar k
      = grossUp (a.sfHumans k) i.wStored + a.sfFeed k + a.sfBiofuel k := fun k => rfl
  have hk1 : k - 1 < i.nmonths := by omega
  unfold StoredEatenEq
  simp only [po_sfStart, po_sfEnd, po_sfHumans, po_sfFeed, po_sfBiofuel, hon, hk, true_and, if_true]
  by_cases hk0 : k = 0
  · subst hk0
    simp only [if_true, cum_zero, hu]; ring
  · simp only [hk0, if_false]
    rw [cum_step _ k hk0, hu]; ring

theorem sfStart_succ_pointOf (hon : i.addStored = true) (hm : m < i.nmonths) (hm0 : m ≠ 0) :
    pointOf i a (.mv .sfStart m) = pointOf i a (.mv .sfEnd (m - 1)) := by
  have hm1 : m - 1 < i.nmonths := by omega
  simp only [po_sfStart, po_sfEnd, hon, hm, hm1, true_and, if_true, hm0, if_false]

theorem sfStart_zero_pointOf (hon : i.addStored = true) (hN0 : 0 < i.nmonths) :
    pointOf i a (.mv .sfStart 0) = i.storedInitial := by
  simp only [po_sfStart, hon, hN0, true_and, if_true]

theorem storedSpecA_pointOf (ha : StockOK i a) (hon : i.addStored = true) (hm : m < i.nmonths) :
    StoredSpecA i (pointOf i a) m := by
  obtain ⟨-, hzero⟩ := ha.stored hon
  have hN0 : 0 < i.nmonths := by omega
  unfold StoredSpecA
  cases hsb : i.storeBetweenYears
  · simp only [Bool.false_eq_true, if_false]
    by_cases hm0 : m = 0
    · subst hm0
      simp only [if_true]
      exact ⟨sfStart_zero_pointOf hon hm, storedEaten_pointOf hon 0 hm⟩
    · simp only [hm0, if_false]
      split_ifs with h12
      · obtain ⟨e1, e2, e3⟩ := hzero hsb m hm h12
        exact ⟨e1, e2, e3, sfStart_succ_pointOf hon hm hm0⟩
      · exact ⟨storedEaten_pointOf hon m hm, sfStart_succ_pointOf hon hm hm0⟩
  · simp only [if_true]
    refine ⟨?_, storedEaten_pointOf hon m hm⟩
    by_cases hm0 : m = 0
    · subst hm0
      simp only [if_true]
      exact sfStart_zero_pointOf hon hm
    · simp only [hm0, if_false]
      exact sfStart_succ_pointOf hon hm hm0

theorem cropSpecA_pointOf (hon : i.addOutdoor = true) (hm : m < i.nmonths) :
    CropSpecA i (pointOf i a) m := by
  unfold CropSpecA
  have hm1 : m - 1 < i.nmonths := by omega
  simp only [po_cropHumans, po_cropFeed, po_cropBiofuel, po_cropStorage, po_cropConsumed, hon, hm,
    hm1, true_and, if_true]
  have hu : ∀ k, cropUse i a.toVar k
      = grossUp (a.cropHumans k) i.wCrop + a.cropBiofuel k + a.cropFeed k := by
    intro k
    show grossUp (a.cropHumans k) i.wCrop + a.cropFeed k + a.cropBiofuel k = _
    ring
  by_cases hm0 : m = 0
  · subst hm0
    simp only [if_true, cum_zero, hu]
  · simp only [hm0, if_false]
    rw [cum_step (cropUse i a.toVar) m hm0, cum_step (at' i.cropProd) m hm0, hu]; ring

theorem meatSpec_pointOf (ha : StockOK i a) (hon : i.addMeat = true) (hm : m < i.nmonths) :
    MeatSpec i (pointOf i a) m := by
  have hm1 : m - 1 < i.nmonths := by omega
  have hN0 : 0 < i.nmonths := by omega
  unfold MeatSpec
  cases hsb : i.storeBetweenYears
  · simp only [Bool.false_eq_true, if_false]
    exact ha.meatFresh hon hsb m hm
  · simp only [if_true, po_meatStart, po_meatEnd, hon, hsb, hm, hm1, hN0, and_self, true_and]
    rw [meatUse_pointOf]
    refine ⟨?_, ?_, ?_⟩
    · by_cases hm0 : m = 0
      · simp only [hm0, if_true]
      · simp only [hm0, if_false]
    · by_cases hm0 : m = 0
      · subst hm0
        simp only [if_true, cum_zero]
      · simp only [hm0, if_false]
        rw [cum_step _ m hm0]; ring
    · have := (ha.meatStored hon hsb m hm).2
      linarith

theorem intakeSpec_of_ok (ha : PhysFeasible i a) (hm : m < i.nmonths) (on : Bool) (ratio : K)
    (vH vF vB : VK) (limH limF limB : K)
    (hi : IntakeOK i a on ratio (fun m => pointOf i a (.mv vH m)) (fun m => pointOf i a (.mv vF m))
      (fun m => pointOf i a (.mv vB m)) limH limF limB m) :
    IntakeSpec i (pointOf i a) on ratio vH vF vB limH limF limB m := by
  intro hon
  have := hi hon
  rw [po_consumed, if_pos hm]
  exact this

theorem humanSpec_pointOf (ha : PhysFeasible i a) (hN : 2 ≤ i.nmonths)
    (hw : i.wStored < 100 ∧ i.wCrop < 100 ∧ i.wMeat < 100) : HumanSpec i (pointOf i a) where
  nonneg := pointOf_nonneg ha hN hw
  seaweed := fun hon m hm => ha.seaweed hon m hm
  crops := by
    intro hon m hm
    obtain ⟨-, hfull⟩ := ha.crops hon
    unfold CropSpec
    have hm1 : m - 1 < i.nmonths := by omega
    simp only [po_sfHumans, po_sfFeed, po_sfBiofuel, po_cropHumans, po_cropFeed, po_cropBiofuel, po_scpHumans, po_scpFeed, po_scpBiofuel, po_csHumans, po_csFeed, po_csBiofuel, po_meatEaten, po_swHumans, po_swFeed, po_swBiofuel, po_swWet, po_usedArea, po_sfStart, po_sfEnd, po_meatStart, po_meatEnd, po_cropStorage, po_cropConsumed, po_consumed, hon, hm, hm1, true_and, if_true]
    have hu : ∀ k, cropUse i a.toVar k
        = grossUp (a.cropHumans k) i.wCrop + a.cropBiofuel k + a.cropFeed k := by
      intro k
      show grossUp (a.cropHumans k) i.wCrop + a.cropFeed k + a.cropBiofuel k = _
      ring
    by_cases hm0 : m = 0
    · subst hm0
      simp only [if_true, cum_zero, hu]
    · have hc := cum_step (cropUse i a.toVar) m hm0
      have hp := cum_step (at' i.cropProd) m hm0
      simp only [hm0, if_false]
      split_ifs with hl
      · refine ⟨by rw [hc, hp, hu]; ring, ?_⟩
        rw [hl, hfull, sub_self]
      · rw [hc, hp, hu]; ring
  stored := by
    intro hon m hm
    obtain ⟨-, hfull, hzero⟩ := ha.stored hon
    have hm1 : m - 1 < i.nmonths := by omega
    have hN0 : 0 < i.nmonths := by omega
    have hu : ∀ k, storedUse i a.toVar k
        = grossUp (a.sfHumans k) i.wStored + a.sfFeed k + a.sfBiofuel k := fun k => rfl
    have hE : ∀ k, k < i.nmonths → StoredEatenEq i (pointOf i a) k := by
      intro k hk
      have hk1 : k - 1 < i.nmonths := by omega
      unfold StoredEatenEq
      simp only [po_sfHumans, po_sfFeed, po_sfBiofuel, po_cropHumans, po_cropFeed, po_cropBiofuel, po_scpHumans, po_scpFeed, po_scpBiofuel, po_csHumans, po_csFeed, po_csBiofuel, po_meatEaten, po_swHumans, po_swFeed, po_swBiofuel, po_swWet, po_usedArea, po_sfStart, po_sfEnd, po_meatStart, po_meatEnd, po_cropStorage, po_cropConsumed, po_consumed, hon, hk, true_and, if_true]
      by_cases hk0 : k = 0
      · subst hk0
        simp only [if_true, cum_zero, hu]; ring
      · simp only [hk0, if_false]
        rw [cum_step _ k hk0, hu]; ring
    have hS : m ≠ 0 → pointOf i a (.mv .sfStart m) = pointOf i a (.mv .sfEnd (m - 1)) := by
      intro hm0
      simp only [po_sfStart, po_sfEnd, hon, hm, hm1, true_and, if_true, hm0, if_false]
    have hS0 : pointOf i a (.mv .sfStart 0) = i.storedInitial := by
      simp only [po_sfStart, hon, hN0, true_and, if_true]
    unfold StoredSpec
    cases hsb : i.storeBetweenYears
    · simp only [Bool.false_eq_true, if_false]
      by_cases hm0 : m = 0
      · subst hm0
        simp only [if_true]
        exact ⟨hS0, hE 0 hm⟩
      · simp only [hm0, if_false]
        split_ifs with h12
        · obtain ⟨e1, e2, e3⟩ := hzero hsb m hm h12
          exact ⟨e1, e2, e3, hS hm0⟩
        · exact ⟨hE m hm, hS hm0⟩
    · simp only [if_true]
      refine ⟨?_, hE m hm⟩
      by_cases hm0 : m = 0
      · subst hm0
        simp only [if_true]
        exact hS0
      · simp only [hm0, if_false]
        split_ifs with hl
        · refine ⟨?_, hS hm0⟩
          simp only [po_sfEnd, hon, hm, true_and, if_true]
          rw [hl, hfull hsb, sub_self]
        · exact hS hm0
  meat := fun hon m hm => meatSpec_pointOf (stockOK_of_humans ha) hon hm
  scp := fun hon m hm => ha.scp hon m hm
  cs := fun hon m hm => ha.cs hon m hm
  general := by
    intro m hm
    refine ⟨fun hany => ha.charge hany m hm, ?_, ?_, ?_, ?_⟩
    · rw [po_consumed, if_pos hm]
      rfl
    · exact intakeSpec_of_ok ha hm _ _ _ _ _ _ _ _ (ha.intakeSeaweed m hm)
    · exact intakeSpec_of_ok ha hm _ _ _ _ _ _ _ _ (ha.intakeScp m hm)
    · exact intakeSpec_of_ok ha hm _ _ _ _ _ _ _ _ (ha.intakeCs m hm)
  objective := by
    intro m hm
    rw [po_consumed, if_pos hm]
    exact minOver_le _ _ _ hm

theorem complete_humans (i : Inp K) (a : Alloc K) (hN : 2 ≤ i.nmonths)
    (hw : i.wStored < 100 ∧ i.wCrop < 100 ∧ i.wMeat < 100) (ha : PhysFeasible i a) :
    ∃ x, Feasible (buildLP i .toHumans) x ∧ allocOf x = a ∧
      x .objective = minOver (pct i a) i.nmonths :=
  ⟨pointOf i a, feasible_toHumans_iff.mpr (humanSpec_pointOf ha hN hw), rfl, rfl⟩

end Complete

/-! ## the optimum of the LP is the true optimum -/

/-- the objective values the LP can achieve are exactly the numbers between 0 and the worst month
    of a physically feasible allocation -/
theorem lp_optimum_is_true_optimum (i : Inp K) (hN : 2 ≤ i.nmonths)
    (hw : i.wStored < 100 ∧ i.wCrop < 100 ∧ i.wMeat < 100) (z : K) :
    (∃ x, Feasible (buildLP i .toHumans) x ∧ x .objective = z) ↔
    (∃ a, PhysFeasible i a ∧ 0 ≤ z ∧ z ≤ minOver (pct i a) i.nmonths) := by
  constructor
  · rintro ⟨x, hx, rfl⟩
    obtain ⟨h1, h2⟩ := sound_humans i x hN hx
    exact ⟨allocOf x, h1, hx.2 _, h2⟩
  · rintro ⟨a, ha, hz0, hz⟩
    have hs := humanSpec_pointOf ha hN hw
    refine ⟨fun v => if v = .objective then z else pointOf i a v, ?_, by simp only [if_true]⟩
    rw [feasible_toHumans_iff]
    refine hs.of_agree (fun k m => by simp only [reduceCtorEq, if_false]) ?_ ?_ ?_
    · simp only [if_true]; exact hz0
    · simp only [reduceCtorEq, if_false]; exact le_rfl
    · intro m hm
      simp only [if_true]
      rw [po_consumed, if_pos hm]
      exact le_trans hz (minOver_le _ _ _ hm)

/-- in particular: a number bounds the LP's objective iff it bounds the worst month of every
    physically feasible allocation -/
theorem lp_bound_iff_true_bound (i : Inp K) (hN : 2 ≤ i.nmonths)
    (hw : i.wStored < 100 ∧ i.wCrop < 100 ∧ i.wMeat < 100) (b : K) :
    (∀ x, Feasible (buildLP i .toHumans) x → x .objective ≤ b) ↔
    (∀ a, PhysFeasible i a → minOver (pct i a) i.nmonths ≤ b) := by
  constructor
  · intro h a ha
    obtain ⟨x, hx, -, hobj⟩ := complete_humans i a hN hw ha
    rw [← hobj]; exact h x hx
  · intro h x hx
    obtain ⟨h1, h2⟩ := sound_humans i x hN hx
    exact le_trans h2 (h _ h1)

/-! ## the feed-maximising round -/

section Animals
variable {i : Inp K} {a : Alloc K} {x : Var → K} {m : Nat}

theorem feedValue_eq (i : Inp K) (a : Alloc K) : feedValue i a = feedObjective i a.toVar := by
  unfold feedValue feedObjective
  norm_num

theorem feedObjective_allocOf (i : Inp K) (x : Var → K) :
    feedObjective i (allocOf x).toVar = feedObjective i x := rfl

theorem pinned_iff (i : Inp K) (v c : K) : Pinned i v c ↔ PinSpec i v c := Iff.rfl

theorem sound_animals (i : Inp K) (x : Var → K) (h : Feasible (buildLP i .toAnimals) x) :
    PhysFeasibleFeed i (allocOf x) ∧ x .objective ≤ feedValue i (allocOf x) := by
  have hs := feasible_toAnimals_iff.mp h
  have hobj : x .objective ≤ feedValue i (allocOf x) := by
    rw [feedValue_eq, feedObjective_allocOf]; exact hs.objective
  refine ⟨⟨?_, ?_, ?_, ?_, ?_, ?_, ?_, ?_, ?_, ?_, ?_, ?_, ?_, ?_, ?_, ?_, ?_, ?_, ?_⟩, hobj⟩
  · intro k m
    cases k <;> first | exact h.2 _ | exact le_rfl
  · intro hon
    exact ⟨fun m hm _ => stored_cumulative (x := x) h hon hm,
      fun hsb m hm h12 => stored_vars_zero (x := x) h hon hsb hm h12⟩
  · intro hon m hm
    exact crop_cumulative (x := x) h hon hm
  · intro hon hsb m hm
    exact ⟨meat_total (x := x) h hon hsb hm, meat_cumulative_cap (x := x) h hon hsb hm⟩
  · intro hon hsb m hm
    exact meat_monthly (x := x) h hon hsb hm
  · intro hon m hm
    exact scp_cap (x := x) h hon hm
  · intro hon m hm
    exact cs_cap (x := x) h hon hm
  · intro hon m hm
    exact (hs.seaweed hon m hm).1
  · intro hany m hm
    exact (hs.general m hm).1 hany
  · intro hon m hm
    exact (hs.seaweed hon m hm).2
  · intro hon m hm
    exact (hs.crops hon m hm).2
  · intro hon m hm
    exact (hs.stored hon m hm).2
  · intro hon m hm
    exact (hs.meat hon m hm).2
  · intro hon m hm
    exact (hs.scp hon m hm).2
  · intro hon m hm
    exact (hs.cs hon m hm).2
  · intro m hm
    exact (hs.general m hm).2.1
  · intro m hm
    exact (hs.general m hm).2.2.1
  · intro m hm
    exact (hs.general m hm).2.2.2
  · exact le_trans (h.2 _) hobj

/-- the point of the feed-maximising LP that carries the allocation `a`: stock variables as in
    `pointOf`, the objective the weighted total, `Humans_Fed_Kcals` (in no row) 0 -/
def pointOfA (i : Inp K) (a : Alloc K) : Var → K
  | .objective => feedValue i a
  | .mv .consumedKcals _ => 0
  | v => pointOf i a v

theorem pointOfA_mv (k : VK) (hk : k ≠ .consumedKcals) (m : Nat) :
    pointOfA i a (.mv k m) = pointOf i a (.mv k m) := by
  cases k <;> first | rfl | exact absurd rfl hk

theorem allocOf_pointOfA (i : Inp K) (a : Alloc K) : allocOf (pointOfA i a) = a := rfl

theorem animalSpec_pointOfA (ha : PhysFeasibleFeed i a)
    (hw : i.wStored < 100 ∧ i.wCrop < 100 ∧ i.wMeat < 100) : AnimalSpec i (pointOfA i a) where
  nonneg := by
    intro v
    cases v with
    | objective => exact ha.valueNonneg
    | objectiveBest => exact le_rfl
    | mv k m =>
      by_cases hk : k = .consumedKcals
      · subst hk; exact le_rfl
      · rw [pointOfA_mv k hk]; exact stock_nonneg (stockOK_of_feed ha) hw k hk m
  seaweed := fun hon m hm => ⟨ha.seaweed hon m hm, ha.pinSeaweed hon m hm⟩
  crops := fun hon m hm => ⟨cropSpecA_pointOf hon hm, ha.pinCrops hon m hm⟩
  stored := fun hon m hm => ⟨storedSpecA_pointOf (stockOK_of_feed ha) hon hm, ha.pinStored hon m hm⟩
  meat := fun hon m hm => ⟨meatSpec_pointOf (stockOK_of_feed ha) hon hm, ha.pinMeat hon m hm⟩
  scp := fun hon m hm => ⟨ha.scp hon m hm, ha.pinScp hon m hm⟩
  cs := fun hon m hm => ⟨ha.cs hon m hm, ha.pinCs hon m hm⟩
  general := fun m hm =>
    ⟨fun hany => ha.ceilings hany m hm, ha.shareSeaweed m hm, ha.shareScp m hm, ha.shareCs m hm⟩
  objective := by
    show feedValue i a ≤ feedObjective i (pointOfA i a)
    rw [feedValue_eq]
    exact le_of_eq rfl

theorem complete_animals (i : Inp K) (a : Alloc K)
    (hw : i.wStored < 100 ∧ i.wCrop < 100 ∧ i.wMeat < 100) (ha : PhysFeasibleFeed i a) :
    ∃ x, Feasible (buildLP i .toAnimals) x ∧ allocOf x = a ∧ x .objective = feedValue i a :=
  ⟨pointOfA i a, feasible_toAnimals_iff.mpr (animalSpec_pointOfA ha hw), rfl, rfl⟩

/-- the objective values the feed-maximising LP can achieve are exactly the numbers between 0 and
    the weighted feed-and-biofuel total of a physically feasible allocation -/
theorem feed_optimum_is_true_optimum (i : Inp K)
    (hw : i.wStored < 100 ∧ i.wCrop < 100 ∧ i.wMeat < 100) (z : K) :
    (∃ x, Feasible (buildLP i .toAnimals) x ∧ x .objective = z) ↔
    (∃ a, PhysFeasibleFeed i a ∧ 0 ≤ z ∧ z ≤ feedValue i a) := by
  constructor
  · rintro ⟨x, hx, rfl⟩
    obtain ⟨h1, h2⟩ := sound_animals i x hx
    exact ⟨allocOf x, h1, hx.2 _, h2⟩
  · rintro ⟨a, ha, hz0, hz⟩
    have hs := animalSpec_pointOfA ha hw
    refine ⟨fun v => if v = .objective then z else pointOfA i a v, ?_, by simp only [if_true]⟩
    rw [feasible_toAnimals_iff]
    refine hs.of_agree (fun k m => by simp only [reduceCtorEq, if_false]) ?_ ?_ ?_
    · simp only [if_true]; exact hz0
    · simp only [reduceCtorEq, if_false]; exact le_rfl
    · simp only [if_true]
      refine le_trans hz ?_
      rw [feedValue_eq]
      exact le_of_eq rfl

/-- a number bounds the feed-maximising LP's objective iff it bounds the weighted total of every
    physically feasible allocation -/
theorem feed_bound_iff_true_bound (i : Inp K)
    (hw : i.wStored < 100 ∧ i.wCrop < 100 ∧ i.wMeat < 100) (b : K) :
    (∀ x, Feasible (buildLP i .toAnimals) x → x .objective ≤ b) ↔
    (∀ a, PhysFeasibleFeed i a → feedValue i a ≤ b) := by
  constructor
  · intro h a ha
    obtain ⟨x, hx, -, hobj⟩ := complete_animals i a hw ha
    rw [← hobj]; exact h x hx
  · intro h x hx
    obtain ⟨h1, h2⟩ := sound_animals i x hx
    exact le_trans h2 (h _ h1)

end Animals

/-! ## non-vacuity of the feed-round specification -/

/-- two months, SCP only (2 a month), ceilings 1 and 1, all of the SCP share may go to feed,
    people pinned to 0 SCP -/
def feedInst : Inp ℚ :=
  { emptyInst with nmonths := 2, addScp := true, scp := [2, 2], feed := [1, 1], maxFeed := [1, 1],
                   maxBiofuel := [1, 1], limScpF := 100, minScp := [0, 0] }

def feedX : Var → ℚ
  | .mv .scpFeed m => [1, 1].getD m 0
  | .objective => 4 / 3
  | _ => 0

theorem feedX_rows : (buildLP feedInst .toAnimals).all (holdsB feedX) = true := by decide +kernel

theorem feedX_nonneg : ∀ v, 0 ≤ feedX v := by
  intro v
  cases v with
  | mv k m =>
    cases k <;> first
      | exact le_rfl
      | exact getD_nonneg _ (by decide +kernel) m
  | objective => show (0 : ℚ) ≤ 4 / 3; norm_num
  | objectiveBest => exact le_rfl

theorem feed_nonvacuous : ∃ (i : Inp ℚ) (a : Alloc ℚ), PhysFeasibleFeed i a ∧ 0 < feedValue i a := by
  have hx : Feasible (buildLP feedInst .toAnimals) feedX :=
    ⟨rows_hold_of_all _ _ feedX_rows, feedX_nonneg⟩
  obtain ⟨h1, h2⟩ := sound_animals feedInst feedX hx
  refine ⟨feedInst, allocOf feedX, h1, lt_of_lt_of_le ?_ h2⟩
  show (0 : ℚ) < 4 / 3
  norm_num

end Allfed.Proofs.Completeness
