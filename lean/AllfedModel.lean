import AllfedModel.Num.Basic
