import AllfedModel.Model.RunState
import Driver.Wire
open Wire Allfed.RunState

namespace Ops.RunState

def evP : P (Ev String) := do
  let t ← tok
  if t == "w" then do let s ← str; pure (.write s) else pure .read

def optStr : Option String → String
  | none => "-"
  | some s => encodeStr s

/-- runstate.history nruns (nevents ev*)*  → per run: startsWithWrite flag, observations in the
    history (from a fresh process), observations alone (fresh) -/
def historyOp : P String := do
  let runs ← list (list evP)
  let inHist := execHistory (none : Option String) runs
  let parts := (runs.zip inHist).map fun (r, o) =>
    let alone := (exec (none : Option String) r).2
    outB (startsWithWrite r) ++ " " ++ outL optStr o ++ " " ++ outL optStr alone
  pure (" ".intercalate (toString runs.length :: parts))

def ops : List (String × P String) := [("runstate.history", historyOp)]
end Ops.RunState
