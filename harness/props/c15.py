"""C15 - aggregate fed fraction is a capped, population-weighted mean of the selection (DESIGN.md §7 C15)."""
import math, os
from lib import wire, pipeline
from lib.wire import f2b, sl, Reader, close
from translators import tr_country

ID = "C15"
LEVEL = "proof"
LEVEL_TEXT = ("Lean 4 theorems, for every selection list, every table and every per-country outcome over any ordered field, about an executable model of "
              "get_countries_to_run_and_skip and of the accumulation loop of run_model_no_trade (value = sum pop*min(1,frac)/sum pop, bounds, the "
              "selection rules incl. mixed lists, each selected row exactly once) plus a kernel-checked fact that the shipped table has no duplicate "
              "iso3 code or country name; tied to the code by running both on the same generated lists and fake per-country fractions every run")
LEVEL_NOTE = ("Trusted: Lean kernel (propext/Classical.choice/Quot.sound), the csv translator tr_country.run_codes, the Python correspondence harness, "
              "exact field arithmetic vs IEEE doubles (rel 1e-9). The per-country optimiser is stubbed by a deterministic fake fraction in the quick tier "
              "(unstubbed runs of small subsets in the thorough tier); plotting/pptx/csv side effects are switched off.")
TECHNIQUE = "Lean 4 proofs by induction over lists + decide over the generated code/name columns + differential correspondence with the real runner"
DRIVER = "driver_aggregate"
LEAN_MODULES = ["AllfedModel.Props.C15"]
TRANSLATORS = [tr_country.run_codes]
OBLIGATIONS = ["Allfed.C15." + n for n in [
    "C15_value", "C15_value_loop", "C15_bounds", "C15_all_fed",
    "C15_selection_empty", "C15_selection_exclusion", "C15_selection_exclusion_syntax", "C15_selection_mixed",
    "C15_selection_inclusion", "C15_selection_sublist",
    "C15_once_selected", "C15_once_keys", "C15_once",
    "C15_table_codes_nodup", "C15_table_names_nodup", "C15_table_size"]]
RULE = ("selection lists generated over the real 164 codes (empty / inclusion / '!'-exclusion / mixed / unknown codes / duplicates / contradictory and "
        "malformed '!' placements) through the real get_countries_to_run_and_skip, and through the real run_model_no_trade over the shipped table with "
        "run_optimizer_for_country replaced by a fake fraction per country (0, partial, exactly 1, above 1, huge, NaN); non-trivial = the list selects a "
        "proper non-empty subset or a fraction above 1 / NaN occurs; distinct = distinct (list, fractions)")
ASSUMPTIONS = [
    "theorems are over any linearly ordered field; the code's doubles are compared with the model at Float (rel 1e-9)",
    "bounds: populations > 0 (verify_country_data asserts > 10000) and per-country fractions >= 0; at least one country ran (otherwise the code reports NaN, it does not divide)",
    "a per-country run that returns NaN is dropped from numerator, denominator and results alike (modelled as `none`); with USE_TRY_CATCH_FLAG = False an exception of a run propagates instead",
    "a selection list is a list of strings (a bare string such as 'ARG' is iterated character by character by the code and is outside the model)",
    "mixed lists: the banged names are ignored (proved and checked); a code listed both as X and !X is contradictory input and is not judged by the oracle",
    "results are only collected with return_results=True",
]
TRUSTED = ["fake per-country outcome injected by monkeypatching ScenarioRunnerNoTrade.run_optimizer_for_country (quick tier)"]

EU_DEFAULT = ["!SWT", "!GBR", "!AUT", "!BEL", "!BGR", "!HRV", "!CYP", "!CZE", "!DNK", "!EST", "!FIN", "!FRA", "!DEU", "!GRC", "!HUN", "!IRL",
              "!ITA", "!LVA", "!LTU", "!LUX", "!MLT", "!NLD", "!POL", "!PRT", "!ROU", "!SVK", "!SVN", "!ESP", "!SWE"]
UNKNOWN = ["XXX", "NIG", "ZZZ", "arg", "Argentina", "F5707"]
OPTION = {"scale": "country"}  # the stubbed run never reads it; run_model_no_trade only asserts it is non-empty


# ----------------------------------------------------------------------------------------------
def load_table(ctx):
    import pandas as pd
    df = pd.read_csv(os.path.join(ctx.repo, "data", "no_food_trade", "computer_readable_combined.csv"))
    rows = []
    for _, r in df.iterrows():
        rows.append((str(r["iso3"]), str(r["country"]), float(r["population"])))
    return rows


def gen_list(rng, codes, kind=None, big=False):
    kind = kind or rng.choice(["empty", "incl", "incl", "incl", "excl", "excl", "mixed", "mixed", "weird"])
    n = len(codes)

    def some(kmax):
        k = rng.choice([1, 1, 2, 3, 5, rng.randint(1, kmax)])
        return [rng.choice(codes) for _ in range(k)] if rng.random() < 0.3 else rng.sample(codes, min(k, n))
    if kind == "empty":
        return kind, []
    if kind == "incl":
        l = some(12 if rng.random() < 0.8 else 60)
        if rng.random() < 0.3:
            l.insert(rng.randint(0, len(l)), rng.choice(UNKNOWN))
        if rng.random() < 0.2:
            l.append(rng.choice(l))
        return kind, l
    if kind == "excl":
        if rng.random() < 0.1:
            return kind, list(EU_DEFAULT)
        k = rng.choice([150, 158, 161, 163]) if big else rng.choice([1, 2, 5, 20, 100, 150, 160, 163])
        l = ["!" + c for c in rng.sample(codes, k)]
        if rng.random() < 0.3:
            l.insert(rng.randint(0, len(l)), "!" + rng.choice(UNKNOWN))
        if rng.random() < 0.2:
            l.append(rng.choice(l))
        return kind, l
    if kind == "mixed":
        inc = some(8)
        exc = ["!" + c for c in some(8)]
        if rng.random() < 0.3:  # contradictory: same code both ways
            exc.append("!" + rng.choice(inc))
        l = inc + exc
        rng.shuffle(l)
        return kind, l
    # malformed placements of '!' (documented syntax is a prefix): only model-vs-code is compared for these
    c = rng.choice(codes)
    forms = [c + "!", "!!" + c, c[0] + "!" + c[1:], "!", "", "! " + c, "!" + c.lower()]
    l = [rng.choice(forms)]
    if big:  # keep the run small: the malformed name sits in a long exclusion list
        l += ["!" + x for x in rng.sample(codes, rng.choice([150, 160]))]
    if rng.random() < 0.6:
        l += [rng.choice(["!" + rng.choice(codes), rng.choice(codes), rng.choice(forms)]) for _ in range(rng.randint(1, 3))]
    return kind, l


def spec_select(kind, l, codes):
    """what the PROPERTY says is run (None = the documented syntax does not say; per code: None = contradictory, not judged)"""
    if kind == "weird":
        return None
    if not l:
        return {c: True for c in codes}
    banged = {x[1:] for x in l if x.startswith("!")}
    plain = {x for x in l if not x.startswith("!")}
    if not plain:  # exclusion list: all others
        return {c: (c not in banged) for c in codes}
    # inclusion (and mixed): only those named; a code named both ways is contradictory
    return {c: (None if (c in plain and c in banged) else (c in plain)) for c in codes}


def gen_fracs(rng, rows, nan_p):
    style = rng.choice(["mixed", "mixed", "all-fed", "all-starving", "partial"])
    out = {}
    for iso, _, _ in rows:
        if rng.random() < nan_p:
            out[iso] = float("nan")
        elif style == "all-fed":
            out[iso] = rng.choice([1.0, 1.0000000001, 1.5, 3.0, 1e6])
        elif style == "all-starving":
            out[iso] = 0.0
        elif style == "partial":
            out[iso] = rng.random()
        else:
            out[iso] = rng.choice([0.0, rng.random(), rng.random(), 0.9999999999, 1.0, 1.0000000001, 1.0 + rng.random(), 7.25, 1e6])
    return out


class Stub:
    """replaces run_optimizer_for_country: returns the prepared fraction, records the order of calls"""

    def __init__(self, fracs):
        self.fracs, self.calls = fracs, []

    def __call__(self, runner, country_data, scenario_option, *a, **k):
        iso = country_data["iso3"]
        self.calls.append(iso)
        return (self.fracs[iso], "fake scenario", ("result-of", iso))


def run_impl(ctx, cls, l, fracs):
    stub = Stub(fracs)
    orig = cls.run_optimizer_for_country
    cls.run_optimizer_for_country = lambda self, *a, **k: stub(self, *a, **k)
    try:
        with ctx.quiet():
            world, net_pop, net_pop_fed, results = cls().run_model_no_trade(
                title="verif", create_pptx_with_all_countries=False, show_country_figures=False, show_map_figures=False,
                add_map_slide_to_pptx=False, scenario_option=dict(OPTION), countries_list=list(l), return_results=True)
    finally:
        cls.run_optimizer_for_country = orig
    return float(net_pop), float(net_pop_fed), list(results.keys()), stub.calls, results


def model_line(l, rows, fracs):
    parts = ["agg.run", sl(l), str(len(rows))]
    for iso, name, pop in rows:
        f = fracs[iso]
        nan = isinstance(f, float) and math.isnan(f)
        parts += [wire.enc_str(iso), wire.enc_str(name), f2b(pop), "0" if nan else "1", f2b(0.0 if nan else f)]
    return " ".join(parts)


def check_run(ctx, kind, l, fracs, rows, impl, model_out, tag="stub"):
    """model-vs-code and property oracle for one run of run_model_no_trade"""
    net_pop, net_fed, keys, calls, _ = impl
    codes = [r[0] for r in rows]
    name_of = {r[0]: r[1] for r in rows}
    pop_of = {r[0]: r[2] for r in rows}
    case = {"kind": kind, "countries_list": l, "fracs": {c: fracs[c] for c in calls}, "net_pop": net_pop, "net_pop_fed": net_fed,
            "n_keys": len(keys), "mode": tag}
    if model_out is not None:
        rd = Reader(model_out)
        m_pop, m_fed, m_keys, m_agg = rd.float(), rd.float(), rd.strs(), rd.float()
        if not (close(net_pop, m_pop) and close(net_fed, m_fed)):
            ctx.disagree("run.totals", case, [net_pop, net_fed], [m_pop, m_fed])
        if keys != m_keys:
            ctx.disagree("run.keys", case, keys[:20], m_keys[:20])
        if net_pop > 0 and not close(net_fed / net_pop, m_agg):
            ctx.disagree("run.aggregate", case, net_fed / net_pop, m_agg)
    # ---- the property, evaluated on what the implementation returned
    spec = spec_select(kind, l, codes)
    if spec is not None:
        judged = [c for c in codes if spec[c] is not None]
        want_run = [c for c in judged if spec[c]]
        ran = set(calls)
        wrong = [c for c in judged if (c in ran) != spec[c]]
        if wrong:
            ctx.violation("selection-" + kind, "countries_list %r: %s %s although the list says otherwise" % (
                l[:6], wrong[:5], "run" if wrong[0] in ran else "not run"), dict(case, wrong=wrong[:10]))
        if len(calls) != len(set(calls)):
            ctx.violation("country-run-twice", "a country was run more than once", case)
        if any(spec[c] is None for c in codes):
            ctx.count("selection:contradictory-codes-not-judged")
    done = [c for c in calls if not (isinstance(fracs[c], float) and math.isnan(fracs[c]))]
    want_pop = math.fsum(pop_of[c] for c in done)
    want_fed = math.fsum(pop_of[c] * min(1.0, fracs[c]) for c in done)
    if not close(net_pop, want_pop, 1e-9, 1e-6):
        ctx.violation("net-pop", "net population %r is not the sum of the populations of the countries that ran (%r)" % (net_pop, want_pop), case)
    if not close(net_fed, want_fed, 1e-9, 1e-6):
        ctx.violation("net-pop-fed", "net population fed %r is not sum pop*min(1,fraction) = %r" % (net_fed, want_fed), case)
    if net_pop > 0 and all(fracs[c] >= 0 for c in done):
        frac = net_fed / net_pop
        if not (-1e-12 <= frac <= 1 + 1e-12):
            ctx.violation("fraction-out-of-range", "aggregate fraction fed %r outside [0, 1]" % frac, case)
        if want_pop > 0 and not close(frac, want_fed / want_pop, 1e-9, 1e-12):
            ctx.violation("fraction-value", "aggregate fraction %r differs from the capped population-weighted mean %r" % (frac, want_fed / want_pop), case)
    want_keys = [name_of[c] for c in done]
    if sorted(keys) != sorted(want_keys):
        missing = [k for k in want_keys if k not in keys]
        extra = [k for k in keys if k not in want_keys]
        ctx.violation("results-keys", "results keys differ from the countries that ran and returned a number: missing %r extra %r" % (missing[:5], extra[:5]), case)
    ctx.count("list:" + kind)
    ctx.count("ran:%s" % ("none" if not calls else "all" if len(calls) == len(codes) else "subset"))
    if len(done) != len(calls):
        ctx.count("runs-with-nan-country")
    if any(fracs[c] > 1 for c in done):
        ctx.count("runs-with-cap-binding")
    ctx.case((tag, tuple(l), tuple(sorted((c, repr(fracs[c])) for c in calls))),
             nontrivial=(0 < len(calls) < len(codes)) or any(fracs[c] > 1 for c in done) or len(done) != len(calls),
             sample={"countries_list": l[:8], "ran": len(calls), "net_pop": net_pop, "net_pop_fed": net_fed, "mode": tag})


# ----------------------------------------------------------------------------------------------
CORPUS = [
    ("empty", []),
    ("excl", list(EU_DEFAULT)),
    ("incl", ["ARG"]),
    ("incl", ["IND", "BRA", "CHN", "USA", "PAK", "ARG", "MNG", "AUS", "CAN", "NZL", "DJI", "IDN", "GBR", "CHL", "RUS", "NIG", "ZAF", "NGA", "EGY"]),
    ("mixed", ["USA", "!CHN"]),
    ("mixed", ["USA", "CHN", "!CHN"]),
    ("mixed", ["!USA", "!CHN", "BRA"]),
    ("incl", ["XXX"]),
    ("excl", ["!XXX"]),
    ("incl", ["ARG", "ARG"]),
    ("excl", ["!ARG", "!ARG"]),
    ("weird", ["ARG!"]),
    ("weird", ["!!ARG"]),
    ("weird", [""]),
    ("weird", ["!"]),
]


def part_selection(ctx, runner, codes, n):
    """get_countries_to_run_and_skip + the loop's two tests, against the model; the selection clause of the property"""
    rng = ctx.rng
    cases = list(CORPUS) + [gen_list(rng, codes) for _ in range(n)]
    lines = []
    for kind, l in cases:
        lines.append("agg.runAndSkip " + sl(l))
        lines.append("agg.select %s %s" % (sl(l), sl(codes)))
    outs = ctx.lean(lines)
    for i, (kind, l) in enumerate(cases):
        res = runner.get_countries_to_run_and_skip(list(l))
        ex, skip = list(res[0]), list(res[1])
        rd = Reader(outs[2 * i])
        m_ex, m_skip = rd.strs(), rd.strs()
        if ex != m_ex or skip != m_skip:
            ctx.disagree("runAndSkip", {"countries_list": l}, [ex, skip], [m_ex, m_skip])
        # the loop's tests, applied by hand to the implementation's two lists
        sel_impl = [c for c in codes if not (len(ex) > 0 and c not in ex) and not (c in skip)]
        m_sel = Reader(outs[2 * i + 1]).strs()
        if sel_impl != m_sel:
            ctx.disagree("select", {"countries_list": l}, sel_impl[:20], m_sel[:20])
        spec = spec_select(kind, l, codes)
        if spec is not None:
            wrong = [c for c in codes if spec[c] is not None and (c in sel_impl) != spec[c]]
            if wrong:
                ctx.violation("selection-" + kind, "get_countries_to_run_and_skip(%r) -> run=%r skip=%r: %s selected against the list" % (
                    l[:6], ex[:6], skip[:6], wrong[:5]), {"countries_list": l, "exclusive": ex, "skip": skip, "wrong": wrong[:10], "mode": "selection-only", "kind": kind})
        ctx.count("selection-only:" + kind)
        ctx.case(("sel", tuple(l)), nontrivial=0 < len(sel_impl) < len(codes), sample=None)


def part_stubbed(ctx, cls, rows, n_runs, whole_table):
    rng = ctx.rng
    codes = [r[0] for r in rows]
    cases = []
    for kind, l in CORPUS:
        cases.append((kind, l, gen_fracs(rng, rows, rng.choice([0.0, 0.05]))))
    for _ in range(whole_table):
        kind, l = rng.choice([("empty", []), gen_list(rng, codes, "excl")])
        cases.append((kind, l, gen_fracs(rng, rows, rng.choice([0.0, 0.0, 0.03, 0.3]))))
    while len(cases) < n_runs + len(CORPUS):
        kind, l = gen_list(rng, codes, rng.choice(["incl", "incl", "mixed", "mixed", "weird", "excl"]), big=True)
        cases.append((kind, l, gen_fracs(rng, rows, rng.choice([0.0, 0.0, 0.1, 0.5]))))
    impls = [run_impl(ctx, cls, l, fr) for (_, l, fr) in cases]
    outs = ctx.lean([model_line(l, rows, fr) for (_, l, fr) in cases])
    for (kind, l, fr), impl, o in zip(cases, impls, outs):
        check_run(ctx, kind, l, fr, rows, impl, o)


def part_reuse(ctx, cls, rows, n):
    """the same list object handed to two runs (settings.countries of a YAML file with several simulations, run_many_options): the second run must
    select what the first selected and the caller's list must come back unchanged"""
    rng = ctx.rng
    codes = [r[0] for r in rows]
    for _ in range(n):
        kind, l = gen_list(rng, codes, rng.choice(["excl", "excl", "incl", "mixed"]), big=True)
        fr = gen_fracs(rng, rows, 0.0)
        shared = list(l)
        outs = []
        for rep in range(2):
            stub = Stub(fr)
            orig = cls.run_optimizer_for_country
            cls.run_optimizer_for_country = lambda self, *a, _st=stub, **k: _st(self, *a, **k)
            try:
                with ctx.quiet():
                    world, net_pop, net_fed, results = cls().run_model_no_trade(
                        title="verif_reuse", create_pptx_with_all_countries=False, show_country_figures=False, show_map_figures=False,
                        add_map_slide_to_pptx=False, scenario_option=dict(OPTION), countries_list=shared, return_results=True)
            finally:
                cls.run_optimizer_for_country = orig
            outs.append((list(stub.calls), float(net_pop), float(net_fed)))
        case = {"kind": kind, "countries_list": l[:12], "n_list": len(l)}
        if shared != l:
            ctx.count("callers-countries-list-modified")   # not a clause of C15 by itself; what counts is what the next run then selects
            case = dict(case, list_after_first_run=shared[:12])
        if outs[0] != outs[1]:
            ctx.violation("selection-changes-on-reuse", "the same countries_list object selects %d countries in the first run and %d in the second (aggregate %r vs %r)" % (
                len(outs[0][0]), len(outs[1][0]), outs[0][2] / max(outs[0][1], 1.0), outs[1][2] / max(outs[1][1], 1.0)), case)
        ctx.case(("reuse", tuple(l)), nontrivial=len(outs[0][0]) > 0, sample=dict(case, ran=len(outs[0][0])))
        ctx.count("list-reused-twice")


def part_deep_stub(ctx, cls, rows, n_runs):
    """only the three-round run itself is replaced (ScenarioRunner.run_and_analyze_scenario returns an object carrying a prepared percent fed):
    run_optimizer_for_country — the percent -> fraction conversion — and set_depending_on_option run for real"""
    import src.scenarios.run_model_no_trade as mod
    from types import SimpleNamespace
    rng = ctx.rng
    codes = [r[0] for r in rows]
    small = [r[0] for r in rows]
    PCTS = [0.0, 1e-9, 0.004, 0.3, 0.65, 0.9999, 1.0, 1.0000001, 1.59, 37.2, 99.999, 100.0, 100.0000001, 150.0, 2500.0]
    cases = []
    for _ in range(n_runs):
        l = rng.sample(small, rng.choice([1, 1, 2, 3, 6]))
        pct = {c: (rng.choice(PCTS) if rng.random() < 0.7 else 100.0 * rng.random() ** 3) for c in l}
        cases.append(("incl", l, pct))
    orig = mod.ScenarioRunner.run_and_analyze_scenario
    lines, impls = [], []
    for kind, l, pct in cases:
        calls = []

        def fake(self, c_, tc_, sl_, a_, b_, post_, country_data, save_, name_, iso3, title="U", _pct=pct, _calls=calls):
            _calls.append(iso3)
            return SimpleNamespace(percent_people_fed=_pct[iso3])
        mod.ScenarioRunner.run_and_analyze_scenario = fake
        try:
            with ctx.quiet():
                world, net_pop, net_fed, results = cls().run_model_no_trade(
                    title="verif_deep", create_pptx_with_all_countries=False, show_country_figures=False, show_map_figures=False,
                    add_map_slide_to_pptx=False, scenario_option=dict(pipeline.BASE_OPTIONS), countries_list=list(l), return_results=True)
        finally:
            mod.ScenarioRunner.run_and_analyze_scenario = orig
        fr = {c: float("nan") for c in codes}
        for c in l:
            fr[c] = pct[c] / 100
        impls.append((float(net_pop), float(net_fed), list(results.keys()), calls, results))
        lines.append(model_line(l, rows, fr))
        cases[len(impls) - 1] = (kind, l, fr)
        ctx.count("deep-stub-runs")
        if any(0 < pct[c] <= 1 for c in l):
            ctx.count("deep-stub-runs-with-a-country-below-one-percent")
    for (kind, l, fr), impl, o in zip(cases, impls, ctx.lean(lines) if lines else []):
        check_run(ctx, kind, l, fr, rows, impl, o, tag="deep-stub")


def real_options(ctx):
    import yaml
    cfg = yaml.safe_load(open(os.path.join(ctx.repo, "scenarios", "argentina.yaml")))
    sims = cfg["simulations"]
    out = []
    for key in ("argentina_net_baseline", "argentina_net_nuclear_winter"):
        o = dict(sims[key])
        o["NMONTHS"] = cfg["settings"]["NMONTHS"]
        out.append((key, o))
    return out


def part_real(ctx, cls, rows, subsets):
    """unstubbed three-round runs of small subsets (thorough tier)"""
    codes = [r[0] for r in rows]
    opts = real_options(ctx)
    for k, l in enumerate(subsets):
        key, opt = opts[k % len(opts)]
        with ctx.quiet():
            world, net_pop, net_fed, results = cls().run_model_no_trade(
                title="verif_real", create_pptx_with_all_countries=False, show_country_figures=False, show_map_figures=False,
                add_map_slide_to_pptx=False, scenario_option=dict(opt), countries_list=list(l), return_results=True)
        name_to_iso = {r[1]: r[0] for r in rows}
        fr = {c: float("nan") for c in codes}
        for nm, res in results.items():
            fr[name_to_iso[nm]] = float(res.percent_people_fed) / 100.0
        spec = spec_select("incl" if not any("!" in x for x in l) else "excl", l, codes)
        calls = [c for c in codes if spec[c]]
        impl = (float(net_pop), float(net_fed), list(results.keys()), calls, results)
        # the fractions of the countries that ran are read from the returned results themselves
        for c in calls:
            if math.isnan(fr[c]):
                ctx.violation("results-keys", "selected country %s missing from results of a real run" % c, {"countries_list": l, "scenario": key, "mode": "real"})
                fr[c] = 0.0
        out = ctx.lean([model_line(l, rows, fr)])[0]
        check_run(ctx, "incl" if not any("!" in x for x in l) else "excl", l, fr, rows, impl, out, tag="real:" + key)
        ctx.count("real-runs")


def correspondence(ctx):
    from src.scenarios.run_model_no_trade import ScenarioRunnerNoTrade as cls
    rows = load_table(ctx)
    codes = [r[0] for r in rows]
    # the generated code/name columns are the ones the live table has
    if ctx.extra.get("country_rows") != len(rows):
        ctx.disagree("table-rows", {}, len(rows), ctx.extra.get("country_rows"))
    part_selection(ctx, cls(), codes, ctx.budget(2000, 20000))
    part_stubbed(ctx, cls, rows, ctx.budget(260, 4000), ctx.budget(25, 300))
    part_deep_stub(ctx, cls, rows, ctx.budget(40, 600))
    part_reuse(ctx, cls, rows, ctx.budget(12, 150))
    if not ctx.quick:
        rng = ctx.rng
        small = [r[0] for r in sorted(rows, key=lambda r: r[2])[:60]]
        part_real(ctx, cls, rows, [rng.sample(small, 2), ["!" + c for c in codes if c not in set(rng.sample(small, 3))]])


def search(ctx):
    """a proof or the tie broke: look harder for a list / outcome on which the property fails on the real runner"""
    from src.scenarios.run_model_no_trade import ScenarioRunnerNoTrade as cls
    rows = load_table(ctx)
    part_selection(ctx, cls(), [r[0] for r in rows], 5000)
    part_stubbed(ctx, cls, rows, 400, 30)


def replay(ctx, rep):
    from src.scenarios.run_model_no_trade import ScenarioRunnerNoTrade as cls
    ctx.driver = DRIVER  # vcheck sets it only on the normal path
    rows = load_table(ctx)
    codes = [r[0] for r in rows]
    hits = []
    for v in rep.get("violations", []):
        c = v["case"]
        l = c.get("countries_list", [])
        kind = c.get("kind", "incl")
        n0 = len(ctx.violations)
        if c.get("mode") == "selection-only":
            part_sel_one(ctx, cls(), codes, kind, l)
        else:
            fr = {iso: 0.5 for iso in codes}
            fr.update({k: float(x) for k, x in (c.get("fracs") or {}).items()})
            impl = run_impl(ctx, cls, l, fr)
            check_run(ctx, kind, l, fr, rows, impl, None, tag="replay")
        hits += ctx.violations[n0:n0 + 2]
    return bool(hits), hits


def part_sel_one(ctx, runner, codes, kind, l):
    res = runner.get_countries_to_run_and_skip(list(l))
    ex, skip = list(res[0]), list(res[1])
    sel_impl = [c for c in codes if not (len(ex) > 0 and c not in ex) and not (c in skip)]
    spec = spec_select(kind, l, codes)
    if spec is not None:
        wrong = [c for c in codes if spec[c] is not None and (c in sel_impl) != spec[c]]
        if wrong:
            ctx.violation("selection-" + kind, "selection against the list: %s" % wrong[:5], {"countries_list": l, "wrong": wrong[:10], "mode": "selection-only", "kind": kind})
