import AllfedModel.Num.Basic
/-
Model of the herd simulation of `src/food_system/animal_populations.py` (properties C06, C07):

  * `AnimalSpecies.feed_the_species`                         -> `feedSpecies`
  * `AnimalPopulation.feed_animals` (loop in list order)     -> `feedAll`
  * `AnimalModelBuilder.get_optimal_next_animal_to_feed`     -> `priorityKey`, `sortDesc`
    (and the `approximate_feed_conversion` order `main()` uses without a meat dictionary)
  * the month loop of `main()`                               -> `monthStep`, one function per phase:
        feeding -> births / breeding change / transfers (`birthsOne`)
                -> slaughter with the hour budget of each size class (`slaughterOne`, `slaughterAll`)
                -> home-kill, starvation deaths, pregnant adjustment, final population (`finishOne`, `finishAll`)
  * `main()` over the whole supply series                    -> `run`

Written the way the code is written (same order of operations, same branches, same defaults),
generic in the number type.  Python's `round` is a parameter `rnd`.  The two `assert`s inside the
month loop (`remaining_hours_this_size >= 0`, `total_homekill == 0`) and the size-class `assert`
are explicit error results.
-/
namespace Allfed.Herd
open Allfed

section
variable {α : Type} [Add α] [Sub α] [Mul α] [Div α] [Neg α] [LE α] [LT α]
  [DecidableLE α] [DecidableLT α] [OfNat α 0] [OfNat α 1] [OfScientific α]

/-! ## feeding (C07) -/

/-- what `feed_the_species` leaves behind; `grassIn`/`feedIn` are what the species was offered -/
structure FeedOut (α : Type) where
  grassIn : α
  feedIn : α
  grass : α      -- grass left for the next species
  feed : α       -- feed left for the next species
  balance : α    -- `NE_balance.kcals` after feeding (net energy still owed)
  fed : α        -- `population_fed`

/-- `AnimalSpecies.feed_the_species` (after the `fix:` commit for D3/D12).
    `need` = `NE_balance.kcals` after `reset_NE_balance`, `pop` = `current_population`. -/
def feedSpecies (rnd : α → α) (effG effF need pop grass feed : α) (rum : Bool) : FeedOut α :=
  -- `if NE_required == 0: population_fed = current_population; return`
  if need ≤ 0 ∧ 0 ≤ need then ⟨grass, feed, grass, feed, need, pop⟩ else
  let neG : α := if rum then grass * effG else 0
  let neF := feed * effF
  if need ≤ neG then
    ⟨grass, feed, grass - need / effG, feed, 0, pop⟩
  else
    let req := if 0 < neG then need - neG else need
    let grass' := if 0 < neG then 0 else grass
    if req ≤ neF then
      ⟨grass, feed, grass', feed - req / effF, 0, pop⟩
    else
      let prov := neG + neF
      ⟨grass, feed, grass', 0, need - prov, pmin (rnd (prov / need * pop)) pop⟩

/-- the partially-fed count as it was before the `fix:` commit (D3): fraction of what is STILL owed -/
def fedUnfixed (rnd : α → α) (need pop prov : α) : α := rnd (prov / (need - prov) * pop)

/-- what the feeding loop reads from one species -/
structure FeedReq (α : Type) where
  effG : α
  effF : α
  need : α
  pop : α
  rum : Bool

/-- `AnimalPopulation.feed_animals`: the species are served in list order, each one sees what the
    previous ones left.  Returns the per-species results and the grass / feed left over. -/
def feedAll (rnd : α → α) : List (FeedReq α) → α → α → List (FeedOut α) × α × α
  | [], g, f => ([], g, f)
  | r :: t, g, f =>
    let o := feedSpecies rnd r.effG r.effF r.need r.pop g f r.rum
    let rest := feedAll rnd t o.grass o.feed
    (o :: rest.1, rest.2.1, rest.2.2)

/-! ### priority order -/

/-- `net_kcals_gained_per_hour_slaughter_this_month` of `get_optimal_next_animal_to_feed` -/
def priorityKey (kcalsPerHead hours nePerHead effF : α) : α :=
  kcalsPerHead / hours + nePerHead / effF / hours

/-- insert keeping the list descending by key and *stable* (Python `sorted(..., reverse=True)`):
    `x` came before every element of the list, so it goes in front of the first element whose key
    is not strictly larger. -/
def insertDesc {β : Type} (key : β → α) (x : β) : List β → List β
  | [] => [x]
  | y :: ys => if key x < key y then y :: insertDesc key x ys else x :: y :: ys

def sortDesc {β : Type} (key : β → α) : List β → List β
  | [] => []
  | x :: t => insertDesc key x (sortDesc key t)

/-! ## the month step (C06) -/

inductive Size where
  | small | medium | large
  | other            -- anything else: `assert animal.animal_size in ["small", "medium", "large"]`
  deriving DecidableEq, Repr

/-- static parameters of one herd (set before the month loop starts) -/
structure Species (α : Type) where
  name : String            -- animal_type
  species : String         -- animal_species: the key of `transfer_populations`
  isMilk : Bool            -- `"milk" in animal_type` (= `animal_function == "milk"`)
  rum : Bool               -- digestion_type == "ruminant"
  size : Size
  effG : α                 -- digestion_efficiency["grass"]
  effF : α                 -- digestion_efficiency["feed"]
  nePerHead : α            -- net_energy_required_per_month()
  hours : α                -- animal_slaughter_hours
  baseline : α             -- baseline_slaughter
  target : α               -- target_population_head
  odr : α                  -- other_animal_death_rate_monthly
  app : α                  -- animals_per_pregnancy
  birthRatio : α           -- 2 for milk herds, 1 otherwise
  tcf : α                  -- transfer_culling_fraction
  gestation : α
  rib : α                  -- reduction_in_animal_breeding
  tpf : α                  -- target_population_fraction
  sdf : α                  -- starvation_death_fraction
  retFrac : α              -- retiring_milk_animals_fraction (milk herds only)

/-- what one herd carries from month to month -/
structure SpState (α : Type) where
  pop : α                  -- population[-1]
  slaughterLast : α        -- slaughter[-1]
  pregTotal : α            -- pregnant_animals_total[-1]
  pregBirthing : α         -- pregnant_animals_birthing_this_month[-1]
  psf : α                  -- pregnant_animal_slaughter_fraction (zeroed by the breeding change)

structure Herd (α : Type) where
  sp : Species α
  st : SpState α

/-- `CountryData`: home-kill configuration -/
structure Country (α : Type) where
  homekillHours : α        -- homekill_hours_total_month[-1]   (0: "there is no homekill")
  odhr : α                 -- other_death_homekill_rate        (0.5)
  hkf : α                  -- homekill_fraction                (0.0)

/-- phase 1: the herd and what feeding did to it -/
structure WA (α : Type) where
  h : Herd α
  need : α
  fo : FeedOut α
  starvingPre : α          -- population_starving_pre_slaughter[-1]

/-- phase 2: breeding change, births, retirements, male calves -/
structure WB (α : Type) where
  a : WA α
  pregTotalIn : α          -- pregnant_animals_total[-1] after the (possible) breeding change
  pregBirthingIn : α
  psf : α
  births : α               -- births_animals_month[-1]
  transferBirths : α       -- surviving male calves (milk herds); exported births × (1 − culling)
  retiring : α             -- retiring_milk_animals[-1] (0 for meat herds)
  transferOut : α          -- what a milk herd writes into `transfer_populations[species]`

/-- phase 3: slaughter -/
structure WC (α : Type) where
  b : WB α
  transferPop : α          -- transfer_population[-1] (signed: negative for milk herds)
  additive : α
  otherDeath : α           -- other_death_causes_other_than_starving[-1]
  rate : α                 -- slaughter the hour budget allows
  pre : α                  -- population before slaughter
  slaughter : α            -- slaughter[-1]
  popAfter : α             -- current_population after slaughter
  slPreg : α               -- slaughtered_pregnant_animals[-1]
  pregTotal : α
  pregBirthing : α

/-- phase 4: home-kill, starvation, pregnant adjustment, final population -/
structure WD (α : Type) where
  c : WC α
  hkOther : α
  hkHealthy : α
  hkStarving : α
  hkTotal : α
  starvingPost : α
  ods : α                  -- other_death_starving[-1]
  odTotal : α              -- other_death_total[-1]
  pregTotal : α            -- after other_death_pregnant_adjustment
  pregBirthing : α
  popEnd : α               -- population[-1] at the end of the month

/-- `np.abs` -/
def nabs (x : α) : α := if x < 0 then -x else x

/-- phase 1 for the whole list: `reset_NE_balance` for everybody, then `feed_the_species` in list
    order, then `calculate_starving_animals_after_feed`. -/
def feedReqOf (h : Herd α) : FeedReq α :=
  ⟨h.sp.effG, h.sp.effF, h.sp.nePerHead * h.st.pop, h.st.pop, h.sp.rum⟩

def zipFeed : List (Herd α) → List (FeedOut α) → List (WA α)
  | h :: hs, o :: os => ⟨h, h.sp.nePerHead * h.st.pop, o, h.st.pop - o.fed⟩ :: zipFeed hs os
  | _, _ => []

/-- `calculate_additive_births` (+ the milk bookkeeping of the first species loop of `main`) -/
def birthsOne (month : α) (a : WA α) : WB α :=
  let sp := a.h.sp
  let st := a.h.st
  -- `if np.abs(current_month - animal.gestation) <= 0.5: calculate_breeding_changes(animal)`
  let trig : Bool := decide (nabs (month - sp.gestation) ≤ 0.5)
  let pb := if trig then st.pregBirthing * (1 - sp.rib) else st.pregBirthing
  let pt := if trig then st.pregTotal * (1 - sp.rib) else st.pregTotal
  let psf : α := if trig then 0 else st.psf
  -- calculate_births
  let births := pb * sp.app / sp.birthRatio
  let exported := births * (sp.birthRatio - 1)
  let tb := exported * (1 - sp.tcf)
  let retiring : α := if sp.isMilk then st.pop * sp.retFrac else 0
  ⟨a, pt, pb, psf, births, tb, retiring, retiring + tb⟩

/-- the dictionary `transfer_populations` after the first species loop: the value written by the
    LAST milk herd of that species key, `none` if no milk herd has it (the dictionary then still
    holds its initial 0). -/
def transferFind : List (WB α) → String → Option α
  | [], _ => none
  | b :: t, s =>
    match transferFind t s with
    | some v => some v
    | none => if b.a.h.sp.isMilk && b.a.h.sp.species == s then some b.transferOut else none

def transferOf (l : List (WB α)) (s : String) : α := (transferFind l s).getD 0

/-- remaining slaughter hours of the three size classes -/
structure Hours (α : Type) where
  small : α
  medium : α
  large : α

def Hours.get (h : Hours α) : Size → α
  | .small => h.small
  | .medium => h.medium
  | .large => h.large
  | .other => 0

def Hours.set (h : Hours α) : Size → α → Hours α
  | .small, v => { h with small := v }
  | .medium, v => { h with medium := v }
  | .large, v => { h with large := v }
  | .other, _ => h

/-- `calculate_net_slaughter_hours_by_size` -/
def classHours (l : List (Herd α)) (s : Size) : α :=
  lsum ((l.filter (fun h => h.sp.size = s)).map (fun h => h.sp.hours * h.sp.baseline))

def hoursBySize (l : List (Herd α)) : Hours α :=
  ⟨classHours l .small, classHours l .medium, classHours l .large⟩

/-- `calculate_slaughter_rate`: what the hours left in the size class allow -/
def slaughterRate (cur hours rem : α) : α :=
  if 0 < rem then pmin (cur * hours) rem / hours else 0

/-- `calculate_animal_population`: (actual slaughter, population after slaughter) -/
def actualSlaughter (pre target rate : α) : α × α :=
  let a0 : α := if pre < target then 0 else if pre - rate < target then pre - target else rate
  let a1 : α := if a0 < 0 then 0 else a0
  let p1 := pre - a1
  if p1 < 0 then (0, 0) else (a1, p1)

/-- `calculate_pregnant_slaughter`: (slaughtered pregnant animals, pregnant animals left) -/
def pregSlaughter (psf pt0 odr actual : α) : α × α :=
  let slp : α := if psf ≤ 0 ∧ 0 ≤ psf then 0 else if psf * pt0 < actual then psf * pt0 else actual
  let pt1 : α := if psf ≤ 0 ∧ 0 ≤ psf then pt0
    else if psf * pt0 < actual then pt0 - (slp + odr * pt0) else pt0 - slp
  (if 0 ≤ slp then slp else 0, if 0 ≤ pt1 then pt1 else 0)

/-- `calculate_change_in_population` for one herd, given the transfer it receives and the hours
    its size class has left; returns the record and the hours left afterwards (before the assert). -/
def slaughterOne (first : Bool) (tr : α) (b : WB α) (rem : α) : WC α × α :=
  let sp := b.a.h.sp
  let st := b.a.h.st
  let additive := if sp.isMilk then b.births else b.births + tr
  let transferPop := if sp.isMilk then -tr else tr
  -- calculate_other_deaths
  let otherDeath := st.pop * sp.odr
  -- calculate_slaughter_rate
  let rate := slaughterRate (if first then sp.baseline else st.slaughterLast) sp.hours rem
  -- calculate_animal_population
  let pre := st.pop - (otherDeath + b.retiring) + additive
  let ap := actualSlaughter pre sp.target rate
  -- calculate_pregnant_slaughter, calculate_pregnant_animals_birthing
  let ps := pregSlaughter b.psf b.pregTotalIn sp.odr ap.1
  (⟨b, transferPop, additive, otherDeath, rate, pre, ap.1, ap.2, ps.1, ps.2, ps.2 / sp.gestation⟩,
   rem - ap.1 * sp.hours)

/-- second species loop of `main`: in list order, each herd draws on the hours of its size class -/
def slaughterAll (first : Bool) (all : List (WB α)) : Hours α → List (WB α) → Except String (List (WC α))
  | _, [] => .ok []
  | hrs, b :: t =>
    if b.a.h.sp.size = Size.other then .error "size" else
    let r := slaughterOne first (transferOf all b.a.h.sp.species) b (hrs.get b.a.h.sp.size)
    -- `assert remaining_hours_this_size >= 0`
    if 0 ≤ r.2 then
      match slaughterAll first all (hrs.set b.a.h.sp.size r.2) t with
      | .ok cs => .ok (r.1 :: cs)
      | .error e => .error e
    else .error "hours"

/-- the three home-kill draws on the month's home-kill hours
    (`calculate_other_death_homekill_head`, `calculate_healthy_homekill_head`,
    `calculate_starving_pop_post_slaughter_healthy_homekill`, `calculate_starving_homekill_head`):
    (hkOther, hkHealthy, starvingPost, hkStarving, budget left) -/
def homekill (cn : Country α) (hours otherDeath popAfter starvingPre slaughter budget : α) :
    α × α × α × α × α :=
  let hkOther := pmin (otherDeath * cn.odhr) (budget / hours)
  let b1 := budget - hkOther * hours
  let hkHealthy := pmin (cn.hkf * popAfter) (b1 / hours)
  let b2 := b1 - hkHealthy * hours
  let sp0 := starvingPre - slaughter - hkHealthy
  let starvingPost : α := if sp0 < 0 then 0 else sp0
  let cap0 := b2 / hours
  let cap : α := if cap0 < 0 then 0 else cap0
  let hkStarving := pmin starvingPost cap
  (hkOther, hkHealthy, starvingPost, hkStarving, b2 - hkStarving * hours)

/-- `other_death_pregnant_adjustment` (skipped when the scenario looks like a baseline) -/
def pregAdjust (rib tpf ods odTotal pop x : α) : α :=
  if (rib ≤ 0 ∧ 0 ≤ rib) ∧ (tpf ≤ 1 ∧ 1 ≤ tpf) ∧ ods < 10.0 then x
  else
    let frac : α := if pop ≤ 0 ∧ 0 ≤ pop then 1 else odTotal / pop
    let y := x - x * frac
    if y < 0 then 0 else y

/-- third species loop of `main` for one herd; `budget` = `homekill_hours_budget[-1]` -/
def finishOne (cn : Country α) (c : WC α) (budget : α) : WD α × α :=
  let sp := c.b.a.h.sp
  let st := c.b.a.h.st
  let hk := homekill cn sp.hours c.otherDeath c.popAfter c.b.a.starvingPre c.slaughter budget
  let hkOther := hk.1
  let hkHealthy := hk.2.1
  let starvingPost := hk.2.2.1
  let hkStarving := hk.2.2.2.1
  -- calculate_starving_pop_post_all_slaughter_homekill, calculate_starving_other_death_head
  let ods := pmax (starvingPost - hkStarving) 0 * sp.sdf
  let odTotal := ods + c.otherDeath
  let pt := pregAdjust sp.rib sp.tpf ods odTotal st.pop c.pregTotal
  let pb := pregAdjust sp.rib sp.tpf ods odTotal st.pop c.pregBirthing
  -- total_homekill
  let hkTotal := hkOther + hkHealthy + hkStarving
  -- calculate_final_population
  let pe0 := c.popAfter - (ods + hkHealthy + hkStarving)
  (⟨c, hkOther, hkHealthy, hkStarving, hkTotal, starvingPost, ods, odTotal, pt, pb,
    if pe0 < 0 then 0 else pe0⟩, hk.2.2.2.2)

def finishAll (cn : Country α) : α → List (WC α) → Except String (List (WD α))
  | _, [] => .ok []
  | budget, c :: t =>
    let r := finishOne cn c budget
    -- `assert total_homekill == 0`
    if r.1.hkTotal ≤ 0 ∧ 0 ≤ r.1.hkTotal then
      match finishAll cn r.2 t with
      | .ok ds => .ok (r.1 :: ds)
      | .error e => .error e
    else .error "homekill"

/-- what `main` appends for one month -/
structure MonthRec (α : Type) where
  recs : List (WD α)
  feedUsed : α
  grassUsed : α

def nextHerd (d : WD α) : Herd α :=
  ⟨d.c.b.a.h.sp, ⟨d.popEnd, d.c.slaughter, d.pregTotal, d.pregBirthing, d.c.b.psf⟩⟩

/-- one pass of the month loop of `main()`.  `first` = `month == 0`, `month` the same number in `α`. -/
def monthStep (cn : Country α) (rnd : α → α) (first : Bool) (month : α) (herds : List (Herd α))
    (feed grass : α) : Except String (MonthRec α × List (Herd α)) :=
  let fa := feedAll rnd (herds.map feedReqOf) grass feed
  let was := zipFeed herds fa.1
  let wbs := was.map (birthsOne month)
  match slaughterAll first wbs (hoursBySize herds) wbs with
  | .error e => .error e
  | .ok wcs =>
    match finishAll cn cn.homekillHours wcs with
    | .error e => .error e
    | .ok wds => .ok (⟨wds, feed - fa.2.2, grass - fa.2.1⟩, wds.map nextHerd)

/-- `main()`: the month loop over the supply series `(feed, grass)`; an error carries nothing else
    (the Python call raises). -/
def runFrom (cn : Country α) (rnd : α → α) : Bool → α → List (Herd α) → List (α × α) →
    Except String (List (MonthRec α) × List (Herd α))
  | _, _, herds, [] => .ok ([], herds)
  | first, month, herds, (feed, grass) :: t =>
    match monthStep cn rnd first month herds feed grass with
    | .error e => .error e
    | .ok (r, herds') =>
      match runFrom cn rnd false (month + 1) herds' t with
      | .error e => .error e
      | .ok (rs, hf) => .ok (r :: rs, hf)

def run (cn : Country α) (rnd : α → α) (herds : List (Herd α)) (series : List (α × α)) :=
  runFrom cn rnd true 0 herds series

end
end Allfed.Herd
