import AllfedModel.Gen.ScenarioTable
/-
Executable model of the scenario loader (property C13): the `Scenarios` setters with their
exactly-once flags (`src/scenarios/scenarios.py`), `ScenarioRunner.set_depending_on_option` and
`alter_scenario_if_known_to_fail` (`src/scenarios/run_scenario.py`), and the key handling of the
head-count override in `animal_populations.main`.

The *tables* (what each setter asserts and writes, which setter each option value calls, the numeric
overrides, the known-to-fail patches, the head-count columns) are generated from the source on every
run (`Gen/ScenarioTable.lean`); this file gives them their meaning, statement by statement, in the
order the code executes them.  An `assert` / exception of the code is an explicit `Except` error.
No Mathlib.
-/
namespace Allfed.Scenario
open Allfed.Gen.Scenario

/-- why the code stops -/
inductive Err
  | alreadySet (flag : String)          -- `assert not self.X_SET` failed          (AssertionError)
  | missing (opt : String)              -- `assert "k" in scenario_option.keys()`  (AssertionError)
  | unknownValue (opt : String)         -- `assert scenario_is_correct`            (AssertionError)
  | assert_                             -- any other assert                        (AssertionError)
  | key                                 -- KeyError
  | attr                                -- AttributeError (IS_GLOBAL_ANALYSIS read before any init_*)
  | type                                -- TypeError
  | zerodiv                             -- ZeroDivisionError
  | value                               -- ValueError (float("abc"))
  | exit                                -- sys.exit()
  | unknownSetter (name : String)       -- table inconsistency (never in a well-formed table)
  deriving DecidableEq, Repr, Inhabited

/-- the error comes from the exactly-once discipline -/
def Err.isFlagErr : Err → Bool
  | .alreadySet _ => true
  | _ => false

/-- run-time values of `constants_for_params`, options and country rows -/
inductive Val (α : Type)
  | num (x : α)
  | bool (b : Bool)
  | str (s : String)
  | dict
  | list (l : List α)
  | opaque
  deriving Repr, Inhabited

/-- the three operations of the code with no field counterpart (parameters, DESIGN §3) -/
class PyNum (α : Type) where
  /-- `[v] * n` needs a non-negative Python int -/
  toNat? : α → Option Nat
  /-- `int(x)` of a float -/
  trunc : α → α
  /-- `float("…")` -/
  parse? : String → Option α

abbrev Dict (α : Type) := List (String × Val α)

structure ScState (α : Type) where
  /-- the `*_SET` attributes that are True -/
  flags : List String
  /-- `IS_GLOBAL_ANALYSIS` (absent until an `init_*` ran) -/
  scope : Option Bool
  /-- `constants_for_params` (paths `A/B`) and `time_consts` (paths `time_consts:K`) -/
  consts : Dict α
  deriving Inhabited

def ScState.init {α : Type} : ScState α := ⟨[], none, []⟩

/-! ## strings -/

def isPrefixL : List Char → List Char → Bool
  | [], _ => true
  | _ :: _, [] => false
  | a :: as, b :: bs => a == b && isPrefixL as bs

def hasSubL (sub : List Char) : List Char → Bool
  | [] => sub.isEmpty
  | c :: t => isPrefixL sub (c :: t) || hasSubL sub t

/-- Python `sub in s` -/
def hasSub (s sub : String) : Bool := hasSubL sub.toList s.toList

/-- Python `s.removesuffix(suf)` on character lists -/
def removeSuffixL (s suf : List Char) : List Char :=
  if isPrefixL suf.reverse s.reverse then s.take (s.length - suf.length) else s

def removeSuffix (s suf : String) : String := String.ofList (removeSuffixL s.toList suf.toList)

def dropWhileIn (chars : List Char) : List Char → List Char
  | [] => []
  | c :: t => if chars.contains c then dropWhileIn chars t else c :: t

/-- Python `s.strip(chars)`: removes leading and trailing *characters* that occur in `chars` -/
def pyStripL (chars s : List Char) : List Char :=
  (dropWhileIn chars (dropWhileIn chars s).reverse).reverse

def pyStrip (chars s : String) : String := String.ofList (pyStripL chars.toList s.toList)

/-- `k` lies below the dictionary stored at `parent` -/
def isChild (parent k : String) : Bool := isPrefixL (parent.toList ++ ['/']) k.toList

/-- the dictionary a path lives in (`A/B ↦ A`) -/
def parentOfL : List Char → List Char → Option (List Char)
  | _, [] => none
  | acc, c :: t => if c == '/' then some acc.reverse else parentOfL (c :: acc) t

def parentOf (path : String) : Option String := (parentOfL [] path.toList).map String.ofList

/-! ## the store -/

section
variable {β : Type}

def lookupK (k : String) : List (String × β) → Option β
  | [] => none
  | (k', v) :: t => if k' = k then some v else lookupK k t

/-- Python `d[k] = v`: replaces in place or appends (insertion order) -/
def setKey (k : String) (v : β) : List (String × β) → List (String × β)
  | [] => [(k, v)]
  | (k', v') :: t => if k' = k then (k, v) :: t else (k', v') :: setKey k v t

/-- the whole former value (a dictionary's entries included) is replaced -/
def writeKey (k : String) (v : β) (l : List (String × β)) : List (String × β) :=
  setKey k v (l.filter fun p => !isChild k p.1)

end

section
variable {α : Type} [Add α] [Sub α] [Mul α] [Div α] [Neg α] [LE α] [LT α] [DecidableLE α] [DecidableLT α]
  [OfNat α 0] [OfNat α 1] [OfScientific α] [BEq α] [PyNum α]

/-- the exact decimal `m·10^e` -/
def ofDec (m e : Int) : α :=
  let a : α := OfScientific.ofScientific m.natAbs (decide (e < 0)) e.natAbs
  if m < 0 then -a else a

def evalLit : Lit → Val α
  | .num m e => .num (ofDec m e)
  | .bool b => .bool b
  | .str s => .str s

/-- `c["A"]["B"] = v` -/
def storeWrite (path : String) (v : Val α) (c : Dict α) : Except Err (Dict α) :=
  match parentOf path with
  | none => .ok (writeKey path v c)
  | some p =>
    match lookupK p c with
    | some .dict => .ok (writeKey path v c)
    | some _ => .error .type
    | none => .error .key

def arith (op : α → α → α) (isDiv : Bool) (a b : Val α) : Except Err (Val α) :=
  match a, b with
  | .num x, .num y => if isDiv && y == 0 then .error .zerodiv else .ok (.num (op x y))
  | _, _ => .error .type

def evalEx (opts : Dict α) (cd : Option (Dict α)) (c : Dict α) : Ex → Except Err (Val α)
  | .lit l => .ok (evalLit l)
  | .cd col =>
    match cd with
    | none => .error .type
    | some row => match lookupK col row with
      | some v => .ok v
      | none => .error .key
  | .const path => match lookupK path c with
    | some v => .ok v
    | none => .error .key
  | .opt name => match lookupK name opts with
    | some v => .ok v
    | none => .error .key
  | .add a b => do let x ← evalEx opts cd c a; let y ← evalEx opts cd c b; arith (· + ·) false x y
  | .sub a b => do let x ← evalEx opts cd c a; let y ← evalEx opts cd c b; arith (· - ·) false x y
  | .mul a b => do let x ← evalEx opts cd c a; let y ← evalEx opts cd c b; arith (· * ·) false x y
  | .div a b => do let x ← evalEx opts cd c a; let y ← evalEx opts cd c b; arith (· / ·) true x y
  | .emptyDict => .ok .dict
  | .opaque _ => .ok .opaque

def evalNums (opts : Dict α) (cd : Option (Dict α)) (c : Dict α) : List Ex → Except Err (List α)
  | [] => .ok []
  | e :: t => do
    match ← evalEx opts cd c e with
    | .num x => let r ← evalNums opts cd c t; pure (x :: r)
    | _ => .error .type

def writeAll (v : Val α) : List String → Dict α → Except Err (Dict α)
  | [], c => .ok c
  | p :: t, c => do let c' ← storeWrite p v c; writeAll v t c'

/-- one statement of a setter -/
def execStmt (opts : Dict α) (cd : Option (Dict α)) (s : ScState α) : Stmt → Except Err (ScState α)
  | .assertClear f => if f ∈ s.flags then .error (.alreadySet f) else .ok s
  | .setFlag f => .ok { s with flags := f :: s.flags }
  | .assertScope g =>
    match s.scope with
    | none => .error .attr
    | some g' => if g' == g then .ok s else .error .assert_
  | .setScope g => .ok { s with scope := some g }
  | .assertHasKey k => if (lookupK k s.consts).isSome then .ok s else .error .assert_
  | .assertNoCountry => if cd.isNone then .ok s else .error .assert_
  | .assertRange x lo hi => do
    match ← evalEx opts cd s.consts x, ← evalEx opts cd s.consts lo, ← evalEx opts cd s.consts hi with
    | .num xv, .num l, .num h => if xv ≤ h ∧ l ≤ xv then .ok s else .error .assert_
    | _, _, _ => .error .type
  | .newDict => .ok { s with consts := s.consts.filter fun p => isPrefixL "time_consts:".toList p.1.toList }
  | .write path v => do
    let x ← evalEx opts cd s.consts v
    let c ← storeWrite path x s.consts
    pure { s with consts := c }
  | .writeList path vs => do
    let xs ← evalNums opts cd s.consts vs
    let c ← storeWrite path (.list xs) s.consts
    pure { s with consts := c }
  | .writeRepeat path v n => do
    match ← evalEx opts cd s.consts v, ← evalEx opts cd s.consts n with
    | .num x, .num k =>
      match PyNum.toNat? k with
      | some kn => let c ← storeWrite path (.list (List.replicate kn x)) s.consts; pure { s with consts := c }
      | none => .error .type
    | _, _ => .error .type
  | .writeIfEq a b path v => do
    match ← evalEx opts cd s.consts a, ← evalEx opts cd s.consts b with
    | .num x, .num y =>
      if x == y then do
        let w ← evalEx opts cd s.consts v
        let c ← storeWrite path w s.consts
        pure { s with consts := c }
      else .ok s
    | _, _ => .ok s
  | .opaque _ ws => do
    let c ← writeAll .opaque ws s.consts
    pure { s with consts := c }

def execBody (opts : Dict α) (cd : Option (Dict α)) : ScState α → List Stmt → Except Err (ScState α)
  | s, [] => .ok s
  | s, st :: t => do let s' ← execStmt opts cd s st; execBody opts cd s' t

/-- one setter call: assert its family is still clear → write → set the flag (the order is the
    table's, i.e. the source's) -/
def applySetter (opts : Dict α) (cd : Option (Dict α)) (s : ScState α) (info : SetterInfo) : Except Err (ScState α) :=
  execBody opts cd s info.body

/-- a sequence of setter calls on one `Scenarios` object -/
def run (opts : Dict α) (cd : Option (Dict α)) : ScState α → List SetterInfo → Except Err (ScState α)
  | s, [] => .ok s
  | s, i :: t => do let s' ← applySetter opts cd s i; run opts cd s' t

/-- `check_all_set` -/
def checkAllSet (s : ScState α) : Bool := allFlags.all fun f => f ∈ s.flags

end

/-! ## flags of a setter, read off its body -/

def guardsOf : List Stmt → List String
  | [] => []
  | .assertClear f :: t => f :: guardsOf t
  | _ :: t => guardsOf t

def setsOf : List Stmt → List String
  | [] => []
  | .setFlag f :: t => f :: setsOf t
  | _ :: t => setsOf t

/-- the option family (families, for the two `init_*`) a setter belongs to -/
def SetterInfo.family (i : SetterInfo) : List String := guardsOf i.body

/-- paths a statement may write -/
def Stmt.writes : Stmt → List String
  | .write p _ => [p]
  | .writeList p _ => [p]
  | .writeRepeat p _ _ => [p]
  | .writeIfEq _ _ p _ => [p]
  | .opaque _ ws => ws
  | _ => []

def SetterInfo.writes (i : SetterInfo) : List String := i.body.flatMap Stmt.writes

def findSetter (name : String) : Option SetterInfo := setters.find? fun i => i.name == name

/-! ## the dispatcher -/

section
variable {α : Type} [Add α] [Sub α] [Mul α] [Div α] [Neg α] [LE α] [LT α] [DecidableLE α] [DecidableLT α]
  [OfNat α 0] [OfNat α 1] [OfScientific α] [BEq α] [PyNum α]

/-- the `assert "k" in scenario_option.keys()` block -/
def checkRequired (opts : Dict α) : List String → Except Err Unit
  | [] => .ok ()
  | o :: t => if (lookupK o opts).isSome then checkRequired opts t else .error (.missing o)

def valIn (v : Val α) (l : List String) : Bool :=
  match v with
  | .str s => l.contains s
  | _ => false

/-- `all(scenario_option[key] in failing_scenario[key] for key in failing_scenario)` (keys present) -/
def ruleMatches (opts : Dict α) : List (String × List String) → Bool
  | [] => true
  | (k, vals) :: t => (match lookupK k opts with | some v => valIn v vals | none => false) && ruleMatches opts t

def ruleKeysPresent (opts : Dict α) (r : FailRule) : Bool := r.conds.all fun p => (lookupK p.1 opts).isSome

/-- `alter_scenario_if_known_to_fail`: works on a deep copy; the caller's dictionary is an input only -/
def alterOptions (iso3 : String) (opts : Dict α) : List FailRule → Except Err (Dict α)
  | [] => .ok opts
  | r :: t =>
    if !ruleKeysPresent opts r then .error .assert_
    else if ruleMatches opts r.conds && iso3 == r.iso3 then .ok (setKey r.corrKey (.str r.corrVal) opts)
    else alterOptions iso3 opts t

def isoOf (cd : Option (Dict α)) : Except Err String :=
  match cd with
  | none => .ok "WOR"
  | some row => match lookupK "iso3" row with
    | some (.str s) => .ok s
    | some _ => .ok ""        -- a non-string iso3 equals no rule's country code
    | none => .error .key

def execAction (opts : Dict α) (cd : Option (Dict α)) (s : ScState α) : Action → Except Err (ScState α)
  | .call n => match findSetter n with
    | some i => applySetter opts cd s i
    | none => .error (.unknownSetter n)
  | .stmt st => execStmt opts cd s st
  | .exit => .error .exit

def execActions (opts : Dict α) (cd : Option (Dict α)) : ScState α → List Action → Except Err (ScState α)
  | s, [] => .ok s
  | s, a :: t => do let s' ← execAction opts cd s a; execActions opts cd s' t

/-- `float(v)` / `int(v)` -/
def convVal (c : Conv) (v : Val α) : Except Err α :=
  match c, v with
  | .float, .num x => .ok x
  | .int, .num x => .ok (PyNum.trunc x)
  | .float, .str s => match PyNum.parse? s with | some x => .ok x | none => .error .value
  | .int, .str s => match s.trimAscii.toString.toInt? with | some i => .ok (ofDec i 0) | none => .error .value
  | _, .bool b => .ok (if b then 1 else 0)
  | _, _ => .error .type

def mulKey (m : α) (k : String) (c : Dict α) : Except Err (Dict α) :=
  match lookupK k c with
  | some (.num x) => .ok (writeKey k (.num (x * m)) c)
  | some _ => .error .type
  | none => .error .key

def mulKeys (m : α) : List String → Dict α → Except Err (Dict α)
  | [], c => .ok c
  | k :: t, c => do let c' ← mulKey m k c; mulKeys m t c'

/-- `try: c[k] *= m  except BaseException: pass` -/
def mulKeysTry (m : α) : List String → Dict α → Dict α
  | [], c => c
  | k :: t, c => match mulKey m k c with
    | .ok c' => mulKeysTry m t c'
    | .error _ => mulKeysTry m t c

def substrWrites (needle suffix : String) (conv : Conv) : Dict α → Dict α → Except Err (Dict α)
  | [], c => .ok c
  | (k, v) :: t, c =>
    if hasSub k needle then do
      let x ← convVal conv v
      substrWrites needle suffix conv t (writeKey (k ++ suffix) (.num x) c)
    else substrWrites needle suffix conv t c

def inRange (lo hi : Lit) (x : α) : Bool :=
  match (evalLit lo : Val α), (evalLit hi : Val α) with
  | .num l, .num h => decide (l ≤ x) && decide (x ≤ h)
  | _, _ => false

/-- one numeric override -/
def applyOverride (opts : Dict α) (s : ScState α) : Override → Except Err (ScState α)
  | .substr needle suffix conv => do
    let c ← substrWrites needle suffix conv opts s.consts
    pure { s with consts := c }
  | .exact key target lo hi extra =>
    match lookupK key opts with
    | none => .ok s
    | some v => do
      let x ← convVal .float v
      if inRange lo hi x then
        pure { s with consts := extra.foldl (fun c k => writeKey k .opaque c) (writeKey target (.num x) s.consts) }
      else .error .assert_
  | .mult key lo hi targets tries =>
    match lookupK key opts with
    | none => .ok s
    | some v => do
      let m ← convVal .float v
      if inRange lo hi m then do
        let c ← mulKeys m targets s.consts
        pure { s with consts := mulKeysTry m tries c }
      else .error .assert_

def pickBranch (v : Val α) (brs : List Branch) : Option Branch :=
  match v with
  | .str x => brs.find? fun b => b.value == x
  | _ => none

/-- one top-level step, executed at once (the code interleaves choosing and running) -/
def execItem (opts : Dict α) (cd : Option (Dict α)) (s : ScState α) : DispItem → Except Err (ScState α)
  | .family o brs dflt =>
    match lookupK o opts with
    | none => .error .key
    | some v =>
      match pickBranch v brs with
      | some b => execActions opts cd s b.actions
      | none => match dflt with
        | none => .error (.unknownValue o)
        | some acts => execActions opts cd s acts
  | .stmt st => execStmt opts cd s st
  | .override ov => applyOverride opts s ov

def execItems (opts : Dict α) (cd : Option (Dict α)) : ScState α → List DispItem → Except Err (ScState α)
  | s, [] => .ok s
  | s, i :: t => do let s' ← execItem opts cd s i; execItems opts cd s' t

/-- `ScenarioRunner.set_depending_on_option(scenario_option, country_data)` as the code runs it:
    presence assertions, copy-and-alter, then choose-and-run family by family, then the overrides.
    The caller's `opts` is only read. -/
def setDependingOnOption (opts : Dict α) (cd : Option (Dict α)) : Except Err (ScState α) := do
  checkRequired opts requiredOptions
  let iso ← isoOf cd
  let copy ← alterOptions iso opts failRules
  execItems copy cd ScState.init dispatch

/-! ### the same, in two phases: first decide everything, then run -/

inductive Step
  | act (a : Action)
  | ov (o : Override)
  deriving Repr, Inhabited

/-- choose the branch of one step without running anything -/
def planItem (opts : Dict α) : DispItem → Except Err (List Step)
  | .family o brs dflt =>
    match lookupK o opts with
    | none => .error .key
    | some v =>
      match pickBranch v brs with
      | some b => .ok (b.actions.map .act)
      | none => match dflt with
        | none => .error (.unknownValue o)
        | some acts => .ok (acts.map .act)
  | .stmt st => .ok [.act (.stmt st)]
  | .override ov => .ok [.ov ov]

/-- `dispatchOptions`: the whole list of setter calls / writes / overrides the options select,
    or the first rejection — before any setter runs -/
def planItems (opts : Dict α) : List DispItem → Except Err (List Step)
  | [] => .ok []
  | i :: t => do let a ← planItem opts i; let b ← planItems opts t; pure (a ++ b)

def execStep (opts : Dict α) (cd : Option (Dict α)) (s : ScState α) : Step → Except Err (ScState α)
  | .act a => execAction opts cd s a
  | .ov o => applyOverride opts s o

def execSteps (opts : Dict α) (cd : Option (Dict α)) : ScState α → List Step → Except Err (ScState α)
  | s, [] => .ok s
  | s, a :: t => do let s' ← execStep opts cd s a; execSteps opts cd s' t

def dispatchOptions (opts : Dict α) (cd : Option (Dict α)) : Except Err (Dict α × List Step) := do
  checkRequired opts requiredOptions
  let iso ← isoOf cd
  let copy ← alterOptions iso opts failRules
  let p ← planItems copy dispatch
  pure (copy, p)

/-- the setters a plan calls, in order -/
def planSetters : List Step → List String
  | [] => []
  | .act (.call n) :: t => n :: planSetters t
  | _ :: t => planSetters t

end

/-! ## the head-count override: option key → constants key → column of the head-count table -/

/-- what `animal_populations.main` does to a key of `constants_inputs` (generated: function name,
    needle and argument are read from the source) -/
def loaderColumn (key : String) : Option String :=
  if hasSub key loaderNeedle then
    some (if loaderFunction == "removesuffix" then removeSuffix key loaderArg
          else if loaderFunction == "strip" then pyStrip loaderArg key else key)
  else none

/-- the key `set_depending_on_option` writes for the option `k` (first override of the table) -/
def headConstKey (k : String) : Option String :=
  match dispatch.filterMap (fun i => match i with | .override (.substr n sfx _) => some (n, sfx) | _ => none) with
  | (n, sfx) :: _ => if hasSub k n then some (k ++ sfx) else none
  | [] => none

end Allfed.Scenario
