import AllfedModel.Model.Handoff
import Mathlib.Algebra.Order.Field.Basic
import Mathlib.Algebra.Order.Field.Rat
import Mathlib.Algebra.BigOperators.Group.List.Basic
import Mathlib.Algebra.Order.BigOperators.Group.List
import Mathlib.Data.List.GetD
import Mathlib.Data.List.Forall2
import Mathlib.Tactic.Linarith
import Mathlib.Tactic.Ring
import Mathlib.Tactic.FieldSimp
import Mathlib.Tactic.NormNum
import Mathlib.Tactic.Positivity
/-!
# Helper lemmas and proofs for property C18 (hand-offs between rounds)

Everything is proved over an arbitrary linearly ordered field `K`.
-/
namespace Allfed.Proofs
open Allfed Allfed.Handoff

set_option linter.unusedSectionVars false

variable {K : Type} [Field K] [LinearOrder K] [IsStrictOrderedRing K]

/-! ## basic facts -/

theorem pmin_eq_min (a b : K) : pmin a b = min a b := by
  unfold pmin
  split_ifs with h
  · exact (min_eq_right h.le).symm
  · exact (min_eq_left (not_lt.mp h)).symm

theorem pmax_eq_max (a b : K) : pmax a b = max a b := by
  unfold pmax
  split_ifs with h
  · exact (max_eq_right h.le).symm
  · exact (max_eq_left (not_lt.mp h)).symm

theorem pmin'_eq_min (a b : K) : bump1.pmin' a b = min a b := by
  unfold bump1.pmin'
  split_ifs with h
  · exact (min_eq_left h.le).symm
  · exact (min_eq_right (not_lt.mp h)).symm

theorem pmax'_eq_max (a b : K) : bump1.pmax' a b = max a b := by
  unfold bump1.pmax'
  split_ifs with h
  · exact (max_eq_left h.le).symm
  · exact (max_eq_right (not_lt.mp h)).symm

theorem sci_100 : (100.0 : K) = 100 := by norm_num

theorem sci_eps : (1e-9 : K) = 1 / 1000000000 := by norm_num

theorem eps_pos : (0 : K) < 1e-9 := by rw [sci_eps]; positivity

/-! ## `fillMonth` -/

theorem fillMonth_cons (cap f : K) (t : List K) :
    fillMonth cap (f :: t) = min f cap :: fillMonth (cap - min f cap) t := by
  simp only [fillMonth, pmin_eq_min]

theorem fillMonth_sum (cap : K) (foods : List K) (hc : 0 ≤ cap) (hf : ∀ f ∈ foods, 0 ≤ f) :
    (fillMonth cap foods).sum = min cap foods.sum := by
  induction foods generalizing cap with
  | nil => simp [fillMonth, hc]
  | cons f t ih =>
    have hf0 : 0 ≤ f := hf f (by simp)
    have ht : ∀ x ∈ t, 0 ≤ x := fun x hx => hf x (by simp [hx])
    have hts : 0 ≤ t.sum := List.sum_nonneg ht
    rw [fillMonth_cons, List.sum_cons, List.sum_cons]
    rcases le_total f cap with h | h
    · rw [min_eq_left h, ih (cap - f) (by linarith) ht, ← min_add_add_left]
      congr 1; ring
    · rw [min_eq_right h, ih (cap - cap) (by linarith) ht, sub_self, min_eq_left hts,
        min_eq_left (by linarith)]
      ring

theorem fillMonth_le (cap : K) (foods : List K) (hc : 0 ≤ cap) (hf : ∀ f ∈ foods, 0 ≤ f) :
    List.Forall₂ (· ≤ ·) (fillMonth cap foods) foods := by
  induction foods generalizing cap with
  | nil => simp [fillMonth]
  | cons f t ih =>
    have hf0 : 0 ≤ f := hf f (by simp)
    have ht : ∀ x ∈ t, 0 ≤ x := fun x hx => hf x (by simp [hx])
    rw [fillMonth_cons]
    refine List.Forall₂.cons (min_le_left _ _) (ih _ ?_ ht)
    have := min_le_right f cap
    linarith

theorem fillMonth_nonneg (cap : K) (foods : List K) (hc : 0 ≤ cap) (hf : ∀ f ∈ foods, 0 ≤ f) :
    ∀ c ∈ fillMonth cap foods, 0 ≤ c := by
  induction foods generalizing cap with
  | nil => simp [fillMonth]
  | cons f t ih =>
    have hf0 : 0 ≤ f := hf f (by simp)
    have ht : ∀ x ∈ t, 0 ≤ x := fun x hx => hf x (by simp [hx])
    rw [fillMonth_cons]
    intro c hc'
    rcases List.mem_cons.mp hc' with rfl | h
    · exact le_min hf0 hc
    · refine ih _ ?_ ht c h
      have := min_le_right f cap
      linarith

theorem fillMonth_zero (foods : List K) (hf : ∀ f ∈ foods, 0 ≤ f) (k : Nat) :
    (fillMonth 0 foods).getD k 0 = 0 := by
  induction foods generalizing k with
  | nil => simp [fillMonth]
  | cons f t ih =>
    have hf0 : 0 ≤ f := hf f (by simp)
    have ht : ∀ x ∈ t, 0 ≤ x := fun x hx => hf x (by simp [hx])
    rw [fillMonth_cons, min_eq_right hf0, sub_zero]
    cases k with
    | zero => simp
    | succ k => simpa using ih ht k

theorem fillMonth_priority (cap : K) (foods : List K) (hc : 0 ≤ cap) (hf : ∀ f ∈ foods, 0 ≤ f)
    (i j : Nat) (hij : i < j) (hj : j < foods.length) (hpos : 0 < (fillMonth cap foods).getD j 0) :
    (fillMonth cap foods).getD i 0 = foods.getD i 0 := by
  induction foods generalizing cap i j with
  | nil => simp at hj
  | cons f t ih =>
    have hf0 : 0 ≤ f := hf f (by simp)
    have ht : ∀ x ∈ t, 0 ≤ x := fun x hx => hf x (by simp [hx])
    rw [fillMonth_cons] at hpos ⊢
    obtain ⟨j', rfl⟩ : ∃ j', j = j' + 1 := ⟨j - 1, by omega⟩
    rw [List.getD_cons_succ] at hpos
    have hfc : f ≤ cap := by
      by_contra hlt
      have hlt : cap < f := not_le.mp hlt
      rw [min_eq_right hlt.le, sub_self, fillMonth_zero t ht] at hpos
      exact lt_irrefl _ hpos
    cases i with
    | zero => simp [min_eq_left hfc]
    | succ i' =>
      rw [List.getD_cons_succ, List.getD_cons_succ]
      refine ih (cap - min f cap) ?_ ht i' j' (by omega) (by simpa using hj) hpos
      rw [min_eq_left hfc]; linarith

theorem dailyMax_eq_min (kd p1 T : K) : dailyMax kd p1 T = kd * (min p1 T / 100) := by
  unfold dailyMax
  rw [sci_100]
  split_ifs with h
  · rw [min_eq_right h.le]
  · rw [min_eq_left (not_lt.mp h)]

theorem minNeeds_month_sum_eq_cap (kd p1 T : K) (months : List (List K)) (hkd : 0 ≤ kd)
    (hp : 0 ≤ p1) (hT : 0 ≤ T)
    (hf : ∀ row ∈ months, ∀ f ∈ row, 0 ≤ f)
    (hworst : ∀ row ∈ months, kd * (p1 / 100) ≤ row.sum) :
    ∀ out ∈ minNeeds (dailyMax kd p1 T) months, out.sum = kd * (min p1 T / 100) := by
  intro out hout
  unfold minNeeds at hout
  obtain ⟨row, hrow, rfl⟩ := List.mem_map.mp hout
  rw [dailyMax_eq_min]
  have hm : 0 ≤ min p1 T := le_min hp hT
  have hcap : 0 ≤ kd * (min p1 T / 100) := by positivity
  rw [fillMonth_sum _ _ hcap (hf row hrow)]
  refine min_eq_left (le_trans ?_ (hworst row hrow))
  have : min p1 T / 100 ≤ p1 / 100 := by
    have := min_le_left p1 T
    apply div_le_div_of_nonneg_right this (by norm_num)
  exact mul_le_mul_of_nonneg_left this hkd

/-! ## `fillNeg` -/

theorem getD_set (l : List K) (i j : ℕ) (a : K) :
    (l.set i a).getD j 0 = if i = j ∧ i < l.length then a else l.getD j 0 := by
  by_cases h : i = j ∧ i < l.length
  · obtain ⟨rfl, hl⟩ := h
    simp [List.getD_eq_getElem?_getD, hl]
  · rw [if_neg h]
    simp only [List.getD_eq_getElem?_getD, List.getElem?_set]
    split_ifs with h1 h2
    · exact absurd ⟨h1, h2⟩ h
    · subst h1
      simp [List.getElem?_eq_none (not_lt.mp h2)]
    · rfl

theorem list_sum_nonpos (l : List K) (h : ∀ x ∈ l, x ≤ 0) : l.sum ≤ 0 := by
  induction l with
  | nil => simp
  | cons x t ih =>
    rw [List.sum_cons]
    have h1 := h x (by simp)
    have h2 := ih (fun y hy => h y (by simp [hy]))
    linarith

theorem lt_length_of_getD_ne (l : List K) (j : ℕ) (h : l.getD j 0 ≠ 0) : j < l.length := by
  by_contra hh
  exact h (List.getD_eq_default _ _ (not_lt.mp hh))

theorem sum_set_getD (l : List K) (i : ℕ) (a : K) (h : i < l.length) :
    (l.set i a).sum = l.sum - l.getD i 0 + a := by
  rw [List.sum_set', dif_pos h, List.getD_eq_getElem _ _ h]; ring

theorem mem_getD (l : List K) (x : K) (h : x ∈ l) : ∃ j, l.getD j 0 = x := by
  obtain ⟨j, hj, rfl⟩ := List.mem_iff_getElem.mp h
  exact ⟨j, List.getD_eq_getElem _ _ hj⟩

/-- one transfer step of the inner loop -/
def step (neg i : ℕ) (arr : List K) : List K :=
  (arr.set neg (arr.getD neg 0 + min (-arr.getD neg 0) (arr.getD i 0))).set i
    ((arr.set neg (arr.getD neg 0 + min (-arr.getD neg 0) (arr.getD i 0))).getD i 0
      - min (-arr.getD neg 0) (arr.getD i 0))

theorem fillInner_succ (neg k : ℕ) (arr : List K) :
    fillInner neg (k + 1) arr =
      if k = neg ∨ arr.getD k 0 ≤ 0 then fillInner neg k arr
      else if (step neg k arr).getD neg 0 = 0 then step neg k arr
      else fillInner neg k (step neg k arr) := by
  simp only [fillInner, pmin_eq_min, step]
  exact if_congr Iff.rfl rfl (if_congr le_antisymm_iff.symm rfl rfl)

theorem step_length (neg i : ℕ) (arr : List K) : (step neg i arr).length = arr.length := by
  simp [step]

theorem step_getD (neg i : ℕ) (arr : List K) (hi : i ≠ neg) (hpos : 0 < arr.getD i 0) (j : ℕ) :
    (step neg i arr).getD j 0 =
      if j = i then arr.getD i 0 - min (-arr.getD neg 0) (arr.getD i 0)
      else if j = neg then arr.getD neg 0 + min (-arr.getD neg 0) (arr.getD i 0)
      else arr.getD j 0 := by
  have hil : i < arr.length := lt_length_of_getD_ne arr i hpos.ne'
  unfold step
  simp only [getD_set, List.length_set]
  by_cases hji : j = i
  · subst hji
    simp [hil, hi.symm]
  · have hij : ¬ i = j := fun h => hji h.symm
    simp only [hij, false_and, if_false, hji]
    by_cases hjn : j = neg
    · subst hjn
      by_cases hl : j < arr.length
      · simp [hl]
      · have h0 : arr.getD j 0 = 0 := List.getD_eq_default _ _ (not_lt.mp hl)
        rw [if_neg (fun h => hl h.2), h0, neg_zero, min_eq_left hpos.le, add_zero, if_pos rfl]
    · have : ¬ neg = j := fun h => hjn h.symm
      simp [this, hjn]

theorem step_sum (neg i : ℕ) (arr : List K) (hpos : 0 < arr.getD i 0) :
    (step neg i arr).sum = arr.sum := by
  have hil : i < arr.length := lt_length_of_getD_ne arr i hpos.ne'
  unfold step
  by_cases hl : neg < arr.length
  · rw [sum_set_getD _ _ _ (by simpa using hil), sum_set_getD _ _ _ hl]
    ring
  · have h0 : arr.getD neg 0 = 0 := List.getD_eq_default _ _ (not_lt.mp hl)
    rw [List.set_eq_of_length_le (not_lt.mp hl), sum_set_getD _ _ _ hil, h0, neg_zero,
      min_eq_left hpos.le]
    ring

theorem fillInner_length (neg k : ℕ) (arr : List K) :
    (fillInner neg k arr).length = arr.length := by
  induction k generalizing arr with
  | zero => rfl
  | succ k ih =>
    rw [fillInner_succ]
    split_ifs
    · exact ih arr
    · exact step_length _ _ _
    · rw [ih, step_length]

theorem fillInner_sum (neg k : ℕ) (arr : List K) : (fillInner neg k arr).sum = arr.sum := by
  induction k generalizing arr with
  | zero => rfl
  | succ k ih =>
    rw [fillInner_succ]
    split_ifs with h1 h2
    · exact ih arr
    · push Not at h1
      exact step_sum _ _ _ h1.2
    · push Not at h1
      rw [ih, step_sum _ _ _ h1.2]

theorem fillOuter_length (ns : List ℕ) (arr : List K) :
    (fillOuter ns arr).length = arr.length := by
  induction ns generalizing arr with
  | nil => rfl
  | cons n t ih => rw [fillOuter, ih, fillInner_length]

theorem fillOuter_sum (ns : List ℕ) (arr : List K) : (fillOuter ns arr).sum = arr.sum := by
  induction ns generalizing arr with
  | nil => rfl
  | cons n t ih => rw [fillOuter, ih, fillInner_sum]

theorem fillNeg_length (arr : List K) : (fillNeg arr).length = arr.length :=
  fillOuter_length _ _

theorem fillNeg_sum (arr : List K) : (fillNeg arr).sum = arr.sum :=
  fillOuter_sum _ _

/-- what one transfer step does -/
theorem step_spec (neg i : ℕ) (arr : List K) (hi : i ≠ neg) (hpos : 0 < arr.getD i 0) :
    (∀ j, j ≠ neg → j ≠ i → (step neg i arr).getD j 0 = arr.getD j 0) ∧
    0 ≤ (step neg i arr).getD i 0 ∧ (step neg i arr).getD neg 0 ≤ 0 ∧
    ((step neg i arr).getD neg 0 = 0 ∨ (step neg i arr).getD i 0 = 0) := by
  refine ⟨?_, ?_, ?_, ?_⟩
  · intro j hjn hji
    rw [step_getD _ _ _ hi hpos, if_neg hji, if_neg hjn]
  · rw [step_getD _ _ _ hi hpos, if_pos rfl]
    have := min_le_right (-arr.getD neg 0) (arr.getD i 0)
    linarith
  · rw [step_getD _ _ _ hi hpos, if_neg hi.symm, if_pos rfl]
    have := min_le_left (-arr.getD neg 0) (arr.getD i 0)
    linarith
  · rw [step_getD _ _ _ hi hpos, step_getD _ _ _ hi hpos, if_neg hi.symm, if_pos rfl, if_pos rfl]
    rcases le_total (-arr.getD neg 0) (arr.getD i 0) with h | h
    · left; rw [min_eq_left h]; ring
    · right; rw [min_eq_right h]; ring

theorem fillInner_spec (neg k : ℕ) (arr : List K) (hn : arr.getD neg 0 ≤ 0) :
    (∀ j, j ≠ neg → arr.getD j 0 ≤ 0 → (fillInner neg k arr).getD j 0 = arr.getD j 0) ∧
    (∀ j, j ≠ neg → 0 ≤ arr.getD j 0 → 0 ≤ (fillInner neg k arr).getD j 0) ∧
    (fillInner neg k arr).getD neg 0 ≤ 0 ∧
    ((fillInner neg k arr).getD neg 0 = 0 ∨
      ∀ j < k, j ≠ neg → (fillInner neg k arr).getD j 0 ≤ 0) := by
  induction k generalizing arr with
  | zero =>
    exact ⟨fun _ _ _ => rfl, fun _ _ h => h, hn, Or.inr (fun j hj => absurd hj (Nat.not_lt_zero j))⟩
  | succ k ih =>
    rw [fillInner_succ]
    split_ifs with h1 h2
    · obtain ⟨a, b, c, d⟩ := ih arr hn
      refine ⟨a, b, c, d.imp_right fun d j hj hjn => ?_⟩
      rcases Nat.lt_succ_iff_lt_or_eq.mp hj with hlt | rfl
      · exact d j hlt hjn
      · rcases h1 with h1 | h1
        · exact absurd h1 hjn
        · rw [a j hjn h1]; exact h1
    · push Not at h1
      obtain ⟨s1, s2, s3, _⟩ := step_spec neg k arr h1.1 h1.2
      refine ⟨?_, ?_, s3, Or.inl h2⟩
      · intro j hjn hj
        exact s1 j hjn (fun h => absurd (h ▸ hj) (not_le.mpr h1.2))
      · intro j hjn hj
        by_cases hjk : j = k
        · rw [hjk]; exact s2
        · rw [s1 j hjn hjk]; exact hj
    · push Not at h1
      obtain ⟨s1, s2, s3, s4⟩ := step_spec neg k arr h1.1 h1.2
      have s4 : (step neg k arr).getD k 0 = 0 := s4.resolve_left h2
      obtain ⟨a, b, c, d⟩ := ih (step neg k arr) s3
      refine ⟨?_, ?_, c, d.imp_right fun d j hj hjn => ?_⟩
      · intro j hjn hj
        have hjk : j ≠ k := fun h => absurd (h ▸ hj) (not_le.mpr h1.2)
        rw [a j hjn (by rw [s1 j hjn hjk]; exact hj), s1 j hjn hjk]
      · intro j hjn hj
        refine b j hjn ?_
        by_cases hjk : j = k
        · rw [hjk]; exact s2
        · rw [s1 j hjn hjk]; exact hj
      · rcases Nat.lt_succ_iff_lt_or_eq.mp hj with hlt | rfl
        · exact d j hlt hjn
        · rw [a j hjn s4.le, s4]

theorem sum_neg_of_getD (l : List K) (n : ℕ) (hn : l.getD n 0 < 0)
    (h : ∀ j, j ≠ n → l.getD j 0 ≤ 0) : l.sum < 0 := by
  have hnl : n < l.length := lt_length_of_getD_ne l n hn.ne
  have hs := sum_set_getD l n 0 hnl
  have hle : (l.set n 0).sum ≤ 0 := by
    apply list_sum_nonpos
    intro x hx
    obtain ⟨j, rfl⟩ := mem_getD _ _ hx
    rw [getD_set]
    split_ifs with hc
    · exact le_rfl
    · by_cases hjn : j = n
      · exact absurd ⟨hjn.symm, hnl⟩ hc
      · exact h j hjn
  linarith

theorem fillOuter_nonneg (ns : List ℕ) (arr : List K)
    (h1 : ∀ m ∈ ns, arr.getD m 0 ≤ 0) (h2 : ∀ j, arr.getD j 0 < 0 → j ∈ ns)
    (h3 : 0 ≤ arr.sum) : ∀ j, 0 ≤ (fillOuter ns arr).getD j 0 := by
  induction ns generalizing arr with
  | nil =>
    intro j
    by_contra hlt
    exact absurd (h2 j (not_le.mp hlt)) (by simp)
  | cons n t ih =>
    rw [fillOuter]
    obtain ⟨a, b, c, d⟩ := fillInner_spec n arr.length arr (h1 n (by simp))
    have hsum := fillInner_sum n arr.length arr
    have hlen := fillInner_length n arr.length arr
    have hn0 : (fillInner n arr.length arr).getD n 0 = 0 := by
      rcases d with d | d
      · exact d
      · by_contra hne
        have hlt : (fillInner n arr.length arr).getD n 0 < 0 := lt_of_le_of_ne c hne
        have : (fillInner n arr.length arr).sum < 0 := by
          refine sum_neg_of_getD _ n hlt fun j hjn => ?_
          by_cases hjl : j < arr.length
          · exact d j hjl hjn
          · rw [List.getD_eq_default _ _ (by rw [hlen]; exact not_lt.mp hjl)]
        linarith
    refine ih _ ?_ ?_ (by rw [hsum]; exact h3)
    · intro m hm
      by_cases hmn : m = n
      · rw [hmn, hn0]
      · rw [a m hmn (h1 m (by simp [hm]))]; exact h1 m (by simp [hm])
    · intro j hj
      have hjn : j ≠ n := fun h => by rw [h, hn0] at hj; exact lt_irrefl _ hj
      have : arr.getD j 0 < 0 := by
        by_contra hge
        exact absurd (b j hjn (not_lt.mp hge)) (not_le.mpr hj)
      rcases List.mem_cons.mp (h2 j this) with h | h
      · exact absurd h hjn
      · exact h

theorem fillNeg_nonneg (arr : List K) (h : 0 ≤ arr.sum) : ∀ x ∈ fillNeg arr, 0 ≤ x := by
  intro x hx
  obtain ⟨j, rfl⟩ := mem_getD _ _ hx
  unfold fillNeg
  refine fillOuter_nonneg _ _ ?_ ?_ h j
  · intro m hm
    unfold negIdx at hm
    have := (List.mem_filter.mp hm).2
    exact (of_decide_eq_true this).le
  · intro j hj
    unfold negIdx
    refine List.mem_filter.mpr ⟨List.mem_range.mpr (lt_length_of_getD_ne _ _ hj.ne), ?_⟩
    exact decide_eq_true hj

/-! ## `redistribute` -/

theorem foldl_add (l : List K) (a : K) : l.foldl (· + ·) a = a + l.sum := by
  induction l generalizing a with
  | nil => simp
  | cons x t ih => simp [ih, add_assoc]

theorem lsum_eq_sum (l : List K) : lsum l = l.sum := by
  unfold lsum
  rw [foldl_add, zero_add]

theorem sum_zipWith_add (a b : List K) (h : a.length = b.length) :
    (List.zipWith (· + ·) a b).sum = a.sum + b.sum := by
  induction a generalizing b with
  | nil => cases b <;> simp_all
  | cons x t ih =>
    cases b with
    | nil => simp at h
    | cons y u =>
      simp only [List.zipWith_cons_cons, List.sum_cons, ih u (by simpa using h)]
      ring

theorem sum_zipWith_sub (a b : List K) (h : a.length = b.length) :
    (List.zipWith (· - ·) a b).sum = a.sum - b.sum := by
  induction a generalizing b with
  | nil => cases b <;> simp_all
  | cons x t ih =>
    cases b with
    | nil => simp at h
    | cons y u =>
      simp only [List.zipWith_cons_cons, List.sum_cons, ih u (by simpa using h)]
      ring

theorem redistribute_none_iff (r1 r2 : List K) : redistribute r1 r2 = none ↔ r2.sum < r1.sum := by
  unfold redistribute
  rw [lsum_eq_sum, lsum_eq_sum]
  split_ifs with h <;> simp [h]

theorem redistribute_some (r1 r2 out : List K) (h : redistribute r1 r2 = some out) :
    r1.sum ≤ r2.sum ∧
    out = List.zipWith (· + ·) r2
      (List.zipWith (· - ·) (fillNeg (List.zipWith (· - ·) r2 r1)) (List.zipWith (· - ·) r2 r1)) := by
  unfold redistribute at h
  rw [lsum_eq_sum, lsum_eq_sum] at h
  split_ifs at h with hlt
  simp only [Option.some.injEq] at h
  exact ⟨not_lt.mp hlt, h.symm⟩

theorem redistribute_total (r1 r2 out : List K) (hl : r1.length = r2.length)
    (h : redistribute r1 r2 = some out) : out.sum = r2.sum := by
  obtain ⟨_, rfl⟩ := redistribute_some r1 r2 out h
  have hd : (List.zipWith (· - ·) r2 r1).length = r2.length := by simp [hl]
  rw [sum_zipWith_add _ _ (by simp [fillNeg_length, hl]),
    sum_zipWith_sub _ _ (fillNeg_length _), fillNeg_sum]
  ring

theorem redistribute_ge_round1 (r1 r2 out : List K) (hl : r1.length = r2.length)
    (h : redistribute r1 r2 = some out) : List.Forall₂ (· ≤ ·) r1 out := by
  obtain ⟨hs, rfl⟩ := redistribute_some r1 r2 out h
  have hsum : 0 ≤ (List.zipWith (· - ·) r2 r1).sum := by
    rw [sum_zipWith_sub _ _ hl.symm]; linarith
  rw [List.forall₂_iff_get]
  refine ⟨by simp [fillNeg_length, hl], fun i h1 h2 => ?_⟩
  simp only [List.get_eq_getElem, List.getElem_zipWith]
  have : 0 ≤ (fillNeg (List.zipWith (· - ·) r2 r1))[i]'(by
      simp only [List.length_zipWith, fillNeg_length] at h2 ⊢; omega) :=
    fillNeg_nonneg _ hsum _ (List.getElem_mem _)
  linarith

theorem redistribute_nonneg (r1 r2 out : List K) (hl : r1.length = r2.length)
    (h1 : ∀ x ∈ r1, 0 ≤ x) (h : redistribute r1 r2 = some out) : ∀ x ∈ out, 0 ≤ x := by
  have hf := redistribute_ge_round1 r1 r2 out hl h
  intro x hx
  obtain ⟨j, hj, rfl⟩ := List.mem_iff_getElem.mp hx
  have hj1 : j < r1.length := by rw [hf.length_eq]; exact hj
  have := hf.get hj1 hj
  simp only [List.get_eq_getElem] at this
  exact le_trans (h1 _ (List.getElem_mem hj1)) this

/-! ## `bump1` -/

/-- the proportional split of an allowance `≤ pb + pf` never gives more than `pb` to the first
    and never more than `pf + ε` to the second -/
theorem split_bound (pb pf al ε : K) (hpb : 0 ≤ pb) (hpf : 0 ≤ pf) (hε : 0 < ε)
    (hal : al ≤ pb + pf) :
    max 0 (al * (pb / (pb + pf + ε))) ≤ pb ∧
    max 0 (al - al * (pb / (pb + pf + ε))) ≤ pf + ε := by
  have hd : 0 < pb + pf + ε := by linarith
  have h1 : al * (pb / (pb + pf + ε)) = al * pb / (pb + pf + ε) := by ring
  have h2 : al - al * (pb / (pb + pf + ε)) = al * (pf + ε) / (pb + pf + ε) := by
    field_simp
    ring
  rw [h2, h1]
  constructor
  · refine max_le hpb ?_
    rw [div_le_iff₀ hd]
    rcases le_total al 0 with h | h
    · have : al * pb ≤ 0 := mul_nonpos_of_nonpos_of_nonneg h hpb
      have : 0 ≤ pb * (pb + pf + ε) := mul_nonneg hpb hd.le
      linarith
    · have : al * pb ≤ (pb + pf + ε) * pb := mul_le_mul_of_nonneg_right (by linarith) hpb
      linarith
  · refine max_le (by linarith) ?_
    rw [div_le_iff₀ hd]
    have hq : 0 ≤ pf + ε := by linarith
    rcases le_total al 0 with h | h
    · have : al * (pf + ε) ≤ 0 := mul_nonpos_of_nonpos_of_nonneg h hq
      have : 0 ≤ (pf + ε) * (pb + pf + ε) := mul_nonneg hq hd.le
      linarith
    · have : al * (pf + ε) ≤ (pb + pf + ε) * (pf + ε) :=
        mul_le_mul_of_nonneg_right (by linarith) hq
      linarith

/-- `bump1` with `np.minimum/np.maximum` read as `min/max` -/
theorem bump1_eq (b f inc mb mf av : K) :
    bump1 b f inc mb mf av =
      (b + max 0
        ((if max (min (b + inc) mb - b) 0 + max (min (f + inc) mf - f) 0 + b + f ≤ av
            then max (min (b + inc) mb - b) 0 + max (min (f + inc) mf - f) 0
            else av - b - f) *
          (max (min (b + inc) mb - b) 0 /
            (max (min (b + inc) mb - b) 0 + max (min (f + inc) mf - f) 0 + 1e-9))),
       f + max 0
        ((if max (min (b + inc) mb - b) 0 + max (min (f + inc) mf - f) 0 + b + f ≤ av
            then max (min (b + inc) mb - b) 0 + max (min (f + inc) mf - f) 0
            else av - b - f) -
          (if max (min (b + inc) mb - b) 0 + max (min (f + inc) mf - f) 0 + b + f ≤ av
            then max (min (b + inc) mb - b) 0 + max (min (f + inc) mf - f) 0
            else av - b - f) *
          (max (min (b + inc) mb - b) 0 /
            (max (min (b + inc) mb - b) 0 + max (min (f + inc) mf - f) 0 + 1e-9)))) := by
  simp only [bump1, pmin'_eq_min, pmax'_eq_max]

theorem bump_never_lowers (b f inc mb mf av : K) :
    b ≤ (bump1 b f inc mb mf av).1 ∧ f ≤ (bump1 b f inc mb mf av).2 := by
  rw [bump1_eq]
  exact ⟨le_add_of_nonneg_right (le_max_left _ _), le_add_of_nonneg_right (le_max_left _ _)⟩

/-- the bounds behind `bump_within_ceiling`, in terms of the clamped potential increases -/
theorem bump_bounds (b f inc mb mf av : K) :
    (bump1 b f inc mb mf av).1 ≤ b + max (min (b + inc) mb - b) 0 ∧
    (bump1 b f inc mb mf av).2 ≤ f + max (min (f + inc) mf - f) 0 + 1e-9 := by
  rw [bump1_eq]
  generalize hpb : max (min (b + inc) mb - b) 0 = pb
  generalize hpf : max (min (f + inc) mf - f) 0 = pf
  have hpb0 : 0 ≤ pb := hpb ▸ le_max_right _ _
  have hpf0 : 0 ≤ pf := hpf ▸ le_max_right _ _
  have hal : (if pb + pf + b + f ≤ av then pb + pf else av - b - f) ≤ pb + pf := by
    split_ifs with h
    · exact le_rfl
    · have := not_le.mp h
      linarith
  obtain ⟨h1, h2⟩ := split_bound pb pf _ (1e-9) hpb0 hpf0 eps_pos hal
  constructor
  · simpa using h1
  · show f + _ ≤ f + pf + 1e-9
    linarith

/-- a clamped potential increase never leads above the ceiling, unless it is zero -/
theorem add_clamp_le (x inc m : K) :
    max (min (x + inc) m - x) 0 = 0 ∨ x + max (min (x + inc) m - x) 0 ≤ m := by
  rcases le_total (min (x + inc) m - x) 0 with h | h
  · left; exact max_eq_right h
  · right
    rw [max_eq_left h]
    have := min_le_right (x + inc) m
    linarith

/-- biofuel: unchanged or at most its ceiling.  feed: at most `1e-9` above the larger of its input
    value and its ceiling (the regulariser of the proportional split leaks into the feed share,
    also when feed has no head-room at all). -/
theorem bump_within_ceiling (b f inc mb mf av : K) :
    ((bump1 b f inc mb mf av).1 = b ∨ (bump1 b f inc mb mf av).1 ≤ mb) ∧
    ((bump1 b f inc mb mf av).2 ≤ f + 1e-9 ∨ (bump1 b f inc mb mf av).2 ≤ mf + 1e-9) := by
  obtain ⟨h1, h2⟩ := bump_bounds b f inc mb mf av
  obtain ⟨l1, l2⟩ := bump_never_lowers b f inc mb mf av
  constructor
  · rcases add_clamp_le b inc mb with h | h
    · left
      rw [h, add_zero] at h1
      exact le_antisymm h1 l1
    · right; exact le_trans h1 h
  · rcases add_clamp_le f inc mf with h | h
    · left
      rw [h, add_zero] at h2
      exact h2
    · right; linarith

/-- the form used in the design document: inputs at or below their ceilings stay there -/
theorem bump_within_ceiling_of_le (b f inc mb mf av : K) :
    (b ≤ mb → (bump1 b f inc mb mf av).1 ≤ mb) ∧
    (f ≤ mf → (bump1 b f inc mb mf av).2 ≤ mf + 1e-9) := by
  obtain ⟨h1, h2⟩ := bump_within_ceiling b f inc mb mf av
  constructor
  · intro hb
    rcases h1 with h | h
    · rw [h]; exact hb
    · exact h
  · intro hf
    rcases h2 with h | h
    · linarith
    · exact h

/-! ## the third round's potential increase and the whole final adjustment -/

/-- the rule of thumb, in closed form -/
theorem increase1_eq (u c a b : K) (hu : 0 < u) :
    increase1 u c a b = max 0 (u * ((b - a) / 2) - c) / u := by
  have h2 : (2.0 : K) = 2 := by norm_num
  have hc : (1 / u * u : K) = 1 := by field_simp
  unfold increase1
  simp only [h2, hc, div_one, one_mul, mul_one]
  split_ifs with h
  · rw [max_eq_left h.le]; ring
  · rw [max_eq_right (not_lt.mp h)]; ring

theorem increase1_nonneg (u c a b : K) (hu : 0 < u) : 0 ≤ increase1 u c a b := by
  rw [increase1_eq u c a b hu]
  exact div_nonneg (le_max_left _ _) hu.le

theorem increase1_le_half_extra (u c a b : K) (hu : 0 < u) (hc : 0 ≤ c) :
    increase1 u c a b ≤ max 0 ((b - a) / 2) := by
  rw [increase1_eq u c a b hu, div_le_iff₀ hu]
  refine max_le (mul_nonneg (le_max_left _ _) hu.le) ?_
  have : (b - a) / 2 ≤ max 0 ((b - a) / 2) := le_max_right _ _
  nlinarith

theorem increase1_zero_iff (u c a b : K) (hu : 0 < u) :
    increase1 u c a b = 0 ↔ (b - a) / 2 * u ≤ c := by
  rw [increase1_eq u c a b hu, div_eq_zero_iff]
  constructor
  · rintro (h | h)
    · have := le_max_right 0 (u * ((b - a) / 2) - c)
      rw [h] at this
      linarith
    · exact absurd h hu.ne'
  · intro h
    left
    exact max_eq_left (by linarith)

theorem increase_length (u c : K) (m1 m3 : List K) :
    (thirdRoundIncrease u c m1 m3).length = min m1.length m3.length := by
  unfold thirdRoundIncrease; exact List.length_zipWith

theorem increase_getD (u c : K) (m1 m3 : List K) (k : Nat)
    (hk : k < (thirdRoundIncrease u c m1 m3).length) :
    (thirdRoundIncrease u c m1 m3).getD k 0 = increase1 u c (m1.getD k 0) (m3.getD k 0) := by
  have hk' := hk
  rw [increase_length] at hk'
  have h1 : k < m1.length := lt_of_lt_of_le hk' (min_le_left _ _)
  have h3 : k < m3.length := lt_of_lt_of_le hk' (min_le_right _ _)
  rw [List.getD_eq_getElem _ _ hk, List.getD_eq_getElem _ _ h1, List.getD_eq_getElem _ _ h3]
  exact List.getElem_zipWith

theorem increase_nonneg (u c : K) (m1 m3 : List K) (hu : 0 < u) :
    ∀ e ∈ thirdRoundIncrease u c m1 m3, 0 ≤ e := by
  intro e he
  obtain ⟨k, hk, rfl⟩ := List.mem_iff_getElem.mp he
  have := increase_getD u c m1 m3 k hk
  rw [List.getD_eq_getElem _ _ hk] at this
  rw [this]
  exact increase1_nonneg u c _ _ hu

theorem increase_le_half_extra (u c : K) (m1 m3 : List K) (hu : 0 < u) (hc : 0 ≤ c) (k : Nat) :
    (thirdRoundIncrease u c m1 m3).getD k 0 ≤ max 0 ((m3.getD k 0 - m1.getD k 0) / 2) := by
  by_cases hk : k < (thirdRoundIncrease u c m1 m3).length
  · rw [increase_getD u c m1 m3 k hk]
    exact increase1_le_half_extra u c _ _ hu hc
  · rw [List.getD_eq_default _ _ (not_lt.mp hk)]
    exact le_max_left _ _

theorem increase_zero_iff (u c : K) (m1 m3 : List K) (hu : 0 < u) (k : Nat)
    (hk : k < (thirdRoundIncrease u c m1 m3).length) :
    (thirdRoundIncrease u c m1 m3).getD k 0 = 0 ↔ (m3.getD k 0 - m1.getD k 0) / 2 * u ≤ c := by
  rw [increase_getD u c m1 m3 k hk]
  exact increase1_zero_iff u c _ _ hu

/-- entry `k` of the month-by-month application is `bump1` of the six entries `k` -/
theorem bumpAll_getD (b f inc mb mf av : List K) (k : Nat)
    (hk : k < (bumpAll b f inc mb mf av).length) :
    (bumpAll b f inc mb mf av).getD k (0, 0) =
      bump1 (b.getD k 0) (f.getD k 0) (inc.getD k 0) (mb.getD k 0) (mf.getD k 0) (av.getD k 0) := by
  induction k generalizing b f inc mb mf av with
  | zero =>
    match b, f, inc, mb, mf, av, hk with
    | b :: bs, f :: fs, i :: is, m :: ms, n :: ns, a :: as, _ => rfl
  | succ k ih =>
    match b, f, inc, mb, mf, av, hk with
    | b :: bs, f :: fs, i :: is, m :: ms, n :: ns, a :: as, hk =>
      simp only [bumpAll, List.getD_cons_succ]
      exact ih bs fs is ms ns as (by simpa [bumpAll] using hk)

/-- the whole final adjustment (rule of thumb, then `increase_biofuels_then_feed`): no month's
    biofuel or feed is lowered; biofuel ends at most at the larger of its input and its demand,
    feed at most `1e-9` above the larger of its input and its demand -/
theorem final_charge_never_lowers_and_within_demand (u c : K) (m1 m3 b f mb mf av : List K) (k : Nat)
    (hk : k < (bumpAll b f (thirdRoundIncrease u c m1 m3) mb mf av).length) :
    b.getD k 0 ≤ ((bumpAll b f (thirdRoundIncrease u c m1 m3) mb mf av).getD k (0, 0)).1 ∧
    f.getD k 0 ≤ ((bumpAll b f (thirdRoundIncrease u c m1 m3) mb mf av).getD k (0, 0)).2 ∧
    ((bumpAll b f (thirdRoundIncrease u c m1 m3) mb mf av).getD k (0, 0)).1
      ≤ max (b.getD k 0) (mb.getD k 0) ∧
    ((bumpAll b f (thirdRoundIncrease u c m1 m3) mb mf av).getD k (0, 0)).2
      ≤ max (f.getD k 0) (mf.getD k 0) + 1e-9 := by
  rw [bumpAll_getD _ _ _ _ _ _ k hk]
  obtain ⟨l1, l2⟩ := bump_never_lowers (b.getD k 0) (f.getD k 0)
    ((thirdRoundIncrease u c m1 m3).getD k 0) (mb.getD k 0) (mf.getD k 0) (av.getD k 0)
  obtain ⟨c1, c2⟩ := bump_within_ceiling (b.getD k 0) (f.getD k 0)
    ((thirdRoundIncrease u c m1 m3).getD k 0) (mb.getD k 0) (mf.getD k 0) (av.getD k 0)
  refine ⟨l1, l2, ?_, ?_⟩
  · rcases c1 with h | h
    · rw [h]; exact le_max_left _ _
    · exact le_trans h (le_max_right _ _)
  · rcases c2 with h | h
    · have := le_max_left (f.getD k 0) (mf.getD k 0)
      linarith
    · have := le_max_right (f.getD k 0) (mf.getD k 0)
      linarith

end Allfed.Proofs
