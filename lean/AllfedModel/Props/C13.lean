import AllfedModel.Proofs.Scenario
/-!
# C13 — scenario options mean what they say and are applied exactly once

The tables (`setters`, `dispatch`, `requiredOptions`, `failRules`, `headColumns`, the herd loader's key
function) are *regenerated from the source on every run* (`Gen/ScenarioTable.lean`); `Model/Scenario.lean`
executes them.  Every theorem below is therefore re-checked against what the code says now.  The
theorems about runs hold for **every** sequence of setter calls, every option dictionary, every
country row and every number type `α` (in particular every ordered field and `Float`).
-/
set_option linter.unusedVariables false
set_option linter.unusedSectionVars false

namespace Allfed.C13
open Allfed.Scenario Allfed.Gen.Scenario

/-! ## 1. facts about the generated tables (`decide`) -/

/-- every setter asserts its family flag(s) clear before anything else happens to a flag, sets exactly
    the flag(s) it asserted, and its family is one `check_all_set` asks for -/
theorem C13_table_wellformed : ∀ i ∈ setters, wfSetter i = true := by decide +kernel

def sameSet (a b : List String) : Bool := a.all (fun x => b.contains x) && b.all (fun x => a.contains x)
def disjointB (a b : List String) : Bool := a.all fun x => !b.contains x

/-- the families partition the setters: two setters guard the same flags or have no flag in common -/
theorem C13_families_partition :
    ∀ a ∈ setters, ∀ b ∈ setters, (sameSet a.family b.family || disjointB a.family b.family) = true := by decide +kernel

/-- `__init__` clears exactly the flags `check_all_set` asks for, no flag twice, every flag has a setter,
    and setter names are unique -/
theorem C13_flags_agree :
    sameSet initFlags allFlags = true ∧ nodupB allFlags = true ∧ nodupB initFlags = true ∧
    (allFlags.all fun f => setters.any fun i => i.family.contains f) = true ∧
    nodupB (setters.map (·.name)) = true := by decide +kernel

/-- the setters called by one option family all belong to one and the same flag family, different option
    families use disjoint flag families, and together they cover `check_all_set` -/
def branchCalls (b : Branch) : List String := b.actions.filterMap fun a => match a with | .call n => some n | _ => none
def branchExits (b : Branch) : Bool := b.actions.any fun a => match a with | .exit => true | _ => false
def callFamily (n : String) : List String := match findSetter n with | some i => i.family | none => []
def itemFamilies : List DispItem → List (List String)
  | [] => []
  | .family _ brs _ :: t =>
    (match brs.find? (fun b => !branchExits b) with
     | some b => (branchCalls b).flatMap callFamily
     | none => []) :: itemFamilies t
  | _ :: t => itemFamilies t
def uniformItem : DispItem → Bool
  | .family _ brs d => d.isNone && brs.all fun b =>
      branchExits b || ((branchCalls b).length == 1 && (branchCalls b).all (fun n => (findSetter n).isSome) &&
        (match brs.find? (fun b => !branchExits b) with
         | some b0 => sameSet ((branchCalls b).flatMap callFamily) ((branchCalls b0).flatMap callFamily)
         | none => false))
  | _ => true

theorem C13_dispatch_covers_every_family :
    dispatch.all uniformItem = true ∧ nodupB (itemFamilies dispatch).flatten = true ∧
    sameSet (itemFamilies dispatch).flatten allFlags = true := by decide +kernel

/-- every option family is asserted present up front, and no family has a catch-all branch -/
theorem C13_every_family_required_no_default :
    (dispatch.all fun it => match it with
      | .family o _ d => requiredOptions.contains o && d.isNone
      | _ => true) = true := by decide +kernel

/-- a known-to-fail patch replaces the value of its option only when that value is one of the option's
    accepted values (so it never hides an unknown value) -/
def ruleOK (r : FailRule) : Bool := dispatch.all fun it => match it with
  | .family o brs _ =>
    if o = r.corrKey then
      (match lookupK o r.conds with
       | some vals => vals.all fun x => (brs.find? fun b => b.value == x).isSome
       | none => false)
    else true
  | _ => true

theorem C13_patch_rules_ok : failRules.all ruleOK = true := by decide +kernel

section
variable {α : Type} [Add α] [Sub α] [Mul α] [Div α] [Neg α] [LE α] [LT α] [DecidableLE α] [DecidableLT α]
  [OfNat α 0] [OfNat α 1] [OfScientific α] [BEq α] [PyNum α]

/-! ## 2. exactly once -/

/-- every family flag that `check_all_set` asks for is guarded by exactly one call of the sequence -/
def ExactlyOnce (seq : List SetterInfo) : Prop := ∀ f ∈ allFlags, (fams seq).count f = 1

theorem wf_of_mem (seq : List SetterInfo) (hs : ∀ i ∈ seq, i ∈ setters) : ∀ i ∈ seq, wfSetter i = true :=
  fun i hi => C13_table_wellformed i (hs i hi)

theorem fams_subset (seq : List SetterInfo) (hs : ∀ i ∈ seq, i ∈ setters) : ∀ f ∈ fams seq, f ∈ allFlags := by
  intro f hf
  simp only [fams, List.mem_flatMap] at hf
  obtain ⟨i, hi, hfi⟩ := hf
  exact (wf_unpack i (wf_of_mem seq hs i hi)).2.2.2.2 f hfi

theorem nodup_of_count_le_one {l : List String} (h : ∀ a, l.count a ≤ 1) : l.Nodup := by
  induction l with
  | nil => exact List.nodup_nil
  | cons x t ih =>
    refine List.nodup_cons.mpr ⟨?_, ih fun a => ?_⟩
    · have := h x
      simp only [List.count_cons_self] at this
      exact List.count_eq_zero.mp (by omega)
    · have := h a
      rw [List.count_cons] at this
      omega

theorem count_eq_one_of_nodup {l : List String} (hn : l.Nodup) {a : String} (ha : a ∈ l) : l.count a = 1 := by
  induction l with
  | nil => cases ha
  | cons x t ih =>
    obtain ⟨hx, ht⟩ := List.nodup_cons.mp hn
    rw [List.count_cons]
    by_cases hxa : x = a
    · subst hxa
      simp [List.count_eq_zero.mpr hx]
    · have : a ∈ t := by
        rcases List.mem_cons.mp ha with h | h
        · exact (hxa h.symm).elim
        · exact h
      simp [hxa, ih ht this]

theorem exactlyOnce_nodup (seq : List SetterInfo) (hs : ∀ i ∈ seq, i ∈ setters) (h : ExactlyOnce seq) :
    (fams seq).Nodup := by
  refine nodup_of_count_le_one fun a => ?_
  by_cases ha : a ∈ fams seq
  · exact Nat.le_of_eq (h a (fams_subset seq hs a ha))
  · rw [List.count_eq_zero.mpr ha]; omega

/-- the flags after a successful run are exactly the families of the setters called, none of them twice -/
theorem C13_flags_of_run (opts : Dict α) (cd : Option (Dict α)) (seq : List SetterInfo) (s : ScState α)
    (hs : ∀ i ∈ seq, i ∈ setters) (h : run opts cd ScState.init seq = .ok s) :
    (fams seq).Nodup ∧ ∀ f, f ∈ s.flags ↔ f ∈ fams seq := by
  obtain ⟨hn, _, hm⟩ := run_ok opts cd seq ScState.init s (wf_of_mem seq hs) h
  exact ⟨hn, fun f => by simpa [ScState.init] using hm f⟩

/-- **exactly once, ⇒**: a run that succeeds and passes `check_all_set` called every family exactly once -/
theorem C13_exactly_once_sound (opts : Dict α) (cd : Option (Dict α)) (seq : List SetterInfo) (s : ScState α)
    (hs : ∀ i ∈ seq, i ∈ setters) (h : run opts cd ScState.init seq = .ok s) (hc : checkAllSet s = true) :
    ExactlyOnce seq := by
  obtain ⟨hn, hm⟩ := C13_flags_of_run opts cd seq s hs h
  intro f hf
  simp only [checkAllSet, List.all_eq_true, decide_eq_true_eq] at hc
  exact count_eq_one_of_nodup hn ((hm f).mp (hc f hf))

/-- when every family occurs exactly once the exactly-once discipline never rejects -/
theorem C13_never_flag_error_when_once (opts : Dict α) (cd : Option (Dict α)) (seq : List SetterInfo)
    (hs : ∀ i ∈ seq, i ∈ setters) (h : ExactlyOnce seq) : ∀ f, run opts cd ScState.init seq ≠ .error (.alreadySet f) :=
  run_noFlagErr opts cd seq ScState.init (wf_of_mem seq hs) (exactlyOnce_nodup seq hs h) (by simp [ScState.init])

/-- **exactly once, ⇐**: if every family occurs exactly once, the run either succeeds with all flags set,
    or stops for a reason that is not the flag discipline (a data precondition: wrong scale, a key or
    a country column that is not there) -/
theorem C13_exactly_once_complete (opts : Dict α) (cd : Option (Dict α)) (seq : List SetterInfo)
    (hs : ∀ i ∈ seq, i ∈ setters) (h : ExactlyOnce seq) :
    (∃ s, run opts cd ScState.init seq = .ok s ∧ checkAllSet s = true) ∨
    (∃ e, run opts cd ScState.init seq = .error e ∧ e.isFlagErr = false) := by
  cases hr : run opts cd ScState.init seq with
  | error e =>
    right
    refine ⟨e, rfl, ?_⟩
    cases e <;> simp [Err.isFlagErr]
    rename_i f
    exact C13_never_flag_error_when_once opts cd seq hs h f hr
  | ok s =>
    left
    refine ⟨s, rfl, ?_⟩
    obtain ⟨_, hm⟩ := C13_flags_of_run opts cd seq s hs hr
    simp only [checkAllSet, List.all_eq_true, decide_eq_true_eq]
    intro f hf
    refine (hm f).mpr ?_
    have := h f hf
    exact List.count_pos_iff.mp (by omega)

/-- **exactly once, ⇔**: for every sequence of setters of the table whose data preconditions hold (the run
    can only be stopped by the flag discipline), `run seq` succeeds and `check_all_set` holds **iff** every
    family occurs exactly once -/
theorem C13_exactly_once (opts : Dict α) (cd : Option (Dict α)) (seq : List SetterInfo)
    (hs : ∀ i ∈ seq, i ∈ setters)
    (hdata : ∀ e, run opts cd ScState.init seq = .error e → e.isFlagErr = true) :
    (∃ s, run opts cd ScState.init seq = .ok s ∧ checkAllSet s = true) ↔ ExactlyOnce seq := by
  constructor
  · rintro ⟨s, h, hc⟩
    exact C13_exactly_once_sound opts cd seq s hs h hc
  · intro h
    rcases C13_exactly_once_complete opts cd seq hs h with h | ⟨e, he, hf⟩
    · exact h
    · rw [hdata e he] at hf; cases hf

/-- a second setter of a family that was already applied is rejected, wherever it comes in the sequence -/
theorem C13_twice_rejected (opts : Dict α) (cd : Option (Dict α)) (pre mid post : List SetterInfo) (a b : SetterInfo)
    (hs : ∀ i ∈ pre ++ a :: mid ++ b :: post, i ∈ setters) (f : String) (ha : f ∈ a.family) (hb : f ∈ b.family) :
    ∃ e, run opts cd ScState.init (pre ++ a :: mid ++ b :: post) = .error e := by
  refine run_dup_rejected opts cd _ ScState.init (wf_of_mem _ hs) fun hn => ?_
  have hfam : fams (pre ++ a :: mid ++ b :: post) = fams pre ++ (a.family ++ (fams mid ++ (b.family ++ fams post))) := by
    simp [fams]
  rw [hfam] at hn
  have h2 := (List.nodup_append.mp hn).2.1
  have h3 := (List.nodup_append.mp h2).2.2
  exact h3 f ha f (List.mem_append_right _ (List.mem_append_left _ hb)) rfl

/-! ## 3. the dispatcher -/

/-- a missing option is rejected by the presence assertions, before the options are copied and before
    any setter is chosen or run (the error does not depend on the country row) -/
theorem C13_missing_rejected (opts : Dict α) (cd : Option (Dict α)) (o : String)
    (ho : o ∈ requiredOptions) (hm : lookupK o opts = none) :
    ∃ o', o' ∈ requiredOptions ∧ lookupK o' opts = none ∧
      setDependingOnOption opts cd = .error (.missing o') ∧ dispatchOptions opts cd = .error (.missing o') := by
  obtain ⟨o', h1, h2, h3⟩ := checkRequired_missing opts requiredOptions o ho hm
  exact ⟨o', h1, h2, by simp [setDependingOnOption, h3, bind, Except.bind],
    by simp [dispatchOptions, h3, bind, Except.bind]⟩

theorem lookupK_mem {β : Type} (k : String) (v : β) (l : List (String × β)) (h : lookupK k l = some v) : (k, v) ∈ l := by
  induction l with
  | nil => simp [lookupK] at h
  | cons p t ih =>
    obtain ⟨k', v'⟩ := p
    simp only [lookupK] at h
    split at h
    · rename_i hk; cases h; subst hk; exact List.mem_cons_self
    · exact List.mem_cons_of_mem _ (ih h)

/-- the copy the dispatcher works on still carries the unknown value -/
theorem unknown_survives_patch (iso : String) (opts copy : Dict α) (o : String) (brs : List Branch)
    (d : Option (List Action)) (v : Val α) (hf : .family o brs d ∈ dispatch) (hv : lookupK o opts = some v)
    (hu : pickBranch v brs = none) (hc : alterOptions iso opts failRules = .ok copy) :
    lookupK o copy = some v := by
  rcases alterOptions_cases iso opts copy failRules hc with rfl | ⟨r, hr, hm, _, rfl⟩
  · exact hv
  · by_cases hk : o = r.corrKey
    · exfalso
      have hok := List.all_eq_true.mp C13_patch_rules_ok r hr
      have := List.all_eq_true.mp hok _ hf
      simp only [hk, if_true] at this
      cases hl : lookupK r.corrKey r.conds with
      | none => simp [hl] at this
      | some vals =>
        simp only [hl, List.all_eq_true] at this
        obtain ⟨v0, hv0, hin⟩ := ruleMatches_mem opts r.conds r.corrKey vals hm (lookupK_mem _ _ _ hl)
        rw [← hk, hv] at hv0
        cases hv0
        cases v <;> simp [valIn] at hin
        rename_i x
        have hx := this x hin
        simp [pickBranch] at hu
        rw [List.find?_eq_none.mpr (by simpa using hu)] at hx
        cases hx
    · rw [lookupK_setKey_ne _ _ _ _ hk]; exact hv

/-- an unknown value of any option family is rejected -/
theorem C13_unknown_rejected (opts : Dict α) (cd : Option (Dict α)) (o : String) (brs : List Branch)
    (d : Option (List Action)) (v : Val α) (hf : .family o brs d ∈ dispatch) (hv : lookupK o opts = some v)
    (hu : pickBranch v brs = none) : ∃ e, setDependingOnOption opts cd = .error e := by
  have hd : d = none := by
    have := List.all_eq_true.mp C13_every_family_required_no_default _ hf
    simp only [Bool.and_eq_true, Option.isNone_iff_eq_none] at this
    exact this.2
  subst hd
  unfold setDependingOnOption
  cases h1 : checkRequired opts requiredOptions with
  | error e => exact ⟨e, by simp [bind, Except.bind]⟩
  | ok _ =>
    cases h2 : isoOf cd with
    | error e => exact ⟨e, by simp [bind, Except.bind]⟩
    | ok iso =>
      cases h3 : alterOptions iso opts failRules with
      | error e => exact ⟨e, by simp [bind, Except.bind, h3]⟩
      | ok copy =>
        obtain ⟨e, he⟩ := execItems_unknown copy cd dispatch ScState.init o brs v hf
          (unknown_survives_patch iso opts copy o brs none v hf hv hu h3) hu
        exact ⟨e, by simpa [bind, Except.bind, h3] using he⟩

/-- … and already while the calls are being chosen: no setter has run -/
theorem C13_unknown_rejected_before_any_setter (opts : Dict α) (cd : Option (Dict α)) (o : String) (brs : List Branch)
    (d : Option (List Action)) (v : Val α) (hf : .family o brs d ∈ dispatch) (hv : lookupK o opts = some v)
    (hu : pickBranch v brs = none) : ∃ e, dispatchOptions opts cd = .error e := by
  have hd : d = none := by
    have := List.all_eq_true.mp C13_every_family_required_no_default _ hf
    simp only [Bool.and_eq_true, Option.isNone_iff_eq_none] at this
    exact this.2
  subst hd
  unfold dispatchOptions
  cases h1 : checkRequired opts requiredOptions with
  | error e => exact ⟨e, by simp [bind, Except.bind]⟩
  | ok _ =>
    cases h2 : isoOf cd with
    | error e => exact ⟨e, by simp [bind, Except.bind]⟩
    | ok iso =>
      cases h3 : alterOptions iso opts failRules with
      | error e => exact ⟨e, by simp [bind, Except.bind, h3]⟩
      | ok copy =>
        obtain ⟨e, he⟩ := planItems_unknown copy dispatch o brs v hf
          (unknown_survives_patch iso opts copy o brs none v hf hv hu h3) hu
        exact ⟨e, by simp [bind, Except.bind, he, h3]⟩

/-- the code interleaves choosing and running; deciding everything first (`dispatchOptions`) and running
    afterwards accepts exactly the same option dictionaries with exactly the same result -/
theorem C13_two_phase (opts : Dict α) (cd : Option (Dict α)) (r : ScState α) :
    setDependingOnOption opts cd = .ok r ↔
      ∃ copy p, dispatchOptions opts cd = .ok (copy, p) ∧ execSteps copy cd ScState.init p = .ok r := by
  unfold setDependingOnOption dispatchOptions
  cases h1 : checkRequired opts requiredOptions with
  | error e => simp [bind, Except.bind]
  | ok _ =>
    cases h2 : isoOf cd with
    | error e => simp [bind, Except.bind]
    | ok iso =>
      cases h3 : alterOptions iso opts failRules with
      | error e => simp [bind, Except.bind, h3]
      | ok copy =>
        simp only [bind, Except.bind, h3]
        rw [execItems_two_phase copy cd dispatch ScState.init r]
        constructor
        · rintro ⟨p, hp, he⟩
          exact ⟨copy, p, by simp [hp, pure, Except.pure], he⟩
        · rintro ⟨copy', p, hp, he⟩
          cases hpl : planItems copy dispatch with
          | error e => simp [hpl] at hp
          | ok p' =>
            simp [hpl, pure, Except.pure] at hp
            obtain ⟨rfl, rfl⟩ := hp
            exact ⟨p', rfl, he⟩

theorem sameSet_mem (a b : List String) (h : sameSet a b = true) (x : String) : x ∈ a ↔ x ∈ b := by
  simp only [sameSet, Bool.and_eq_true, List.all_eq_true, List.contains_eq_mem, decide_eq_true_eq] at h
  exact ⟨h.1 x, h.2 x⟩

theorem branchExits_iff (b : Branch) : branchExits b = true ↔ Action.exit ∈ b.actions := by
  simp only [branchExits, List.any_eq_true]
  constructor
  · rintro ⟨a, ha, h⟩
    cases a <;> simp at h
    exact ha
  · intro h
    exact ⟨.exit, h, rfl⟩

theorem mem_branchCalls (b : Branch) (n : String) : n ∈ branchCalls b ↔ Action.call n ∈ b.actions := by
  simp only [branchCalls, List.mem_filterMap]
  constructor
  · rintro ⟨a, ha, h⟩
    cases a <;> simp at h
    subst h; exact ha
  · intro h
    exact ⟨.call n, h, rfl⟩

theorem mem_itemFamilies (items : List DispItem) (f : String) (h : f ∈ (itemFamilies items).flatten) :
    ∃ o brs d b0, DispItem.family o brs d ∈ items ∧ brs.find? (fun b => !branchExits b) = some b0 ∧
      f ∈ (branchCalls b0).flatMap callFamily := by
  induction items with
  | nil => simp [itemFamilies] at h
  | cons it t ih =>
    cases it with
    | family o brs d =>
      simp only [itemFamilies, List.flatten_cons, List.mem_append] at h
      rcases h with h | h
      · cases hb : brs.find? (fun b => !branchExits b) with
        | none => simp [hb] at h
        | some b0 =>
          simp only [hb] at h
          exact ⟨o, brs, d, b0, List.mem_cons_self, hb, h⟩
      · obtain ⟨o', brs', d', b0, hm, hb, hf⟩ := ih h
        exact ⟨o', brs', d', b0, List.mem_cons_of_mem _ hm, hb, hf⟩
    | stmt st =>
      simp only [itemFamilies] at h
      obtain ⟨o', brs', d', b0, hm, hb, hf⟩ := ih h
      exact ⟨o', brs', d', b0, List.mem_cons_of_mem _ hm, hb, hf⟩
    | override ov =>
      simp only [itemFamilies] at h
      obtain ⟨o', brs', d', b0, hm, hb, hf⟩ := ih h
      exact ⟨o', brs', d', b0, List.mem_cons_of_mem _ hm, hb, hf⟩

/-- **every accepted option dictionary has applied every family**: when `set_depending_on_option` returns,
    `check_all_set` holds — whatever the options, the country row and the overrides were -/
theorem C13_accepted_all_set (opts : Dict α) (cd : Option (Dict α)) (s : ScState α)
    (h : setDependingOnOption opts cd = .ok s) : checkAllSet s = true := by
  unfold setDependingOnOption at h
  obtain ⟨_, _, h⟩ := bind_eq_ok h
  obtain ⟨iso, _, h⟩ := bind_eq_ok h
  obtain ⟨copy, _, h⟩ := bind_eq_ok h
  simp only [checkAllSet, List.all_eq_true, decide_eq_true_eq]
  intro f hf
  obtain ⟨hu, _, hs⟩ := C13_dispatch_covers_every_family
  have hmem := (sameSet_mem _ _ hs f).mpr hf
  obtain ⟨o, brs, d, b0, hm, hb0, hfb0⟩ := mem_itemFamilies dispatch f hmem
  have hd : d = none := by
    have := List.all_eq_true.mp C13_every_family_required_no_default _ hm
    simp only [Bool.and_eq_true, Option.isNone_iff_eq_none] at this
    exact this.2
  subst hd
  obtain ⟨b, hb, hx, hc⟩ := execItems_family copy cd dispatch ScState.init s C13_table_wellformed h o brs hm
  have hun := List.all_eq_true.mp hu _ hm
  simp only [uniformItem, Option.isNone_none, Bool.true_and, List.all_eq_true] at hun
  have hb' := hun b hb
  have hne : branchExits b = false := by
    cases hbe : branchExits b with
    | false => rfl
    | true => exact (hx ((branchExits_iff b).mp hbe)).elim
  simp only [hne, Bool.false_or, Bool.and_eq_true, hb0] at hb'
  have hfb : f ∈ (branchCalls b).flatMap callFamily := (sameSet_mem _ _ hb'.2 f).mpr hfb0
  obtain ⟨n, hn, hfn⟩ := List.mem_flatMap.mp hfb
  obtain ⟨i, hi, hfam⟩ := hc n ((mem_branchCalls b n).mp hn)
  simp only [callFamily, hi] at hfn
  exact hfam f hfn

/-- the known-to-fail patch works on a copy and changes at most the one key its rule names -/
theorem C13_patch_frame (iso : String) (opts copy : Dict α) (h : alterOptions iso opts failRules = .ok copy) :
    copy = opts ∨ ∃ r ∈ failRules, ruleMatches opts r.conds = true ∧ iso = r.iso3 ∧
      ∀ k, k ≠ r.corrKey → lookupK k copy = lookupK k opts := by
  rcases alterOptions_cases iso opts copy failRules h with h | ⟨r, hr, hm, hi, rfl⟩
  · exact Or.inl h
  · exact Or.inr ⟨r, hr, hm, hi, fun k hk => lookupK_setKey_ne _ _ _ _ hk⟩

/-! ## 4. numeric overrides -/

/-- each numeric override changes only the key(s) it names: the flags, the scale and every other constant
    keep their value -/
theorem C13_frame (opts : Dict α) (s s' : ScState α) (ov : Override) (h : applyOverride opts s ov = .ok s') :
    s'.flags = s.flags ∧ s'.scope = s.scope ∧
      ∀ k, touches (ov.names opts) k = false → lookupK k s'.consts = lookupK k s.consts :=
  applyOverride_frame opts s s' ov h

/-- an override whose option is not given does nothing -/
theorem C13_frame_absent (opts : Dict α) (s : ScState α) (key target : String) (lo hi : Lit) (extra targets tries : List String) :
    (lookupK key opts = none → applyOverride opts s (.exact key target lo hi extra) = .ok s) ∧
    (lookupK key opts = none → applyOverride opts s (.mult key lo hi targets tries) = .ok s) :=
  ⟨fun h => applyOverride_absent opts s (.exact key target lo hi extra) h,
   fun h => applyOverride_absent opts s (.mult key lo hi targets tries) h⟩

/-- an accepted single-key override stores the converted value, within its documented range, under its key -/
theorem C13_override_sets_named_key (opts : Dict α) (s s' : ScState α) (key : String) (lo hi : Lit) (v : Val α)
    (hv : lookupK key opts = some v) (h : applyOverride opts s (.exact key key lo hi []) = .ok s') :
    ∃ x, convVal .float v = .ok x ∧ inRange lo hi x = true ∧ lookupK key s'.consts = some (.num x) :=
  applyOverride_exact_sets opts s s' key key lo hi v hv h

/-- a head-count option `k` (any key containing the needle) stores `int(value)` under `k ++ suffix` -/
theorem C13_head_override_writes (s : ScState α) (needle suffix k : String) (v : Val α) (hk : hasSub k needle = true) :
    applyOverride [(k, v)] s (.substr needle suffix .int) =
      (convVal .int v >>= fun x => .ok { s with consts := writeKey (k ++ suffix) (.num x) s.consts }) := by
  simp only [applyOverride, substrWrites, hk, if_true]
  cases convVal Conv.int v <;> rfl

end

/-! ## 5. the head-count override key: option → constants → column of the head-count table -/

/-- for every head-count column of the shipped table: the option of that name is taken up by the dispatcher
    under `<column>_start`, and the herd loader maps that key back to exactly that column -/
def headOK (col : String) : Bool :=
  headConstKey col == some (col ++ "_start") && loaderColumn (col ++ "_start") == some col

theorem head_part1 : (headColumns.take 7).all headOK = true := by decide +kernel
theorem head_part2 : ((headColumns.drop 7).take 7).all headOK = true := by decide +kernel
theorem head_part3 : (headColumns.drop 14).all headOK = true := by decide +kernel

theorem C13_head_override_name :
    ∀ col ∈ headColumns, headConstKey col = some (col ++ "_start") ∧ loaderColumn (col ++ "_start") = some col := by
  intro col hc
  have hsplit : headColumns = headColumns.take 7 ++ ((headColumns.drop 7).take 7 ++ headColumns.drop 14) := by
    decide +kernel
  rw [hsplit] at hc
  have : headOK col = true := by
    rcases List.mem_append.mp hc with h | h
    · exact List.all_eq_true.mp head_part1 col h
    · rcases List.mem_append.mp h with h | h
      · exact List.all_eq_true.mp head_part2 col h
      · exact List.all_eq_true.mp head_part3 col h
  simpa [headOK] using this

/-- the same for every present or future species: any column name ending in `_head` -/
theorem C13_head_override_name_general (p : String) :
    loaderColumn (p ++ "_head" ++ "_start") = some (p ++ "_head") := by
  have h1 : loaderNeedle = "_head_start" := by decide +kernel
  have h2 : (loaderFunction == "removesuffix") = true := by decide +kernel
  have h3 : loaderArg = "_start" := by decide +kernel
  have hl : ("_head" ++ "_start" : String) = "_head_start" := by decide +kernel
  have e : p ++ "_head" ++ "_start" = p ++ "_head_start" ++ "" := by
    rw [String.append_assoc, hl, String.append_empty]
  have hs : hasSub (p ++ "_head" ++ "_start") "_head_start" = true := by
    rw [e]; exact hasSub_append p "_head_start" ""
  unfold loaderColumn
  rw [h1, h2, h3, if_pos hs, if_pos rfl, removeSuffix_append]

/-- nothing but the override writes a key the herd loader would pick up, and the species table, the
    head-count columns and the slaughter columns fit together -/
def noLoaderKey (i : SetterInfo) : Bool := i.writes.all fun p => !hasSub p loaderNeedle
theorem nokey_part1 : (setters.take 1).all noLoaderKey = true := by decide +kernel
theorem nokey_part2 : ((setters.drop 1).take 1).all noLoaderKey = true := by decide +kernel
theorem nokey_part3 : ((setters.drop 2).take 28).all noLoaderKey = true := by decide +kernel
theorem nokey_part4 : (setters.drop 30).all noLoaderKey = true := by decide +kernel

theorem C13_head_keys_only_from_override :
    (∀ i ∈ setters, ∀ p ∈ i.writes, hasSub p loaderNeedle = false) ∧
    (dispatchStmts dispatch).all (fun st => st.writes.all fun p => !hasSub p loaderNeedle) = true ∧
    headColumns = speciesNames.map (· ++ "_head") := by
  refine ⟨?_, by decide +kernel, by decide +kernel⟩
  intro i hi p hp
  have hsplit : setters = setters.take 1 ++ ((setters.drop 1).take 1 ++ ((setters.drop 2).take 28 ++ setters.drop 30)) := by
    decide +kernel
  rw [hsplit] at hi
  have : noLoaderKey i = true := by
    rcases List.mem_append.mp hi with h | h
    · exact List.all_eq_true.mp nokey_part1 i h
    · rcases List.mem_append.mp h with h | h
      · exact List.all_eq_true.mp nokey_part2 i h
      · rcases List.mem_append.mp h with h | h
        · exact List.all_eq_true.mp nokey_part3 i h
        · exact List.all_eq_true.mp nokey_part4 i h
  simpa using List.all_eq_true.mp this p hp

/-- **the defect that was repaired (D4)**: Python's `key.strip("_start")` strips *characters*; for three
    species it does not give the column back -/
theorem C13_strip_counterexample :
    pyStrip "_start" "rabbit_head_start" = "bbit_head" ∧ pyStrip "_start" "turkey_head_start" = "urkey_head" ∧
    pyStrip "_start" "asses_head_start" = "es_head" ∧ removeSuffix "rabbit_head_start" "_start" = "rabbit_head" := by
  decide +kernel

theorem C13_strip_mangles_exactly :
    headColumns.filter (fun col => pyStrip "_start" (col ++ "_start") != col) = ["rabbit_head", "turkey_head", "asses_head"] := by
  decide +kernel

/-! ## 7. non-vacuity -/

/-- a sequence in which every family occurs exactly once (the hypothesis of `C13_exactly_once`) -/
example : ExactlyOnce [s_init_global_food_system_properties, s_set_baseline_stored_food, s_set_stored_food_buffer_zero,
    s_set_immediate_shutoff, s_set_waste_to_zero, s_set_baseline_nutrition_profile, s_set_intake_constraints_to_enabled,
    s_set_no_seasonality, s_set_grasses_baseline, s_set_fish_baseline, s_set_disruption_to_crops_to_zero,
    s_dont_include_protein, s_dont_include_fat, s_cull_animals, s_get_no_resilient_food_scenario,
    s_set_to_baseline_breeding] := by
  unfold ExactlyOnce
  decide +kernel

/-- two setters of one family (the hypothesis of `C13_twice_rejected`) -/
example : "WASTE_SET" ∈ s_set_waste_to_zero.family ∧ "WASTE_SET" ∈ s_set_global_waste_to_doubled_prices.family := by
  decide +kernel

/-- an unknown value (the hypothesis of `C13_unknown_rejected`): README's `no_stored_food_between_years` is
    not a value the dispatcher knows (the code says `no_stored_between_years`) -/
example : ∃ brs d, DispItem.family "ratio_stocks_untouched" brs d ∈ dispatch ∧
    pickBranch (.str "no_stored_food_between_years" : Val Unit) brs = none := by
  refine ⟨_, _, List.mem_of_elem_eq_true (a := DispItem.family "ratio_stocks_untouched" [
      { value := "zero", actions := [.call "set_stored_food_buffer_zero"] },
      { value := "no_stored_between_years", actions := [.call "set_no_stored_food_between_years"] },
      { value := "baseline", actions := [.call "set_stored_food_buffer_as_baseline"] },
      { value := "baseline_no_stored_between_years", actions := [.call "set_stored_food_buffer_as_baseline_and_no_stored_between_years"] }] none)
      (by decide +kernel), by decide +kernel⟩

end Allfed.C13
