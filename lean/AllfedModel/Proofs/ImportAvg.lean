import AllfedModel.Model.ImportAvg
import Mathlib.Algebra.Order.Field.Basic
import Mathlib.Algebra.Order.Field.Rat
import Mathlib.Algebra.BigOperators.Group.List.Basic
import Mathlib.Algebra.Order.BigOperators.Group.List
import Mathlib.Tactic.Linarith
import Mathlib.Tactic.Ring
import Mathlib.Tactic.FieldSimp
import Mathlib.Tactic.NormNum
import Mathlib.Tactic.Positivity
/-!
# Helper lemmas and proofs for the percentage-averaging helper (property C17)

Everything is proved over an arbitrary linearly ordered field `K`, for lists of any length.
-/
namespace Allfed.Proofs.ImportAvg
open Allfed Allfed.ImportAvg

set_option linter.unusedSectionVars false
set_option linter.unusedVariables false

variable {K : Type} [Field K] [LinearOrder K] [IsStrictOrderedRing K]

/-! ## the sums the statements are about -/

/-- `Σ_V pᵢ·wᵢ` over the entries the code treats as valid -/
def vPW (ps ws : List K) : K := ((validPairs ps ws).map (fun x => x.1 * x.2)).sum
/-- `Σ_V wᵢ` -/
def vW (ps ws : List K) : K := ((validPairs ps ws).map Prod.snd).sum
/-- the weight of the rejected entries -/
def rW (ps ws : List K) : K := (((ps.zip ws).filter (fun x => impossible x.1)).map Prod.snd).sum

theorem lsum_eq_sum (l : List K) : lsum l = l.sum := by
  unfold lsum
  have : ∀ (a : K), l.foldl (· + ·) a = a + l.sum := by
    induction l with
    | nil => intro a; simp
    | cons x t ih => intro a; simp only [List.foldl_cons, List.sum_cons]; rw [ih]; ring
  rw [this]; simp

theorem validPairs_cons_valid (p w : K) (ps ws : List K) (h : impossible p = false) :
    validPairs (p :: ps) (w :: ws) = (p, w) :: validPairs ps ws := by
  simp [validPairs, h]

theorem validPairs_cons_imp (p w : K) (ps ws : List K) (h : impossible p = true) :
    validPairs (p :: ps) (w :: ws) = validPairs ps ws := by
  simp [validPairs, h]

theorem vPW_cons_valid (p w : K) (ps ws : List K) (h : impossible p = false) :
    vPW (p :: ps) (w :: ws) = p * w + vPW ps ws := by
  simp [vPW, validPairs_cons_valid p w ps ws h]

theorem vW_cons_valid (p w : K) (ps ws : List K) (h : impossible p = false) :
    vW (p :: ps) (w :: ws) = w + vW ps ws := by
  simp [vW, validPairs_cons_valid p w ps ws h]

theorem rW_cons_valid (p w : K) (ps ws : List K) (h : impossible p = false) :
    rW (p :: ps) (w :: ws) = rW ps ws := by
  simp [rW, h]

theorem vPW_cons_imp (p w : K) (ps ws : List K) (h : impossible p = true) :
    vPW (p :: ps) (w :: ws) = vPW ps ws := by
  simp [vPW, validPairs_cons_imp p w ps ws h]

theorem vW_cons_imp (p w : K) (ps ws : List K) (h : impossible p = true) :
    vW (p :: ps) (w :: ws) = vW ps ws := by
  simp [vW, validPairs_cons_imp p w ps ws h]

theorem rW_cons_imp (p w : K) (ps ws : List K) (h : impossible p = true) :
    rW (p :: ps) (w :: ws) = w + rW ps ws := by
  simp [rW, h]

/-- the weights split into rejected and valid -/
theorem sum_split (ps ws : List K) (hl : ps.length = ws.length) : ws.sum = rW ps ws + vW ps ws := by
  induction ps generalizing ws with
  | nil =>
    cases ws with
    | nil => simp [rW, vW, validPairs]
    | cons w t => simp at hl
  | cons p ps ih =>
    cases ws with
    | nil => simp at hl
    | cons w ws =>
      have hl' : ps.length = ws.length := by simpa using hl
      cases h : impossible p with
      | true => rw [rW_cons_imp p w ps ws h, vW_cons_imp p w ps ws h, List.sum_cons, ih ws hl']; ring
      | false => rw [rW_cons_valid p w ps ws h, vW_cons_valid p w ps ws h, List.sum_cons, ih ws hl']; ring

theorem vW_nonneg (ps ws : List K) (hw : ∀ w ∈ ws, 0 ≤ w ∧ w ≤ 1) : 0 ≤ vW ps ws := by
  unfold vW
  apply List.sum_nonneg
  intro x hx
  rw [List.mem_map] at hx
  obtain ⟨y, hy, rfl⟩ := hx
  unfold validPairs at hy
  have := (List.mem_filter.mp hy).1
  exact (hw y.2 (List.of_mem_zip this).2).1

/-! ## the loop -/

/-- the accumulators after the loop, when no assertion fails -/
def after (ps ws : List K) (a : Acc K) : Acc K :=
  { nValid := a.nValid + (validPairs ps ws).length, mean := a.mean + vPW ps ws,
    rejected := a.rejected + rW ps ws, nonRejected := a.nonRejected + vW ps ws }

theorem loop_nil (a : Acc K) : loop ([] : List K) [] a = .ok a := by
  simp [loop]

theorem loop_cons (p w : K) (ps ws : List K) (a : Acc K) :
    loop (p :: ps) (w :: ws) a =
      if ¬ (0 ≤ w ∧ w ≤ 1) then .error .weightRange
      else if impossible p then loop ps ws { a with rejected := a.rejected + w }
      else loop ps ws { a with nValid := a.nValid + 1, mean := a.mean + p * w, nonRejected := a.nonRejected + w } := by
  simp [loop]

/-- the loop either trips over a weight outside `[0, 1]` or ends with the four sums -/
theorem loop_eq (ps ws : List K) (hl : ps.length = ws.length) (a : Acc K) :
    loop ps ws a = if ∀ w ∈ ws, 0 ≤ w ∧ w ≤ 1 then .ok (after ps ws a) else .error .weightRange := by
  induction ps generalizing ws a with
  | nil =>
    cases ws with
    | nil => simp [loop_nil, after, vPW, vW, rW, validPairs]
    | cons w t => simp at hl
  | cons p ps ih =>
    cases ws with
    | nil => simp at hl
    | cons w ws =>
      have hl' : ps.length = ws.length := by simpa using hl
      rw [loop_cons]
      by_cases hw : 0 ≤ w ∧ w ≤ 1
      · rw [if_neg (not_not.mpr hw)]
        cases h : impossible p with
        | true =>
          simp only [if_true]
          rw [ih ws hl']
          by_cases hall : ∀ w' ∈ ws, 0 ≤ w' ∧ w' ≤ 1
          · have hall' : ∀ w' ∈ w :: ws, 0 ≤ w' ∧ w' ≤ 1 := by
              intro w' hw'
              rcases List.mem_cons.mp hw' with rfl | hm
              · exact hw
              · exact hall w' hm
            rw [if_pos hall, if_pos hall']
            congr 1
            simp only [after, validPairs_cons_imp p w ps ws h, vPW_cons_imp p w ps ws h,
              rW_cons_imp p w ps ws h, vW_cons_imp p w ps ws h]
            congr 1
            ring
          · have hall' : ¬ ∀ w' ∈ w :: ws, 0 ≤ w' ∧ w' ≤ 1 := by
              intro hc
              exact hall (fun w' hm => hc w' (List.mem_cons_of_mem _ hm))
            rw [if_neg hall, if_neg hall']
        | false =>
          simp only [Bool.false_eq_true, if_false]
          rw [ih ws hl']
          by_cases hall : ∀ w' ∈ ws, 0 ≤ w' ∧ w' ≤ 1
          · have hall' : ∀ w' ∈ w :: ws, 0 ≤ w' ∧ w' ≤ 1 := by
              intro w' hw'
              rcases List.mem_cons.mp hw' with rfl | hm
              · exact hw
              · exact hall w' hm
            rw [if_pos hall, if_pos hall']
            congr 1
            simp only [after, validPairs_cons_valid p w ps ws h, vPW_cons_valid p w ps ws h,
              rW_cons_valid p w ps ws h, vW_cons_valid p w ps ws h, List.length_cons]
            congr 1
            · omega
            · ring
            · ring
          · have hall' : ¬ ∀ w' ∈ w :: ws, 0 ≤ w' ∧ w' ≤ 1 := by
              intro hc
              exact hall (fun w' hm => hc w' (List.mem_cons_of_mem _ hm))
            rw [if_neg hall, if_neg hall']
      · rw [if_pos hw]
        have hall' : ¬ ∀ w' ∈ w :: ws, 0 ≤ w' ∧ w' ≤ 1 := by
          intro hc
          exact hw (hc w (by simp))
        rw [if_neg hall']

/-! ## the result -/

theorem vW_zero_of_no_valid (ps ws : List K) (h : (validPairs ps ws).length = 0) : vW ps ws = 0 := by
  have : validPairs ps ws = [] := List.length_eq_zero_iff.mp h
  simp [vW, this]

/-- **the value** — for weights in `[0, 1]` that sum to 1: the weighted mean of the valid entries,
    or the sentinel when the valid entries carry no weight -/
theorem weightedAverage_eq (ps ws : List K) (hl : ps.length = ws.length)
    (hw : ∀ w ∈ ws, 0 ≤ w ∧ w ≤ 1) (hs : ws.sum = 1) :
    weightedAverage ps ws = .ok (if vW ps ws = 0 then sentinel else vPW ps ws / vW ps ws) := by
  unfold weightedAverage
  rw [if_neg (by simpa using hl)]
  have hsum : lsum ws ≤ (1.00001 : K) ∧ (0.99999 : K) < lsum ws := by
    rw [lsum_eq_sum, hs]; constructor <;> norm_num
  rw [if_neg (not_not.mpr hsum)]
  rw [loop_eq ps ws hl, if_pos hw]
  simp only [after, zero_add]
  have hsplit := sum_split ps ws hl
  rw [hs] at hsplit
  have hren : (1 : K) - rW ps ws = vW ps ws := by linarith
  unfold finish
  simp only
  by_cases hn : (validPairs ps ws).length = 0
  · rw [if_pos hn, if_pos (vW_zero_of_no_valid ps ws hn)]
  · rw [if_neg hn, hren]
    by_cases hz : vW ps ws = 0
    · rw [if_pos hz, if_pos (by rw [hz]; exact Or.inl ⟨le_refl _, le_refl _⟩)]
    · have hpos : 0 < vW ps ws := lt_of_le_of_ne (vW_nonneg ps ws hw) (Ne.symm hz)
      rw [if_neg hz, if_neg (by
        intro hc
        rcases hc with hc | hc <;> exact absurd hc.1 (not_le.mpr hpos))]
      have hone : vW ps ws / vW ps ws = 1 := div_self hz
      rw [hone, if_neg (by norm_num)]

/-- weighted sums of bounded values with non-negative weights -/
theorem pw_bounds (l : List (K × K)) (lo hi : K) (hw : ∀ x ∈ l, 0 ≤ x.2) (hb : ∀ x ∈ l, lo ≤ x.1 ∧ x.1 ≤ hi) :
    lo * (l.map Prod.snd).sum ≤ (l.map (fun x => x.1 * x.2)).sum ∧
    (l.map (fun x => x.1 * x.2)).sum ≤ hi * (l.map Prod.snd).sum := by
  induction l with
  | nil => simp
  | cons x t ih =>
    simp only [List.map_cons, List.sum_cons]
    obtain ⟨i1, i2⟩ := ih (fun y hy => hw y (by simp [hy])) (fun y hy => hb y (by simp [hy]))
    have h0 := hw x (by simp)
    obtain ⟨b1, b2⟩ := hb x (by simp)
    have e1 : lo * x.2 ≤ x.1 * x.2 := mul_le_mul_of_nonneg_right b1 h0
    have e2 : x.1 * x.2 ≤ hi * x.2 := mul_le_mul_of_nonneg_right b2 h0
    constructor <;> nlinarith

/-- **the range** — the result lies between any two bounds of the valid percentages -/
theorem weightedAverage_range (ps ws : List K) (hw : ∀ w ∈ ws, 0 ≤ w ∧ w ≤ 1) (hpos : 0 < vW ps ws)
    (lo hi : K) (hb : ∀ p ∈ ps, impossible p = false → lo ≤ p ∧ p ≤ hi) :
    lo ≤ vPW ps ws / vW ps ws ∧ vPW ps ws / vW ps ws ≤ hi := by
  have hmem : ∀ x ∈ validPairs ps ws, x.1 ∈ ps ∧ x.2 ∈ ws ∧ impossible x.1 = false := by
    intro x hx
    unfold validPairs at hx
    obtain ⟨hz, hv⟩ := List.mem_filter.mp hx
    have := List.of_mem_zip hz
    exact ⟨this.1, this.2, by simpa using hv⟩
  obtain ⟨b1, b2⟩ := pw_bounds (validPairs ps ws) lo hi
    (fun x hx => (hw x.2 (hmem x hx).2.1).1) (fun x hx => hb x.1 (hmem x hx).1 (hmem x hx).2.2)
  unfold vPW vW at *
  constructor
  · rw [le_div_iff₀ hpos]; exact b1
  · rw [div_le_iff₀ hpos]; exact b2

/-- a non-empty list has a least and a greatest element -/
theorem exists_min_max (l : List K) (hne : l ≠ []) :
    (∃ m ∈ l, ∀ x ∈ l, m ≤ x) ∧ (∃ M ∈ l, ∀ x ∈ l, x ≤ M) := by
  induction l with
  | nil => exact absurd rfl hne
  | cons a t ih =>
    by_cases ht : t = []
    · subst ht
      exact ⟨⟨a, by simp, by simp⟩, ⟨a, by simp, by simp⟩⟩
    · obtain ⟨⟨m, hm, hmin⟩, ⟨M, hM, hmax⟩⟩ := ih ht
      constructor
      · by_cases h : a ≤ m
        · exact ⟨a, by simp, fun x hx => by
            rcases List.mem_cons.mp hx with rfl | hx
            · exact le_refl _
            · exact le_trans h (hmin x hx)⟩
        · exact ⟨m, by simp [hm], fun x hx => by
            rcases List.mem_cons.mp hx with rfl | hx
            · exact (not_le.mp h).le
            · exact hmin x hx⟩
      · by_cases h : M ≤ a
        · exact ⟨a, by simp, fun x hx => by
            rcases List.mem_cons.mp hx with rfl | hx
            · exact le_refl _
            · exact le_trans (hmax x hx) h⟩
        · exact ⟨M, by simp [hM], fun x hx => by
            rcases List.mem_cons.mp hx with rfl | hx
            · exact (not_le.mp h).le
            · exact hmax x hx⟩

/-- the range in min/max form: the result lies between the least and the greatest valid percentage -/
theorem weightedAverage_min_max (ps ws : List K) (hw : ∀ w ∈ ws, 0 ≤ w ∧ w ≤ 1) (hpos : 0 < vW ps ws) :
    ∃ pmin ∈ ps.filter (fun p => !impossible p), ∃ pmax ∈ ps.filter (fun p => !impossible p),
      (∀ p ∈ ps.filter (fun p => !impossible p), pmin ≤ p ∧ p ≤ pmax) ∧
      pmin ≤ vPW ps ws / vW ps ws ∧ vPW ps ws / vW ps ws ≤ pmax := by
  have hne : ps.filter (fun p => !impossible p) ≠ [] := by
    intro hnil
    have hv : validPairs ps ws = [] := by
      unfold validPairs
      rw [List.filter_eq_nil_iff]
      intro x hx
      have hp := (List.of_mem_zip hx).1
      have : x.1 ∉ ps.filter (fun p => !impossible p) := by rw [hnil]; simp
      intro hc
      exact this (List.mem_filter.mpr ⟨hp, hc⟩)
    have : vW ps ws = 0 := by simp [vW, hv]
    rw [this] at hpos
    exact lt_irrefl _ hpos
  obtain ⟨⟨m, hm, hmin⟩, ⟨M, hM, hmax⟩⟩ := exists_min_max _ hne
  refine ⟨m, hm, M, hM, fun p hp => ⟨hmin p hp, hmax p hp⟩, ?_⟩
  apply weightedAverage_range ps ws hw hpos m M
  intro p hp hv
  have : p ∈ ps.filter (fun p => !impossible p) := List.mem_filter.mpr ⟨hp, by simp [hv]⟩
  exact ⟨hmin p this, hmax p this⟩

/-- **as written**, without assuming that the weights sum to exactly 1: a returned value is the
    sentinel or `Σ_V p·w / (1 − rejected weight)`, and then the valid weight is within `1e-4`
    (relative) of that divisor -/
theorem weightedAverage_as_written (ps ws : List K) (v : K) (h : weightedAverage ps ws = .ok v) :
    ps.length = ws.length ∧ (∀ w ∈ ws, 0 ≤ w ∧ w ≤ 1) ∧
    (v = sentinel ∨
      (v = vPW ps ws / (1 - rW ps ws) ∧ (0.9999 : K) ≤ vW ps ws / (1 - rW ps ws) ∧
        vW ps ws / (1 - rW ps ws) ≤ (1.0001 : K))) := by
  unfold weightedAverage at h
  by_cases hl : ps.length = ws.length
  · rw [if_neg (by simpa using hl)] at h
    by_cases hsum : lsum ws ≤ (1.00001 : K) ∧ (0.99999 : K) < lsum ws
    · rw [if_neg (not_not.mpr hsum), loop_eq ps ws hl] at h
      by_cases hw : ∀ w ∈ ws, 0 ≤ w ∧ w ≤ 1
      · rw [if_pos hw] at h
        refine ⟨hl, hw, ?_⟩
        simp only [after, zero_add] at h
        unfold finish at h
        simp only at h
        by_cases hn : (validPairs ps ws).length = 0
        · rw [if_pos hn] at h
          left; exact (Except.ok.inj h).symm
        · rw [if_neg hn] at h
          by_cases hz : ((1 : K) - rW ps ws ≤ 0 ∧ 0 ≤ (1 : K) - rW ps ws) ∨ (vW ps ws ≤ 0 ∧ 0 ≤ vW ps ws)
          · rw [if_pos hz] at h
            left; exact (Except.ok.inj h).symm
          · rw [if_neg hz] at h
            by_cases hc : (0.9999 : K) ≤ vW ps ws / (1 - rW ps ws) ∧ vW ps ws / (1 - rW ps ws) ≤ (1.0001 : K)
            · rw [if_neg (not_not.mpr hc)] at h
              right; exact ⟨(Except.ok.inj h).symm, hc.1, hc.2⟩
            · rw [if_pos hc] at h
              cases h
      · rw [if_neg hw] at h
        cases h
    · rw [if_pos hsum] at h
      cases h
  · rw [if_pos (by simpa using hl)] at h
    cases h

/-- the sentinel is itself an impossible percentage ("if only non-possible numbers are included,
    the result is a non-possible number") -/
theorem sentinel_impossible : impossible (sentinel : K) = true := by
  unfold impossible sentinel
  have : (1e5 : K) < 9.37e36 := by norm_num
  simp [this]

/-! ## even weights (`average_percentages`) -/

theorem zip_replicate (ps : List K) (c : K) : ps.zip (List.replicate ps.length c) = ps.map (fun p => (p, c)) := by
  induction ps with
  | nil => simp
  | cons p t ih => simp [List.replicate_succ, ih]

theorem validPairs_even (ps : List K) (c : K) :
    validPairs ps (List.replicate ps.length c) = (ps.filter (fun p => !impossible p)).map (fun p => (p, c)) := by
  unfold validPairs
  rw [zip_replicate, List.filter_map]
  rfl

theorem sum_map_mul_const (l : List K) (c : K) : (l.map (fun p => p * c)).sum = l.sum * c := by
  induction l with
  | nil => simp
  | cons a t ih => simp only [List.map_cons, List.sum_cons, ih]; ring

theorem averagePercentages_eq (ps : List K) (hne : ps ≠ []) :
    averagePercentages ps = .ok
      (if ps.filter (fun p => !impossible p) = [] then sentinel
       else (ps.filter (fun p => !impossible p)).sum / ((ps.filter (fun p => !impossible p)).length : K)) := by
  have hlen : ps.length ≠ 0 := by
    intro h; exact hne (List.length_eq_zero_iff.mp h)
  have hn : (0 : K) < (ps.length : K) := by
    have : 0 < ps.length := Nat.pos_of_ne_zero hlen
    exact_mod_cast this
  have hn1 : (1 : K) ≤ (ps.length : K) := by
    have : 1 ≤ ps.length := Nat.pos_of_ne_zero hlen
    exact_mod_cast this
  set c : K := 1 / (ps.length : K) with hc
  have hcpos : 0 < c := by rw [hc]; positivity
  have hsum : (List.replicate ps.length c).sum = 1 := by
    rw [List.sum_replicate, nsmul_eq_mul, hc]
    field_simp
  have hw : ∀ w ∈ List.replicate ps.length c, 0 ≤ w ∧ w ≤ 1 := by
    intro w hw
    rw [List.mem_replicate] at hw
    rw [hw.2]
    refine ⟨hcpos.le, ?_⟩
    rw [hc, div_le_one hn]
    exact hn1
  unfold averagePercentages
  rw [if_neg hlen]
  simp only
  have hev : (0.999999995 : K) ≤ lsum (List.replicate ps.length c) ∧ lsum (List.replicate ps.length c) ≤ (1.000000005 : K) := by
    rw [lsum_eq_sum, hsum]; constructor <;> norm_num
  rw [if_neg (not_not.mpr hev)]
  rw [weightedAverage_eq ps _ (by simp) hw hsum]
  congr 1
  set V := ps.filter (fun p => !impossible p) with hV
  have hvw : vW ps (List.replicate ps.length c) = (V.length : K) * c := by
    unfold vW
    rw [validPairs_even]
    simp [List.map_map, Function.comp_def, List.sum_replicate, nsmul_eq_mul, ← hV]
  have hvpw : vPW ps (List.replicate ps.length c) = V.sum * c := by
    unfold vPW
    rw [validPairs_even]
    simp only [List.map_map, Function.comp_def, ← hV]
    exact sum_map_mul_const V c
  rw [hvw, hvpw]
  by_cases hv : V = []
  · simp [hv]
  · have hvl : (0 : K) < (V.length : K) := by
      have : 0 < V.length := List.length_pos_iff.mpr hv
      exact_mod_cast this
    rw [if_neg hv, if_neg (by positivity)]
    field_simp

end Allfed.Proofs.ImportAvg
