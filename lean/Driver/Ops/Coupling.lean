import AllfedModel.Model.Coupling
import Driver.Wire
open Wire Allfed.Coupling

namespace Ops.Coupling

def herdP : P (Herd Float) := do
  let t ← str; let s ← str; let sl ← floats; let pop ← floats
  pure ⟨t, s, sl, pop⟩

/-- coupling.meat nmonths kChicken kPig kSmall kMedium kLarge wasteDist nherds (type size slaughter pop)*
    → code-shaped series, spec series, then the class index of each herd (9 = falls through) -/
def meatOp : P String := do
  let n ← nat
  let kc ← float; let kp ← float; let ks ← float; let km ← float; let kl ← float; let wd ← float
  let herds ← list herdP
  let k : PerHead Float := ⟨kc, kp, ks, km, kl⟩
  let code := (List.range n).map (meatMonth herds k wd)
  let spec := (List.range n).map (meatSpec herds k wd)
  let cls := herds.map fun h => match classOf h.animalType h.animalSize with
    | some .chicken => "0" | some .pig => "1" | some .small => "2" | some .medium => "3" | some .large => "4" | none => "9"
  pure (outFs code ++ " " ++ outFs spec ++ " " ++ outL id cls)

/-- coupling.milk nmonths yield milkKcals wasteDist wasteRetail nherds (type size slaughter pop)* → milk series, milking herd -/
def milkOp : P String := do
  let n ← nat
  let y ← float; let mk ← float; let wd ← float; let wr ← float
  let herds ← list herdP
  let flags := herds.map fun h => isMilk h.animalType
  let pop := (List.range n).map (milkingHerd herds flags)
  pure (outFs (pop.map fun p => milkMonth p y mk wd wr) ++ " " ++ outFs pop)

/-- coupling.perhead kgChicken kgPig hasOverride kgLarge → the five per-head yields -/
def perHeadOp : P String := do
  let kc ← float; let kp ← float; let has ← bool; let kl ← float
  let k := perHeadOf kc kp (if has then some kl else none)
  pure (outFs [k.chicken, k.pig, k.small, k.medium, k.large])

def ops : List (String × P String) := [("coupling.meat", meatOp), ("coupling.milk", milkOp), ("coupling.perhead", perHeadOp)]

end Ops.Coupling
