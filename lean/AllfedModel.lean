-- root of the library: every property file (and through them every model and proof file)
import AllfedModel.Props.C10
import AllfedModel.Props.C18
import AllfedModel.Props.C11
import AllfedModel.Props.C06
import AllfedModel.Props.C07
import AllfedModel.Props.C15
import AllfedModel.Props.C17
import AllfedModel.Props.C01
import AllfedModel.Props.C02
import AllfedModel.Props.C03
import AllfedModel.Props.C04
import AllfedModel.Props.C05
import AllfedModel.Props.C12
import AllfedModel.Props.C14
import AllfedModel.Props.C08
import AllfedModel.Props.C09
import AllfedModel.Props.C13
