import AllfedModel.Num.Basic
/-
Model of the monthly supply series handed to the optimiser (properties C08, C09):

  * `src/food_system/outdoor_crops.py`    -> `monthsCycle`, `year1Ratio`, `allMonthsReductions`,
                                             `assignReduction`, `areaRamp`, `cropProduction`
  * `src/food_system/greenhouses.py`      -> `ghAreaList`, `ghKcalsPerHa`, `greenhouse`
  * `src/optimizer/parameters.py`         -> `cropsAndGreenhouses`  (`init_outdoor_crops` + `init_greenhouse_params`)
  * `src/food_system/seafood.py`          -> `fishSeries`;  `scenarios.set_fish_*` -> `fishPercent*`
  * `src/food_system/meat_and_dairy.py`   -> `grassSeries`  (`human_inedible_feed`)
  * `src/food_system/feed_and_biofuels.py`-> `demandSeries`
  * `src/food_system/methane_scp.py`      -> `scpSeries`
  * `src/food_system/cellulosic_sugar.py` -> `csSeries`
  * `src/food_system/seaweed.py`          -> `seaweedBuiltArea`, `seaweedGrowth`
  * `src/food_system/stored_food.py`      -> `storedFood`

Every function is written the way the code is written (concatenations, slices, `linspace`, loops
that write into arrays).  Next to each there is a closed-form, pointwise `…Spec` written from the
documentation; `Proofs/Supply.lean` proves that the two agree for every horizon.

`pow` (Python's `**` with a real exponent) has no field counterpart and is a parameter.
-/
namespace Allfed.Supply
open Allfed

section
variable {α : Type} [Add α] [Sub α] [Mul α] [Div α] [Neg α] [LE α] [LT α]
  [DecidableLE α] [DecidableLT α] [OfNat α 0] [OfNat α 1] [OfScientific α] [NatCast α]

/-! ## numpy helpers -/

/-- `np.linspace(a, b, n)`: `arange(n) * step + a` with `step = (b - a)/(n - 1)`, last entry set to `b`
    (for `n = 1` numpy multiplies by `delta` instead of the undefined step). -/
def linspace (a b : α) (n : Nat) : List α :=
  let step := (b - a) / ((n - 1 : Nat) : α)
  (List.range n).map fun (k : Nat) =>
    if 1 < n then (if k + 1 = n then b else (k : α) * step + a)
    else (k : α) * (b - a) + a   -- numpy: `div = 0` -> `y = arange(n) * delta + start`

/-- `np.linspace(a, b, n, endpoint=False)` -/
def linspaceOpen (a b : α) (n : Nat) : List α :=
  let step := (b - a) / (n : α)
  (List.range n).map fun (k : Nat) => (k : α) * step + a

/-- integer power by repeated multiplication (`x ** 30`) -/
def npow (x : α) : Nat → α
  | 0 => 1
  | n + 1 => npow x n * x

/-- `Except`-valued loop body applied to every element (a `for` loop that may `assert`) -/
def mapE {β γ : Type} (f : β → Except String γ) : List β → Except String (List γ)
  | [] => .ok []
  | x :: t =>
    match f x with
    | .error e => .error e
    | .ok y =>
      match mapE f t with
      | .error e => .error e
      | .ok ys => .ok (y :: ys)

/-! ## outdoor crops (`outdoor_crops.py`) -/

structure CropIn (α : Type) where
  nmonths : Nat
  /-- `STARTING_MONTH_NUM` (1 = January … 12 = December; the pipeline passes 5) -/
  startMonth : Nat
  /-- `BASELINE_CROP_KCALS` -/
  baseline : α
  /-- `SEASONALITY`, January first -/
  season : List α
  /-- `RATIO_CROPS_YEAR1 … YEAR10` -/
  ratios : List α
  country : String
  addOutdoor : Bool
  /-- `OG_USE_BETTER_ROTATION` -/
  relocation : Bool
  /-- `ROTATION_IMPROVEMENTS.POWER_LAW_IMPROVEMENT` -/
  exponent : α
  /-- `RATIO_INCREASED_CROP_AREA` -/
  ratioArea : α
  /-- `NUMBER_YEARS_TAKES_TO_REACH_INCREASED_AREA` -/
  yearsToReach : Nat
  /-- `INITIAL_HARVEST_DURATION_IN_MONTHS` -/
  harvestDuration : Nat
  /-- `DELAY.ROTATION_CHANGE_IN_MONTHS` -/
  rotationDelay : Nat
  /-- `WASTE_DISTRIBUTION.CROPS` (percent) -/
  waste : α

/-- `SEED_PERCENT = 100 * (92 / 3898)` -/
def seedPercent : α := 100.0 * (92.0 / 3898.0)

/-- `ANNUAL_YIELD = BASELINE_CROP_KCALS * (1 - SEED_PERCENT / 100)` -/
def annualYield (baseline : α) : α := baseline * (1 - seedPercent / 100.0)

/-- `X_KCALS_OG = X_FRACTION * ANNUAL_YIELD * 4e6 / 1e9` for the twelve calendar months, January first -/
def monthsFromJanuary (baseline : α) (season : List α) : List α :=
  (season.take 12).map fun f => f * annualYield baseline * 4e6 / 1e9

/-- `month_cycle_starting_january[month_index:] + month_cycle_starting_january[0:month_index]` -/
def monthsCycle (startMonth : Nat) (baseline : α) (season : List α) : List α :=
  let jan := monthsFromJanuary baseline season
  let mi := startMonth - 1
  jan.drop mi ++ jan.take mi

/-- the country switch of `get_year_1_ratio_using_fraction_harvest_before_may` -/
def harvestBeforeMay (country : String) (season : List α) : α :=
  if country = "ZAF" then 1
  else if country = "JPN" then 0
  else if country = "PRK" then 0
  else if country = "KOR" then 0
  else lsum (season.take 4)

/-- `get_year_1_ratio_using_fraction_harvest_before_may` -/
def year1Ratio (r1 : α) (season : List α) (country : String) : Except String α :=
  let hb := harvestBeforeMay country season
  let afterNW0 := r1 - hb
  let r1' := if r1 < 0 then 0 else r1
  if ¬ (r1' < 101.0) then .error "assert" else
  let afterNW := if afterNW0 < 0 then 0 else afterNW0
  if 0 < afterNW then
    let after := 1 - hb
    if ¬ (0 ≤ after) then .error "assert"
    else if ¬ (after ≤ 1) then .error "assert"
    else if after < 0.25 then .ok 1
    else .ok (afterNW / after)
  else .ok 0

/-- `all_months_reductions`: 8 months of year 1, twelve of each of the years 2…9 (a 13-point
    `linspace` without its last point), sixteen of year 10 (17 points without the last).
    `r k` is `RATIO_CROPS_YEAR(k+1)`. -/
def allMonthsReductions (y1 : α) (r : Nat → α) : List α :=
  linspace y1 y1 8
  ++ (List.range 8).flatMap (fun k => (linspace (r (k + 1)) (r (k + 1)) 13).dropLast)
  ++ (linspace (r 9) (r 9) (13 + 4)).dropLast

/-- "if there's some very small negative value here, just round it off to zero"
    (`round(x, 8)` for `x ≤ 0`), followed by `assert baseline_reduction >= 0` -/
def clampTiny (x : α) : Except String α :=
  let x' := if x ≤ 0 then (if -(5e-9) < x then 0 else x) else x
  if 0 ≤ x' then .ok x' else .error "assert"

/-- the relocation response: `x` above one, `x ** e` otherwise -/
def relocGain (pow : α → α → α) (e x : α) : α := if 1 < x then x else pow x e

/-- one pass of the loop of `assign_reduction_from_climate_impact`:
    `(KCALS_GROWN[i], NO_RELOCATION_KCALS_GROWN[i])` -/
def monthGrown (pow : α → α → α) (cycle reductions : List α) (e : α) (i : Nat) : Except String (α × α) :=
  let month := cycle.getD (i % 12) 0
  match reductions[i]? with
  | none => .error "index-error"
  | some red0 =>
    match clampTiny red0 with
    | .error s => .error s
    | .ok red =>
      let g := if 1 < red then month * red else month * pow red e
      let nr := month * red
      -- "ERROR: Relocation has somehow decreased crop production!"
      if nr ≤ g then .ok (g, nr) else .error "assert"

/-- `assign_reduction_from_climate_impact` -/
def assignReduction (pow : α → α → α) (n : Nat) (cycle reductions : List α) (e : α) :
    Except String (List α × List α) :=
  match mapE (monthGrown pow cycle reductions e) (List.range n) with
  | .error s => .error s
  | .ok l => .ok (l.map (·.1), l.map (·.2))

/-- the array `linspace` of `assign_increase_from_increased_cultivated_area`:
    ones; a loop writing `1 + (i - N)·increment` for `N ≤ i < total_months`; `max_value` from
    `total_months` on. -/
def areaRamp (n N total : Nat) (maxv : α) : Except String (List α) :=
  if total = N then .error "zero-division"
  else if N < total ∧ n < total then .error "index-error"
  else
    let inc := (maxv - 1) / ((total : α) - (N : α))
    let l0 := List.replicate n (1 : α)
    let l1 := (List.range' N (total - N)).foldl
      (fun l i => l.set i (1 + ((i - N : Nat) : α) * inc)) l0
    .ok (l1.take total ++ List.replicate (n - total) maxv)

/-- `set_crop_production_minus_greenhouse_area` (after the `fix:` commits for D1 and D2):
    the slices `[:hd]` / `[hd:]` of the relocation branch, `(1 - greenhouse fraction)` in both
    branches, then the distribution waste. -/
def cropProduction (c : CropIn α) (grown noReloc ghf : List α) : List α :=
  let produced :=
    if c.addOutdoor then
      if c.relocation then
        let hd := c.harvestDuration + c.rotationDelay
        List.zipWith (· * ·) (noReloc.take hd) ((ghf.take hd).map (1 - ·))
        ++ List.zipWith (· * ·) (grown.drop hd) ((ghf.drop hd).map (1 - ·))
      else List.zipWith (· * ·) noReloc (ghf.map (1 - ·))
    else List.replicate c.nmonths 0
  produced.map (· * (1 - c.waste / 100.0))

/-- what `calculate_rotation_ratios` + `calculate_monthly_production` leave on the object -/
structure CropState (α : Type) where
  cycle : List α
  reductions : List α
  /-- `OG_KCAL_EXPONENT` -/
  e : α
  grown : List α
  noReloc : List α

def ratioAt (ratios : List α) (k : Nat) : α := ratios.getD k 0

/-- `calculate_monthly_production` -/
def monthlyProduction (pow : α → α → α) (c : CropIn α) : Except String (CropState α) :=
  if c.season.length < 12 then .error "index-error"
  else if c.ratios.length < 10 then .error "key-error"
  else
    let s := lsum (c.season.take 12)
    -- `assert (SUM < 1.001 and SUM > 0.999) or SUM == 0`
    if ¬ ((s < 1.001 ∧ 0.999 < s) ∨ (s ≤ 0 ∧ 0 ≤ s)) then .error "assert"
    else
      match year1Ratio (ratioAt c.ratios 0) c.season c.country with
      | .error s => .error s
      | .ok y1 =>
        let reductions := allMonthsReductions y1 (ratioAt c.ratios)
        let cycle := monthsCycle c.startMonth c.baseline c.season
        let e : α := if c.relocation then c.exponent else 1
        match assignReduction pow c.nmonths cycle reductions e with
        | .error s => .error s
        | .ok (grown, noReloc) =>
          if 1 < c.ratioArea then
            match areaRamp c.nmonths c.harvestDuration (c.yearsToReach * 12) c.ratioArea with
            | .error s => .error s
            | .ok ramp => .ok ⟨cycle, reductions, e, List.zipWith (· * ·) grown ramp, noReloc⟩
          else .ok ⟨cycle, reductions, e, grown, noReloc⟩

/-! ## greenhouses (`greenhouses.py`) -/

structure GhIn (α : Type) where
  addGreenhouses : Bool
  /-- `INITIAL_GLOBAL_CROP_AREA` -/
  globalCropArea : α
  /-- `INITIAL_CROP_AREA_FRACTION` -/
  cropAreaFraction : α
  /-- `DELAY.GREENHOUSE_MONTHS` -/
  delay : Nat
  /-- `GREENHOUSE_AREA_MULTIPLIER` -/
  areaMultiplier : α
  /-- `GREENHOUSE_GAIN_PCT` -/
  gainPct : α
  /-- `WASTE_RETAIL` -/
  wasteRetail : α

/-- the four `linspace` pieces of `get_greenhouse_area`, cut to `NMONTHS` -/
def ghAreaList (n lenGrown delay : Nat) (limit : α) : List α :=
  (linspace 0 0 delay ++ linspace 0 0 5 ++ linspace 0 limit 37
    ++ linspace limit limit (lenGrown - 42)).take n

/-- one pass of the loop of `assign_productivity_reduction_from_climate_impact` -/
def ghMonth (pow : α → α → α) (monthly : α) (reductions : List α) (e : α) (i : Nat) : Except String α :=
  match reductions[i]? with
  | none => .error "index-error"
  | some red0 =>
    match clampTiny red0 with
    | .error s => .error s
    | .ok red =>
      let g := if 1 < red then monthly * red else monthly * pow red e
      if monthly * red ≤ g then .ok g else .error "assert"

structure GhOut (α : Type) where
  area : List α
  fraction : List α
  /-- kcals per hectare (`get_greenhouse_yield_per_ha`) -/
  yieldPerHa : List α
  /-- `time_consts["greenhouse_crops"].kcals` -/
  crops : List α

/-- `Greenhouses.__init__`, `get_greenhouse_area`, `get_greenhouse_yield_per_ha` and the
    product of `init_greenhouse_params`.  `st = none` when `calculate_monthly_production`
    was not run (neither outdoor growing nor greenhouses). -/
def greenhouse (pow : α → α → α) (n : Nat) (g : GhIn α) (cropWaste : α) (st : Option (CropState α)) :
    Except String (GhOut α) :=
  let total := g.globalCropArea * g.cropAreaFraction
  let zeros := List.replicate n (0 : α)
  if total ≤ 0 ∧ 0 ≤ total then
    -- `TOTAL_CROP_AREA == 0`
    if g.cropAreaFraction ≤ 0 ∧ 0 ≤ g.cropAreaFraction then .ok ⟨zeros, zeros, zeros, zeros⟩
    else .error "assert"
  else if g.addGreenhouses then
    match st with
    | none => .error "attribute-error"
    | some st =>
      if st.grown.length < 42 then .error "assert"
      else
        let limit := total * g.areaMultiplier
        let area := ghAreaList n st.grown.length g.delay limit
        let coef := (1 - cropWaste / 100.0) * (1 - g.wasteRetail / 100.0)
        if ¬ (0 < total) then .error "assert"
        else if st.reductions.length < n then .error "assert"
        else
          let monthly := (lsum st.cycle / 12.0) / total
          match mapE (ghMonth pow monthly st.reductions st.e) (List.range n) with
          | .error s => .error s
          | .ok before =>
            let perHa := before.map (coef * ·)
            let yld := (perHa.map fun k => k * 1 * (1 + g.gainPct / 100.0)).take n
            let fraction := area.map (· / total)
            .ok ⟨area, fraction, yld, List.zipWith (· * ·) yld area⟩
  else .ok ⟨zeros, zeros.map (· / total), zeros, zeros⟩

structure CropsOut (α : Type) where
  grown : List α
  noReloc : List α
  gh : GhOut α
  /-- `time_consts["outdoor_crops"].production.kcals` -/
  production : List α

/-- `init_outdoor_crops` followed by `init_greenhouse_params` of `parameters.py` -/
def cropsAndGreenhouses (pow : α → α → α) (c : CropIn α) (g : GhIn α) : Except String (CropsOut α) :=
  let stE : Except String (Option (CropState α)) :=
    if c.addOutdoor ∨ g.addGreenhouses then
      match monthlyProduction pow c with
      | .error s => .error s
      | .ok st => .ok (some st)
    else .ok none
  match stE with
  | .error s => .error s
  | .ok st =>
    match greenhouse pow c.nmonths g c.waste st with
    | .error s => .error s
    | .ok gh =>
      let grown := match st with | some s => s.grown | none => []
      let noReloc := match st with | some s => s.noReloc | none => []
      if c.addOutdoor ∧ gh.fraction.length ≠ c.nmonths then .error "shape"
      else .ok ⟨grown, noReloc, gh, cropProduction c grown noReloc gh.fraction⟩

/-! ### closed-form specification of the crop and greenhouse series -/

/-- calendar-month kcals of simulated month `i`: annual baseline net of seed × the seasonality share
    of calendar month `(start − 1 + i) mod 12`, in billion kcals -/
def monthSpec (c : CropIn α) (i : Nat) : α :=
  c.season.getD ((c.startMonth - 1 + i) % 12) 0 * annualYield c.baseline * 4e6 / 1e9

/-- the year-1 correction: share of the normal harvest that still arrives May–December -/
def year1Spec (r1 : α) (season : List α) (country : String) : α :=
  let hb := harvestBeforeMay country season
  let afterNW := if r1 - hb < 0 then 0 else r1 - hb
  if 0 < afterNW then (if 1 - hb < 0.25 then 1 else afterNW / (1 - hb)) else 0

/-- disruption ratio of the model year of month `i`: year 1 = months 0…7, then twelve months a year,
    year 10 extended to the end -/
def ratioYearRaw (c : CropIn α) (i : Nat) : α :=
  if i < 8 then year1Spec (ratioAt c.ratios 0) c.season c.country
  else ratioAt c.ratios (Nat.min 9 (1 + (i - 8) / 12))

/-- … with "some very small negative value" (rounding noise of `1 + reduction`) read as zero -/
def ratioYearSpec (c : CropIn α) (i : Nat) : α :=
  if ratioYearRaw c i ≤ 0 then 0 else ratioYearRaw c i

/-- cropland expansion: 1 until the first harvest, linear up to the configured ratio, then constant -/
def areaRampSpec (c : CropIn α) (i : Nat) : α :=
  if 1 < c.ratioArea then
    let total := c.yearsToReach * 12
    if total ≤ i then c.ratioArea
    else if c.harvestDuration ≤ i then
      1 + ((i - c.harvestDuration : Nat) : α) * ((c.ratioArea - 1) / ((total : α) - (c.harvestDuration : α)))
    else 1
  else 1

def expSpec (c : CropIn α) : α := if c.relocation then c.exponent else 1

/-- `KCALS_GROWN[i]` -/
def grownSpec (pow : α → α → α) (c : CropIn α) (i : Nat) : α :=
  monthSpec c i * relocGain pow (expSpec c) (ratioYearSpec c i) * areaRampSpec c i

/-- `NO_RELOCATION_KCALS_GROWN[i]` -/
def noRelocSpec (c : CropIn α) (i : Nat) : α := monthSpec c i * ratioYearSpec c i

/-- what is grown outdoors in month `i`: the relocated (and expanded) series from
    `harvest duration + rotation delay` on when relocation is on, the plain one otherwise -/
def grownEffSpec (pow : α → α → α) (c : CropIn α) (i : Nat) : α :=
  if c.relocation ∧ c.harvestDuration + c.rotationDelay ≤ i then grownSpec pow c i else noRelocSpec c i

/-- outdoor crop production handed to the optimiser -/
def productionSpec (pow : α → α → α) (c : CropIn α) (ghf : Nat → α) (i : Nat) : α :=
  if c.addOutdoor then grownEffSpec pow c i * (1 - ghf i) * (1 - c.waste / 100.0) else 0

/-- greenhouse area: nothing until `delay + 5`, then 36 equal steps up to the limit -/
def ghAreaSpec (delay : Nat) (limit : α) (i : Nat) : α :=
  if i < delay + 5 then 0
  else if i < delay + 5 + 36 then ((i - (delay + 5) : Nat) : α) * (limit / 36.0) else limit

def ghTotal (g : GhIn α) : α := g.globalCropArea * g.cropAreaFraction
def ghLimit (g : GhIn α) : α := ghTotal g * g.areaMultiplier

/-- "If there is no crop area, it returns an array of zeros" -/
def noCropland (g : GhIn α) : Prop := ghTotal g ≤ 0 ∧ 0 ≤ ghTotal g
instance (g : GhIn α) : Decidable (noCropland g) := by unfold noCropland; exact inferInstance

/-- greenhouse area in hectares -/
def ghAreaSpec' (g : GhIn α) (i : Nat) : α :=
  if g.addGreenhouses ∧ ¬ noCropland g then ghAreaSpec g.delay (ghLimit g) i else 0

def ghFractionSpec (g : GhIn α) (i : Nat) : α :=
  if g.addGreenhouses ∧ ¬ noCropland g then ghAreaSpec g.delay (ghLimit g) i / ghTotal g else 0

/-- greenhouse kcals per hectare -/
def ghYieldSpec (pow : α → α → α) (c : CropIn α) (g : GhIn α) (i : Nat) : α :=
  if g.addGreenhouses ∧ ¬ noCropland g then
    (1 - c.waste / 100.0) * (1 - g.wasteRetail / 100.0)
      * ((lsum (monthsCycle c.startMonth c.baseline c.season) / 12.0) / ghTotal g
          * relocGain pow (expSpec c) (ratioYearSpec c i))
      * 1 * (1 + g.gainPct / 100.0)
  else 0

def ghCropsSpec (pow : α → α → α) (c : CropIn α) (g : GhIn α) (i : Nat) : α :=
  ghYieldSpec pow c g i * ghAreaSpec' g i

/-! ## fish (`seafood.py`, `scenarios.set_fish_*`) -/

/-- `FISH_KCALS` -/
def fishKcalsMonthly (annual wd wr : α) : α :=
  annual * ((1 - wd / 100.0) * (1 - wr / 100.0)) * 4e6 / 1e9 / 12.0

/-- `set_seafood_production` -/
def fishSeries (add : Bool) (n : Nat) (annual wd wr : α) (pct : List α) : List α :=
  let p := pct.take n
  if add then p.map fun x => x / 100.0 * fishKcalsMonthly annual wd wr else p.map fun _ => 0

def fishSpec (add : Bool) (annual wd wr : α) (pct : Nat → α) (i : Nat) : α :=
  if add then pct i / 100.0 * (annual * ((1 - wd / 100.0) * (1 - wr / 100.0)) * 4e6 / 1e9 / 12.0) else 0

/-- `yearly_fish_reduction` of `set_fish_nuclear_winter_reduction` -/
def yearlyFishReduction : List α :=
  [0, -(11.0), -(32.0), -(35.0), -(34.0), -(32.5), -(32.0), -(30.0), -(29.0), -(27.0), -(22.0), -(15.0), -(8.0), 0, 0, 0]

/-- `FISH_PERCENT_MONTHLY` of `set_fish_nuclear_winter_reduction` (192 values) -/
def fishPercentNW : List α :=
  let y : List α := yearlyFishReduction
  let m := (List.range (y.length - 1)).flatMap fun i => linspaceOpen (y.getD i 0) (y.getD (i + 1) 0) 12
  (m ++ List.replicate 12 (y.getD (y.length - 1) 0)).map (· + 100.0)

/-- month `i` lies in year `i / 12`; linear interpolation between that year's and the next year's value -/
def fishPercentNWSpec (i : Nat) : α :=
  let y : List α := yearlyFishReduction
  if i < 180 then
    ((i % 12 : Nat) : α) * ((y.getD (i / 12 + 1) 0 - y.getD (i / 12) 0) / ((12 : Nat) : α)) + y.getD (i / 12) 0 + 100.0
  else 0 + 100.0

/-! ## grass (`meat_and_dairy.py`, `human_inedible_feed`) -/

/-- the `for i in range(1, int(n_years) + 1)` loop: 8 months for year 1, 16 for the last year
    (`i == NMONTHS / 12`), 12 otherwise; `ratio i` is `RATIO_GRASSES_YEARi` -/
def grassTons (n : Nat) (base : α) (ratio : Nat → α) : List α :=
  (List.range' 1 (n / 12)).foldl (fun acc i =>
      let cnt := if i = 1 then 8 else if 12 * i = n then 12 + 4 else 12
      acc ++ List.replicate cnt (ratio i * base)) []

/-- million dry caloric tons → billion kcals (`in_units`: `1 / from_multiplier * to_multiplier`) -/
def tonsToKcals : α := 1 / (1 / (1e6 * 1000.0 * 4000.0 / 1e9)) * 1

/-- `MeatAndDairy.human_inedible_feed.kcals`; `ratios` = `RATIO_GRASSES_YEAR1…` -/
def grassSeries (n : Nat) (base : α) (ratios : List α) : Except String (List α) :=
  let years := n / 12
  if ratios.length < years then .error "key-error"
  else if (ratios.take years).any (fun r => !(decide (0 ≤ r ∧ r ≤ 10000.0))) then .error "assert"
  else .ok ((grassTons n base (fun i => ratios.getD (i - 1) 0)).map (tonsToKcals * ·))

/-- model year (0-based) of month `i` in a horizon of `years` years: 8, 12, …, 12, 16 months -/
def grassYear (years i : Nat) : Nat := if i < 8 then 0 else Nat.min (years - 1) (1 + (i - 8) / 12)

def grassSpec (n : Nat) (base : α) (ratios : List α) (i : Nat) : α :=
  4000.0 * (ratios.getD (grassYear (n / 12) i) 0 * base)

/-! ## feed and biofuel demand (`feed_and_biofuels.py`) -/

def demandMonthly (annual : α) : α := annual / 12.0 * 4e6 / 1e9

/-- `[monthly] * duration + [0] * (NMONTHS - duration)` -/
def demandSeries (n duration : Nat) (annual : α) : Except String (List α) :=
  if demandMonthly annual < 0 then .error "assert"
  else .ok (List.replicate duration (demandMonthly annual) ++ List.replicate (n - duration) 0)

def demandSpec (duration : Nat) (annual : α) (i : Nat) : α :=
  if i < duration then annual / 12.0 * 4e6 / 1e9 else 0

/-! ## methane SCP (`methane_scp.py`) and cellulosic sugar (`cellulosic_sugar.py`) -/

/-- `industrial_delay_months + global_values_percent_fed_just_scp` (the latter starts with the
    delay again) -/
def scpPercentList (d : Nat) : List Nat :=
  List.replicate d 0 ++ (List.replicate d 0 ++ List.replicate 12 0 ++ List.replicate 5 2 ++ [4]
    ++ List.replicate 5 7 ++ [9] ++ List.replicate 6 11 ++ [13] ++ List.replicate 1000 15)

/-- `production_kcals_scp_per_month`; `globalNeeds = GLOBAL_POP * kcals_monthly / 1e9` -/
def scpSeries (add : Bool) (n d : Nat) (slope globalPop kcalsMonthly fraction wd : α) : List α :=
  if add then
    ((scpPercentList d).map fun (p : Nat) =>
      ((p : α) / (1 - 0.12) * slope) / 100.0 * (globalPop * kcalsMonthly / 1e9) * fraction * (1 - wd / 100.0)).take n
  else List.replicate n 0

/-- percent of global needs `j` months after the (doubled) delay -/
def scpStep (j : Nat) : Nat :=
  if j < 12 then 0 else if j < 17 then 2 else if j < 18 then 4 else if j < 23 then 7
  else if j < 24 then 9 else if j < 30 then 11 else if j < 31 then 13 else 15

def scpSpec (add : Bool) (d : Nat) (slope globalPop kcalsMonthly fraction wd : α) (i : Nat) : α :=
  if add then
    (((if i < 2 * d then 0 else scpStep (i - 2 * d) : Nat) : α) / (1 - 0.12) * slope) / 100.0
      * (globalPop * kcalsMonthly / 1e9) * fraction * (1 - wd / 100.0)
  else 0

/-- `np.append(industrial_delay_months, [0.0]*5 + [4.7]*3 + [9.5]*1000)` -/
def csPercentList (d : Nat) : List α :=
  List.replicate d 0 ++ (List.replicate 5 0.0 ++ List.replicate 3 4.7 ++ List.replicate 1000 9.5)

def csSeries (add : Bool) (n d : Nat) (slope globalPop kcalsMonthly fraction wd : α) : List α :=
  if add then
    ((csPercentList d).map fun p =>
      (p * 1 / (1 - 0.12) * slope) / 100.0 * (globalPop * kcalsMonthly / 1e9) * fraction * (1 - wd / 100.0)).take n
  else (List.replicate n 0).take n

def csStep (j : Nat) : α := if j < 5 then 0.0 else if j < 8 then 4.7 else 9.5

def csSpec (add : Bool) (d : Nat) (slope globalPop kcalsMonthly fraction wd : α) (i : Nat) : α :=
  if add then
    ((if i < d then 0 else csStep (i - d)) * 1 / (1 - 0.12) * slope) / 100.0
      * (globalPop * kcalsMonthly / 1e9) * fraction * (1 - wd / 100.0)
  else 0

/-! ## seaweed (`seaweed.py`) -/

def seaweedNewPerMonth (newFrac : α) : α := 2.0765 * 30.0 * newFrac
def seaweedInitBuilt (newFrac : α) : α := 0.1 * newFrac
def seaweedMaxArea (maxFrac : α) : α := 1853.0 * maxFrac

/-- `get_built_area` -/
def seaweedBuiltArea (add : Bool) (n delay : Nat) (newFrac maxFrac : α) : List α :=
  let init := seaweedInitBuilt newFrac
  let sd := List.replicate (if add then delay else 1000) init
  let long := sd ++ linspace init (((n - 1 : Nat) : α) * seaweedNewPerMonth newFrac + init) n
  (long.map fun x => if seaweedMaxArea maxFrac < x then seaweedMaxArea maxFrac else x).take n

def seaweedAreaSpec (add : Bool) (delay : Nat) (newFrac maxFrac : α) (i : Nat) : α :=
  let d := if add then delay else 1000
  let x := if i < d then seaweedInitBuilt newFrac
           else ((i - d : Nat) : α) * seaweedNewPerMonth newFrac + seaweedInitBuilt newFrac
  if seaweedMaxArea maxFrac < x then seaweedMaxArea maxFrac else x

/-- monthly growth factor in percent: `100 * ((p / 100) + 1) ** 30` -/
def growthFactor (p : α) : α := 100.0 * npow (p / 100.0 + 1) 30

/-- `get_growth_rates`: the columns sorted by their integer key -/
def seaweedGrowth (cols : List (Int × α)) : List α :=
  (cols.mergeSort fun a b => decide (a.1 ≤ b.1)).map fun c => growthFactor c.2

/-! ## stored food (`stored_food.py`) -/

/-- Python's `min(list)` -/
def listMin : List α → α
  | [] => 0
  | x :: t => t.foldl pmin x

/-- `calculate_stored_food_to_use` (kcals of `initial_available`);
    `stocks` = end-of-month stocks January … December -/
def storedFood (startMonth : Nat) (stocks : List α) (untouched pctUse wd : α) : Except String α :=
  if ¬ (1 ≤ startMonth ∧ startMonth ≤ 12) then .error "assert"
  else if stocks.length ≠ 12 then .error "key-error"
  else
    let frac := pctUse / 100.0
    if ¬ (untouched ≤ frac) then .error "assert"
    else
      let lowest := listMin stocks
      -- `end_of_month_stocks[starting_month_index - 1]` (index −1 = December)
      let before := if startMonth = 1 then 11 else startMonth - 2
      let tons := stocks.getD before 0 * frac - lowest * untouched
      if ¬ (0 ≤ tons) then .error "assert"
      else .ok (tons * 4e6 / 1e9 * (1 - wd / 100.0))

def storedFoodSpec (startMonth : Nat) (stocks : List α) (untouched pctUse wd : α) : α :=
  (stocks.getD ((startMonth + 10) % 12) 0 * (pctUse / 100.0) - listMin stocks * untouched) * 4e6 / 1e9
    * (1 - wd / 100.0)

end
end Allfed.Supply
