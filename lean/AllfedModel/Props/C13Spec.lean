import AllfedModel.Proofs.Scenario
/-!
# C13, second part — the options mean what they say

The tables generated from `scenarios.py` / `run_scenario.py` on every run equal the hand-written
specification of `Model/ScenarioSpec.lean`.  A changed constant, a forgotten or an extra assignment, a
branch calling another setter, an override naming another key makes `decide` fail.
-/
set_option linter.unusedVariables false
namespace Allfed.C13
open Allfed.Scenario Allfed.Gen.Scenario Allfed.Scenario.SpecDSL

theorem sp_init_global_food_system_properties_meets : meetsExcept "SEAWEED_GROWTH_PER_DAY" 120 sp_init_global_food_system_properties = true := by decide +kernel
theorem sp_set_immediate_shutoff_meets : meets sp_set_immediate_shutoff = true := by decide +kernel
theorem sp_set_one_month_delayed_shutoff_meets : meets sp_set_one_month_delayed_shutoff = true := by decide +kernel
theorem sp_set_short_delayed_shutoff_meets : meets sp_set_short_delayed_shutoff = true := by decide +kernel
theorem sp_set_long_delayed_shutoff_meets : meets sp_set_long_delayed_shutoff = true := by decide +kernel
theorem sp_set_continued_feed_biofuels_meets : meets sp_set_continued_feed_biofuels = true := by decide +kernel
theorem sp_set_continued_after_10_percent_fed_meets : meets sp_set_continued_after_10_percent_fed = true := by decide +kernel
theorem sp_set_long_delayed_shutoff_after_10_percent_fed_meets : meets sp_set_long_delayed_shutoff_after_10_percent_fed = true := by decide +kernel
theorem sp_set_breeding_to_greatly_reduced_meets : meets sp_set_breeding_to_greatly_reduced = true := by decide +kernel
theorem sp_set_to_baseline_breeding_meets : meets sp_set_to_baseline_breeding = true := by decide +kernel
theorem sp_set_to_feed_only_ruminants_meets : meets sp_set_to_feed_only_ruminants = true := by decide +kernel
theorem sp_set_waste_to_zero_meets : meets sp_set_waste_to_zero = true := by decide +kernel
theorem sp_set_global_waste_to_tripled_prices_meets : meets sp_set_global_waste_to_tripled_prices = true := by decide +kernel
theorem sp_set_global_waste_to_doubled_prices_meets : meets sp_set_global_waste_to_doubled_prices = true := by decide +kernel
theorem sp_set_global_waste_to_baseline_prices_meets : meets sp_set_global_waste_to_baseline_prices = true := by decide +kernel
theorem sp_set_country_waste_to_tripled_prices_meets : meets sp_set_country_waste_to_tripled_prices = true := by decide +kernel
theorem sp_set_country_waste_to_doubled_prices_meets : meets sp_set_country_waste_to_doubled_prices = true := by decide +kernel
theorem sp_set_country_waste_to_baseline_prices_meets : meets sp_set_country_waste_to_baseline_prices = true := by decide +kernel
theorem sp_set_baseline_nutrition_profile_meets : meets sp_set_baseline_nutrition_profile = true := by decide +kernel
theorem sp_set_catastrophe_nutrition_profile_meets : meets sp_set_catastrophe_nutrition_profile = true := by decide +kernel
theorem sp_set_intake_constraints_to_enabled_meets : meets sp_set_intake_constraints_to_enabled = true := by decide +kernel
theorem sp_set_intake_constraints_to_disabled_for_humans_meets : meets sp_set_intake_constraints_to_disabled_for_humans = true := by decide +kernel
theorem sp_set_no_stored_food_meets : meets sp_set_no_stored_food = true := by decide +kernel
theorem sp_set_baseline_stored_food_meets : meets sp_set_baseline_stored_food = true := by decide +kernel
theorem sp_set_stored_food_buffer_zero_meets : meets sp_set_stored_food_buffer_zero = true := by decide +kernel
theorem sp_set_no_stored_food_between_years_meets : meets sp_set_no_stored_food_between_years = true := by decide +kernel
theorem sp_set_stored_food_buffer_as_baseline_meets : meets sp_set_stored_food_buffer_as_baseline = true := by decide +kernel
theorem sp_set_stored_food_buffer_as_baseline_and_no_stored_between_years_meets : meets sp_set_stored_food_buffer_as_baseline_and_no_stored_between_years = true := by decide +kernel
theorem sp_set_no_seasonality_meets : meets sp_set_no_seasonality = true := by decide +kernel
theorem sp_set_global_seasonality_baseline_meets : meets sp_set_global_seasonality_baseline = true := by decide +kernel
theorem sp_set_global_seasonality_nuclear_winter_meets : meets sp_set_global_seasonality_nuclear_winter = true := by decide +kernel
theorem sp_set_grasses_baseline_meets : meets sp_set_grasses_baseline = true := by decide +kernel
theorem sp_set_global_grasses_nuclear_winter_meets : meets sp_set_global_grasses_nuclear_winter = true := by decide +kernel
theorem sp_set_country_grasses_nuclear_winter_meets : meets sp_set_country_grasses_nuclear_winter = true := by decide +kernel
theorem sp_set_country_grasses_to_zero_meets : meets sp_set_country_grasses_to_zero = true := by decide +kernel
theorem sp_set_fish_zero_meets : meets sp_set_fish_zero = true := by decide +kernel
theorem sp_set_fish_baseline_meets : meets sp_set_fish_baseline = true := by decide +kernel
theorem sp_set_disruption_to_crops_to_zero_meets : meets sp_set_disruption_to_crops_to_zero = true := by decide +kernel
theorem sp_set_nuclear_winter_global_disruption_to_crops_meets : meets sp_set_nuclear_winter_global_disruption_to_crops = true := by decide +kernel
theorem sp_set_nuclear_winter_country_disruption_to_crops_meets : meets sp_set_nuclear_winter_country_disruption_to_crops = true := by decide +kernel
theorem sp_set_zero_crops_meets : meets sp_set_zero_crops = true := by decide +kernel
theorem sp_include_protein_meets : meets sp_include_protein = true := by decide +kernel
theorem sp_dont_include_protein_meets : meets sp_dont_include_protein = true := by decide +kernel
theorem sp_include_fat_meets : meets sp_include_fat = true := by decide +kernel
theorem sp_dont_include_fat_meets : meets sp_dont_include_fat = true := by decide +kernel
theorem sp_get_all_resilient_foods_scenario_meets : meets sp_get_all_resilient_foods_scenario = true := by decide +kernel
theorem sp_get_all_resilient_foods_and_more_area_scenario_meets : meets sp_get_all_resilient_foods_and_more_area_scenario = true := by decide +kernel
theorem sp_get_seaweed_scenario_meets : meets sp_get_seaweed_scenario = true := by decide +kernel
theorem sp_get_methane_scp_scenario_meets : meets sp_get_methane_scp_scenario = true := by decide +kernel
theorem sp_get_cellulosic_sugar_scenario_meets : meets sp_get_cellulosic_sugar_scenario = true := by decide +kernel
theorem sp_get_industrial_foods_scenario_meets : meets sp_get_industrial_foods_scenario = true := by decide +kernel
theorem sp_get_relocated_crops_scenario_meets : meets sp_get_relocated_crops_scenario = true := by decide +kernel
theorem sp_get_greenhouse_scenario_meets : meets sp_get_greenhouse_scenario = true := by decide +kernel
theorem sp_get_no_resilient_food_scenario_meets : meets sp_get_no_resilient_food_scenario = true := by decide +kernel
theorem sp_cull_animals_meets : meets sp_cull_animals = true := by decide +kernel
theorem sp_dont_cull_animals_meets : meets sp_dont_cull_animals = true := by decide +kernel

/-- every literal-valued setter (all but the three allow-listed numpy/country-row ones) does exactly what
    the specification says (for the global initialiser: every key but the 120-entry seaweed growth table,
    whose size is checked) -/
theorem C13_means_what_it_says :
    meetsExcept "SEAWEED_GROWTH_PER_DAY" 120 sp_init_global_food_system_properties = true ∧
    ∀ sp ∈ specTable.drop 1, meets sp = true := by
  refine ⟨sp_init_global_food_system_properties_meets, ?_⟩
  intro sp hsp
  simp only [specTable, List.drop_succ_cons, List.drop_zero, List.mem_cons, List.mem_nil_iff, or_false] at hsp
  rcases hsp with rfl | rfl | rfl | rfl | rfl | rfl | rfl | rfl | rfl | rfl | rfl | rfl | rfl | rfl | rfl | rfl | rfl | rfl | rfl | rfl | rfl | rfl | rfl | rfl | rfl | rfl | rfl | rfl | rfl | rfl | rfl | rfl | rfl | rfl | rfl | rfl | rfl | rfl | rfl | rfl | rfl | rfl | rfl | rfl | rfl | rfl | rfl | rfl | rfl | rfl | rfl | rfl | rfl | rfl | rfl
  · exact sp_set_immediate_shutoff_meets
  · exact sp_set_one_month_delayed_shutoff_meets
  · exact sp_set_short_delayed_shutoff_meets
  · exact sp_set_long_delayed_shutoff_meets
  · exact sp_set_continued_feed_biofuels_meets
  · exact sp_set_continued_after_10_percent_fed_meets
  · exact sp_set_long_delayed_shutoff_after_10_percent_fed_meets
  · exact sp_set_breeding_to_greatly_reduced_meets
  · exact sp_set_to_baseline_breeding_meets
  · exact sp_set_to_feed_only_ruminants_meets
  · exact sp_set_waste_to_zero_meets
  · exact sp_set_global_waste_to_tripled_prices_meets
  · exact sp_set_global_waste_to_doubled_prices_meets
  · exact sp_set_global_waste_to_baseline_prices_meets
  · exact sp_set_country_waste_to_tripled_prices_meets
  · exact sp_set_country_waste_to_doubled_prices_meets
  · exact sp_set_country_waste_to_baseline_prices_meets
  · exact sp_set_baseline_nutrition_profile_meets
  · exact sp_set_catastrophe_nutrition_profile_meets
  · exact sp_set_intake_constraints_to_enabled_meets
  · exact sp_set_intake_constraints_to_disabled_for_humans_meets
  · exact sp_set_no_stored_food_meets
  · exact sp_set_baseline_stored_food_meets
  · exact sp_set_stored_food_buffer_zero_meets
  · exact sp_set_no_stored_food_between_years_meets
  · exact sp_set_stored_food_buffer_as_baseline_meets
  · exact sp_set_stored_food_buffer_as_baseline_and_no_stored_between_years_meets
  · exact sp_set_no_seasonality_meets
  · exact sp_set_global_seasonality_baseline_meets
  · exact sp_set_global_seasonality_nuclear_winter_meets
  · exact sp_set_grasses_baseline_meets
  · exact sp_set_global_grasses_nuclear_winter_meets
  · exact sp_set_country_grasses_nuclear_winter_meets
  · exact sp_set_country_grasses_to_zero_meets
  · exact sp_set_fish_zero_meets
  · exact sp_set_fish_baseline_meets
  · exact sp_set_disruption_to_crops_to_zero_meets
  · exact sp_set_nuclear_winter_global_disruption_to_crops_meets
  · exact sp_set_nuclear_winter_country_disruption_to_crops_meets
  · exact sp_set_zero_crops_meets
  · exact sp_include_protein_meets
  · exact sp_dont_include_protein_meets
  · exact sp_include_fat_meets
  · exact sp_dont_include_fat_meets
  · exact sp_get_all_resilient_foods_scenario_meets
  · exact sp_get_all_resilient_foods_and_more_area_scenario_meets
  · exact sp_get_seaweed_scenario_meets
  · exact sp_get_methane_scp_scenario_meets
  · exact sp_get_cellulosic_sugar_scenario_meets
  · exact sp_get_industrial_foods_scenario_meets
  · exact sp_get_relocated_crops_scenario_meets
  · exact sp_get_greenhouse_scenario_meets
  · exact sp_get_no_resilient_food_scenario_meets
  · exact sp_cull_animals_meets
  · exact sp_dont_cull_animals_meets

/-- the specification covers every setter of the table except the allow-listed opaque ones -/
theorem C13_spec_covers_table :
    (setters.filter fun i => !i.isOpaque).map (·.name) = specTable.map (·.name) ∧
    (setters.filter fun i => i.isOpaque).map (·.name) =
      ["init_country_food_system_properties", "set_country_seasonality", "set_fish_nuclear_winter_reduction"] := by
  decide +kernel

/-- every option value calls the setter that bears its name in the documentation, in the documented order
    of families, and the dispatcher itself writes only the country code and the number of months -/
theorem C13_dispatch_means_what_it_says :
    dispatchSummary dispatch = specDispatch ∧
    dispatchStmts dispatch = [.assertNoCountry, .write "COUNTRY_CODE" (s "WOR"), .write "COUNTRY_CODE" (cd "iso3"),
      .write "NMONTHS" (.opt "NMONTHS")] ∧
    requiredOptions = ["scale", "stored_food", "ratio_stocks_untouched", "shutoff", "waste", "nutrition", "intake_constraints",
      "seasonality", "grasses", "fish", "crop_disruption", "protein", "fat", "cull", "scenario", "meat_strategy"] := by
  decide +kernel

theorem C13_overrides_spec : overridesOf dispatch = specOverrides := by decide +kernel

/-- the SLV / ALB / ECU patches of `alter_scenario_if_known_to_fail`, as its docstring and warnings say:
    they only ever turn `shutoff` into `immediate` -/
theorem C13_patches_only_shutoff :
    (failRules.all fun r => r.corrKey == "shutoff" && r.corrVal == "immediate" &&
      ["SLV", "ALB", "ECU"].contains r.iso3) = true := by decide +kernel


end Allfed.C13
