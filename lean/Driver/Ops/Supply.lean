import AllfedModel.Model.Supply
import Driver.Wire
open Wire Allfed Allfed.Supply

namespace Ops.Supply

local instance : NatCast Float := ⟨Float.ofNat⟩

def fpow (x e : Float) : Float := Float.pow x e

def specList (n : Nat) (f : Nat → Float) : String := outFs ((List.range n).map f)

def cropIn : P (CropIn Float) := do
  let nmonths ← nat; let startMonth ← nat; let baseline ← float; let season ← floats; let ratios ← floats
  let country ← str; let addOutdoor ← bool; let relocation ← bool; let exponent ← float
  let ratioArea ← float; let yearsToReach ← nat; let harvestDuration ← nat; let rotationDelay ← nat
  let waste ← float
  pure ⟨nmonths, startMonth, baseline, season, ratios, country, addOutdoor, relocation, exponent,
    ratioArea, yearsToReach, harvestDuration, rotationDelay, waste⟩

def ghIn : P (GhIn Float) := do
  let add ← bool; let ga ← float; let fr ← float; let delay ← nat; let mult ← float; let gain ← float
  let wr ← float
  pure ⟨add, ga, fr, delay, mult, gain, wr⟩

/-- supply.crops <CropIn> <GhIn>  ->  ok grown noReloc area fraction yield ghcrops production
                                        + the seven spec series | err kind -/
def cropsOp : P String := do
  let c ← cropIn; let g ← ghIn
  match cropsAndGreenhouses fpow c g with
  | .error e => pure ("err " ++ e)
  | .ok o =>
    let n := c.nmonths
    let ghf := ghFractionSpec g
    pure (" ".intercalate ["ok", outFs o.grown, outFs o.noReloc, outFs o.gh.area, outFs o.gh.fraction,
      outFs o.gh.yieldPerHa, outFs o.gh.crops, outFs o.production,
      specList n (grownSpec fpow c), specList n (noRelocSpec c),
      specList n (ghAreaSpec' g), specList n ghf,
      specList n (ghYieldSpec fpow c g), specList n (ghCropsSpec fpow c g),
      specList n (productionSpec fpow c ghf)])

def year1Op : P String := do
  let r1 ← float; let season ← floats; let country ← str
  match year1Ratio r1 season country with
  | .error e => pure ("err " ++ e)
  | .ok y => pure ("ok " ++ outF y ++ " " ++ outF (year1Spec r1 season country))

def fishOp : P String := do
  let add ← bool; let n ← nat; let annual ← float; let wd ← float; let wr ← float; let pct ← floats
  let s := fishSeries add n annual wd wr pct
  pure (outFs s ++ " " ++ specList s.length (fishSpec add annual wd wr (fun i => pct.getD i 0)))

def fishNWOp : P String := do
  let l : List Float := fishPercentNW
  pure (outFs l ++ " " ++ specList 192 fishPercentNWSpec)

def grassOp : P String := do
  let n ← nat; let base ← float; let ratios ← floats
  match grassSeries n base ratios with
  | .error e => pure ("err " ++ e)
  | .ok l => pure ("ok " ++ outFs l ++ " " ++ specList l.length (grassSpec n base ratios))

def demandOp : P String := do
  let n ← nat; let d ← nat; let annual ← float
  match demandSeries n d annual with
  | .error e => pure ("err " ++ e)
  | .ok l => pure ("ok " ++ outFs l ++ " " ++ specList l.length (demandSpec d annual))

def scpOp : P String := do
  let add ← bool; let n ← nat; let d ← nat; let slope ← float; let gp ← float; let km ← float
  let fr ← float; let wd ← float
  let l := scpSeries add n d slope gp km fr wd
  pure (outFs l ++ " " ++ specList l.length (scpSpec add d slope gp km fr wd))

def csOp : P String := do
  let add ← bool; let n ← nat; let d ← nat; let slope ← float; let gp ← float; let km ← float
  let fr ← float; let wd ← float
  let l := csSeries add n d slope gp km fr wd
  pure (outFs l ++ " " ++ specList l.length (csSpec add d slope gp km fr wd))

def seaweedAreaOp : P String := do
  let add ← bool; let n ← nat; let d ← nat; let nf ← float; let mf ← float
  let l := seaweedBuiltArea add n d nf mf
  pure (outFs l ++ " " ++ specList l.length (seaweedAreaSpec add d nf mf))

def seaweedGrowthOp : P String := do
  let keys ← list int; let vals ← floats
  let l := seaweedGrowth (keys.zip vals)
  pure (outFs l)

def storedOp : P String := do
  let sm ← nat; let stocks ← floats; let unt ← float; let pct ← float; let wd ← float
  match storedFood sm stocks unt pct wd with
  | .error e => pure ("err " ++ e)
  | .ok x => pure ("ok " ++ outF x ++ " " ++ outF (storedFoodSpec sm stocks unt pct wd))

def ops : List (String × P String) :=
  [("supply.crops", cropsOp), ("supply.year1", year1Op), ("supply.fish", fishOp), ("supply.fishnw", fishNWOp),
   ("supply.grass", grassOp), ("supply.demand", demandOp), ("supply.scp", scpOp), ("supply.cs", csOp),
   ("supply.seaweedArea", seaweedAreaOp), ("supply.seaweedGrowth", seaweedGrowthOp), ("supply.stored", storedOp)]

end Ops.Supply
