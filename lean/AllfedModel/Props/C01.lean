import AllfedModel.Model.PhysSpec
import AllfedModel.Proofs.LP
/-!
# C01 — reported allocations never use food that does not exist

`buildLP` (Model/AllocLP.lean) is compared row by row with the PuLP model the real `Optimizer`
builds on every check run; the theorems here are about **every** feasible point of `buildLP`, for
**every** input (any horizon ≥ 2 months, any supplies, any option flags), in any ordered field.
The reported allocation is feasible for the first-stage rows plus the tie-breaking rows of the
later solves, so `extra_rows_preserve` makes the main theorem apply to it.
-/
namespace Allfed.C01
open Allfed.LP Allfed.AllocLP Allfed.PhysSpec

variable {K : Type} [Field K] [LinearOrder K] [IsStrictOrderedRing K]

/-- Every feasible point of the LP the code builds is physically feasible in the sense of
    `physCore`: non-negative; cumulative stored-food and crop use within stock / harvest so far;
    meat within slaughter (month by month without storage; in total and under the monthly cap
    with storage); SCP and sugar within monthly output; seaweed ledger and bounds; feed/biofuel
    equal to the charge (human rounds) or within ceiling and never rising (feed round); crops
    (and stored food where storage between years is allowed) fully used by the last month.
    The former per-month meat cap is no longer a clause (it follows from `meat-cumulative` for
    `wMeat ≤ 100`: `Proofs.LP.meat_cap`). -/
theorem feasible_is_physical (i : Inp K) (kind : Kind) (x : Var → K) (hN : 2 ≤ i.nmonths)
    (h : Feasible (buildLP i kind) x) : ∀ e ∈ physCore i kind x, e.value ≤ 0 :=
  Proofs.LP.feasible_is_physical i kind x hN h

/-- adding rows (the `0.99995·z*` floors and the secondary objectives) only shrinks the feasible set -/
theorem extra_rows_preserve (rows extra : List (Row K)) (x : Var → K)
    (h : Feasible (rows ++ extra) x) : Feasible rows x :=
  Proofs.LP.extra_rows_preserve rows extra x h

/-- the row evaluator the driver runs at `Float` is the feasibility predicate of the theorems -/
theorem rowExcess_iff (x : Var → K) (r : Row K) : r.holds x ↔ ∀ e ∈ rowExcess x r, e.value ≤ 0 :=
  Proofs.LP.rowExcess_iff x r

/-- without storage of meat the monthly cap gives the cumulative statement of the property -/
theorem meat_cumulative_without_storage (i : Inp K) (kind : Kind) (x : Var → K)
    (h : Feasible (buildLP i kind) x) (hm : i.addMeat = true) (hs : i.storeBetweenYears = false)
    (m : Nat) (hlt : m < i.nmonths) :
    cum (meatUse i x) m ≤ cum (at' i.slaughtered) m :=
  Proofs.LP.meat_cumulative_without_storage i kind x h hm hs m hlt

/-- with storage of meat (after the repair of D10): cumulative meat eaten never exceeds the running
    slaughter total the pipeline hands over, hence meat is never eaten before it is slaughtered -/
theorem meat_never_eaten_before_slaughter (i : Inp K) (kind : Kind) (x : Var → K)
    (h : Feasible (buildLP i kind) x) (hm : i.addMeat = true) (hs : i.storeBetweenYears = true)
    (hc : ∀ m, m < i.nmonths → at' i.maxCulled m = cum (at' i.slaughtered) m)
    (m : Nat) (hlt : m < i.nmonths) :
    cum (meatUse i x) m ≤ cum (at' i.slaughtered) m :=
  Proofs.LP.meat_never_eaten_before_slaughter i kind x h hm hs hc m hlt

/-! ## history: D10 (repaired) and what the code still does NOT enforce (D14)

Before the repair `Meat_Eaten_Maximum_m` capped each month's meat by the *running* slaughter total,
so meat could be eaten before it was slaughtered.  `Proofs.LP.buildLPBefore` is `buildLP` with the
meat rows as they were (`Proofs.LP.meatRowsBefore`); the theorem keeps the witness and shows that
today's row is what excludes it.
In the regimes without storage between years nothing forces the initial stock to be eaten (D14). -/

/-- D10 before the fix: honest data (non-negative slaughter `[1,1,8]`, `maxCulled` its running
    total, `meatSummed` its total), a point (eating 1, 2, 0) that is feasible for the LP as it was
    and eats meat before it is slaughtered; a row of today's `meatRows` fails at it, so it is
    infeasible for today's LP -/
theorem meat_gap_counterexample_before_fix :
    ∃ (i : Inp ℚ) (x : Var → ℚ), 2 ≤ i.nmonths ∧ Feasible (Proofs.LP.buildLPBefore i .toHumans) x ∧
      (∀ s ∈ i.slaughtered, 0 ≤ s) ∧
      (∀ m, m < i.nmonths → at' i.maxCulled m = cum (at' i.slaughtered) m) ∧
      i.meatSummed = cum (at' i.slaughtered) (i.nmonths - 1) ∧
      (∃ e ∈ meatVsSlaughter i x, 0 < e.value) ∧
      (∃ m, m < i.nmonths ∧ ∃ r ∈ meatRows i m, ¬ r.holds x) ∧
      ¬ Feasible (buildLP i .toHumans) x :=
  Proofs.LP.meat_gap_counterexample_before_fix

/-- D14: a feasible point of the code's LP (no storage between years) that leaves stored food uneaten -/
theorem stored_gap_counterexample :
    ∃ (i : Inp ℚ) (x : Var → ℚ), 2 ≤ i.nmonths ∧ Feasible (buildLP i .toHumans) x ∧
      ∃ e ∈ physGap i .toHumans x, 0 < e.value ∧ e.clause = "stored-full-use-no-storage" :=
  Proofs.LP.stored_gap_counterexample

/-- non-vacuity: the hypotheses of `feasible_is_physical` are satisfiable by a non-trivial instance
    (3 months, stored food + crops + meat, a feasible point that eats something every month) -/
theorem feasible_nonvacuous :
    ∃ (i : Inp ℚ) (x : Var → ℚ), 2 ≤ i.nmonths ∧ i.addStored = true ∧ i.addOutdoor = true ∧ i.addMeat = true ∧
      Feasible (buildLP i .toHumans) x ∧ 0 < x .objective :=
  Proofs.LP.feasible_nonvacuous

end Allfed.C01
