import AllfedModel.Model.Certificate
import AllfedModel.Model.Report
import AllfedModel.Proofs.Certificate
/-!
# C02 — percent fed is the true optimum of the allocation problem

What is proved for all inputs: the objective of the LP the code builds is *sound* (never exceeds
what the allocation really feeds in its worst month / the weighted feed-and-biofuel total), and a
certificate checker that turns any vector of row multipliers into a valid upper bound of the
objective.  What is certified per instance (by the check, in exact rational arithmetic with this
checker): the value CBC reported is within 10⁻⁴ of that upper bound.
Stated, not yet proved (kept visible): completeness — every physically feasible allocation
(`PhysSpec.physCore` + intake caps) is the image of a feasible point of `buildLP`.
-/
namespace Allfed.C02
open Allfed.LP Allfed.AllocLP Allfed.Certificate Allfed.PhysSpec

variable {K : Type} [Field K] [LinearOrder K] [IsStrictOrderedRing K]

/-! ## soundness of the objective -/

/-- human-maximising rounds: the objective is at most every month's percent fed -/
theorem objective_le_every_month (i : Inp K) (x : Var → K) (h : Feasible (buildLP i .toHumans) x)
    (m : Nat) (hm : m < i.nmonths) : x .objective ≤ x (.mv .consumedKcals m) :=
  Proofs.Certificate.objective_le_every_month i x h m hm

/-- … and a month's percent fed is what people are really given that month (allocations to humans
    plus milk, greenhouse and fish), relative to the monthly requirement -/
theorem consumed_is_percent_of_need (i : Inp K) (x : Var → K) (h : Feasible (buildLP i .toHumans) x)
    (m : Nat) (hm : m < i.nmonths) :
    x (.mv .consumedKcals m) =
      (X x i.addStored .sfHumans m + X x i.addOutdoor .cropHumans m + X x i.addSeaweed .swHumans m * i.seaweedKcals
        + at' i.milk m + X x i.addMeat .meatEaten m + X x i.addCs .csHumans m + X x i.addScp .scpHumans m
        + at' i.greenhouse m + at' i.fish m) / i.billionKcalsNeeded * 100 :=
  Proofs.Certificate.consumed_is_percent_of_need i x h m hm

/-- feed-maximising round: the objective is at most the weighted total (feed twice biofuel) -/
theorem objective_le_weighted_total (i : Inp K) (x : Var → K) (h : Feasible (buildLP i .toAnimals) x) :
    x .objective ≤ 2 / 3 * (List.range i.nmonths).foldl (fun acc m => acc + feedTotal i x m) 0
                  + (List.range i.nmonths).foldl (fun acc m => acc + biofuelTotal i x m) 0 / 3 :=
  Proofs.Certificate.objective_le_weighted_total i x h

/-! ## the certificate checker is sound (generic LP) -/

theorem normalise_eval (x : Var → K) (l : List (Var × K)) : Aff.sumTerms x (normalise l) = Aff.sumTerms x l :=
  Proofs.Certificate.normalise_eval x l

/-- weak duality with residual absorption: for ANY multipliers `y` -/
theorem dualBound_sound (rows : List (Row K)) (y : List K) (ub : Var → Option K) (b : K) (x : Var → K)
    (hx : Feasible rows x) (hub : ∀ v u, ub v = some u → x v ≤ u)
    (hb : dualBound rows y ub = some b) : x .objective ≤ b :=
  Proofs.Certificate.dualBound_sound rows y ub b x hx hub hb

/-- the variable bounds used by the checker hold at every feasible point of the code's LP -/
theorem ubOf_valid (i : Inp K) (kind : Kind) (x : Var → K) (hw : WellFormed i)
    (h : Feasible (buildLP i kind) x) : ∀ v u, ubOf i kind v = some u → x v ≤ u :=
  Proofs.Certificate.ubOf_valid i kind x hw h

/-- the per-instance certificate: whatever the solver's duals are, the number the checker prints
    bounds the objective of every feasible point of the LP the code builds -/
theorem certificate_sound (i : Inp K) (kind : Kind) (y : List K) (b : K) (hw : WellFormed i)
    (hb : dualBound (buildLP i kind) y (ubOf i kind) = some b) :
    ∀ x, Feasible (buildLP i kind) x → x .objective ≤ b :=
  fun x hx => dualBound_sound _ y _ b x hx (ubOf_valid i kind x hw hx) hb

/-- non-vacuity of the checker: a two-row LP whose exact optimum it certifies -/
example : dualBound
    ([⟨"cap", Aff.var (.mv .scpHumans 0), .le, Aff.k (5 : ℚ)⟩,
      ⟨"obj", Aff.var .objective, .le, Aff.var (.mv .scpHumans 0)⟩] : List (Row ℚ))
    [1, 1] (fun _ => none) = some 5 := by decide +kernel

end Allfed.C02
