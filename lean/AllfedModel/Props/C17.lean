import AllfedModel.Model.ImportAvg
import AllfedModel.Model.CountryTable
import AllfedModel.Proofs.ImportAvg
import AllfedModel.Proofs.CountryTable
import AllfedModel.Gen.CountryTable
/-!
# C17 — shipped input tables are what the import pipeline derives; table invariants; the averaging helper

Property theorems only; helper lemmas live in `Proofs/ImportAvg.lean` and `Proofs/CountryTable.lean`.

Three parts:
 1. `C17_avg*`   — the percentage-averaging helper (`ImportUtilities.weighted_average_percentages`,
                   `average_percentages`), for ALL percentage/weight lists over any ordered field.
 2. `C17_table*` — invariants of the combined country table, proved by the kernel over
                   `Gen/CountryTable.lean`, which is regenerated on every run from the table that the
                   21 import scripts produce from the raw data in a scratch copy (so the claim and the
                   tie coincide: the invariants are about the REGENERATED table).
 3. regeneration = shipped, byte for byte, for all 20 processed tables and the combined table: this
    is executed by the harness (`harness/props/c17.py`, quick tier) — the scripts are pandas/openpyxl
    programs that are run, not modelled (**partial** in that sense).
-/
namespace Allfed.C17
open Allfed Allfed.ImportAvg Allfed.CountryTable Allfed.Gen.CountryTable
open Allfed.Proofs.ImportAvg (vPW vW rW)
open Allfed.Proofs.CountryTable (toRat CellSpec RowSpec)

variable {K : Type} [Field K] [LinearOrder K] [IsStrictOrderedRing K]

/-! ## 1. the averaging helper

`V` = the entries the code treats as valid = those with `impossible p = false`, where
`impossible p ↔ p > 1e5 ∨ p < -100` (exactly `-100` and exactly `1e5` are valid).
`vPW = Σ_V p·w`, `vW = Σ_V w`, `rW` = the rejected weight. -/

/-- which values are impossible, exactly as the code tests them -/
theorem C17_impossible_iff (p : K) : impossible p = true ↔ (100000 < p ∨ p < -100) := by
  unfold impossible
  have h1 : (1e5 : K) = 100000 := by norm_num
  have h2 : (100.0 : K) = 100 := by norm_num
  simp [h1, h2]

/-- **value**: for weights in `[0, 1]` that sum to 1, if the valid entries carry weight the result
    is `Σ_V p·w / Σ_V w` (impossible values ignored), otherwise the sentinel `9.37e36` -/
theorem C17_avg (ps ws : List K) (hl : ps.length = ws.length)
    (hw : ∀ w ∈ ws, 0 ≤ w ∧ w ≤ 1) (hs : ws.sum = 1) :
    weightedAverage ps ws = .ok (if vW ps ws = 0 then sentinel else vPW ps ws / vW ps ws) :=
  Proofs.ImportAvg.weightedAverage_eq ps ws hl hw hs

/-- **range**: that value lies between any two bounds of the valid percentages … -/
theorem C17_avg_range (ps ws : List K) (hw : ∀ w ∈ ws, 0 ≤ w ∧ w ≤ 1) (hpos : 0 < vW ps ws)
    (lo hi : K) (hb : ∀ p ∈ ps, impossible p = false → lo ≤ p ∧ p ≤ hi) :
    lo ≤ vPW ps ws / vW ps ws ∧ vPW ps ws / vW ps ws ≤ hi :=
  Proofs.ImportAvg.weightedAverage_range ps ws hw hpos lo hi hb

/-- … in particular between the least and the greatest valid percentage it was given -/
theorem C17_avg_min_max (ps ws : List K) (hw : ∀ w ∈ ws, 0 ≤ w ∧ w ≤ 1) (hpos : 0 < vW ps ws) :
    ∃ pmin ∈ ps.filter (fun p => !impossible p), ∃ pmax ∈ ps.filter (fun p => !impossible p),
      (∀ p ∈ ps.filter (fun p => !impossible p), pmin ≤ p ∧ p ≤ pmax) ∧
      pmin ≤ vPW ps ws / vW ps ws ∧ vPW ps ws / vW ps ws ≤ pmax :=
  Proofs.ImportAvg.weightedAverage_min_max ps ws hw hpos

/-- the result is a valid percentage itself whenever the valid entries carry weight, and the
    sentinel is an impossible one ("only non-possible numbers in → a non-possible number out") -/
theorem C17_avg_sentinel_impossible : impossible (sentinel : K) = true :=
  Proofs.ImportAvg.sentinel_impossible

/-- **as written**, for weights that need not sum to exactly 1 (the code accepts `0.99999 < Σw ≤ 1.00001`):
    whatever is returned is the sentinel or `Σ_V p·w / (1 − rejected weight)`, and then the valid
    weight is within a factor `[0.9999, 1.0001]` of that divisor (the code's own assertion);
    a length mismatch or a weight outside `[0, 1]` never returns a value -/
theorem C17_avg_as_written (ps ws : List K) (v : K) (h : weightedAverage ps ws = .ok v) :
    ps.length = ws.length ∧ (∀ w ∈ ws, 0 ≤ w ∧ w ≤ 1) ∧
    (v = sentinel ∨
      (v = vPW ps ws / (1 - rW ps ws) ∧ (0.9999 : K) ≤ vW ps ws / (1 - rW ps ws) ∧
        vW ps ws / (1 - rW ps ws) ≤ (1.0001 : K))) :=
  Proofs.ImportAvg.weightedAverage_as_written ps ws v h

/-- `average_percentages` (even weights): the plain mean of the valid entries, or the sentinel -/
theorem C17_avg_even (ps : List K) (hne : ps ≠ []) :
    averagePercentages ps = .ok
      (if ps.filter (fun p => !impossible p) = [] then sentinel
       else (ps.filter (fun p => !impossible p)).sum / ((ps.filter (fun p => !impossible p)).length : K)) :=
  Proofs.ImportAvg.averagePercentages_eq ps hne

/-! ### non-vacuity / the repository's own test vectors, in exact arithmetic -/

/-- `tests/test_some_import_functions.py`, second vector: `[-100, 100, 1e20]`, weights `1 : 1 : 100` → 0 -/
example : weightedAverage [(-100 : ℚ), 100, 100000000000000000000] [1 / 102, 1 / 102, 100 / 102] = .ok 0 := by
  decide +kernel

/-- all impossible → sentinel -/
example : averagePercentages [(100000000000 : ℚ), -101, 100000000, 100000000000000000000000000] = .ok sentinel := by
  decide +kernel

/-- the boundary values are valid: -100 and 1e5 are averaged, -100.5 is not -/
example : averagePercentages [(-100 : ℚ), 100000, -100.5] = .ok 49950 := by decide +kernel

/-- a weight outside `[0, 1]` is an error, not a number -/
example : weightedAverage [(1 : ℚ), 2] [3 / 2, -1 / 2] = .error .weightRange := by decide +kernel

/-- hypotheses of `C17_avg` are satisfiable with impossible values mixed in -/
example : ([(-100 : ℚ), 100, 100000000000000000000] : List ℚ).length = ([1 / 102, 1 / 102, 100 / 102] : List ℚ).length ∧
    (∀ w ∈ ([1 / 102, 1 / 102, 100 / 102] : List ℚ), 0 ≤ w ∧ w ≤ 1) ∧ ([1 / 102, 1 / 102, 100 / 102] : List ℚ).sum = 1 := by
  refine ⟨rfl, ?_, by norm_num⟩
  intro w hw
  simp only [List.mem_cons, List.mem_nil_iff, or_false] at hw
  rcases hw with rfl | rfl | rfl <;> norm_num

/-! ## 2. the combined country table (regenerated) -/

/-- **every row** of the table: both text cells present, exactly one exact-decimal cell per numeric
    column (the translator refuses to emit a missing / NaN cell), every cell within the range of
    its column group (`CellSpec`: population, quantities `≥ 0`, fractions in `[0,1]`, reductions
    `≥ -1` — crops with the runtime's own `1e-8` tolerance —, daily growth `≥ -100 %`), and the twelve
    seasonality shares summing to 1 within `1e-6` -/
theorem C17_table_ok : ∀ r ∈ table, RowSpec r := by
  intro r hr
  have h := table_all_ok
  rw [List.all_eq_true] at h
  exact Proofs.CountryTable.rowOk_spec r (h r hr)

/-- the header is `iso3, country` followed by exactly the expected numeric columns, in order -/
theorem C17_table_header : columns = "iso3" :: "country" :: spec.map Prod.fst := by decide +kernel

/-- 211 columns, 164 rows, 209 numeric cells in each row (no cell missing) -/
theorem C17_table_shape : columns.length = 211 ∧ table.length = 164 ∧ ∀ r ∈ table, r.cells.length = 209 := by
  refine ⟨by decide +kernel, by decide +kernel, ?_⟩
  intro r hr
  rw [Proofs.CountryTable.cells_length r (C17_table_ok r hr)]
  decide +kernel

theorem C17_expected_positions : expectedCodes = expectedPos.map (fun i => (table.map (·.iso3)).getD i "") := by
  decide +kernel

theorem C17_positions_perm : expectedPos.Perm (List.range (table.map (·.iso3)).length) := by
  decide +kernel

/-- the 164 rows are exactly the expected countries (`ImportUtilities.country_codes` with SWZ → SWT),
    each once -/
theorem C17_table_codes : expectedCodes.Perm (table.map (·.iso3)) ∧ expectedCodes.length = 164 :=
  ⟨Proofs.CountryTable.perm_of_positions _ _ _ C17_expected_positions C17_positions_perm, by decide +kernel⟩

/-- why the crop-reduction bound carries the runtime's `1e-8` tolerance: the decimal
    `-1.0000000000000002` (36 cells of the shipped table; the IEEE mean of several `-100 %` entries
    divided by 100) is below -1 in exact arithmetic, passes the tolerant bound and would fail the exact one -/
theorem C17_crop_reduction_ulp_witness :
    toRat (nn 10000000000000002 16) < -1 ∧
    cellOk .cropReduc (nn 10000000000000002 16) = true ∧ cellOk .grassReduc (nn 10000000000000002 16) = false := by
  refine ⟨?_, by decide +kernel, by decide +kernel⟩
  norm_num [toRat, nn]

/-- the checker is not vacuous: it rejects a negative quantity, a fraction above 1, a reduction below
    -100 % and a seasonality row that does not sum to 1 -/
example : cellOk .qty (np 1 0) = false ∧ cellOk .frac (pn 11 1) = false ∧ cellOk .cropReduc (np 2 0) = false ∧
    cellOk .pop (pp 5 3) = false := by decide +kernel

example : Dec.le (999999, -6) (Dec.sum [pn 5 1, pn 4 1]) = false := by decide +kernel

end Allfed.C17
