-- GENERATED on every check run by harness/translators/tr_species.py from
-- /repo/data/no_food_trade/animal_feed_data/species_attributes.csv.  Do not edit.
namespace Allfed.Gen.Species

/-- (animal type, digestion type, animal size) -/
def species : List (String × String × String) := [
  ("chicken", "monogastric", "small"),
  ("rabbit", "hindgut fermenter", "small"),
  ("duck", "monogastric", "small"),
  ("goose", "monogastric", "small"),
  ("turkey", "monogastric", "small"),
  ("other_rodents", "hindgut fermenter", "small"),
  ("pig", "monogastric", "medium"),
  ("meat_goat", "ruminant", "medium"),
  ("meat_sheep", "ruminant", "medium"),
  ("camelids", "ruminant", "medium"),
  ("meat_cattle", "ruminant", "large"),
  ("meat_camel", "ruminant", "large"),
  ("meat_buffalo", "ruminant", "large"),
  ("mule", "hindgut fermenter", "medium"),
  ("horse", "hindgut fermenter", "large"),
  ("asses", "hindgut fermenter", "medium"),
  ("milk_sheep", "ruminant", "medium"),
  ("milk_cattle", "ruminant", "large"),
  ("milk_goat", "ruminant", "medium"),
  ("milk_camel", "ruminant", "large"),
  ("milk_buffalo", "ruminant", "large")
]

end Allfed.Gen.Species
