import AllfedModel.Model.Certificate
import AllfedModel.Proofs.LP
/-!
# Optimality certificates (property C02)

Soundness of the objective rows, of the certificate checker `dualBound` (weak duality with
residual absorption) and of the variable bounds `ubOf`, on top of `Proofs/LP.lean`.
-/
namespace Allfed.Proofs.Certificate
open Allfed Allfed.LP Allfed.AllocLP Allfed.PhysSpec Allfed.Certificate Allfed.Proofs.LP

set_option linter.unusedSectionVars false
set_option linter.unusedVariables false

variable {K : Type} [Field K] [LinearOrder K] [IsStrictOrderedRing K]

/-! ## soundness of the objective -/

theorem objective_le_every_month (i : Inp K) (x : Var → K) (h : Feasible (buildLP i .toHumans) x)
    (m : Nat) (hm : m < i.nmonths) : x .objective ≤ x (.mv .consumedKcals m) :=
  objective_le_month h hm

theorem consumed_is_percent_of_need (i : Inp K) (x : Var → K) (h : Feasible (buildLP i .toHumans) x)
    (m : Nat) (hm : m < i.nmonths) :
    x (.mv .consumedKcals m) =
      (X x i.addStored .sfHumans m + X x i.addOutdoor .cropHumans m
        + X x i.addSeaweed .swHumans m * i.seaweedKcals
        + at' i.milk m + X x i.addMeat .meatEaten m + X x i.addCs .csHumans m
        + X x i.addScp .scpHumans m + at' i.greenhouse m + at' i.fish m)
        / i.billionKcalsNeeded * 100 := by
  rw [kcals_fed h hm, eval_humanSum]

theorem objective_le_weighted_total (i : Inp K) (x : Var → K)
    (h : Feasible (buildLP i .toAnimals) x) :
    x .objective ≤ 2 / 3 * (List.range i.nmonths).foldl (fun acc m => acc + feedTotal i x m) 0
                  + (List.range i.nmonths).foldl (fun acc m => acc + biofuelTotal i x m) 0 / 3 := by
  rw [← eval_nonhumanObjective]
  exact objective_le_nonhuman h

/-! ## the checker -/

theorem insertTerm_eval (x : Var → K) (v : Var) (c : K) (l : List (Var × K)) :
    Aff.sumTerms x (insertTerm v c l) = c * x v + Aff.sumTerms x l := by
  induction l with
  | nil => rfl
  | cons p t ih =>
    obtain ⟨w, d⟩ := p
    unfold insertTerm
    split_ifs with h1 h2
    · subst h1
      simp only [sumTerms_cons]; ring
    · simp only [sumTerms_cons]
    · simp only [sumTerms_cons, ih]; ring

theorem normalise_fold_eval (x : Var → K) (l acc : List (Var × K)) :
    Aff.sumTerms x (l.foldl (fun acc p => insertTerm p.1 p.2 acc) acc) =
      Aff.sumTerms x l + Aff.sumTerms x acc := by
  induction l generalizing acc with
  | nil => simp only [List.foldl_nil, sumTerms_nil, zero_add]
  | cons p t ih =>
    obtain ⟨v, c⟩ := p
    simp only [List.foldl_cons, ih, insertTerm_eval, sumTerms_cons]; ring

theorem normalise_eval (x : Var → K) (l : List (Var × K)) :
    Aff.sumTerms x (normalise l) = Aff.sumTerms x l := by
  unfold normalise
  rw [normalise_fold_eval, sumTerms_nil, add_zero]

/-- a sign-correct multiple of a row that holds is non-positive -/
theorem signOK_mul_nonpos (x : Var → K) (r : Row K) (y : K) (hs : signOK r.rel y = true)
    (hr : r.holds x) : Aff.eval x (Aff.smul y r.normal) ≤ 0 := by
  obtain ⟨n, l, rel, rh⟩ := r
  rw [eval_smul]
  show y * Aff.eval x (l - rh) ≤ 0
  rw [eval_sub]
  cases rel
  · have hy : 0 ≤ y := of_decide_eq_true hs
    have : Aff.eval x l - Aff.eval x rh ≤ 0 := sub_nonpos.mpr hr
    exact mul_nonpos_of_nonneg_of_nonpos hy this
  · have : Aff.eval x l = Aff.eval x rh := hr
    rw [this, sub_self, mul_zero]
  · have hy : y ≤ 0 := of_decide_eq_true hs
    have : 0 ≤ Aff.eval x l - Aff.eval x rh := sub_nonneg.mpr hr
    exact mul_nonpos_of_nonpos_of_nonneg hy this

/-- weak duality: a sign-correct combination of rows that hold is non-positive -/
theorem combo_nonpos (x : Var → K) (rows : List (Row K)) (y : List K)
    (hs : allSignsOK rows y = true) (hr : ∀ r ∈ rows, r.holds x) :
    Aff.eval x (combo rows y) ≤ 0 := by
  induction rows generalizing y with
  | nil => simp only [combo, eval_k, le_refl]
  | cons r rs ih =>
    cases y with
    | nil => simp only [combo, eval_k, le_refl]
    | cons y ys =>
      simp only [allSignsOK, Bool.and_eq_true] at hs
      simp only [combo, eval_add]
      have h1 := signOK_mul_nonpos x r y hs.1 (hr r (List.mem_cons_self))
      have h2 := ih ys hs.2 (fun r' hr' => hr r' (List.mem_cons_of_mem _ hr'))
      linarith

/-- the residual terms are bounded by what `absorb` returns -/
theorem absorb_sound (x : Var → K) (ub : Var → Option K) (hx : ∀ v, 0 ≤ x v)
    (hub : ∀ v u, ub v = some u → x v ≤ u) (l : List (Var × K)) (s : K)
    (h : absorb ub l = some s) : Aff.sumTerms x l ≤ s := by
  induction l generalizing s with
  | nil =>
    simp only [absorb, Option.some.injEq] at h
    rw [sumTerms_nil, ← h]
  | cons p t ih =>
    obtain ⟨v, r⟩ := p
    rw [sumTerms_cons]
    unfold absorb at h
    cases hrest : absorb ub t with
    | none => rw [hrest] at h; simp only [reduceCtorEq] at h
    | some rest =>
      rw [hrest] at h
      have hr := ih rest hrest
      simp only at h
      by_cases hle : r ≤ 0
      · rw [if_pos hle, Option.some.injEq] at h
        have : r * x v ≤ 0 := mul_nonpos_of_nonpos_of_nonneg hle (hx v)
        linarith
      · rw [if_neg hle] at h
        cases hu : ub v with
        | none => rw [hu] at h; simp only [reduceCtorEq] at h
        | some u =>
          rw [hu] at h
          simp only [Option.some.injEq] at h
          have : r * x v ≤ r * u := mul_le_mul_of_nonneg_left (hub v u hu) (not_le.mp hle).le
          linarith

theorem dualBound_sound (rows : List (Row K)) (y : List K) (ub : Var → Option K) (b : K)
    (x : Var → K) (hx : Feasible rows x) (hub : ∀ v u, ub v = some u → x v ≤ u)
    (hb : dualBound rows y ub = some b) : x .objective ≤ b := by
  unfold dualBound at hb
  by_cases hs : allSignsOK rows y = true
  · simp only [hs, Bool.not_true, Bool.false_eq_true, if_false] at hb
    cases ha : absorb ub (normalise ((Var.objective, 1) :: (Aff.neg (combo rows y)).terms)) with
    | none => rw [ha] at hb; simp only [reduceCtorEq] at hb
    | some s =>
      rw [ha] at hb
      simp only [Option.some.injEq] at hb
      have h1 := absorb_sound x ub hx.2 hub _ s ha
      rw [normalise_eval, sumTerms_cons] at h1
      have h2 : Aff.sumTerms x (Aff.neg (combo rows y)).terms = -Aff.sumTerms x (combo rows y).terms :=
        sumTerms_map_neg x _
      have h3 := combo_nonpos x rows y hs hx.1
      rw [eval_def] at h3
      rw [h2] at h1
      rw [← hb]
      linarith
  · rw [Bool.not_eq_true] at hs
    simp only [hs, Bool.not_false, if_true, reduceCtorEq] at hb

/-! ## upper bounds of the variables -/

section Bounds
variable {i : Inp K} {kind : Kind} {x : Var → K} {m : Nat}

theorem total_zero (l : List K) : total l 0 = 0 := rfl

theorem total_succ (l : List K) (n : Nat) : total l (n + 1) = total l n + at' l n := by
  unfold total
  rw [List.range_succ, List.foldl_append]
  rfl

/-- the supply of the months `0 … m` -/
theorem total_eq_cum (l : List K) (m : Nat) : total l (m + 1) = cum (at' l) m := by
  induction m with
  | zero => rw [total_succ, total_zero, zero_add, cum_zero]
  | succ m ih => rw [total_succ, ih, cum_succ]

/-- one month's draw is at most the running total when nothing drawn is negative -/
theorem single_le_cum (f : ℕ → K) (m : ℕ) (h : ∀ k, k ≤ m → 0 ≤ f k) : f m ≤ cum f m := by
  cases m with
  | zero => exact le_rfl
  | succ m =>
    rw [cum_succ]
    exact le_add_of_nonneg_left (cum_nonneg f m (fun k hk => h k (by omega)))

theorem keepPos {w : K} (hw : w < 100.0) : 0 < 1 - w / 100.0 := by
  rw [sci_100] at hw ⊢
  have : w / 100 < 1 := by rw [div_lt_one (by norm_num)]; exact hw
  linarith

theorem grossUp_nonneg {v w : K} (hw : w < 100.0) (hv : 0 ≤ v) : 0 ≤ grossUp v w :=
  div_nonneg hv (keepPos hw).le

/-- people never receive more than is drawn for them -/
theorem le_grossUp {v w : K} (hw0 : 0 ≤ w) (hw : w < 100.0) (hv : 0 ≤ v) : v ≤ grossUp v w := by
  unfold grossUp
  rw [le_div_iff₀ (keepPos hw)]
  have : 0 ≤ w / 100.0 := div_nonneg hw0 (by rw [sci_100]; norm_num)
  nlinarith

/-! ### stored food -/

theorem storedUse_nonneg (hx : ∀ v, 0 ≤ x v) (hw : i.wStored < 100.0) (k : Nat) :
    0 ≤ storedUse i x k :=
  add_nonneg (add_nonneg (grossUp_nonneg hw (hx _)) (hx _)) (hx _)

theorem storedUse_le_initial (h : Feasible (buildLP i kind) x) (hon : i.addStored = true)
    (hw : i.wStored < 100.0) (hm : m < i.nmonths) : storedUse i x m ≤ i.storedInitial :=
  le_trans (single_le_cum _ m (fun k _ => storedUse_nonneg h.2 hw k)) (stored_cumulative h hon hm)

theorem sfEnd_le (h : Feasible (buildLP i kind) x) (hon : i.addStored = true)
    (hw : i.wStored < 100.0) (hm : m < i.nmonths)
    (hreg : i.storeBetweenYears = true ∨ m ≤ 12) : x (.mv .sfEnd m) ≤ i.storedInitial := by
  rw [stored_end_eq h hon hm hreg]
  have := cum_nonneg (storedUse i x) m (fun k _ => storedUse_nonneg h.2 hw k)
  linarith

theorem sfStart_le (h : Feasible (buildLP i kind) x) (hon : i.addStored = true)
    (hw : i.wStored < 100.0) (hm : m < i.nmonths)
    (hreg : i.storeBetweenYears = true ∨ m ≤ 13) : x (.mv .sfStart m) ≤ i.storedInitial := by
  by_cases hm0 : m = 0
  · subst hm0
    rw [stored_start_zero h hon hm]
  · rw [stored_start_succ h hon hm hm0]
    exact sfEnd_le h hon hw (by omega) (hreg.imp_right (fun h13 => by omega))

theorem stored_parts_le (h : Feasible (buildLP i kind) x) (hon : i.addStored = true)
    (hw0 : 0 ≤ i.wStored) (hw : i.wStored < 100.0) (hm : m < i.nmonths) :
    x (.mv .sfHumans m) ≤ i.storedInitial ∧ x (.mv .sfFeed m) ≤ i.storedInitial ∧
      x (.mv .sfBiofuel m) ≤ i.storedInitial := by
  have hu := storedUse_le_initial h hon hw hm
  unfold storedUse at hu
  have h1 := le_grossUp hw0 hw (h.2 (.mv .sfHumans m))
  have h2 := grossUp_nonneg hw (h.2 (.mv .sfHumans m))
  have h3 := h.2 (.mv .sfFeed m)
  have h4 := h.2 (.mv .sfBiofuel m)
  refine ⟨?_, ?_, ?_⟩ <;> linarith

/-! ### crops -/

theorem cropUse_nonneg (hx : ∀ v, 0 ≤ x v) (hw : i.wCrop < 100.0) (k : Nat) : 0 ≤ cropUse i x k :=
  add_nonneg (add_nonneg (grossUp_nonneg hw (hx _)) (hx _)) (hx _)

theorem cropUse_le_total (h : Feasible (buildLP i kind) x) (hon : i.addOutdoor = true)
    (hw : i.wCrop < 100.0) (hm : m < i.nmonths) : cropUse i x m ≤ total i.cropProd (m + 1) := by
  rw [total_eq_cum]
  exact le_trans (single_le_cum _ m (fun k _ => cropUse_nonneg h.2 hw k)) (crop_cumulative h hon hm)

theorem crop_vars_le (h : Feasible (buildLP i kind) x) (hon : i.addOutdoor = true)
    (hw0 : 0 ≤ i.wCrop) (hw : i.wCrop < 100.0) (hm : m < i.nmonths) :
    x (.mv .cropStorage m) ≤ total i.cropProd (m + 1) ∧
    x (.mv .cropConsumed m) ≤ total i.cropProd (m + 1) ∧
    x (.mv .cropHumans m) ≤ total i.cropProd (m + 1) ∧
    x (.mv .cropFeed m) ≤ total i.cropProd (m + 1) ∧
    x (.mv .cropBiofuel m) ≤ total i.cropProd (m + 1) := by
  have hu := cropUse_le_total h hon hw hm
  have hc := crop_consumed h hon hm
  have hst := crop_storage_eq h hon hm
  have hcn := cum_nonneg (cropUse i x) m (fun k _ => cropUse_nonneg h.2 hw k)
  rw [← total_eq_cum] at hst
  unfold cropUse at hu hc
  have h1 := le_grossUp hw0 hw (h.2 (.mv .cropHumans m))
  have h2 := grossUp_nonneg hw (h.2 (.mv .cropHumans m))
  have h3 := h.2 (.mv .cropFeed m)
  have h4 := h.2 (.mv .cropBiofuel m)
  refine ⟨?_, ?_, ?_, ?_, ?_⟩ <;> linarith

/-! ### meat -/

theorem meatUse_nonneg (hx : ∀ v, 0 ≤ x v) (hw : i.wMeat < 100.0) (k : Nat) : 0 ≤ meatUse i x k :=
  grossUp_nonneg hw (hx _)

theorem meat_vars_le (h : Feasible (buildLP i kind) x) (hon : i.addMeat = true)
    (hs : i.storeBetweenYears = true) (hw0 : 0 ≤ i.wMeat) (hw : i.wMeat < 100.0)
    (hm : m < i.nmonths) :
    x (.mv .meatStart m) ≤ i.meatSummed ∧ x (.mv .meatEnd m) ≤ i.meatSummed ∧
      x (.mv .meatEaten m) ≤ i.meatSummed := by
  have hend : ∀ n, n < i.nmonths → x (.mv .meatEnd n) ≤ i.meatSummed := by
    intro n hn
    rw [meat_end_eq h hon hs hn]
    have := cum_nonneg (meatUse i x) n (fun k _ => meatUse_nonneg h.2 hw k)
    linarith
  refine ⟨?_, hend m hm, ?_⟩
  · by_cases hm0 : m = 0
    · subst hm0
      rw [meat_start_zero h hon hs hm]
    · rw [meat_start_succ h hon hs hm hm0]
      exact hend _ (by omega)
  · have h1 := le_grossUp hw0 hw (h.2 (.mv .meatEaten m))
    have h2 : meatUse i x m ≤ cum (meatUse i x) m :=
      single_le_cum _ m (fun k _ => meatUse_nonneg h.2 hw k)
    have h3 := meat_total h hon hs hm
    have h4 : meatUse i x m = grossUp (x (.mv .meatEaten m)) i.wMeat := rfl
    linarith

theorem meatEaten_le_slaughtered (h : Feasible (buildLP i kind) x) (hon : i.addMeat = true)
    (hs : i.storeBetweenYears = false) (hw0 : 0 ≤ i.wMeat) (hw : i.wMeat < 100.0)
    (hm : m < i.nmonths) : x (.mv .meatEaten m) ≤ at' i.slaughtered m :=
  le_trans (le_grossUp hw0 hw (h.2 _)) (meat_monthly h hon hs hm)

/-! ### single-cell protein, cellulosic sugar -/

theorem scp_vars_le (h : Feasible (buildLP i kind) x) (hon : i.addScp = true)
    (hw0 : 0 ≤ i.wScp) (hw : i.wScp < 100.0) (hm : m < i.nmonths) :
    x (.mv .scpHumans m) ≤ at' i.scp m ∧ x (.mv .scpFeed m) ≤ at' i.scp m ∧
      x (.mv .scpBiofuel m) ≤ at' i.scp m := by
  have hu := scp_cap h hon hm
  unfold scpUse at hu
  have h1 := le_grossUp hw0 hw (h.2 (.mv .scpHumans m))
  have h2 := grossUp_nonneg hw (h.2 (.mv .scpHumans m))
  have h3 := h.2 (.mv .scpFeed m)
  have h4 := h.2 (.mv .scpBiofuel m)
  refine ⟨?_, ?_, ?_⟩ <;> linarith

theorem cs_vars_le (h : Feasible (buildLP i kind) x) (hon : i.addCs = true)
    (hw0 : 0 ≤ i.wCs) (hw : i.wCs < 100.0) (hm : m < i.nmonths) :
    x (.mv .csHumans m) ≤ at' i.cs m ∧ x (.mv .csFeed m) ≤ at' i.cs m ∧
      x (.mv .csBiofuel m) ≤ at' i.cs m := by
  have hu := cs_cap h hon hm
  unfold csUse at hu
  have h1 := le_grossUp hw0 hw (h.2 (.mv .csHumans m))
  have h2 := grossUp_nonneg hw (h.2 (.mv .csHumans m))
  have h3 := h.2 (.mv .csFeed m)
  have h4 := h.2 (.mv .csBiofuel m)
  refine ⟨?_, ?_, ?_⟩ <;> linarith

end Bounds

/-! ### seaweed harvest -/

section Seaweed
variable {i : Inp K} {kind : Kind} {x : Var → K} {m : Nat}

/-- what leaves the farm in month `m ≥ 1` is at most `swCap i m` -/
theorem seaweed_harvest_le (h : Feasible (buildLP i kind) x) (hon : i.addSeaweed = true)
    (hminD : 0 ≤ i.minDensity) (hhl : 0 ≤ i.harvestLoss) (hg : -100.0 ≤ at' i.growth m)
    (hm : m < i.nmonths) (hm0 : m ≠ 0) :
    grossUp (x (.mv .swHumans m)) i.wSeaweed + x (.mv .swFeed m) + x (.mv .swBiofuel m)
      ≤ swCap i m := by
  have hl := seaweed_ledger h hon hm hm0
  obtain ⟨-, b2, -, b4⟩ := seaweed_bounds (m := m - 1) h hon (by omega)
  have w0 := h.2 (.mv .swWet m)
  have a0 := h.2 (.mv .usedArea m)
  unfold seaweedLedger at hl
  unfold swCap
  have hG : 0 ≤ 1 + at' i.growth m / 100.0 := by
    rw [sci_100] at hg ⊢
    have : -1 ≤ at' i.growth m / 100 := by
      rw [le_div_iff₀ (by norm_num)]; linarith
    linarith
  have hc : 0 ≤ i.minDensity * (i.harvestLoss / 100.0) :=
    mul_nonneg hminD (div_nonneg hhl (by rw [sci_100]; norm_num))
  generalize 1 + at' i.growth m / 100.0 = G at *
  generalize i.harvestLoss / 100.0 = hl' at *
  have h1 := mul_le_mul_of_nonneg_right b2 hG
  have h2 := mul_le_mul_of_nonneg_right b4 hc
  have h3 := mul_nonneg a0 hc
  nlinarith

theorem seaweed_harvest_vars_le (h : Feasible (buildLP i kind) x) (hon : i.addSeaweed = true)
    (hw0 : 0 ≤ i.wSeaweed) (hw : i.wSeaweed < 100.0)
    (hminD : 0 ≤ i.minDensity) (hhl : 0 ≤ i.harvestLoss) (hg : -100.0 ≤ at' i.growth m)
    (hm : m < i.nmonths) (hm0 : m ≠ 0) :
    x (.mv .swHumans m) ≤ swCap i m ∧ x (.mv .swFeed m) ≤ swCap i m ∧
      x (.mv .swBiofuel m) ≤ swCap i m := by
  have hu := seaweed_harvest_le h hon hminD hhl hg hm hm0
  have h1 := le_grossUp hw0 hw (h.2 (.mv .swHumans m))
  have h2 := grossUp_nonneg hw (h.2 (.mv .swHumans m))
  have h3 := h.2 (.mv .swFeed m)
  have h4 := h.2 (.mv .swBiofuel m)
  refine ⟨?_, ?_, ?_⟩ <;> linarith

end Seaweed

/-! ### the bounds the checker uses -/

theorem capOf_valid (i : Inp K) (kind : Kind) (x : Var → K) (hw : WellFormed i)
    (h : Feasible (buildLP i kind) x) (k : VK) (m : Nat) (hm : m < i.nmonths) (u : K)
    (hu : capOf i k m = some u) : x (.mv k m) ≤ u := by
  obtain ⟨⟨hS0, hS⟩, ⟨hC0, hC⟩, ⟨hM0, hM⟩, ⟨hP0, hP⟩, ⟨hZ0, hZ⟩, ⟨hW0, hW⟩, -, -, hminD, hhl, -, hgr⟩ := hw
  unfold capOf at hu
  cases k <;> simp only at hu
  · -- sfStart
    split_ifs at hu with hc
    · obtain rfl := Option.some.inj hu
      simp only [Bool.and_eq_true, Bool.or_eq_true, decide_eq_true_eq] at hc
      exact sfStart_le h hc.1 hS hm hc.2
  · -- sfEnd
    split_ifs at hu with hc
    · obtain rfl := Option.some.inj hu
      simp only [Bool.and_eq_true, Bool.or_eq_true, decide_eq_true_eq] at hc
      exact sfEnd_le h hc.1 hS hm hc.2
  · split_ifs at hu with hoff hreg
    · obtain rfl := Option.some.inj hu
      have hon : i.addStored = true := by simpa using hoff
      exact (stored_parts_le h hon hS0 hS hm).1
    · obtain rfl := Option.some.inj hu
      have hon : i.addStored = true := by simpa using hoff
      simp only [Bool.or_eq_true, decide_eq_true_eq, not_or, Bool.not_eq_true, not_le] at hreg
      exact (stored_vars_zero h hon hreg.1 hm hreg.2).1.le
  · split_ifs at hu with hoff hreg
    · obtain rfl := Option.some.inj hu
      have hon : i.addStored = true := by simpa using hoff
      exact (stored_parts_le h hon hS0 hS hm).2.1
    · obtain rfl := Option.some.inj hu
      have hon : i.addStored = true := by simpa using hoff
      simp only [Bool.or_eq_true, decide_eq_true_eq, not_or, Bool.not_eq_true, not_le] at hreg
      exact (stored_vars_zero h hon hreg.1 hm hreg.2).2.1.le
  · split_ifs at hu with hoff hreg
    · obtain rfl := Option.some.inj hu
      have hon : i.addStored = true := by simpa using hoff
      exact (stored_parts_le h hon hS0 hS hm).2.2
    · obtain rfl := Option.some.inj hu
      have hon : i.addStored = true := by simpa using hoff
      simp only [Bool.or_eq_true, decide_eq_true_eq, not_or, Bool.not_eq_true, not_le] at hreg
      exact (stored_vars_zero h hon hreg.1 hm hreg.2).2.2.le
  · split_ifs at hu with hon
    · obtain rfl := Option.some.inj hu
      exact (scp_vars_le h hon hP0 hP hm).1
  · split_ifs at hu with hon
    · obtain rfl := Option.some.inj hu
      exact (scp_vars_le h hon hP0 hP hm).2.1
  · split_ifs at hu with hon
    · obtain rfl := Option.some.inj hu
      exact (scp_vars_le h hon hP0 hP hm).2.2
  · split_ifs at hu with hon
    · obtain rfl := Option.some.inj hu
      exact (cs_vars_le h hon hZ0 hZ hm).1
  · split_ifs at hu with hon
    · obtain rfl := Option.some.inj hu
      exact (cs_vars_le h hon hZ0 hZ hm).2.1
  · split_ifs at hu with hon
    · obtain rfl := Option.some.inj hu
      exact (cs_vars_le h hon hZ0 hZ hm).2.2
  · split_ifs at hu with hc
    · obtain rfl := Option.some.inj hu
      simp only [Bool.and_eq_true] at hc
      exact (meat_vars_le h hc.1 hc.2 hM0 hM hm).1
  · split_ifs at hu with hc
    · obtain rfl := Option.some.inj hu
      simp only [Bool.and_eq_true] at hc
      exact (meat_vars_le h hc.1 hc.2 hM0 hM hm).2.1
  · -- meatEaten
    split_ifs at hu with hoff hs
    · obtain rfl := Option.some.inj hu
      have hon : i.addMeat = true := by simpa using hoff
      exact (meat_vars_le h hon hs hM0 hM hm).2.2
    · obtain rfl := Option.some.inj hu
      have hon : i.addMeat = true := by simpa using hoff
      have hs' : i.storeBetweenYears = false := by simpa using hs
      exact meatEaten_le_slaughtered h hon hs' hM0 hM hm
  · split_ifs at hu with hon
    · obtain rfl := Option.some.inj hu
      exact (crop_vars_le h hon hC0 hC hm).1
  · split_ifs at hu with hon
    · obtain rfl := Option.some.inj hu
      exact (crop_vars_le h hon hC0 hC hm).2.1
  · split_ifs at hu with hon
    · obtain rfl := Option.some.inj hu
      exact (crop_vars_le h hon hC0 hC hm).2.2.1
  · split_ifs at hu with hon
    · obtain rfl := Option.some.inj hu
      exact (crop_vars_le h hon hC0 hC hm).2.2.2.1
  · split_ifs at hu with hon
    · obtain rfl := Option.some.inj hu
      exact (crop_vars_le h hon hC0 hC hm).2.2.2.2
  · -- swWet
    split_ifs at hu with hon
    · obtain rfl := Option.some.inj hu
      exact (seaweed_bounds h hon hm).2.1
  · split_ifs at hu with hoff hm0
    · obtain rfl := Option.some.inj hu
      have hon : i.addSeaweed = true := by simpa using hoff
      subst hm0
      exact (seaweed_month_zero h hon hm).2.2.1.le
    · obtain rfl := Option.some.inj hu
      have hon : i.addSeaweed = true := by simpa using hoff
      exact (seaweed_harvest_vars_le h hon hW0 hW hminD hhl (hgr m hm) hm hm0).1
  · split_ifs at hu with hoff hm0
    · obtain rfl := Option.some.inj hu
      have hon : i.addSeaweed = true := by simpa using hoff
      subst hm0
      exact (seaweed_month_zero h hon hm).2.2.2.1.le
    · obtain rfl := Option.some.inj hu
      have hon : i.addSeaweed = true := by simpa using hoff
      exact (seaweed_harvest_vars_le h hon hW0 hW hminD hhl (hgr m hm) hm hm0).2.1
  · split_ifs at hu with hoff hm0
    · obtain rfl := Option.some.inj hu
      have hon : i.addSeaweed = true := by simpa using hoff
      subst hm0
      exact (seaweed_month_zero h hon hm).2.2.2.2.le
    · obtain rfl := Option.some.inj hu
      have hon : i.addSeaweed = true := by simpa using hoff
      exact (seaweed_harvest_vars_le h hon hW0 hW hminD hhl (hgr m hm) hm hm0).2.2
  · -- usedArea
    split_ifs at hu with hon
    · obtain rfl := Option.some.inj hu
      exact (seaweed_bounds h hon hm).2.2.2
  · -- consumedKcals
    simp only [reduceCtorEq] at hu

/-- what `humanSum` reads for a resource is within `capH` -/
theorem capH_valid (i : Inp K) (kind : Kind) (x : Var → K) (hw : WellFormed i)
    (h : Feasible (buildLP i kind) x) (on : Bool) (k : VK) (m : Nat) (hm : m < i.nmonths) (u : K)
    (hu : capH i on k m = some u) : X x on k m ≤ u := by
  unfold capH at hu
  unfold X
  cases on
  · simp only [Bool.false_eq_true, if_false, Option.some.injEq] at hu ⊢
    exact hu.le
  · simp only [if_true] at hu ⊢
    exact capOf_valid i kind x hw h k m hm u hu

theorem consumedCap_valid (i : Inp K) (x : Var → K) (hw : WellFormed i)
    (h : Feasible (buildLP i .toHumans) x) (m : Nat) (hm : m < i.nmonths) (u : K)
    (hu : consumedCap i m = some u) : x (.mv .consumedKcals m) ≤ u := by
  have hkc : 0 ≤ i.seaweedKcals := hw.2.2.2.2.2.2.2.2.2.2.1
  unfold consumedCap at hu
  split_ifs at hu with hb
  cases h1 : capH i i.addStored .sfHumans m with
  | none => simp only [h1, reduceCtorEq] at hu
  | some a =>
  cases h2 : capH i i.addOutdoor .cropHumans m with
  | none => simp only [h1, h2, reduceCtorEq] at hu
  | some b =>
  cases h3 : capH i i.addSeaweed .swHumans m with
  | none => simp only [h1, h2, h3, reduceCtorEq] at hu
  | some c =>
  cases h4 : capH i i.addMeat .meatEaten m with
  | none => simp only [h1, h2, h3, h4, reduceCtorEq] at hu
  | some d =>
  cases h5 : capH i i.addCs .csHumans m with
  | none => simp only [h1, h2, h3, h4, h5, reduceCtorEq] at hu
  | some e =>
  cases h6 : capH i i.addScp .scpHumans m with
  | none => simp only [h1, h2, h3, h4, h5, h6, reduceCtorEq] at hu
  | some f =>
    simp only [h1, h2, h3, h4, h5, h6, Option.some.injEq] at hu
    have g1 := capH_valid i .toHumans x hw h _ _ m hm a h1
    have g2 := capH_valid i .toHumans x hw h _ _ m hm b h2
    have g3 := capH_valid i .toHumans x hw h _ _ m hm c h3
    have g4 := capH_valid i .toHumans x hw h _ _ m hm d h4
    have g5 := capH_valid i .toHumans x hw h _ _ m hm e h5
    have g6 := capH_valid i .toHumans x hw h _ _ m hm f h6
    have g3' := mul_le_mul_of_nonneg_right g3 hkc
    rw [kcals_fed h hm, eval_humanSum, ← hu, sci_100]
    have hle : X x i.addStored .sfHumans m + X x i.addOutdoor .cropHumans m
        + X x i.addSeaweed .swHumans m * i.seaweedKcals + at' i.milk m + X x i.addMeat .meatEaten m
        + X x i.addCs .csHumans m + X x i.addScp .scpHumans m + at' i.greenhouse m + at' i.fish m
        ≤ a + b + c * i.seaweedKcals + at' i.milk m + d + e + f + at' i.greenhouse m + at' i.fish m := by
      linarith
    exact mul_le_mul_of_nonneg_right (div_le_div_of_nonneg_right hle hb.le) (by norm_num)

theorem foldl_add_le (f g : Nat → K) (l : List Nat) (a b : K) (hab : a ≤ b)
    (h : ∀ m ∈ l, f m ≤ g m) :
    l.foldl (fun acc m => acc + f m) a ≤ l.foldl (fun acc m => acc + g m) b := by
  induction l generalizing a b with
  | nil => exact hab
  | cons m t ih =>
    simp only [List.foldl_cons]
    exact ih _ _ (add_le_add hab (h m List.mem_cons_self))
      (fun k hk => h k (List.mem_cons_of_mem _ hk))

theorem foldl_add_zero (f : Nat → K) (l : List Nat) (h : ∀ m ∈ l, f m = 0) :
    l.foldl (fun acc m => acc + f m) 0 = 0 := by
  induction l with
  | nil => rfl
  | cons m t ih =>
    simp only [List.foldl_cons, h m List.mem_cons_self, add_zero]
    exact ih (fun k hk => h k (List.mem_cons_of_mem _ hk))

/-- the objective of the feed-maximising round is within the weighted ceilings -/
theorem objective_toAnimals_le (i : Inp K) (x : Var → K) (h : Feasible (buildLP i .toAnimals) x) :
    x .objective ≤
      if anyFeedVar i then 2 / 3 * total i.maxFeed i.nmonths + total i.maxBiofuel i.nmonths / 3
      else 0 := by
  have hobj := objective_le_nonhuman h
  rw [eval_nonhumanObjective] at hobj
  by_cases hany : anyFeedVar i = true
  · rw [if_pos hany]
    have h1 : (List.range i.nmonths).foldl (fun acc m => acc + feedTotal i x m) 0
        ≤ total i.maxFeed i.nmonths :=
      foldl_add_le _ _ _ 0 0 le_rfl
        (fun m hm => (feed_biofuel_le_ceiling h hany (List.mem_range.mp hm)).1)
    have h2 : (List.range i.nmonths).foldl (fun acc m => acc + biofuelTotal i x m) 0
        ≤ total i.maxBiofuel i.nmonths :=
      foldl_add_le _ _ _ 0 0 le_rfl
        (fun m hm => (feed_biofuel_le_ceiling h hany (List.mem_range.mp hm)).2)
    linarith
  · rw [if_neg hany]
    rw [Bool.not_eq_true] at hany
    have hoff : i.addStored = false ∧ i.addOutdoor = false ∧ i.addSeaweed = false ∧
        i.addCs = false ∧ i.addScp = false := by
      unfold anyFeedVar at hany
      simp only [Bool.or_eq_false_iff] at hany
      exact ⟨hany.1.1.1.1, hany.1.1.1.2, hany.1.1.2, hany.1.2, hany.2⟩
    obtain ⟨o1, o2, o3, o4, o5⟩ := hoff
    have hf : ∀ m, feedTotal i x m = 0 := by
      intro m
      simp only [feedTotal, X, o1, o2, o3, o4, o5, Bool.false_eq_true, if_false]
      ring
    have hb : ∀ m, biofuelTotal i x m = 0 := by
      intro m
      simp only [biofuelTotal, X, o1, o2, o3, o4, o5, Bool.false_eq_true, if_false]
      ring
    rw [foldl_add_zero _ _ (fun m _ => hf m), foldl_add_zero _ _ (fun m _ => hb m)] at hobj
    linarith

theorem ubOf_valid (i : Inp K) (kind : Kind) (x : Var → K) (hw : WellFormed i)
    (h : Feasible (buildLP i kind) x) : ∀ v u, ubOf i kind v = some u → x v ≤ u := by
  intro v u hu
  cases v with
  | objectiveBest => simp only [ubOf, reduceCtorEq] at hu
  | objective =>
    cases kind with
    | toHumans =>
      simp only [ubOf] at hu
      split_ifs at hu with hN
      exact le_trans (objective_le_month h hN) (consumedCap_valid i x hw h 0 hN u hu)
    | toAnimals =>
      have hobj := objective_toAnimals_le i x h
      simp only [ubOf] at hu
      split_ifs at hu hobj with hany
      · obtain rfl := Option.some.inj hu
        have e1 : (2.0 : K) / 3.0 = 2 / 3 := by norm_num
        have e2 : (3.0 : K) = 3 := by norm_num
        rw [e1, e2]
        exact hobj
      · obtain rfl := Option.some.inj hu
        exact hobj
  | mv k m =>
    unfold ubOf at hu
    by_cases hmN : i.nmonths ≤ m
    · simp only [hmN, if_true, reduceCtorEq] at hu
    · simp only [hmN, if_false] at hu
      have hm : m < i.nmonths := by omega
      by_cases hk : k = .consumedKcals
      · subst hk
        cases kind with
        | toHumans => exact consumedCap_valid i x hw h m hm u hu
        | toAnimals => simp only [reduceCtorEq] at hu
      · have : capOf i k m = some u := by
          cases k <;> first | exact absurd rfl hk | exact hu
        exact capOf_valid i kind x hw h k m hm u this

/-- the Boolean the driver evaluates is `WellFormed` -/
theorem wellFormedB_iff (i : Inp K) : wellFormedB i = true ↔ WellFormed i := by
  unfold wellFormedB WellFormed
  simp only [Bool.and_eq_true, decide_eq_true_eq, List.all_eq_true, List.mem_range, and_assoc]

end Allfed.Proofs.Certificate
