"""Scratch copy of /repo's working tree; the real modules are imported from it, never from /repo."""
import atexit, os, shutil, subprocess, sys, tempfile

REPO = os.environ.get("VERIF_REPO", "/repo")
_made = []


def make_scratch(tag="allfed-verif"):
    base = os.environ.get("VERIF_SCRATCH_BASE") or os.environ.get("TMPDIR") or "/var/tmp"
    os.makedirs(base, exist_ok=True)
    d = tempfile.mkdtemp(prefix=tag + "-", dir=base)
    subprocess.run(
        ["rsync", "-a", "--exclude", ".git", "--exclude", "docs", "--exclude", "results/*",
         "--exclude", "outfile.png", "--exclude", "__pycache__", "--exclude", "*.pyc",
         REPO.rstrip("/") + "/", d + "/"], check=True)
    os.makedirs(os.path.join(d, "results"), exist_ok=True)
    subprocess.run(["git", "init", "-q", d], check=True, stdout=subprocess.DEVNULL, stderr=subprocess.DEVNULL)
    _made.append(d)
    return d


def cleanup():
    for d in _made:
        shutil.rmtree(d, ignore_errors=True)
    _made.clear()


atexit.register(cleanup)


def enter(d):
    """chdir into the scratch copy and make `import src…` resolve there."""
    os.chdir(d)
    sys.path[:] = [p for p in sys.path if os.path.abspath(p or ".") != os.path.abspath(REPO)]
    sys.path.insert(0, d)
    for m in list(sys.modules):
        if m == "src" or m.startswith("src."):
            del sys.modules[m]
    import importlib
    importlib.invalidate_caches()
    import src  # noqa
    assert os.path.abspath(os.path.dirname(src.__file__)) == os.path.join(os.path.abspath(d), "src"), src.__file__
