import AllfedModel.Num.Basic
/-
Syntactic linear programmes (properties C01, C02, C03, C04, C12, C16).

The optimiser of `/repo/src/optimizer/optimizer.py` builds a PuLP model; this file gives the
data type in which the Lean model builds *the same rows*, an evaluator, and feasibility.
A row is `lhs rel rhs` with affine expressions on both sides, exactly as the Python source writes
`condition = (expr_left <= expr_right)`; PuLP moves everything to the left internally, and the
driver prints the normal form `Σ coef·var + const  rel  0` that the harness compares with PuLP's.
-/
namespace Allfed.LP

/-- the LpVariable families of `load_variable_names_and_prefixes` (+ `Humans_Fed_Kcals`) -/
inductive VK
  | sfStart | sfEnd | sfHumans | sfFeed | sfBiofuel
  | scpHumans | scpFeed | scpBiofuel
  | csHumans | csFeed | csBiofuel
  | meatStart | meatEnd | meatEaten
  | cropStorage | cropConsumed | cropHumans | cropFeed | cropBiofuel
  | swWet | swHumans | swFeed | swBiofuel | usedArea
  | consumedKcals
  deriving DecidableEq, Repr, Inhabited

inductive Var
  | mv (k : VK) (month : Nat)
  /-- `Objective_To_Optimize` -/
  | objective
  /-- `TO_HUMANS_OBJECTIVE` of the second solve -/
  | objectiveBest
  deriving DecidableEq, Repr, Inhabited

def VK.prefix : VK → String
  | .sfStart => "Stored_Food_Start" | .sfEnd => "Stored_Food_End" | .sfHumans => "Stored_Food_To_Humans"
  | .sfFeed => "Stored_Food_Feed" | .sfBiofuel => "Stored_Food_Biofuel"
  | .scpHumans => "Methane_SCP_To_Humans" | .scpFeed => "Methane_SCP_Feed" | .scpBiofuel => "Methane_SCP_Biofuel"
  | .csHumans => "Cellulosic_Sugar_To_Humans" | .csFeed => "Cellulosic_Sugar_Feed" | .csBiofuel => "Cellulosic_Sugar_Biofuel"
  | .meatStart => "Meat_Start" | .meatEnd => "Meat_End" | .meatEaten => "Meat_Eaten"
  | .cropStorage => "Crops_Food_Storage" | .cropConsumed => "Crops_Food_Consumed" | .cropHumans => "Crops_Food_To_Humans"
  | .cropFeed => "Crops_Food_Feed" | .cropBiofuel => "Crops_Food_Biofuel"
  | .swWet => "Seaweed_Wet_On_Farm" | .swHumans => "Seaweed_To_Humans" | .swFeed => "Seaweed_Feed"
  | .swBiofuel => "Seaweed_Biofuel" | .usedArea => "Used_Area"
  | .consumedKcals => "Humans_Fed_Kcals"

/-- the name PuLP gives the variable -/
def Var.name : Var → String
  | .mv .consumedKcals m => s!"Humans_Fed_Kcals_{m}_Variable"
  | .mv k m => s!"{k.prefix}_Month_{m}_Variable"
  | .objective => "Objective_To_Optimize"
  | .objectiveBest => "TO_HUMANS_OBJECTIVE"

inductive Rel | le | eq | ge
  deriving DecidableEq, Repr, Inhabited

/-- affine expression `Σ coef·var + const` -/
structure Aff (α : Type) where
  terms : List (Var × α)
  const : α

structure Row (α : Type) where
  name : String
  lhs : Aff α
  rel : Rel
  rhs : Aff α

section
variable {α : Type} [Add α] [Sub α] [Mul α] [Div α] [Neg α] [LE α] [LT α] [OfNat α 0] [OfNat α 1]

namespace Aff
/-- a variable with coefficient one -/
def var (v : Var) : Aff α := ⟨[(v, 1)], 0⟩
/-- a constant -/
def k (c : α) : Aff α := ⟨[], c⟩
def add (a b : Aff α) : Aff α := ⟨a.terms ++ b.terms, a.const + b.const⟩
def smul (s : α) (a : Aff α) : Aff α := ⟨a.terms.map (fun p => (p.1, s * p.2)), s * a.const⟩
def neg (a : Aff α) : Aff α := ⟨a.terms.map (fun p => (p.1, -p.2)), -a.const⟩
def sub (a b : Aff α) : Aff α := add a (neg b)
/-- `expr * s` (PuLP multiplies every coefficient) -/
def mulr (a : Aff α) (s : α) : Aff α := ⟨a.terms.map (fun p => (p.1, p.2 * s)), a.const * s⟩
/-- `expr / s` -/
def divr (a : Aff α) (s : α) : Aff α := ⟨a.terms.map (fun p => (p.1, p.2 / s)), a.const / s⟩
instance : Add (Aff α) := ⟨add⟩
instance : Sub (Aff α) := ⟨sub⟩
instance : Neg (Aff α) := ⟨neg⟩
/-- a variable that exists only when its resource is switched on; otherwise the literal `0` of
    `load_variable_names_and_prefixes` -/
def varIf (b : Bool) (v : Var) : Aff α := if b then var v else k 0

def sumTerms (x : Var → α) : List (Var × α) → α
  | [] => 0
  | (v, c) :: t => c * x v + sumTerms x t

def eval (x : Var → α) (a : Aff α) : α := sumTerms x a.terms + a.const
end Aff

def Row.holds (x : Var → α) (r : Row α) : Prop :=
  match r.rel with
  | .le => Aff.eval x r.lhs ≤ Aff.eval x r.rhs
  | .eq => Aff.eval x r.lhs = Aff.eval x r.rhs
  | .ge => Aff.eval x r.rhs ≤ Aff.eval x r.lhs

/-- every row holds and every variable respects its lower bound 0 (`lowBound=0` on all LpVariables) -/
def Feasible (rows : List (Row α)) (x : Var → α) : Prop :=
  (∀ r ∈ rows, r.holds x) ∧ ∀ v, 0 ≤ x v

/-- normal form for printing / comparison: `lhs − rhs` -/
def Row.normal (r : Row α) : Aff α := r.lhs - r.rhs

end
end Allfed.LP
