import sys, time, os, io, contextlib
os.chdir('/repo'); sys.path.insert(0,'/repo')
import matplotlib; matplotlib.use('Agg')
import numpy as np, pandas as pd, warnings
warnings.filterwarnings('ignore')
from src.scenarios.run_scenario import ScenarioRunner
from src.optimizer.optimizer import Optimizer
cap=[]
_oh=Optimizer.optimize_to_humans; _oa=Optimizer.optimize_feed_to_animals
def oh(self,c,t):
    r=_oh(self,c,t); cap.append(('humans',self,r)); return r
def oa(self,c,t,m):
    r=_oa(self,c,t,m); cap.append(('animals',self,r)); return r
Optimizer.optimize_to_humans=oh; Optimizer.optimize_feed_to_animals=oa
tab=pd.read_csv('/repo/data/no_food_trade/computer_readable_combined.csv')
rows={r['iso3']:r for _,r in tab.iterrows()}
base=dict(scale='country',seasonality='country',grasses='country_nuclear_winter',crop_disruption='country_nuclear_winter',
 scenario='no_resilient_foods',fish='nuclear_winter',waste='baseline_in_country',nutrition='catastrophe',intake_constraints='enabled',
 stored_food='baseline',ratio_stocks_untouched='zero',shutoff='continued',cull='do_eat_culled',fat='not_required',protein='not_required',meat_strategy='reduce_breeding',NMONTHS=120)
for kv in sys.argv[2:]:
    k,v=kv.split('='); base[k]=v
def val(v): return v.varValue if hasattr(v,'varValue') else float(v)
for iso in sys.argv[1].split(','):
    cap.clear()
    row=rows[iso]; sr=ScenarioRunner()
    try:
        with contextlib.redirect_stdout(io.StringIO()) as so:
            c,tc,sl=sr.set_depending_on_option(base,country_data=row)
            res=sr.run_and_analyze_scenario(c,tc,sl,False,False,'',row,False,row['country'],iso,title='scratch_'+iso)
    except BaseException as e:
        print(iso,'EXC',type(e).__name__,str(e)[:200]); continue
    for i,(kind,o,r) in enumerate(cap):
        V=r[1]; C=o.consts_for_optimizer; T=o.time_consts; N=C['NMONTHS']
        w=C['MEAT_WASTE_RETAIL']/100
        eaten=np.array([val(V['meat_eaten'][m]) for m in range(N)])/(1-w)
        sl=np.array(T['each_month_meat_slaughtered'].kcals)
        exc=(np.cumsum(eaten)-np.cumsum(sl))
        print(iso,i,kind,"obj %.5f"%r[3],'meat total eaten %.1f slaughtered %.1f summed %.1f; max cumulative excess %.2f at m=%d'%(eaten.sum(),sl.sum(),C['meat_summed_consumption'],exc.max(),exc.argmax()))
