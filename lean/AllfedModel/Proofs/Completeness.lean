import AllfedModel.Model.AllocSpec
import AllfedModel.Proofs.LP
import AllfedModel.Proofs.Report
/-!
# Completeness of the LP (property C02): feasible points = physically feasible allocations

`sound_humans`: the allocation inside a feasible point of `buildLP i .toHumans` is physically
feasible and the objective is at most its worst month.
`complete_humans`: every physically feasible allocation is the allocation of a feasible point whose
objective is its worst month (stock variables reconstructed as running differences).
`lp_optimum_is_true_optimum`: the achievable objective values are exactly the numbers in
`[0, worst month of a physically feasible allocation]`.
-/
namespace Allfed.Proofs.Completeness
open Allfed Allfed.LP Allfed.AllocLP Allfed.PhysSpec Allfed.Report Allfed.AllocSpec
open Allfed.Proofs.LP Allfed.Proofs.Report

set_option linter.unusedSectionVars false
set_option linter.unusedVariables false
set_option linter.unusedSimpArgs false

variable {K : Type} [Field K] [LinearOrder K] [IsStrictOrderedRing K]

/-! ## soundness: from a feasible point to its allocation -/

section Sound
variable {i : Inp K} {x : Var → K}

theorem given_allocOf (i : Inp K) (x : Var → K) (m : Nat) :
    given i (allocOf x) m = humanTotal i x m := rfl

/-- the percent-fed variable of a feasible point is the percentage of its allocation -/
theorem consumed_eq_pct (h : HumanSpec i x) (m : Nat) (hm : m < i.nmonths) :
    x (.mv .consumedKcals m) = pct i (allocOf x) m := (h.general m hm).2.1

theorem intakeOK_of_spec (h : HumanSpec i x) (m : Nat) (hm : m < i.nmonths) (on : Bool) (ratio : K)
    (vH vF vB : VK) (limH limF limB : K)
    (hi : IntakeSpec i x on ratio vH vF vB limH limF limB m) :
    IntakeOK i (allocOf x) on ratio (fun m => x (.mv vH m)) (fun m => x (.mv vF m))
      (fun m => x (.mv vB m)) limH limF limB m := by
  intro hon
  have := hi hon
  rw [consumed_eq_pct h m hm] at this
  exact this

theorem sound_humans (i : Inp K) (x : Var → K) (hN : 2 ≤ i.nmonths)
    (h : Feasible (buildLP i .toHumans) x) :
    PhysFeasible i (allocOf x) ∧ x .objective ≤ minOver (pct i (allocOf x)) i.nmonths := by
  have hs := feasible_toHumans_iff.mp h
  refine ⟨⟨?_, ?_, ?_, ?_, ?_, ?_, ?_, ?_, ?_, ?_, ?_, ?_, ?_⟩, ?_⟩
  · intro k m
    cases k <;> first | exact h.2 _ | exact le_rfl
  · intro hon
    exact ⟨fun m hm _ => stored_cumulative (x := x) h hon hm, fun hsb => stored_full_use (x := x) h hon hsb hN,
      fun hsb m hm h12 => stored_vars_zero (x := x) h hon hsb hm h12⟩
  · intro hon
    exact ⟨fun m hm => crop_cumulative (x := x) h hon hm, crop_full_use (x := x) h hon hN⟩
  · intro hon hsb m hm
    exact ⟨meat_total (x := x) h hon hsb hm, meat_cumulative_cap (x := x) h hon hsb hm⟩
  · intro hon hsb m hm
    exact meat_monthly (x := x) h hon hsb hm
  · intro hon m hm
    exact scp_cap (x := x) h hon hm
  · intro hon m hm
    exact cs_cap (x := x) h hon hm
  · intro hon m hm
    exact hs.seaweed hon m hm
  · intro hany m hm
    exact feed_biofuel_eq_charge (x := x) h hany hm
  · intro m hm
    rw [← consumed_eq_pct hs m hm]
    exact h.2 _
  · intro m hm
    exact intakeOK_of_spec hs m hm _ _ _ _ _ _ _ _ (hs.general m hm).2.2.1
  · intro m hm
    exact intakeOK_of_spec hs m hm _ _ _ _ _ _ _ _ (hs.general m hm).2.2.2.1
  · intro m hm
    exact intakeOK_of_spec hs m hm _ _ _ _ _ _ _ _ (hs.general m hm).2.2.2.2
  · refine le_minOver _ _ (by omega) _ (fun m hm => ?_)
    rw [← consumed_eq_pct hs m hm]
    exact hs.objective m hm

end Sound

/-! ## completeness: from an allocation to a feasible point -/

section Complete

/-- the point of the LP that carries the allocation `a`: stock variables are the running
    differences (initial stock − drawn so far; harvested − used so far), `Crops_Food_Consumed` and
    `Humans_Fed_Kcals` what their rows define, the objective the worst month -/
def pointOf (i : Inp K) (a : Alloc K) : Var → K
  | .mv .sfStart m =>
    if i.addStored = true ∧ m < i.nmonths then
      (if m = 0 then i.storedInitial else i.storedInitial - cum (storedUse i a.toVar) (m - 1))
    else 0
  | .mv .sfEnd m =>
    if i.addStored = true ∧ m < i.nmonths then i.storedInitial - cum (storedUse i a.toVar) m else 0
  | .mv .meatStart m =>
    if (i.addMeat = true ∧ i.storeBetweenYears = true) ∧ m < i.nmonths then
      (if m = 0 then i.meatSummed else i.meatSummed - cum (meatUse i a.toVar) (m - 1))
    else 0
  | .mv .meatEnd m =>
    if (i.addMeat = true ∧ i.storeBetweenYears = true) ∧ m < i.nmonths then
      i.meatSummed - cum (meatUse i a.toVar) m
    else 0
  | .mv .cropStorage m =>
    if i.addOutdoor = true ∧ m < i.nmonths then
      cum (at' i.cropProd) m - cum (cropUse i a.toVar) m
    else 0
  | .mv .cropConsumed m => grossUp (a.cropHumans m) i.wCrop + a.cropBiofuel m + a.cropFeed m
  | .mv .consumedKcals m => if m < i.nmonths then pct i a m else 0
  | .objective => minOver (pct i a) i.nmonths
  | .objectiveBest => 0
  | v => a.toVar v

variable {i : Inp K} {a : Alloc K} {m : Nat}

theorem po_sfHumans : pointOf i a (.mv .sfHumans m) = a.sfHumans m := rfl
theorem po_sfFeed : pointOf i a (.mv .sfFeed m) = a.sfFeed m := rfl
theorem po_sfBiofuel : pointOf i a (.mv .sfBiofuel m) = a.sfBiofuel m := rfl
theorem po_cropHumans : pointOf i a (.mv .cropHumans m) = a.cropHumans m := rfl
theorem po_cropFeed : pointOf i a (.mv .cropFeed m) = a.cropFeed m := rfl
theorem po_cropBiofuel : pointOf i a (.mv .cropBiofuel m) = a.cropBiofuel m := rfl
theorem po_scpHumans : pointOf i a (.mv .scpHumans m) = a.scpHumans m := rfl
theorem po_scpFeed : pointOf i a (.mv .scpFeed m) = a.scpFeed m := rfl
theorem po_scpBiofuel : pointOf i a (.mv .scpBiofuel m) = a.scpBiofuel m := rfl
theorem po_csHumans : pointOf i a (.mv .csHumans m) = a.csHumans m := rfl
theorem po_csFeed : pointOf i a (.mv .csFeed m) = a.csFeed m := rfl
theorem po_csBiofuel : pointOf i a (.mv .csBiofuel m) = a.csBiofuel m := rfl
theorem po_meatEaten : pointOf i a (.mv .meatEaten m) = a.meatEaten m := rfl
theorem po_swHumans : pointOf i a (.mv .swHumans m) = a.swHumans m := rfl
theorem po_swFeed : pointOf i a (.mv .swFeed m) = a.swFeed m := rfl
theorem po_swBiofuel : pointOf i a (.mv .swBiofuel m) = a.swBiofuel m := rfl
theorem po_swWet : pointOf i a (.mv .swWet m) = a.swWet m := rfl
theorem po_usedArea : pointOf i a (.mv .usedArea m) = a.usedArea m := rfl
theorem po_sfStart : pointOf i a (.mv .sfStart m) =
    if i.addStored = true ∧ m < i.nmonths then
      (if m = 0 then i.storedInitial else i.storedInitial - cum (storedUse i a.toVar) (m - 1))
    else 0 := rfl
theorem po_sfEnd : pointOf i a (.mv .sfEnd m) =
    if i.addStored = true ∧ m < i.nmonths then i.storedInitial - cum (storedUse i a.toVar) m
    else 0 := rfl
theorem po_meatStart : pointOf i a (.mv .meatStart m) =
    if (i.addMeat = true ∧ i.storeBetweenYears = true) ∧ m < i.nmonths then
      (if m = 0 then i.meatSummed else i.meatSummed - cum (meatUse i a.toVar) (m - 1))
    else 0 := rfl
theorem po_meatEnd : pointOf i a (.mv .meatEnd m) =
    if (i.addMeat = true ∧ i.storeBetweenYears = true) ∧ m < i.nmonths then
      i.meatSummed - cum (meatUse i a.toVar) m
    else 0 := rfl
theorem po_cropStorage : pointOf i a (.mv .cropStorage m) =
    if i.addOutdoor = true ∧ m < i.nmonths then cum (at' i.cropProd) m - cum (cropUse i a.toVar) m
    else 0 := rfl
theorem po_cropConsumed : pointOf i a (.mv .cropConsumed m) =
    grossUp (a.cropHumans m) i.wCrop + a.cropBiofuel m + a.cropFeed m := rfl
theorem po_consumed : pointOf i a (.mv .consumedKcals m) =
    if m < i.nmonths then pct i a m else 0 := rfl

theorem allocOf_pointOf (i : Inp K) (a : Alloc K) : allocOf (pointOf i a) = a := rfl

theorem storedUse_pointOf : storedUse i (pointOf i a) = storedUse i a.toVar := rfl
theorem cropUse_pointOf : cropUse i (pointOf i a) = cropUse i a.toVar := rfl
theorem meatUse_pointOf : meatUse i (pointOf i a) = meatUse i a.toVar := rfl
theorem scpUse_pointOf : scpUse i (pointOf i a) = scpUse i a.toVar := rfl
theorem csUse_pointOf : csUse i (pointOf i a) = csUse i a.toVar := rfl
theorem feedTotal_pointOf : feedTotal i (pointOf i a) = feedTotal i a.toVar := rfl
theorem biofuelTotal_pointOf : biofuelTotal i (pointOf i a) = biofuelTotal i a.toVar := rfl
theorem humanTotal_pointOf : humanTotal i (pointOf i a) m = given i a m := rfl

theorem grossUp_nonneg' {v w : K} (hw : w < 100) (hv : 0 ≤ v) : 0 ≤ grossUp v w := by
  rw [grossUp_eq]
  refine div_nonneg hv ?_
  have : w / 100 < 1 := by rw [div_lt_one (by norm_num)]; exact hw
  linarith

theorem cum_step (f : ℕ → K) (m : ℕ) (hm0 : m ≠ 0) : cum f m = cum f (m - 1) + f m := by
  obtain ⟨n, rfl⟩ : ∃ n, m = n + 1 := ⟨m - 1, by omega⟩
  rw [cum_succ, Nat.add_sub_cancel]

/-- in both storage regimes the clauses bound the stored food drawn by the end of every month -/
theorem stored_cum_le (ha : PhysFeasible i a) (hon : i.addStored = true) (hm : m < i.nmonths) :
    cum (storedUse i a.toVar) m ≤ i.storedInitial := by
  obtain ⟨h1, -, h3⟩ := ha.stored hon
  by_cases hreg : i.storeBetweenYears = true ∨ m ≤ 12
  · exact h1 m hm hreg
  · have hs : i.storeBetweenYears = false := by
      cases hb : i.storeBetweenYears
      · rfl
      · exact absurd (Or.inl hb) hreg
    have h12 : 12 < m := by omega
    have hz : ∀ k, 12 < k → k ≤ m → storedUse i a.toVar k = 0 := by
      intro k hk hkm
      obtain ⟨e1, e2, e3⟩ := h3 hs k (by omega) hk
      show grossUp (a.sfHumans k) i.wStored + a.sfFeed k + a.sfBiofuel k = 0
      rw [e1, e2, e3, grossUp_zero]; ring
    rw [cum_eq_of_zero _ 12 m h12.le hz]
    exact h1 12 (by omega) (Or.inr le_rfl)

theorem storedUse_nonneg_a (ha : PhysFeasible i a) (hw : i.wStored < 100) (k : Nat) :
    0 ≤ storedUse i a.toVar k :=
  add_nonneg (add_nonneg (grossUp_nonneg' hw (ha.nonneg .sfHumans k)) (ha.nonneg .sfFeed k))
    (ha.nonneg .sfBiofuel k)

theorem meatUse_nonneg_a (ha : PhysFeasible i a) (hw : i.wMeat < 100) (k : Nat) :
    0 ≤ meatUse i a.toVar k := grossUp_nonneg' hw (ha.nonneg .meatEaten k)

theorem pointOf_nonneg (ha : PhysFeasible i a) (hN : 2 ≤ i.nmonths)
    (hw : i.wStored < 100 ∧ i.wCrop < 100 ∧ i.wMeat < 100) : ∀ v, 0 ≤ pointOf i a v := by
  intro v
  cases v with
  | objective =>
    exact le_minOver _ _ (by omega) _ (fun m hm => ha.pctNonneg m hm)
  | objectiveBest => exact le_rfl
  | mv k m =>
    cases k
    case sfStart =>
      rw [po_sfStart]
      split_ifs with hc hm0
      · have := stored_cum_le (m := 0) ha hc.1 (by omega)
        rw [cum_zero] at this
        exact le_trans (storedUse_nonneg_a ha hw.1 0) this
      · have := stored_cum_le (m := m - 1) ha hc.1 (by omega)
        linarith
      · exact le_rfl
    case sfEnd =>
      rw [po_sfEnd]
      split_ifs with hc
      · have := stored_cum_le ha hc.1 hc.2
        linarith
      · exact le_rfl
    case meatStart =>
      rw [po_meatStart]
      split_ifs with hc hm0
      · have := (ha.meatStored hc.1.1 hc.1.2 0 (by omega)).1
        rw [cum_zero] at this
        exact le_trans (meatUse_nonneg_a ha hw.2.2 0) this
      · have := (ha.meatStored hc.1.1 hc.1.2 (m - 1) (by omega)).1
        linarith
      · exact le_rfl
    case meatEnd =>
      rw [po_meatEnd]
      split_ifs with hc
      · have := (ha.meatStored hc.1.1 hc.1.2 m hc.2).1
        linarith
      · exact le_rfl
    case cropStorage =>
      rw [po_cropStorage]
      split_ifs with hc
      · have := (ha.crops hc.1).1 m hc.2
        linarith
      · exact le_rfl
    case cropConsumed =>
      rw [po_cropConsumed]
      exact add_nonneg (add_nonneg (grossUp_nonneg' hw.2.1 (ha.nonneg .cropHumans m))
        (ha.nonneg .cropBiofuel m)) (ha.nonneg .cropFeed m)
    case consumedKcals =>
      rw [po_consumed]
      split_ifs with hc
      · exact ha.pctNonneg m hc
      · exact le_rfl
    case sfHumans => exact ha.nonneg .sfHumans m
    case sfFeed => exact ha.nonneg .sfFeed m
    case sfBiofuel => exact ha.nonneg .sfBiofuel m
    case cropHumans => exact ha.nonneg .cropHumans m
    case cropFeed => exact ha.nonneg .cropFeed m
    case cropBiofuel => exact ha.nonneg .cropBiofuel m
    case scpHumans => exact ha.nonneg .scpHumans m
    case scpFeed => exact ha.nonneg .scpFeed m
    case scpBiofuel => exact ha.nonneg .scpBiofuel m
    case csHumans => exact ha.nonneg .csHumans m
    case csFeed => exact ha.nonneg .csFeed m
    case csBiofuel => exact ha.nonneg .csBiofuel m
    case meatEaten => exact ha.nonneg .meatEaten m
    case swHumans => exact ha.nonneg .swHumans m
    case swFeed => exact ha.nonneg .swFeed m
    case swBiofuel => exact ha.nonneg .swBiofuel m
    case swWet => exact ha.nonneg .swWet m
    case usedArea => exact ha.nonneg .usedArea m

theorem intakeSpec_of_ok (ha : PhysFeasible i a) (hm : m < i.nmonths) (on : Bool) (ratio : K)
    (vH vF vB : VK) (limH limF limB : K)
    (hi : IntakeOK i a on ratio (fun m => pointOf i a (.mv vH m)) (fun m => pointOf i a (.mv vF m))
      (fun m => pointOf i a (.mv vB m)) limH limF limB m) :
    IntakeSpec i (pointOf i a) on ratio vH vF vB limH limF limB m := by
  intro hon
  have := hi hon
  rw [po_consumed, if_pos hm]
  exact this

theorem humanSpec_pointOf (ha : PhysFeasible i a) (hN : 2 ≤ i.nmonths)
    (hw : i.wStored < 100 ∧ i.wCrop < 100 ∧ i.wMeat < 100) : HumanSpec i (pointOf i a) where
  nonneg := pointOf_nonneg ha hN hw
  seaweed := fun hon m hm => ha.seaweed hon m hm
  crops := by
    intro hon m hm
    obtain ⟨-, hfull⟩ := ha.crops hon
    unfold CropSpec
    have hm1 : m - 1 < i.nmonths := by omega
    simp only [po_sfHumans, po_sfFeed, po_sfBiofuel, po_cropHumans, po_cropFeed, po_cropBiofuel, po_scpHumans, po_scpFeed, po_scpBiofuel, po_csHumans, po_csFeed, po_csBiofuel, po_meatEaten, po_swHumans, po_swFeed, po_swBiofuel, po_swWet, po_usedArea, po_sfStart, po_sfEnd, po_meatStart, po_meatEnd, po_cropStorage, po_cropConsumed, po_consumed, hon, hm, hm1, true_and, if_true]
    have hu : ∀ k, cropUse i a.toVar k
        = grossUp (a.cropHumans k) i.wCrop + a.cropBiofuel k + a.cropFeed k := by
      intro k
      show grossUp (a.cropHumans k) i.wCrop + a.cropFeed k + a.cropBiofuel k = _
      ring
    by_cases hm0 : m = 0
    · subst hm0
      simp only [if_true, cum_zero, hu]
    · have hc := cum_step (cropUse i a.toVar) m hm0
      have hp := cum_step (at' i.cropProd) m hm0
      simp only [hm0, if_false]
      split_ifs with hl
      · refine ⟨by rw [hc, hp, hu]; ring, ?_⟩
        rw [hl, hfull, sub_self]
      · rw [hc, hp, hu]; ring
  stored := by
    intro hon m hm
    obtain ⟨-, hfull, hzero⟩ := ha.stored hon
    have hm1 : m - 1 < i.nmonths := by omega
    have hN0 : 0 < i.nmonths := by omega
    have hu : ∀ k, storedUse i a.toVar k
        = grossUp (a.sfHumans k) i.wStored + a.sfFeed k + a.sfBiofuel k := fun k => rfl
    have hE : ∀ k, k < i.nmonths → StoredEatenEq i (pointOf i a) k := by
      intro k hk
      have hk1 : k - 1 < i.nmonths := by omega
      unfold StoredEatenEq
      simp only [po_sfHumans, po_sfFeed, po_sfBiofuel, po_cropHumans, po_cropFeed, po_cropBiofuel, po_scpHumans, po_scpFeed, po_scpBiofuel, po_csHumans, po_csFeed, po_csBiofuel, po_meatEaten, po_swHumans, po_swFeed, po_swBiofuel, po_swWet, po_usedArea, po_sfStart, po_sfEnd, po_meatStart, po_meatEnd, po_cropStorage, po_cropConsumed, po_consumed, hon, hk, true_and, if_true]
      by_cases hk0 : k = 0
      · subst hk0
        simp only [if_true, cum_zero, hu]; ring
      · simp only [hk0, if_false]
        rw [cum_step _ k hk0, hu]; ring
    have hS : m ≠ 0 → pointOf i a (.mv .sfStart m) = pointOf i a (.mv .sfEnd (m - 1)) := by
      intro hm0
      simp only [po_sfStart, po_sfEnd, hon, hm, hm1, true_and, if_true, hm0, if_false]
    have hS0 : pointOf i a (.mv .sfStart 0) = i.storedInitial := by
      simp only [po_sfStart, hon, hN0, true_and, if_true]
    unfold StoredSpec
    cases hsb : i.storeBetweenYears
    · simp only [Bool.false_eq_true, if_false]
      by_cases hm0 : m = 0
      · subst hm0
        simp only [if_true]
        exact ⟨hS0, hE 0 hm⟩
      · simp only [hm0, if_false]
        split_ifs with h12
        · obtain ⟨e1, e2, e3⟩ := hzero hsb m hm h12
          exact ⟨e1, e2, e3, hS hm0⟩
        · exact ⟨hE m hm, hS hm0⟩
    · simp only [if_true]
      refine ⟨?_, hE m hm⟩
      by_cases hm0 : m = 0
      · subst hm0
        simp only [if_true]
        exact hS0
      · simp only [hm0, if_false]
        split_ifs with hl
        · refine ⟨?_, hS hm0⟩
          simp only [po_sfEnd, hon, hm, true_and, if_true]
          rw [hl, hfull hsb, sub_self]
        · exact hS hm0
  meat := by
    intro hon m hm
    have hm1 : m - 1 < i.nmonths := by omega
    have hN0 : 0 < i.nmonths := by omega
    unfold MeatSpec
    cases hsb : i.storeBetweenYears
    · simp only [Bool.false_eq_true, if_false]
      exact ha.meatFresh hon hsb m hm
    · simp only [if_true, po_meatStart, po_meatEnd, hon, hsb, hm, hm1, hN0, and_self, true_and]
      rw [meatUse_pointOf]
      refine ⟨?_, ?_, ?_⟩
      · by_cases hm0 : m = 0
        · simp only [hm0, if_true]
        · simp only [hm0, if_false]
      · by_cases hm0 : m = 0
        · subst hm0
          simp only [if_true, cum_zero]
        · simp only [hm0, if_false]
          rw [cum_step _ m hm0]; ring
      · have := (ha.meatStored hon hsb m hm).2
        linarith
  scp := fun hon m hm => ha.scp hon m hm
  cs := fun hon m hm => ha.cs hon m hm
  general := by
    intro m hm
    refine ⟨fun hany => ha.charge hany m hm, ?_, ?_, ?_, ?_⟩
    · rw [po_consumed, if_pos hm]
      rfl
    · exact intakeSpec_of_ok ha hm _ _ _ _ _ _ _ _ (ha.intakeSeaweed m hm)
    · exact intakeSpec_of_ok ha hm _ _ _ _ _ _ _ _ (ha.intakeScp m hm)
    · exact intakeSpec_of_ok ha hm _ _ _ _ _ _ _ _ (ha.intakeCs m hm)
  objective := by
    intro m hm
    rw [po_consumed, if_pos hm]
    exact minOver_le _ _ _ hm

theorem complete_humans (i : Inp K) (a : Alloc K) (hN : 2 ≤ i.nmonths)
    (hw : i.wStored < 100 ∧ i.wCrop < 100 ∧ i.wMeat < 100) (ha : PhysFeasible i a) :
    ∃ x, Feasible (buildLP i .toHumans) x ∧ allocOf x = a ∧
      x .objective = minOver (pct i a) i.nmonths :=
  ⟨pointOf i a, feasible_toHumans_iff.mpr (humanSpec_pointOf ha hN hw), rfl, rfl⟩

end Complete

/-! ## the optimum of the LP is the true optimum -/

/-- the objective values the LP can achieve are exactly the numbers between 0 and the worst month
    of a physically feasible allocation -/
theorem lp_optimum_is_true_optimum (i : Inp K) (hN : 2 ≤ i.nmonths)
    (hw : i.wStored < 100 ∧ i.wCrop < 100 ∧ i.wMeat < 100) (z : K) :
    (∃ x, Feasible (buildLP i .toHumans) x ∧ x .objective = z) ↔
    (∃ a, PhysFeasible i a ∧ 0 ≤ z ∧ z ≤ minOver (pct i a) i.nmonths) := by
  constructor
  · rintro ⟨x, hx, rfl⟩
    obtain ⟨h1, h2⟩ := sound_humans i x hN hx
    exact ⟨allocOf x, h1, hx.2 _, h2⟩
  · rintro ⟨a, ha, hz0, hz⟩
    have hs := humanSpec_pointOf ha hN hw
    refine ⟨fun v => if v = .objective then z else pointOf i a v, ?_, by simp only [if_true]⟩
    rw [feasible_toHumans_iff]
    refine hs.of_agree (fun k m => by simp only [reduceCtorEq, if_false]) ?_ ?_ ?_
    · simp only [if_true]; exact hz0
    · simp only [reduceCtorEq, if_false]; exact le_rfl
    · intro m hm
      simp only [if_true]
      rw [po_consumed, if_pos hm]
      exact le_trans hz (minOver_le _ _ _ hm)

/-- in particular: a number bounds the LP's objective iff it bounds the worst month of every
    physically feasible allocation -/
theorem lp_bound_iff_true_bound (i : Inp K) (hN : 2 ≤ i.nmonths)
    (hw : i.wStored < 100 ∧ i.wCrop < 100 ∧ i.wMeat < 100) (b : K) :
    (∀ x, Feasible (buildLP i .toHumans) x → x .objective ≤ b) ↔
    (∀ a, PhysFeasible i a → minOver (pct i a) i.nmonths ≤ b) := by
  constructor
  · intro h a ha
    obtain ⟨x, hx, -, hobj⟩ := complete_humans i a hN hw ha
    rw [← hobj]; exact h x hx
  · intro h x hx
    obtain ⟨h1, h2⟩ := sound_humans i x hN hx
    exact le_trans h2 (h _ h1)

end Allfed.Proofs.Completeness
