import sys, os, io, contextlib
os.chdir('/repo'); sys.path.insert(0,'/repo')
import matplotlib; matplotlib.use('Agg')
import numpy as np, pandas as pd, warnings
warnings.filterwarnings('ignore')
from src.scenarios.run_scenario import ScenarioRunner
from src.optimizer.parameters import Parameters
tab=pd.read_csv('/repo/data/no_food_trade/computer_readable_combined.csv')
rows={r['iso3']:r for _,r in tab.iterrows()}
base=dict(scale='country',seasonality='country',grasses='country_nuclear_winter',crop_disruption='country_nuclear_winter',
 scenario='all_resilient_foods_and_more_area',fish='nuclear_winter',waste='baseline_in_country',nutrition='catastrophe',intake_constraints='enabled',
 stored_food='baseline',ratio_stocks_untouched='baseline',shutoff='long_delayed_shutoff',cull='do_eat_culled',fat='not_required',protein='not_required',meat_strategy='reduce_breeding',NMONTHS=int(sys.argv[2]) if len(sys.argv)>2 else 120)
iso=sys.argv[1]; row=rows[iso]; sr=ScenarioRunner()
with contextlib.redirect_stdout(io.StringIO()):
    c,tci,sl=sr.set_depending_on_option(base,country_data=row)
    out=Parameters().compute_parameters_first_round(c,tci,sl)
C,T=out[0],out[1]; N=c['NMONTHS']
def rel(a,b): 
    a=np.asarray(a,float); b=np.asarray(b,float); return float(np.max(np.abs(a-b)/np.maximum(1e-12,np.maximum(np.abs(a),np.abs(b)))))
# crops spec
seas=[row['seasonality_m%d'%i] for i in range(1,13)]
ann=row['crop_kcals']*(1-92/3898)
ratios=[1+row['crop_reduction_year%d'%i] for i in range(1,11)]
before=sum(seas[:4]) if iso not in('ZAF','JPN','PRK','KOR') else {'ZAF':1}.get(iso,0)
r1=ratios[0]; nw=max(0,r1-before)
y1=0 if nw<=0 else (1 if (1-before)<0.25 else nw/(1-before))
def ratioYear(i): return y1 if i<8 else ratios[min(9,1+(i-8)//12)]
e=row['power_law_improvement']; hd=10
def ramp(i):
    Nn=8; tot=36; mx=72/39
    if i<Nn: return 1.0
    if i<tot: return 1+(i-Nn)*(mx-1)/(tot-Nn)
    return mx
wd=row['distribution_loss_crops']
area=row['crop_area_1000ha']*1000  # not used
ghf=np.zeros(N); lim=0.19e9/1.43e9
for i in range(N):
    k=i-2-5
    ghf[i]=0 if k<0 else min(k,36)*lim/36
spec=[]
for i in range(N):
    mk=ann*seas[(4+i)%12]*4e6/1e9; r=ratioYear(i)
    if i>=hd: g=mk*(r if r>1 else r**e)*ramp(i)
    else: g=mk*r
    spec.append(g*(1-ghf[i])*(1-wd))
code=np.array(T['outdoor_crops'].production.kcals,float)
print('crops: code vs spec max rel', rel(code,spec), ' | vs trunc(spec_pre_waste)*(1-wd):', rel(code, np.trunc(np.array(spec)/(1-wd))*(1-wd)))
print('  code[:14]',np.round(code[:14],3)); print('  spec[:14]',np.round(spec[:14],3))
# grass
gb=row['grasses_baseline']/12; ny=N//12
def yG(i): return 1 if i<8 else min(ny, 2+(i-8)//12)
gs=[gb*(1+row['grasses_reduction_year%d'%yG(i)])*4000 for i in range(N)]
from src.food_system.meat_and_dairy import MeatAndDairy
md=MeatAndDairy(c); print('grass rel',rel(md.human_inedible_feed.kcals,gs), len(md.human_inedible_feed.kcals))
# fish
yr=[0,-11,-32,-35,-34,-32.5,-32,-30,-29,-27,-22,-15,-8,0,0,0]
fs=[row['aq_kcals']*4e6/1e9/12*(1-row['distribution_loss_seafood'])*(1-row['retail_waste_baseline'])*(100+yr[i//12]+(yr[i//12+1]-yr[i//12])*(i%12)/12)/100 for i in range(N)]
print('fish rel',rel(T['fish'].to_humans.kcals,fs))
# greenhouse area fraction & stored food & seaweed area
print('stored food', C['stored_food'].initial_available.kcals, (row['stocks_kcals_apr']*1-min(row['stocks_kcals_%s'%m] for m in 'jan feb mar apr may jun jul aug sep oct nov dec'.split())*1)*4e6/1e9*(1-wd))
ba=T['built_area']; ib=0.1*row['new_area_fraction']; new=2.0765*30*row['new_area_fraction']; mx=1853*row['max_area_fraction']
print('seaweed area rel',rel(ba,[min(mx,ib+max(0,i-1)*new) for i in range(N)]), 'growth len',len(T['growth_rates_monthly']))
print('scp first nonzero', int(np.argmax(np.array(T['methane_scp'].kcals)>0)), 'cs first nonzero', int(np.argmax(np.array(T['cellulosic_sugar'].kcals)>0)))
gh=np.array(T['greenhouse_crops'].kcals); print('gh first nonzero',int(np.argmax(gh>0)))
