/-
Line protocol between the Python harness and the Lean model.
One request per line:  `op tok tok …`   (whitespace separated)
  float  -> decimal of the 64-bit IEEE pattern      (Float.ofBits)
  nat    -> decimal
  int    -> decimal, optional leading '-'
  bool   -> 0 / 1
  string -> percent-encoded, no spaces ("%20" for space, "%25" for '%', "%" alone = empty)
  list   -> length followed by the elements
One answer per line, same encoding.  Errors of the model are answered as `err <kind>`.
-/
namespace Wire

abbrev P := StateT (List String) (Except String)

def tok : P String := do
  match (← get) with
  | [] => throw "wire: out of tokens"
  | t :: ts => set ts; pure t

def nat : P Nat := do
  let t ← tok
  match t.toNat? with
  | some n => pure n
  | none => throw s!"wire: bad nat {t}"

def int : P Int := do
  let t ← tok
  match t.toInt? with
  | some n => pure n
  | none => throw s!"wire: bad int {t}"

def float : P Float := do
  let n ← nat
  pure (Float.ofBits n.toUInt64)

def bool : P Bool := do
  let n ← nat
  pure (n != 0)

def hexVal (c : Char) : Nat :=
  if '0' ≤ c ∧ c ≤ '9' then c.toNat - '0'.toNat
  else if 'a' ≤ c ∧ c ≤ 'f' then c.toNat - 'a'.toNat + 10
  else if 'A' ≤ c ∧ c ≤ 'F' then c.toNat - 'A'.toNat + 10 else 0

def decodeStr (s : String) : String :=
  let rec go : List Char → List Char
    | '%' :: a :: b :: t => Char.ofNat (hexVal a * 16 + hexVal b) :: go t
    | '%' :: _ => []
    | c :: t => c :: go t
    | [] => []
  String.ofList (go s.toList)

def hexDigit (n : Nat) : Char :=
  if n < 10 then Char.ofNat ('0'.toNat + n) else Char.ofNat ('a'.toNat + n - 10)

def encodeStr (s : String) : String :=
  if s.isEmpty then "%" else
  String.ofList (s.toList.flatMap fun c =>
    if c.isAlphanum || c == '_' || c == '-' || c == '.' then [c]
    else if c.toNat < 256 then ['%', hexDigit (c.toNat / 16), hexDigit (c.toNat % 16)]
    else [c])

def str : P String := do
  let t ← tok
  pure (decodeStr t)

def list {α : Type} (p : P α) : P (List α) := do
  let n ← nat
  let rec go : Nat → List α → P (List α)
    | 0, acc => pure acc.reverse
    | k + 1, acc => do let x ← p; go k (x :: acc)
  go n []

def floats : P (List Float) := list float

/-- output helpers -/
def outF (x : Float) : String := toString x.toBits.toNat
def outB (b : Bool) : String := if b then "1" else "0"
def outL {α : Type} (f : α → String) (l : List α) : String :=
  " ".intercalate (toString l.length :: l.map f)
def outFs (l : List Float) : String := outL outF l

def run {α : Type} (p : P α) (toks : List String) : Except String α :=
  match p.run toks with
  | .ok (a, _) => .ok a
  | .error e => .error e

end Wire
