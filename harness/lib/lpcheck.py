"""Shared by C01/C02/C04/C12: compare the model's LP with the code's, evaluate reported allocations."""
import math
import numpy as np
from lib import lpinst, wire, pipeline
from lib.wire import f2b, enc_str, Reader

ROW_TOL = 1e-6        # CBC primal tolerance (relative to the row's own magnitude)
PHYS_TOL = 1e-4       # a physical clause is violated beyond 1e-4 of the monthly requirement (DESIGN §7 C01)

PRESETS_QUICK = [
    ("ARG", dict()),
    ("DJI", dict(ratio_stocks_untouched="baseline_no_stored_between_years")),
    ("USA", dict(scenario="no_resilient_foods", shutoff="continued", meat_strategy="baseline_breeding", NMONTHS=48)),
    ("JPN", dict(scenario="seaweed", stored_food="zero", cull="dont_eat_culled", intake_constraints="disabled_for_humans")),
    ("IND", dict(scenario="industrial_foods", ratio_stocks_untouched="no_stored_between_years", shutoff="continued", stored_food="zero")),
    # a food-surplus country that keeps feeding animals while the factories come on line: resilient foods reach feed and biofuel in the final round
    ("ARG", dict(shutoff="continued", NMONTHS=48)),
    # the world aggregate (scale=global; pipeline.options switches the *_globally option values in)
    ("WOR", dict(scale="global", NMONTHS=72)),
]

# where a failing input is looked for after a tie broke: large stocks / herds / seaweed in every regime, short horizons
PRESETS_SEARCH = [
    ("USA", dict(ratio_stocks_untouched="baseline_no_stored_between_years", NMONTHS=48)),
    ("ARG", dict(ratio_stocks_untouched="no_stored_between_years", NMONTHS=72, shutoff="continued")),
    ("ARG", dict(NMONTHS=60)),
    ("AUS", dict(scenario="seaweed", shutoff="continued", NMONTHS=60)),
    ("CHN", dict(scenario="industrial_foods", meat_strategy="baseline_breeding", NMONTHS=60, intake_constraints="disabled_for_humans")),
    ("IND", dict(scenario="relocated_crops", waste="zero", NMONTHS=48)),
    ("GBR", dict(scenario="all_resilient_foods", NMONTHS=60, nutrition="baseline")),
]

OPTION_SPACE = dict(
    scenario=["all_resilient_foods", "all_resilient_foods_and_more_area", "no_resilient_foods", "seaweed", "methane_scp",
              "cellulosic_sugar", "relocated_crops", "greenhouse", "industrial_foods"],
    ratio_stocks_untouched=["zero", "baseline", "no_stored_between_years", "baseline_no_stored_between_years"],
    shutoff=["immediate", "one_month_delayed_shutoff", "short_delayed_shutoff", "long_delayed_shutoff", "continued",
             "continued_after_10_percent_fed", "long_delayed_shutoff_after_10_percent_fed"],
    waste=["zero", "baseline_in_country", "doubled_prices_in_country", "tripled_prices_in_country"],  # *_globally need scale=global
    nutrition=["baseline", "catastrophe"],
    intake_constraints=["enabled", "disabled_for_humans"],
    meat_strategy=["reduce_breeding", "baseline_breeding", "feed_only_ruminants"],
    cull=["do_eat_culled", "dont_eat_culled"],
    stored_food=["baseline", "zero"],
    crop_disruption=["country_nuclear_winter", "zero"],
    grasses=["country_nuclear_winter", "baseline"],
    fish=["nuclear_winter", "baseline", "zero"],
    NMONTHS=[48, 60, 72, 84, 96, 108, 120],
)


def random_preset(rng, isos):
    iso = rng.choice(isos)
    o = {}
    for k, vals in OPTION_SPACE.items():
        if rng.random() < 0.35:
            o[k] = rng.choice(vals)
    return iso, o


def model_rows(ctx, s, inp=None):
    inp = inp or lpinst.inp_from_optimizer(s.opt, s.kind)
    enc = lpinst.encode_inp(inp)
    lines = ["lp.rows %s %s" % (s.kind, enc)]
    if s.z is not None:
        lines.append("lp.floor %s %s %s" % (s.kind, f2b(s.z), enc))
    outs = wire.run_driver(lines, exe_name="driver_lp")
    rows, dup = lpinst.parse_rows(outs[0])
    floor = lpinst.parse_rows(outs[1])[0] if len(outs) > 1 else {}
    return inp, enc, rows, dup, floor


def parse_groups(line):
    rd = Reader(line)
    groups = []
    for _ in range(3):
        n = rd.nat()
        k = rd.nat()
        items = []
        for _ in range(k):
            items.append(dict(clause=rd.str(), month=rd.nat(), excess=rd.float(), scale=rd.float()))
        groups.append((n, items))
    return groups


def check_allocation(enc, kind, z, values):
    """evaluate rows (first stage + floors), physCore and physGap on a variable assignment"""
    vals = [(n, v) for n, v in values.items() if v is not None]
    line = "lp.check %s %s %s %d %s" % (kind, f2b(z if z is not None else float("nan")), enc, len(vals),
                                        " ".join("%s %s" % (enc_str(n), f2b(v)) for n, v in vals))
    return parse_groups(wire.run_driver([line], exe_name="driver_lp")[0])


def tie_instance(ctx, run, k, s, tag):
    """row-by-row tie for one captured solve; returns (inp, enc) or None if the instance is outside the model"""
    case = {"country": run.iso, "options": run.opts, "round": k + 1, "kind": s.kind}
    try:
        inp, enc, rows, dup, floor = model_rows(ctx, s)
    except NotImplementedError as e:
        ctx.count("instance-outside-model")
        ctx.notes.append(str(e))
        return None
    diffs = lpinst.compare_rowsets(rows, s.rows)
    for name, what in diffs[:5]:
        ctx.disagree("%s:LP-row %s" % (tag, name), case, "code: " + what, "model row " + name)
    if dup:
        ctx.disagree("%s:duplicate-row-names" % tag, case, "-", dup[:5])
    ctx.count("rows-compared", len(rows))
    if diffs:
        ctx.count("rows-differing", len(diffs))
    # the floors of the later solves
    if s.final_rows is not None and s.z is not None:
        added = {n: r for n, r in s.final_rows.items() if n not in s.rows and n.startswith("Old_Objective")}
        fd = lpinst.compare_rowsets(floor, added)
        for name, what in fd[:3]:
            ctx.disagree("%s:floor-row %s" % (tag, name), case, "code: " + what, "model row " + name)
        ctx.count("floor-rows-compared", len(floor))
    return inp, enc, diffs


class _Abort(Exception):
    pass


FLAG_KEYS = ["ADD_SEAWEED", "ADD_OUTDOOR_GROWING", "ADD_STORED_FOOD", "ADD_MEAT", "ADD_METHANE_SCP", "ADD_CELLULOSIC_SUGAR", "STORE_FOOD_BETWEEN_YEARS"]


def flag_variant_ties(ctx, run, k, s, tag, nvar=2):
    """row builders under flag combinations that the scenario options never produce: the captured constants of a real solve with one or
    two resource switches flipped (and the storage regime toggled), rows built by the REAL Optimizer (no solve) and compared with the
    model's rows for the same inputs.  Combinations the real code itself rejects are counted and skipped."""
    import contextlib, copy, io
    from src.optimizer.optimizer import Optimizer
    opt0 = s.opt
    for _ in range(nvar):
        keys = ctx.rng.sample(FLAG_KEYS, ctx.rng.choice([1, 1, 2]))
        C, T = copy.deepcopy(opt0.consts_for_optimizer), copy.deepcopy(opt0.time_consts)
        for key in keys:
            C[key] = not C[key]
            if key in C.get("inputs", {}):
                C["inputs"][key] = C[key]
        if not any(C[f] for f in FLAG_KEYS[:6] if f != "ADD_MEAT"):
            ctx.count("flag-variant:skipped-no-allocatable-resource")
            continue
        cap = {}
        orig = Optimizer.run_optimizations_on_constraints

        def ro(self, model, variables, consts, optimization_type):
            cap["rows"] = pipeline._snap_rows(model)
            cap["opt"] = self
            raise _Abort()
        Optimizer.run_optimizations_on_constraints = ro
        err = None
        try:
            with contextlib.redirect_stdout(io.StringIO()):
                o = Optimizer(C, T)
                if s.kind == "to_humans":
                    o.optimize_to_humans(C, T)
                else:
                    o.optimize_feed_to_animals(C, T, T["min_human_food_consumption"])
        except _Abort:
            pass
        except BaseException as e:
            if isinstance(e, KeyboardInterrupt):
                raise
            err = "%s: %s" % (type(e).__name__, str(e)[:80])
        finally:
            Optimizer.run_optimizations_on_constraints = orig
        label = "+".join("%s=%s" % (key, C[key]) for key in keys)
        if err or "rows" not in cap:
            ctx.count("flag-variant:rejected-by-the-code:" + (err or "?").split(":")[0])
            continue
        s2 = pipeline.Solve()
        s2.kind, s2.opt, s2.rows, s2.z, s2.final_rows = s.kind, cap["opt"], cap["rows"], None, None
        run2 = type("R", (), {"iso": run.iso, "opts": dict(run.opts, _flag_variant=label)})()
        try:
            lpinst.inp_from_optimizer(s2.opt, s2.kind)
        except NotImplementedError:
            pass
        except (TypeError, KeyError, ValueError, AttributeError) as e:   # a switch turned ON for which this run carries no data
            ctx.count("flag-variant:inputs-not-available:" + type(e).__name__)
            continue
        tied = tie_instance(ctx, run2, k, s2, tag + ":flag-variant")
        ctx.count("flag-variant:tied")
        ctx.count("flag-variant-branch:" + label)
        if tied is not None:
            ctx.case((run.iso, sorted((a, str(b)) for a, b in run.opts.items()), k, label), nontrivial=True,
                     sample={"country": run.iso, "round": k + 1, "kind": s.kind, "flag_variant": label, "rows": len(cap["rows"]), "rows_differing": len(tied[2])})


RETAIL_KEYS = ["SEAWEED_WASTE_RETAIL", "CROP_WASTE_RETAIL", "STORED_FOOD_WASTE_RETAIL", "CELL_SUGAR_RETAIL_WASTE", "SCP_RETAIL_WASTE", "MEAT_WASTE_RETAIL"]


def handoff_mismatches(opt):
    """the optimiser's constants against the configured inputs they are copies of (`consts["inputs"]` is the scenario's own dictionary):
    returns (retail, shared) - retail-waste percentages that differ from the configured WASTE_RETAIL, and keys present in both dictionaries
    (resource switches, storage regime, horizon, population, seaweed intake limits, delays) whose values differ"""
    C = opt.consts_for_optimizer
    I = C.get("inputs", {})
    retail, shared = [], []
    if "WASTE_RETAIL" in I:
        for k in RETAIL_KEYS:
            if k in C and float(C[k]) != float(I["WASTE_RETAIL"]):
                retail.append((k, float(C[k]), float(I["WASTE_RETAIL"])))
    for k in C:
        # the switches, the storage regime, the horizon and the population; other shared keys are legitimately adjusted on the way
        # (e.g. the seaweed limits are zeroed when seaweed is off)
        if k == "inputs" or k not in I or not (k.startswith("ADD_") or k in ("STORE_FOOD_BETWEEN_YEARS", "NMONTHS", "POP")):
            continue
        a, b = C[k], I[k]
        try:
            eq = bool(np.all(np.asarray(a) == np.asarray(b)))
        except Exception:
            eq = a is b or a == b
        if not eq:
            shared.append((k, repr(a)[:60], repr(b)[:60]))
    return retail, shared
