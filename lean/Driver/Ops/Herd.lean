import AllfedModel.Model.Herd
import Driver.Wire
open Wire Allfed Allfed.Herd

namespace Ops.Herd

/-- Python's `round(x)` on a double (round half to even), as a double -/
def roundHalfEven (x : Float) : Float :=
  let f := x.floor
  let d := x - f
  if d < 0.5 then f
  else if d > 0.5 then f + 1
  else if (f / 2).floor * 2 == f then f else f + 1

def sizeOf : Nat → Size
  | 0 => .small
  | 1 => .medium
  | 2 => .large
  | _ => .other

def feedOutS (o : FeedOut Float) : String :=
  outFs [o.grassIn, o.feedIn, o.grass, o.feed, o.balance, o.fed]

/-- herd.feed effG effF need pop grass feed rum -/
def feedOp : P String := do
  let eg ← float; let ef ← float; let need ← float; let pop ← float; let g ← float; let f ← float; let rum ← bool
  let o := feedSpecies roundHalfEven eg ef need pop g f rum
  -- the unfixed count, for the replay of the D3 witness
  let neG := if rum then g * eg else 0
  pure (feedOutS o ++ " " ++ outF (fedUnfixed roundHalfEven need pop (neG + f * ef)))

def feedReq : P (FeedReq Float) := do
  let eg ← float; let ef ← float; let need ← float; let pop ← float; let rum ← bool
  pure ⟨eg, ef, need, pop, rum⟩

/-- herd.feedAll <reqs> grass feed -/
def feedAllOp : P String := do
  let reqs ← list feedReq
  let g ← float; let f ← float
  let r := feedAll roundHalfEven reqs g f
  pure (outL feedOutS r.1 ++ " " ++ outF r.2.1 ++ " " ++ outF r.2.2)

/-- herd.priority <kcalsPerHead hours nePerHead effF>* : keys and the order of `sorted(reverse=True)` -/
def priorityOp : P String := do
  let rows ← list (do let k ← float; let h ← float; let ne ← float; let ef ← float; pure (k, h, ne, ef))
  let keys := rows.map fun (k, h, ne, ef) => priorityKey k h ne ef
  let idx := (List.range keys.length).zip keys
  let sorted := sortDesc (fun (p : Nat × Float) => p.2) idx
  pure (outFs keys ++ " " ++ outL toString (sorted.map (·.1)))

/-- herd.sortDesc <keys> : order of `sorted(key=…, reverse=True)` -/
def sortOp : P String := do
  let keys ← floats
  let idx := (List.range keys.length).zip keys
  let sorted := sortDesc (fun (p : Nat × Float) => p.2) idx
  pure (outL toString (sorted.map (·.1)))

def herd : P (Herd Float) := do
  let name ← str; let species ← str; let isMilk ← bool; let rum ← bool; let sz ← nat
  let effG ← float; let effF ← float; let nePerHead ← float; let hours ← float; let baseline ← float
  let target ← float; let odr ← float; let app ← float; let birthRatio ← float; let tcf ← float
  let gestation ← float; let rib ← float; let tpf ← float; let sdf ← float; let retFrac ← float
  let pop ← float; let sl ← float; let pt ← float; let pb ← float; let psf ← float
  pure ⟨⟨name, species, isMilk, rum, sizeOf sz, effG, effF, nePerHead, hours, baseline, target, odr, app,
         birthRatio, tcf, gestation, rib, tpf, sdf, retFrac⟩, ⟨pop, sl, pt, pb, psf⟩⟩

def recS (d : WD Float) : String :=
  let c := d.c; let b := c.b; let a := b.a; let o := a.fo
  " ".intercalate ([a.need, o.grassIn, o.feedIn, o.grass, o.feed, o.balance, o.fed, a.starvingPre,
    b.pregTotalIn, b.pregBirthingIn, b.psf, b.births, b.transferBirths, b.retiring,
    c.transferPop, c.otherDeath, c.rate, c.pre, c.slaughter, c.popAfter, c.slPreg,
    d.hkOther, d.hkHealthy, d.hkStarving, d.hkTotal, d.starvingPost, d.ods, d.odTotal,
    d.pregTotal, d.pregBirthing, d.popEnd].map outF)

def zipSeries : List Float → List Float → List (Float × Float)
  | f :: fs, g :: gs => (f, g) :: zipSeries fs gs
  | _, _ => []

/-- herd.run hkHours odhr hkf <herds> <feed> <grass>
    answer: `ok nMonths nSpecies 31` then per month `feedUsed grassUsed` + per species 31 numbers;
            `err <kind>` when the month loop hits one of its asserts -/
def runOp : P String := do
  let hk ← float; let odhr ← float; let hkf ← float
  let herds ← list herd
  let feed ← floats; let grass ← floats
  match run ⟨hk, odhr, hkf⟩ roundHalfEven herds (zipSeries feed grass) with
  | .error e => pure ("err " ++ e)
  | .ok (recs, _) =>
    let body := recs.map fun r => outF r.feedUsed ++ " " ++ outF r.grassUsed ++
      (r.recs.foldl (fun acc d => acc ++ " " ++ recS d) "")
    pure (s!"ok {recs.length} {herds.length} 31 " ++ " ".intercalate body)

/-- herd.round x -/
def roundOp : P String := do
  let x ← float
  pure (outF (roundHalfEven x))

def ops : List (String × P String) :=
  [("herd.feed", feedOp), ("herd.feedAll", feedAllOp), ("herd.priority", priorityOp),
   ("herd.sortDesc", sortOp), ("herd.run", runOp), ("herd.round", roundOp)]

end Ops.Herd
