"""Driving the real pipeline from the harness and capturing what the properties observe.

Nothing in /repo is patched: methods of the real classes are wrapped from outside, inside the
scratch copy the check runs in (DESIGN.md §5).
"""
import contextlib, copy, io, os, time, traceback
import numpy as np

BASE_OPTIONS = dict(
    scale="country", seasonality="country", grasses="country_nuclear_winter", crop_disruption="country_nuclear_winter",
    scenario="all_resilient_foods", fish="nuclear_winter", waste="baseline_in_country", nutrition="catastrophe",
    intake_constraints="enabled", stored_food="baseline", ratio_stocks_untouched="zero", shutoff="long_delayed_shutoff",
    cull="do_eat_culled", fat="not_required", protein="not_required", meat_strategy="reduce_breeding", NMONTHS=120)

# the world aggregate (scale=global): the options that need their *_globally variants
WORLD_OPTIONS = dict(BASE_OPTIONS, scale="global", seasonality="nuclear_winter_globally", grasses="global_nuclear_winter",
                     crop_disruption="global_nuclear_winter", waste="baseline_globally")

_rows = None


def country_rows():
    """iso3 -> row (python floats: taken with iterrows, numpy scalars from .iloc break PuLP comparisons)"""
    global _rows
    if _rows is None:
        import pandas as pd
        tab = pd.read_csv(os.path.join(os.getcwd(), "data", "no_food_trade", "computer_readable_combined.csv"))
        _rows = {r["iso3"]: r for _, r in tab.iterrows()}
    return _rows


def options(**over):
    o = dict(WORLD_OPTIONS if over.get("scale") == "global" else BASE_OPTIONS)
    o.update(over)
    return o


class Solve:
    """one call of Optimizer.run_optimizations_on_constraints"""
    def __init__(self):
        self.kind = None
        self.opt = None            # the Optimizer (consts_for_optimizer, time_consts)
        self.rows = None           # first-stage rows: name -> (coef dict, sense, constant)
        self.objective = None
        self.z = None
        self.values = None         # variable name -> value after the last solve of the round
        self.final_rows = None
        self.variables = None      # the `variables` dict of the optimizer
        self.error = None


class Run:
    def __init__(self, iso, opts):
        self.iso, self.opts = iso, opts
        self.solves = []           # Solve objects in order (round 1, 2, 3 as far as they were run)
        self.interpreted = []      # (optimization_type, title, interpreted_results, percent_fed_from_model)
        self.params = {}           # 'first', 'second', 'third' -> return values of compute_parameters_*
        self.param_args = {}
        self.herds = []            # CalculateFeedAndMeat instances in construction order
        self.result = None
        self.error = None
        self.wall = 0.0
        self.stdout = ""


def _snap_rows(model):
    return {n: ({v.name: c for v, c in con.items()}, con.sense, con.constant) for n, con in model.constraints.items()}


@contextlib.contextmanager
def capture(run):
    """wrap the observation points named in the properties' anchors for the duration of one run"""
    from src.optimizer.optimizer import Optimizer
    from src.scenarios.run_scenario import ScenarioRunner
    from src.optimizer.parameters import Parameters
    from src.food_system.animal_populations import CalculateFeedAndMeat
    saved = []

    def wrap(cls, name, mk):
        orig = getattr(cls, name)
        saved.append((cls, name, orig))
        setattr(cls, name, mk(orig))

    def mk_ro(orig):
        def ro(self, model, variables, consts, optimization_type):
            s = Solve()
            s.kind, s.opt, s.variables = optimization_type, self, variables
            s.rows = _snap_rows(model)
            s.objective = {v.name: c for v, c in model.objective.items()}
            run.solves.append(s)
            try:
                s.z = orig(self, model, variables, consts, optimization_type)
            except BaseException as e:
                s.error = "%s: %s" % (type(e).__name__, str(e)[:200])
                raise
            finally:
                s.final_rows = _snap_rows(model)
                s.values = {v.name: v.varValue for v in model.variables()}
            return s.z
        return ro

    def mk_io(orig):
        def io_(self, c, model, variables, tc, interp, pfm, optimization_type, title="U"):
            r = orig(self, c, model, variables, tc, interp, pfm, optimization_type, title)
            run.interpreted.append((optimization_type, title, r, pfm))
            return r
        return io_

    def mk_param(tag):
        def mk(orig):
            def f(self, *a, **k):
                run.param_args[tag] = (a, k)
                r = orig(self, *a, **k)
                run.params[tag] = r
                return r
            return f
        return mk

    def mk_herd(orig):
        def init(self, *a, **k):
            orig(self, *a, **k)
            run.herds.append((self, a, k))
        return init

    wrap(Optimizer, "run_optimizations_on_constraints", mk_ro)
    wrap(ScenarioRunner, "interpret_optimizer_results", mk_io)
    wrap(Parameters, "compute_parameters_first_round", mk_param("first"))
    wrap(Parameters, "compute_parameters_second_round", mk_param("second"))
    wrap(Parameters, "compute_parameters_third_round", mk_param("third"))
    wrap(CalculateFeedAndMeat, "__init__", mk_herd)
    try:
        yield run
    finally:
        for cls, name, orig in reversed(saved):
            setattr(cls, name, orig)


def run_scenario(iso, opts, title=None, keep_csv=False, save_all_results=False):
    """one full (up to three-round) run of the real pipeline for one country row"""
    from src.scenarios.run_scenario import ScenarioRunner
    rows = country_rows()
    world = iso == "WOR"
    row = rows[sorted(rows)[-1]] if world else rows[iso]   # the world runner hands over an arbitrary row (plot_manuscript_figures.py)
    run = Run(iso, dict(opts))
    title = title or ("verif_%s_%d" % (iso, os.getpid()))
    run.title = title
    t0 = time.time()
    out = io.StringIO()
    try:
        with capture(run), contextlib.redirect_stdout(out):
            sr = ScenarioRunner()
            if world:
                c, tc, sl = sr.set_depending_on_option(copy.deepcopy(opts))
            else:
                c, tc, sl = sr.set_depending_on_option(copy.deepcopy(opts), country_data=row)
            run.constants_for_params = c
            run.result = sr.run_and_analyze_scenario(c, tc, sl, False, False, "", row, bool(save_all_results), "world" if world else row["country"], iso, title=title)
    except BaseException as e:  # SystemExit from sys.exit() inside the code included
        if isinstance(e, KeyboardInterrupt):
            raise
        run.error = "%s: %s" % (type(e).__name__, str(e)[:300].replace("\n", " "))
        run.trace = traceback.format_exc()[-1500:]
    run.wall = time.time() - t0
    run.stdout = out.getvalue()[-2000:]
    run.csv = [os.path.join("results", f) for f in os.listdir("results") if f.startswith(title)] if os.path.isdir("results") else []
    if not keep_csv:
        for f in run.csv:
            with contextlib.suppress(OSError):
                os.remove(f)
    return run


def pairwise_sets(space, rng, base=None):
    """option sets that together contain EVERY pair (value of one option, value of another option) of `space` (greedy covering array):
    an effect that needs the interplay of two option values is exercised whatever the pair is.  `space`: {option: [values]}."""
    keys = sorted(space)
    need = set()
    for i, a in enumerate(keys):
        for b in keys[i + 1:]:
            for va in space[a]:
                for vb in space[b]:
                    need.add((a, va, b, vb))
    sets = []
    while need:
        best, best_cov = None, -1
        for _ in range(30):
            cand = {k: rng.choice(space[k]) for k in keys}
            # seed the candidate with one still-uncovered pair so that every round makes progress
            a, va, b, vb = rng.choice(sorted(need, key=repr)[:50]) if len(need) > 50 else rng.choice(sorted(need, key=repr))
            cand[a], cand[b] = va, vb
            cov = sum(1 for i, x in enumerate(keys) for y in keys[i + 1:] if (x, cand[x], y, cand[y]) in need)
            if cov > best_cov:
                best, best_cov = cand, cov
        for i, x in enumerate(keys):
            for y in keys[i + 1:]:
                need.discard((x, best[x], y, best[y]))
        sets.append(dict(base or {}, **best))
    return sets
