"""C08 - supply series follow the calendar, the disruption schedule and the configured delays (DESIGN.md §7 C08)."""
from props import _supply as S

ID = "C08"
LEVEL = "proof"
LEVEL_TEXT = ("Lean 4 theorems, for every horizon and every input in the well-formed range over any ordered field: each supply series written the way "
              "the code writes it (concatenations, slices, linspace, loops, rotation of the January-based cycle, year blocks 8,12,...,12,16) equals "
              "(range NMONTHS).map of a closed-form documented spec; length, sign, delay-then-ramp (zero before the delay, monotone, capped) and "
              "homogeneity in the baseline follow pointwise; tied to the food-system classes and to compute_parameters_first_round on real country "
              "rows by running model, spec and real code on the same inputs every run")
LEVEL_NOTE = ("Trusted: Lean kernel (propext/Classical.choice/Quot.sound), the Python correspondence harness, exact arithmetic vs IEEE doubles (rel 1e-9), "
              "x**e modelled as a parameter with 0<=x<=1, 0<e<=1 -> x <= pow x e <= 1 and pow x 1 = x (Float.pow in the driver). The map country row -> "
              "constants_for_params is C13's; here the constants produced by the real ScenarioRunner are the model's inputs.")
TECHNIQUE = "Lean 4 refinement proofs (code-shaped list function = closed-form spec) + differential correspondence with the real classes"
DRIVER = "driver_supply"
LEAN_MODULES = ["AllfedModel.Props.C08"]
OBLIGATIONS = ["Allfed.C08." + n for n in """C08_reductions_spec C08_reductions_length C08_calendar C08_year1 C08_refines_spec_crops
C08_refines_spec_crops_off C08_length_crops C08_nonneg_crops C08_nonneg_greenhouse C08_ramp_monotone_capped_greenhouse C08_ramp_monotone_capped_area
C08_refines_spec_area_ramp C08_homogeneous_crops C08_refines_spec_fish C08_length_fish C08_refines_spec_fish_percent C08_nonneg_fish
C08_homogeneous_fish C08_refines_spec_grass C08_length_grass C08_grass_twelve_months C08_nonneg_grass C08_homogeneous_grass
C08_refines_spec_demand C08_length_demand C08_length_demand_outside C08_nonneg_demand C08_homogeneous_demand C08_refines_spec_scp
C08_length_scp C08_ramp_monotone_capped_scp C08_nonneg_scp C08_monotone_scp C08_homogeneous_scp C08_refines_spec_cs C08_length_cs
C08_ramp_monotone_capped_cs C08_nonneg_cs C08_homogeneous_cs C08_refines_spec_seaweed_area C08_length_seaweed_area
C08_ramp_monotone_capped_seaweed C08_nonneg_seaweed_area C08_refines_spec_seaweed_growth C08_length_seaweed_growth
C08_nonneg_seaweed_growth C08_refines_spec_stored_food C08_nonneg_stored_food C08_homogeneous_stored_food powOK_id""".split()]
RULE = ("(a) generated constants dictionaries (baselines 1e-3..1e6, seasonality vectors summing to one, ratios 0..1.5, delays 0..24, waste 0..99, "
        "horizons 12..120 step 12, all switches) through Parameters.init_outdoor_crops/init_greenhouse_params and the classes Seafood, MeatAndDairy, "
        "FeedAndBiofuels, MethaneSCP, CellulosicSugar, Seaweed, StoredFood; (b) a malformed stream provoking each guard; (c) real country rows x scenario "
        "option sets through ScenarioRunner.set_depending_on_option + Parameters.compute_parameters_first_round. Every series is compared pointwise "
        "with the code-shaped model and with the closed-form spec, and checked for length, finiteness, sign, ramp shape and homogeneity (second run "
        "of the real code with scaled baselines). non-trivial = some month of the series is positive; distinct = distinct input dictionaries")
ASSUMPTIONS = [
    "CropWF: start month 1..12, 12 seasonality shares >= 0 summing to 1 (+-0.001) or 0, January-April shares <= 1, baseline >= 0, ratios > -5e-9 "
    "(rounding noise is clamped by the code), RATIO_CROPS_YEAR1 < 101, relocation exponent in (0,1], NMONTHS <= 120, expansion ramp ends inside the horizon and not where it starts",
    "GhWF: cropland >= 0, NMONTHS >= 42 when greenhouses are on (assert in get_greenhouse_area), zero cropland only through a zero country share",
    "GrassWF: NMONTHS a multiple of 12 and >= 24, one ratio per year within [0, 10000]; NMONTHS = 12 gives 8 values (theorem C08_grass_twelve_months), not reported as a violation",
    "feed/biofuel: shut-off month <= NMONTHS; SCP: NMONTHS <= 2*delay+1031; the SCP delay is 2*delay+12 (pinned by tests/test_methane_scp.py)",
    "pow: 0<=x<=1, 0<e<=1 -> x <= pow x e <= 1, pow x 1 = x",
    "stored food: the asserts of calculate_stored_food_to_use (share used >= untouched ratio, result >= 0) are hypotheses",
]
TRUSTED = ["MeatAndDairy/FeedAndBiofuels instances of compute_parameters_first_round are captured by subclassing them inside src.optimizer.parameters for the call"]


def correspondence(ctx):
    rng = ctx.rng
    k = ctx.budget(1, 12)
    cases = [S.gen_constants(rng) for _ in range(400 * k)]
    bad = [S.gen_constants(rng, wellformed=False) for _ in range(100 * k)]
    S.check_crops(ctx, cases + bad, "C08")
    S.variant_checks(ctx, cases[:150 * k], "C08")
    S.check_other_series(ctx, [S.gen_constants(rng) for _ in range(300 * k)])
    rows = S.country_rows(ctx)
    if ctx.quick:
        rows = S.extreme_rows(rows) + rng.sample(rows, 22)
        opts = S.gen_options(rng, 5) + [dict(S.BASE_OPTION, scenario=s) for s in rng.sample(S.SCENARIOS, 3)]
    else:
        opts = S.gen_options(rng, 6) + [dict(S.BASE_OPTION, scenario=s) for s in S.SCENARIOS]
    ctx.extra["rows"] = len(rows)
    ctx.extra["option_sets_per_row"] = len(opts)
    S.check_real_rows(ctx, rows, opts, "C08")
    S.check_real_rows(ctx, [None], S.gen_world_options(rng, ctx.budget(6, 40)), "C08")  # the world aggregate
    S.check_country_inputs(ctx, S.country_rows(ctx))
    # every PAIR of option values at the parameters stage (a covering array of ~70 option sets), for one country in the quick tier (rotating with the seed)
    from lib import pipeline
    allrows = S.country_rows(ctx)
    pick = [r for r in allrows if S.iso_of(r) == "ARG"][:1] + rng.sample(allrows, ctx.budget(1, 5))
    pw = pipeline.pairwise_sets(S.OPTION_VALUES, rng, base=S.BASE_OPTION)
    ctx.extra["pairwise_option_sets"] = len(pw)
    S.check_real_rows(ctx, pick[-ctx.budget(1, 6):], pw, "C08")


def search(ctx):
    """tie broke: look harder for an input on which the property itself fails on the real code"""
    rng = ctx.rng
    cases = [S.gen_constants(rng) for _ in range(1500)]
    S.check_crops(ctx, cases, "C08", origin="search")
    S.variant_checks(ctx, cases[:300], "C08")
    S.check_other_series(ctx, [S.gen_constants(rng) for _ in range(600)])
    rows = S.country_rows(ctx)
    S.check_real_rows(ctx, rng.sample(rows, 40), S.gen_options(rng, 6), "C08")


def replay(ctx, rep):
    return S.replay(ctx, rep, "C08")
