import AllfedModel.Model.Scenario
/-
The hand-written SPECIFICATION of the scenario options (property C13): what every literal-valued setter
is documented to do, which setter every option value calls, which numeric overrides exist and what each
names.  Transcribed from `scenarios/README.md` ("Allowed Values") and the setters' docstrings / comments.
Data only; `Props/C13Spec.lean` proves that the tables generated from the source equal it, and the
driver runs it against the real setters (the executable statement of "sets exactly the constants its
documentation describes").  No Mathlib.
-/
namespace Allfed.Scenario

/-- the value a key is given -/
inductive SpecVal
  | ex (e : Ex)
  | list (l : List Ex)
  | rep (v n : Ex)
  deriving DecidableEq, Repr

/-- what a setter is documented to do -/
structure Spec where
  name : String
  params : List String
  /-- the `*_SET` flags it asserts clear and then sets -/
  family : List String
  /-- `some true`: only for the global analysis, `some false`: only for a country, `none`: both -/
  scope : Option Bool
  /-- `self.IS_GLOBAL_ANALYSIS = …` (the two initialisers) -/
  setsScope : Option Bool
  /-- keys that must already be present (`assert "K" in constants_for_params.keys()`) -/
  needs : List String
  /-- every assignment `constants_for_params[path] = value`, in execution order (helpers inlined) -/
  writes : List (String × SpecVal)
  deriving DecidableEq, Repr


namespace SpecDSL
abbrev n (i : Int) : Ex := .lit (.num i 0)
/-- the decimal `m·10^e` -/
abbrev d (m e : Int) : Ex := .lit (.num m e)
abbrev b (x : Bool) : Ex := .lit (.bool x)
abbrev s (x : String) : Ex := .lit (.str x)
abbrev cd (x : String) : Ex := .cd x
abbrev c (x : String) : Ex := .const x
abbrev dict : Ex := .emptyDict
end SpecDSL
open SpecDSL

def sp_init_global_food_system_properties : Spec :=
  { name := "init_global_food_system_properties", params := [], family := ["SCALE_SET", "GENERIC_INITIALIZED_SET"], scope := none, setsScope := some true, needs := [],
    writes := [
      ("GLOBAL_POP", .ex (n 7723713182)),
      ("INITIAL_GLOBAL_CROP_AREA", .ex (n 1430000000)),
      ("DELAY", .ex (dict)),
      ("INITIAL_HARVEST_DURATION_IN_MONTHS", .ex (n 8)),
      ("DELAY/ROTATION_CHANGE_IN_MONTHS", .ex (n 2)),
      ("ADD_FISH", .ex (b true)),
      ("POP", .ex (n 7723713182)),
      ("BASELINE_CROP_KCALS", .ex (n 3898000000)),
      ("BASELINE_CROP_FAT", .ex (n 322000000)),
      ("BASELINE_CROP_PROTEIN", .ex (n 350000000)),
      ("BIOFUEL_KCALS", .ex (n 623000000)),
      ("BIOFUEL_FAT", .ex (n 124000000)),
      ("BIOFUEL_PROTEIN", .ex (n 32000000)),
      ("FEED_KCALS", .ex (n 1447960000)),
      ("FEED_FAT", .ex (n 60000000)),
      ("FEED_PROTEIN", .ex (n 147000000)),
      ("HUMAN_INEDIBLE_FEED_BASELINE_MONTHLY", .ex (.div (.mul (n 4206) (n 1000000)) (n 12))),
      ("END_OF_MONTH_STOCKS", .ex (dict)),
      ("END_OF_MONTH_STOCKS/JAN", .ex (.mul (n 1960922000) (d 1015 (-3)))),
      ("END_OF_MONTH_STOCKS/FEB", .ex (.mul (n 1784277000) (d 1015 (-3)))),
      ("END_OF_MONTH_STOCKS/MAR", .ex (.mul (n 1624673000) (d 1015 (-3)))),
      ("END_OF_MONTH_STOCKS/APR", .ex (.mul (n 1492822000) (d 1015 (-3)))),
      ("END_OF_MONTH_STOCKS/MAY", .ex (.mul (n 1359236000) (d 1015 (-3)))),
      ("END_OF_MONTH_STOCKS/JUN", .ex (.mul (n 1245351000) (d 1015 (-3)))),
      ("END_OF_MONTH_STOCKS/JUL", .ex (.mul (n 1246485000) (d 1015 (-3)))),
      ("END_OF_MONTH_STOCKS/AUG", .ex (.mul (n 1140824000) (d 1015 (-3)))),
      ("END_OF_MONTH_STOCKS/SEP", .ex (.mul (n 1196499000) (d 1015 (-3)))),
      ("END_OF_MONTH_STOCKS/OCT", .ex (.mul (n 1487030000) (d 1015 (-3)))),
      ("END_OF_MONTH_STOCKS/NOV", .ex (.mul (n 1642406000) (d 1015 (-3)))),
      ("END_OF_MONTH_STOCKS/DEC", .ex (.mul (n 1813862000) (d 1015 (-3)))),
      ("SEAWEED_GROWTH_PER_DAY", .ex (dict)),
      ("INITIAL_MILK_CATTLE", .ex (n 264000000)),
      ("INIT_SMALL_ANIMALS", .ex (n 28200000000)),
      ("INIT_MEDIUM_ANIMALS", .ex (n 3200000000)),
      ("INIT_LARGE_ANIMALS_WITH_MILK_COWS", .ex (n 1900000000)),
      ("FISH_DRY_CALORIC_ANNUAL", .ex (n 27500000)),
      ("FISH_FAT_TONS_ANNUAL", .ex (n 4000000)),
      ("FISH_PROTEIN_TONS_ANNUAL", .ex (n 17000000)),
      ("TONS_MILK_ANNUAL", .ex (n 879000000)),
      ("TONS_CHICKEN_AND_PORK_ANNUAL", .ex (n 250000000)),
      ("TONS_BEEF_ANNUAL", .ex (n 74200000)),
      ("SCP_GLOBAL_PRODUCTION_FRACTION", .ex (n 1)),
      ("CS_GLOBAL_PRODUCTION_FRACTION", .ex (n 1)),
      ("SEAWEED_NEW_AREA_FRACTION", .ex (n 1)),
      ("SEAWEED_MAX_AREA_FRACTION", .ex (n 1)),
      ("ROTATION_IMPROVEMENTS", .ex (dict)),
      ("ROTATION_IMPROVEMENTS/POWER_LAW_IMPROVEMENT", .ex (d 796 (-3))),
      ("INITIAL_SEAWEED_FRACTION", .ex (n 1)),
      ("INITIAL_BUILT_SEAWEED_FRACTION", .ex (n 1)),
      ("INITIAL_CROP_AREA_FRACTION", .ex (n 1)),
      ("MILK_YIELD_KG_PER_MILK_BEARING_ANIMAL_PER_YEAR", .ex (d 10996 (-1))),
      ("KG_MEAT_PER_PIG", .ex (n 86)),
      ("KG_MEAT_PER_CHICKEN", .ex (d 165 (-2))),
      ("COUNTRY_CODE", .ex (s "WOR"))] }

def sp_set_immediate_shutoff : Spec :=
  { name := "set_immediate_shutoff", params := ["constants_for_params"], family := ["NONHUMAN_CONSUMPTION_SET"], scope := none, setsScope := none, needs := [],
    writes := [
      ("DELAY/FEED_SHUTOFF_MONTHS", .ex (n 0)),
      ("DELAY/BIOFUEL_SHUTOFF_MONTHS", .ex (n 0)),
      ("MINIMUM_PERCENT_FED_BEFORE_NONHUMAN_CONSUMPTION_ALLOWED", .ex (n 100))] }

def sp_set_one_month_delayed_shutoff : Spec :=
  { name := "set_one_month_delayed_shutoff", params := ["constants_for_params"], family := ["NONHUMAN_CONSUMPTION_SET"], scope := none, setsScope := none, needs := [],
    writes := [
      ("DELAY/FEED_SHUTOFF_MONTHS", .ex (n 1)),
      ("DELAY/BIOFUEL_SHUTOFF_MONTHS", .ex (n 1)),
      ("MINIMUM_PERCENT_FED_BEFORE_NONHUMAN_CONSUMPTION_ALLOWED", .ex (n 100))] }

def sp_set_short_delayed_shutoff : Spec :=
  { name := "set_short_delayed_shutoff", params := ["constants_for_params"], family := ["NONHUMAN_CONSUMPTION_SET"], scope := none, setsScope := none, needs := [],
    writes := [
      ("DELAY/FEED_SHUTOFF_MONTHS", .ex (n 2)),
      ("DELAY/BIOFUEL_SHUTOFF_MONTHS", .ex (n 1)),
      ("MINIMUM_PERCENT_FED_BEFORE_NONHUMAN_CONSUMPTION_ALLOWED", .ex (n 100))] }

def sp_set_long_delayed_shutoff : Spec :=
  { name := "set_long_delayed_shutoff", params := ["constants_for_params"], family := ["NONHUMAN_CONSUMPTION_SET"], scope := none, setsScope := none, needs := [],
    writes := [
      ("DELAY/FEED_SHUTOFF_MONTHS", .ex (n 3)),
      ("DELAY/BIOFUEL_SHUTOFF_MONTHS", .ex (n 2)),
      ("MINIMUM_PERCENT_FED_BEFORE_NONHUMAN_CONSUMPTION_ALLOWED", .ex (n 100))] }

def sp_set_continued_feed_biofuels : Spec :=
  { name := "set_continued_feed_biofuels", params := ["constants_for_params"], family := ["NONHUMAN_CONSUMPTION_SET"], scope := none, setsScope := none, needs := ["STORE_FOOD_BETWEEN_YEARS"],
    writes := [
      ("DELAY/FEED_SHUTOFF_MONTHS", .ex (c "NMONTHS")),
      ("DELAY/BIOFUEL_SHUTOFF_MONTHS", .ex (c "NMONTHS")),
      ("MINIMUM_PERCENT_FED_BEFORE_NONHUMAN_CONSUMPTION_ALLOWED", .ex (n 100))] }

def sp_set_continued_after_10_percent_fed : Spec :=
  { name := "set_continued_after_10_percent_fed", params := ["constants_for_params"], family := ["NONHUMAN_CONSUMPTION_SET"], scope := none, setsScope := none, needs := ["STORE_FOOD_BETWEEN_YEARS"],
    writes := [
      ("DELAY/FEED_SHUTOFF_MONTHS", .ex (c "NMONTHS")),
      ("DELAY/BIOFUEL_SHUTOFF_MONTHS", .ex (c "NMONTHS")),
      ("MINIMUM_PERCENT_FED_BEFORE_NONHUMAN_CONSUMPTION_ALLOWED", .ex (n 10))] }

def sp_set_long_delayed_shutoff_after_10_percent_fed : Spec :=
  { name := "set_long_delayed_shutoff_after_10_percent_fed", params := ["constants_for_params"], family := ["NONHUMAN_CONSUMPTION_SET"], scope := none, setsScope := none, needs := ["STORE_FOOD_BETWEEN_YEARS"],
    writes := [
      ("DELAY/FEED_SHUTOFF_MONTHS", .ex (n 12)),
      ("DELAY/BIOFUEL_SHUTOFF_MONTHS", .ex (n 6)),
      ("MINIMUM_PERCENT_FED_BEFORE_NONHUMAN_CONSUMPTION_ALLOWED", .ex (n 10))] }

def sp_set_breeding_to_greatly_reduced : Spec :=
  { name := "set_breeding_to_greatly_reduced", params := ["constants_for_params"], family := ["MEAT_STRATEGY_SET"], scope := none, setsScope := none, needs := [],
    writes := [
      ("BREEDING_STRATEGY", .ex (s "reduced"))] }

def sp_set_to_baseline_breeding : Spec :=
  { name := "set_to_baseline_breeding", params := ["constants_for_params"], family := ["MEAT_STRATEGY_SET"], scope := none, setsScope := none, needs := [],
    writes := [
      ("BREEDING_STRATEGY", .ex (s "baseline"))] }

def sp_set_to_feed_only_ruminants : Spec :=
  { name := "set_to_feed_only_ruminants", params := ["constants_for_params"], family := ["MEAT_STRATEGY_SET"], scope := none, setsScope := none, needs := [],
    writes := [
      ("BREEDING_STRATEGY", .ex (s "feed_only_ruminants"))] }

def sp_set_waste_to_zero : Spec :=
  { name := "set_waste_to_zero", params := ["constants_for_params"], family := ["WASTE_SET"], scope := none, setsScope := none, needs := [],
    writes := [
      ("WASTE_DISTRIBUTION", .ex (dict)),
      ("WASTE_DISTRIBUTION/SUGAR", .ex (n 0)),
      ("WASTE_DISTRIBUTION/MEAT", .ex (n 0)),
      ("WASTE_DISTRIBUTION/MILK", .ex (n 0)),
      ("WASTE_DISTRIBUTION/SEAFOOD", .ex (n 0)),
      ("WASTE_DISTRIBUTION/CROPS", .ex (n 0)),
      ("WASTE_DISTRIBUTION/SEAWEED", .ex (n 0)),
      ("WASTE_RETAIL", .ex (n 0))] }

def sp_set_global_waste_to_tripled_prices : Spec :=
  { name := "set_global_waste_to_tripled_prices", params := ["constants_for_params"], family := ["WASTE_SET"], scope := some true, setsScope := none, needs := [],
    writes := [
      ("WASTE_DISTRIBUTION", .ex (dict)),
      ("WASTE_DISTRIBUTION/SUGAR", .ex (d 9 (-2))),
      ("WASTE_DISTRIBUTION/CROPS", .ex (d 496 (-2))),
      ("WASTE_DISTRIBUTION/MEAT", .ex (d 8 (-1))),
      ("WASTE_DISTRIBUTION/MILK", .ex (d 212 (-2))),
      ("WASTE_DISTRIBUTION/SEAFOOD", .ex (d 17 (-2))),
      ("WASTE_DISTRIBUTION/SEAWEED", .ex (d 17 (-2))),
      ("WASTE_RETAIL", .ex (d 608 (-2)))] }

def sp_set_global_waste_to_doubled_prices : Spec :=
  { name := "set_global_waste_to_doubled_prices", params := ["constants_for_params"], family := ["WASTE_SET"], scope := some true, setsScope := none, needs := [],
    writes := [
      ("WASTE_DISTRIBUTION", .ex (dict)),
      ("WASTE_DISTRIBUTION/SUGAR", .ex (d 9 (-2))),
      ("WASTE_DISTRIBUTION/CROPS", .ex (d 496 (-2))),
      ("WASTE_DISTRIBUTION/MEAT", .ex (d 8 (-1))),
      ("WASTE_DISTRIBUTION/MILK", .ex (d 212 (-2))),
      ("WASTE_DISTRIBUTION/SEAFOOD", .ex (d 17 (-2))),
      ("WASTE_DISTRIBUTION/SEAWEED", .ex (d 17 (-2))),
      ("WASTE_RETAIL", .ex (d 106 (-1)))] }

def sp_set_global_waste_to_baseline_prices : Spec :=
  { name := "set_global_waste_to_baseline_prices", params := ["constants_for_params"], family := ["WASTE_SET"], scope := some true, setsScope := none, needs := [],
    writes := [
      ("WASTE_DISTRIBUTION", .ex (dict)),
      ("WASTE_DISTRIBUTION/SUGAR", .ex (d 9 (-2))),
      ("WASTE_DISTRIBUTION/CROPS", .ex (d 496 (-2))),
      ("WASTE_DISTRIBUTION/MEAT", .ex (d 8 (-1))),
      ("WASTE_DISTRIBUTION/MILK", .ex (d 212 (-2))),
      ("WASTE_DISTRIBUTION/SEAFOOD", .ex (d 17 (-2))),
      ("WASTE_DISTRIBUTION/SEAWEED", .ex (d 17 (-2))),
      ("WASTE_RETAIL", .ex (d 2498 (-2)))] }

def sp_set_country_waste_to_tripled_prices : Spec :=
  { name := "set_country_waste_to_tripled_prices", params := ["constants_for_params", "country_data"], family := ["WASTE_SET"], scope := some false, setsScope := none, needs := [],
    writes := [
      ("WASTE_DISTRIBUTION", .ex (dict)),
      ("WASTE_DISTRIBUTION/SUGAR", .ex (.mul (cd "distribution_loss_sugar") (n 100))),
      ("WASTE_DISTRIBUTION/CROPS", .ex (.mul (cd "distribution_loss_crops") (n 100))),
      ("WASTE_DISTRIBUTION/MEAT", .ex (.mul (cd "distribution_loss_meat") (n 100))),
      ("WASTE_DISTRIBUTION/MILK", .ex (.mul (cd "distribution_loss_dairy") (n 100))),
      ("WASTE_DISTRIBUTION/SEAFOOD", .ex (.mul (cd "distribution_loss_seafood") (n 100))),
      ("WASTE_DISTRIBUTION/SEAWEED", .ex (.mul (cd "distribution_loss_seafood") (n 100))),
      ("WASTE_RETAIL", .ex (.mul (cd "retail_waste_price_triple") (n 100)))] }

def sp_set_country_waste_to_doubled_prices : Spec :=
  { name := "set_country_waste_to_doubled_prices", params := ["constants_for_params", "country_data"], family := ["WASTE_SET"], scope := some false, setsScope := none, needs := [],
    writes := [
      ("WASTE_DISTRIBUTION", .ex (dict)),
      ("WASTE_DISTRIBUTION/SUGAR", .ex (.mul (cd "distribution_loss_sugar") (n 100))),
      ("WASTE_DISTRIBUTION/CROPS", .ex (.mul (cd "distribution_loss_crops") (n 100))),
      ("WASTE_DISTRIBUTION/MEAT", .ex (.mul (cd "distribution_loss_meat") (n 100))),
      ("WASTE_DISTRIBUTION/MILK", .ex (.mul (cd "distribution_loss_dairy") (n 100))),
      ("WASTE_DISTRIBUTION/SEAFOOD", .ex (.mul (cd "distribution_loss_seafood") (n 100))),
      ("WASTE_DISTRIBUTION/SEAWEED", .ex (.mul (cd "distribution_loss_seafood") (n 100))),
      ("WASTE_RETAIL", .ex (.mul (cd "retail_waste_price_double") (n 100)))] }

def sp_set_country_waste_to_baseline_prices : Spec :=
  { name := "set_country_waste_to_baseline_prices", params := ["constants_for_params", "country_data"], family := ["WASTE_SET"], scope := some false, setsScope := none, needs := [],
    writes := [
      ("WASTE_DISTRIBUTION", .ex (dict)),
      ("WASTE_DISTRIBUTION/SUGAR", .ex (.mul (cd "distribution_loss_sugar") (n 100))),
      ("WASTE_DISTRIBUTION/CROPS", .ex (.mul (cd "distribution_loss_crops") (n 100))),
      ("WASTE_DISTRIBUTION/MEAT", .ex (.mul (cd "distribution_loss_meat") (n 100))),
      ("WASTE_DISTRIBUTION/MILK", .ex (.mul (cd "distribution_loss_dairy") (n 100))),
      ("WASTE_DISTRIBUTION/SEAFOOD", .ex (.mul (cd "distribution_loss_seafood") (n 100))),
      ("WASTE_DISTRIBUTION/SEAWEED", .ex (.mul (cd "distribution_loss_seafood") (n 100))),
      ("WASTE_RETAIL", .ex (.mul (cd "retail_waste_baseline") (n 100)))] }

def sp_set_baseline_nutrition_profile : Spec :=
  { name := "set_baseline_nutrition_profile", params := ["constants_for_params"], family := ["NUTRITION_PROFILE_SET"], scope := none, setsScope := none, needs := [],
    writes := [
      ("NUTRITION", .ex (dict)),
      ("NUTRITION/KCALS_DAILY", .ex (n 2100)),
      ("NUTRITION/FAT_DAILY", .ex (d 617 (-1))),
      ("NUTRITION/PROTEIN_DAILY", .ex (d 595 (-1)))] }

def sp_set_catastrophe_nutrition_profile : Spec :=
  { name := "set_catastrophe_nutrition_profile", params := ["constants_for_params"], family := ["NUTRITION_PROFILE_SET"], scope := none, setsScope := none, needs := [],
    writes := [
      ("NUTRITION", .ex (dict)),
      ("NUTRITION/KCALS_DAILY", .ex (n 2100)),
      ("NUTRITION/FAT_DAILY", .ex (n 47)),
      ("NUTRITION/PROTEIN_DAILY", .ex (n 51))] }

def sp_set_intake_constraints_to_enabled : Spec :=
  { name := "set_intake_constraints_to_enabled", params := ["constants_for_params"], family := ["INTAKE_CONSTRAINTS_SET"], scope := none, setsScope := none, needs := [],
    writes := [
      ("MAX_SEAWEED_AS_PERCENT_KCALS_HUMANS", .ex (n 10)),
      ("MAX_CELLULOSIC_SUGAR_AS_PERCENT_KCALS_HUMANS", .ex (n 40)),
      ("MAX_METHANE_SCP_AS_PERCENT_KCALS_HUMANS", .ex (n 50)),
      ("MAX_SEAWEED_AS_PERCENT_KCALS_FEED", .ex (n 10)),
      ("MAX_CELLULOSIC_SUGAR_AS_PERCENT_KCALS_FEED", .ex (n 10)),
      ("MAX_METHANE_SCP_AS_PERCENT_KCALS_FEED", .ex (n 43)),
      ("MAX_SEAWEED_AS_PERCENT_KCALS_BIOFUEL", .ex (n 10)),
      ("MAX_CELLULOSIC_SUGAR_AS_PERCENT_KCALS_BIOFUEL", .ex (n 100)),
      ("MAX_METHANE_SCP_AS_PERCENT_KCALS_BIOFUEL", .ex (n 100))] }

def sp_set_intake_constraints_to_disabled_for_humans : Spec :=
  { name := "set_intake_constraints_to_disabled_for_humans", params := ["constants_for_params"], family := ["INTAKE_CONSTRAINTS_SET"], scope := none, setsScope := none, needs := [],
    writes := [
      ("MAX_SEAWEED_AS_PERCENT_KCALS_HUMANS", .ex (n 100)),
      ("MAX_CELLULOSIC_SUGAR_AS_PERCENT_KCALS_HUMANS", .ex (n 100)),
      ("MAX_METHANE_SCP_AS_PERCENT_KCALS_HUMANS", .ex (n 100)),
      ("MAX_SEAWEED_AS_PERCENT_KCALS_FEED", .ex (n 10)),
      ("MAX_CELLULOSIC_SUGAR_AS_PERCENT_KCALS_FEED", .ex (n 10)),
      ("MAX_METHANE_SCP_AS_PERCENT_KCALS_FEED", .ex (n 43)),
      ("MAX_SEAWEED_AS_PERCENT_KCALS_BIOFUEL", .ex (n 10)),
      ("MAX_CELLULOSIC_SUGAR_AS_PERCENT_KCALS_BIOFUEL", .ex (n 100)),
      ("MAX_METHANE_SCP_AS_PERCENT_KCALS_BIOFUEL", .ex (n 100))] }

def sp_set_no_stored_food : Spec :=
  { name := "set_no_stored_food", params := ["constants_for_params"], family := ["STORED_FOOD_SET"], scope := none, setsScope := none, needs := [],
    writes := [
      ("STORE_FOOD_BETWEEN_YEARS", .ex (b true)),
      ("PERCENT_STORED_FOOD_TO_USE", .ex (n 0)),
      ("ADD_STORED_FOOD", .ex (b false))] }

def sp_set_baseline_stored_food : Spec :=
  { name := "set_baseline_stored_food", params := ["constants_for_params"], family := ["STORED_FOOD_SET"], scope := none, setsScope := none, needs := [],
    writes := [
      ("STORE_FOOD_BETWEEN_YEARS", .ex (b true)),
      ("PERCENT_STORED_FOOD_TO_USE", .ex (n 100)),
      ("ADD_STORED_FOOD", .ex (b true))] }

def sp_set_stored_food_buffer_zero : Spec :=
  { name := "set_stored_food_buffer_zero", params := ["constants_for_params"], family := ["STORED_FOOD_END_SIM_SET"], scope := none, setsScope := none, needs := [],
    writes := [
      ("STORE_FOOD_BETWEEN_YEARS", .ex (b true)),
      ("RATIO_STOCKS_UNTOUCHED", .ex (n 0))] }

def sp_set_no_stored_food_between_years : Spec :=
  { name := "set_no_stored_food_between_years", params := ["constants_for_params"], family := ["STORED_FOOD_END_SIM_SET"], scope := none, setsScope := none, needs := [],
    writes := [
      ("STORE_FOOD_BETWEEN_YEARS", .ex (b false)),
      ("RATIO_STOCKS_UNTOUCHED", .ex (n 0))] }

def sp_set_stored_food_buffer_as_baseline : Spec :=
  { name := "set_stored_food_buffer_as_baseline", params := ["constants_for_params"], family := ["STORED_FOOD_END_SIM_SET"], scope := none, setsScope := none, needs := [],
    writes := [
      ("STORE_FOOD_BETWEEN_YEARS", .ex (b true)),
      ("RATIO_STOCKS_UNTOUCHED", .ex (n 1))] }

def sp_set_stored_food_buffer_as_baseline_and_no_stored_between_years : Spec :=
  { name := "set_stored_food_buffer_as_baseline_and_no_stored_between_years", params := ["constants_for_params"], family := ["STORED_FOOD_END_SIM_SET"], scope := none, setsScope := none, needs := [],
    writes := [
      ("STORE_FOOD_BETWEEN_YEARS", .ex (b false)),
      ("RATIO_STOCKS_UNTOUCHED", .ex (n 1))] }

def sp_set_no_seasonality : Spec :=
  { name := "set_no_seasonality", params := ["constants_for_params"], family := ["SEASONALITY_SET"], scope := none, setsScope := none, needs := [],
    writes := [
      ("SEASONALITY", .list [.div (n 1) (n 12), .div (n 1) (n 12), .div (n 1) (n 12), .div (n 1) (n 12), .div (n 1) (n 12), .div (n 1) (n 12), .div (n 1) (n 12), .div (n 1) (n 12), .div (n 1) (n 12), .div (n 1) (n 12), .div (n 1) (n 12), .div (n 1) (n 12)])] }

def sp_set_global_seasonality_baseline : Spec :=
  { name := "set_global_seasonality_baseline", params := ["constants_for_params"], family := ["SEASONALITY_SET"], scope := some true, setsScope := none, needs := [],
    writes := [
      ("SEASONALITY", .list [d 1121 (-4), d 178 (-4), d 241 (-4), d 344 (-4), d 338 (-4), d 411 (-4), d 882 (-4), d 791 (-4), d 1042 (-4), d 1911 (-4), d 1377 (-4), d 1365 (-4)])] }

def sp_set_global_seasonality_nuclear_winter : Spec :=
  { name := "set_global_seasonality_nuclear_winter", params := ["constants_for_params"], family := ["SEASONALITY_SET"], scope := some true, setsScope := none, needs := [],
    writes := [
      ("SEASONALITY", .list [d 1564 (-4), d 461 (-4), d 65 (-3), d 1017 (-4), d 772 (-4), d 785 (-4), d 667 (-4), d 256 (-4), d 163 (-4), d 1254 (-4), d 1183 (-4), d 1228 (-4)])] }

def sp_set_grasses_baseline : Spec :=
  { name := "set_grasses_baseline", params := ["constants_for_params"], family := ["GRASSES_SET"], scope := none, setsScope := none, needs := [],
    writes := [
      ("RATIO_GRASSES_YEAR1", .ex (n 1)),
      ("RATIO_GRASSES_YEAR2", .ex (n 1)),
      ("RATIO_GRASSES_YEAR3", .ex (n 1)),
      ("RATIO_GRASSES_YEAR4", .ex (n 1)),
      ("RATIO_GRASSES_YEAR5", .ex (n 1)),
      ("RATIO_GRASSES_YEAR6", .ex (n 1)),
      ("RATIO_GRASSES_YEAR7", .ex (n 1)),
      ("RATIO_GRASSES_YEAR8", .ex (n 1)),
      ("RATIO_GRASSES_YEAR9", .ex (n 1)),
      ("RATIO_GRASSES_YEAR10", .ex (n 1))] }

def sp_set_global_grasses_nuclear_winter : Spec :=
  { name := "set_global_grasses_nuclear_winter", params := ["constants_for_params"], family := ["GRASSES_SET"], scope := some true, setsScope := none, needs := [],
    writes := [
      ("RATIO_GRASSES_YEAR1", .ex (d 72 (-2))),
      ("RATIO_GRASSES_YEAR2", .ex (d 24 (-2))),
      ("RATIO_GRASSES_YEAR3", .ex (d 16 (-2))),
      ("RATIO_GRASSES_YEAR4", .ex (d 13 (-2))),
      ("RATIO_GRASSES_YEAR5", .ex (d 125 (-3))),
      ("RATIO_GRASSES_YEAR6", .ex (d 15 (-2))),
      ("RATIO_GRASSES_YEAR7", .ex (d 17 (-2))),
      ("RATIO_GRASSES_YEAR8", .ex (d 23 (-2))),
      ("RATIO_GRASSES_YEAR9", .ex (d 32 (-2))),
      ("RATIO_GRASSES_YEAR10", .ex (d 41 (-2)))] }

def sp_set_country_grasses_nuclear_winter : Spec :=
  { name := "set_country_grasses_nuclear_winter", params := ["constants_for_params", "country_data"], family := ["GRASSES_SET"], scope := some false, setsScope := none, needs := [],
    writes := [
      ("RATIO_GRASSES_YEAR1", .ex (.add (n 1) (cd "grasses_reduction_year1"))),
      ("RATIO_GRASSES_YEAR2", .ex (.add (n 1) (cd "grasses_reduction_year2"))),
      ("RATIO_GRASSES_YEAR3", .ex (.add (n 1) (cd "grasses_reduction_year3"))),
      ("RATIO_GRASSES_YEAR4", .ex (.add (n 1) (cd "grasses_reduction_year4"))),
      ("RATIO_GRASSES_YEAR5", .ex (.add (n 1) (cd "grasses_reduction_year5"))),
      ("RATIO_GRASSES_YEAR6", .ex (.add (n 1) (cd "grasses_reduction_year6"))),
      ("RATIO_GRASSES_YEAR7", .ex (.add (n 1) (cd "grasses_reduction_year7"))),
      ("RATIO_GRASSES_YEAR8", .ex (.add (n 1) (cd "grasses_reduction_year8"))),
      ("RATIO_GRASSES_YEAR9", .ex (.add (n 1) (cd "grasses_reduction_year9"))),
      ("RATIO_GRASSES_YEAR10", .ex (.add (n 1) (cd "grasses_reduction_year10")))] }

def sp_set_country_grasses_to_zero : Spec :=
  { name := "set_country_grasses_to_zero", params := ["constants_for_params"], family := ["GRASSES_SET"], scope := some false, setsScope := none, needs := [],
    writes := [
      ("RATIO_GRASSES_YEAR1", .ex (n 0)),
      ("RATIO_GRASSES_YEAR2", .ex (n 0)),
      ("RATIO_GRASSES_YEAR3", .ex (n 0)),
      ("RATIO_GRASSES_YEAR4", .ex (n 0)),
      ("RATIO_GRASSES_YEAR5", .ex (n 0)),
      ("RATIO_GRASSES_YEAR6", .ex (n 0)),
      ("RATIO_GRASSES_YEAR7", .ex (n 0)),
      ("RATIO_GRASSES_YEAR8", .ex (n 0)),
      ("RATIO_GRASSES_YEAR9", .ex (n 0)),
      ("RATIO_GRASSES_YEAR10", .ex (n 0))] }

def sp_set_fish_zero : Spec :=
  { name := "set_fish_zero", params := ["constants_for_params", "time_consts"], family := ["FISH_SET"], scope := none, setsScope := none, needs := [],
    writes := [
      ("time_consts:FISH_PERCENT_MONTHLY", .rep (n 0) (c "NMONTHS"))] }

def sp_set_fish_baseline : Spec :=
  { name := "set_fish_baseline", params := ["constants_for_params", "time_consts"], family := ["FISH_SET"], scope := none, setsScope := none, needs := [],
    writes := [
      ("time_consts:FISH_PERCENT_MONTHLY", .rep (n 100) (c "NMONTHS"))] }

def sp_set_disruption_to_crops_to_zero : Spec :=
  { name := "set_disruption_to_crops_to_zero", params := ["constants_for_params"], family := ["DISRUPTION_SET"], scope := none, setsScope := none, needs := [],
    writes := [
      ("ADD_OUTDOOR_GROWING", .ex (b true)),
      ("RATIO_CROPS_YEAR1", .ex (n 1)),
      ("RATIO_CROPS_YEAR2", .ex (n 1)),
      ("RATIO_CROPS_YEAR3", .ex (n 1)),
      ("RATIO_CROPS_YEAR4", .ex (n 1)),
      ("RATIO_CROPS_YEAR5", .ex (n 1)),
      ("RATIO_CROPS_YEAR6", .ex (n 1)),
      ("RATIO_CROPS_YEAR7", .ex (n 1)),
      ("RATIO_CROPS_YEAR8", .ex (n 1)),
      ("RATIO_CROPS_YEAR9", .ex (n 1)),
      ("RATIO_CROPS_YEAR10", .ex (n 1))] }

def sp_set_nuclear_winter_global_disruption_to_crops : Spec :=
  { name := "set_nuclear_winter_global_disruption_to_crops", params := ["constants_for_params"], family := ["DISRUPTION_SET"], scope := some true, setsScope := none, needs := [],
    writes := [
      ("ADD_OUTDOOR_GROWING", .ex (b true)),
      ("RATIO_CROPS_YEAR1", .ex (.sub (n 1) (d 53 (-2)))),
      ("RATIO_CROPS_YEAR2", .ex (.sub (n 1) (d 82 (-2)))),
      ("RATIO_CROPS_YEAR3", .ex (.sub (n 1) (d 89 (-2)))),
      ("RATIO_CROPS_YEAR4", .ex (.sub (n 1) (d 88 (-2)))),
      ("RATIO_CROPS_YEAR5", .ex (.sub (n 1) (d 84 (-2)))),
      ("RATIO_CROPS_YEAR6", .ex (.sub (n 1) (d 76 (-2)))),
      ("RATIO_CROPS_YEAR7", .ex (.sub (n 1) (d 65 (-2)))),
      ("RATIO_CROPS_YEAR8", .ex (.sub (n 1) (d 5 (-1)))),
      ("RATIO_CROPS_YEAR9", .ex (.sub (n 1) (d 33 (-2)))),
      ("RATIO_CROPS_YEAR10", .ex (.sub (n 1) (d 17 (-2)))),
      ("RATIO_CROPS_YEAR11", .ex (.sub (n 1) (d 8 (-2))))] }

def sp_set_nuclear_winter_country_disruption_to_crops : Spec :=
  { name := "set_nuclear_winter_country_disruption_to_crops", params := ["constants_for_params", "country_data"], family := ["DISRUPTION_SET"], scope := some false, setsScope := none, needs := [],
    writes := [
      ("ADD_OUTDOOR_GROWING", .ex (b true)),
      ("RATIO_CROPS_YEAR1", .ex (.add (n 1) (cd "crop_reduction_year1"))),
      ("RATIO_CROPS_YEAR2", .ex (.add (n 1) (cd "crop_reduction_year2"))),
      ("RATIO_CROPS_YEAR3", .ex (.add (n 1) (cd "crop_reduction_year3"))),
      ("RATIO_CROPS_YEAR4", .ex (.add (n 1) (cd "crop_reduction_year4"))),
      ("RATIO_CROPS_YEAR5", .ex (.add (n 1) (cd "crop_reduction_year5"))),
      ("RATIO_CROPS_YEAR6", .ex (.add (n 1) (cd "crop_reduction_year6"))),
      ("RATIO_CROPS_YEAR7", .ex (.add (n 1) (cd "crop_reduction_year7"))),
      ("RATIO_CROPS_YEAR8", .ex (.add (n 1) (cd "crop_reduction_year8"))),
      ("RATIO_CROPS_YEAR9", .ex (.add (n 1) (cd "crop_reduction_year9"))),
      ("RATIO_CROPS_YEAR10", .ex (.add (n 1) (cd "crop_reduction_year10"))),
      ("RATIO_CROPS_YEAR11", .ex (.add (n 1) (cd "crop_reduction_year10")))] }

def sp_set_zero_crops : Spec :=
  { name := "set_zero_crops", params := ["constants_for_params"], family := ["DISRUPTION_SET"], scope := none, setsScope := none, needs := [],
    writes := [
      ("ADD_OUTDOOR_GROWING", .ex (b false)),
      ("RATIO_OF_CROP_YIELDS_FROM_VERY_BEGINNING", .ex (n 0)),
      ("RATIO_CROPS_YEAR1", .ex (n 0)),
      ("RATIO_CROPS_YEAR2", .ex (n 0)),
      ("RATIO_CROPS_YEAR3", .ex (n 0)),
      ("RATIO_CROPS_YEAR4", .ex (n 0)),
      ("RATIO_CROPS_YEAR5", .ex (n 0)),
      ("RATIO_CROPS_YEAR6", .ex (n 0)),
      ("RATIO_CROPS_YEAR7", .ex (n 0)),
      ("RATIO_CROPS_YEAR8", .ex (n 0)),
      ("RATIO_CROPS_YEAR9", .ex (n 0)),
      ("RATIO_CROPS_YEAR10", .ex (n 0)),
      ("RATIO_CROPS_YEAR11", .ex (n 0))] }

def sp_include_protein : Spec :=
  { name := "include_protein", params := ["constants_for_params"], family := ["PROTEIN_SET"], scope := none, setsScope := none, needs := [],
    writes := [
      ("INCLUDE_PROTEIN", .ex (b true))] }

def sp_dont_include_protein : Spec :=
  { name := "dont_include_protein", params := ["constants_for_params"], family := ["PROTEIN_SET"], scope := none, setsScope := none, needs := [],
    writes := [
      ("INCLUDE_PROTEIN", .ex (b false))] }

def sp_include_fat : Spec :=
  { name := "include_fat", params := ["constants_for_params"], family := ["FAT_SET"], scope := none, setsScope := none, needs := [],
    writes := [
      ("INCLUDE_FAT", .ex (b true))] }

def sp_dont_include_fat : Spec :=
  { name := "dont_include_fat", params := ["constants_for_params"], family := ["FAT_SET"], scope := none, setsScope := none, needs := [],
    writes := [
      ("INCLUDE_FAT", .ex (b false))] }

def sp_get_all_resilient_foods_scenario : Spec :=
  { name := "get_all_resilient_foods_scenario", params := ["constants_for_params"], family := ["SCENARIO_SET"], scope := none, setsScope := none, needs := [],
    writes := [
      ("OG_USE_BETTER_ROTATION", .ex (b true)),
      ("ROTATION_IMPROVEMENTS/FAT_RATIO", .ex (d 1647 (-3))),
      ("ROTATION_IMPROVEMENTS/PROTEIN_RATIO", .ex (d 1108 (-3))),
      ("RATIO_INCREASED_CROP_AREA", .ex (n 1)),
      ("DELAY/INDUSTRIAL_FOODS_MONTHS", .ex (n 2)),
      ("INDUSTRIAL_FOODS_SLOPE_MULTIPLIER", .ex (n 1)),
      ("ADD_METHANE_SCP", .ex (b true)),
      ("DELAY/INDUSTRIAL_FOODS_MONTHS", .ex (n 2)),
      ("INDUSTRIAL_FOODS_SLOPE_MULTIPLIER", .ex (n 1)),
      ("ADD_CELLULOSIC_SUGAR", .ex (b true)),
      ("GREENHOUSE_GAIN_PCT", .ex (n 44)),
      ("DELAY/GREENHOUSE_MONTHS", .ex (n 2)),
      ("GREENHOUSE_AREA_MULTIPLIER", .ex (.div (n 190000000) (c "INITIAL_GLOBAL_CROP_AREA"))),
      ("ADD_GREENHOUSES", .ex (b true)),
      ("ADD_SEAWEED", .ex (b true)),
      ("DELAY/SEAWEED_MONTHS", .ex (n 1))] }

def sp_get_all_resilient_foods_and_more_area_scenario : Spec :=
  { name := "get_all_resilient_foods_and_more_area_scenario", params := ["constants_for_params"], family := ["SCENARIO_SET"], scope := none, setsScope := none, needs := [],
    writes := [
      ("OG_USE_BETTER_ROTATION", .ex (b true)),
      ("ROTATION_IMPROVEMENTS/FAT_RATIO", .ex (d 1647 (-3))),
      ("ROTATION_IMPROVEMENTS/PROTEIN_RATIO", .ex (d 1108 (-3))),
      ("RATIO_INCREASED_CROP_AREA", .ex (.div (n 72) (n 39))),
      ("NUMBER_YEARS_TAKES_TO_REACH_INCREASED_AREA", .ex (n 3)),
      ("DELAY/INDUSTRIAL_FOODS_MONTHS", .ex (n 2)),
      ("INDUSTRIAL_FOODS_SLOPE_MULTIPLIER", .ex (n 1)),
      ("ADD_METHANE_SCP", .ex (b true)),
      ("DELAY/INDUSTRIAL_FOODS_MONTHS", .ex (n 2)),
      ("INDUSTRIAL_FOODS_SLOPE_MULTIPLIER", .ex (n 1)),
      ("ADD_CELLULOSIC_SUGAR", .ex (b true)),
      ("GREENHOUSE_GAIN_PCT", .ex (n 44)),
      ("DELAY/GREENHOUSE_MONTHS", .ex (n 2)),
      ("GREENHOUSE_AREA_MULTIPLIER", .ex (.div (n 190000000) (c "INITIAL_GLOBAL_CROP_AREA"))),
      ("ADD_GREENHOUSES", .ex (b true)),
      ("ADD_SEAWEED", .ex (b true)),
      ("DELAY/SEAWEED_MONTHS", .ex (n 1))] }

def sp_get_seaweed_scenario : Spec :=
  { name := "get_seaweed_scenario", params := ["constants_for_params"], family := ["SCENARIO_SET"], scope := none, setsScope := none, needs := [],
    writes := [
      ("INDUSTRIAL_FOODS_SLOPE_MULTIPLIER", .ex (n 0)),
      ("OG_USE_BETTER_ROTATION", .ex (b false)),
      ("ADD_CELLULOSIC_SUGAR", .ex (b false)),
      ("ADD_GREENHOUSES", .ex (b false)),
      ("ADD_METHANE_SCP", .ex (b false)),
      ("RATIO_INCREASED_CROP_AREA", .ex (n 1)),
      ("ADD_SEAWEED", .ex (b true)),
      ("DELAY/SEAWEED_MONTHS", .ex (n 1))] }

def sp_get_methane_scp_scenario : Spec :=
  { name := "get_methane_scp_scenario", params := ["constants_for_params"], family := ["SCENARIO_SET"], scope := none, setsScope := none, needs := [],
    writes := [
      ("OG_USE_BETTER_ROTATION", .ex (b false)),
      ("ADD_CELLULOSIC_SUGAR", .ex (b false)),
      ("ADD_GREENHOUSES", .ex (b false)),
      ("ADD_SEAWEED", .ex (b false)),
      ("RATIO_INCREASED_CROP_AREA", .ex (n 1)),
      ("DELAY/INDUSTRIAL_FOODS_MONTHS", .ex (n 2)),
      ("INDUSTRIAL_FOODS_SLOPE_MULTIPLIER", .ex (n 1)),
      ("ADD_METHANE_SCP", .ex (b true))] }

def sp_get_cellulosic_sugar_scenario : Spec :=
  { name := "get_cellulosic_sugar_scenario", params := ["constants_for_params"], family := ["SCENARIO_SET"], scope := none, setsScope := none, needs := [],
    writes := [
      ("OG_USE_BETTER_ROTATION", .ex (b false)),
      ("ADD_METHANE_SCP", .ex (b false)),
      ("ADD_GREENHOUSES", .ex (b false)),
      ("ADD_SEAWEED", .ex (b false)),
      ("RATIO_INCREASED_CROP_AREA", .ex (n 1)),
      ("DELAY/INDUSTRIAL_FOODS_MONTHS", .ex (n 2)),
      ("INDUSTRIAL_FOODS_SLOPE_MULTIPLIER", .ex (n 1)),
      ("ADD_CELLULOSIC_SUGAR", .ex (b true))] }

def sp_get_industrial_foods_scenario : Spec :=
  { name := "get_industrial_foods_scenario", params := ["constants_for_params"], family := ["SCENARIO_SET"], scope := none, setsScope := none, needs := [],
    writes := [
      ("OG_USE_BETTER_ROTATION", .ex (b false)),
      ("ADD_GREENHOUSES", .ex (b false)),
      ("ADD_SEAWEED", .ex (b false)),
      ("RATIO_INCREASED_CROP_AREA", .ex (n 1)),
      ("DELAY/INDUSTRIAL_FOODS_MONTHS", .ex (n 2)),
      ("INDUSTRIAL_FOODS_SLOPE_MULTIPLIER", .ex (n 1)),
      ("ADD_METHANE_SCP", .ex (b true)),
      ("DELAY/INDUSTRIAL_FOODS_MONTHS", .ex (n 2)),
      ("INDUSTRIAL_FOODS_SLOPE_MULTIPLIER", .ex (n 1)),
      ("ADD_CELLULOSIC_SUGAR", .ex (b true))] }

def sp_get_relocated_crops_scenario : Spec :=
  { name := "get_relocated_crops_scenario", params := ["constants_for_params"], family := ["SCENARIO_SET"], scope := none, setsScope := none, needs := [],
    writes := [
      ("INDUSTRIAL_FOODS_SLOPE_MULTIPLIER", .ex (n 0)),
      ("ADD_CELLULOSIC_SUGAR", .ex (b false)),
      ("ADD_GREENHOUSES", .ex (b false)),
      ("ADD_METHANE_SCP", .ex (b false)),
      ("ADD_SEAWEED", .ex (b false)),
      ("OG_USE_BETTER_ROTATION", .ex (b true)),
      ("ROTATION_IMPROVEMENTS/FAT_RATIO", .ex (d 1647 (-3))),
      ("ROTATION_IMPROVEMENTS/PROTEIN_RATIO", .ex (d 1108 (-3))),
      ("RATIO_INCREASED_CROP_AREA", .ex (n 1))] }

def sp_get_greenhouse_scenario : Spec :=
  { name := "get_greenhouse_scenario", params := ["constants_for_params"], family := ["SCENARIO_SET"], scope := none, setsScope := none, needs := [],
    writes := [
      ("INDUSTRIAL_FOODS_SLOPE_MULTIPLIER", .ex (n 0)),
      ("RATIO_INCREASED_CROP_AREA", .ex (n 1)),
      ("OG_USE_BETTER_ROTATION", .ex (b false)),
      ("ADD_CELLULOSIC_SUGAR", .ex (b false)),
      ("ADD_METHANE_SCP", .ex (b false)),
      ("ADD_SEAWEED", .ex (b false)),
      ("GREENHOUSE_GAIN_PCT", .ex (n 44)),
      ("DELAY/GREENHOUSE_MONTHS", .ex (n 2)),
      ("GREENHOUSE_AREA_MULTIPLIER", .ex (.div (n 190000000) (c "INITIAL_GLOBAL_CROP_AREA"))),
      ("ADD_GREENHOUSES", .ex (b true))] }

def sp_get_no_resilient_food_scenario : Spec :=
  { name := "get_no_resilient_food_scenario", params := ["constants_for_params"], family := ["SCENARIO_SET"], scope := none, setsScope := none, needs := [],
    writes := [
      ("INDUSTRIAL_FOODS_SLOPE_MULTIPLIER", .ex (n 0)),
      ("RATIO_INCREASED_CROP_AREA", .ex (n 1)),
      ("OG_USE_BETTER_ROTATION", .ex (b false)),
      ("ADD_CELLULOSIC_SUGAR", .ex (b false)),
      ("ADD_GREENHOUSES", .ex (b false)),
      ("ADD_METHANE_SCP", .ex (b false)),
      ("ADD_SEAWEED", .ex (b false))] }

def sp_cull_animals : Spec :=
  { name := "cull_animals", params := ["constants_for_params"], family := ["CULLING_PARAM_SET"], scope := none, setsScope := none, needs := [],
    writes := [
      ("ADD_MEAT", .ex (b true)),
      ("ADD_MILK", .ex (b true))] }

def sp_dont_cull_animals : Spec :=
  { name := "dont_cull_animals", params := ["constants_for_params"], family := ["CULLING_PARAM_SET"], scope := none, setsScope := none, needs := [],
    writes := [
      ("ADD_MEAT", .ex (b false)),
      ("ADD_MILK", .ex (b false))] }

def specTable : List Spec := [sp_init_global_food_system_properties, sp_set_immediate_shutoff, sp_set_one_month_delayed_shutoff, sp_set_short_delayed_shutoff, sp_set_long_delayed_shutoff, sp_set_continued_feed_biofuels, sp_set_continued_after_10_percent_fed, sp_set_long_delayed_shutoff_after_10_percent_fed, sp_set_breeding_to_greatly_reduced, sp_set_to_baseline_breeding, sp_set_to_feed_only_ruminants, sp_set_waste_to_zero, sp_set_global_waste_to_tripled_prices, sp_set_global_waste_to_doubled_prices, sp_set_global_waste_to_baseline_prices, sp_set_country_waste_to_tripled_prices, sp_set_country_waste_to_doubled_prices, sp_set_country_waste_to_baseline_prices, sp_set_baseline_nutrition_profile, sp_set_catastrophe_nutrition_profile, sp_set_intake_constraints_to_enabled, sp_set_intake_constraints_to_disabled_for_humans, sp_set_no_stored_food, sp_set_baseline_stored_food, sp_set_stored_food_buffer_zero, sp_set_no_stored_food_between_years, sp_set_stored_food_buffer_as_baseline, sp_set_stored_food_buffer_as_baseline_and_no_stored_between_years, sp_set_no_seasonality, sp_set_global_seasonality_baseline, sp_set_global_seasonality_nuclear_winter, sp_set_grasses_baseline, sp_set_global_grasses_nuclear_winter, sp_set_country_grasses_nuclear_winter, sp_set_country_grasses_to_zero, sp_set_fish_zero, sp_set_fish_baseline, sp_set_disruption_to_crops_to_zero, sp_set_nuclear_winter_global_disruption_to_crops, sp_set_nuclear_winter_country_disruption_to_crops, sp_set_zero_crops, sp_include_protein, sp_dont_include_protein, sp_include_fat, sp_dont_include_fat, sp_get_all_resilient_foods_scenario, sp_get_all_resilient_foods_and_more_area_scenario, sp_get_seaweed_scenario, sp_get_methane_scp_scenario, sp_get_cellulosic_sugar_scenario, sp_get_industrial_foods_scenario, sp_get_relocated_crops_scenario, sp_get_greenhouse_scenario, sp_get_no_resilient_food_scenario, sp_cull_animals, sp_dont_cull_animals]


/-- rows that list every key except one large numeric table (dictionary name, number of its entries) -/
def specSkips : List (String × String × Nat) := [("init_global_food_system_properties", "SEAWEED_GROWTH_PER_DAY", 120)]

/-- README "Allowed Values" + the dispatcher's own messages: option family ↦ value ↦ setter.
    (`protein`/`fat: required` print that they do not work in this version and exit.) -/
def specDispatch : List (String × List (String × List String)) := [
  ("scale", [("global", ["init_global_food_system_properties"]), ("country", ["init_country_food_system_properties"])]),
  ("stored_food", [("zero", ["set_no_stored_food"]), ("baseline", ["set_baseline_stored_food"])]),
  ("ratio_stocks_untouched", [("zero", ["set_stored_food_buffer_zero"]), ("no_stored_between_years", ["set_no_stored_food_between_years"]),
    ("baseline", ["set_stored_food_buffer_as_baseline"]),
    ("baseline_no_stored_between_years", ["set_stored_food_buffer_as_baseline_and_no_stored_between_years"])]),
  ("shutoff", [("immediate", ["set_immediate_shutoff"]), ("one_month_delayed_shutoff", ["set_one_month_delayed_shutoff"]),
    ("short_delayed_shutoff", ["set_short_delayed_shutoff"]), ("long_delayed_shutoff", ["set_long_delayed_shutoff"]),
    ("continued", ["set_continued_feed_biofuels"]), ("continued_after_10_percent_fed", ["set_continued_after_10_percent_fed"]),
    ("long_delayed_shutoff_after_10_percent_fed", ["set_long_delayed_shutoff_after_10_percent_fed"])]),
  ("waste", [("zero", ["set_waste_to_zero"]), ("tripled_prices_in_country", ["set_country_waste_to_tripled_prices"]),
    ("doubled_prices_in_country", ["set_country_waste_to_doubled_prices"]), ("baseline_in_country", ["set_country_waste_to_baseline_prices"]),
    ("tripled_prices_globally", ["set_global_waste_to_tripled_prices"]), ("doubled_prices_globally", ["set_global_waste_to_doubled_prices"]),
    ("baseline_globally", ["set_global_waste_to_baseline_prices"])]),
  ("nutrition", [("baseline", ["set_baseline_nutrition_profile"]), ("catastrophe", ["set_catastrophe_nutrition_profile"])]),
  ("intake_constraints", [("enabled", ["set_intake_constraints_to_enabled"]), ("disabled_for_humans", ["set_intake_constraints_to_disabled_for_humans"])]),
  ("seasonality", [("no_seasonality", ["set_no_seasonality"]), ("country", ["set_country_seasonality"]),
    ("baseline_globally", ["set_global_seasonality_baseline"]), ("nuclear_winter_globally", ["set_global_seasonality_nuclear_winter"])]),
  ("grasses", [("baseline", ["set_grasses_baseline"]), ("global_nuclear_winter", ["set_global_grasses_nuclear_winter"]),
    ("country_nuclear_winter", ["set_country_grasses_nuclear_winter"]), ("all_crops_die_instantly", ["set_country_grasses_to_zero"])]),
  ("fish", [("zero", ["set_fish_zero"]), ("nuclear_winter", ["set_fish_nuclear_winter_reduction"]), ("baseline", ["set_fish_baseline"])]),
  ("crop_disruption", [("zero", ["set_disruption_to_crops_to_zero"]), ("global_nuclear_winter", ["set_nuclear_winter_global_disruption_to_crops"]),
    ("country_nuclear_winter", ["set_nuclear_winter_country_disruption_to_crops"]), ("all_crops_die_instantly", ["set_zero_crops"])]),
  ("protein", [("required", ["<exit>"]), ("not_required", ["dont_include_protein"])]),
  ("fat", [("required", ["<exit>"]), ("not_required", ["dont_include_fat"])]),
  ("cull", [("do_eat_culled", ["cull_animals"]), ("dont_eat_culled", ["dont_cull_animals"])]),
  ("scenario", [("all_resilient_foods", ["get_all_resilient_foods_scenario"]),
    ("all_resilient_foods_and_more_area", ["get_all_resilient_foods_and_more_area_scenario"]),
    ("no_resilient_foods", ["get_no_resilient_food_scenario"]), ("seaweed", ["get_seaweed_scenario"]),
    ("methane_scp", ["get_methane_scp_scenario"]), ("cellulosic_sugar", ["get_cellulosic_sugar_scenario"]),
    ("relocated_crops", ["get_relocated_crops_scenario"]), ("greenhouse", ["get_greenhouse_scenario"]),
    ("industrial_foods", ["get_industrial_foods_scenario"])]),
  ("meat_strategy", [("reduce_breeding", ["set_breeding_to_greatly_reduced"]), ("baseline_breeding", ["set_to_baseline_breeding"]),
    ("feed_only_ruminants", ["set_to_feed_only_ruminants"])])]

/-- the optional numeric overrides of the property statement: starting head count of any species,
    meat per large animal, minimum percent fed before feed, share of stocks left untouched, crop and grass
    production multipliers — and what each one names -/
def specOverrides : List Override := [
  .substr "_head" "_start" .int,
  .substr "kg_meat_per_large_animal" "" .float,
  .exact "MINIMUM_PERCENT_FED_BEFORE_NONHUMAN_CONSUMPTION_ALLOWED" "MINIMUM_PERCENT_FED_BEFORE_NONHUMAN_CONSUMPTION_ALLOWED" (.num 0 0) (.num 100 0) [],
  .exact "RATIO_STOCKS_UNTOUCHED" "RATIO_STOCKS_UNTOUCHED" (.num 0 0) (.num 1 0) [],
  .mult "CROP_PRODUCTION_MULTIPLIER" (.num 0 0) (.num 10 0)
    ["RATIO_CROPS_YEAR1", "RATIO_CROPS_YEAR2", "RATIO_CROPS_YEAR3", "RATIO_CROPS_YEAR4", "RATIO_CROPS_YEAR5", "RATIO_CROPS_YEAR6",
     "RATIO_CROPS_YEAR7", "RATIO_CROPS_YEAR8", "RATIO_CROPS_YEAR9", "RATIO_CROPS_YEAR10"] ["RATIO_CROPS_YEAR11"],
  .mult "GRASSES_PRODUCTION_MULTIPLIER" (.num 0 0) (.num 10 0)
    ["RATIO_GRASSES_YEAR1", "RATIO_GRASSES_YEAR2", "RATIO_GRASSES_YEAR3", "RATIO_GRASSES_YEAR4", "RATIO_GRASSES_YEAR5", "RATIO_GRASSES_YEAR6",
     "RATIO_GRASSES_YEAR7", "RATIO_GRASSES_YEAR8", "RATIO_GRASSES_YEAR9", "RATIO_GRASSES_YEAR10"] ["RATIO_GRASSES_YEAR11"]]


/-- a specification row read as a setter: assert the family clear (and the scale), require the keys,
    assign, set the family — so that the documentation itself can be executed against the code -/
def Spec.toSetter (sp : Spec) : SetterInfo :=
  { name := sp.name, params := sp.params, isOpaque := false,
    body := sp.family.map .assertClear
      ++ (match sp.scope with | some g => [.assertScope g] | none => [])
      ++ (match sp.setsScope with | some g => [.setScope g, .newDict] | none => [])
      ++ sp.needs.map .assertHasKey
      ++ sp.writes.map (fun p => match p.2 with
          | .ex e => .write p.1 e
          | .list l => .writeList p.1 l
          | .rep v k => .writeRepeat p.1 v k)
      ++ ((specSkips.filter fun q => q.1 == sp.name).map fun q => .opaque "table not transcribed" [q.2.1 ++ "/*"])
      ++ sp.family.reverse.map .setFlag }

def findSpec (name : String) : Option SetterInfo := (specTable.find? fun sp => sp.name == name).map Spec.toSetter

end Allfed.Scenario
