import AllfedModel.Model.Units
import Mathlib.Algebra.Order.Field.Basic
import Mathlib.Tactic.Linarith
import Mathlib.Tactic.FieldSimp
import Mathlib.Tactic.Positivity
import Mathlib.Tactic.Ring
import Mathlib.Tactic.NormNum
import Mathlib.Algebra.Order.Field.Rat
/-!
# C10 — unit conversions are mutually consistent and anchored to the population's needs

The multiplier tables (`kcalMult`, `fatMult`, `proteinMult`, `mkConv`) are *regenerated from
`unit_conversions.py` on every run* (`Gen/UnitTables.lean`); the theorems below are therefore
re-checked against what the code says now.  All statements quantify over **every** unit name
(any `String`), every positive population and daily requirement, in any ordered field.
-/
set_option linter.unusedVariables false
set_option linter.unusedSectionVars false

namespace Allfed.C10
open Allfed.Units Allfed.Gen.Units

/-- closes goals that are field identities with decimal literals; robust against the exact
    expression the translator emits -/
macro "close_field" : tactic => `(tactic|
  (first | (field_simp; done) | (norm_num; done) | (field_simp; norm_num; done) | (field_simp; ring_nf; done)
         | (field_simp; norm_num; ring_nf; done) | (norm_num; field_simp; done) | (norm_num; field_simp; ring_nf; done)))

variable {K : Type} [Field K] [LinearOrder K] [IsStrictOrderedRing K]

/-! ## every multiplier of every table is non-zero (so conversion is invertible) -/

theorem kcalMult_ne_zero (kd fd pd pop : K) (hk : 0 < kd) (hf : 0 < fd) (hp : 0 < pd) (hpop : 0 < pop)
    (u : String) (m : K) (h : kcalMult (mkConv kd fd pd pop) u = some m) : m ≠ 0 := by
  unfold kcalMult mkConv at h
  simp only at h
  split at h <;> simp at h <;> subst h <;> positivity

theorem fatMult_ne_zero (kd fd pd pop : K) (hk : 0 < kd) (hf : 0 < fd) (hp : 0 < pd) (hpop : 0 < pop)
    (u : String) (m : K) (h : fatMult (mkConv kd fd pd pop) u = some m) : m ≠ 0 := by
  unfold fatMult mkConv at h
  simp only at h
  split at h <;> simp at h <;> subst h <;> positivity

theorem proteinMult_ne_zero (kd fd pd pop : K) (hk : 0 < kd) (hf : 0 < fd) (hp : 0 < pd) (hpop : 0 < pop)
    (u : String) (m : K) (h : proteinMult (mkConv kd fd pd pop) u = some m) : m ≠ 0 := by
  unfold proteinMult mkConv at h
  simp only at h
  split at h <;> simp at h <;> subst h <;> positivity

/-! ## round trip and conversion through an intermediate unit (generic in the table) -/

/-- a table all of whose entries are non-zero -/
def NonZero (mult : String → Option K) : Prop := ∀ u m, mult u = some m → m ≠ 0

theorem conv_round_trip (mult : String → Option K) (hz : NonZero mult) (a b : String) (f : K)
    (h : convFactor mult a b = some f) :
    ∃ g, convFactor mult b a = some g ∧ ∀ x : K, g * (f * x) = x := by
  unfold convFactor at *
  cases ha : mult a <;> cases hb : mult b <;> simp [ha, hb] at h ⊢
  rename_i ma mb
  have hma := hz a ma ha
  have hmb := hz b mb hb
  subst h
  intro x
  field_simp

theorem conv_via (mult : String → Option K) (hz : NonZero mult) (a b c : String) (f g : K)
    (h1 : convFactor mult a b = some f) (h2 : convFactor mult b c = some g) :
    ∃ d, convFactor mult a c = some d ∧ ∀ x : K, g * (f * x) = d * x := by
  unfold convFactor at *
  cases ha : mult a <;> cases hb : mult b <;> cases hc : mult c <;> simp [ha, hb, hc] at h1 h2 ⊢
  rename_i ma mb mc
  have hma := hz a ma ha
  have hmb := hz b mb hb
  subst h1 h2
  intro x
  field_simp

/-- conversion is defined exactly between known units -/
theorem conv_defined_iff (mult : String → Option K) (a b : String) :
    (convFactor mult a b).isSome ↔ (mult a).isSome ∧ (mult b).isSome := by
  unfold convFactor
  cases mult a <;> cases mult b <;> simp

theorem kcal_round_trip (kd fd pd pop : K) (hk : 0 < kd) (hf : 0 < fd) (hp : 0 < pd) (hpop : 0 < pop) (a b : String) (f : K)
    (h : convFactor (kcalMult (mkConv kd fd pd pop)) a b = some f) :
    ∃ g, convFactor (kcalMult (mkConv kd fd pd pop)) b a = some g ∧ ∀ x : K, g * (f * x) = x :=
  conv_round_trip _ (fun u m => kcalMult_ne_zero kd fd pd pop hk hf hp hpop u m) a b f h

theorem fat_round_trip (kd fd pd pop : K) (hk : 0 < kd) (hf : 0 < fd) (hp : 0 < pd) (hpop : 0 < pop) (a b : String) (f : K)
    (h : convFactor (fatMult (mkConv kd fd pd pop)) a b = some f) :
    ∃ g, convFactor (fatMult (mkConv kd fd pd pop)) b a = some g ∧ ∀ x : K, g * (f * x) = x :=
  conv_round_trip _ (fun u m => fatMult_ne_zero kd fd pd pop hk hf hp hpop u m) a b f h

theorem protein_round_trip (kd fd pd pop : K) (hk : 0 < kd) (hf : 0 < fd) (hp : 0 < pd) (hpop : 0 < pop) (a b : String) (f : K)
    (h : convFactor (proteinMult (mkConv kd fd pd pop)) a b = some f) :
    ∃ g, convFactor (proteinMult (mkConv kd fd pd pop)) b a = some g ∧ ∀ x : K, g * (f * x) = x :=
  conv_round_trip _ (fun u m => proteinMult_ne_zero kd fd pd pop hk hf hp hpop u m) a b f h

theorem kcal_via (kd fd pd pop : K) (hk : 0 < kd) (hf : 0 < fd) (hp : 0 < pd) (hpop : 0 < pop) (a b c : String) (f g : K)
    (h1 : convFactor (kcalMult (mkConv kd fd pd pop)) a b = some f)
    (h2 : convFactor (kcalMult (mkConv kd fd pd pop)) b c = some g) :
    ∃ d, convFactor (kcalMult (mkConv kd fd pd pop)) a c = some d ∧ ∀ x : K, g * (f * x) = d * x :=
  conv_via _ (fun u m => kcalMult_ne_zero kd fd pd pop hk hf hp hpop u m) a b c f g h1 h2

theorem fat_via (kd fd pd pop : K) (hk : 0 < kd) (hf : 0 < fd) (hp : 0 < pd) (hpop : 0 < pop) (a b c : String) (f g : K)
    (h1 : convFactor (fatMult (mkConv kd fd pd pop)) a b = some f)
    (h2 : convFactor (fatMult (mkConv kd fd pd pop)) b c = some g) :
    ∃ d, convFactor (fatMult (mkConv kd fd pd pop)) a c = some d ∧ ∀ x : K, g * (f * x) = d * x :=
  conv_via _ (fun u m => fatMult_ne_zero kd fd pd pop hk hf hp hpop u m) a b c f g h1 h2

theorem protein_via (kd fd pd pop : K) (hk : 0 < kd) (hf : 0 < fd) (hp : 0 < pd) (hpop : 0 < pop) (a b c : String) (f g : K)
    (h1 : convFactor (proteinMult (mkConv kd fd pd pop)) a b = some f)
    (h2 : convFactor (proteinMult (mkConv kd fd pd pop)) b c = some g) :
    ∃ d, convFactor (proteinMult (mkConv kd fd pd pop)) a c = some d ∧ ∀ x : K, g * (f * x) = d * x :=
  conv_via _ (fun u m => proteinMult_ne_zero kd fd pd pop hk hf hp hpop u m) a b c f g h1 h2

/-! ## the three forms (total / each month / per month) of a unit carry the same multiplier -/

/-- the expected vocabulary: base names of each table (hand-written spec; the generated name lists
    must be exactly these with the three suffixes, checked by `decide`) -/
def kcalBases : List String :=
  ["billion kcals", "billion people fed", "percent people fed", "million dry caloric tons", "kcals per person per day"]
def fatBases : List String :=
  ["thousand tons", "million tons", "billion people fed", "percent people fed", "effective kcals per person per day",
   "grams per person per day"]

def withForms (bases : List String) : List String :=
  bases.flatMap fun b => [b, b ++ " each month", b ++ " per month"]

theorem kcal_names : kcalMultNames = withForms kcalBases := by decide
theorem fat_names : fatMultNames = withForms fatBases := by decide
theorem protein_names : proteinMultNames = withForms fatBases := by decide

theorem kcal_forms_equal (kd fd pd pop : K) (hk : 0 < kd) (hpop : 0 < pop) :
    ∀ b ∈ kcalBases, (kcalMult (mkConv kd fd pd pop) b).isSome ∧
      kcalMult (mkConv kd fd pd pop) (b ++ " each month") = kcalMult (mkConv kd fd pd pop) b ∧
      kcalMult (mkConv kd fd pd pop) (b ++ " per month") = kcalMult (mkConv kd fd pd pop) b := by
  intro b hb
  simp only [kcalBases, List.mem_cons, List.mem_nil_iff, or_false] at hb
  rcases hb with rfl | rfl | rfl | rfl | rfl <;>
    (refine ⟨by simp [kcalMult], ?_, ?_⟩ <;> simp [kcalMult, mkConv] <;> close_field)

theorem fat_forms_equal (kd fd pd pop : K) (hf : 0 < fd) (hpop : 0 < pop) :
    ∀ b ∈ fatBases, (fatMult (mkConv kd fd pd pop) b).isSome ∧
      fatMult (mkConv kd fd pd pop) (b ++ " each month") = fatMult (mkConv kd fd pd pop) b ∧
      fatMult (mkConv kd fd pd pop) (b ++ " per month") = fatMult (mkConv kd fd pd pop) b := by
  intro b hb
  simp only [fatBases, List.mem_cons, List.mem_nil_iff, or_false] at hb
  rcases hb with rfl | rfl | rfl | rfl | rfl | rfl <;>
    (refine ⟨by simp [fatMult], ?_, ?_⟩ <;> simp [fatMult, mkConv])

theorem protein_forms_equal (kd fd pd pop : K) (hp : 0 < pd) (hpop : 0 < pop) :
    ∀ b ∈ fatBases, (proteinMult (mkConv kd fd pd pop) b).isSome ∧
      proteinMult (mkConv kd fd pd pop) (b ++ " each month") = proteinMult (mkConv kd fd pd pop) b ∧
      proteinMult (mkConv kd fd pd pop) (b ++ " per month") = proteinMult (mkConv kd fd pd pop) b := by
  intro b hb
  simp only [fatBases, List.mem_cons, List.mem_nil_iff, or_false] at hb
  rcases hb with rfl | rfl | rfl | rfl | rfl | rfl <;>
    (refine ⟨by simp [proteinMult], ?_, ?_⟩ <;> simp [proteinMult, mkConv])

/-! ## anchors: a population's exact monthly requirement -/

theorem kcal_anchor (kd fd pd pop : K) (hk : 0 < kd) (hpop : 0 < pop) :
    let c := mkConv kd fd pd pop
    (∃ f, convFactor (kcalMult c) "billion kcals" "percent people fed" = some f ∧ f * c.billion_kcals_needed = 100) ∧
    (∃ f, convFactor (kcalMult c) "billion kcals" "kcals per person per day" = some f ∧ f * c.billion_kcals_needed = kd) ∧
    (∃ f, convFactor (kcalMult c) "billion kcals" "billion people fed" = some f ∧ f * c.billion_kcals_needed = pop / 1000000000) := by
  simp [convFactor, kcalMult, mkConv]
  refine ⟨?_, ?_, ?_⟩ <;> close_field

theorem fat_anchor (kd fd pd pop : K) (hk : 0 < kd) (hf : 0 < fd) (hpop : 0 < pop) :
    let c := mkConv kd fd pd pop
    (∃ f, convFactor (fatMult c) "thousand tons" "percent people fed" = some f ∧ f * c.thou_tons_fat_needed = 100) ∧
    (∃ f, convFactor (fatMult c) "thousand tons" "grams per person per day" = some f ∧ f * c.thou_tons_fat_needed = fd) ∧
    (∃ f, convFactor (fatMult c) "thousand tons" "effective kcals per person per day" = some f ∧ f * c.thou_tons_fat_needed = kd) ∧
    (∃ f, convFactor (fatMult c) "thousand tons" "billion people fed" = some f ∧ f * c.thou_tons_fat_needed = pop / 1000000000) := by
  simp [convFactor, fatMult, mkConv]
  refine ⟨?_, ?_, ?_, ?_⟩ <;> close_field

theorem protein_anchor (kd fd pd pop : K) (hk : 0 < kd) (hp : 0 < pd) (hpop : 0 < pop) :
    let c := mkConv kd fd pd pop
    (∃ f, convFactor (proteinMult c) "thousand tons" "percent people fed" = some f ∧ f * c.thou_tons_protein_needed = 100) ∧
    (∃ f, convFactor (proteinMult c) "thousand tons" "grams per person per day" = some f ∧ f * c.thou_tons_protein_needed = pd) ∧
    (∃ f, convFactor (proteinMult c) "thousand tons" "effective kcals per person per day" = some f ∧ f * c.thou_tons_protein_needed = kd) ∧
    (∃ f, convFactor (proteinMult c) "thousand tons" "billion people fed" = some f ∧ f * c.thou_tons_protein_needed = pop / 1000000000) := by
  simp [convFactor, proteinMult, mkConv]
  refine ⟨?_, ?_, ?_, ?_⟩ <;> close_field

/-! ## dimensional identities: every multiplier is pinned to its meaning, not only to the others -/

theorem kcal_dimensions (kd fd pd pop : K) (hk : 0 < kd) (hpop : 0 < pop) (v : K) :
    let c := mkConv kd fd pd pop
    -- kcals/person/day · population · 30 days / 1e9 = billion kcals
    (∃ f, convFactor (kcalMult c) "kcals per person per day" "billion kcals" = some f ∧ f * v = v * pop * 30 / 1000000000) ∧
    -- million dry caloric tons · 4000 = billion kcals
    (∃ f, convFactor (kcalMult c) "million dry caloric tons" "billion kcals" = some f ∧ f * v = v * 4000) ∧
    -- billion people · 1e9 · daily need · 30 / 1e9 = billion kcals
    (∃ f, convFactor (kcalMult c) "billion people fed" "billion kcals" = some f ∧ f * v = v * kd * 30) ∧
    (∃ f, convFactor (kcalMult c) "percent people fed" "billion kcals" = some f ∧ f * v = v / 100 * (kd * 30 * pop / 1000000000)) := by
  simp [convFactor, kcalMult, mkConv]
  refine ⟨?_, ?_, ?_, ?_⟩ <;> close_field

theorem fat_dimensions (kd fd pd pop : K) (hk : 0 < kd) (hf : 0 < fd) (hpop : 0 < pop) (v : K) :
    let c := mkConv kd fd pd pop
    -- grams/person/day · population · 30 days / 1e9 = thousand tons
    (∃ f, convFactor (fatMult c) "grams per person per day" "thousand tons" = some f ∧ f * v = v * pop * 30 / 1000000000) ∧
    (∃ f, convFactor (fatMult c) "million tons" "thousand tons" = some f ∧ f * v = v * 1000) ∧
    (∃ f, convFactor (fatMult c) "billion people fed" "thousand tons" = some f ∧ f * v = v * fd * 30) := by
  simp [convFactor, fatMult, mkConv]
  refine ⟨?_, ?_, ?_⟩ <;> close_field

theorem protein_dimensions (kd fd pd pop : K) (hk : 0 < kd) (hp : 0 < pd) (hpop : 0 < pop) (v : K) :
    let c := mkConv kd fd pd pop
    (∃ f, convFactor (proteinMult c) "grams per person per day" "thousand tons" = some f ∧ f * v = v * pop * 30 / 1000000000) ∧
    (∃ f, convFactor (proteinMult c) "million tons" "thousand tons" = some f ∧ f * v = v * 1000) ∧
    (∃ f, convFactor (proteinMult c) "billion people fed" "thousand tons" = some f ∧ f * v = v * pd * 30) := by
  simp [convFactor, proteinMult, mkConv]
  refine ⟨?_, ?_, ?_⟩ <;> close_field

/-! ## form preservation of `in_units` -/

/-- the three new labels are the requested ones plus the suffix of the *source* quantity -/
theorem inUnits_form (c : Conv K) (fromU toU nu : Triple String) (fa : Triple K)
    (h : inUnits c fromU toU = some (nu, fa)) :
    nu.k = toU.k ++ suffixOf fromU.k ∧ nu.f = toU.f ++ suffixOf fromU.k ∧ nu.p = toU.p ++ suffixOf fromU.k := by
  unfold inUnits at h
  simp only at h
  split at h <;> simp at h
  obtain ⟨rfl, _⟩ := h
  simp

/-- on the real vocabulary the suffix is recognised exactly -/
theorem suffix_recognised :
    ∀ b ∈ kcalBases ++ fatBases, suffixOf b = "" ∧ suffixOf (b ++ " each month") = " each month" ∧
      suffixOf (b ++ " per month") = " per month" := by decide +kernel

/-- non-vacuity: a concrete conversion -/
example : convFactor (kcalMult (mkConv (2100 : ℚ) 47 51 7800000000)) "billion kcals" "percent people fed"
    = some (1 / 1 * (100 / (2100 * 30 * 7800000000 / 1000000000))) := by
  simp [convFactor, kcalMult, mkConv]
  norm_num

end Allfed.C10
