import Driver.Loop
import Driver.Ops.ImportAvg
def main : IO Unit := runDriver Ops.ImportAvg.ops
