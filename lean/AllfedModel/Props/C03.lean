import AllfedModel.Model.Rounds
import AllfedModel.Proofs.LP
import AllfedModel.Props.C18
import Mathlib.Tactic.Linarith
/-!
# C03 — humans come before animal feed and biofuel

Proved for all inputs: in every round and month the feed and biofuel drawn from human-edible food
stay within the demand schedule and are zero from the shut-off month on (given what each round is
charged / capped with); the feed round can never raise feed from one month to the next, so "no
surplus in month 0 ⇒ no feed ever"; the charge of the final round is the herds' feed use bumped
within demand (C18).
NOT provable from the row sets alone, monitored by the check on every three-round run instead
(`Rounds.relOK`): "final < T ⇒ essentially no feed/biofuel and final ≥ round 1", "round 1 ≥ T ⇒
final ≥ T" — statements about optimal solutions of three coupled LPs plus two rule-of-thumb
corrections.  This property is therefore labelled *partial*.
-/
set_option linter.unusedVariables false
set_option linter.unusedSectionVars false

namespace Allfed.C03
open Allfed.LP Allfed.AllocLP Allfed.PhysSpec Allfed.Rounds Allfed.Proofs.LP

variable {K : Type} [Field K] [LinearOrder K] [IsStrictOrderedRing K]

/-- the demand schedule is the monthly amount before the shut-off month and zero from it on -/
theorem demand_schedule (monthly : K) (d n m : Nat) :
    at' (demandSeries monthly d n) m = if m < d then monthly else 0 := by
  unfold demandSeries at'
  by_cases h : m < d
  · simp [h, List.getD_eq_getElem?_getD, List.getElem?_append_left, List.getElem?_replicate]
  · simp only [h, if_false]
    rw [List.getD_eq_getElem?_getD, List.getElem?_append_right (by simp; omega)]
    simp only [List.length_replicate, List.getElem?_replicate]
    split <;> simp

theorem demand_zero_after_shutoff (monthly : K) (d n m : Nat) (h : d ≤ m) :
    at' (demandSeries monthly d n) m = 0 := by
  rw [demand_schedule]; simp [Nat.not_lt.mpr h]

/-- human-maximising rounds (1 and 3): the feed and biofuel drawn equal the round's charge, so they are
    within the demand schedule and zero after shut-off whenever the charge is -/
theorem human_round_within_schedule (i : Inp K) (x : Var → K) (fd bd : List K)
    (h : Feasible (buildLP i .toHumans) x) (hany : anyFeedVar i = true)
    (hf : ∀ m, at' i.feed m ≤ at' fd m) (hb : ∀ m, at' i.biofuel m ≤ at' bd m)
    (m : Nat) (hm : m < i.nmonths) :
    feedTotal i x m ≤ at' fd m ∧ biofuelTotal i x m ≤ at' bd m := by
  have := feed_biofuel_eq_charge h hany hm
  exact ⟨this.1 ▸ hf m, this.2 ▸ hb m⟩

/-- round 1 charges nothing, so it draws nothing -/
theorem round1_draws_nothing (i : Inp K) (x : Var → K)
    (h : Feasible (buildLP i .toHumans) x) (hany : anyFeedVar i = true)
    (hf : ∀ m, at' i.feed m = 0) (hb : ∀ m, at' i.biofuel m = 0) (m : Nat) (hm : m < i.nmonths) :
    feedTotal i x m = 0 ∧ biofuelTotal i x m = 0 := by
  have := feed_biofuel_eq_charge h hany hm
  exact ⟨this.1.trans (hf m), this.2.trans (hb m)⟩

/-- the feed-maximising round stays within its ceilings, hence within the schedule when the ceilings do -/
theorem feed_round_within_schedule (i : Inp K) (x : Var → K) (fd bd : List K)
    (h : Feasible (buildLP i .toAnimals) x) (hany : anyFeedVar i = true)
    (hf : ∀ m, at' i.maxFeed m ≤ at' fd m) (hb : ∀ m, at' i.maxBiofuel m ≤ at' bd m)
    (m : Nat) (hm : m < i.nmonths) :
    feedTotal i x m ≤ at' fd m ∧ biofuelTotal i x m ≤ at' bd m := by
  have := feed_biofuel_le_ceiling h hany hm
  exact ⟨this.1.trans (hf m), this.2.trans (hb m)⟩

/-- in the feed round feed and biofuel never exceed their month-0 level -/
theorem round2_monotone (i : Inp K) (x : Var → K) (h : Feasible (buildLP i .toAnimals) x)
    (hany : anyFeedVar i = true) (m : Nat) (hm : m < i.nmonths) :
    feedTotal i x m ≤ feedTotal i x 0 ∧ biofuelTotal i x m ≤ biofuelTotal i x 0 := by
  induction m with
  | zero => exact ⟨le_refl _, le_refl _⟩
  | succ k ih =>
    have hk := ih (by omega)
    have := feed_biofuel_never_rise h hany hm (by omega)
    simp only [Nat.add_sub_cancel] at this
    exact ⟨this.1.trans hk.1, this.2.trans hk.2⟩

/-- drawn amounts are zero wherever the bound they sit under is zero (non-negativity of all variables) -/
theorem zero_where_bound_zero (i : Inp K) (kind : Kind) (x : Var → K) (h : Feasible (buildLP i kind) x)
    (hk : 0 ≤ i.seaweedKcals) (m : Nat) (b : K) (hb : b = 0) (hle : feedTotal i x m ≤ b) : feedTotal i x m = 0 := by
  have h0 : 0 ≤ feedTotal i x m := by
    unfold feedTotal X
    have hn := h.2
    have e1 := hn (.mv .sfFeed m); have e2 := hn (.mv .cropFeed m); have e3 := hn (.mv .swFeed m)
    have e4 := hn (.mv .csFeed m); have e5 := hn (.mv .scpFeed m)
    have : 0 ≤ x (.mv .swFeed m) * i.seaweedKcals := mul_nonneg e3 hk
    split_ifs <;> simp <;> linarith
  linarith

/-- the final round's charge: the herds' feed use and round 2's biofuel, bumped — never beyond a
    demand ceiling they started under (C18; feed up to the helper's own 1e-9 regulariser) -/
theorem final_charge_within_demand (b f inc mb mf av : K) (hb : b ≤ mb) (hf : f ≤ mf) :
    (Handoff.bump1 b f inc mb mf av).1 ≤ mb ∧ (Handoff.bump1 b f inc mb mf av).2 ≤ mf + 1e-9 :=
  ⟨(C18.bump_within_ceiling_of_le b f inc mb mf av).1 hb, (C18.bump_within_ceiling_of_le b f inc mb mf av).2 hf⟩

/-- the executable statement of the inter-round relations means what it says -/
theorem relOK_spec (T p1 p3 drawn need tolP tolF : K) :
    relOK T p1 p3 drawn need tolP tolF = true ↔
      ((p3 < T - tolP → drawn ≤ tolF * need ∧ p1 - tolP ≤ p3) ∧ (T ≤ p1 → T - tolP ≤ p3)) := by
  unfold relOK
  by_cases h1 : p3 < T - tolP <;> by_cases h2 : T ≤ p1 <;> simp [h1, h2]

/-- non-vacuity: a run that starves (40 % of a 100 % threshold) with no feed drawn satisfies the relations,
    one that draws feed while starving does not -/
example : relOK (100 : ℚ) 38 40 0 2800 (1/100) (1/1000) = true ∧ relOK (100 : ℚ) 38 40 500 2800 (1/100) (1/1000) = false := by
  decide +kernel

end Allfed.C03
