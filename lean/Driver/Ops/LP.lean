import AllfedModel.Model.PhysSpec
import AllfedModel.Model.Report
import AllfedModel.Model.Rounds
import AllfedModel.Model.Perturb
import Std.Data.HashMap
import Driver.Wire
open Wire Allfed.LP Allfed.AllocLP Allfed.PhysSpec

namespace Ops.LP

/-- field order must match `harness/lib/lpinst.py: FIELDS` -/
def inpP : P (Inp Float) := do
  let nmonths ← nat
  let addSeaweed ← bool; let addOutdoor ← bool; let addStored ← bool; let addMeat ← bool
  let addScp ← bool; let addCs ← bool; let storeBetweenYears ← bool
  let pop ← float; let kcalsMonthly ← float; let billionKcalsNeeded ← float
  let seaweedKcals ← float; let initialSeaweed ← float; let maxDensity ← float; let minDensity ← float
  let harvestLoss ← float; let initialBuiltArea ← float
  let wSeaweed ← float; let wStored ← float; let wMeat ← float; let wCrop ← float; let wScp ← float; let wCs ← float
  let storedInitial ← float; let meatSummed ← float
  let builtArea ← floats; let growth ← floats; let cropProd ← floats; let maxCulled ← floats
  let slaughtered ← floats; let scp ← floats; let cs ← floats; let milk ← floats; let greenhouse ← floats
  let fish ← floats; let feed ← floats; let biofuel ← floats; let maxFeed ← floats; let maxBiofuel ← floats
  let limSwH ← float; let limSwF ← float; let limSwB ← float
  let limScpH ← float; let limScpF ← float; let limScpB ← float
  let limCsH ← float; let limCsF ← float; let limCsB ← float
  let minSeaweed ← floats; let minCrops ← floats; let minStored ← floats; let minMeat ← floats
  let minScp ← floats; let minCs ← floats
  pure { nmonths, addSeaweed, addOutdoor, addStored, addMeat, addScp, addCs, storeBetweenYears, pop, kcalsMonthly,
         billionKcalsNeeded, seaweedKcals, initialSeaweed, maxDensity, minDensity, harvestLoss, initialBuiltArea,
         wSeaweed, wStored, wMeat, wCrop, wScp, wCs, storedInitial, meatSummed, builtArea, growth, cropProd,
         maxCulled, slaughtered, scp, cs, milk, greenhouse, fish, feed, biofuel, maxFeed, maxBiofuel,
         limSwH, limSwF, limSwB, limScpH, limScpF, limScpB, limCsH, limCsF, limCsB,
         minSeaweed, minCrops, minStored, minMeat, minScp, minCs }

def kindP : P Kind := do
  let t ← tok
  match t with
  | "to_humans" => pure .toHumans
  | "to_animals" => pure .toAnimals
  | _ => throw s!"bad kind {t}"

def relStr : Rel → String
  | .le => "le" | .eq => "eq" | .ge => "ge"

def rowStr (r : Row Float) : String :=
  let n := r.normal
  let ts := n.terms.map fun p => encodeStr p.1.name ++ " " ++ outF p.2
  " ".intercalate ([encodeStr r.name, relStr r.rel, toString n.terms.length] ++ ts ++ [outF n.const])

/-- lp.rows <kind> <inp>  →  nrows (name rel nterms (var coef)* const)* -/
def rowsOp : P String := do
  let kd ← kindP
  let i ← inpP
  let rows := buildLP i kd
  pure (" ".intercalate (toString rows.length :: rows.map rowStr))

/-- lp.floor <kind> z <inp> → the rows added for the later solves -/
def floorOp : P String := do
  let kd ← kindP
  let z ← float
  let i ← inpP
  let rows := floorRows i kd z
  pure (" ".intercalate (toString rows.length :: rows.map rowStr))

def assignP : P (Var → Float) := do
  let n ← nat
  let rec go : Nat → Std.HashMap String Float → P (Std.HashMap String Float)
    | 0, m => pure m
    | k + 1, m => do let nm ← str; let v ← float; go k (m.insert nm v)
  let m ← go n {}
  pure fun v => m.getD v.name 0.0

def absF (x : Float) : Float := if x < 0 then -x else x

/-- magnitude of a row at `x`: Σ |coef·x| + |const| over the normal form -/
def rowScale (x : Var → Float) (r : Row Float) : Float :=
  let n := r.normal
  n.terms.foldl (fun acc p => acc + absF (p.2 * x p.1)) (absF n.const)

def topK (k : Nat) (l : List (String × Nat × Float × Float)) : List (String × Nat × Float × Float) :=
  -- sort by relative excess (value / max 1 scale), descending; insertion into a bounded list
  let rel (e : String × Nat × Float × Float) : Float := e.2.2.1 / (if e.2.2.2 < 1.0 then 1.0 else e.2.2.2)
  let ins (acc : List (String × Nat × Float × Float)) (e : String × Nat × Float × Float) :=
    let rec go : List (String × Nat × Float × Float) → List (String × Nat × Float × Float)
      | [] => [e]
      | h :: t => if rel h < rel e then e :: h :: t else h :: go t
    (go acc).take k
  l.foldl ins []

def exStr (e : String × Nat × Float × Float) : String :=
  s!"{encodeStr e.1} {e.2.1} {outF e.2.2.1} {outF e.2.2.2}"

/-- lp.check <kind> <z-or-nan> <inp> <assignment>
    → three groups (rows of buildLP ++ floorRows, physCore, physGap), each:
      count, then the 8 worst clauses as (name month excess scale) -/
def checkOp : P String := do
  let kd ← kindP
  let z ← float
  let i ← inpP
  let x ← assignP
  let rows := buildLP i kd ++ (if z.isNaN then [] else floorRows i kd z)
  let rowEx : List (String × Nat × Float × Float) :=
    rows.flatMap fun r => (rowExcess x r).map fun e => (e.clause, 0, e.value, rowScale x r)
  let need := i.billionKcalsNeeded
  -- scale against which an excess is judged: the monthly requirement (billion kcals) for food
  -- clauses, the farm's own magnitudes for the seaweed clauses (wet tonnes / km²)
  let scaleOf (e : Excess Float) : Float :=
    if e.clause.startsWith "seaweed-area" then 1.0 + absF (at' i.builtArea e.month)
    else if e.clause.startsWith "seaweed" then
      1.0 + absF (i.maxDensity * at' i.builtArea e.month) + absF (x (.mv .swWet e.month))
    else need
  let core := (physCore i kd x).map fun e => (e.clause, e.month, e.value, scaleOf e)
  let gap := (physGap i kd x ++ meatVsSlaughter i x).map fun e => (e.clause, e.month, e.value, scaleOf e)
  let grp (l : List (String × Nat × Float × Float)) : String :=
    let t := topK 8 l
    " ".intercalate ([toString l.length, toString t.length] ++ t.map exStr)
  pure (grp rowEx ++ " " ++ grp core ++ " " ++ grp gap)

/-- report.series <kcalsDaily> <inp> <assignment>
    → headline, then per month: 9 percent contributions ++ 9 kcals-equivalent contributions -/
def reportOp : P String := do
  let kd ← float
  let i ← inpP
  let x ← assignP
  let months := (List.range i.nmonths).map fun m =>
    let b := Allfed.Report.foodsBillions i x m
    outFs (b.map (Allfed.Report.toPercent i) ++ b.map (Allfed.Report.toKcalsEquiv i kd))
  pure (outF (Allfed.Report.headline i x) ++ " " ++ toString i.nmonths ++ " " ++ " ".intercalate months)

/-- report.nonhuman <inp> <assignment>
    → number of months, then per month the ten numbers of `Report.nonhumanMonth`
      (feed from stored food, crops, seaweed, sugar, SCP; then biofuel in the same order) -/
def nonhumanOp : P String := do
  let i ← inpP
  let x ← assignP
  let months := (Allfed.Report.nonhumanSeries i x).map outFs
  pure (toString i.nmonths ++ " " ++ " ".intercalate months)

/-- report.split n (produced eaten)* → (immediate newStored)* -/
def splitOp : P String := do
  let n ← nat
  let rec go : Nat → List String → P (List String)
    | 0, acc => pure acc.reverse
    | k + 1, acc => do
      let p ← float; let e ← float
      let r := Allfed.Report.splitCrops p e
      go k ((outF r.1 ++ " " ++ outF r.2) :: acc)
  let l ← go n []
  pure (" ".intercalate l)

/-- rounds.rel T p1 p3 drawn need tolP tolF → 0/1 -/
def relOp : P String := do
  let t ← float; let p1 ← float; let p3 ← float; let d ← float; let n ← float; let tp ← float; let tf ← float
  pure (outB (Allfed.Rounds.relOK t p1 p3 d n tp tf))

/-- rounds.demand monthly duration nmonths → series -/
def demandOp : P String := do
  let mo ← float; let d ← nat; let n ← nat
  pure (outFs (Allfed.Rounds.demandSeries mo d n))

/-- rounds.totals <inp> <assignment> → feedTotal per month, biofuelTotal per month -/
def totalsOp : P String := do
  let i ← inpP
  let x ← assignP
  let ms := List.range i.nmonths
  pure (outFs (ms.map (feedTotal i x)) ++ " " ++ outFs (ms.map (biofuelTotal i x)))

/-- lp.rows_scaled k <kind> <inp> → rows of buildLP (scaleInp k inp) -/
def rowsScaledOp : P String := do
  let k ← float
  let kd ← kindP
  let i ← inpP
  let rows := buildLP (Allfed.Perturb.scaleInp k i) kd
  pure (" ".intercalate (toString rows.length :: rows.map rowStr))

def ops : List (String × P String) :=
  [("lp.rows_scaled", rowsScaledOp), ("rounds.rel", relOp), ("rounds.demand", demandOp), ("rounds.totals", totalsOp), ("lp.rows", rowsOp), ("lp.floor", floorOp), ("lp.check", checkOp), ("report.series", reportOp), ("report.nonhuman", nonhumanOp), ("report.split", splitOp)]

end Ops.LP
