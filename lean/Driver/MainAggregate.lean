import Driver.Loop
import Driver.Ops.Aggregate
def main : IO Unit := runDriver Ops.Aggregate.ops
