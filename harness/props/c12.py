"""C12 - more supply never feeds fewer people, and scale does not matter (DESIGN.md §7 C12)."""
import copy
import numpy as np
from lib import lpcheck, lpinst, pipeline, wire
from lib.wire import f2b

ID = "C12"
LEVEL = "proof"
DRIVER = "driver_lp"
LEAN_MODULES = ["AllfedModel.Props.C12"]
OBLIGATIONS = ["Allfed.C12." + n for n in [
    "scale_feasible", "scale_optimum", "mono_storedInitial", "mono_cropProd", "mono_scp", "mono_cs", "mono_meat", "mono_constants",
    "charge_antitone_partial", "limits_needed_counterexample", "mono_wasteStored", "mono_wasteCrop", "mono_wasteSeaweed_partial",
    "mono_wasteSeaweed_counterexample", "mono_scp_cs", "mono_scp_cs_constants", "mono_all_supplies", "mono_wastes"]]
LEVEL_TEXT = ("Lean 4 theorems about the LP the code builds (human-maximising rounds, all inputs): scaling population and every supply by k>0 maps feasible points to feasible points "
              "with the same objective, both ways (equal optimum); for each supply (stock, monthly crops, SCP, sugar, meat total/caps, milk, fish, greenhouse) an explicit "
              "transformation of any feasible point of the smaller instance into a feasible point of the larger with objective >=, and the same for all of them raised at once (mono_all_supplies, by composition); lowering the feed/biofuel charge likewise without seaweed; lowering the retail waste of stored food or of crops likewise "
              "(mono_wasteStored, mono_wasteCrop). For seaweed's retail waste the statement is FALSE for the LP (mono_wasteSeaweed_counterexample: less waste means more reaches people, whose "
              "intake cap then makes the forced harvest infeasible) and proved under the proviso that the caps still hold (mono_wasteSeaweed_partial). "
              "Partial: charge antitonicity with seaweed and seaweed's waste are covered only by re-solving perturbed real instances with the real Optimizer.")
LEVEL_NOTE = ("Trusted: Lean kernel; the harness; the scaled/perturbed instances of the empirical side are built by the harness and the scaled one is tied to the model's scaleInp "
              "by row comparison. The empirical law allows 2x the solver's relative gap (2e-5) + 1e-7.")
TECHNIQUE = "Lean 4 proof (explicit transformations of feasible points) + re-solves of perturbed captured instances with the real Optimizer"
RULE = ("captured round-1/round-3 optimiser inputs of real runs x {common scale 1e-3..1e3, +1 %/+50 % on each supply, -1 point on each waste, +1 %/-50 % charge}; each re-solved by the real "
        "Optimizer.optimize_to_humans; non-trivial = the baseline optimum is > 0 and the perturbed quantity is present; distinct = (instance, perturbation)")
ASSUMPTIONS = ["wastes in [0,100), non-negative monthly requirement and non-negative human intake limits (hypotheses of the monotonicity theorems; needed: proved counter-example limits_needed_counterexample)"]

GAP = 2e-5


def solve(C, T):
    from src.optimizer.optimizer import Optimizer
    import contextlib, io
    opt = Optimizer(C, T)
    cap = {}
    orig = Optimizer.run_optimizations_on_constraints

    def ro(self, model, variables, consts, optimization_type):
        cap["rows"] = {n: ({v.name: c for v, c in con.items()}, con.sense, con.constant) for n, con in model.constraints.items()}
        return orig(self, model, variables, consts, optimization_type)
    Optimizer.run_optimizations_on_constraints = ro
    try:
        with contextlib.redirect_stdout(io.StringIO()):
            _, _, _, z = opt.optimize_to_humans(C, T)
    finally:
        Optimizer.run_optimizations_on_constraints = orig
    return float(z), opt, cap.get("rows")


def scale_instance(C, T, k):
    C, T = copy.deepcopy(C), copy.deepcopy(T)
    for key in ("POP", "BILLION_KCALS_NEEDED", "meat_summed_consumption", "INITIAL_SEAWEED", "INITIAL_BUILT_SEAWEED_AREA"):
        if key in C:
            C[key] = C[key] * k
    if C["ADD_STORED_FOOD"]:
        C["stored_food"].initial_available.kcals = C["stored_food"].initial_available.kcals * k
    for key in ("methane_scp", "cellulosic_sugar", "each_month_meat_slaughtered", "feed", "biofuel", "greenhouse_crops"):
        T[key].kcals = np.asarray(T[key].kcals, dtype=float) * k
    T["outdoor_crops"].production.kcals = np.asarray(T["outdoor_crops"].production.kcals, dtype=float) * k
    T["fish"].to_humans.kcals = np.asarray(T["fish"].to_humans.kcals, dtype=float) * k
    for key in ("milk_kcals", "max_consumed_culled_kcals_each_month", "built_area"):
        T[key] = np.asarray(T[key], dtype=float) * k
    return C, T


def perturbations(C, T, rng):
    """(name, expected direction, mutator(C, T)) — +1 means the optimum must not decrease, -1 must not increase"""
    n = int(C["NMONTHS"])
    out = []

    def add(name, sign, f, present=True):
        if present:
            out.append((name, sign, f))
    for frac in (0.01, 0.5):
        add("stored+%g" % frac, +1, lambda C, T, f=frac: setattr(C["stored_food"].initial_available, "kcals", C["stored_food"].initial_available.kcals * (1 + f)),
            C["ADD_STORED_FOOD"] and float(np.asarray(C["stored_food"].initial_available.kcals)) > 0)

        def crops(C, T, f=frac, m=rng.randrange(n)):
            a = np.asarray(T["outdoor_crops"].production.kcals, dtype=float).copy()
            a[m] = a[m] * (1 + f) + 1e-3
            T["outdoor_crops"].production.kcals = a
        add("crops-month+%g" % frac, +1, crops, C["ADD_OUTDOOR_GROWING"])

        def allcrops(C, T, f=frac):
            T["outdoor_crops"].production.kcals = np.asarray(T["outdoor_crops"].production.kcals, dtype=float) * (1 + f)
        add("crops-all+%g" % frac, +1, allcrops, C["ADD_OUTDOOR_GROWING"])
        for key, flag in (("methane_scp", "ADD_METHANE_SCP"), ("cellulosic_sugar", "ADD_CELLULOSIC_SUGAR")):
            add("%s+%g" % (key, frac), +1, lambda C, T, f=frac, k=key: setattr(T[k], "kcals", np.asarray(T[k].kcals, dtype=float) * (1 + f)), C[flag])

        def meat(C, T, f=frac):
            T["each_month_meat_slaughtered"].kcals = np.asarray(T["each_month_meat_slaughtered"].kcals, dtype=float) * (1 + f)
            T["max_consumed_culled_kcals_each_month"] = np.asarray(T["max_consumed_culled_kcals_each_month"], dtype=float) * (1 + f)
            C["meat_summed_consumption"] = C["meat_summed_consumption"] * (1 + f)
        add("meat+%g" % frac, +1, meat, C["ADD_MEAT"])

        # single entries of the meat inputs alone (each is a supply the optimiser reads): the stock, the last running-total entry
        def meat_total_only(C, T, f=frac):
            C["meat_summed_consumption"] = C["meat_summed_consumption"] * (1 + f)
        add("meat-stock-only+%g" % frac, +1, meat_total_only, C["ADD_MEAT"] and C["STORE_FOOD_BETWEEN_YEARS"])

        def meat_cap_last_only(C, T, f=frac):
            a = np.asarray(T["max_consumed_culled_kcals_each_month"], dtype=float).copy()
            a[-1] = a[-1] * (1 + f) + 1e-3
            T["max_consumed_culled_kcals_each_month"] = a
        add("meat-cap-last-only+%g" % frac, +1, meat_cap_last_only, C["ADD_MEAT"] and C["STORE_FOOD_BETWEEN_YEARS"])
        add("milk+%g" % frac, +1, lambda C, T, f=frac: T.__setitem__("milk_kcals", np.asarray(T["milk_kcals"], dtype=float) * (1 + f) + 1e-3))
        add("fish+%g" % frac, +1, lambda C, T, f=frac: setattr(T["fish"].to_humans, "kcals", np.asarray(T["fish"].to_humans.kcals, dtype=float) * (1 + f) + 1e-3))
        add("greenhouse+%g" % frac, +1, lambda C, T, f=frac: setattr(T["greenhouse_crops"], "kcals", np.asarray(T["greenhouse_crops"].kcals, dtype=float) * (1 + f) + 1e-3))
    for wk, flag in (("STORED_FOOD_WASTE_RETAIL", "ADD_STORED_FOOD"), ("CROP_WASTE_RETAIL", "ADD_OUTDOOR_GROWING"), ("MEAT_WASTE_RETAIL", "ADD_MEAT"),
                     ("SCP_RETAIL_WASTE", "ADD_METHANE_SCP"), ("CELL_SUGAR_RETAIL_WASTE", "ADD_CELLULOSIC_SUGAR"), ("SEAWEED_WASTE_RETAIL", "ADD_SEAWEED")):
        add("waste-1:" + wk, +1, lambda C, T, k=wk: C.__setitem__(k, max(0.0, C[k] - 1.0)), C[flag] and C.get(wk, 0) >= 1.0)
        # down to a fraction of a percent (several low-income countries have retail waste below 1 %)
        add("waste->0.5:" + wk, +1, lambda C, T, k=wk: C.__setitem__(k, 0.5), C[flag] and C.get(wk, 0) > 0.5)
    has_charge = float(np.sum(T["feed"].kcals) + np.sum(T["biofuel"].kcals)) > 0

    def charge(C, T, f):
        T["feed"].kcals = np.asarray(T["feed"].kcals, dtype=float) * f
        T["biofuel"].kcals = np.asarray(T["biofuel"].kcals, dtype=float) * f
    add("charge-50%", +1, lambda C, T: charge(C, T, 0.5), has_charge)
    add("charge-1%", +1, lambda C, T: charge(C, T, 0.99), has_charge)
    return out


def audit_instance(ctx, run, k, s):
    C0, T0 = s.opt.consts_for_optimizer, s.opt.time_consts
    if C0["inputs"].get("INCLUDE_FAT") or C0["inputs"].get("INCLUDE_PROTEIN"):
        return
    case0 = {"country": run.iso, "options": run.opts, "round": k + 1}
    # hypotheses of the monotonicity theorems, evaluated on this instance
    I = C0["inputs"]
    hyp_ok = (float(C0["BILLION_KCALS_NEEDED"]) >= 0 and all(float(I.get(kk, 0.0)) >= 0 for kk in I if kk.startswith("MAX_") and kk.endswith("_HUMANS"))
              and all(0 <= float(C0.get(w, 0.0)) < 100 for w in ("STORED_FOOD_WASTE_RETAIL", "CROP_WASTE_RETAIL", "MEAT_WASTE_RETAIL", "SCP_RETAIL_WASTE",
                                                                "CELL_SUGAR_RETAIL_WASTE", "SEAWEED_WASTE_RETAIL")))
    ctx.count("theorem-hypotheses-hold" if hyp_ok else "theorem-hypotheses-not-met")
    if not hyp_ok:
        ctx.notes.append("%s round %d: a hypothesis of the C12 monotonicity theorems (non-negative intake limits / requirement, wastes in [0,100)) does not hold on this instance" % (run.iso, k + 1))
    try:
        z0, _, _ = solve(copy.deepcopy(C0), copy.deepcopy(T0))
    except AssertionError as e:
        ctx.count("baseline-resolve-failed")
        return
    if not wire.close(z0, float(s.z), 1e-4, 1e-7):
        ctx.count("resolve-differs-from-captured")
    # scale invariance, tied to the model's scaleInp by row comparison
    # common scale factor: keep the scaled population inside the range real runs span (1e5 … 1e11 people; Djibouti … world x 10):
    # far below it the quantities of the LP (billion kcals) sink under CBC's ABSOLUTE tolerances (1e-7), which is solver
    # resolution, not a property of the allocation problem (scale_optimum proves exact invariance of the LP itself)
    pop = float(C0["POP"])
    ks = [k_ for k_ in [1e-3, 1e-2, 0.1, 0.5, 3.0, 10.0, 1e2, 1e3] if 1e5 <= k_ * pop <= 1e11]
    if not ks:
        ctx.count("scale-skipped:population-out-of-range")
        ks = [1.0]
    kfac = ctx.rng.choice(ks)
    Cs, Ts = scale_instance(C0, T0, kfac)
    try:
        zs, opts, rows_s = solve(Cs, Ts)
        inp = lpinst.inp_from_optimizer(s.opt, "to_humans")
        out = wire.run_driver(["lp.rows_scaled %s to_humans %s" % (f2b(kfac), lpinst.encode_inp(inp))], exe_name=DRIVER)[0]
        mrows, _ = lpinst.parse_rows(out)
        diffs = lpinst.compare_rowsets(mrows, rows_s)
        # rounding of k*x differs between numpy and the model only in the last bit; rows_differ allows 1e-9
        for name, what in diffs[:3]:
            ctx.disagree("C12:scaled-row %s" % name, dict(case0, k=kfac), "code: " + what, "model row " + name)
        if abs(zs - z0) > GAP * max(1.0, abs(z0)) + 1e-7:
            ctx.violation("scale-changes-optimum", "%s round %d: percent fed %r becomes %r when population and all supplies are multiplied by %g" % (
                run.iso, k + 1, z0, zs, kfac), dict(case0, k=kfac, z=z0, z_scaled=zs))
        ctx.case((run.iso, sorted(run.opts.items()), k, "scale", kfac), nontrivial=z0 > 0, sample={"country": run.iso, "round": k + 1, "perturbation": "scale x%g" % kfac, "z": z0, "z_perturbed": zs})
        ctx.count("perturbation:scale")
    except AssertionError:
        ctx.count("scaled-resolve-failed")
        ctx.violation("scaled-instance-unsolvable", "%s round %d: the instance scaled by %g does not solve" % (run.iso, k + 1, kfac), dict(case0, k=kfac))
    perts = perturbations(C0, T0, ctx.rng)
    if ctx.quick:
        # ten per instance, least-used kinds first: every kind of perturbation is exercised across the instances of a run
        ctx.rng.shuffle(perts)
        perts.sort(key=lambda p_: ctx.stats["perturbation:" + p_[0]])
        perts = perts[:10]
    for name, sign, f in perts:
        C, T = copy.deepcopy(C0), copy.deepcopy(T0)
        f(C, T)
        try:
            z1, _, _ = solve(C, T)
        except AssertionError:
            ctx.count("perturbed-resolve-failed:" + name.split("+")[0].split(":")[0])
            ctx.violation("more-supply-unsolvable:" + name.split("+")[0].split(":")[0],
                          "%s round %d: with perturbation %s the optimiser no longer solves" % (run.iso, k + 1, name), dict(case0, perturbation=name))
            continue
        tol = GAP * max(1.0, abs(z0)) + 1e-7
        if sign * (z1 - z0) < -tol:
            ctx.violation("monotonicity:" + name.split("+")[0].split(":")[0],
                          "%s round %d: percent fed falls from %r to %r under perturbation %s" % (run.iso, k + 1, z0, z1, name),
                          dict(case0, perturbation=name, z=z0, z_perturbed=z1))
        ctx.case((run.iso, sorted(run.opts.items()), k, name), nontrivial=z0 > 0,
                 sample={"country": run.iso, "round": k + 1, "perturbation": name, "z": z0, "z_perturbed": z1})
        ctx.count("perturbation:" + name)


def explore(ctx, ps):
    for iso, over in ps:
        run = pipeline.run_scenario(iso, pipeline.options(**over))
        if not run.solves:
            ctx.count("run-error")
            continue
        hs = [(k, s) for k, s in enumerate(run.solves) if s.kind == "to_humans" and s.z is not None]
        for k, s in (hs[-1:] if ctx.quick else hs):
            audit_instance(ctx, run, k, s)
        if ctx.quick and ctx.elapsed() > 160:
            ctx.count("quick-budget-reached")
            break


def correspondence(ctx):
    ps = [lpcheck.PRESETS_QUICK[0], lpcheck.PRESETS_QUICK[3], lpcheck.PRESETS_QUICK[1]]
    if ctx.quick:  # short horizons keep a re-solve at ~1 s
        ps = [(iso, dict(o, NMONTHS=48)) for iso, o in ps]
    isos = sorted(pipeline.country_rows())
    for _ in range(ctx.budget(1, 40)):
        ps.append(lpcheck.random_preset(ctx.rng, isos))
    if not ctx.quick:
        ps += [(iso, dict()) for iso in isos[::4]]
    explore(ctx, ps)


def search(ctx):
    isos = sorted(pipeline.country_rows())
    explore(ctx, [lpcheck.random_preset(ctx.rng, isos) for _ in range(4)])


def replay(ctx, rep):
    hits = []
    for v in rep.get("violations", []):
        c = v["case"]
        n0 = len(ctx.violations)
        ctx.quick = False
        explore(ctx, [(c["country"], dict(c["options"]))])
        hits += [w for w in ctx.violations[n0:] if w["key"] == v["key"]]
    return bool(hits), hits[:3]
