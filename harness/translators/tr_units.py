"""tr_units: regenerate lean/AllfedModel/Gen/UnitTables.lean from src/food_system/unit_conversions.py.

Reads, with `ast`:
  * `UnitConversions.set_nutrition_requirements`: the `self.<field> = <expr>` assignments (-> `mkConv`)
  * `get_kcal_multipliers`, `get_fat_multipliers`, `get_protein_multipliers`: local assignments and the
    returned dict literal (-> `kcalMult`, `fatMult`, `proteinMult : Conv α → String → Option α`)
Grammar: numbers, local names, `conversions.<field>` / `self.<field>`, unary minus, + - * /.
Anything else stops the translator with the offending source line (a broken tie, never skipped).
"""
import ast, os

ROOT = os.environ.get("VERIF_ROOT", "/verif")
OUT = os.path.join(ROOT, "lean", "AllfedModel", "Gen", "UnitTables.lean")
CONV_FIELDS = ["days_in_month", "kcals_daily", "fat_daily", "protein_daily", "kcals_monthly", "fat_monthly",
               "protein_monthly", "billion_kcals_needed", "thou_tons_fat_needed", "thou_tons_protein_needed", "population"]
ARGS = {"kcals_daily", "fat_daily", "protein_daily", "population"}


class Unsupported(Exception):
    pass


def num(v):
    if isinstance(v, bool) or not isinstance(v, (int, float)):
        raise Unsupported("literal %r" % (v,))
    if v == 0:
        return "(0 : α)"
    if v == 1:
        return "(1 : α)"
    r = repr(float(v))
    if "inf" in r or "nan" in r:
        raise Unsupported("literal %r" % (v,))
    if "e" in r and "." not in r.split("e")[0]:
        m, e = r.split("e")
        r = m + ".0e" + e
    return "(%s : α)" % r.replace("e+", "e")


def expr(e, locals_, src, objs):
    if isinstance(e, ast.Constant):
        return num(e.value)
    if isinstance(e, ast.Name):
        if e.id in locals_:
            return locals_[e.id]
        raise Unsupported("name %s at line %d: %s" % (e.id, e.lineno, src[e.lineno - 1].strip()))
    if isinstance(e, ast.Attribute) and isinstance(e.value, ast.Name) and e.value.id in objs and e.attr in CONV_FIELDS:
        return objs[e.value.id] + e.attr
    if isinstance(e, ast.UnaryOp) and isinstance(e.op, ast.USub):
        return "(-%s)" % expr(e.operand, locals_, src, objs)
    if isinstance(e, ast.BinOp):
        ops = {ast.Add: "+", ast.Sub: "-", ast.Mult: "*", ast.Div: "/"}
        if type(e.op) in ops:
            return "(%s %s %s)" % (expr(e.left, locals_, src, objs), ops[type(e.op)], expr(e.right, locals_, src, objs))
    raise Unsupported("construct at line %d: %s" % (e.lineno, src[e.lineno - 1].strip()))


def find_method(tree, name):
    for n in ast.walk(tree):
        if isinstance(n, ast.FunctionDef) and n.name == name:
            return n
    raise Unsupported("method %s not found" % name)


def translate_mult(fn, src, leanname):
    lets, locals_, table = [], {}, None
    for st in fn.body:
        if isinstance(st, ast.Expr) and isinstance(st.value, ast.Constant):
            continue  # docstring
        if isinstance(st, ast.Assign) and len(st.targets) == 1 and isinstance(st.targets[0], ast.Name):
            nm = st.targets[0].id
            if nm == "conversions":
                if not (isinstance(st.value, ast.Call) and isinstance(st.value.func, ast.Attribute) and st.value.func.attr == "get_conversions"):
                    raise Unsupported("conversions = ... at line %d" % st.lineno)
                continue
            lets.append("  let %s : α := %s" % (nm, expr(st.value, locals_, src, {"conversions": "c."})))
            locals_[nm] = nm
            continue
        if isinstance(st, ast.Return) and isinstance(st.value, ast.Dict):
            table = []
            for k, v in zip(st.value.keys, st.value.values):
                if not (isinstance(k, ast.Constant) and isinstance(k.value, str)):
                    raise Unsupported("dict key at line %d" % st.lineno)
                table.append((k.value, expr(v, locals_, src, {"conversions": "c."})))
            continue
        raise Unsupported("statement at line %d: %s" % (st.lineno, src[st.lineno - 1].strip()))
    if table is None:
        raise Unsupported("%s returns no dict literal" % fn.name)
    keys = [k for k, _ in table]
    if len(set(keys)) != len(keys):
        raise Unsupported("%s: duplicate key in dict literal" % fn.name)
    out = ["def %s (c : Conv α) (u : String) : Option α :=" % leanname] + lets + ["  match u with"]
    for k, v in table:
        out.append("  | %s => some %s" % (lean_str(k), v))
    out.append("  | _ => none")
    out.append("")
    out.append("def %sNames : List String := [%s]" % (leanname, ", ".join(lean_str(k) for k in keys)))
    return "\n".join(out), keys


def lean_str(s):
    return '"' + s.replace("\\", "\\\\").replace('"', '\\"') + '"'


def translate_conv(fn, src):
    fields = {}
    locals_ = {a: a for a in ARGS}
    for st in fn.body:
        if isinstance(st, ast.Expr) and isinstance(st.value, ast.Constant):
            continue
        if isinstance(st, ast.Assign) and len(st.targets) == 1 and isinstance(st.targets[0], ast.Attribute) \
                and isinstance(st.targets[0].value, ast.Name) and st.targets[0].value.id == "self":
            nm = st.targets[0].attr
            if nm in CONV_FIELDS:
                fields[nm] = expr(st.value, locals_, src, {"self": "SELF_"})
            continue
        raise Unsupported("statement at line %d: %s" % (st.lineno, src[st.lineno - 1].strip()))
    missing = [f for f in CONV_FIELDS if f not in fields]
    if missing:
        raise Unsupported("set_nutrition_requirements does not assign %s" % missing)
    lets = []
    order = [st.targets[0].attr for st in fn.body if isinstance(st, ast.Assign) and isinstance(st.targets[0], ast.Attribute)
             and st.targets[0].attr in CONV_FIELDS]
    for f in order:
        lets.append("  let f_%s : α := %s" % (f, fields[f].replace("SELF_", "f_")))
    body = ",\n    ".join("%s := f_%s" % (f, f) for f in CONV_FIELDS)
    return ("def mkConv (kcals_daily fat_daily protein_daily population : α) : Conv α :=\n" + "\n".join(lets) +
            "\n  { " + body + " }")


HEADER = """-- GENERATED on every check run by harness/translators/tr_units.py from
-- /repo/src/food_system/unit_conversions.py (set_nutrition_requirements, get_*_multipliers).  Do not edit.
import AllfedModel.Num.Basic
namespace Allfed.Gen.Units

structure Conv (α : Type) where
%s

section
variable {α : Type} [Add α] [Sub α] [Mul α] [Div α] [Neg α] [OfNat α 0] [OfNat α 1] [OfScientific α]

""" % "\n".join("  %s : α" % f for f in CONV_FIELDS)


def generate(repo):
    path = os.path.join(repo, "src", "food_system", "unit_conversions.py")
    text = open(path).read()
    src = text.split("\n")
    tree = ast.parse(text)
    parts = [HEADER, translate_conv(find_method(tree, "set_nutrition_requirements"), src), ""]
    names = {}
    for py, ln in (("get_kcal_multipliers", "kcalMult"), ("get_fat_multipliers", "fatMult"), ("get_protein_multipliers", "proteinMult")):
        code, keys = translate_mult(find_method(tree, py), src, ln)
        parts += [code, ""]
        names[ln] = keys
    parts += ["end", "end Allfed.Gen.Units", ""]
    return "\n".join(parts), names


def run(ctx):
    body, names = generate(ctx.repo)
    old = open(OUT).read() if os.path.exists(OUT) else None
    if old != body:
        os.makedirs(os.path.dirname(OUT), exist_ok=True)
        with open(OUT, "w") as f:
            f.write(body)
        ctx.count("translator:tr_units:rewritten")
    import hashlib
    ctx.extra.setdefault("translator_inputs", {})["src/food_system/unit_conversions.py"] = hashlib.sha256(
        open(os.path.join(ctx.repo, "src", "food_system", "unit_conversions.py"), "rb").read()).hexdigest()[:16]
    ctx.extra["unit_names"] = {k: len(v) for k, v in names.items()}
    return names


run.__name__ = "tr_units"

if __name__ == "__main__":
    import sys
    print(generate(sys.argv[1] if len(sys.argv) > 1 else "/repo")[0])
