"""C06 - herd head-count ledger balances every month (DESIGN.md §7 C06)."""
from lib import herd

ID = "C06"
LEVEL = "proof"
LEVEL_TEXT = ("Lean 4 theorems, by induction over the feed/grass series with the invariant HerdOK, for any number of species, any series length and any "
              "values over an ordered field, about an executable model of the month loop of animal_populations.main(): ledger with zero clamp, "
              "non-negativity of head counts and of every flow, milk->meat transfer = retirements + surviving male calves, slaughter hours per size "
              "class within the baseline budget, slaughter within the animals available and never below the target herd; the asserts of the loop cannot "
              "fire in exact arithmetic.  The model is tied to the code by running main() and the model on the same countries, strategies and series "
              "every run and comparing EVERY list of EVERY species")
LEVEL_NOTE = ("Trusted: Lean kernel (axioms propext/Classical.choice/Quot.sound only), the Python correspondence harness (it reads the species parameters "
              "off the real objects when the month loop starts), exact-arithmetic model vs IEEE doubles (compared at rel 1e-9 of the herd size). "
              "Python's round() enters as a parameter function.")
TECHNIQUE = "Lean 4 proof by induction over months with a state invariant + differential correspondence with the real main()"
DRIVER = "driver_herd"
LEAN_MODULES = ["AllfedModel.Props.C06"]
OBLIGATIONS = [
    "Allfed.C06.C06_ledger", "Allfed.C06.C06_nonneg", "Allfed.C06.C06_transfer", "Allfed.C06.C06_transfer_none", "Allfed.C06.C06_hours",
    "Allfed.C06.C06_available_and_target", "Allfed.C06.C06_invariant", "Allfed.C06.C06_no_error",
    "Allfed.C06.C06_run_ledger", "Allfed.C06.C06_run_nonneg", "Allfed.C06.C06_run_transfer", "Allfed.C06.C06_run_hours",
    "Allfed.C06.C06_run_available_and_target", "Allfed.C06.C06_run_chain", "Allfed.C06.C06_run_no_error",
    "Allfed.C06.birthsBaseline_nonneg", "Allfed.C06.C06_negative_births_counterexample",
]
RULE = ("real country codes x the 3 breeding strategies x generated monthly feed/grass series (zero, constant fraction 0..2 of the requirement, ramps, "
        "spikes, steps, random, exactly-enough knife edges) of 24-120 months, with and without a meat dictionary (feeding order), fed to the real main() "
        "and to the Lean model; a case is non-trivial when some herd is partially fed or its slaughter is limited by the target; distinct = distinct "
        "(country, strategy, series)")
ASSUMPTIONS = [
    "HerdOK: efficiencies, slaughter hours, gestation > 0; birth ratio >= 1; culling fraction, breeding reduction in [0,1]; death rate, baseline slaughter, "
    "target, starvation fraction, retirement fraction, initial population / pregnant animals / slaughter >= 0 (checked on the captured parameters of every run)",
    "home-kill budget >= 0 (0 in the code: 'there is no homekill'); C06_no_error additionally takes it to be exactly 0",
    "C06_transfer: the dairy herds of a country have pairwise different species keys",
    "round: |round x - x| <= 1/2 (only C07 uses it)",
    "floats are compared to the model at Float with rel 1e-9 (abs 1e-9 of the largest head count of the species)",
]
TRUSTED = ["species parameters are read from the real AnimalSpecies objects at append_month_zero (harness wrapper), not re-derived from the CSV files"]

SERIES_KINDS = [("zero", "zero"), ("const", "const"), ("const", "zero"), ("zero", "const"), ("ramp-up", "ramp-down"), ("ramp-down", "const"),
                ("spike", "spike"), ("random", "random"), ("step", "step"), ("spike", "const"), ("random", "zero")]


def _cases(ctx, countries, per_combo):
    rng = ctx.rng
    for code in countries:
        for sc in herd.STRATEGIES:
            kinds = list(SERIES_KINDS)
            rng.shuffle(kinds)
            for i in range(per_combo):
                if i == per_combo - 1:
                    case = herd.knife_edge_case(rng, ctx, code, sc, n=rng.choice([24, 36]))
                else:
                    md = herd.meat_dict(rng) if rng.random() < 0.3 else None
                    case = herd.make_case(rng, ctx, code, sc, kinds=kinds[i % len(kinds)] if i < 4 else None, md=md)
                if case is not None:
                    yield case
                else:
                    ctx.count("probe-failed")
                    ctx.violation("main-setup-fails", "main() fails before the month loop for %s/%s" % (code, sc), {"code": code, "scenario": sc})


def _run(ctx, cases):
    for case in cases:
        s = herd.main_case(ctx, case, "C06")
        ctx.case((case["code"], case["scenario"], case["kf"], case["kg"], tuple(case["feed"][:6]), tuple(case["grass"][:6]), len(case["feed"])),
                 nontrivial=bool(s.get("partial")),
                 sample={"code": case["code"], "scenario": case["scenario"], "feed": case["kf"], "grass": case["kg"], "months": len(case["feed"]),
                         "species": s.get("nspecies")})
        ctx.count("months", len(case["feed"]))
        ctx.count("runs:" + case["scenario"])


def correspondence(ctx):
    countries = herd.pick_countries(ctx, 7)
    ctx.extra["countries"] = len(countries)
    # corpus: the witness countries of the (fixed) negative-births defect run first
    corpus = [herd.make_case(ctx.rng, ctx, c, "baseline", n=24, kinds=("const", "const")) for c in (["BLR", "MLI"] if ctx.quick else herd.CLAMPED_BIRTH_COUNTRIES)]
    _run(ctx, [c for c in corpus if c])
    _run(ctx, _cases(ctx, countries, ctx.budget(6, 8)))


def search(ctx):
    """tie broke: many more countries, the property oracle decides"""
    allc = herd.model_countries()
    ctx.rng.shuffle(allc)
    _run(ctx, _cases(ctx, allc[:40] if ctx.quick else allc, 4))


def replay(ctx, rep):
    hits = herd.replay_main(ctx, rep, "C06")
    return bool(hits), hits
