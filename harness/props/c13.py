"""C13 - scenario options mean what they say and are applied exactly once (DESIGN.md §7 C13)."""
import copy, inspect, math, types
import numpy as np
from lib import wire
from lib.wire import f2b, enc_str, Reader, close
from translators import tr_scenarios

ID = "C13"
LEVEL = "proof"
LEVEL_TEXT = ("Lean 4 theorems over the setter / dispatch / override tables regenerated from scenarios.py and run_scenario.py on every run: "
              "for every sequence of setter calls, the run succeeds with all flags set only if every option family occurs exactly once (and, when no data "
              "precondition fails, if and only if); a repeated family, an unknown value and a missing option are rejected, the last two before any setter "
              "runs (two-phase reading proved equivalent to the interleaved code); the generated table equals a hand-written specification transcribed "
              "from scenarios/README.md and the docstrings; every numeric override changes only the key it names; every head-count column is mapped back "
              "to itself by the herd loader. The executable model is run against the real Scenarios setters and set_depending_on_option every run")
LEVEL_NOTE = ("Trusted: Lean kernel (propext/Classical.choice/Quot.sound), the ast translator tr_scenarios (its tables are executed against the real class on "
              "every run: all ordered pairs of setters, random option dictionaries, all species overrides), the Python harness. Setters that compute with "
              "numpy / comprehensions over the country row are an explicit allow-list (3): family, flags and written keys are modelled, values are opaque.")
TECHNIQUE = "translator (source -> Lean tables) + Lean 4 state-machine induction and decide over the tables + differential correspondence"
DRIVER = "driver_scenario"
LEAN_MODULES = ["AllfedModel.Props.C13", "AllfedModel.Props.C13Spec"]
TRANSLATORS = [tr_scenarios.run]
OBLIGATIONS = ["Allfed.C13." + n for n in [
    "C13_exactly_once", "C13_exactly_once_sound", "C13_exactly_once_complete", "C13_flags_of_run", "C13_twice_rejected", "C13_never_flag_error_when_once",
    "C13_table_wellformed", "C13_families_partition", "C13_flags_agree", "C13_dispatch_covers_every_family", "C13_every_family_required_no_default",
    "C13_accepted_all_set", "C13_missing_rejected", "C13_unknown_rejected", "C13_unknown_rejected_before_any_setter", "C13_two_phase", "C13_patch_rules_ok", "C13_patch_frame",
    "C13_patches_only_shutoff", "C13_means_what_it_says", "C13_spec_covers_table", "C13_dispatch_means_what_it_says", "C13_overrides_spec",
    "C13_frame", "C13_frame_absent", "C13_override_sets_named_key", "C13_head_override_writes",
    "C13_head_override_name", "C13_head_override_name_general", "C13_head_keys_only_from_override",
    "C13_strip_counterexample", "C13_strip_mangles_exactly"]]
RULE = ("(1) every ordered pair of the real Scenarios setters (after a random prefix: nothing / init_global / init_country / init + stored food) and "
        "random longer sequences (one setter per family in random order, with a duplicate or an omission injected) called on a fresh Scenarios object "
        "with a real country row, against the model's accept/reject, error kind, flags, check_all_set and resulting constants; "
        "(2) random option dictionaries (scope-consistent, arbitrary, one unknown value, one missing key, numeric overrides in and out of range, every "
        "head-count column, the SLV/ALB/ECU known-to-fail patches, wrong country_data) through the real set_depending_on_option, same comparison plus "
        "caller's dictionary unchanged; (3) every head-count override followed through animal_populations.main to the table create_animal_objects sees; "
        "non-trivial = the call sequence is accepted or fails after at least one setter ran; distinct = distinct (ops, row) / option dictionaries")
ASSUMPTIONS = ["NMONTHS and head counts are Python ints (the model's numbers do not distinguish 120 from 120.0)",
               "numeric overrides given as numbers or plain decimal strings",
               "`supported` value = accepted by the dispatcher (README's no_stored_food_between_years is a documentation slip; fat/protein `required` "
               "stop with an explanatory message and sys.exit())",
               "the three allow-listed setters' VALUES (seaweed growth columns, country seasonality list, fish reduction series, crop area array) are "
               "opaque here and covered by the series model of C08"]
TRUSTED = ["ast translator tr_scenarios.py (grammar in its docstring; raises on anything outside it)",
           "fingerprint of alter_scenario_if_known_to_fail's control flow (the rule list itself is translated)"]

# README.md "Allowed Values" (hand transcription; used only to check that documented values are accepted)
DOC_VALUES = {
    "scale": ["global", "country"],
    "seasonality": ["no_seasonality", "country", "baseline_globally", "nuclear_winter_globally"],
    "grasses": ["baseline", "global_nuclear_winter", "country_nuclear_winter", "all_crops_die_instantly"],
    "crop_disruption": ["zero", "global_nuclear_winter", "country_nuclear_winter", "all_crops_die_instantly"],
    "scenario": ["no_resilient_foods", "all_resilient_foods", "all_resilient_foods_and_more_area", "seaweed", "methane_scp", "cellulosic_sugar",
                 "industrial_foods", "relocated_crops", "greenhouse"],
    "fish": ["zero", "baseline", "nuclear_winter"],
    "waste": ["zero", "tripled_prices_in_country", "doubled_prices_in_country", "baseline_in_country", "tripled_prices_globally",
              "doubled_prices_globally", "baseline_globally"],
    "nutrition": ["baseline", "catastrophe"],
    "intake_constraints": ["enabled", "disabled_for_humans"],
    "stored_food": ["zero", "baseline"],
    "ratio_stocks_untouched": ["zero", "baseline"],          # + no_stored_food_between_years: documentation slip (DESIGN §8)
    "shutoff": ["immediate", "short_delayed_shutoff", "long_delayed_shutoff", "continued", "continued_after_10_percent_fed"],
    "cull": ["do_eat_culled", "dont_eat_culled"],
    "fat": ["not_required"],                                  # `required`: announced as not working, sys.exit()
    "protein": ["not_required"],
    "meat_strategy": ["reduce_breeding", "baseline_breeding"],
}

KINDS = {AssertionError: "assert", KeyError: "key", AttributeError: "attr", TypeError: "type", ZeroDivisionError: "zerodiv",
         ValueError: "value", SystemExit: "exit"}


def kind_of(e):
    for k, v in KINDS.items():
        if isinstance(e, k):
            return v
    return type(e).__name__


# ---------------------------------------------------------------------------------------------------------------------
# wire helpers
def enc_val(v):
    if isinstance(v, (bool, np.bool_)):
        return "b %d" % int(v)
    if isinstance(v, str):
        return "s " + enc_str(v)
    return "n " + f2b(float(v))


def enc_dict(d):
    items = list(d.items())
    return " ".join([str(len(items))] + ["%s %s" % (enc_str(k), enc_val(v)) for k, v in items])


def enc_cd(row, cols):
    if row is None:
        return "0"
    return "1 " + enc_dict({c: row[c] for c in cols if c in row.index})


def read_val(rd):
    t = rd.tok()
    if t == "n":
        return ("n", rd.float())
    if t == "b":
        return ("b", rd.bool())
    if t == "s":
        return ("s", rd.str())
    if t == "d":
        return ("d",)
    if t == "l":
        return ("l", rd.floats())
    if t == "o":
        return ("o",)
    raise RuntimeError("bad value tag " + t)


def read_result(rd):
    """-> ('ok', flags:set, scope, allset, store:dict) | ('err', kind, detail, index|None)"""
    t = rd.tok()
    if t == "ok":
        flags = set(rd.strs())
        sc = rd.tok()
        allset = rd.bool()
        n = rd.nat()
        store = {}
        for _ in range(n):
            k = rd.str()
            store[k] = read_val(rd)
        return ("ok", flags, {"-": None, "1": True, "0": False}[sc], allset, store)
    k = rd.tok()
    return ("err", k.split(":")[0], k)


def flat_value(v):
    if isinstance(v, (bool, np.bool_)):
        return ("b", bool(v))
    if isinstance(v, str):
        return ("s", v)
    if isinstance(v, (int, float, np.integer, np.floating)):
        return ("n", float(v))
    if isinstance(v, dict):
        return ("d",)
    if isinstance(v, (list, tuple, np.ndarray)):
        try:
            return ("l", [float(x) for x in np.asarray(v, dtype=float).ravel()])
        except Exception:
            return ("?", repr(v)[:60])
    return ("?", repr(v)[:60])


def flatten(consts, tconsts):
    out = {}
    for k, v in consts.items():
        out[k] = flat_value(v)
        if isinstance(v, dict):
            for k2, v2 in v.items():
                out["%s/%s" % (k, k2)] = flat_value(v2)
    for k, v in (tconsts or {}).items():
        out["time_consts:" + k] = flat_value(v)
    return out


def same_val(a, b):
    if a[0] != b[0]:
        return False
    if a[0] == "n":
        return close(a[1], b[1], 1e-12, 0.0)
    if a[0] == "l":
        return len(a[1]) == len(b[1]) and all(close(x, y, 1e-12, 0.0) for x, y in zip(a[1], b[1]))
    return a == b


def diff_store(ctx, model, impl):
    """model store vs flattened implementation dictionaries; opaque model values are skipped and counted"""
    stars = [p[:-1] for p in model if p.endswith("/*")]
    bad = []
    for p, iv in impl.items():
        if any(p.startswith(s) for s in stars):
            ctx.count("opaque-skipped")
            continue
        mv = model.get(p)
        if mv is None:
            bad.append((p, iv, None))
        elif mv[0] == "o":
            ctx.count("opaque-skipped")
        elif not same_val(mv, iv):
            bad.append((p, iv, mv))
    for p, mv in model.items():
        if not p.endswith("/*") and p not in impl:
            bad.append((p, None, mv))
    return bad


# ---------------------------------------------------------------------------------------------------------------------
class Env:
    pass


def setup(ctx):
    meta = tr_scenarios.run.meta
    if meta is None:
        try:
            meta = tr_scenarios.generate(ctx.repo)[1]
        except Exception as e:   # today's source is outside the grammar: run the last good table (the one the built model uses)
            meta = tr_scenarios.last_good_meta()
            ctx.notes.append("translator failed (%s); correspondence ran the previously generated table against the current code" % str(e)[:200])
    E = Env()
    E.meta = meta
    E.setters = {s["name"]: s for s in meta["setters"]}
    E.names = list(E.setters)
    cols = set(["iso3", "country"])

    def walk(e):
        if isinstance(e, tuple):
            if e and e[0] == "cd":
                cols.add(e[1])
            for x in e:
                walk(x)
        elif isinstance(e, list):
            for x in e:
                walk(x)
    for s in meta["setters"]:
        walk(s["body"])
    walk(meta["dispatch"])
    E.cols = sorted(cols)
    E.families = [(i[1], [v for v, _ in i[2]], i[2]) for i in meta["dispatch"] if i[0] == "family"]
    E.required = meta["required"]
    # scope demanded by each setter: True (global), False (country) or None
    E.scope = {}
    for s in meta["setters"]:
        sc = [st[1] for st in s["body"] if st[0] == "assertScope"]
        E.scope[s["name"]] = sc[0] if sc else None
    import pandas as pd
    import os
    df = pd.read_csv(os.path.join(ctx.repo, "data", "no_food_trade", "computer_readable_combined.csv"))
    E.rows = [r for _, r in df.iterrows()]
    E.by_iso = {r["iso3"]: r for r in E.rows}
    return E


def real_call_seq(E, ops, row):
    """ops: ('c', setter) | ('w', key, value) on ONE fresh Scenarios object.  -> ('ok', loader, consts, tconsts) | ('err', kind, index, exc)"""
    from src.scenarios.scenarios import Scenarios
    sc = Scenarios()
    c, tc = {}, {}
    for i, op in enumerate(ops):
        try:
            if op[0] == "c":
                info = E.setters[op[1]]
                args = [{"constants_for_params": c, "country_data": row, "time_consts": tc}[p] for p in info["params"]]
                r = getattr(sc, op[1])(*args)
                if info["returns"] == "":
                    c = r
                else:
                    tc = r
            else:
                c[op[1]] = op[2]
        except BaseException as e:  # noqa
            return ("err", kind_of(e), i, e)
    return ("ok", sc, c, tc)


def real_flags(sc):
    return {k for k, v in vars(sc).items() if k.endswith("_SET") and v is True}


def seq_line(E, ops, row):
    toks = []
    for op in ops:
        if op[0] == "c":
            toks.append("c " + enc_str(op[1]))
        else:
            toks.append("w %s %s" % (enc_str(op[1]), enc_val(op[2])))
    return "scen.seq %s 0 %d %s" % (enc_cd(row, E.cols), len(ops), " ".join(toks))


def check_seq(ctx, E, ops, row, line_out, tag, fam_real):
    """run one op sequence on the real class; compare with the model's answer `line_out`; property oracles"""
    case = {"ops": [list(map(str, o)) for o in ops], "country": None if row is None else row["iso3"]}
    with ctx.quiet():
        real = real_call_seq(E, ops, row)
    m = read_result(Reader(line_out))
    rd = Reader(line_out)
    if real[0] == "err":
        idx = None
        if m[0] == "err":
            rd.tok(); rd.tok()
            idx = rd.nat()
        if m[0] != "err" or m[1] != real[1] or idx != real[2]:
            ctx.disagree("setter-sequence:%s" % tag, case, "err %s at op %d (%s)" % (real[1], real[2], str(real[3])[:80]), line_out[:200])
        ctx.count("seq:rejected:" + real[1])
    else:
        _, sc, c, tc = real
        if m[0] != "ok":
            ctx.disagree("setter-sequence:%s" % tag, case, "accepted", line_out[:200])
        else:
            fl = real_flags(sc)
            if fl != m[1]:
                ctx.disagree("setter-sequence-flags:%s" % tag, case, sorted(fl), sorted(m[1]))
            try:
                sc.check_all_set()
                allset = True
            except AssertionError:
                allset = False
            if allset != m[3]:
                ctx.disagree("check_all_set:%s" % tag, case, allset, m[3])
            bad = diff_store(ctx, m[4], flatten(c, tc))
            if bad:
                ctx.disagree("setter-sequence-constants:%s" % tag, case, [(p, a) for p, a, _ in bad[:4]], [(p, b) for p, _, b in bad[:4]])
        ctx.count("seq:accepted")
    # property oracle, independent of the model: a family applied twice must be rejected
    called = [o[1] for o in ops if o[0] == "c"]
    nok = len(ops) if real[0] == "ok" else real[2]
    seen = {}
    for i, o in enumerate(ops):
        if o[0] != "c" or i >= nok:
            continue
        for f in fam_real.get(o[1], ()):
            if f in seen:
                ctx.violation("family-set-twice-accepted", "setters %s and %s of the same option family (%s) were both applied to one Scenarios object"
                              % (seen[f], o[1], f), case)
            seen[f] = o[1]
    ctx.case(("seq", tuple(map(tuple, case["ops"])), case["country"]), nontrivial=(real[0] == "ok" or real[2] > 0),
             sample={"setter_calls": called[:6], "country": case["country"], "result": real[0] if real[0] == "ok" else "rejected: %s at call %d" % (real[1], real[2])})


def real_families(ctx, E):
    """which flags each real setter sets, observed on the real class (context: matching init + NMONTHS + stored food)"""
    fam = {}
    row = E.rows[0]
    for n in E.names:
        for init in ("init_global_food_system_properties", "init_country_food_system_properties"):
            if n.startswith("init_"):
                ops = [("c", n)]
                base = set()
            else:
                ops = [("c", init), ("w", "NMONTHS", 24), ("c", "set_baseline_stored_food" if n != "set_baseline_stored_food" and n != "set_no_stored_food" else "set_stored_food_buffer_zero"), ("c", n)]
                with ctx.quiet():
                    b = real_call_seq(E, ops[:-1], row)
                base = real_flags(b[1]) if b[0] == "ok" else set()
            with ctx.quiet():
                r = real_call_seq(E, ops, row)
            if r[0] == "ok":
                fam[n] = real_flags(r[1]) - base
                break
    return fam


def part_sequences(ctx, E):
    rng = ctx.rng
    # live class vs generated table
    from src.scenarios.scenarios import Scenarios
    rd = Reader(ctx.lean(["scen.info"])[0])
    init_flags, all_flags, helpers = rd.strs(), rd.strs(), rd.strs()
    n = rd.nat()
    tab = {}
    for _ in range(n):
        nm = rd.str()
        tab[nm] = {"params": rd.strs(), "family": rd.strs(), "sets": rd.strs(), "opaque": rd.bool(), "writes": rd.strs()}
    live = [k for k, v in vars(Scenarios).items() if inspect.isfunction(v) and k not in ("__init__", "check_all_set")]
    if sorted(live) != sorted(list(tab) + helpers):
        ctx.disagree("setter-names", {}, sorted(live), sorted(list(tab) + helpers))
    for nm, t in tab.items():
        sig = list(inspect.signature(getattr(Scenarios, nm)).parameters)[1:]
        if sig != t["params"]:
            ctx.disagree("setter-params", {"setter": nm}, sig, t["params"])
    with ctx.quiet():
        fresh = Scenarios()
    live_flags = sorted(k for k, v in vars(fresh).items() if k.endswith("_SET"))
    if live_flags != sorted(init_flags) or any(getattr(fresh, f) is not False for f in live_flags):
        ctx.disagree("init-flags", {}, live_flags, sorted(init_flags))
    fam_real = real_families(ctx, E)
    for opt, vals, branches in E.families:     # setters reachable from one option family belong together, whatever flags they touch
        for v, acts in branches:
            for a in acts:
                if a[0] == "call":
                    fam_real[a[1]] = set(fam_real.get(a[1], ())) | {"option:" + opt}
    for nm, t in tab.items():
        obs = {f for f in fam_real.get(nm, ()) if not f.startswith("option:")}
        if nm in fam_real and set(t["family"]) != obs:
            ctx.disagree("setter-family", {"setter": nm}, sorted(obs), t["family"])
        if nm not in fam_real:
            ctx.count("family-not-observed")
    ctx.extra["setters_in_table"] = len(tab)

    # (a) every ordered pair
    rows = [E.by_iso[i] for i in ("USA", "IND", "DJI", "SLV", "ISL") if i in E.by_iso] + [rng.choice(E.rows) for _ in range(3)]
    prefixes = [[], [("c", "init_global_food_system_properties"), ("w", "NMONTHS", 120)],
                [("c", "init_country_food_system_properties"), ("w", "NMONTHS", 48)],
                [("c", "init_global_food_system_properties"), ("w", "NMONTHS", 12), ("c", "set_baseline_stored_food")],
                [("c", "init_country_food_system_properties"), ("w", "NMONTHS", 84), ("c", "set_no_stored_food")]]
    cases = []
    names = E.names
    pairs = [(a, b) for a in names for b in names]
    if not ctx.quick:
        pairs = pairs * 3
    for a, b in pairs:
        pre = rng.choice(prefixes[1:]) if rng.random() < 0.85 else prefixes[0]
        row = rng.choice(rows)
        if rng.random() < 0.08 and not any(o[1].startswith("init_country") for o in pre if o[0] == "c"):
            row = None
        cases.append((pre + [("c", a), ("c", b)], row, "pair"))
    # (b) longer sequences: one setter per family, random order, with a duplicate / an omission / nothing injected
    by_family = {}
    for nm, t in tab.items():
        by_family.setdefault(tuple(sorted(t["family"])), []).append(nm)
    nlong = ctx.budget(300, 6000)
    for _ in range(nlong):
        glob = rng.random() < 0.5
        row = rng.choice(rows)
        init = "init_global_food_system_properties" if glob else "init_country_food_system_properties"
        chosen = []
        for famkey, members in by_family.items():
            if any(m.startswith("init_") for m in members):
                continue
            ok = [m for m in members if E.scope[m] in (None, glob)] if rng.random() < 0.9 else members
            chosen.append(rng.choice(ok or members))
        rng.shuffle(chosen)
        if rng.random() < 0.7:   # stored food first, as the dispatcher does (several shutoff setters need it)
            sf = [c for c in chosen if "STORED_FOOD_SET" in tab[c]["family"]]
            chosen = sf + [c for c in chosen if c not in sf]
        ops = [("c", init), ("w", "NMONTHS", rng.choice([12, 36, 120]))] + [("c", c) for c in chosen]
        mode = rng.random()
        tag = "perm"
        if mode < 0.3:
            k = rng.randrange(2, len(ops))
            dup = rng.choice([o for o in ops if o[0] == "c"])
            other = rng.choice(by_family[tuple(sorted(tab[dup[1]]["family"]))])
            ops.insert(k, ("c", other))
            tag = "dup"
        elif mode < 0.5:
            k = rng.randrange(2, len(ops))
            del ops[k]
            tag = "omit"
        cases.append((ops, row, tag))
    outs = ctx.lean([seq_line(E, ops, row) for ops, row, _ in cases])
    for (ops, row, tag), o in zip(cases, outs):
        check_seq(ctx, E, ops, row, o, tag, fam_real)
        ctx.count("seqkind:" + tag)
    part_spec(ctx, E, prefixes, rows, [c for c in cases if c[2] != "pair"])
    return tab, fam_real


def part_spec(ctx, E, prefixes, rows, long_cases):
    """the executable statement of `sets exactly the constants its documentation describes`: the hand-written specification
    rows (Model/ScenarioSpec.lean) are run as setters by the driver and compared with what the REAL setters leave behind"""
    rng = ctx.rng
    spec_names = Reader(ctx.lean(["scen.specnames"])[0]).strs()
    cases = []
    for nm in spec_names:
        if nm not in E.setters:
            continue
        for pre in prefixes:
            if nm.startswith("init_"):
                pre = []
            cases.append((pre + [("c", nm)], rng.choice(rows), nm))
            if nm.startswith("init_"):
                break
    cases += [(ops, row, None) for ops, row, _ in long_cases]
    outs = ctx.lean([seq_line(E, ops, row).replace("scen.seq ", "scen.seqspec ", 1) for ops, row, _ in cases])
    for (ops, row, nm), o in zip(cases, outs):
        with ctx.quiet():
            real = real_call_seq(E, ops, row)
        if real[0] != "ok":
            continue
        case = {"ops": [list(map(str, x)) for x in ops], "country": None if row is None else row["iso3"]}
        m = read_result(Reader(o))
        if m[0] != "ok":
            ctx.violation("setter-deviates-from-documentation", "the real setters accept this call sequence, the documented behaviour (specification rows "
                          "executed as setters) rejects it: %s" % o[:120], case)
            continue
        bad = diff_store(ctx, m[4], flatten(real[2], real[3]))
        if bad or real_flags(real[1]) != m[1]:
            p, iv, mv = bad[0] if bad else ("<flags>", sorted(real_flags(real[1])), sorted(m[1]))
            ctx.violation("setter-deviates-from-documentation", "after %s the real code has %s = %r, the documentation says %r"
                          % (nm or [x[1] for x in ops if x[0] == "c"][-3:], p, iv, mv), dict(case, key=p))
        ctx.count("spec-executed")
        ctx.case(("spec", tuple(map(tuple, case["ops"])), case["country"]))


# ---------------------------------------------------------------------------------------------------------------------
# option dictionaries
def gen_options(rng, E, glob, consistent=True):
    o = {}
    for opt, vals, branches in E.families:
        cand = []
        for v, acts in branches:
            calls = [a[1] for a in acts if a[0] == "call"]
            if any(a[0] == "exit" for a in acts):
                continue
            if consistent and any(E.scope.get(c) not in (None, glob) for c in calls):
                continue
            cand.append(v)
        o[opt] = rng.choice(cand or vals)
    o["scale"] = "global" if glob else "country"
    o["NMONTHS"] = rng.choice([12, 24, 48, 120])
    return o


def real_dispatch(ctx, opts, row):
    from src.scenarios.run_scenario import ScenarioRunner
    before = copy.deepcopy(opts)
    try:
        with ctx.quiet():
            c, tc, sc = ScenarioRunner().set_depending_on_option(opts, country_data=row)
        res = ("ok", sc, c, tc)
    except BaseException as e:  # noqa  (SystemExit included)
        res = ("err", kind_of(e), None, e)
    same = (opts == before) and list(opts.keys()) == list(before.keys()) and all(type(opts[k]) is type(before[k]) for k in opts)
    return res, same


def named_keys(E, opts):
    """keys the numeric overrides present in `opts` may change (from the option names themselves, not from the table)"""
    named = {}
    for k, v in opts.items():
        if "_head" in k:
            named[k + "_start"] = ("head", k)
        if "kg_meat_per_large_animal" in k:
            named[k] = ("kg", k)
    for k in ("MINIMUM_PERCENT_FED_BEFORE_NONHUMAN_CONSUMPTION_ALLOWED", "RATIO_STOCKS_UNTOUCHED"):
        if k in opts:
            named[k] = ("exact", k)
    if "CROP_PRODUCTION_MULTIPLIER" in opts:
        for i in range(1, 12):
            named["RATIO_CROPS_YEAR%d" % i] = ("mult", "CROP_PRODUCTION_MULTIPLIER")
    if "GRASSES_PRODUCTION_MULTIPLIER" in opts:
        for i in range(1, 12):
            named["RATIO_GRASSES_YEAR%d" % i] = ("mult", "GRASSES_PRODUCTION_MULTIPLIER")
    return named


OVERRIDE_KEYS = ["MINIMUM_PERCENT_FED_BEFORE_NONHUMAN_CONSUMPTION_ALLOWED", "RATIO_STOCKS_UNTOUCHED", "CROP_PRODUCTION_MULTIPLIER",
                 "GRASSES_PRODUCTION_MULTIPLIER", "kg_meat_per_large_animal"]


def part_dispatch(ctx, E):
    rng = ctx.rng
    heads = E.meta["heads"]
    cases = []   # (opts, row, tag, extra)

    def add(opts, row, tag, extra=None):
        cases.append((opts, row, tag, extra))

    nvalid = ctx.budget(150, 3000)
    for i in range(nvalid):
        glob = rng.random() < 0.4
        row = None if glob else rng.choice(E.rows)
        add(gen_options(rng, E, glob, consistent=rng.random() < 0.8), row, "valid" if True else "")
    # documented values: each accepted in a consistent context
    for opt, vals in DOC_VALUES.items():
        for v in vals:
            for glob in (True, False):
                o = gen_options(rng, E, glob)
                o[opt] = v
                calls = [a[1] for fo, _, brs in E.families if fo == opt for bv, acts in brs if bv == v for a in acts if a[0] == "call"]
                if opt == "scale":
                    glob = v == "global"
                    o = gen_options(rng, E, glob)
                elif any(E.scope.get(c) not in (None, glob) for c in calls):
                    continue
                add(o, None if glob else rng.choice(E.rows), "documented", (opt, v))
    # one unknown value
    for opt, vals, _ in E.families:
        for bad in ["bogus", vals[0] + " ", vals[0].upper(), 3, "no_stored_food_between_years" if opt == "ratio_stocks_untouched" else ""]:
            if bad in vals:
                continue
            glob = rng.random() < 0.4
            o = gen_options(rng, E, glob)
            o[opt] = bad
            add(o, None if glob else rng.choice(E.rows), "unknown", opt)
    # one missing key
    for opt in E.required + ["NMONTHS"]:
        for glob in (True, False):
            o = gen_options(rng, E, glob)
            del o[opt]
            add(o, None if glob else rng.choice(E.rows), "missing", opt)
    # announced-as-unsupported values
    for opt in ("protein", "fat"):
        o = gen_options(rng, E, False)
        o[opt] = "required"
        add(o, rng.choice(E.rows), "exit", opt)
    # wrong country_data
    o = gen_options(rng, E, True)
    add(o, rng.choice(E.rows), "global-with-row")
    o = gen_options(rng, E, False)
    add(o, None, "country-without-row")
    # known-to-fail patches
    for iso in ("SLV", "ALB", "ECU", "USA"):
        if iso not in E.by_iso:
            continue
        for k in range(ctx.budget(6, 40)):
            o = gen_options(rng, E, False)
            o["cull"] = "do_eat_culled"
            o["scenario"] = rng.choice(["all_resilient_foods", "seaweed", "greenhouse", "no_resilient_foods"])
            o["shutoff"] = rng.choice(["continued", "long_delayed_shutoff", "short_delayed_shutoff", "immediate"])
            if iso == "ECU":
                o["meat_strategy"] = "feed_only_ruminants"
                o["crop_disruption"] = rng.choice(["zero", "country_nuclear_winter"])
                o["ratio_stocks_untouched"] = rng.choice(["zero", "baseline", "no_stored_between_years"])
            add(o, E.by_iso[iso], "patch:" + iso)
    # numeric overrides
    for h in heads:
        for k in range(ctx.budget(1, 6)):
            glob = False
            o = gen_options(rng, E, glob)
            o[h] = rng.choice([0, 1, 12345, 10 ** 7, "250"])
            add(o, rng.choice(E.rows), "override:head", h)
    for k in range(ctx.budget(120, 2000)):
        glob = rng.random() < 0.4
        o = gen_options(rng, E, glob)
        for key in rng.sample(OVERRIDE_KEYS, rng.choice([1, 1, 2, 3])):
            hi = {"MINIMUM_PERCENT_FED_BEFORE_NONHUMAN_CONSUMPTION_ALLOWED": 100, "RATIO_STOCKS_UNTOUCHED": 1}.get(key, 10)
            r = rng.random()
            if r < 0.7:
                v = rng.uniform(0, hi)
            elif r < 0.8:
                v = rng.choice([0, hi])
            elif r < 0.9:
                v = rng.choice([-0.5, hi * 1.5])
            elif r < 0.95:
                v = "%.3f" % rng.uniform(0, hi)
            else:
                v = "abc"
            if key == "kg_meat_per_large_animal":
                v = rng.choice([150, 212.5, "300", "x"])
            o[key] = v
        if rng.random() < 0.3:
            o[rng.choice(heads)] = rng.randrange(0, 10 ** 6)
        add(o, None if glob else rng.choice(E.rows), "override:numeric")

    lines = ["scen.dispatch %s %s" % (enc_cd(row, E.cols), enc_dict(o)) for o, row, _, _ in cases]
    outs = ctx.lean(lines)
    # the documented dispatch (hand-written table option -> value -> setter) as an op sequence over the specification rows
    rd = Reader(ctx.lean(["scen.specdispatch"])[0])
    spec_disp = []
    for _ in range(rd.nat()):
        opt = rd.str()
        vals = {}
        for _ in range(rd.nat()):
            v = rd.str()
            vals[v] = rd.strs()
        spec_disp.append((opt, vals))
    doc_lines, doc_idx = [], []
    for k, (opts, row, tag, extra) in enumerate(cases):
        if tag not in ("valid", "documented") or (row is not None and row["iso3"] in ("SLV", "ALB", "ECU")):
            continue
        ops, ok = [], True
        for opt, vals in spec_disp:
            names = vals.get(opts.get(opt))
            if names is None or "<exit>" in names:
                ok = False
                break
            ops += [("c", nm) for nm in names]
            if opt == "scale":
                ops += [("w", "COUNTRY_CODE", "WOR" if row is None else row["iso3"]), ("w", "NMONTHS", opts["NMONTHS"])]
        if ok:
            doc_lines.append(seq_line(E, ops, row).replace("scen.seq ", "scen.seqspec ", 1))
            doc_idx.append(k)
    doc_outs = dict(zip(doc_idx, ctx.lean(doc_lines))) if doc_lines else {}
    idx_of = {id(c[0]): k for k, c in enumerate(cases)}
    for (opts, row, tag, extra), out in zip(cases, outs):
        case = {"options": opts, "country": None if row is None else row["iso3"], "kind": tag}
        real, same = real_dispatch(ctx, opts, row)
        parts = out.split(" | ")
        m = read_result(Reader(parts[0]))
        m2 = read_result(Reader(parts[1]))
        if not same:
            ctx.violation("options-mutated", "set_depending_on_option changed the caller's option dictionary", case)
        if (m[0] == "ok") != (m2[0] == "ok"):
            ctx.disagree("two-phase", case, parts[0][:120], parts[1][:120])
        if real[0] == "err":
            if m[0] != "err" or m[1] != real[1]:
                ctx.disagree("dispatch:%s" % tag.split(":")[0], case, "err %s (%s)" % (real[1], str(real[3])[:100]), parts[0][:200])
            ctx.count("dispatch:rejected:" + real[1])
        else:
            _, sc, c, tc = real
            if m[0] != "ok":
                ctx.disagree("dispatch:%s" % tag.split(":")[0], case, "accepted", parts[0][:200])
            else:
                fl = real_flags(sc)
                if fl != m[1]:
                    ctx.disagree("dispatch-flags", case, sorted(fl), sorted(m[1]))
                try:
                    sc.check_all_set()
                    allset = True
                except AssertionError:
                    allset = False
                if allset != m[3]:
                    ctx.disagree("dispatch-check_all_set", case, allset, m[3])
                if not allset:
                    ctx.violation("accepted-but-not-all-set", "set_depending_on_option returned although check_all_set fails", case)
                bad = diff_store(ctx, m[4], flatten(c, tc))
                if bad:
                    ctx.disagree("dispatch-constants", case, [(p, a) for p, a, _ in bad[:4]], [(p, b) for p, _, b in bad[:4]])
            ctx.count("dispatch:accepted")
        # property oracles on the real code
        if real[0] == "ok" and idx_of[id(opts)] in doc_outs:
            dm = read_result(Reader(doc_outs[idx_of[id(opts)]]))
            if dm[0] != "ok":
                ctx.violation("dispatch-deviates-from-documentation", "these options are accepted by the code but the documented dispatch "
                              "(option -> setter table over the specification rows) rejects them: %s" % doc_outs[idx_of[id(opts)]][:100], case)
            else:
                bad = diff_store(ctx, dm[4], flatten(real[2], real[3]))
                if bad:
                    ctx.violation("dispatch-deviates-from-documentation", "with these options the code leaves %s = %r, the documentation says %r"
                                  % bad[0], dict(case, key=bad[0][0]))
                ctx.count("documented-dispatch-executed")
        if tag == "unknown" and real[0] == "ok":
            ctx.violation("unknown-value-accepted", "option %s=%r is not one of the dispatcher's values but was accepted" % (extra, opts[extra]), case)
        if tag == "missing" and real[0] == "ok":
            ctx.violation("missing-option-accepted", "option %s is missing but the options were accepted" % extra, case)
        if tag == "documented" and real[0] != "ok":
            ctx.violation("documented-value-rejected", "documented value %s=%s rejected (%s: %s)" % (extra[0], extra[1], real[1], str(real[3])[:80]), case)
        if tag.startswith("override") and real[0] == "ok":
            check_frame(ctx, E, opts, row, real, case)
        ctx.count("optkind:" + tag.split(":")[0])
        ctx.case(("dispatch", sorted((k, str(v)) for k, v in opts.items()), case["country"]), nontrivial=real[0] == "ok" or tag in ("unknown", "missing"),
                 sample={"options": {k: opts[k] for k in list(opts)[:5]}, "kind": tag, "country": case["country"],
                         "result": "accepted" if real[0] == "ok" else "rejected (%s)" % real[1]})


def check_frame(ctx, E, opts, row, real, case):
    """each numeric override changes the key it names and nothing else (real code, with vs without the override)"""
    named = named_keys(E, opts)
    base_opts = {k: v for k, v in opts.items() if not ("_head" in k or "kg_meat_per_large_animal" in k or k in OVERRIDE_KEYS)}
    base, _ = real_dispatch(ctx, base_opts, row)
    if base[0] != "ok":
        return
    a, b = flatten(base[2], base[3]), flatten(real[2], real[3])
    for p in set(a) | set(b):
        va, vb = a.get(p), b.get(p)
        if p in named:
            continue
        if va is None or vb is None or not (same_val(va, vb) or va[0] == "?" or (va[0] == "l" and vb[0] == "l")):
            ctx.violation("override-changes-other-key", "a numeric override changed %s (%r -> %r), a key it does not name" % (p, va, vb), dict(case, key=p))
            return
    for p, (kind, src) in named.items():
        vb = b.get(p)
        if kind == "head":
            want = float(int(opts[src]))
        elif kind in ("kg", "exact"):
            want = float(opts[src])
        else:
            if p not in a:
                continue
            want = a[p][1] * float(opts[src])
        if vb is None or vb[0] != "n" or not close(vb[1], want, 1e-12, 0.0):
            ctx.violation("override-not-applied", "override %s=%r did not set %s to %r (found %r)" % (src, opts[src], p, want, vb), dict(case, key=p))
            return
    ctx.count("frame-checked")


# ---------------------------------------------------------------------------------------------------------------------
def part_heads(ctx, E):
    """options -> set_depending_on_option -> constants -> animal_populations.main -> the table create_animal_objects sees"""
    rng = ctx.rng
    from src.food_system import animal_populations as ap
    seen = {}
    orig = ap.AnimalModelBuilder.create_animal_objects

    class Stop(Exception):
        pass

    def spy(stock, attrs):
        seen["stock"] = stock.copy()
        raise Stop()
    feed = types.SimpleNamespace(kcals=[0.0] * 12)
    heads = E.meta["heads"]
    lines, meta = [], []
    ap.AnimalModelBuilder.create_animal_objects = spy
    try:
        isos = ["USA", "IND"] if ctx.quick else ["USA", "IND", "DJI", "BRA", "CHN", "FRA"]
        for iso in isos:
            if iso not in E.by_iso:
                continue
            try:
                with ctx.quiet():
                    ap.main(iso, feed, feed, "baseline", constants_inputs={"NMONTHS": 12})
            except Stop:
                pass
            base = seen["stock"]
            for h in heads:
                val = rng.randrange(1, 10 ** 6) * 7 + 1
                o = gen_options(rng, E, False)
                o[h] = val
                res, _ = real_dispatch(ctx, o, E.by_iso[iso])
                case = {"country": iso, "option": h, "value": val}
                if res[0] != "ok":
                    ctx.violation("head-override-rejected", "option %s=%d rejected by the dispatcher (%s)" % (h, val, res[1]), case)
                    continue
                seen.pop("stock", None)
                err = None
                try:
                    with ctx.quiet():
                        ap.main(iso, feed, feed, "baseline", constants_inputs=res[2])
                except Stop:
                    pass
                except BaseException as e:  # noqa
                    err = e
                st = seen.get("stock")
                if st is None:
                    ctx.violation("head-override-not-applied", "herd loader failed before building the herds for %s (%s)" % (h, err), case)
                    continue
                got = st.get(h)
                others_same = list(st.index) == list(base.index) and all(
                    (st[c] == base[c]) or (isinstance(st[c], float) and isinstance(base[c], float) and math.isnan(st[c]) and math.isnan(base[c]))
                    for c in base.index if c != h)
                if got is None or float(got) != float(val) or not others_same:
                    extra = [c for c in st.index if c not in base.index]
                    ctx.violation("head-override-not-applied",
                                  "option %s=%d did not reach column %s of the head-count table the herds are built from (found %r; extra columns %r)"
                                  % (h, val, h, got, extra), case)
                lines.append("scen.headkey %s" % enc_str(h))
                meta.append((h, res[2]))
                ctx.case(("head", iso, h), sample={"head_override": h, "country": iso, "value": val, "column_seen_by_herd_builder": None if got is None else float(got)})
                ctx.count("head-override-followed")
    finally:
        ap.AnimalModelBuilder.create_animal_objects = orig
    # model: option key -> constants key -> column
    outs = ctx.lean(lines) if lines else []
    lines2 = []
    for (h, consts), o in zip(meta, outs):
        rd = Reader(o)
        key = rd.str() if rd.tok() == "some" else None
        if key is None or key not in consts:
            ctx.disagree("head-constants-key", {"option": h}, [k for k in consts if "_head" in k], key)
        lines2.append("scen.loader %s" % enc_str(key or h))
    outs2 = ctx.lean(lines2) if lines2 else []
    for (h, _), o in zip(meta, outs2):
        rd = Reader(o)
        col = rd.str() if rd.tok() == "some" else None
        if col != h:
            ctx.disagree("head-loader-column", {"option": h}, h, col)
    # Python's own str.strip vs the model's (the recorded counter-example is about this function)
    samples = [("_start", h + "_start") for h in heads] + [("_start", "start_x_tars"), ("ab", "abcabcab"), ("", "abc"), ("xyz", "")]
    outs3 = ctx.lean(["scen.strip %s %s" % (enc_str(c), enc_str(s)) for c, s in samples])
    for (c, s), o in zip(samples, outs3):
        want = s.strip(c) if c else s       # strip("") strips nothing
        if wire.dec_str(o) != want:
            ctx.disagree("pyStrip", {"chars": c, "s": s}, want, wire.dec_str(o))


def part_full_runs(ctx, E):
    """an override must hold in EVERY round: full three-round runs of the real pipeline with head-count and carcass-weight overrides; every herd
    simulation of the run (no-feed round, feed round, final round) has to start from the overridden head count and use the overridden weight"""
    from lib import pipeline
    rng = ctx.rng
    heads = E.meta["heads"]
    cases = [("ARG", {"chicken_head": 0}), ("IRL", {"milk_cattle_head": 500000})]
    for _ in range(ctx.budget(1, 6)):
        cases.append((rng.choice(["USA", "IND", "BRA", "FRA", "KEN", "MNG"]), {rng.choice(heads): rng.randrange(1, 10 ** 6) * 7 + 1}))
    for iso, ov in cases:
        if rng.random() < 0.5:
            ov = dict(ov, kg_meat_per_large_animal=float(rng.choice([250, 350, 410])))
        opts = pipeline.options(NMONTHS=48, shutoff=rng.choice(["long_delayed_shutoff", "continued"]), **ov)
        run = pipeline.run_scenario(iso, opts)
        case = {"country": iso, "overrides": ov, "options": {k: v for k, v in opts.items() if pipeline.BASE_OPTIONS.get(k) != v}}
        if run.error and not run.herds:
            ctx.count("full-run-error:" + run.error.split(":")[0])
            continue
        # the first herd simulation is the one part_heads follows the override into; the later ones have to start from the same herds
        start0 = None
        for j, (h, a, kw) in enumerate(run.herds):
            # the head count a species object was built with (the month lists lose their first entry after the run)
            start = {sp.animal_type: float(getattr(sp, "initital_population")) for sp in h.all_animals if hasattr(sp, "initital_population")}
            if len(start) != len(h.all_animals):
                ctx.count("initial-head-count-not-observable")
                continue
            if start0 is None:
                start0 = start
            for key, val in ov.items():
                if key.endswith("_head") and key[: -len("_head")] in start and start[key[: -len("_head")]] != float(val):
                    ctx.violation("override-not-in-every-round", "%s: herd simulation %d of %d of the run is built with %r %s although the option %s=%r was given" % (
                        iso, j + 1, len(run.herds), start[key[: -len("_head")]], key[: -len("_head")], key, val), dict(case, herd_index=j))
            for key, val in ov.items():
                if key.endswith("_head"):
                    sp = key[: -len("_head")]
                    if start.get(sp) != start0.get(sp):
                        ctx.violation("override-not-in-every-round", "%s: herd simulation %d of %d of the run starts %s at %r, the first one at %r (option %s=%r)" % (
                            iso, j + 1, len(run.herds), sp, start.get(sp), start0.get(sp), key, val), dict(case, herd_index=j))
                    elif sp not in start and float(val) > 0:
                        ctx.count("override-species-absent-from-herd")
            if start != start0:
                ctx.count("herd-simulations-starting-from-different-herds")
            if "kg_meat_per_large_animal" in ov:
                ci = (kw.get("constants_inputs") if "constants_inputs" in kw else (a[5] if len(a) > 5 else None)) or {}
                got = ci.get("kg_meat_per_large_animal")
                if got is None or float(got) != float(ov["kg_meat_per_large_animal"]):
                    ctx.violation("override-not-in-every-round", "%s: herd simulation %d of %d of the run is built without the option kg_meat_per_large_animal=%r (sees %r)" % (
                        iso, j + 1, len(run.herds), ov["kg_meat_per_large_animal"], got), dict(case, herd_index=j))
        ctx.case(("full-run-override", iso, tuple(sorted(ov.items()))), nontrivial=len(run.herds) >= 2,
                 sample={"country": iso, "overrides": ov, "herd_simulations": len(run.herds), "rounds_solved": len(run.solves)})
        ctx.count("full-runs-with-overrides")
        ctx.count("full-run-herd-simulations", len(run.herds))


def part_enforcement(ctx, E):
    """'a missing option is rejected before any computation' also where the computation starts: the parameters stage refuses a scenario
    loader on which some option family was never set (constants from a real dispatch, one *_SET flag of the loader cleared)"""
    from src.scenarios.run_scenario import ScenarioRunner
    from src.optimizer.parameters import Parameters
    from src.food_system.food import Food
    from lib import pipeline
    rng = ctx.rng
    with ctx.quiet():
        c, tc, sl = ScenarioRunner().set_depending_on_option(dict(pipeline.options(NMONTHS=48)), country_data=E.by_iso["ARG"])
    flags = sorted(k for k, v in vars(sl).items() if k.endswith("_SET") and v is True)
    for flag in rng.sample(flags, min(len(flags), ctx.budget(4, len(flags)))):
        setattr(sl, flag, False)
        calls = []
        orig = Parameters.init_scenario if hasattr(Parameters, "init_scenario") else None
        conv_before = Food.conversions
        outcome = "completed"
        try:
            with ctx.quiet():
                Parameters().compute_parameters_first_round(c, tc, sl)
        except AssertionError:
            outcome = "rejected"
        except BaseException as e:  # noqa
            outcome = "raised " + type(e).__name__
        finally:
            setattr(sl, flag, True)
        if outcome != "rejected":
            ctx.violation("missing-family-not-rejected", "a scenario loader with %s unset is accepted by Parameters.compute_parameters_first_round (%s) instead of being rejected "
                          "before any computation" % (flag, outcome), {"flag": flag, "outcome": outcome})
        elif Food.conversions is not conv_before:
            ctx.violation("missing-family-rejected-late", "the loader with %s unset is rejected only after the process-wide unit settings were replaced" % flag, {"flag": flag})
        ctx.case(("enforcement", flag), nontrivial=True, sample={"flag_cleared": flag, "outcome": outcome})
        ctx.count("enforcement:" + outcome)


def part_pairwise_acceptance(ctx, E):
    """'every supported option value is accepted': every PAIR of supported values of two option families (a covering array of ~70 option sets) goes through
    the dispatcher and the parameters stage without being rejected, for one country that rotates with the seed"""
    from src.scenarios.run_scenario import ScenarioRunner
    from src.optimizer.parameters import Parameters
    from lib import pipeline, lpcheck
    rng = ctx.rng
    space = {k: v for k, v in lpcheck.OPTION_SPACE.items()}
    sets = pipeline.pairwise_sets(space, rng, base=pipeline.BASE_OPTIONS)
    isos = sorted(E.by_iso)
    for iso in [rng.choice(isos) for _ in range(ctx.budget(1, 4))]:
        for o in sets:
            case = {"country": iso, "options": {k: v for k, v in o.items() if pipeline.BASE_OPTIONS.get(k) != v}}
            try:
                with ctx.quiet():
                    c, tc, sl = ScenarioRunner().set_depending_on_option(dict(o), country_data=E.by_iso[iso])
                    Parameters().compute_parameters_first_round(c, tc, sl)
                ctx.count("pairwise-acceptance:accepted")
            except BaseException as e:  # noqa
                if isinstance(e, KeyboardInterrupt):
                    raise
                ctx.violation("supported-values-rejected", "%s: an option set made of supported values only is rejected (%s: %s): %s" % (
                    iso, type(e).__name__, str(e)[:120], case["options"]), case)
            ctx.case(("pairwise", iso, tuple(sorted((k, str(v)) for k, v in case["options"].items()))), nontrivial=True)
    ctx.extra["pairwise_option_sets"] = len(sets)


def correspondence(ctx):
    E = setup(ctx)
    part_sequences(ctx, E)
    part_dispatch(ctx, E)
    part_heads(ctx, E)
    part_full_runs(ctx, E)
    part_enforcement(ctx, E)
    part_pairwise_acceptance(ctx, E)


def search(ctx):
    """a proof or the tie broke: look harder for a concrete failing input on the real code (more cases, same oracles)"""
    if ctx.violations:
        return
    ctx.tier, ctx.quick = ctx.tier, True
    E = setup(ctx)
    for part in (part_sequences, part_dispatch, part_heads, part_full_runs, part_enforcement):
        try:
            part(ctx, E)
        except Exception as e:  # the model may no longer match the table; the oracles above do not depend on it
            ctx.notes.append("search: %s stopped: %s: %s" % (part.__name__, type(e).__name__, str(e)[:200]))
        if ctx.violations:
            return


def replay(ctx, rep):
    n0 = len(ctx.violations)
    try:
        for tr in TRANSLATORS:
            tr(ctx)
    except Exception:
        pass
    correspondence(ctx)
    return len(ctx.violations) > n0, ctx.violations[n0:n0 + 3]
