import sys, time, os, io, contextlib, json
os.chdir('/repo'); sys.path.insert(0,'/repo')
import matplotlib; matplotlib.use('Agg')
import numpy as np, pandas as pd, warnings
warnings.filterwarnings('ignore')
from src.scenarios.run_scenario import ScenarioRunner
from src.optimizer.optimizer import Optimizer
import pulp
cap=[]
# capture the model right after first-stage build (before tie-break rows) by wrapping run_optimizations_on_constraints
_ro=Optimizer.run_optimizations_on_constraints
def ro(self,model,variables,consts,optimization_type):
    snap={n:(dict((v.name,c) for v,c in con.items()), con.sense, con.constant) for n,con in model.constraints.items()}
    obj=dict((v.name,c) for v,c in model.objective.items())
    z=_ro(self,model,variables,consts,optimization_type)
    cap.append(dict(kind=optimization_type,rows=snap,obj=obj,z=z,vars={v.name:v.varValue for v in model.variables()},nrows_final=len(model.constraints),opt=self))
    return z
Optimizer.run_optimizations_on_constraints=ro
tab=pd.read_csv('/repo/data/no_food_trade/computer_readable_combined.csv')
rows={r['iso3']:r for _,r in tab.iterrows()}
base=dict(scale='country',seasonality='country',grasses='country_nuclear_winter',crop_disruption='country_nuclear_winter',
 scenario='all_resilient_foods',fish='nuclear_winter',waste='baseline_in_country',nutrition='catastrophe',intake_constraints='enabled',
 stored_food='baseline',ratio_stocks_untouched='zero',shutoff='long_delayed_shutoff',cull='do_eat_culled',fat='not_required',protein='not_required',meat_strategy='reduce_breeding',NMONTHS=120)
for kv in sys.argv[2:]:
    k,v=kv.split('='); base[k]=v
iso=sys.argv[1]
row=rows[iso]; sr=ScenarioRunner()
with contextlib.redirect_stdout(io.StringIO()) as so:
    c,tc,sl=sr.set_depending_on_option(base,country_data=row)
    res=sr.run_and_analyze_scenario(c,tc,sl,False,False,'',row,False,row['country'],iso,title='scratch_'+iso)
from scipy.optimize import linprog
from scipy.sparse import lil_matrix
for cp in cap:
    rows_=cp['rows']; names=sorted({v for r in rows_.values() for v in r[0]}|set(cp['obj']))
    idx={n:i for i,n in enumerate(names)}
    Aub=[];bub=[];Aeq=[];beq=[]
    nub=sum(1 for r in rows_.values() if r[1]!=0); neq=len(rows_)-nub
    Au=lil_matrix((nub,len(names))); Ae=lil_matrix((neq,len(names))); iu=ie=0; bu=[];be=[]
    for n,(co,sense,const) in rows_.items():
        # pulp: sum co*x + const (sense) 0 ; sense -1: <=, 1: >=, 0: ==
        if sense==0:
            for v,a in co.items(): Ae[ie,idx[v]]=a
            be.append(-const); ie+=1
        else:
            s = 1 if sense==-1 else -1
            for v,a in co.items(): Au[iu,idx[v]]=s*a
            bu.append(-s*const); iu+=1
    cvec=np.zeros(len(names))
    for v,a in cp['obj'].items(): cvec[idx[v]]=-a
    t=time.time()
    r=linprog(cvec,A_ub=Au.tocsr(),b_ub=bu,A_eq=Ae.tocsr(),b_eq=be,bounds=(0,None),method='highs')
    print(cp['kind'],'rows',len(rows_),'final rows',cp['nrows_final'],'vars',len(names),'CBC z',cp['z'],'HiGHS',-r.fun if r.status==0 else r.message,'t %.2f'%(time.time()-t), 'senses', {s:sum(1 for x in rows_.values() if x[1]==s) for s in (-1,0,1)})
    if r.status==0:
        y_ub=r.ineqlin.marginals; y_eq=r.eqlin.marginals
        dualobj=-(np.dot(y_ub,bu)+np.dot(y_eq,be))
        red = cvec - (Au.T@y_ub + Ae.T@y_eq)
        print('   dual obj',dualobj,'min reduced cost',red.min(), 'max y_ub',y_ub.max())
