import AllfedModel.Model.Handoff
import Driver.Wire
open Wire Allfed Allfed.Handoff

namespace Ops.Handoff

def fillMonthOp : P String := do
  let cap ← float; let foods ← floats
  pure (outFs (fillMonth cap foods))

def dailyMaxOp : P String := do
  let kd ← float; let p1 ← float; let t ← float
  pure (outF (dailyMax kd p1 t))

def fillNegOp : P String := do
  let arr ← floats
  pure (outFs (fillNeg arr))

def redistributeOp : P String := do
  let r1 ← floats; let r2 ← floats
  match redistribute r1 r2 with
  | none => pure "none"
  | some l => pure ("some " ++ outFs l)

def bumpOp : P String := do
  let b ← floats; let f ← floats; let inc ← floats; let mb ← floats; let mf ← floats; let av ← floats
  let rec go : List Float → List Float → List Float → List Float → List Float → List Float → List (BumpIn Float)
    | b :: bs, f :: fs, i :: is, mb :: mbs, mf :: mfs, a :: as => ⟨b, f, i, mb, mf, a⟩ :: go bs fs is mbs mfs as
    | _, _, _, _, _, _ => []
  let r := bump (go b f inc mb mf av)
  pure (outFs (r.map (·.1)) ++ " " ++ outFs (r.map (·.2)))

/-- handoff.increase <u> <const> <meat round 1> <meat round 3> → the potential increase per month -/
def increaseOp : P String := do
  let u ← float; let c ← float; let m1 ← floats; let m3 ← floats
  pure (outFs (thirdRoundIncrease u c m1 m3))

/-- handoff.nzlConst <country code> → the constant of the rule of thumb -/
def nzlConstOp : P String := do
  let code ← str
  pure (outF (nzlConst code))

/-- handoff.bumpAll <biofuel> <feed> <increase> <maxB> <maxF> <avail> → biofuel', feed' -/
def bumpAllOp : P String := do
  let b ← floats; let f ← floats; let inc ← floats; let mb ← floats; let mf ← floats; let av ← floats
  let r := bumpAll b f inc mb mf av
  pure (outFs (r.map (·.1)) ++ " " ++ outFs (r.map (·.2)))

def ops : List (String × P String) :=
  [("handoff.fillMonth", fillMonthOp), ("handoff.dailyMax", dailyMaxOp), ("handoff.fillNeg", fillNegOp),
   ("handoff.redistribute", redistributeOp), ("handoff.bump", bumpOp), ("handoff.increase", increaseOp),
   ("handoff.nzlConst", nzlConstOp), ("handoff.bumpAll", bumpAllOp)]

end Ops.Handoff
