import AllfedModel.Model.Aggregate
import Mathlib.Algebra.Order.Field.Basic
import Mathlib.Algebra.Order.Field.Rat
import Mathlib.Algebra.BigOperators.Group.List.Basic
import Mathlib.Algebra.Order.BigOperators.Group.List
import Mathlib.Data.List.Nodup
import Mathlib.Data.List.Count
import Mathlib.Tactic.Linarith
import Mathlib.Tactic.Ring
import Mathlib.Tactic.FieldSimp
import Mathlib.Tactic.NormNum
import Mathlib.Tactic.Positivity
/-!
# Helper lemmas and proofs for property C15 (aggregate fed fraction, country selection)

Everything numeric is proved over an arbitrary linearly ordered field `K`; lists have any length.
-/
namespace Allfed.Proofs.Aggregate
open Allfed Allfed.Aggregate

set_option linter.unusedSectionVars false
set_option linter.unusedVariables false

/-! ## selection -/

theorem runAndSkip_nil : runAndSkip [] = ([], []) := rfl

theorem runAndSkip_allBang (l : List String) (hne : l ≠ []) (h : ∀ c ∈ l, hasBang c = true) :
    runAndSkip l = ([], l.map stripBang) := by
  unfold runAndSkip
  have h1 : l.isEmpty = false := by cases l <;> simp_all
  have h2 : l.all hasBang = true := by simpa [List.all_eq_true] using h
  have h3 : l.filter hasBang = l := List.filter_eq_self.mpr h
  simp [h1, h2, h3]

theorem runAndSkip_mixed (l : List String) (h : ∃ c ∈ l, hasBang c = false) :
    runAndSkip l = (l.filter (fun c => !hasBang c), []) := by
  unfold runAndSkip
  obtain ⟨c, hc, hb⟩ := h
  have h1 : l.isEmpty = false := by cases l <;> simp_all
  have h2 : l.all hasBang = false := by
    rw [Bool.eq_false_iff]
    intro hall
    rw [List.all_eq_true] at hall
    have := hall c hc
    simp [hb] at this
  simp [h1, h2]

theorem select_nil (table : List String) : select [] table = table := by
  unfold select
  rw [runAndSkip_nil]
  apply List.filter_eq_self.mpr
  intro a _
  simp [selected]

theorem select_allBang (l table : List String) (hne : l ≠ []) (h : ∀ c ∈ l, hasBang c = true) :
    select l table = table.filter (fun code => !(l.map stripBang).contains code) := by
  unfold select
  rw [runAndSkip_allBang l hne h]
  apply List.filter_congr
  intro a _
  simp [selected]

theorem select_mixed (l table : List String) (h : ∃ c ∈ l, hasBang c = false) :
    select l table = table.filter (fun code => (l.filter (fun c => !hasBang c)).contains code) := by
  unfold select
  rw [runAndSkip_mixed l h]
  obtain ⟨c, hc, hb⟩ := h
  have hne : (l.filter (fun c => !hasBang c)).isEmpty = false := by
    rw [List.isEmpty_eq_false_iff]
    intro hnil
    have : c ∈ l.filter (fun c => !hasBang c) := by simp [List.mem_filter, hc, hb]
    rw [hnil] at this
    simp at this
  apply List.filter_congr
  intro a _
  simp only [selected, hne, Bool.false_or, List.contains_nil, Bool.not_false, Bool.and_true]

theorem mem_select_mixed (l table : List String) (h : ∃ c ∈ l, hasBang c = false) (code : String) :
    code ∈ select l table ↔ code ∈ table ∧ code ∈ l ∧ hasBang code = false := by
  rw [select_mixed l table h]
  simp [List.mem_filter]

theorem mem_select_allBang (l table : List String) (hne : l ≠ []) (h : ∀ c ∈ l, hasBang c = true) (code : String) :
    code ∈ select l table ↔ code ∈ table ∧ ∀ c ∈ l, stripBang c ≠ code := by
  rw [select_allBang l table hne h]
  simp [List.mem_filter]

theorem select_sublist (l table : List String) : (select l table).Sublist table :=
  List.filter_sublist

theorem select_nodup (l table : List String) (hn : table.Nodup) : (select l table).Nodup :=
  hn.sublist (select_sublist l table)

theorem select_count (l table : List String) (hn : table.Nodup) (code : String) :
    (select l table).count code = if code ∈ table ∧ selected (runAndSkip l) code = true then 1 else 0 := by
  have hnd := select_nodup l table hn
  by_cases hm : code ∈ select l table
  · have := List.count_eq_one_of_mem hnd hm
    unfold select at hm
    rw [List.mem_filter] at hm
    rw [this, if_pos hm]
  · have := List.count_eq_zero_of_not_mem hm
    unfold select at hm
    rw [List.mem_filter] at hm
    rw [this, if_neg hm]

/-! ### the well-formed `!CODE` syntax -/

theorem hasBang_bang_append (x : String) : hasBang ("!" ++ x) = true := by
  unfold hasBang
  simp [String.toList_append]

theorem stripBang_bang_append (x : String) (hx : hasBang x = false) : stripBang ("!" ++ x) = x := by
  unfold stripBang
  unfold hasBang at hx
  have hf : x.toList.filter (fun ch => ch != '!') = x.toList := by
    apply List.filter_eq_self.mpr
    intro a ha
    simp only [bne_iff_ne, ne_eq]
    intro hEq
    subst hEq
    simp [ha] at hx
  simp [String.toList_append, hf]

/-- an exclusion list written `["!A", "!B", …]` runs exactly the rows whose code is not `A`, `B`, … -/
theorem select_exclusion (xs table : List String) (hne : xs ≠ []) (hx : ∀ x ∈ xs, hasBang x = false) :
    select (xs.map ("!" ++ ·)) table = table.filter (fun code => !xs.contains code) := by
  have hall : ∀ c ∈ xs.map ("!" ++ ·), hasBang c = true := by
    intro c hc
    rw [List.mem_map] at hc
    obtain ⟨x, _, rfl⟩ := hc
    exact hasBang_bang_append x
  have hne' : xs.map ("!" ++ ·) ≠ [] := by simpa using hne
  rw [select_allBang _ table hne' hall]
  have hmap : (xs.map ("!" ++ ·)).map stripBang = xs := by
    rw [List.map_map]
    conv_rhs => rw [← List.map_id xs]
    apply List.map_congr_left
    intro x hxm
    simp [stripBang_bang_append x (hx x hxm)]
  rw [hmap]

/-- an inclusion list without any '!' runs exactly the rows whose code is named -/
theorem select_inclusion (xs table : List String) (hne : xs ≠ []) (hx : ∀ x ∈ xs, hasBang x = false) :
    select xs table = table.filter (fun code => xs.contains code) := by
  have hex : ∃ c ∈ xs, hasBang c = false := by
    cases xs with
    | nil => exact absurd rfl hne
    | cons a t => exact ⟨a, by simp, hx a (by simp)⟩
  rw [select_mixed xs table hex]
  have : xs.filter (fun c => !hasBang c) = xs := by
    apply List.filter_eq_self.mpr
    intro a ha
    simp [hx a ha]
  rw [this]

/-! ## the weighted mean -/

variable {K : Type} [Field K] [LinearOrder K] [IsStrictOrderedRing K]

theorem cap_eq_min (r : K) : cap r = min 1 r := by
  unfold cap
  split_ifs with h
  · exact (min_eq_left h).symm
  · exact (min_eq_right (not_le.mp h).le).symm

theorem foldl_fed (l : List (K × K)) (a : K) :
    l.foldl (fun acc x => acc + cap x.2 * x.1) a = a + (l.map (fun x => x.1 * min 1 x.2)).sum := by
  induction l generalizing a with
  | nil => simp
  | cons x t ih =>
    simp only [List.foldl_cons, List.map_cons, List.sum_cons]
    rw [ih, cap_eq_min]
    ring

theorem foldl_pop (l : List (K × K)) (a : K) :
    l.foldl (fun acc x => acc + x.1) a = a + (l.map Prod.fst).sum := by
  induction l generalizing a with
  | nil => simp
  | cons x t ih =>
    simp only [List.foldl_cons, List.map_cons, List.sum_cons]
    rw [ih]
    ring

theorem aggregate_value (l : List (K × K)) :
    aggregate l = (l.map (fun x => x.1 * min 1 x.2)).sum / (l.map Prod.fst).sum := by
  unfold aggregate
  rw [foldl_fed, foldl_pop]
  simp

theorem sum_pop_pos (l : List (K × K)) (hne : l ≠ []) (h : ∀ x ∈ l, 0 < x.1 ∧ 0 ≤ x.2) :
    0 < (l.map Prod.fst).sum := by
  induction l with
  | nil => exact absurd rfl hne
  | cons x t ih =>
    simp only [List.map_cons, List.sum_cons]
    have hx := (h x (by simp)).1
    by_cases ht : t = []
    · subst ht; simpa using hx
    · have := ih ht (fun y hy => h y (by simp [hy]))
      linarith

theorem sum_fed_bounds (l : List (K × K)) (h : ∀ x ∈ l, 0 < x.1 ∧ 0 ≤ x.2) :
    0 ≤ (l.map (fun x => x.1 * min 1 x.2)).sum ∧
    (l.map (fun x => x.1 * min 1 x.2)).sum ≤ (l.map Prod.fst).sum := by
  induction l with
  | nil => simp
  | cons x t ih =>
    simp only [List.map_cons, List.sum_cons]
    obtain ⟨hp, hf⟩ := h x (by simp)
    obtain ⟨i1, i2⟩ := ih (fun y hy => h y (by simp [hy]))
    have hm0 : 0 ≤ min 1 x.2 := le_min zero_le_one hf
    have hm1 : min 1 x.2 ≤ 1 := min_le_left _ _
    have h0 : 0 ≤ x.1 * min 1 x.2 := mul_nonneg hp.le hm0
    have h1 : x.1 * min 1 x.2 ≤ x.1 := by nlinarith
    constructor <;> linarith

theorem aggregate_bounds (l : List (K × K)) (hne : l ≠ []) (h : ∀ x ∈ l, 0 < x.1 ∧ 0 ≤ x.2) :
    0 ≤ aggregate l ∧ aggregate l ≤ 1 := by
  rw [aggregate_value]
  have hpos := sum_pop_pos l hne h
  obtain ⟨h0, h1⟩ := sum_fed_bounds l h
  constructor
  · exact div_nonneg h0 hpos.le
  · rw [div_le_one hpos]; exact h1

/-- the aggregate is 1 exactly when every country is fully fed -/
theorem aggregate_eq_one_of_all_fed (l : List (K × K)) (hne : l ≠ []) (h : ∀ x ∈ l, 0 < x.1 ∧ 1 ≤ x.2) :
    aggregate l = 1 := by
  rw [aggregate_value]
  have hpos : 0 < (l.map Prod.fst).sum :=
    sum_pop_pos l hne (fun x hx => ⟨(h x hx).1, le_trans zero_le_one (h x hx).2⟩)
  have : l.map (fun x => x.1 * min 1 x.2) = l.map Prod.fst := by
    apply List.map_congr_left
    intro x hx
    rw [min_eq_left (h x hx).2, mul_one]
  rw [this, div_self hpos.ne']

/-! ## the loop -/

/-- the rows that are run and return a number -/
def ranRows (l : List String) (table : List (Country K)) (frac : Country K → Option K) : List (Country K) :=
  table.filter (fun c => selected (runAndSkip l) c.iso3 && (frac c).isSome)

theorem ran_cons (l : List String) (c : Country K) (t : List (Country K)) (frac : Country K → Option K) :
    ran l (c :: t) frac =
      (if selected (runAndSkip l) c.iso3 = true then
        (match frac c with | none => [] | some r => [(c.pop, r)]) else []) ++ ran l t frac := by
  unfold ran
  by_cases hs : selected (runAndSkip l) c.iso3 = true
  · cases hf : frac c <;> simp [hs, hf]
  · simp [hs]

theorem foldl_step (rs : List String × List String) (frac : Country K → Option K)
    (table : List (Country K)) (acc : Outcome K) :
    let out := table.foldl (step rs frac) acc
    let rows := table.filter (fun c => selected rs c.iso3 && (frac c).isSome)
    let prs := (table.filter (fun c => selected rs c.iso3)).filterMap (fun c => (frac c).map (fun r => (c.pop, r)))
    out.netPop = acc.netPop + (prs.map Prod.fst).sum ∧
    out.netPopFed = acc.netPopFed + (prs.map (fun x => x.1 * min 1 x.2)).sum ∧
    out.keys = (rows.map (·.name)).foldl dictInsert acc.keys := by
  induction table generalizing acc with
  | nil => simp
  | cons c t ih =>
    simp only [List.foldl_cons]
    by_cases hs : selected rs c.iso3 = true
    · cases hf : frac c with
      | none =>
        have hstep : step rs frac acc c = acc := by simp [step, hs, hf]
        rw [hstep]
        have := ih acc
        simpa [List.filter_cons, hs, hf] using this
      | some r =>
        let acc' : Outcome K := ⟨acc.netPop + c.pop, acc.netPopFed + cap r * c.pop, dictInsert acc.keys c.name⟩
        have hstep : step rs frac acc c = acc' := by simp [step, hs, hf, acc']
        rw [hstep]
        obtain ⟨i1, i2, i3⟩ := ih acc'
        simp only [List.filter_cons, hs, hf, Bool.true_and, Option.isSome_some, if_true,
          List.filterMap_cons, Option.map_some, List.map_cons, List.sum_cons, List.foldl_cons]
        refine ⟨?_, ?_, ?_⟩
        · rw [i1]; simp only [acc']; ring
        · rw [i2]; simp only [acc']; rw [cap_eq_min]; ring
        · exact i3
    · have hstep : step rs frac acc c = acc := by simp [step, hs]
      rw [hstep]
      have := ih acc
      simpa [List.filter_cons, hs] using this

theorem runLoop_netPop (l : List String) (table : List (Country K)) (frac : Country K → Option K) :
    (runLoop l table frac).netPop = ((ran l table frac).map Prod.fst).sum := by
  have := (foldl_step (runAndSkip l) frac table { netPop := 0, netPopFed := 0, keys := [] }).1
  simpa [runLoop, ran] using this

theorem runLoop_netPopFed (l : List String) (table : List (Country K)) (frac : Country K → Option K) :
    (runLoop l table frac).netPopFed = ((ran l table frac).map (fun x => x.1 * min 1 x.2)).sum := by
  have := (foldl_step (runAndSkip l) frac table { netPop := 0, netPopFed := 0, keys := [] }).2.1
  simpa [runLoop, ran] using this

theorem runLoop_keys_fold (l : List String) (table : List (Country K)) (frac : Country K → Option K) :
    (runLoop l table frac).keys = ((ranRows l table frac).map (·.name)).foldl dictInsert [] := by
  have := (foldl_step (runAndSkip l) frac table { netPop := 0, netPopFed := 0, keys := [] }).2.2
  simpa [runLoop, ranRows] using this

theorem runLoop_ratio (l : List String) (table : List (Country K)) (frac : Country K → Option K) :
    (runLoop l table frac).netPopFed / (runLoop l table frac).netPop = aggregate (ran l table frac) := by
  rw [runLoop_netPop, runLoop_netPopFed, aggregate_value]

/-! ## the keys of `results` -/

theorem foldl_dictInsert_nodup (names acc : List String) (h : (acc ++ names).Nodup) :
    names.foldl dictInsert acc = acc ++ names := by
  induction names generalizing acc with
  | nil => simp
  | cons n t ih =>
    simp only [List.foldl_cons]
    have hn : n ∉ acc := by
      intro hmem
      rw [List.nodup_append] at h
      exact h.2.2 n hmem n (by simp) rfl
    have hd : dictInsert acc n = acc ++ [n] := by
      unfold dictInsert
      simp [hn]
    rw [hd, ih (acc ++ [n]) (by simpa using h)]
    simp

theorem dictInsert_nodup (acc : List String) (k : String) (h : acc.Nodup) : (dictInsert acc k).Nodup := by
  unfold dictInsert
  by_cases hk : k ∈ acc
  · simp [hk, h]
  · simp only [List.contains_iff_mem, hk, if_false]
    rw [List.nodup_append]
    refine ⟨h, by simp, ?_⟩
    intro a ha b hb
    simp only [List.mem_singleton] at hb
    subst hb
    intro hEq
    subst hEq
    exact hk ha

theorem foldl_dictInsert_nodup' (names acc : List String) (h : acc.Nodup) :
    (names.foldl dictInsert acc).Nodup := by
  induction names generalizing acc with
  | nil => simpa using h
  | cons n t ih => exact ih _ (dictInsert_nodup acc n h)

/-- whatever the table: a key never occurs twice in `results` (it is a dict) -/
theorem runLoop_keys_nodup (l : List String) (table : List (Country K)) (frac : Country K → Option K) :
    (runLoop l table frac).keys.Nodup := by
  rw [runLoop_keys_fold]
  exact foldl_dictInsert_nodup' _ [] List.nodup_nil

/-- with unique country names the keys are exactly the names of the rows that ran, in table order -/
theorem runLoop_keys (l : List String) (table : List (Country K)) (frac : Country K → Option K)
    (hn : (table.map (·.name)).Nodup) :
    (runLoop l table frac).keys = (ranRows l table frac).map (·.name) := by
  rw [runLoop_keys_fold]
  have hsub : ((ranRows l table frac).map (·.name)).Sublist (table.map (·.name)) :=
    List.Sublist.map _ List.filter_sublist
  have := foldl_dictInsert_nodup ((ranRows l table frac).map (·.name)) [] (by simpa using hn.sublist hsub)
  simpa using this

theorem runLoop_keys_count (l : List String) (table : List (Country K)) (frac : Country K → Option K)
    (hn : (table.map (·.name)).Nodup) (c : Country K) (hc : c ∈ table) :
    (runLoop l table frac).keys.count c.name =
      if selected (runAndSkip l) c.iso3 = true ∧ (frac c).isSome = true then 1 else 0 := by
  rw [runLoop_keys l table frac hn]
  have hsub : ((ranRows l table frac).map (·.name)).Sublist (table.map (·.name)) :=
    List.Sublist.map _ List.filter_sublist
  have hnd := hn.sublist hsub
  by_cases hr : selected (runAndSkip l) c.iso3 = true ∧ (frac c).isSome = true
  · rw [if_pos hr]
    apply List.count_eq_one_of_mem hnd
    rw [List.mem_map]
    refine ⟨c, ?_, rfl⟩
    unfold ranRows
    rw [List.mem_filter]
    exact ⟨hc, by simp [hr.1, hr.2]⟩
  · rw [if_neg hr]
    apply List.count_eq_zero_of_not_mem
    intro hmem
    rw [List.mem_map] at hmem
    obtain ⟨d, hd, hname⟩ := hmem
    unfold ranRows at hd
    rw [List.mem_filter] at hd
    have hdc : d = c := by
      have hinj := List.inj_on_of_nodup_map hn
      exact hinj hd.1 hc hname
    subst hdc
    apply hr
    simpa using hd.2

end Allfed.Proofs.Aggregate
