import sys, os, io, contextlib
os.chdir('/repo'); sys.path.insert(0,'/repo')
import matplotlib; matplotlib.use('Agg')
import numpy as np, pandas as pd, warnings
warnings.filterwarnings('ignore')
from src.scenarios.run_scenario import ScenarioRunner
cap=[]
_io=ScenarioRunner.interpret_optimizer_results
def io_(self,c,model,variables,tc,interp,pfm,optimization_type,title='U'):
    r=_io(self,c,model,variables,tc,interp,pfm,optimization_type,title); cap.append((optimization_type,pfm,r,variables,c,title)); return r
ScenarioRunner.interpret_optimizer_results=io_
tab=pd.read_csv('/repo/data/no_food_trade/computer_readable_combined.csv')
rows={r['iso3']:r for _,r in tab.iterrows()}
base=dict(scale='country',seasonality='country',grasses='country_nuclear_winter',crop_disruption='country_nuclear_winter',
 scenario='all_resilient_foods',fish='nuclear_winter',waste='baseline_in_country',nutrition='catastrophe',intake_constraints='enabled',
 stored_food='baseline',ratio_stocks_untouched='zero',shutoff='long_delayed_shutoff',cull='do_eat_culled',fat='not_required',protein='not_required',meat_strategy='reduce_breeding',NMONTHS=120)
iso=sys.argv[1]; row=rows[iso]; sr=ScenarioRunner()
with contextlib.redirect_stdout(io.StringIO()):
    c,tc,sl=sr.set_depending_on_option(base,country_data=row)
    res=sr.run_and_analyze_scenario(c,tc,sl,False,False,'',row,False,row['country'],iso,title='scratch_'+iso)
for typ,pfm,r,V,C,title in cap:
    pct=[r.stored_food,r.outdoor_crops,r.seaweed,r.cell_sugar,r.scp,r.greenhouse,r.fish,r.meat,r.milk]
    s=sum(np.array(x.kcals) for x in pct)
    ke=[r.stored_food_kcals_equivalent,r.immediate_outdoor_crops_kcals_equivalent,r.new_stored_outdoor_crops_kcals_equivalent,r.seaweed_kcals_equivalent,r.cell_sugar_kcals_equivalent,r.scp_kcals_equivalent,r.greenhouse_kcals_equivalent,r.fish_kcals_equivalent,r.meat_kcals_equivalent,r.milk_kcals_equivalent]
    s2=sum(np.array(x.kcals) for x in ke)/C['KCALS_DAILY']*100
    cons=np.array([V['consumed_kcals'][m].varValue for m in range(120)]) if typ=='to_humans' else None
    print(typ,'headline %.6f  min sum pct(rounded) %.6f  min sum kcal-eq %.6f  z* %.6f'%(r.percent_people_fed,s.min(),s2.min(),pfm), ' min consumed var %.6f'%cons.min() if cons is not None else '')
    # split
    crops=np.array([V['crops_food_to_humans'][m].varValue for m in range(120)])/C['KCALS_MONTHLY']*1e9/C['POP']*C['KCALS_DAILY']
    split=np.array(r.immediate_outdoor_crops_kcals_equivalent.kcals)+np.array(r.new_stored_outdoor_crops_kcals_equivalent.kcals)
    print('   split adds up (kcal-eq) max abs diff %.3g; percent versions diff %.3g'%(np.abs(split-crops).max(), np.abs(np.array(r.immediate_outdoor_crops.kcals)+np.array(r.new_stored_outdoor_crops.kcals)-np.array(r.outdoor_crops.kcals)).max()))
    f='/repo/results/'+title+'_ykcals.csv'
    df=pd.read_csv(f,float_precision='round_trip')
    print('   csv equal:', all(np.array_equal(df[k].values, np.array(getattr(r,k+'_kcals_equivalent').kcals)) for k in ['fish','cell_sugar','scp','greenhouse','seaweed','milk','meat','immediate_outdoor_crops','new_stored_outdoor_crops','stored_food']), 'neg immediate?', float(np.min(r.immediate_outdoor_crops_kcals_equivalent.kcals)))
    os.remove(f)
