import AllfedModel.Proofs.Supply
import Mathlib.Analysis.SpecialFunctions.Pow.Real
/-!
# C09 — the assumptions on `x ** e` hold for the real power function

`Model/Supply.lean` takes Python's `**` with a real exponent as a parameter `pow`, and the theorems of
C08/C09 assume `PowOK pow` (DESIGN §3).  Here: `Real.rpow` satisfies `PowOK`, so every theorem of
`Props/C08.lean` and `Props/C09.lean` holds over ℝ with `pow x e := x ^ e`.
(Kept in its own file because it is the only place that needs real analysis.)
-/
namespace Allfed.C09
open Allfed.Proofs.Supply

theorem powOK_rpow : PowOK (fun (x e : ℝ) => x ^ e) := by
  refine ⟨?_, ?_, ?_⟩
  · intro x e hx0 hx1 he0 he1
    rcases eq_or_lt_of_le hx0 with h | h
    · subst h; rw [Real.zero_rpow he0.ne']
    · calc x = x ^ (1 : ℝ) := (Real.rpow_one x).symm
        _ ≤ x ^ e := Real.rpow_le_rpow_of_exponent_ge h hx1 he1
  · intro x e hx0 hx1 he0 he1
    exact Real.rpow_le_one hx0 hx1 he0.le
  · intro x; exact Real.rpow_one x

end Allfed.C09
