import AllfedModel.Model.AllocLP
import AllfedModel.Model.PhysSpec
/-
Optimality certificates (property C02).  CBC and HiGHS are not trusted: for a captured instance a
vector of row multipliers `y` (any numbers — e.g. HiGHS' dual values) is turned by `dualBound`
into an upper bound on the objective variable that is valid for *every* feasible point
(weak duality, with the part of the reduced costs that has the wrong sign absorbed by proved
upper bounds of the variables).  `dualBound` is evaluated by the driver in exact rational
arithmetic; its soundness is `Props/C02.lean: dualBound_sound`.
-/
namespace Allfed.Certificate
open Allfed.LP Allfed.AllocLP

section
variable {α : Type} [Add α] [Sub α] [Mul α] [Div α] [Neg α] [LE α] [LT α]
  [DecidableLE α] [DecidableLT α] [OfNat α 0] [OfNat α 1] [OfScientific α]

/-- a multiplier has the right sign for its row: for `lhs ≤ rhs` it must be `≥ 0`, for `≥` it must be `≤ 0` -/
def signOK : Rel → α → Bool
  | .le, y => decide (0 ≤ y)
  | .eq, _ => true
  | .ge, y => decide (y ≤ 0)

/-- `Σ_i y_i · (lhs_i − rhs_i)` as one (un-normalised) affine expression; rows and multipliers are
    aligned by position, missing multipliers count as 0 -/
def combo : List (Row α) → List α → Aff α
  | [], _ => Aff.k 0
  | _ :: _, [] => Aff.k 0
  | r :: rs, y :: ys => Aff.smul y r.normal + combo rs ys

def allSignsOK : List (Row α) → List α → Bool
  | [], _ => true
  | _ :: _, [] => true
  | r :: rs, y :: ys => signOK r.rel y && allSignsOK rs ys

/-- an injective-enough numbering used only to bring equal variables next to each other -/
def vkCode : VK → Nat
  | .sfStart => 0 | .sfEnd => 1 | .sfHumans => 2 | .sfFeed => 3 | .sfBiofuel => 4
  | .scpHumans => 5 | .scpFeed => 6 | .scpBiofuel => 7 | .csHumans => 8 | .csFeed => 9 | .csBiofuel => 10
  | .meatStart => 11 | .meatEnd => 12 | .meatEaten => 13
  | .cropStorage => 14 | .cropConsumed => 15 | .cropHumans => 16 | .cropFeed => 17 | .cropBiofuel => 18
  | .swWet => 19 | .swHumans => 20 | .swFeed => 21 | .swBiofuel => 22 | .usedArea => 23 | .consumedKcals => 24

def varCode : Var → Nat
  | .objective => 0
  | .objectiveBest => 1
  | .mv k m => 2 + 25 * m + vkCode k

/-- merge neighbours that carry the same variable -/
def mergeAdj : List (Var × α) → List (Var × α)
  | [] => []
  | [p] => [p]
  | p :: q :: t => if p.1 = q.1 then mergeAdj ((p.1, p.2 + q.2) :: t) else p :: mergeAdj (q :: t)
termination_by l => l.length

/-- sort by variable code and merge: a normal form with the same value at every point -/
def normalise (l : List (Var × α)) : List (Var × α) :=
  mergeAdj (l.mergeSort (fun a b => decide (varCode a.1 ≤ varCode b.1)))

/-- `Σ_j max(0, r_j) · U_j` over the residual terms; `none` if a positive residual sits on a
    variable without a known upper bound -/
def absorb (ub : Var → Option α) : List (Var × α) → Option α
  | [] => some 0
  | (v, r) :: t =>
    match absorb ub t with
    | none => none
    | some rest =>
      if r ≤ 0 then some rest
      else match ub v with
        | some u => some (r * u + rest)
        | none => none

/-- upper bound on `x .objective` over all feasible `x` of `rows` with `x ≤ ub`:
    objective − Σ y_i·(lhs_i − rhs_i) = Σ_j r_j x_j − c₀, so objective ≤ Σ_j r_j⁺ U_j − c₀ -/
def dualBound (rows : List (Row α)) (y : List α) (ub : Var → Option α) : Option α :=
  if !allSignsOK rows y then none else
  let c := combo rows y
  let resid := normalise ((Var.objective, 1) :: (Aff.neg c).terms)
  match absorb ub resid with
  | none => none
  | some s => some (s - c.const)

/-! ### upper bounds of the variables of `buildLP` (valid for every feasible point) -/

/-- total of a supply series over the horizon -/
def total (l : List α) (n : Nat) : α := (List.range n).foldl (fun acc m => acc + at' l m) 0

/-- a simple bound valid for every feasible point of `buildLP i kind` under `WellFormed i`
    (`Props/C02.lean: ubOf_valid`); `none` where no bound is proved:
    * variables of a resource that is switched off (they occur in no row, only `0 ≤ x v` holds);
    * months outside the horizon;
    * stored-food stock variables with no `Stored_Food_Eaten` row behind them (without storage
      between years: `Stored_Food_End_m` for `m > 12`, `Stored_Food_Start_m` for `m > 13`);
    * meat stock variables without storage between years; seaweed harvest after month 0;
      `Humans_Fed_Kcals`; the objective variables.
    The bound does not depend on the kind of round. -/
def ubOf (i : Inp α) (_kind : Kind) : Var → Option α
  | .objectiveBest => none
  | .objective => none      -- bounded through the objective rows (multipliers take care of it)
  | .mv k m =>
    if i.nmonths ≤ m then none else
    match k with
    | .sfStart =>
      if i.addStored && (i.storeBetweenYears || decide (m ≤ 13)) then some i.storedInitial else none
    | .sfEnd =>
      if i.addStored && (i.storeBetweenYears || decide (m ≤ 12)) then some i.storedInitial else none
    | .sfHumans | .sfFeed | .sfBiofuel =>
      if !i.addStored then none
      else if i.storeBetweenYears || decide (m ≤ 12) then some i.storedInitial else some 0
    | .cropStorage | .cropConsumed | .cropFeed | .cropBiofuel | .cropHumans =>
      if i.addOutdoor then some (total i.cropProd (m + 1)) else none
    | .meatStart | .meatEnd => if i.addMeat && i.storeBetweenYears then some i.meatSummed else none
    | .meatEaten =>
      if !i.addMeat then none
      else if i.storeBetweenYears then some i.meatSummed else some (at' i.slaughtered m)
    | .scpHumans | .scpFeed | .scpBiofuel => if i.addScp then some (at' i.scp m) else none
    | .csHumans | .csFeed | .csBiofuel => if i.addCs then some (at' i.cs m) else none
    | .swWet => if i.addSeaweed then some (i.maxDensity * at' i.builtArea m) else none
    | .usedArea => if i.addSeaweed then some (at' i.builtArea m) else none
    | .swHumans | .swFeed | .swBiofuel => if i.addSeaweed && decide (m = 0) then some 0 else none
    | .consumedKcals => none

/-- what `ubOf` needs of the inputs: wastes in `[0, 100)` (so that people never receive more than
    is drawn), supplies and stocks non-negative -/
def WellFormed (i : Inp α) : Prop :=
  (0 ≤ i.wStored ∧ i.wStored < 100.0) ∧ (0 ≤ i.wCrop ∧ i.wCrop < 100.0) ∧ (0 ≤ i.wMeat ∧ i.wMeat < 100.0) ∧
  (0 ≤ i.wScp ∧ i.wScp < 100.0) ∧ (0 ≤ i.wCs ∧ i.wCs < 100.0) ∧ (0 ≤ i.wSeaweed ∧ i.wSeaweed < 100.0) ∧
  (∀ m, 0 ≤ at' i.cropProd m) ∧ 0 ≤ i.storedInitial

end
end Allfed.Certificate
