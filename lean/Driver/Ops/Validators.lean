import AllfedModel.Model.Validators
import Driver.Wire
open Wire Allfed Allfed.LP Allfed.Validators

/-!
Driver ops for the model of `validate_results.py` (`harness/lib/validators.py`).
Every op answers with the outcome (`pass | skipped | warned | raised`) or `error` (an exception of the
code that is not an AssertionError: ValueError / KeyError / AttributeError).
-/
namespace Ops.Validators

def flagsP : P Flags := do
  let f ← bool; let p ← bool
  pure ⟨f, p⟩

def nutrP : P (Nutr Float) := do
  let k ← floats; let f ← floats; let p ← floats
  pure ⟨k, f, p⟩

/-- order: stored food, outdoor crops, seaweed, sugar, SCP, greenhouse, fish, meat, milk, immediate, new stored -/
def foodsP : P (Foods Float) := do
  let a ← nutrP; let b ← nutrP; let c ← nutrP; let d ← nutrP; let e ← nutrP; let f ← nutrP
  let g ← nutrP; let h ← nutrP; let i ← nutrP; let j ← nutrP; let k ← nutrP
  pure ⟨a, b, c, d, e, f, g, h, i, j, k⟩

def seriesListP : P (List (List Float)) := list floats

def dictP : P (List (String × List Float)) := list (do let k ← str; let s ← floats; pure (k, s))

def outO (o : Outcome) : String := o.name
def outOpt : Option Outcome → String
  | none => "error"
  | some o => o.name

def allGe0Op : P String := do
  let fl ← flagsP; let r ← foodsP
  pure (outO (ensureAllGe0 fl r))

def neverNanOp : P String := do
  let _fl ← flagsP; let r ← foodsP
  pure (outO (ensureNeverNan r))

def zeroKcalsOp : P String := do
  let fl ← flagsP; let r ← foodsP
  pure (outO (ensureZeroKcals fl r))

def sameSumOp : P String := do
  let opt ← float; let head ← float; let code ← str
  pure (outO (optimizerSameAsSum opt head code) ++ " " ++ outB (optimizerSameAsSumWarns opt head code))

/-- a row of a PuLP model: `Σ coef·var + constant  rel  0`; variables are numbered by the harness -/
def rowP : P (Row Float) := do
  let nm ← str
  let rel ← tok
  let terms ← list (do let v ← nat; let c ← float; pure ((Var.mv .sfStart v, c) : Var × Float))
  let const ← float
  let r ← match rel with
    | "le" => pure Rel.le
    | "eq" => pure Rel.eq
    | "ge" => pure Rel.ge
    | _ => throw s!"bad rel {rel}"
  pure ⟨nm, ⟨terms, const⟩, r, Aff.k 0⟩

/-- val.constraints tol (skip names) (rows) (values by variable number) -/
def constraintsOp : P String := do
  let tol ← float
  let skip ← list str
  let rows ← list rowP
  let vals ← floats
  let arr := vals.toArray
  let x : Var → Float := fun v =>
    match v with
    | .mv _ m => arr.getD m 0.0
    | _ => 0.0
  pure (outOpt (checkConstraints tol skip rows x))

def populationOp : P String := do
  let eps ← float; let d ← dictP
  pure (outO (populationNotIncreasing eps d))

def round2GtOp : P String := do
  let eps ← float; let small ← float; let d1 ← dictP; let d2 ← dictP
  pure (outOpt (round2GreaterThanRound1 eps small d1 d2))

def meatDairyOp : P String := do
  let eps ← float; let m1 ← floats; let m2 ← floats; let k1 ← floats; let k2 ← floats
  pure (outO (meatDairyNotDecreasing eps m1 m2 k1 k2))

def minSumOp : P String := do
  let fl ← flagsP; let eps ← float; let kd ← float; let months ← seriesListP
  pure (outO (minConsumptionSum fl eps kd months))

def prioritiesOp : P String := do
  let fl ← flagsP; let eps ← float
  let months ← list (list (do let u ← float; let a ← float; pure (u, a)))
  pure (outO (usagePriorities fl eps months))

def fewerOp : P String := do
  let fl ← flagsP; let eps ← float; let ae ← float
  let feed2 ← floats; let bio2 ← floats; let f2 ← seriesListP; let f3 ← seriesListP
  pure (outO (fewerCaloriesRound2 fl eps ae feed2 bio2 f2 f3))

def belowOp : P String := do
  let fl ← flagsP; let eps ← float; let mult ← float; let demand ← floats; let src ← seriesListP
  pure (outOpt (usedBelowDemand fl eps mult demand src))

def feed32Op : P String := do
  let fl ← flagsP; let eps ← float; let s2 ← seriesListP; let s3 ← seriesListP
  pure (outOpt (feedRound3BelowRound2 fl eps s2 s3))

def starvingOp : P String := do
  let fl ← flagsP; let pf ← float; let b ← seriesListP; let f ← seriesListP
  pure (outO (feedZeroIfStarving fl pf b f))

def round31Op : P String := do
  let t ← float; let p1 ← float; let p3 ← float; let eps ← float
  pure (outO (round3NotLowerThanRound1 t p1 p3 eps))

/-- val.defaults → the default tolerances of the model -/
def defaultsOp : P String := do
  let d : List (String × Float) := defaults
  pure (" ".intercalate (toString d.length :: d.map fun kv => encodeStr kv.1 ++ " " ++ outF kv.2))

def ops : List (String × P String) :=
  [("val.defaults", defaultsOp), ("val.allge0", allGe0Op), ("val.nevernan", neverNanOp), ("val.zerokcals", zeroKcalsOp), ("val.samesum", sameSumOp),
   ("val.constraints", constraintsOp), ("val.population", populationOp), ("val.round2gt", round2GtOp),
   ("val.meatdairy", meatDairyOp), ("val.minsum", minSumOp), ("val.priorities", prioritiesOp), ("val.fewer", fewerOp),
   ("val.below", belowOp), ("val.feed32", feed32Op), ("val.starving", starvingOp), ("val.round31", round31Op)]

end Ops.Validators
