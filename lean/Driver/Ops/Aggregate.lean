import AllfedModel.Model.Aggregate
import Driver.Wire
open Wire Allfed Allfed.Aggregate

namespace Ops.Aggregate

def strs : P (List String) := list str

/-- agg.runAndSkip <list> -> exclusive skip -/
def runAndSkipOp : P String := do
  let l ← strs
  let rs := runAndSkip l
  pure (outL encodeStr rs.1 ++ " " ++ outL encodeStr rs.2)

/-- agg.select <list> <table codes> -> selected codes in table order -/
def selectOp : P String := do
  let l ← strs; let t ← strs
  pure (outL encodeStr (select l t))

/-- one table row: iso3 name pop tag frac   (tag 0 = the run returned NaN) -/
def row : P (Country Float × Option Float) := do
  let iso ← str; let nm ← str; let pop ← float; let tag ← nat; let fr ← float
  pure (⟨iso, nm, pop⟩, if tag == 0 then none else some fr)

/-- agg.run <list> <n> (iso3 name pop tag frac)*n -> netPop netPopFed keys aggregate(ran)
    (the per-country outcome is looked up by (iso3, name): rows of the real table are distinct) -/
def runOp : P String := do
  let l ← strs
  let rows ← list row
  let table : List (Country Float) := rows.map (·.1)
  let frac : Country Float → Option Float := fun c =>
    match rows.find? (fun (d, _) => d.iso3 == c.iso3 && d.name == c.name) with
    | some (_, f) => f
    | none => none
  let out := runLoop l table frac
  pure (outF out.netPop ++ " " ++ outF out.netPopFed ++ " " ++ outL encodeStr out.keys ++ " " ++ outF (aggregate (ran l table frac)))

def ops : List (String × P String) :=
  [("agg.runAndSkip", runAndSkipOp), ("agg.select", selectOp), ("agg.run", runOp)]

end Ops.Aggregate
