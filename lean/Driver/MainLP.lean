import Driver.Loop
import Driver.Ops.LP
def main : IO Unit := runDriver Ops.LP.ops
