"""C14 - a run's result depends only on its own inputs (DESIGN.md §7 C14)."""
import json, os, subprocess, sys
from concurrent.futures import ThreadPoolExecutor
from lib import lpcheck, pipeline, wire
from lib.wire import enc_str, Reader

ID = "C14"
LEVEL = "proof"
DRIVER = "driver_runstate"
LEAN_MODULES = ["AllfedModel.Props.C14"]
OBLIGATIONS = ["Allfed.C14." + n for n in ["write_before_read", "exec_independent", "history_independent", "order_independent",
                                            "read_before_write_counterexample"]]
LEVEL_TEXT = ("partial. Lean 4 theorem over ALL histories and orders: a run that writes its settings into the process-wide cell (Food.conversions) before reading it observes the same "
              "values after any sequence of other runs as alone in a fresh process; the premise (write before read, on the real event trace) is checked for every run. Everything else that is "
              "process-wide (module tables, PuLP counters, solver temp files) is covered only by the differential part: the same (country, scenario) runs executed in different orders, "
              "repeated, and alone in fresh processes, compared bit for bit (headline, every monthly series, herd trajectories).")
LEVEL_NOTE = ("Trusted: Lean kernel; the harness (event tracing by wrapping set_nutrition_requirements/get_conversions, fresh processes via subprocess, SHA-256 of the float bytes). "
              "Only Food.conversions is modelled; other global state is sampled by the differential runs (partial).")
TECHNIQUE = "Lean 4 proof over all histories of a write/read state machine + bitwise differential runs in fresh processes"
RULE = ("histories = batches of real (country, scenario) runs executed in one fresh process each, in different orders and with repetitions, plus every run alone in its own fresh process; "
        "a case = one run inside one history, compared field by field (bit-exact) with the same run alone; non-trivial = the history has other runs before it; distinct = (history, position)")
ASSUMPTIONS = ["runs are compared on percent_people_fed, every Food-valued attribute of the interpreted result (numbers and unit labels), numeric arrays, and the meat/population dictionaries"]


def run_batch(repo, batch, timeout=1500):
    script = os.path.join(os.environ["VERIF_ROOT"], "harness", "lib", "runbatch.py")
    p = subprocess.run([sys.executable, "-W", "ignore", script, repo, json.dumps(batch)], capture_output=True, text=True, timeout=timeout, cwd=repo)
    outs = [json.loads(l[4:]) for l in p.stdout.split("\n") if l.startswith("RUN ")]
    return outs, p.returncode, p.stderr[-800:]


def histories(ctx):
    base = [("ARG", pipeline.options(NMONTHS=48)),
            ("DJI", pipeline.options(NMONTHS=48, nutrition="baseline", ratio_stocks_untouched="baseline_no_stored_between_years")),
            ("JPN", pipeline.options(NMONTHS=48, scenario="seaweed", waste="zero")),
            ("USA", pipeline.options(NMONTHS=60, scenario="no_resilient_foods", shutoff="continued", meat_strategy="baseline_breeding"))]
    isos = sorted(pipeline.country_rows())
    nextra = ctx.budget(0, 8)
    for _ in range(nextra):
        iso, o = lpcheck.random_preset(ctx.rng, isos)
        base.append((iso, pipeline.options(**o)))
    hs = [list(base), list(reversed(base))]
    h3 = [base[1], base[1], base[0], base[3], base[0]]
    hs.append(h3)
    # the same country twice with settings that differ only in part (nutrition profile: same kcals, other fat/protein)
    arg_b = ("ARG", pipeline.options(NMONTHS=48, nutrition="baseline"))
    hs.append([arg_b, base[0], arg_b])
    for _ in range(ctx.budget(0, 20)):
        h = list(base)
        ctx.rng.shuffle(h)
        hs.append(h[: ctx.rng.randint(2, len(h))] + [ctx.rng.choice(base)])
    # the same country twice with option sets that differ in exactly ONE option (a result kept from the earlier run under a key that
    # ignores that option shows here), both orders
    rng = ctx.rng
    VARIANTS = [("grasses", "baseline"), ("crop_disruption", "zero"), ("fish", "baseline"), ("waste", "zero"), ("scenario", "no_resilient_foods"),
                ("stored_food", "zero"), ("shutoff", "immediate"), ("cull", "dont_eat_culled"), ("nutrition", "baseline"), ("seasonality", "no_seasonality"),
                ("intake_constraints", "disabled_for_humans"), ("ratio_stocks_untouched", "baseline")]
    anchors = [("ARG", pipeline.options(NMONTHS=48, meat_strategy="baseline_breeding", shutoff="immediate")), base[0], base[3]]
    for iso, o in anchors[: ctx.budget(2, 3)]:
        for key, val in rng.sample(VARIANTS, ctx.budget(2, 6)):
            if o.get(key) == val:
                continue
            v = (iso, dict(o, **{key: val}))
            base.append(v)
            if (iso, o) not in base:
                base.append((iso, o))
            hs.append([v, (iso, o)])
            hs.append([(iso, o), v])
    # a run that carries optional overrides (custom herd size, meat per large animal, minimum share) followed by runs that carry none
    ov = ("ARG", pipeline.options(NMONTHS=48, kg_meat_per_large_animal=350, meat_cattle_head=20000000))
    plain = [("URY", pipeline.options(NMONTHS=48)), base[0]]
    base += [ov, plain[0]]
    hs.append([ov, plain[0], plain[1]])
    ov2 = ("DJI", pipeline.options(NMONTHS=48, MINIMUM_PERCENT_FED_BEFORE_NONHUMAN_CONSUMPTION_ALLOWED=10, milk_cattle_head=50000))
    base.append(ov2)
    hs.append([ov2, base[0], plain[0]])
    return base, hs


# the multi-country driver shares ONE options dictionary between the countries of a list; ALB is a country whose
# scenario the code rewrites (alter_scenario_if_known_to_fail) under this option set
NOTRADE_OPTS = pipeline.options(NMONTHS=48, scenario="seaweed", shutoff="continued")
NOTRADE_LISTS = [["ALB", "ARG"], ["ARG"], ["ALB"], ["ARG", "DJI", "ALB"]]


def key(r):
    return json.dumps([r[0], r[1]], sort_keys=True)


def correspondence(ctx):
    base, hs = histories(ctx)
    jobs = [("alone", [b]) for b in base] + [("history", h) for h in hs]
    with ThreadPoolExecutor(max_workers=min(14, len(jobs))) as ex:
        results = list(ex.map(lambda j: run_batch(ctx.repo, j[1]), jobs))
    alone = {}
    for (kind, batch), (outs, rc, err) in zip(jobs, results):
        if kind == "alone":
            if len(outs) != 1:
                ctx.break_("fresh-process-run-failed", "rc=%s %s" % (rc, err))
                continue
            alone[key(batch[0])] = outs[0]
    # multi-country driver: every country of a list vs the same country run through the driver alone
    nt_jobs = [[["NOTRADE", NOTRADE_OPTS, lst]] for lst in NOTRADE_LISTS]
    with ThreadPoolExecutor(max_workers=len(nt_jobs)) as ex:
        nt_res = list(ex.map(lambda j: run_batch(ctx.repo, j), nt_jobs))
    nt_alone = {}
    for lst, (outs, rc, err) in zip(NOTRADE_LISTS, nt_res):
        if not outs:
            ctx.break_("no-trade-batch-failed", "rc=%s %s" % (rc, err))
        if len(lst) == 1:
            for o in outs:
                if o["iso"].startswith("NOTRADE:"):
                    nt_alone[o["iso"]] = o
    for lst, (outs, rc, err) in zip(NOTRADE_LISTS, nt_res):
        for o in outs:
            if o["iso"] == "NOTRADE-AGG" and o["error"]:
                ctx.count("no-trade-run-error")
            if len(lst) > 1 and o["iso"] in nt_alone:
                a = nt_alone[o["iso"]]
                diff = [f for f in sorted(set(o["fingerprint"]) | set(a["fingerprint"])) if o["fingerprint"].get(f) != a["fingerprint"].get(f)]
                case = {"driver": "run_model_no_trade", "countries_list": lst, "country": o["iso"][8:], "options": NOTRADE_OPTS}
                if diff:
                    ctx.violation("history-dependent-result", "%s run through run_model_no_trade with countries %s differs from the same country run alone in: %s" % (
                        o["iso"][8:], lst, diff[:6]), dict(case, fields=diff[:20]))
                ctx.case(("notrade", tuple(lst), o["iso"]), nontrivial=True, sample={"driver": "run_model_no_trade", "countries_list": lst, "country": o["iso"][8:],
                                                                                      "fields_compared": len(o["fingerprint"])})
                ctx.count("no-trade-runs-compared-bitwise")
    lines = []
    meta = []
    for (kind, batch), (outs, rc, err) in zip(jobs, results):
        if len(outs) != len(batch):
            ctx.break_("batch-run-failed", "rc=%s got %d of %d runs: %s" % (rc, len(outs), len(batch), err))
            continue
        # event traces -> Lean: shape + observations in the history vs alone
        toks = [str(len(outs))]
        for o in outs:
            evs = ["r"] * o["reads_before_first_write"]
            w = o["writes"][0] if o["writes"] else None
            if w is not None:
                evs += ["w " + enc_str(w)] + ["r"] * max(0, min(3, o["n_events"] - o["reads_before_first_write"] - o["n_writes"]))
            toks.append(str(len(evs)) + (" " + " ".join(evs) if evs else ""))
        lines.append("runstate.history " + " ".join(toks))
        meta.append((kind, batch, outs))
        for pos, (b, o) in enumerate(zip(batch, outs)):
            case = {"history": [x[0] for x in batch], "position": pos, "country": b[0], "options": b[1], "kind": kind}
            if o["reads_before_first_write"] > 0:
                ctx.violation("reads-settings-before-writing", "%s: the run reads the process-wide unit settings %d time(s) before establishing its own (trace %s)" % (
                    b[0], o["reads_before_first_write"], o["trace_head"]), case)
            if len(o["writes"]) > 1:
                ctx.count("runs-writing-more-than-one-distinct-setting")
            a = alone.get(key(b))
            if a is None:
                continue
            if (o["error"] is None) != (a["error"] is None):
                ctx.violation("history-dependent-failure", "%s: fails in one context and not in the other (%r vs alone %r)" % (b[0], o["error"], a["error"]), case)
                continue
            if o["fingerprint"] is None or a["fingerprint"] is None:
                continue
            diff = [f for f in sorted(set(o["fingerprint"]) | set(a["fingerprint"])) if o["fingerprint"].get(f) != a["fingerprint"].get(f)]
            if diff:
                ctx.violation("history-dependent-result", "%s at position %d of history %s differs from the same run alone in a fresh process in: %s" % (
                    b[0], pos, [x[0] for x in batch], diff[:6]), dict(case, fields=diff[:20]))
            if kind == "history":
                ctx.case((tuple(key(x) for x in batch), pos), nontrivial=pos > 0,
                         sample={"history": [x[0] for x in batch], "position": pos, "country": b[0], "fields_compared": len(o["fingerprint"]),
                                 "reads_before_first_write": o["reads_before_first_write"], "writes": o["n_writes"], "events": o["n_events"]})
            ctx.count("runs-compared-bitwise" if kind == "history" else "runs-alone")
    outs = ctx.lean(lines) if lines else []
    for (kind, batch, res), line in zip(meta, outs):
        rd = Reader(line)
        n = rd.nat()
        for pos in range(n):
            shape = rd.bool()
            inh = rd.strs()
            al = rd.strs()
            if shape and inh != al:
                ctx.disagree("C14:trace-observations", {"history": [x[0] for x in batch], "position": pos}, al, inh)
            if not shape:
                ctx.count("trace-shape-not-write-first")
        ctx.count("traces-checked", n)
    # the shipped YAML entry point: a simulation after a simulation with optional overrides, in one file, vs the same options run directly
    from props import c16
    c16.yaml_independence_part(ctx)


def search(ctx):
    ctx.quick = False
    correspondence(ctx)


def replay(ctx, rep):
    n0 = len(ctx.violations)
    correspondence(ctx)
    return len(ctx.violations) > n0, ctx.violations[n0:n0 + 3]
